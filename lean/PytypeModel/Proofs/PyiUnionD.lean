import PytypeModel.Proofs.PyiUnionC

/-! C05, unions, part D: `UnionType(...)` / `JoinTypes` on distinct non-union members; parsing the sugar. -/
namespace PytypeModel.Pytd

/-! ### `dedupPy`, `flattenUnionMembers`, `mkUnion`, `joinTypes` -/

theorem dedupPy_of_distinct : ∀ {l : List Ty}, pyDistinct l = true → dedupPy l = l
  | [], _ => rfl
  | t :: ts, h => by
    simp only [pyDistinct, Bool.and_eq_true] at h
    simp only [dedupPy, dedupPy_of_distinct h.2]
    congr 1
    rw [List.filter_eq_self]
    intro a ha
    exact List.all_eq_true.1 h.1 a ha

theorem pyDistinct_append_left : ∀ {a b : List Ty}, pyDistinct (a ++ b) = true → pyDistinct a = true
  | [], _, _ => rfl
  | t :: ts, b, h => by
    simp only [List.cons_append, pyDistinct, Bool.and_eq_true, List.all_append] at h
    simp only [pyDistinct, Bool.and_eq_true]
    exact ⟨h.1.1, pyDistinct_append_left h.2⟩

theorem pyDistinct_append_right : ∀ {a b : List Ty}, pyDistinct (a ++ b) = true → pyDistinct b = true
  | [], _, h => h
  | t :: ts, b, h => by
    simp only [List.cons_append, pyDistinct, Bool.and_eq_true] at h
    exact pyDistinct_append_right h.2

theorem flatten_no_union : ∀ {l : List Ty}, (∀ t ∈ l, isUnionTy t = false) → flattenUnionMembers l = l
  | [], _ => rfl
  | t :: ts, h => by
    have ht := h t (by simp)
    have ih := flatten_no_union (l := ts) (fun a ha => h a (by simp [ha]))
    cases t <;> simp [isUnionTy] at ht <;> simp [flattenUnionMembers, ih]

theorem flatten_append (a b : List Ty) :
    flattenUnionMembers (a ++ b) = flattenUnionMembers a ++ flattenUnionMembers b := by
  induction a with
  | nil => rfl
  | cons t ts ih => cases t <;> simp [flattenUnionMembers, ih]

theorem mkUnion_distinct {l : List Ty} (hu : ∀ t ∈ l, isUnionTy t = false) (hd : pyDistinct l = true) :
    mkUnion l = .union l := by
  unfold mkUnion
  rw [flatten_no_union hu, dedupPy_of_distinct hd]

def allLits (l : List Ty) : Prop := ∀ t ∈ l, ∃ v, t = .literal v

theorem allLits_no_union {l : List Ty} (h : allLits l) : ∀ t ∈ l, isUnionTy t = false := by
  intro t ht; obtain ⟨v, rfl⟩ := h t ht; rfl

/-- the join of the literal group -/
def litJoin (lits : List Ty) : Ty := match lits with | [t] => t | _ => .union lits

/-- `JoinTypes` of distinct literals: the literal itself, or their union -/
theorem joinTypes_lits {l : List Ty} (h : allLits l) (hd : pyDistinct l = true) (hne : l ≠ []) :
    joinTypes l = litJoin l := by
  have hfil : (flattenUnionMembers l).filter (· ≠ .nothing) = l := by
    rw [flatten_no_union (allLits_no_union h), List.filter_eq_self]
    intro a ha
    obtain ⟨v, rfl⟩ := h a ha
    simp
  unfold joinTypes
  simp only [hfil, dedupPy_of_distinct hd]
  cases l with
  | nil => exact absurd rfl hne
  | cons a as =>
    cases as with
    | nil => rfl
    | cons b bs =>
      have hany : (a :: b :: bs).any (fun t => decide (t = Ty.any)) = false := by
        rw [Bool.eq_false_iff]
        intro hc
        obtain ⟨t, ht, he⟩ := List.any_eq_true.1 hc
        obtain ⟨v, hv⟩ := h t ht
        subst hv
        simp at he
      simp only [hany, Bool.false_eq_true, if_false]
      exact mkUnion_distinct (allLits_no_union h) hd

theorem flatten_joinLits {l : List Ty} (h : allLits l) (hne : l ≠ []) :
    flattenUnionMembers [litJoin l] = l := by
  cases l with
  | nil => exact absurd rfl hne
  | cons a as =>
    cases as with
    | nil =>
      obtain ⟨v, rfl⟩ := h a (by simp)
      rfl
    | cons b bs => simp [litJoin, flattenUnionMembers]

theorem postTys_lits (tps : List String) {l : List Ty} (h : allLits l) : postTys tps l = l := by
  rw [postTys_eq_map]
  conv => rhs; rw [← List.map_id l]
  apply List.map_congr_left
  intro a ha
  obtain ⟨v, rfl⟩ := h a ha
  simp [postTy]

theorem postTy_joinLits (tps : List String) {l : List Ty} (h : allLits l) (hd : pyDistinct l = true) :
    postTy tps (litJoin l) = litJoin l := by
  cases l with
  | nil => simp [litJoin, postTy, postTys, mkUnion, flattenUnionMembers, dedupPy]
  | cons a as =>
    cases as with
    | nil => obtain ⟨v, rfl⟩ := h a (by simp); simp [litJoin, postTy]
    | cons b bs =>
      simp only [litJoin, postTy, postTys_lits tps h]
      exact mkUnion_distinct (allLits_no_union h) hd

/-! ### parsing `Literal[v₁, …]`, `Union[…]`, `Optional[…]` -/

def litOK : Lit → Bool
  | .enumMember _ _ => false
  | _ => true

theorem parseLitArgs_lits (d : Defs) : ∀ (vs : List Lit), (∀ v ∈ vs, litOK v = true) →
    parseLitArgs d (vs.map litExpr) = .ok (vs.map PArg.lit)
  | [], _ => rfl
  | v :: vs, h => by
    have ih := parseLitArgs_lits d vs (fun a ha => h a (by simp [ha]))
    have hv := h v (by simp)
    cases v with
    | int n => simp [litExpr, parseLitArgs, ih]; rfl
    | str s => simp [litExpr, parseLitArgs, ih]; rfl
    | bool b => simp [litExpr, parseLitArgs, ih]; rfl
    | enumMember c m => simp [litOK] at hv

theorem litParamsTypes_lits : ∀ (vs : List Lit), litParamsTypes (vs.map PArg.lit) = .ok (vs.map Ty.literal)
  | [] => rfl
  | v :: vs => by
    simp only [List.map_cons, litParamsTypes, litParamTypes, litParamsTypes_lits vs]
    rfl

theorem pytdLiteral_lits (vs : List Lit) :
    pytdLiteral (vs.map PArg.lit) = .ok (joinTypes (vs.map Ty.literal)) := by
  unfold pytdLiteral
  rw [litParamsTypes_lits]
  rfl

theorem parse_literal_sugar {g : GCtx} (hg : GOK g) {d : Defs} {needs : List String} (henv : EnvOK g d needs)
    (hL : "Literal" ∈ needs) (hLg : "Literal" ∈ g.adds) (vs : List Lit) (hok : ∀ v ∈ vs, litOK v = true) :
    parseTy d (.sub (.name "Literal") (vs.map litExpr)) = .ok (joinTypes (vs.map Ty.literal)) := by
  have hsp : special d "Literal" = .literal := by
    rw [special_of_single henv (by decide) (adds_not_alias hg hLg)]; rfl
  have hres : resolveType d "Literal" = .named "typing.Literal" := by
    rw [resolveType_imp henv hL (by decide)]; rfl
  unfold parseTy
  simp only [dottedName, hsp, parseLitArgs_lits d vs hok]
  show newType d "Literal" (some (vs.map PArg.lit)) = _
  unfold newType
  rw [hres]
  simp only [show ¬ ((vs.map PArg.lit).length > 1 ∧ "typing.Literal" = "typing.Optional") from by
    intro h; exact absurd h.2 (by decide)]
  simp only [if_false]
  unfold parameterized
  rw [special_typing_Literal]
  exact pytdLiteral_lits vs

theorem parse_union_sugar {g : GCtx} (hg : GOK g) {d : Defs} {needs : List String} (henv : EnvOK g d needs)
    (hU : "Union" ∈ needs) (hUg : "Union" ∈ g.adds) {es : List PyExpr} {pres : List Ty}
    (hp : ParsesTo d es pres) (hne : pres ≠ []) :
    parseTy d (.sub (.name "Union") es) = .ok (.generic (.named "typing.Union") pres) := by
  have hsp : special d "Union" = .plain := by
    rw [special_of_single henv (by decide) (adds_not_alias hg hUg)]; rfl
  have hres : resolveType d "Union" = .named "typing.Union" := by
    rw [resolveType_imp henv hU (by decide)]; rfl
  have hsp2 : special d "typing.Union" = .plain := by
    rw [special_of_typing (x := "Union") (by decide)]; rfl
  rw [parseTy_sub_plain d _ _ hsp, if_neg (ParsesTo_ne_emptyTuple hp), parseArgs_types hp]
  show newType d "Union" (some (pres.map PArg.ty)) = _
  rw [newType_params hres (by decide), parameterized_plain hsp2 (by decide) hne]

theorem parse_optional_sugar {g : GCtx} (hg : GOK g) {d : Defs} {needs : List String} (henv : EnvOK g d needs)
    (hO : "Optional" ∈ needs) (hOg : "Optional" ∈ g.adds) {e : PyExpr} {pre : Ty}
    (hp : parseTy d e = .ok pre) (hs : isTypeExpr e = true) :
    parseTy d (.sub (.name "Optional") [e]) = .ok (.generic (.named "typing.Optional") [pre]) := by
  have hsp : special d "Optional" = .plain := by
    rw [special_of_single henv (by decide) (adds_not_alias hg hOg)]; rfl
  have hres : resolveType d "Optional" = .named "typing.Optional" := by
    rw [resolveType_imp henv hO (by decide)]; rfl
  have hsp2 : special d "typing.Optional" = .plain := by
    rw [special_of_typing (x := "Optional") (by decide)]; rfl
  have hpt : ParsesTo d [e] [pre] := ⟨⟨hp, hs⟩, trivial⟩
  rw [parseTy_sub_plain d _ _ hsp, if_neg (ParsesTo_ne_emptyTuple hpt), parseArgs_types hpt]
  show newType d "Optional" (some [.ty pre]) = _
  unfold newType
  rw [hres]
  simp only [List.length_cons, List.length_nil]
  rw [if_neg (by omega)]
  exact parameterized_plain (ts := [pre]) hsp2 (by decide) (by simp)

theorem postTy_Union_name {g : GCtx} (hg : GOK g) : postTy g.tps (.named "typing.Union") = .named "typing.Union" := by
  rw [postTy_named, tps_not_dotted hg (n := "typing.Union") (a := "typing") (b := "Union") (l := []) (by decide)]
  decide

theorem postTy_Optional_name {g : GCtx} (hg : GOK g) :
    postTy g.tps (.named "typing.Optional") = .named "typing.Optional" := by
  rw [postTy_named,
    tps_not_dotted hg (n := "typing.Optional") (a := "typing") (b := "Optional") (l := []) (by decide)]
  decide

theorem postTy_union_sugar {g : GCtx} (hg : GOK g) (pres : List Ty) :
    postTy g.tps (.generic (.named "typing.Union") pres) = mkUnion (postTys g.tps pres) := by
  have h : postTy g.tps (.generic (.named "typing.Union") pres) =
      (if tyBaseName (postTy g.tps (.named "typing.Union")) = "typing.Optional" then
        mkUnion (postTys g.tps pres ++ [.named "NoneType"])
       else if tyBaseName (postTy g.tps (.named "typing.Union")) = "typing.Union" then mkUnion (postTys g.tps pres)
       else .generic (postTy g.tps (.named "typing.Union")) (postTys g.tps pres)) := by
    simp [postTy]
  rw [h, postTy_Union_name hg]
  simp [tyBaseName]

theorem postTy_optional_sugar {g : GCtx} (hg : GOK g) (pre : Ty) :
    postTy g.tps (.generic (.named "typing.Optional") [pre]) = mkUnion ([postTy g.tps pre] ++ [noneTy]) := by
  have h : postTy g.tps (.generic (.named "typing.Optional") [pre]) =
      (if tyBaseName (postTy g.tps (.named "typing.Optional")) = "typing.Optional" then
        mkUnion (postTys g.tps [pre] ++ [.named "NoneType"])
       else if tyBaseName (postTy g.tps (.named "typing.Optional")) = "typing.Union" then
        mkUnion (postTys g.tps [pre])
       else .generic (postTy g.tps (.named "typing.Optional")) (postTys g.tps [pre])) := by
    simp [postTy]
  rw [h, postTy_Optional_name hg]
  simp [tyBaseName, postTys, noneTy]

end PytypeModel.Pytd
