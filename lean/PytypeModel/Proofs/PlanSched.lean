import PytypeModel.Proofs.Plan

/-! Schedules, uniqueness of build statements, once-only checking (helper lemmas for Props/C19). -/
namespace PytypeModel.Plan

/-- `σ` is an execution order ninja may choose for plan `p`: it runs exactly the statements of `p`
and never starts a statement before every statement producing one of its declared deps. -/
def Sched (p σ : List Step) : Prop :=
  σ.Perm p ∧
  ∀ i (hi : i < σ.length), ∀ d ∈ σ[i].deps, ∀ j (hj : j < σ.length), σ[j].out = d → j < i

theorem OrderedIdx.deps_are_outputs {p : List Step} (h : OrderedIdx p) :
    ∀ s ∈ p, ∀ d ∈ s.deps, ∃ t ∈ p, t.out = d := by
  intro s hs d hd
  obtain ⟨i, hi, rfl⟩ := List.mem_iff_getElem.1 hs
  obtain ⟨j, hj, hjo⟩ := h i hi d hd
  exact ⟨_, List.getElem_mem _, hjo⟩

theorem sched_reach {p σ : List Step} (hs : Sched p σ)
    (hout : ∀ s ∈ p, ∀ d ∈ s.deps, ∃ t ∈ p, t.out = d) {s : Step} {v : Out} (r : Reach p s v) :
    ∀ i (hi : i < σ.length), σ[i] = s → ∃ j, ∃ (hj : j < i), (σ[j]'(Nat.lt_trans hj hi)).out = v := by
  induction r with
  | @direct s v hv =>
    intro i hi his
    have hsp : s ∈ p := hs.1.mem_iff.1 (his ▸ List.getElem_mem _)
    obtain ⟨t, ht, hto⟩ := hout s hsp v hv
    obtain ⟨j, hj, hjt⟩ := List.mem_iff_getElem.1 (hs.1.mem_iff.2 ht)
    have hlt : j < i := hs.2 i hi v (his ▸ hv) j hj (hjt ▸ hto)
    exact ⟨j, hlt, hjt ▸ hto⟩
  | @trans s t v ht hd _ ih =>
    intro i hi his
    obtain ⟨j, hj, hjt⟩ := List.mem_iff_getElem.1 (hs.1.mem_iff.2 ht)
    have hlt : j < i := hs.2 i hi t.out (his ▸ hd) j hj (by rw [hjt])
    obtain ⟨k, hk, hko⟩ := ih j hj hjt
    exact ⟨k, Nat.lt_trans hk hlt, hko⟩

/-! ### distinct outputs -/

theorem pairwise_ne_of_map {α β : Type} (f : α → β) (l : List α) (h : (l.map f).Nodup) :
    l.Pairwise (fun a b => f a ≠ f b) := by
  unfold List.Nodup at h
  exact List.pairwise_map.1 h

theorem nodup_all_eq {α : Type} (a : α) : ∀ (l : List α), l.Nodup → (∀ x ∈ l, x = a) → l.length ≤ 1
  | [], _, _ => by simp
  | [_], _, _ => by simp
  | x :: y :: r, hn, he => by
    exfalso
    have hx := he x (by simp)
    have hy := he y (by simp)
    unfold List.Nodup at hn
    have := (List.pairwise_cons.1 hn).1 y (by simp)
    exact this (hx.trans hy.symm)

theorem ids_nodup_keys (l : List Mod) (h : (l.map (·.id)).Nodup) :
    (l.map (fun m => (m.id, true)) ++ l.map (fun m => (m.id, false))).Nodup := by
  have hp := pairwise_ne_of_map (·.id) l h
  unfold List.Nodup
  rw [List.pairwise_append]
  refine ⟨?_, ?_, ?_⟩
  · rw [List.pairwise_map]
    exact hp.imp (fun hab hk => hab (by simpa using hk))
  · rw [List.pairwise_map]
    exact hp.imp (fun hab hk => hab (by simpa using hk))
  · intro a ha b hb
    obtain ⟨_, _, rfl⟩ := List.mem_map.1 ha
    obtain ⟨_, _, rfl⟩ := List.mem_map.1 hb
    simp

theorem yieldGroup_key_ids (req : List Nat) (g : List Mod × List Mod) :
    ∀ k ∈ (yieldGroup req g).map ikey, k.1 ∈ g.1.map (·.id) := by
  intro k hk
  have := (yieldGroup_keys req g).subset hk
  rcases List.mem_append.1 this with h | h
  · obtain ⟨m, hm, rfl⟩ := List.mem_map.1 h
    exact List.mem_map.2 ⟨m, hm, rfl⟩
  · obtain ⟨m, hm, rfl⟩ := List.mem_map.1 h
    exact List.mem_map.2 ⟨m, hm, rfl⟩

theorem yieldSorted_key_ids (req : List Nat) (gs : List (List Mod × List Mod)) :
    ∀ k ∈ (yieldSorted req gs).map ikey, k.1 ∈ (gs.flatMap (·.1)).map (·.id) := by
  intro k hk
  obtain ⟨it, hit, rfl⟩ := List.mem_map.1 hk
  obtain ⟨g, hg, hig⟩ := List.mem_flatMap.1 hit
  have := yieldGroup_key_ids req g (ikey it) (List.mem_map.2 ⟨it, hig, rfl⟩)
  obtain ⟨m, hm, hmid⟩ := List.mem_map.1 this
  exact List.mem_map.2 ⟨m, List.mem_flatMap.2 ⟨g, hg, hm⟩, hmid⟩

theorem yieldSorted_keys_nodup (req : List Nat) :
    ∀ (gs : List (List Mod × List Mod)), WF gs → ((yieldSorted req gs).map ikey).Nodup := by
  intro gs
  induction gs with
  | nil => intro _; simp [yieldSorted]
  | cons g t ih =>
    intro hwf
    unfold WF at hwf
    simp only [List.flatMap_cons, List.map_append] at hwf
    unfold List.Nodup at hwf
    rw [List.pairwise_append] at hwf
    obtain ⟨h1, h2, h3⟩ := hwf
    have e : yieldSorted req (g :: t) = yieldGroup req g ++ yieldSorted req t := by
      simp [yieldSorted]
    rw [e, List.map_append]
    unfold List.Nodup
    rw [List.pairwise_append]
    refine ⟨?_, ih h2, ?_⟩
    · exact List.Pairwise.sublist (yieldGroup_keys req g) (ids_nodup_keys g.1 h1)
    · intro a ha b hb hab
      have ha' := yieldGroup_key_ids req g a ha
      have hb' := yieldSorted_key_ids req t b hb
      exact h3 a.1 ha' b.1 hb' (by rw [hab])

/-- under `WF` a file belongs to exactly one group -/
theorem group_unique : ∀ (gs : List (List Mod × List Mod)), WF gs →
    ∀ g ∈ gs, ∀ g' ∈ gs, ∀ m ∈ g.1, ∀ m' ∈ g'.1, m.id = m'.id → g = g' := by
  intro gs
  induction gs with
  | nil => intro _ g hg; cases hg
  | cons h t ih =>
    intro hwf g hg g' hg' m hm m' hm' hid
    unfold WF at hwf
    simp only [List.flatMap_cons, List.map_append] at hwf
    unfold List.Nodup at hwf
    rw [List.pairwise_append] at hwf
    obtain ⟨_, h2, h3⟩ := hwf
    have inT : ∀ (x : List Mod × List Mod), x ∈ t → ∀ y ∈ x.1, y.id ∈ (t.flatMap (·.1)).map (·.id) :=
      fun x hx y hy => List.mem_map.2 ⟨y, List.mem_flatMap.2 ⟨x, hx, hy⟩, rfl⟩
    rcases List.mem_cons.1 hg with e1 | hgt
    · rcases List.mem_cons.1 hg' with e2 | hgt'
      · rw [e1, e2]
      · subst e1
        exact absurd hid (h3 m.id (List.mem_map.2 ⟨m, hm, rfl⟩) m'.id (inT g' hgt' m' hm'))
    · rcases List.mem_cons.1 hg' with e2 | hgt'
      · subst e2
        exact absurd hid.symm (h3 m'.id (List.mem_map.2 ⟨m', hm', rfl⟩) m.id (inT g hgt m hm))
      · exact ih h2 g hgt g' hgt' m hm m' hm' hid

/-! ### consequences for a finished `setup_build` -/

theorem setupBuild_inv {req : List Nat} {gs : List (List Mod × List Mod)} {st : St}
    (h : setupBuild req gs = .ok st) : Inv (yieldSorted req gs) st := by
  have := runItems_inv (req := req) (yieldSorted req gs) [] St.init st
    (fun it hit => by
      obtain ⟨g, _, hf⟩ := yieldSorted_from req gs it hit
      exact hf.ok)
    Inv.init h
  simpa using this

theorem steps_outs_nodup {req : List Nat} {gs : List (List Mod × List Mod)} {st : St}
    (hwf : WF gs) (h : setupBuild req gs = .ok st) : (st.steps.map Step.out).Nodup := by
  have hk : (st.steps.map skey).Nodup :=
    List.Pairwise.sublist (setupBuild_inv h).keys (yieldSorted_keys_nodup req gs hwf)
  have hp := pairwise_ne_of_map skey st.steps hk
  unfold List.Nodup
  rw [List.pairwise_map]
  refine hp.imp ?_
  intro a b hab ho
  apply hab
  simp only [Step.out, Out.pyi.injEq] at ho
  simp [skey, ho.1, ho.2]

theorem sched_self {p : List Step} (ho : OrderedIdx p) (hn : (p.map Step.out).Nodup) :
    Sched p p := by
  refine ⟨List.Perm.refl _, ?_⟩
  intro i hi d hd j hj hjo
  obtain ⟨k, hk, hko⟩ := ho i hi d hd
  have hk' : k < p.length := Nat.lt_trans hk hi
  have : j = k := by
    have h1 : (p.map Step.out)[j]'(by simpa using hj) = (p.map Step.out)[k]'(by simpa using hk') := by
      simp [hjo, hko]
    exact (List.getElem_inj hn).1 h1
  omega

/-- a CHECK statement is never a first-pass statement and is for a requested file -/
theorem check_step_shape {req : List Nat} {gs : List (List Mod × List Mod)} {st : St}
    (h : setupBuild req gs = .ok st) :
    ∀ s ∈ st.steps, s.act = .check → s.first = false ∧ s.mod.id ∈ req := by
  intro s hs hc
  obtain ⟨it, hit, hmod, hfirst, hact, _⟩ := (setupBuild_inv h).prov s hs
  obtain ⟨g, _, hf⟩ := yieldSorted_from req gs it hit
  obtain ⟨h1, h2⟩ := hf.check (hact ▸ hc)
  exact ⟨hfirst ▸ h2, hmod ▸ h1⟩

theorem check_at_most_once {req : List Nat} {gs : List (List Mod × List Mod)} {st : St}
    (hwf : WF gs) (h : setupBuild req gs = .ok st) (f : Nat) :
    (st.steps.filter fun s => decide (s.act = .check ∧ s.mod.id = f)).length ≤ 1 := by
  have hk : (st.steps.map skey).Nodup :=
    List.Pairwise.sublist (setupBuild_inv h).keys (yieldSorted_keys_nodup req gs hwf)
  have hsub : ((st.steps.filter fun s => decide (s.act = .check ∧ s.mod.id = f)).map skey).Sublist
      (st.steps.map skey) := List.Sublist.map _ List.filter_sublist
  have hn := List.Pairwise.sublist hsub hk
  have := nodup_all_eq (f, false) _ hn (by
    intro x hx
    obtain ⟨s, hs, rfl⟩ := List.mem_map.1 hx
    obtain ⟨hs1, hs2⟩ := List.mem_filter.1 hs
    simp only [decide_eq_true_eq] at hs2
    have := (check_step_shape h s hs1 hs2.1).1
    simp [skey, this, hs2.2])
  simpa using this

theorem check_step_exists {req : List Nat} {gs : List (List Mod × List Mod)} {st : St}
    (hwf : WF gs) (h : setupBuild req gs = .ok st) (g : List Mod × List Mod) (hg : g ∈ gs)
    (m : Mod) (hm : m ∈ g.1) (hreq : m.id ∈ req) (hgen : m.isGen = false) :
    ∃ s ∈ st.steps, s.mod = m ∧ s.first = false ∧ s.act = .check := by
  obtain ⟨it, hit, hmod, hact, hfirst⟩ := yieldGroup_final req g m hm hgen
  have hact' : it.act = .check := by
    rw [hact]; unfold moduleAction; simp [hgen, hreq]
  have hitS : it ∈ yieldSorted req gs := List.mem_flatMap.2 ⟨g, hg, hit⟩
  obtain ⟨pre, post, hsplit⟩ := List.append_of_mem hitS
  have hnd := yieldSorted_keys_nodup req gs hwf
  unfold setupBuild at h
  rw [hsplit] at h hnd
  obtain ⟨st1, h1, h2⟩ := runItems_append pre (it :: post) St.init st h
  have hinv1 : Inv pre st1 := by
    have := runItems_inv (req := req) pre [] St.init st1
      (fun x hx => by
        obtain ⟨g', _, hf⟩ := yieldSorted_from req gs x (hsplit ▸ List.mem_append_left _ hx)
        exact hf.ok)
      Inv.init h1
    simpa using this
  simp only [runItems] at h2
  cases hs : stepItem req st1 it with
  | error e => simp [hs] at h2
  | ok st2 =>
    simp only [hs] at h2
    obtain ⟨more, hmore⟩ := runItems_steps_prefix post st2 st h2
    rcases stepItem_cases hs with ⟨hskip, _⟩ | ⟨_, hg', _⟩ | ⟨_, _, im, _, rfl⟩
    · -- cannot be skipped: its own file is requested and not yet in `files`
      exfalso
      unfold skipping at hskip
      have hin : m.id ∈ st1.files := by
        have := List.all_eq_true.1 hskip m.id hreq
        simpa using this
      obtain ⟨x, hx, hxid, hxf⟩ := hinv1.files m.id hin
      have hkx : ikey x = ikey it := by simp [ikey, hxid, hmod, hxf, hfirst]
      simp only [List.map_append, List.map_cons] at hnd
      unfold List.Nodup at hnd
      rw [List.pairwise_append] at hnd
      exact hnd.2.2 (ikey x) (List.mem_map.2 ⟨x, hx, rfl⟩) (ikey it) (by simp) hkx
    · rw [hact'] at hg'; cases hg'
    · refine ⟨⟨it.mod, it.isFirst, it.act, declaredDeps st1.m2o it.deps, im⟩, ?_, hmod, hfirst, hact'⟩
      rw [hmore]
      simp

end PytypeModel.Plan
