import PytypeModel.Proofs.PyiNames
import PytypeModel.Proofs.PyiLists

/-! C05, types, part A: printing a normalised type prints the same expression. -/
namespace PytypeModel.Pytd

/-! ### `classify` -/

theorem classifyC_simple {l : List String} {x : String} (h : classifyC l = .simple x) : l = [x] := by
  unfold classifyC at h
  split at h <;> simp_all

theorem classifyC_builtin {l : List String} {x : String} (h : classifyC l = .builtin x) :
    l = ["builtins", x] := by
  unfold classifyC at h
  split at h <;> simp_all

theorem classifyC_typing {l : List String} {x : String} (h : classifyC l = .typing x) :
    l = ["typing", x] := by
  unfold classifyC at h
  split at h <;> simp_all

theorem classify_simple {n x : String} (h : classify n = .simple x) : n = x ∧ comps x = [x] := by
  have hc := classifyC_simple h
  have := comps_single hc
  subst this
  exact ⟨rfl, hc⟩

theorem classify_builtin {n x : String} (h : classify n = .builtin x) :
    comps n = ["builtins", x] ∧ comps x = [x] := by
  have hc := classifyC_builtin h
  exact ⟨hc, comps_builtins_snd hc⟩

theorem classify_typing {n x : String} (h : classify n = .typing x) :
    n = "typing." ++ x ∧ comps n = ["typing", x] ∧ comps x = [x] := by
  have hc := classifyC_typing h
  exact ⟨typing_name hc, hc, comps_typing_snd hc⟩

theorem classify_of_single {x : String} (h : comps x = [x]) : classify x = .simple x := by
  unfold classify
  rw [h]
  rfl

/-! ### identifiers -/

theorem identOK_ne_None {x : String} (h : identOK x = true) : x ≠ "None" := by
  intro e
  subst e
  revert h
  decide

theorem isIdChar_not_dot {c : Char} (h : isIdChar c = true) : c ≠ '.' := by
  intro e
  subst e
  revert h
  decide

theorem isIdStart_not_dot {c : Char} (h : isIdStart c = true) : c ≠ '.' := by
  intro e
  subst e
  revert h
  decide

theorem splitDotsL_nodot (p : List Char) (hp : '.' ∉ p) (acc : List Char) :
    splitDotsL acc p = [String.ofList (acc.reverse ++ p)] := by
  induction p generalizing acc with
  | nil => simp [splitDotsL]
  | cons c p ih =>
    have hc : c ≠ '.' := fun h => hp (by simp [h])
    have hp' : '.' ∉ p := fun h => hp (by simp [h])
    simp only [splitDotsL, hc, if_false]
    rw [ih hp']
    simp

theorem comps_of_nodot {x : String} (h : '.' ∉ x.toList) : comps x = [x] := by
  unfold comps
  rw [splitDotsL_nodot _ h]
  simp [String.ofList_toList]

theorem validParamName_nodot {x : String} (h : validParamName x = true) : '.' ∉ x.toList := by
  unfold validParamName at h
  split at h
  · simp at h
  · next c cs heq =>
    rw [heq]
    simp only [Bool.and_eq_true, List.all_eq_true] at h
    intro hm
    rcases List.mem_cons.1 hm with e | hm
    · exact isIdStart_not_dot h.1 e.symm
    · exact isIdChar_not_dot (h.2 _ hm) rfl

theorem identOK_comps {x : String} (h : identOK x = true) : comps x = [x] := by
  unfold identOK at h
  simp only [Bool.and_eq_true] at h
  exact comps_of_nodot (validParamName_nodot h.1)

/-! ### the shape of printed types -/

/-- what `tyExpr` can return at the top: never `...`, a list, `()` or a constant other than `None` -/
def isTypeExpr : PyExpr → Bool
  | .name _ => true
  | .attr _ _ => true
  | .sub _ _ => true
  | .none => true
  | _ => false

theorem dottedExpr_shape (cs : List String) : isTypeExpr (dottedExpr cs) = true := by
  cases cs with
  | nil => rfl
  | cons x xs =>
    simp only [dottedExpr]
    have : ∀ (e : PyExpr) (l : List String), isTypeExpr e = true →
        isTypeExpr (l.foldl (fun e a => PyExpr.attr e a) e) = true := by
      intro e l
      induction l generalizing e with
      | nil => intro h; exact h
      | cons a l ih => intro _; exact ih _ rfl
    exact this _ _ rfl

theorem simpleNameExpr_shape (x : String) : isTypeExpr (simpleNameExpr x) = true := by
  unfold simpleNameExpr
  split <;> rfl

theorem nameExpr_shape (n : String) : isTypeExpr (nameExpr n) = true := by
  unfold nameExpr
  split
  · exact simpleNameExpr_shape _
  · exact simpleNameExpr_shape _
  · exact simpleNameExpr_shape _
  · exact dottedExpr_shape _

theorem unionOf_shape (l : List PyExpr) (h : ∀ e ∈ l, isTypeExpr e = true) : isTypeExpr (unionOf l) = true := by
  unfold unionOf
  split
  · exact h _ (by simp)
  · rfl

theorem buildUnion3_shape_aux (l : List PyExpr) (hn : Bool) (hl : ∀ e ∈ l, isTypeExpr e = true) :
    isTypeExpr (if hn then (if l.isEmpty then PyExpr.none else .sub (.name "Optional") [unionOf l])
      else unionOf l) = true := by
  cases hn with
  | true =>
    simp only [if_true]
    cases l.isEmpty <;> rfl
  | false => exact unionOf_shape _ hl

theorem buildUnion3_shape (non : List PyExpr) (lits : List (List PyExpr)) (hn : Bool)
    (h : ∀ e ∈ non, isTypeExpr e = true) : isTypeExpr (buildUnion3 non lits hn) = true := by
  unfold buildUnion3
  apply buildUnion3_shape_aux
  intro e he
  rcases List.mem_append.1 he with he | he
  · exact h e he
  · split at he
    · simp at he
    · simp at he; subst he; rfl

mutual
theorem tyExpr_shape (ip : Bool) : ∀ t : Ty, isTypeExpr (tyExpr ip t) = true
  | .any => rfl
  | .nothing => rfl
  | .named n => nameExpr_shape n
  | .cls n => nameExpr_shape n
  | .late n => nameExpr_shape n
  | .typeParam _ _ => rfl
  | .generic b ps => by
    simp only [tyExpr]
    split
    · rfl
    · split <;> rfl
  | .tuple b ps => by
    simp only [tyExpr]
    split <;> rfl
  | .callable b ps => rfl
  | .union ts => by
    simp only [tyExpr, buildUnion]
    apply buildUnion3_shape
    intro e he
    have h1 := (List.mem_filter.1 he).1
    have h2 := mem_formSetK h1
    exact tyExprs_shape ip ts e h2
  | .literal _ => rfl
  | .annotated _ _ => rfl
theorem tyExprs_shape (ip : Bool) : ∀ (ts : List Ty) (e : PyExpr), e ∈ tyExprs ip ts → isTypeExpr e = true
  | [], e, h => by simp [tyExprs] at h
  | t :: ts, e, h => by
    simp only [tyExprs, List.mem_cons] at h
    rcases h with rfl | h
    · exact tyExpr_shape ip t
    · exact tyExprs_shape ip ts e h
end

theorem tyExprs_eq_map (ip : Bool) (ts : List Ty) : tyExprs ip ts = ts.map (tyExpr ip) := by
  induction ts with
  | nil => rfl
  | cons t ts ih => simp [tyExprs, ih]

theorem normTys_eq_map (tps : List String) (ip : Bool) (ts : List Ty) :
    normTys tps ip ts = ts.map (normTy tps ip) := by
  induction ts with
  | nil => rfl
  | cons t ts ih => simp [normTys, ih]

theorem tysAdds_eq (ip : Bool) (ts : List Ty) : tysAdds ip ts = (ts.map (tyAdds ip)).flatten := by
  induction ts with
  | nil => rfl
  | cons t ts ih => simp [tysAdds, ih]

end PytypeModel.Pytd
