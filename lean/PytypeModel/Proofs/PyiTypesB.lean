import PytypeModel.Proofs.PyiTypesA

/-! C05, types, part B: the parser's name resolution on printed names. -/
namespace PytypeModel.Pytd

/-- global facts about the unit context that the type lemmas use -/
structure GOK (g : GCtx) : Prop where
  tpsNone : g.tps.contains "NoneType" = false
  tpsSingle : ∀ x ∈ g.tps, comps x = [x]
  addsAlias : ∀ x ∈ g.adds, g.aliasNames.contains x = false
  noneAlias : g.aliasNames.contains "NoneType" = false

/-- what a `Definitions` state must satisfy for the printed types of the unit to resolve correctly:
the needed `typing` members are imported, other names are unbound or bound to themselves, and only alias
names are aliases -/
structure EnvOK (g : GCtx) (d : Defs) (needs : List String) : Prop where
  imp : ∀ x ∈ needs, d.typeMap.lookup x = some (.named ("typing." ++ x))
  other : ∀ k, g.adds.contains k = false → g.aliasNames.contains k = false →
    d.typeMap.lookup k = none ∨ d.typeMap.lookup k = some (.named k)
  alias : ∀ k, g.aliasNames.contains k = false → d.aliases.lookup k = none

theorem EnvOK.mono {g : GCtx} {d : Defs} {n1 n2 : List String} (h : EnvOK g d n2)
    (hs : ∀ x ∈ n1, x ∈ n2) : EnvOK g d n1 :=
  ⟨fun x hx => h.imp x (hs x hx), h.other, h.alias⟩

theorem resolveAlias_of_not_alias {g : GCtx} {d : Defs} {needs : List String} (h : EnvOK g d needs)
    {k : String} (hk : g.aliasNames.contains k = false) : resolveAlias d k = k := by
  unfold resolveAlias
  rw [h.alias k hk]

/-! ### `special` -/

theorem special_single {g : GCtx} {d : Defs} {needs : List String} (h : EnvOK g d needs) {x : String}
    (hx : comps x = [x]) (ha : g.aliasNames.contains x = false)
    (h1 : x ≠ "Literal") (h2 : x ≠ "Annotated") (h3 : x ≠ "tuple") (h4 : x ≠ "Tuple")
    (h5 : x ≠ "Concatenate") (h6 : x ≠ "Callable") : special d x = .plain := by
  unfold special matchesName matchesC
  simp only [hx, resolveAlias_of_not_alias h ha]
  simp [h1, h2, h3, h4, h5, h6]

theorem special_typing {d : Defs} {n x : String} (hn : comps n = ["typing", x])
    (h1 : x ≠ "Literal") (h2 : x ≠ "Annotated") (h4 : x ≠ "Tuple")
    (h5 : x ≠ "Concatenate") (h6 : x ≠ "Callable") : special d n = .plain := by
  unfold special matchesName matchesC
  simp only [hn]
  simp [h1, h2, h4, h5, h6]

theorem special_of_single {g : GCtx} {d : Defs} {needs : List String} (h : EnvOK g d needs) {x : String}
    (hx : comps x = [x]) (ha : g.aliasNames.contains x = false) :
    special d x =
      if x = "Literal" then .literal else if x = "Annotated" then .annotated
      else if x = "tuple" ∨ x = "Tuple" then .tuple else if x = "Concatenate" then .concatenate
      else if x = "Callable" then .callable else .plain := by
  unfold special matchesName matchesC
  simp only [hx, resolveAlias_of_not_alias h ha]
  by_cases h1 : x = "Literal"
  · subst h1; decide
  by_cases h2 : x = "Annotated"
  · subst h2; decide
  by_cases h3 : x = "tuple"
  · subst h3; decide
  by_cases h4 : x = "Tuple"
  · subst h4; decide
  by_cases h5 : x = "Concatenate"
  · subst h5; decide
  by_cases h6 : x = "Callable"
  · subst h6; decide
  simp [h1, h2, h3, h4, h5, h6]

theorem special_of_typing {d : Defs} {n x : String} (hn : comps n = ["typing", x]) :
    special d n =
      if x = "Literal" then .literal else if x = "Annotated" then .annotated
      else if x = "Tuple" then .tuple else if x = "Concatenate" then .concatenate
      else if x = "Callable" then .callable else .plain := by
  unfold special matchesName matchesC
  simp only [hn]
  by_cases h1 : x = "Literal"
  · subst h1; simp
  by_cases h2 : x = "Annotated"
  · subst h2; simp
  by_cases h4 : x = "Tuple"
  · subst h4; simp
  by_cases h5 : x = "Concatenate"
  · subst h5; simp
  by_cases h6 : x = "Callable"
  · subst h6; simp
  simp [h1, h2, h4, h5, h6]

theorem special_typing_Literal (d : Defs) : special d "typing.Literal" = .literal := by
  rw [special_of_typing (x := "Literal") (by decide)]; rfl
theorem special_typing_Callable (d : Defs) : special d "typing.Callable" = .callable := by
  rw [special_of_typing (x := "Callable") (by decide)]; rfl

/-! ### `resolveType` -/

theorem resolveType_imp {g : GCtx} {d : Defs} {needs : List String} (h : EnvOK g d needs) {x : String}
    (hx : x ∈ needs) (hn : x ≠ "nothing") : resolveType d x = .named ("typing." ++ x) := by
  unfold resolveType
  rw [if_neg hn, h.imp x hx]

theorem resolveType_other {g : GCtx} {d : Defs} {needs : List String} (h : EnvOK g d needs) {k : String}
    (h1 : g.adds.contains k = false) (h2 : g.aliasNames.contains k = false) (hn : k ≠ "nothing") :
    resolveType d k = .named k := by
  unfold resolveType
  rw [if_neg hn]
  rcases h.other k h1 h2 with e | e <;> rw [e]

theorem typingSets_single {x : String} (hx : comps x = [x]) : typingSets.contains x = false := by
  unfold typingSets
  simp only [List.contains_cons, List.contains_nil, Bool.or_false, Bool.or_eq_false_iff, beq_eq_false_iff_ne, ne_eq]
  refine ⟨?_, ?_, ?_⟩ <;> (intro e; subst e; revert hx; decide)

theorem typingSets_typing {n x : String} (hn : comps n = ["typing", x])
    (h1 : x ≠ "Intersection") (h2 : x ≠ "Optional") (h3 : x ≠ "Union") : typingSets.contains n = false := by
  unfold typingSets
  simp only [List.contains_cons, List.contains_nil, Bool.or_false, Bool.or_eq_false_iff, beq_eq_false_iff_ne, ne_eq]
  refine ⟨?_, ?_, ?_⟩
  · intro e; subst e
    have : comps "typing.Intersection" = ["typing", "Intersection"] := by decide
    rw [this] at hn; simp at hn; exact h1 hn.symm
  · intro e; subst e
    have : comps "typing.Optional" = ["typing", "Optional"] := by decide
    rw [this] at hn; simp at hn; exact h2 hn.symm
  · intro e; subst e
    have : comps "typing.Union" = ["typing", "Union"] := by decide
    rw [this] at hn; simp at hn; exact h3 hn.symm

end PytypeModel.Pytd
