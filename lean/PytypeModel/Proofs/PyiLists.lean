import PytypeModel.Pytd.PyiConvert

/-! Generic list lemmas for C05: `dedupK`, `compatDrop`, `formSetK`. -/
namespace PytypeModel.Pytd

section
variable {α : Type}

theorem mem_dedupK {key : α → PyExpr} {x : α} {l : List α} (h : x ∈ dedupK key l) : x ∈ l := by
  induction l with
  | nil => simp [dedupK] at h
  | cons y ys ih =>
    simp only [dedupK, List.mem_cons, List.mem_filter] at h
    rcases h with rfl | h
    · simp
    · exact List.mem_cons_of_mem _ (ih h.1)

/-- every key of the list survives de-duplication -/
theorem key_mem_dedupK {key : α → PyExpr} {x : α} {l : List α} (h : x ∈ l) :
    key x ∈ (dedupK key l).map key := by
  induction l with
  | nil => simp at h
  | cons y ys ih =>
    simp only [dedupK, List.map_cons, List.mem_cons]
    rcases List.mem_cons.1 h with rfl | h
    · exact Or.inl rfl
    · by_cases e : key x = key y
      · exact Or.inl e
      · right
        obtain ⟨z, hz, hk⟩ := List.mem_map.1 (ih h)
        exact List.mem_map.2 ⟨z, List.mem_filter.2 ⟨hz, by simpa [hk] using e⟩, hk⟩

theorem dedupK_map (f : α → PyExpr) (l : List α) : (dedupK f l).map f = dedupK id (l.map f) := by
  induction l with
  | nil => rfl
  | cons x xs ih =>
    simp only [dedupK, List.map_cons, id]
    congr 1
    rw [← ih, List.filter_map]
    rfl

theorem nodup_dedupK_id (l : List PyExpr) : (dedupK id l).Nodup := by
  induction l with
  | nil => simp [dedupK]
  | cons y ys ih =>
    simp only [dedupK, List.nodup_cons, id]
    exact ⟨by simp, ih.sublist List.filter_sublist⟩

theorem dedupK_id_of_nodup {l : List PyExpr} (h : l.Nodup) : dedupK id l = l := by
  induction l with
  | nil => rfl
  | cons y ys ih =>
    rw [List.nodup_cons] at h
    simp only [dedupK, ih h.2, id]
    congr 1
    rw [List.filter_eq_self]
    intro a ha
    have : a ≠ y := fun e => h.1 (e ▸ ha)
    simpa using this

theorem formSetK_map (f : α → PyExpr) (ip : Bool) (l : List α) :
    (formSetK f ip l).map f = formSetK id ip (l.map f) := by
  unfold formSetK
  simp only [List.map_id, id]
  rw [← dedupK_map]
  cases ip with
  | false => simp
  | true =>
    simp only [if_true]
    rw [List.filter_map]
    rfl

theorem mem_formSetK {key : α → PyExpr} {ip : Bool} {l : List α} {x : α} (h : x ∈ formSetK key ip l) :
    x ∈ l := by
  unfold formSetK at h
  simp only [] at h
  split at h
  · exact mem_dedupK (List.mem_filter.1 h).1
  · exact mem_dedupK h

end

/-! ### the compat deletion -/

/-- everything deleted is a plain name taken from the table (or was deleted before) -/
theorem compatDrop_mem (es : List PyExpr) (items : List (String × String)) (d : List PyExpr) {e : PyExpr}
    (h : e ∈ compatDrop es items d) : e ∈ d ∨ ∃ cn ∈ items, e = .name cn.1 ∧ PyExpr.name cn.1 ∈ es := by
  induction items generalizing d with
  | nil => exact Or.inl h
  | cons cn rest ih =>
    obtain ⟨c, n⟩ := cn
    simp only [compatDrop] at h
    rcases ih _ h with h1 | ⟨cn', hm, he⟩
    · split at h1
      · next hc =>
        rcases List.mem_cons.1 h1 with rfl | h1
        · right
          refine ⟨(c, n), by simp, rfl, ?_⟩
          simp only [Bool.and_eq_true, List.contains_iff_mem] at hc
          exact hc.1.1
        · exact Or.inl h1
      · exact Or.inl h1
    · exact Or.inr ⟨cn', List.mem_cons_of_mem _ hm, he⟩

theorem compatDrop_mono (es : List PyExpr) (items : List (String × String)) (d : List PyExpr) {e : PyExpr}
    (h : e ∈ d) : e ∈ compatDrop es items d := by
  induction items generalizing d with
  | nil => exact h
  | cons cn rest ih =>
    obtain ⟨c, n⟩ := cn
    simp only [compatDrop]
    apply ih
    split
    · exact List.mem_cons_of_mem _ h
    · exact h

/-- after the pass no pair of the table is present with both members -/
theorem compatDrop_inv (es : List PyExpr) (items : List (String × String)) (d : List PyExpr) :
    ∀ cn ∈ items, ¬ ((PyExpr.name cn.1 ∈ es ∧ PyExpr.name cn.1 ∉ compatDrop es items d) ∧
      (PyExpr.name cn.2 ∈ es ∧ PyExpr.name cn.2 ∉ compatDrop es items d)) := by
  induction items generalizing d with
  | nil => intro cn h; simp at h
  | cons cn0 rest ih =>
    obtain ⟨c, n⟩ := cn0
    intro cn hm
    simp only [compatDrop]
    rcases List.mem_cons.1 hm with rfl | hm
    · rintro ⟨⟨hc1, hc2⟩, ⟨hn1, hn2⟩⟩
      by_cases hcond : ((es.contains (.name c) && !d.contains (.name c)) &&
          (es.contains (.name n) && !d.contains (.name n))) = true
      · rw [if_pos hcond] at hc2
        exact hc2 (compatDrop_mono _ _ _ (by simp))
      · rw [if_neg hcond] at hc2 hn2
        apply hcond
        have hcd : PyExpr.name c ∉ d := fun h => hc2 (compatDrop_mono _ _ _ h)
        have hnd : PyExpr.name n ∉ d := fun h => hn2 (compatDrop_mono _ _ _ h)
        simp [hc1, hn1, hcd, hnd]
    · exact ih _ cn hm

/-- a list in which no pair of the table is present loses nothing -/
theorem compatDrop_nil_of_stable (es : List PyExpr) (items : List (String × String))
    (h : ∀ cn ∈ items, ¬ (PyExpr.name cn.1 ∈ es ∧ PyExpr.name cn.2 ∈ es)) :
    compatDrop es items [] = [] := by
  induction items with
  | nil => rfl
  | cons cn rest ih =>
    obtain ⟨c, n⟩ := cn
    simp only [compatDrop]
    have hc := h (c, n) (by simp)
    have : ((es.contains (.name c) && !([] : List PyExpr).contains (.name c)) &&
        (es.contains (.name n) && !([] : List PyExpr).contains (.name n))) = false := by
      rw [Bool.eq_false_iff]
      intro ht
      simp only [Bool.and_eq_true, List.contains_iff_mem] at ht
      exact hc ⟨ht.1.1, ht.2.1⟩
    rw [this]
    simp only [Bool.false_eq_true, if_false]
    exact ih (fun cn hm => h cn (List.mem_cons_of_mem _ hm))

/-- `formSetK id` on a list that has the same members as an already formed one changes nothing -/
theorem formSetK_id_stable (ip : Bool) (es0 p : List PyExpr) (hp : p.Nodup)
    (hmem : ∀ e, e ∈ p ↔ e ∈ formSetK id ip es0) : formSetK id ip p = p := by
  unfold formSetK
  simp only [List.map_id, id]
  rw [dedupK_id_of_nodup hp]
  cases ip with
  | false => simp
  | true =>
    simp only [if_true]
    have hst : compatDrop p compatItems [] = [] := by
      apply compatDrop_nil_of_stable
      intro cn hcn hboth
      have h1 := (hmem _).1 hboth.1
      have h2 := (hmem _).1 hboth.2
      unfold formSetK at h1 h2
      simp only [List.map_id, id, if_true, List.mem_filter, Bool.not_eq_true',
        Bool.eq_false_iff, ne_eq, List.contains_iff_mem] at h1 h2
      exact compatDrop_inv (dedupK id es0) compatItems [] cn hcn ⟨⟨h1.1, h1.2⟩, ⟨h2.1, h2.2⟩⟩
    rw [hst]
    simp

end PytypeModel.Pytd
