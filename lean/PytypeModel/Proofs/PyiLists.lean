import PytypeModel.Pytd.PyiConvert

/-! Generic list lemmas for C05: `dedupL`, `compatDropL`, `formSetL` commute with maps that are injective
on the list and respect the plain-name members. -/
namespace PytypeModel.Pytd

section
set_option linter.unusedSectionVars false
variable {α β : Type} [DecidableEq α] [DecidableEq β]

theorem mem_dedupL {x : α} {l : List α} : x ∈ dedupL l ↔ x ∈ l := by
  induction l with
  | nil => simp [dedupL]
  | cons y ys ih =>
    simp only [dedupL, List.mem_cons, List.mem_filter, ih]
    by_cases h : x = y <;> simp [h]

theorem dedupL_sublist (l : List α) : (dedupL l).Sublist l := by
  induction l with
  | nil => simp [dedupL]
  | cons y ys ih =>
    simp only [dedupL]
    exact List.Sublist.cons_cons _ ((List.filter_sublist).trans ih)

theorem nodup_dedupL (l : List α) : (dedupL l).Nodup := by
  induction l with
  | nil => simp [dedupL]
  | cons y ys ih =>
    simp only [dedupL, List.nodup_cons]
    exact ⟨by simp, ih.sublist List.filter_sublist⟩

theorem dedupL_of_nodup {l : List α} (h : l.Nodup) : dedupL l = l := by
  induction l with
  | nil => rfl
  | cons y ys ih =>
    rw [List.nodup_cons] at h
    simp only [dedupL, ih h.2]
    congr 1
    rw [List.filter_eq_self]
    intro a ha
    have : a ≠ y := fun e => h.1 (e ▸ ha)
    simpa using this

/-- `f` is injective on the elements of `l` -/
def InjOn (f : α → β) (l : List α) : Prop := ∀ a ∈ l, ∀ b ∈ l, f a = f b → a = b

theorem InjOn.tail {f : α → β} {x : α} {l : List α} (h : InjOn f (x :: l)) : InjOn f l :=
  fun a ha b hb e => h a (List.mem_cons_of_mem _ ha) b (List.mem_cons_of_mem _ hb) e

theorem InjOn.sublist {f : α → β} {l l' : List α} (h : InjOn f l) (hs : l'.Sublist l) : InjOn f l' :=
  fun a ha b hb e => h a (hs.subset ha) b (hs.subset hb) e

theorem map_filter_ne {f : α → β} {x : α} {l : List α} (h : InjOn f (x :: l)) :
    (l.filter (· ≠ x)).map f = (l.map f).filter (· ≠ f x) := by
  rw [List.filter_map]
  congr 1
  apply List.filter_congr
  intro a ha
  simp only [Function.comp]
  by_cases e : a = x
  · simp [e]
  · have : f a ≠ f x := fun e' => e (h a (List.mem_cons_of_mem _ ha) x (by simp) e')
    simp [e, this]

theorem dedupL_map {f : α → β} {l : List α} (h : InjOn f l) : dedupL (l.map f) = (dedupL l).map f := by
  induction l with
  | nil => rfl
  | cons x xs ih =>
    simp only [List.map_cons, dedupL]
    rw [ih h.tail]
    congr 1
    have hx : InjOn f (x :: dedupL xs) := fun a ha b hb e =>
      h a (by
        rcases List.mem_cons.1 ha with rfl | ha
        · simp
        · exact List.mem_cons_of_mem _ (mem_dedupL.1 ha)) b (by
        rcases List.mem_cons.1 hb with rfl | hb
        · simp
        · exact List.mem_cons_of_mem _ (mem_dedupL.1 hb)) e
    rw [map_filter_ne hx]

/-- `f` maps the plain-name member `nm₁ c` to `nm₂ c`, and nothing else of `l` to it -/
def NameCompat (f : α → β) (nm₁ : String → α) (nm₂ : String → β) (l : List α) : Prop :=
  ∀ a ∈ l, ∀ c : String, f a = nm₂ c ↔ a = nm₁ c

theorem contains_map_name {f : α → β} {nm₁ : String → α} {nm₂ : String → β} {l : List α}
    (h : NameCompat f nm₁ nm₂ l) (c : String) : (l.map f).contains (nm₂ c) = l.contains (nm₁ c) := by
  rw [Bool.eq_iff_iff]
  simp only [List.contains_iff_mem, List.mem_map]
  constructor
  · rintro ⟨a, ha, e⟩
    rw [(h a ha c).1 e] at ha
    exact ha
  · intro hm
    exact ⟨nm₁ c, hm, (h _ hm c).2 rfl⟩

/-- the dropped members: all of the form `nm c` with `nm c ∈ l` -/
theorem compatDropL_map {f : α → β} {nm₁ : String → α} {nm₂ : String → β} {l : List α}
    (h : NameCompat f nm₁ nm₂ l) (items : List (String × String)) (d : List String)
    (hd : ∀ c ∈ d, nm₁ c ∈ l) :
    ∃ d' : List String, (∀ c ∈ d', nm₁ c ∈ l) ∧ compatDropL nm₁ l items (d.map nm₁) = d'.map nm₁ ∧
      compatDropL nm₂ (l.map f) items (d.map nm₂) = d'.map nm₂ := by
  induction items generalizing d with
  | nil => exact ⟨d, hd, rfl, rfl⟩
  | cons cn rest ih =>
    obtain ⟨c, n⟩ := cn
    simp only [compatDropL]
    -- membership of `nm x` in the dropped lists agrees whenever `nm₁ x ∈ l`
    have key : ∀ x : String, nm₁ x ∈ l →
        ((d.map nm₂).contains (nm₂ x) = (d.map nm₁).contains (nm₁ x)) := by
      intro x hx
      rw [Bool.eq_iff_iff]
      simp only [List.contains_iff_mem, List.mem_map]
      constructor
      · rintro ⟨y, hy, e⟩
        refine ⟨y, hy, ?_⟩
        have h1 := (h _ (hd y hy) x).1 (by rw [← e]; exact (h _ (hd y hy) y).2 rfl)
        exact h1
      · rintro ⟨y, hy, e⟩
        refine ⟨y, hy, ?_⟩
        have : f (nm₁ y) = nm₂ y := (h _ (hd y hy) y).2 rfl
        have h2 : f (nm₁ x) = nm₂ x := (h _ hx x).2 rfl
        rw [← this, ← h2, e]
    have hasEq : ∀ x : String,
        ((l.map f).contains (nm₂ x) && !(d.map nm₂).contains (nm₂ x)) =
        (l.contains (nm₁ x) && !(d.map nm₁).contains (nm₁ x)) := by
      intro x
      rw [contains_map_name h x]
      by_cases hx : nm₁ x ∈ l
      · rw [key x hx]
      · have : l.contains (nm₁ x) = false := by simpa using hx
        rw [this]; simp
    simp only [hasEq c, hasEq n]
    by_cases hc : ((l.contains (nm₁ c) && !(d.map nm₁).contains (nm₁ c)) &&
        (l.contains (nm₁ n) && !(d.map nm₁).contains (nm₁ n))) = true
    · rw [if_pos hc, if_pos hc]
      have hcl : nm₁ c ∈ l := by
        simp only [Bool.and_eq_true, List.contains_iff_mem] at hc
        exact hc.1.1
      have := ih (c :: d) (by
        intro y hy
        rcases List.mem_cons.1 hy with rfl | hy
        · exact hcl
        · exact hd y hy)
      simpa using this
    · rw [if_neg hc, if_neg hc]
      exact ih d hd

theorem formSetL_map {f : α → β} {nm₁ : String → α} {nm₂ : String → β} {l : List α} (ip : Bool)
    (hinj : InjOn f l) (h : NameCompat f nm₁ nm₂ l) :
    formSetL nm₂ ip (l.map f) = (formSetL nm₁ ip l).map f := by
  unfold formSetL
  rw [dedupL_map hinj]
  cases ip with
  | false => simp
  | true =>
    simp only [if_true]
    have hsub : (dedupL l).Sublist l := dedupL_sublist l
    have h' : NameCompat f nm₁ nm₂ (dedupL l) := fun a ha c => h a (hsub.subset ha) c
    obtain ⟨d', hd', e1, e2⟩ := compatDropL_map h' compatItems [] (by simp)
    simp only [List.map_nil] at e1 e2
    rw [e1, e2, List.filter_map]
    congr 1
    apply List.filter_congr
    intro a ha
    simp only [Function.comp]
    congr 1
    rw [Bool.eq_iff_iff]
    simp only [List.contains_iff_mem, List.mem_map]
    constructor
    · rintro ⟨c, hc, e⟩
      exact ⟨c, hc, ((h' a ha c).1 e.symm).symm⟩
    · rintro ⟨c, hc, e⟩
      exact ⟨c, hc, by rw [← e]; exact ((h' _ (hd' c hc) c).2 rfl).symm⟩

end

end PytypeModel.Pytd
