import PytypeModel.Proofs.CanonRel

/-! `canon_perm`: related trees have the same canonical form, when ties are identical (C04). -/
namespace PytypeModel.Pytd.Canon
open PytypeModel.Pytd

section
variable {K : Type} (o : KOrd K) (ks : Keys K)

/-! ### generic list helpers -/

theorem map_eq_of_pointwise {α β : Type} {R : α → α → Prop} {P : α → Prop} {f : α → β}
    (hf : ∀ a b, R a b → P a → f a = f b) : ∀ {l l' : List α}, Pointwise R l l' → All P l →
    l.map f = l'.map f
  | _, _, .nil, _ => rfl
  | _, _, .cons (a := a) (b := b) h hs, hp => by
    have h1 : f a = f b := hf a b h (hp a (by simp))
    have h2 := map_eq_of_pointwise hf hs (fun x hx => hp x (List.mem_cons.2 (.inr hx)))
    simp [h1, h2]

theorem perm_map_of_permSim {α β : Type} {R : α → α → Prop} {P : α → Prop} {f : α → β}
    (hf : ∀ a b, R a b → P a → f a = f b) {l l' : List α} (h : PermSim R l l') (hp : All P l) :
    (l.map f).Perm (l'.map f) := by
  obtain ⟨m, hm, hperm⟩ := h
  rw [map_eq_of_pointwise hf hm hp]
  exact hperm.map f

theorem optMap_eq_of_optSim {α β : Type} {R : α → α → Prop} {P : α → Prop} {f : α → β}
    (hf : ∀ a b, R a b → P a → f a = f b) : ∀ {x y : Option α}, OptSim R x y → OptInj P x →
    x.map f = y.map f
  | none, none, _, _ => rfl
  | some a, some b, h, hp => by simp [hf a b h hp]
  | none, some _, h, _ => by cases h
  | some _, none, h, _ => by cases h

theorem canonTys_eq_map (l : List Ty) : canonTys o ks l = l.map (canonTy o ks) := by
  induction l with
  | nil => rfl
  | cons t l ih => simp [canonTys, ih]

theorem canonClasses_eq_map (l : List Class) : canonClasses o ks l = l.map (canonClass o ks) := by
  induction l with
  | nil => rfl
  | cons t l ih => simp [canonClasses, ih]

/-! ### types -/

mutual
theorem canonTy_sim : ∀ {t t' : Ty}, TySim t t' → TyInj o ks t → canonTy o ks t = canonTy o ks t'
  | _, _, .refl _, _ => rfl
  | _, _, .generic hb hps, hi => by
    simp only [TyInj] at hi
    simp only [canonTy]
    rw [canonTy_sim hb hi.1, canonTys_sim hps hi.2]
  | _, _, .tuple hb hps, hi => by
    simp only [TyInj] at hi
    simp only [canonTy]
    rw [canonTy_sim hb hi.1, canonTys_sim hps hi.2]
  | _, _, .callable hb hps, hi => by
    simp only [TyInj] at hi
    simp only [canonTy]
    rw [canonTy_sim hb hi.1, canonTys_sim hps hi.2]
  | _, _, .union (m := m) (ts' := ts') hm hp, hi => by
    simp only [TyInj] at hi
    simp only [canonTy]
    have e := canonTys_sim hm hi.2
    have p : (canonTys o ks m).Perm (canonTys o ks ts') := by
      rw [canonTys_eq_map, canonTys_eq_map]; exact hp.map _
    rw [sortOn_eq_of_perm o ks.ty (l₂ := canonTys o ks ts') (e ▸ p) hi.1]
  | _, _, .annotated h, hi => by
    simp only [TyInj] at hi
    simp only [canonTy]
    rw [canonTy_sim h hi]
theorem canonTys_sim : ∀ {l l' : List Ty}, TysSim l l' → TysInj o ks l → canonTys o ks l = canonTys o ks l'
  | _, _, .nil, _ => rfl
  | _, _, .cons h hs, hi => by
    simp only [TysInj] at hi
    simp only [canonTys]
    rw [canonTy_sim h hi.1, canonTys_sim hs hi.2]
end

/-- sorted type lists (signature exceptions): pointwise-then-permuted inputs give the same sorted output -/
theorem sortTys_sim {l l' : List Ty} (h : ∃ m, TysSim l m ∧ m.Perm l') (hi : TysInj o ks l)
    (hinj : InjOn ks.ty (canonTys o ks l)) :
    sortOn o ks.ty (canonTys o ks l) = sortOn o ks.ty (canonTys o ks l') := by
  obtain ⟨m, hm, hp⟩ := h
  have e := canonTys_sim o ks hm hi
  have p : (canonTys o ks m).Perm (canonTys o ks l') := by
    rw [canonTys_eq_map, canonTys_eq_map]; exact hp.map _
  exact sortOn_eq_of_perm o ks.ty (e ▸ p) hinj

/-! ### declarations -/

theorem canonTD_sim (d d' : TypeParamDecl) (h : TDSim d d') (hi : TDInj o ks d) :
    canonTD o ks d = canonTD o ks d' := by
  obtain ⟨h1, h2, h3, h4⟩ := h
  cases d; cases d'
  simp only at h1 h2 h3 h4
  simp only [canonTD, TypeParamDecl.mk.injEq]
  exact ⟨h1, canonTys_sim o ks h2 hi.1,
    optMap_eq_of_optSim (fun a b hab ha => canonTy_sim o ks hab ha) h3 hi.2, h4⟩

theorem canonParam_sim (p p' : Param) (h : ParamSim p p') (hi : ParamInj o ks p) :
    canonParam o ks p = canonParam o ks p' := by
  obtain ⟨h1, h2, h3, h4, h5⟩ := h
  cases p; cases p'
  simp only at h1 h2 h3 h4 h5
  simp only [canonParam, Param.mk.injEq]
  exact ⟨h1, canonTy_sim o ks h2 hi.1, h3, h4,
    optMap_eq_of_optSim (fun a b hab ha => canonTy_sim o ks hab ha) h5 hi.2⟩

theorem canonSig_sim (s s' : Sig) (h : SigSim s s') (hi : SigInj o ks s) :
    canonSig o ks s = canonSig o ks s' := by
  obtain ⟨h1, h2, h3, h4, h5, h6⟩ := h
  obtain ⟨i1, i2, i3, i4, i5, i6, i7, i8⟩ := hi
  simp only [canonSig, Sig.mk.injEq]
  refine ⟨map_eq_of_pointwise (canonParam_sim o ks) h1 i1,
    optMap_eq_of_optSim (canonParam_sim o ks) h2 i2, optMap_eq_of_optSim (canonParam_sim o ks) h3 i3,
    canonTy_sim o ks h4 i4, sortTys_sim o ks h5 i6 i5, ?_⟩
  exact sortOn_eq_of_perm o ks.titem (perm_map_of_permSim (canonTD_sim o ks) h6 i8) i7

theorem canonFunc_sim (f f' : Func) (h : FuncSim f f') (hi : FuncInj o ks f) :
    canonFunc o ks f = canonFunc o ks f' := by
  obtain ⟨h1, h2, h3, h4, h5, h6, h7⟩ := h
  cases f; cases f'
  simp only at h1 h2 h3 h4 h5 h6 h7
  simp only [canonFunc, Func.mk.injEq]
  exact ⟨h1, map_eq_of_pointwise (canonSig_sim o ks) h2 hi, h3, h4, h5, h6, h7⟩

theorem canonConst_sim (c c' : Const) (h : ConstSim c c') (hi : ConstInj o ks c) :
    canonConst o ks c = canonConst o ks c' := by
  obtain ⟨h1, h2, h3⟩ := h
  cases c; cases c'
  simp only at h1 h2 h3
  simp only [canonConst, Const.mk.injEq]
  exact ⟨h1, canonTy_sim o ks h2 hi, h3⟩

theorem canonAlias_sim (a a' : Alias) (h : AliasSim a a') (hi : AliasInj o ks a) :
    canonAlias o ks a = canonAlias o ks a' := by
  obtain ⟨h1, h2⟩ := h
  cases a; cases a'
  simp only at h1 h2
  simp only [canonAlias, Alias.mk.injEq]
  exact ⟨h1, canonTy_sim o ks h2 hi⟩

theorem canonKw_sim (kv kv' : String × Ty) (h : KwSim kv kv') (hi : TyInj o ks kv.2) :
    (kv.1, canonTy o ks kv.2) = (kv'.1, canonTy o ks kv'.2) := by
  rw [h.1, canonTy_sim o ks h.2 hi]

/-! ### `preserveConstants` is invariant under `~` -/

mutual
theorem baseName_sim : ∀ {t t' : Ty}, TySim t t' → baseName t = baseName t'
  | _, _, .refl _ => rfl
  | _, _, .generic hb _ => by simp only [baseName]; exact baseName_sim hb
  | _, _, .tuple hb _ => by simp only [baseName]; exact baseName_sim hb
  | _, _, .callable hb _ => by simp only [baseName]; exact baseName_sim hb
  | _, _, .union _ _ => rfl
  | _, _, .annotated _ => rfl
end

theorem any_baseName_sim (p : String → Bool) : ∀ {l l' : List Ty}, TysSim l l' →
    l.any (fun b => p (baseName b)) = l'.any (fun b => p (baseName b))
  | _, _, .nil => rfl
  | _, _, .cons h hs => by
    simp only [List.any_cons]
    rw [baseName_sim h, any_baseName_sim p hs]

theorem preserveConstants_sim {decos decos' : List String} {bases bases' : List Ty}
    (hd : decos.Perm decos') (hb : TysSim bases bases') :
    preserveConstants decos bases = preserveConstants decos' bases' := by
  unfold preserveConstants
  have h1 : decos.any (fun d => d == "attr.s" || d == "dataclasses.dataclass") =
      decos'.any (fun d => d == "attr.s" || d == "dataclasses.dataclass") := by
    rw [Bool.eq_iff_iff]
    simp only [List.any_eq_true]
    exact ⟨fun ⟨x, hx, hp⟩ => ⟨x, hd.mem_iff.1 hx, hp⟩, fun ⟨x, hx, hp⟩ => ⟨x, hd.mem_iff.2 hx, hp⟩⟩
  rw [h1, any_baseName_sim (fun n => n == "collections.namedtuple" || n == "typing.NamedTuple") hb]

/-! ### classes -/

mutual
theorem canonClass_sim : ∀ {c c' : Class}, ClassSim c c' → ClassInj o ks c →
    canonClass o ks c = canonClass o ks c'
  | _, _, .mk (cls' := cls') (clsm := clsm) (decos := decos) (bases := bases) (slots := slots)
      (slots' := slots') hkw hbases hms hcs hcls hclsp hdecos hslots htmpl, hi => by
    simp only [ClassInj] at hi
    obtain ⟨i1, i2, i3, i4, i5, i6, i7, i8, i9, i10, i11⟩ := hi
    simp only [canonClass, Class.mk.injEq, true_and]
    refine ⟨map_eq_of_pointwise (canonKw_sim o ks) hkw i1, canonTys_sim o ks hbases i2, ?_, ?_, ?_, ?_, ?_,
      map_eq_of_pointwise (canonTD_sim o ks) htmpl i11⟩
    · exact sortOn_eq_of_perm o ks.func (perm_map_of_permSim (canonFunc_sim o ks) hms i4) i3
    · rw [← preserveConstants_sim hdecos hbases]
      by_cases hp : preserveConstants decos bases = true
      · rw [if_pos hp] at hcs ⊢
        rw [if_pos hp]
        exact map_eq_of_pointwise (canonConst_sim o ks) hcs i6
      · rw [if_neg hp] at hcs ⊢
        rw [if_neg hp]
        rcases i5 with i5 | i5
        · exact absurd i5 hp
        · exact sortOn_eq_of_perm o ks.const (perm_map_of_permSim (canonConst_sim o ks) hcs i6) i5
    · have e := canonClasses_sim hcls i8
      have p : (canonClasses o ks clsm).Perm (canonClasses o ks cls') := by
        rw [canonClasses_eq_map, canonClasses_eq_map]; exact hclsp.map _
      exact sortOn_eq_of_perm o ks.cls (e ▸ p) i7
    · exact sortOn_eq_of_perm o ks.deco hdecos i9
    · cases slots <;> cases slots'
      · rfl
      · cases hslots
      · cases hslots
      · simp only [Option.map_some, Option.some.injEq]
        exact sortOn_eq_of_perm o ks.slot hslots i10
theorem canonClasses_sim : ∀ {l l' : List Class}, ClassesSim l l' → ClassesInj o ks l →
    canonClasses o ks l = canonClasses o ks l'
  | _, _, .nil, _ => rfl
  | _, _, .cons h hs, hi => by
    simp only [ClassesInj] at hi
    simp only [canonClasses]
    rw [canonClass_sim h hi.1, canonClasses_sim hs hi.2]
end

/-! ### the unit -/

theorem canonUnit_sim {u u' : TUnit} (h : UnitSim u u') (hi : KeyInj o ks u) :
    canonUnit o ks u = canonUnit o ks u' := by
  obtain ⟨h1, h2, h3, ⟨m, h4, h4p⟩, h5, h6⟩ := h
  obtain ⟨i1, i2, i3, i4, i5, i6, i7, i8, i9, i10⟩ := hi
  simp only [canonUnit, TUnit.mk.injEq]
  refine ⟨h1, ?_, ?_, ?_, ?_, ?_⟩
  · exact sortOn_eq_of_perm o ks.const (perm_map_of_permSim (canonConst_sim o ks) h2 i2) i1
  · exact sortOn_eq_of_perm o ks.tparam (perm_map_of_permSim (canonTD_sim o ks) h3 i4) i3
  · have e := canonClasses_sim o ks h4 i6
    have p : (canonClasses o ks m).Perm (canonClasses o ks u'.classes) := by
      rw [canonClasses_eq_map, canonClasses_eq_map]; exact h4p.map _
    exact sortOn_eq_of_perm o ks.cls (e ▸ p) i5
  · exact sortOn_eq_of_perm o ks.func (perm_map_of_permSim (canonFunc_sim o ks) h5 i8) i7
  · exact sortOn_eq_of_perm o ks.alias (perm_map_of_permSim (canonAlias_sim o ks) h6 i10) i9

end

end PytypeModel.Pytd.Canon
