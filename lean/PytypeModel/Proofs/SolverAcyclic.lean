/-
Acyclic graphs (node conditions allowed).  On an acyclic graph every new position has a strictly smaller
rank than the current one, so a state never meets itself on the stack: provisional memo entries are never
read and the cycle skip never fires.  Consequences proved here:
  * `solve_sound_acyclic` : an accepted combination has every goal backward reachable (C07);
  * `recall_spec`         : `RecallOrFindSolution` returns the same value whatever the (sound) memo and the
                            stack are — memo soundness, used for C08's `query_fresh_acyclic`.
-/
import PytypeModel.Proofs.SolverPaths

namespace PytypeModel.Typegraph

/-- every goal of the state has a backward-reachable origin -/
def AllReach (g : Graph) (st : SState) : Prop := ∀ b ∈ st.goals, GoalReachable g st.pos b

/-- the position `n` lies strictly below every state on the stack -/
def Above (rank : NodeId → Nat) (stack : List SState) (n : NodeId) : Prop :=
  ∀ s ∈ stack, rank n < rank s.pos

theorem Above.not_mem {rank : NodeId → Nat} {stack : List SState} {st : SState}
    (h : Above rank stack st.pos) : st ∉ stack :=
  fun hm => Nat.lt_irrefl _ (h st hm)

theorem Above.cons {rank : NodeId → Nat} {stack : List SState} {st : SState} {p : NodeId}
    (h : Above rank stack st.pos) (hp : rank p < rank st.pos) : Above rank (st :: stack) p := by
  intro s hs
  rcases List.mem_cons.1 hs with rfl | hs
  · exact hp
  · exact Nat.lt_trans hp (h s hs)

/-- on a well-formed acyclic graph the new positions after a removal result are strictly lower -/
theorem newPositions_rank {g : Graph} {rank : NodeId → Nat} (hwf : g.WF) (hac : g.AcyclicBy rank)
    {pos : NodeId} {goals R N : List BId} (hres : (R, N) ∈ removeFinishedGoals g pos goals)
    {p : NodeId} (hp : p ∈ newPositions g pos N) : BackReach g pos p ∧ rank p < rank pos := by
  obtain ⟨_, hN, _⟩ := removeFinishedGoals_inv hwf pos goals hres
  obtain ⟨hr, hne⟩ := newPositions_ne hN hp
  refine ⟨hr, ?_⟩
  rcases BackReach.rank_le hac.dec hr with h | h
  · exact absurd h.symm hne
  · exact h

/-! ### C07: accepted ⇒ reachable -/

def MemoInv2 (g : Graph) (memo : Memo) (stack : List SState) : Prop :=
  ∀ st, memo.find st = some true → st ∈ stack ∨ AllReach g st

theorem memoInv2_nil (g : Graph) (stack : List SState) : MemoInv2 g [] stack := by
  intro st h; simp [Memo.find] at h

def RecOK2 (g : Graph) (rank : NodeId → Nat) (rec : RecT) : Prop :=
  ∀ stack memo st, MemoInv2 g memo stack → Above rank stack st.pos →
    MemoInv2 g (rec stack memo st).2 stack ∧ ((rec stack memo st).1 = true → AllReach g st)

theorem tryPositions_inv2 (g : Graph) (rank : NodeId → Nat) (rec : RecT) (hrec : RecOK2 g rank rec)
    (stack : List SState) (multi : Bool) (new : List BId) :
    ∀ (ps : List NodeId) (memo : Memo), MemoInv2 g memo stack → (∀ p ∈ ps, Above rank stack p) →
      MemoInv2 g (tryPositions rec stack multi new ps memo).2 stack ∧
      ((tryPositions rec stack multi new ps memo).1 = true → ∃ p ∈ ps, AllReach g ⟨p, new⟩) := by
  intro ps
  induction ps with
  | nil => intro memo h _; exact ⟨by simpa [tryPositions] using h, by simp [tryPositions]⟩
  | cons p ps ih =>
    intro memo h hab
    have hab' : ∀ q ∈ ps, Above rank stack q := fun q hq => hab q (List.mem_cons_of_mem _ hq)
    unfold tryPositions
    simp only
    split
    · obtain ⟨h1, h2⟩ := ih memo h hab'
      exact ⟨h1, fun ht => let ⟨q, hq, hr⟩ := h2 ht; ⟨q, List.mem_cons_of_mem _ hq, hr⟩⟩
    · obtain ⟨h1, h2⟩ := hrec stack memo ⟨p, new⟩ h (hab p List.mem_cons_self)
      generalize rec stack memo ⟨p, new⟩ = r at h1 h2
      obtain ⟨r1, m1⟩ := r
      simp only at h1 h2 ⊢
      split
      · rename_i hr
        exact ⟨h1, fun _ => ⟨p, List.mem_cons_self, h2 hr⟩⟩
      · obtain ⟨h3, h4⟩ := ih m1 h1 hab'
        exact ⟨h3, fun ht => let ⟨q, hq, hr⟩ := h4 ht; ⟨q, List.mem_cons_of_mem _ hq, hr⟩⟩

theorem tryResults_inv2 (g : Graph) (rank : NodeId → Nat) (rec : RecT) (hrec : RecOK2 g rank rec)
    (stack : List SState) (pos : NodeId) :
    ∀ (rs : List RemoveResult) (memo : Memo), MemoInv2 g memo stack →
      (∀ R N, (R, N) ∈ rs → ∀ p ∈ newPositions g pos N, Above rank stack p) →
      MemoInv2 g (tryResults g rec stack pos rs memo).2 stack ∧
      ((tryResults g rec stack pos rs memo).1 = true →
        ∃ R N, (R, N) ∈ rs ∧ (N = [] ∨ ∃ p ∈ newPositions g pos N, AllReach g ⟨p, N⟩)) := by
  intro rs
  induction rs with
  | nil => intro memo h _; exact ⟨by simpa [tryResults] using h, by simp [tryResults]⟩
  | cons r rs ih =>
    intro memo h hab
    obtain ⟨R, N⟩ := r
    have hab' : ∀ R' N', (R', N') ∈ rs → ∀ p ∈ newPositions g pos N', Above rank stack p :=
      fun R' N' hm => hab R' N' (List.mem_cons_of_mem _ hm)
    have lift : (∃ R' N', (R', N') ∈ rs ∧ (N' = [] ∨ ∃ p ∈ newPositions g pos N', AllReach g ⟨p, N'⟩)) →
        ∃ R' N', (R', N') ∈ (R, N) :: rs ∧ (N' = [] ∨ ∃ p ∈ newPositions g pos N', AllReach g ⟨p, N'⟩) :=
      fun ⟨R', N', hm, hx⟩ => ⟨R', N', List.mem_cons_of_mem _ hm, hx⟩
    unfold tryResults
    split
    · obtain ⟨h1, h2⟩ := ih memo h hab'
      exact ⟨h1, fun ht => lift (h2 ht)⟩
    · split
      · rename_i hemp
        exact ⟨h, fun _ => ⟨R, N, List.mem_cons_self, Or.inl (by simpa using hemp)⟩⟩
      · simp only
        obtain ⟨h1, h2⟩ := tryPositions_inv2 g rank rec hrec stack
          (decide ((newPositions g pos N).length > 1)) N (newPositions g pos N) memo h
          (hab R N List.mem_cons_self)
        generalize tryPositions rec stack (decide ((newPositions g pos N).length > 1)) N
          (newPositions g pos N) memo = r at h1 h2
        obtain ⟨r1, m1⟩ := r
        simp only at h1 h2 ⊢
        split
        · rename_i hr
          exact ⟨h1, fun _ => ⟨R, N, List.mem_cons_self, Or.inr (h2 hr)⟩⟩
        · obtain ⟨h3, h4⟩ := ih m1 h1 hab'
          exact ⟨h3, fun ht => lift (h4 ht)⟩

theorem findSolution_core2 {g : Graph} {rank : NodeId → Nat} (hwf : g.WF) (hac : g.AcyclicBy rank)
    (rec : RecT) (hrec : RecOK2 g rank rec) (stack : List SState) (memo : Memo) (st : SState)
    (h : MemoInv2 g memo (st :: stack)) (hab : Above rank stack st.pos)
    (goals : List BId) (hsub : ∀ b ∈ st.goals, b ∈ goals) :
    MemoInv2 g (tryResults g rec (st :: stack) st.pos (removeFinishedGoals g st.pos goals) memo).2
      (st :: stack) ∧
    ((tryResults g rec (st :: stack) st.pos (removeFinishedGoals g st.pos goals) memo).1 = true →
      AllReach g st) := by
  obtain ⟨h1, h2⟩ := tryResults_inv2 g rank rec hrec (st :: stack) st.pos
    (removeFinishedGoals g st.pos goals) memo h
    (fun R N hm p hp => hab.cons (newPositions_rank hwf hac hm hp).2)
  refine ⟨h1, fun ht b hb => ?_⟩
  obtain ⟨R, N, hm, hcase⟩ := h2 ht
  obtain ⟨hR, _, hcov⟩ := removeFinishedGoals_inv hwf st.pos goals hm
  have here : b ∈ R → GoalReachable g st.pos b := by
    intro hbR
    have := hR b hbR
    cases ho : g.findOrigin b st.pos with
    | none => simp [ho] at this
    | some o =>
      obtain ⟨hmem, hn⟩ := findOrigin_some_mem ho
      exact ⟨o, hmem, hn ▸ BackReach.refl _⟩
  rcases hcov b (hsub b hb) with hbR | hbN
  · exact here hbR
  · rcases hcase with hN | ⟨p, hp, hall⟩
    · subst hN; simp at hbN
    · obtain ⟨o, ho, hreach⟩ := hall b hbN
      exact ⟨o, ho, (newPositions_rank hwf hac hm hp).1.trans hreach⟩

theorem findSolution_inv2 {g : Graph} {rank : NodeId → Nat} (hwf : g.WF) (hac : g.AcyclicBy rank)
    (rec : RecT) (hrec : RecOK2 g rank rec) (stack : List SState) (memo : Memo) (st : SState)
    (h : MemoInv2 g memo (st :: stack)) (hab : Above rank stack st.pos) :
    MemoInv2 g (findSolution g rec (st :: stack) memo st).2 (st :: stack) ∧
    ((findSolution g rec (st :: stack) memo st).1 = true → AllReach g st) := by
  unfold findSolution
  dsimp only
  split
  · exact findSolution_core2 hwf hac rec hrec stack memo st h hab _
      (fun b hb => mem_sinsert.2 (Or.inr hb))
  · exact findSolution_core2 hwf hac rec hrec stack memo st h hab _ (fun b hb => hb)

theorem recall_ok2 {g : Graph} {rank : NodeId → Nat} (hwf : g.WF) (hac : g.AcyclicBy rank) :
    ∀ fuel, RecOK2 g rank (recall g fuel) := by
  intro fuel
  induction fuel with
  | zero =>
    intro stack memo st h _
    exact ⟨by simpa [recall] using h, by simp [recall]⟩
  | succ fuel ih =>
    intro stack memo st h hab
    unfold recall
    split
    · rename_i b hb
      refine ⟨h, fun hb' => ?_⟩
      simp only at hb'
      subst hb'
      exact (h st hb).resolve_left hab.not_mem
    · have hinv1 : MemoInv2 g (memo.set st true) (st :: stack) := by
        intro s hs
        rw [Memo.find_set] at hs
        split at hs
        · rename_i heq; subst heq; exact Or.inl List.mem_cons_self
        · rcases h s hs with h' | h'
          · exact Or.inl (List.mem_cons_of_mem _ h')
          · exact Or.inr h'
      obtain ⟨hinv2, hsound⟩ := findSolution_inv2 hwf hac (recall g fuel) ih stack _ st hinv1 hab
      generalize findSolution g (recall g fuel) (st :: stack) (memo.set st true) st = r at hinv2 hsound
      obtain ⟨r1, m1⟩ := r
      simp only at hinv2 hsound ⊢
      refine ⟨?_, hsound⟩
      intro s hs
      rw [Memo.find_set] at hs
      split at hs
      · rename_i heq
        subst heq
        simp only [Option.some.injEq] at hs
        exact Or.inr (hsound hs)
      · rename_i hne
        rcases hinv2 s hs with h' | h'
        · rcases List.mem_cons.1 h' with h'' | h''
          · exact absurd h''.symm hne
          · exact Or.inl h''
        · exact Or.inr h'

theorem above_nil (rank : NodeId → Nat) (n : NodeId) : Above rank [] n := by
  intro s hs; simp at hs

theorem solveCore_ok2 {g : Graph} {rank : NodeId → Nat} (hwf : g.WF) (hac : g.AcyclicBy rank)
    (memo : Memo) (n : NodeId) (attrs : List BId) (hm : MemoInv2 g memo []) :
    MemoInv2 g (solveCore g memo n attrs).2 [] ∧
    ((solveCore g memo n attrs).1 = true → ∀ b ∈ attrs, GoalReachable g n b) := by
  unfold solveCore
  obtain ⟨h1, h2⟩ := recall_ok2 hwf hac g.solveFuel [] memo ⟨n, ofList attrs⟩ hm (above_nil rank n)
  exact ⟨h1, fun hr b hb => h2 hr b (mem_ofList.2 hb)⟩

theorem canHaveSolution_inv2 {g : Graph} {rank : NodeId → Nat} (hwf : g.WF) (hac : g.AcyclicBy rank)
    (n : NodeId) : ∀ (bs : List BId) (memo : Memo), MemoInv2 g memo [] →
      MemoInv2 g (canHaveSolution g n bs memo).2 [] := by
  intro bs
  induction bs with
  | nil => intro memo hm; simpa [canHaveSolution] using hm
  | cons b bs ih =>
    intro memo hm
    have h1 := (solveCore_ok2 hwf hac memo n [b] hm).1
    unfold canHaveSolution
    generalize solveCore g memo n [b] = r at h1
    obtain ⟨r1, m1⟩ := r
    simp only at h1 ⊢
    split
    · exact ih m1 h1
    · exact h1

/-- `Solve` on a well-formed acyclic graph (conditions allowed): accepted ⇒ every goal reachable -/
theorem solve_sound_acyclic {g : Graph} {rank : NodeId → Nat} (hwf : g.WF) (hac : g.AcyclicBy rank)
    (memo : Memo) (n : NodeId) (attrs : List BId) (hm : MemoInv2 g memo []) :
    MemoInv2 g (solve g memo n attrs).2 [] ∧
    ((solve g memo n attrs).1 = true → ∀ b ∈ attrs, GoalReachable g n b) := by
  unfold solve
  split
  · have h1 := canHaveSolution_inv2 hwf hac n attrs memo hm
    generalize canHaveSolution g n attrs memo = r at h1
    obtain ⟨ok, m1⟩ := r
    simp only at h1 ⊢
    split
    · exact solveCore_ok2 hwf hac m1 n attrs h1
    · exact ⟨h1, by simp⟩
  · exact solveCore_ok2 hwf hac memo n attrs hm

/-! ### C08: memo soundness on acyclic graphs

`val` is the intended value of every state.  `MemoInv3`: every finished memo entry stores `val`. -/

def anyPos (val : SState → Bool) (new : List BId) (ps : List NodeId) : Bool :=
  ps.any fun p => val ⟨p, new⟩

def anyRes (g : Graph) (val : SState → Bool) (pos : NodeId) (rs : List RemoveResult) : Bool :=
  rs.any fun r => !goalsConflict g r.1 && (r.2.isEmpty || anyPos val r.2 (newPositions g pos r.2))

/-- the goals `FindSolution` works on: the state's goals plus the node's condition -/
def goalsAt (g : Graph) (st : SState) : List BId :=
  match g.condition st.pos with
  | some c => sinsert c st.goals
  | none => st.goals

/-- one unfolding of the memo-free recursion -/
def stepVal (g : Graph) (val : SState → Bool) (st : SState) : Bool :=
  anyRes g val st.pos (removeFinishedGoals g st.pos (goalsAt g st))

def MemoInv3 (val : SState → Bool) (memo : Memo) (stack : List SState) : Prop :=
  ∀ st b, memo.find st = some b → st ∈ stack ∨ b = val st

theorem memoInv3_nil (val : SState → Bool) (stack : List SState) : MemoInv3 val [] stack := by
  intro st b h; simp [Memo.find] at h

/-- `rec` computes `val` (and keeps the invariant) on every state of rank below `k` -/
def RecOK3 (rank : NodeId → Nat) (val : SState → Bool) (k : Nat) (rec : RecT) : Prop :=
  ∀ stack memo st, rank st.pos < k → MemoInv3 val memo stack → Above rank stack st.pos →
    MemoInv3 val (rec stack memo st).2 stack ∧ (rec stack memo st).1 = val st

theorem tryPositions_pure (rank : NodeId → Nat) (val : SState → Bool) (k : Nat) (rec : RecT)
    (hrec : RecOK3 rank val k rec) (stack : List SState) (multi : Bool) (new : List BId) :
    ∀ (ps : List NodeId) (memo : Memo), MemoInv3 val memo stack →
      (∀ p ∈ ps, rank p < k ∧ Above rank stack p) →
      MemoInv3 val (tryPositions rec stack multi new ps memo).2 stack ∧
      (tryPositions rec stack multi new ps memo).1 = anyPos val new ps := by
  intro ps
  induction ps with
  | nil => intro memo h _; exact ⟨by simpa [tryPositions] using h, by simp [tryPositions, anyPos]⟩
  | cons p ps ih =>
    intro memo h hps
    have hps' : ∀ q ∈ ps, rank q < k ∧ Above rank stack q := fun q hq => hps q (List.mem_cons_of_mem _ hq)
    obtain ⟨hpk, hpa⟩ := hps p List.mem_cons_self
    have hnot : stack.contains (⟨p, new⟩ : SState) = false := by
      have : (⟨p, new⟩ : SState) ∉ stack := Above.not_mem (st := ⟨p, new⟩) hpa
      simpa using this
    unfold tryPositions
    simp only [hnot, Bool.false_and, Bool.false_eq_true, ↓reduceIte]
    obtain ⟨h1, h2⟩ := hrec stack memo ⟨p, new⟩ hpk h hpa
    generalize rec stack memo ⟨p, new⟩ = r at h1 h2
    obtain ⟨r1, m1⟩ := r
    simp only at h1 h2 ⊢
    split
    · rename_i hr
      refine ⟨h1, ?_⟩
      simp [anyPos, ← h2, hr]
    · rename_i hr
      obtain ⟨h3, h4⟩ := ih m1 h1 hps'
      refine ⟨h3, ?_⟩
      rw [h4]
      have : val ⟨p, new⟩ = false := by rw [← h2]; simpa using hr
      simp [anyPos, this]

theorem tryResults_pure (g : Graph) (rank : NodeId → Nat) (val : SState → Bool) (k : Nat) (rec : RecT)
    (hrec : RecOK3 rank val k rec) (stack : List SState) (pos : NodeId) :
    ∀ (rs : List RemoveResult) (memo : Memo), MemoInv3 val memo stack →
      (∀ R N, (R, N) ∈ rs → ∀ p ∈ newPositions g pos N, rank p < k ∧ Above rank stack p) →
      MemoInv3 val (tryResults g rec stack pos rs memo).2 stack ∧
      (tryResults g rec stack pos rs memo).1 = anyRes g val pos rs := by
  intro rs
  induction rs with
  | nil => intro memo h _; exact ⟨by simpa [tryResults] using h, by simp [tryResults, anyRes]⟩
  | cons r rs ih =>
    intro memo h hps
    obtain ⟨R, N⟩ := r
    have hps' : ∀ R' N', (R', N') ∈ rs → ∀ p ∈ newPositions g pos N', rank p < k ∧ Above rank stack p :=
      fun R' N' hm => hps R' N' (List.mem_cons_of_mem _ hm)
    unfold tryResults
    split
    · rename_i hc
      obtain ⟨h1, h2⟩ := ih memo h hps'
      exact ⟨h1, by rw [h2]; simp [anyRes, hc]⟩
    · rename_i hc
      split
      · rename_i hemp
        exact ⟨h, by simp [anyRes, hc, hemp]⟩
      · rename_i hemp
        simp only
        obtain ⟨h1, h2⟩ := tryPositions_pure rank val k rec hrec stack
          (decide ((newPositions g pos N).length > 1)) N (newPositions g pos N) memo h
          (hps R N List.mem_cons_self)
        generalize tryPositions rec stack (decide ((newPositions g pos N).length > 1)) N
          (newPositions g pos N) memo = r at h1 h2
        obtain ⟨r1, m1⟩ := r
        simp only at h1 h2 ⊢
        split
        · rename_i hr
          refine ⟨h1, ?_⟩
          simp [anyRes, hc, hemp, ← h2, hr]
        · rename_i hr
          obtain ⟨h3, h4⟩ := ih m1 h1 hps'
          refine ⟨h3, ?_⟩
          rw [h4]
          have : anyPos val N (newPositions g pos N) = false := by rw [← h2]; simpa using hr
          simp [anyRes, hc, hemp, this]

theorem findSolution_pure {g : Graph} {rank : NodeId → Nat} (hwf : g.WF) (hac : g.AcyclicBy rank)
    (val : SState → Bool) (rec : RecT) (stack : List SState) (memo : Memo) (st : SState)
    (hrec : RecOK3 rank val (rank st.pos) rec)
    (h : MemoInv3 val memo (st :: stack)) (hab : Above rank stack st.pos) :
    MemoInv3 val (findSolution g rec (st :: stack) memo st).2 (st :: stack) ∧
    (findSolution g rec (st :: stack) memo st).1 = stepVal g val st := by
  have key := tryResults_pure g rank val (rank st.pos) rec hrec (st :: stack) st.pos
    (removeFinishedGoals g st.pos (goalsAt g st)) memo h
    (fun R N hm p hp =>
      let hr := (newPositions_rank hwf hac hm hp).2
      ⟨hr, hab.cons hr⟩)
  unfold findSolution stepVal
  unfold goalsAt at key ⊢
  exact key

/-- the value of a state: the answer of a fresh solver with just enough fuel -/
def spec (g : Graph) (rank : NodeId → Nat) (st : SState) : Bool :=
  (recall g (rank st.pos + 1) [] [] st).1

theorem recall_spec_aux {g : Graph} {rank : NodeId → Nat} (hwf : g.WF) (hac : g.AcyclicBy rank) :
    ∀ (k : Nat) (st : SState), rank st.pos = k → ∀ (fuel : Nat), k < fuel → ∀ (stack : List SState) (memo : Memo),
      MemoInv3 (spec g rank) memo stack → Above rank stack st.pos →
      MemoInv3 (spec g rank) (recall g fuel stack memo st).2 stack ∧
      (recall g fuel stack memo st).1 = spec g rank st := by
  intro k
  induction k using Nat.strongRecOn with
  | _ k ih =>
    intro st hk fuel hfuel stack memo hm hab
    -- `recall g f` is correct below rank `k` as soon as `f ≥ k`
    have hrecOK : ∀ f, k ≤ f → RecOK3 rank (spec g rank) (rank st.pos) (recall g f) := by
      intro f hf stack' memo' st' hlt hm' hab'
      rw [hk] at hlt
      exact ih (rank st'.pos) hlt st' rfl f (Nat.lt_of_lt_of_le hlt hf) stack' memo' hm' hab'
    -- the specification unfolds once
    have hspec : spec g rank st = stepVal g (spec g rank) st := by
      unfold spec
      rw [hk]
      unfold recall
      simp only [Memo.find]
      have hinv : MemoInv3 (spec g rank) (Memo.set [] st true) (st :: []) := by
        intro s b hs
        rw [Memo.find_set] at hs
        split at hs
        · rename_i heq; subst heq; exact Or.inl List.mem_cons_self
        · simp [Memo.find] at hs
      have := (findSolution_pure hwf hac (spec g rank) (recall g k) [] _ st
        (hrecOK k (Nat.le_refl _)) hinv (above_nil rank _)).2
      generalize findSolution g (recall g k) [st] (Memo.set [] st true) st = r at this
      obtain ⟨r1, m1⟩ := r
      exact this
    obtain ⟨f, rfl⟩ : ∃ f, fuel = f + 1 := ⟨fuel - 1, by omega⟩
    unfold recall
    split
    · rename_i b hb
      exact ⟨hm, ((hm st b hb).resolve_left hab.not_mem)⟩
    · have hinv1 : MemoInv3 (spec g rank) (memo.set st true) (st :: stack) := by
        intro s b hs
        rw [Memo.find_set] at hs
        split at hs
        · rename_i heq; subst heq; exact Or.inl List.mem_cons_self
        · rcases hm s b hs with h' | h'
          · exact Or.inl (List.mem_cons_of_mem _ h')
          · exact Or.inr h'
      obtain ⟨hinv2, hval⟩ := findSolution_pure hwf hac (spec g rank) (recall g f) stack _ st
        (hrecOK f (by omega)) hinv1 hab
      generalize findSolution g (recall g f) (st :: stack) (memo.set st true) st = r at hinv2 hval
      obtain ⟨r1, m1⟩ := r
      simp only at hinv2 hval ⊢
      refine ⟨?_, by rw [hval, hspec]⟩
      intro s b hs
      rw [Memo.find_set] at hs
      split at hs
      · rename_i heq
        subst heq
        simp only [Option.some.injEq] at hs
        exact Or.inr (by rw [← hs, hval, hspec])
      · rename_i hne
        rcases hinv2 s b hs with h' | h'
        · rcases List.mem_cons.1 h' with h'' | h''
          · exact absurd h''.symm hne
          · exact Or.inl h''
        · exact Or.inr h'

/-- **memo soundness**: on a well-formed acyclic graph `RecallOrFindSolution` returns the state's value
whatever sound memo and stack it is called with, and keeps the memo sound. -/
theorem recall_spec {g : Graph} {rank : NodeId → Nat} (hwf : g.WF) (hac : g.AcyclicBy rank)
    (st : SState) (fuel : Nat) (hfuel : rank st.pos < fuel) (stack : List SState) (memo : Memo)
    (hm : MemoInv3 (spec g rank) memo stack) (hab : Above rank stack st.pos) :
    MemoInv3 (spec g rank) (recall g fuel stack memo st).2 stack ∧
    (recall g fuel stack memo st).1 = spec g rank st :=
  recall_spec_aux hwf hac (rank st.pos) st rfl fuel hfuel stack memo hm hab

/-! ### `Solve`, `Filter` on a sound memo -/

theorem solveCore_spec {g : Graph} {rank : NodeId → Nat} (hwf : g.WF) (hac : g.AcyclicBy rank)
    (memo : Memo) (n : NodeId) (attrs : List BId) (hm : MemoInv3 (spec g rank) memo []) :
    MemoInv3 (spec g rank) (solveCore g memo n attrs).2 [] ∧
    (solveCore g memo n attrs).1 = spec g rank ⟨n, ofList attrs⟩ :=
  recall_spec hwf hac ⟨n, ofList attrs⟩ g.solveFuel (hac.bound n) [] memo hm (above_nil rank n)

theorem canHaveSolution_spec {g : Graph} {rank : NodeId → Nat} (hwf : g.WF) (hac : g.AcyclicBy rank)
    (n : NodeId) : ∀ (bs : List BId) (memo : Memo), MemoInv3 (spec g rank) memo [] →
      MemoInv3 (spec g rank) (canHaveSolution g n bs memo).2 [] ∧
      (canHaveSolution g n bs memo).1 = bs.all fun b => spec g rank ⟨n, ofList [b]⟩ := by
  intro bs
  induction bs with
  | nil => intro memo hm; exact ⟨by simpa [canHaveSolution] using hm, by simp [canHaveSolution]⟩
  | cons b bs ih =>
    intro memo hm
    obtain ⟨h1, h2⟩ := solveCore_spec hwf hac memo n [b] hm
    unfold canHaveSolution
    generalize solveCore g memo n [b] = r at h1 h2
    obtain ⟨r1, m1⟩ := r
    simp only at h1 h2 ⊢
    split
    · rename_i hr
      obtain ⟨h3, h4⟩ := ih m1 h1
      exact ⟨h3, by rw [h4]; simp [← h2, hr]⟩
    · rename_i hr
      exact ⟨h1, by simp [← h2, hr]⟩

/-- the memo-independent value of `Solve(attrs, n)` -/
def solveVal (g : Graph) (rank : NodeId → Nat) (n : NodeId) (attrs : List BId) : Bool :=
  if attrs.length > 1 then
    (attrs.all fun b => spec g rank ⟨n, ofList [b]⟩) && spec g rank ⟨n, ofList attrs⟩
  else spec g rank ⟨n, ofList attrs⟩

theorem solve_spec {g : Graph} {rank : NodeId → Nat} (hwf : g.WF) (hac : g.AcyclicBy rank)
    (memo : Memo) (n : NodeId) (attrs : List BId) (hm : MemoInv3 (spec g rank) memo []) :
    MemoInv3 (spec g rank) (solve g memo n attrs).2 [] ∧
    (solve g memo n attrs).1 = solveVal g rank n attrs := by
  unfold solve solveVal
  split
  · obtain ⟨h1, h2⟩ := canHaveSolution_spec hwf hac n attrs memo hm
    generalize canHaveSolution g n attrs memo = r at h1 h2
    obtain ⟨ok, m1⟩ := r
    simp only at h1 h2 ⊢
    split
    · rename_i hok
      obtain ⟨h3, h4⟩ := solveCore_spec hwf hac m1 n attrs h1
      exact ⟨h3, by rw [h4, ← h2, hok]; simp⟩
    · rename_i hok
      exact ⟨h1, by rw [← h2]; simp [hok]⟩
  · exact solveCore_spec hwf hac memo n attrs hm

theorem filterLoop_spec {g : Graph} {rank : NodeId → Nat} (hwf : g.WF) (hac : g.AcyclicBy rank)
    (n : NodeId) (skip : Bool) : ∀ (bs : List BId) (memo : Memo), MemoInv3 (spec g rank) memo [] →
      MemoInv3 (spec g rank) (filterLoop g n skip bs memo).2 [] ∧
      (filterLoop g n skip bs memo).1 = bs.filter fun b => skip || solveVal g rank n [b] := by
  intro bs
  induction bs with
  | nil => intro memo hm; exact ⟨by simpa [filterLoop] using hm, by simp [filterLoop]⟩
  | cons b bs ih =>
    intro memo hm
    unfold filterLoop
    split
    · rename_i hs
      obtain ⟨h1, h2⟩ := ih memo hm
      generalize filterLoop g n skip bs memo = r at h1 h2
      obtain ⟨r1, m1⟩ := r
      simp only at h1 h2 ⊢
      exact ⟨h1, by rw [h2]; simp [hs]⟩
    · rename_i hs
      obtain ⟨h1, h2⟩ := solve_spec hwf hac memo n [b] hm
      generalize solve g memo n [b] = r at h1 h2
      obtain ⟨vis, m1⟩ := r
      simp only at h1 h2 ⊢
      obtain ⟨h3, h4⟩ := ih m1 h1
      generalize filterLoop g n skip bs m1 = r at h3 h4
      obtain ⟨r2, m2⟩ := r
      simp only at h3 h4 ⊢
      refine ⟨h3, ?_⟩
      rw [h4]
      have hs' : skip = false := by simpa using hs
      cases vis <;> simp [List.filter, ← h2, hs']

end PytypeModel.Typegraph
