/-
C06 proofs, part 5: the text transport and the pickle transport of an emitted-shape type re-export to the
same type up to the position of `None` in unions; reads commute with `mapUnit`.
-/
import PytypeModel.Proofs.AbsConvertIdent

namespace PytypeModel.Pytd.AbsConvert
open PytypeModel.Pytd

/-! ### `resolve` and `lateTy` only change node classes of names -/

mutual
theorem strip_resolve : ∀ t : Ty, strip (resolve t) = strip t
  | .any | .nothing | .named _ | .cls _ | .late _ | .typeParam _ _ | .literal _ => by simp [resolve, strip]
  | .union ts => by simp only [resolve, strip, strips_resolves ts]
  | .generic b ps => by simp only [resolve, strip, strip_resolve b, strips_resolves ps]
  | .tuple b ps => by simp only [resolve, strip, strip_resolve b, strips_resolves ps]
  | .callable b ps => by simp only [resolve, strip, strip_resolve b, strips_resolves ps]
  | .annotated t as => by simp only [resolve, strip, strip_resolve t]
theorem strips_resolves : ∀ ts : List Ty, strips (resolves ts) = strips ts
  | [] => by simp [resolves, strips]
  | t :: ts => by simp only [resolves, strips, strip_resolve t, strips_resolves ts]
end

mutual
theorem strip_lateTy (m : String) : ∀ t : Ty, strip (lateTy m t) = strip t
  | .any | .nothing | .named _ | .late _ | .typeParam _ _ | .literal _ => by simp [lateTy, strip]
  | .cls n => by
    simp only [lateTy]
    split <;> simp [strip]
  | .union ts => by simp only [lateTy, strip, strips_lateTys m ts]
  | .generic b ps => by simp only [lateTy, strip, strip_lateTy m b, strips_lateTys m ps]
  | .tuple b ps => by simp only [lateTy, strip, strip_lateTy m b, strips_lateTys m ps]
  | .callable b ps => by simp only [lateTy, strip, strip_lateTy m b, strips_lateTys m ps]
  | .annotated t as => by simp only [lateTy, strip, strip_lateTy m t]
theorem strips_lateTys (m : String) : ∀ ts : List Ty, strips (lateTys m ts) = strips ts
  | [] => by simp [lateTys, strips]
  | t :: ts => by simp only [lateTys, strips, strip_lateTy m t, strips_lateTys m ts]
end

theorem normOut_resolve (t : Ty) : normOut (resolve t) = normOut t := by
  rw [← normOut_strip (resolve t), strip_resolve, normOut_strip]

theorem normOut_lateTy (m : String) (t : Ty) : normOut (lateTy m t) = normOut t := by
  rw [← normOut_strip (lateTy m t), strip_lateTy, normOut_strip]

/-! ### the text normalisation of an emitted-shape type is `None`-last -/

theorem isNoneName_strip (x : Ty) : isNoneName (strip x) = isNoneRef x := by
  cases x <;> simp [strip, isNoneName, isNoneRef]

theorem noneLastL_strips (l : List Ty) : noneLastL (strips l) = strips (noneLastR l) := by
  unfold noneLastL noneLastR
  rw [strips_eq_map, strips_eq_map, List.map_append, List.filter_map, List.filter_map]
  congr 1
  · congr 1
    apply List.filter_congr
    intro x _
    simp [Function.comp, isNoneName_strip]
  · congr 1
    apply List.filter_congr
    intro x _
    simp [Function.comp, isNoneName_strip]

theorem dedupSyn_id (seen l : List Ty) (hn : l.Nodup) (hs : ∀ s ∈ seen, s ∉ l) : dedupSyn seen l = l := by
  induction l generalizing seen with
  | nil => simp [dedupSyn]
  | cons t ts ih =>
    have hnot : seen.any (fun x => decide (x = t)) = false := by
      cases hb : seen.any (fun x => decide (x = t)) with
      | false => rfl
      | true =>
        exfalso
        obtain ⟨s, hs1, hs2⟩ := List.any_eq_true.1 hb
        have : s = t := by simpa using hs2
        exact hs s hs1 (by simp [this])
    have hn' := List.nodup_cons.1 hn
    simp only [dedupSyn, hnot, Bool.false_eq_true, if_false]
    congr 1
    apply ih (t :: seen) hn'.2
    intro s hs1
    rcases List.mem_cons.1 hs1 with e | h'
    · subst e; exact hn'.1
    · intro hm; exact hs s h' (by simp [hm])

theorem nodup_of_map {α β : Type} (f : α → β) : ∀ l : List α, (l.map f).Nodup → l.Nodup
  | [], _ => List.nodup_nil
  | x :: xs, h => by
    simp only [List.map_cons, List.nodup_cons] at h ⊢
    exact ⟨fun hm => h.1 (List.mem_map_of_mem hm), nodup_of_map f xs h.2⟩

theorem nodup_of_nodup_skels (l : List Ty) (h : nodupTys (skels l) = true) : l.Nodup := by
  rw [nodupTys_iff, skels_eq_map] at h
  exact nodup_of_map skel l h

theorem normText_name (b : Ty) (h : isNameTy b = true) : normText b = strip b := by
  cases b <;> simp_all [isNameTy, normText, strip]

mutual
theorem normText_emitted : ∀ t : Ty, (t = .nothing ∨ emitted t = true) → normText t = strip (nl t)
  | .any, _ => by simp [normText, nl, strip]
  | .nothing, _ => by simp [normText, nl, strip]
  | .named n, _ => by simp [normText, nl, strip]
  | .cls n, _ => by simp [normText, nl, strip]
  | .late n, _ => by simp [normText, nl, strip]
  | .union ts, h => by
    have he := emitted_of_or _ (by simp) h
    simp only [emitted, Bool.and_eq_true, decide_eq_true_eq] at he
    have ih := normTexts_members ts he.1.2
    simp only [normText, nl, strip, ih, noneLastL_strips]
    have hnd : nodupTys (skels (strips (noneLastR (nls ts)))) = true := by
      rw [skels_strips]
      apply nodup_skels_noneLastR
      rw [skels_nls]; exact he.2
    rw [dedupSyn_id [] _ (nodup_of_nodup_skels _ hnd) (by intro s hs; simp at hs)]
    have hlen : 2 ≤ (strips (noneLastR (nls ts))).length := by
      rw [strips_length, length_noneLastR, nls_length]; exact he.1.1
    split
    · rename_i t heq
      rw [heq] at hlen; simp at hlen
    · rfl
  | .generic b ps, h => by
    have he := emitted_of_or _ (by simp) h
    obtain ⟨hn, hcase⟩ := emitted_generic_inv b ps he
    simp only [normText, nl, strip, normText_name b hn]
    rcases hcase with ⟨_, c, hc⟩ | ⟨_, k, _, _, hp⟩
    · rcases hc with e | e | e <;> subst e <;> rfl
    · rw [normTexts_params ps hp]
  | .tuple b ps, h => by
    have he := emitted_of_or _ (by simp) h
    simp only [emitted, Bool.and_eq_true, beq_iff_eq] at he
    simp only [normText, nl, strip, normText_name b he.1.1, normTexts_params ps he.2]
  | .typeParam _ _, h => by rcases h with h | h <;> simp [emitted] at h
  | .callable _ _, h => by rcases h with h | h <;> simp [emitted] at h
  | .literal _, h => by rcases h with h | h <;> simp [emitted] at h
  | .annotated _ _, h => by rcases h with h | h <;> simp [emitted] at h
theorem normTexts_params : ∀ ts : List Ty, emittedP ts = true → normTexts ts = strips (nls ts)
  | [], _ => by simp [normTexts, nls, strips]
  | t :: ts, h => by
    simp only [emittedP, Bool.and_eq_true, Bool.or_eq_true, decide_eq_true_eq] at h
    simp only [normTexts, nls, strips, normText_emitted t h.1, normTexts_params ts h.2]
theorem normTexts_members : ∀ ts : List Ty, emittedM ts = true → normTexts ts = strips (nls ts)
  | [], _ => by simp [normTexts, nls, strips]
  | t :: ts, h => by
    simp only [emittedM, Bool.and_eq_true] at h
    simp only [normTexts, nls, strips, normText_emitted t (Or.inr h.1.2), normTexts_members ts h.2]
end

/-! ### module-level identity on emitted-shape types -/

theorem normMembers_eq_strips (l : List Ty) (h : ∀ x ∈ l, normVal x = strip x ∧ x ≠ .nothing) :
    normMembers l = strips l := by
  induction l with
  | nil => simp [normMembers, strips]
  | cons x xs ih =>
    have hx := h x (by simp)
    simp only [normMembers, hx.2, if_false, hx.1, strips, ih (fun y hy => h y (by simp [hy]))]
    simp

theorem strips_no_any (l : List Ty) (h : ∀ x ∈ l, x ≠ .any) : (strips l).any (· = .any) = false := by
  cases hb : (strips l).any (· = .any) with
  | false => rfl
  | true =>
    exfalso
    obtain ⟨z, hz, hz'⟩ := List.any_eq_true.1 hb
    obtain ⟨y, hy, e⟩ := mem_strips l z hz
    have : z = .any := by simpa using hz'
    rw [this] at e
    exact h y hy (skel_eq_any y (by rw [← skel_strip, ← e]; rfl))

theorem exportTys_two (l : List Ty) (hlen : 2 ≤ l.length) (ha : l.any (· = .any) = false) :
    exportTys l = joinTypes l := by
  unfold exportTys
  simp only [ha, Bool.false_eq_true, if_false]
  match l, hlen with
  | a :: b :: c, _ => rfl

/-- on an emitted-shape union: module-level export = nested export -/
theorem normOut_union_eq (l : List Ty) (hfix : ∀ x ∈ l, normVal x = strip x ∧ x ≠ .nothing ∧ x ≠ .any)
    (hlen : 2 ≤ l.length) : normOut (.union l) = normIn (.union l) := by
  simp only [normOut, topMembers, normIn]
  have hm := normMembers_eq_strips l (fun x hx => ⟨(hfix x hx).1, (hfix x hx).2.1⟩)
  rw [hm]
  exact exportTys_two _ (by rw [strips_length]; exact hlen) (strips_no_any l (fun x hx => (hfix x hx).2.2))

theorem normOut_single (t : Ty) (hu : isUnionTy t = false) (hn : t ≠ .nothing) (hv : normVal t = strip t) :
    normOut t = strip t := by
  have htop : topMembers t = [normVal t] := by
    cases t with
    | union ts => simp [isUnionTy] at hu
    | nothing => exact absurd rfl hn
    | _ => rfl
  simp only [normOut, htop, hv, exportTys]
  by_cases ha : strip t = .any
  · simp [ha]
  · have hne : strip t ≠ .nothing := fun e => hn ((strip_eq_nothing t).1 e)
    simp [ha, hne]

/-- `reexport_identity`: an emitted-shape type re-exports to itself, also with `None` moved last -/
theorem normOut_emitted (t : Ty) (h : emitted t = true) :
    normOut t = strip t ∧ normOut (nl t) = strip (nl t) := by
  by_cases hu : isUnionTy t = true
  · cases t with
    | union ts =>
      have he := h
      simp only [emitted, Bool.and_eq_true, decide_eq_true_eq] at he
      have hm := identM ts he.1.2
      have hp := identP (.union ts) (Or.inr h)
      constructor
      · rw [normOut_union_eq ts (fun x hx => ⟨(hm x hx).2.2.2.1, (hm x hx).2.2.1, (hm x hx).2.1⟩) he.1.1]
        exact hp.1
      · simp only [nl]
        rw [normOut_union_eq]
        · exact hp.2
        · intro x hx
          obtain ⟨y, hy, e⟩ := mem_nls ts x ((mem_noneLastR _ x).1 hx)
          subst e
          have := hm y hy
          have hsk : skel (nl y) = skel y := skel_nl y
          exact ⟨this.2.2.2.2, fun e => this.2.2.1 (skel_eq_nothing y (by rw [← hsk, e]; rfl)),
            fun e => this.2.1 (skel_eq_any y (by rw [← hsk, e]; rfl))⟩
        · rw [length_noneLastR, nls_length]; exact he.1.1
    | _ => simp [isUnionTy] at hu
  · have hu' : isUnionTy t = false := by simpa using hu
    have hv := identV t h hu'
    have hn : t ≠ .nothing := by intro e; subst e; simp [emitted] at h
    constructor
    · exact normOut_single t hu' hn hv.1
    · apply normOut_single (nl t) (by rw [isUnionTy_nl]; exact hu') _ hv.2
      intro e
      exact hn (skel_eq_nothing t (by rw [← skel_nl, e]; rfl))

/-! ### `strip` and `nl` commute -/

theorem isNoneRef_strip (x : Ty) : isNoneRef (strip x) = isNoneRef x := by
  cases x <;> simp [strip, isNoneRef]

theorem noneLastR_strips (l : List Ty) : noneLastR (strips l) = strips (noneLastR l) := by
  unfold noneLastR
  rw [strips_eq_map, strips_eq_map, List.map_append, List.filter_map, List.filter_map]
  congr 1
  · congr 1
    apply List.filter_congr
    intro x _
    simp [Function.comp, isNoneRef_strip]
  · congr 1
    apply List.filter_congr
    intro x _
    simp [Function.comp, isNoneRef_strip]

mutual
theorem strip_nl : ∀ t : Ty, strip (nl t) = nl (strip t)
  | .any | .nothing | .named _ | .cls _ | .late _ | .typeParam _ _ | .literal _ => by simp [nl, strip]
  | .union ts => by simp only [nl, strip, ← noneLastR_strips, strips_nls ts]
  | .generic b ps => by simp only [nl, strip, strips_nls ps]
  | .tuple b ps => by simp only [nl, strip, strips_nls ps]
  | .callable b ps => by simp only [nl, strip, strips_nls ps]
  | .annotated t as => by simp only [nl, strip, strip_nl t]
theorem strips_nls : ∀ ts : List Ty, strips (nls ts) = nls (strips ts)
  | [] => by simp [nls, strips]
  | t :: ts => by simp only [nls, strips, strip_nl t, strips_nls ts]
end

/-! ### `nl t` equals `t` as a pytd node (unions are sets) -/

theorem subAll_iff (as bs : List Ty) :
    subAll as bs = true ↔ ∀ a ∈ as, ∃ b ∈ bs, sameTy a b = true := by
  induction as with
  | nil => simp [subAll]
  | cons a as ih =>
    simp only [subAll, Bool.and_eq_true, ih, List.any_eq_true, List.mem_cons, forall_eq_or_imp]

theorem memR_iff (as : List Ty) (b : Ty) : memR as b = true ↔ ∃ a ∈ as, sameTy a b = true := by
  induction as with
  | nil => simp [memR]
  | cons a as ih => simp only [memR, Bool.or_eq_true, ih, List.mem_cons, exists_eq_or_imp]

mutual
theorem sameTy_refl : ∀ t : Ty, sameTy t t = true
  | .any | .nothing | .named _ | .cls _ | .late _ | .typeParam _ _ | .literal _ => by simp [sameTy]
  | .union ts => by
    have hm := sameTy_refl_mem ts
    simp only [sameTy, Bool.and_eq_true, subAll_iff, List.all_eq_true, memR_iff]
    exact ⟨fun a ha => ⟨a, ha, hm a ha⟩, fun b hb => ⟨b, hb, hm b hb⟩⟩
  | .generic b ps => by simp only [sameTy, sameTy_refl b, sameList_refl ps, Bool.and_self]
  | .tuple b ps => by simp only [sameTy, sameTy_refl b, sameList_refl ps, Bool.and_self]
  | .callable b ps => by simp only [sameTy, sameTy_refl b, sameList_refl ps, Bool.and_self]
  | .annotated t as => by simp [sameTy, sameTy_refl t]
theorem sameList_refl : ∀ ts : List Ty, sameList ts ts = true
  | [] => by simp [sameList]
  | t :: ts => by simp only [sameList, sameTy_refl t, sameList_refl ts, Bool.and_self]
theorem sameTy_refl_mem : ∀ ts : List Ty, ∀ m ∈ ts, sameTy m m = true
  | [], _, hm => by simp at hm
  | t :: ts, m, hm => by
    rcases List.mem_cons.1 hm with e | h'
    · rw [e]; exact sameTy_refl t
    · exact sameTy_refl_mem ts m h'
end

theorem mem_nls_of_mem (l : List Ty) (x : Ty) (h : x ∈ l) : nl x ∈ nls l := by
  induction l with
  | nil => simp at h
  | cons a as ih =>
    rcases List.mem_cons.1 h with e | h'
    · subst e; simp [nls]
    · simp [nls, ih h']

mutual
theorem sameTy_nl : ∀ t : Ty, sameTy (nl t) t = true
  | .any | .nothing | .named _ | .cls _ | .late _ | .typeParam _ _ | .literal _ => by simp [nl, sameTy]
  | .union ts => by
    have hm := sameTy_nl_mem ts
    simp only [nl, sameTy, Bool.and_eq_true, subAll_iff, List.all_eq_true, memR_iff]
    constructor
    · intro a ha
      obtain ⟨y, hy, e⟩ := mem_nls ts a ((mem_noneLastR _ a).1 ha)
      exact ⟨y, hy, e ▸ hm y hy⟩
    · intro b hb
      exact ⟨nl b, (mem_noneLastR _ _).2 (mem_nls_of_mem ts b hb), hm b hb⟩
  | .generic b ps => by simp only [nl, sameTy, sameTy_refl b, sameList_nls ps, Bool.and_self]
  | .tuple b ps => by simp only [nl, sameTy, sameTy_refl b, sameList_nls ps, Bool.and_self]
  | .callable b ps => by simp only [nl, sameTy, sameTy_refl b, sameList_nls ps, Bool.and_self]
  | .annotated t as => by simp [nl, sameTy, sameTy_nl t]
theorem sameList_nls : ∀ ts : List Ty, sameList (nls ts) ts = true
  | [] => by simp [nls, sameList]
  | t :: ts => by simp only [nls, sameList, sameTy_nl t, sameList_nls ts, Bool.and_self]
theorem sameTy_nl_mem : ∀ ts : List Ty, ∀ m ∈ ts, sameTy (nl m) m = true
  | [], _, hm => by simp at hm
  | t :: ts, m, hm => by
    rcases List.mem_cons.1 hm with e | h'
    · rw [e]; exact sameTy_nl t
    · exact sameTy_nl_mem ts m h'
end

/-- the two transports of one emitted-shape type -/
theorem transport_ty (m : String) (t : Ty) (h : emitted t = true) :
    reexport (resolve (normText t)) = nl (reexport (lateTy m (resolve t))) ∧
    reexport (lateTy m (resolve t)) = strip t ∧
    sameTy (reexport (resolve (normText t))) (reexport (lateTy m (resolve t))) = true := by
  have hid := normOut_emitted t h
  have h2 : reexport (lateTy m (resolve t)) = strip t := by
    rw [reexport_eq_normOut, normOut_lateTy, normOut_resolve]; exact hid.1
  have h1 : reexport (resolve (normText t)) = nl (strip t) := by
    rw [reexport_eq_normOut, normOut_resolve, normText_emitted t (Or.inr h), normOut_strip, hid.2, strip_nl]
  refine ⟨by rw [h1, h2], h2, ?_⟩
  rw [h1, h2]
  exact sameTy_nl (strip t)

end PytypeModel.Pytd.AbsConvert
