import PytypeModel.Proofs.BlocksOrder
import Batteries.Data.List.Perm

/-! Proofs about `computePredecessors` (cfg_utils.compute_predecessors): result = reflexive-transitive
ancestors; the loop's fuel suffices. -/
namespace PytypeModel.Blocks
open Relation

/-- the predecessor set currently stored for `n` -/
def G (pm : PredMap) (n : Nat) : List Nat := (pm.lookup n).getD []

theorem mem_unionL (a b : List Nat) (x : Nat) : x ∈ unionL a b ↔ x ∈ a ∨ x ∈ b := by
  unfold unionL
  simp only [List.mem_append, List.mem_filter, List.contains_eq_mem, Bool.not_eq_eq_eq_not, Bool.not_true,
    decide_eq_false_iff_not]
  by_cases h : x ∈ a <;> simp [h]

theorem nodup_unionL {a b : List Nat} (ha : a.Nodup) (hb : b.Nodup) : (unionL a b).Nodup := by
  unfold unionL
  refine List.nodup_append.2 ⟨ha, hb.filter _, ?_⟩
  intro x hx y hy hxy
  subst hxy
  simp only [List.mem_filter, List.contains_eq_mem, Bool.not_eq_eq_eq_not, Bool.not_true,
    decide_eq_false_iff_not] at hy
  exact hy.2 hx

theorem length_unionL_eq {a b : List Nat} (h : (unionL a b).length = a.length) : ∀ x ∈ b, x ∈ a := by
  unfold unionL at h
  simp only [List.length_append] at h
  have h0 : (b.filter fun x => !a.contains x).length = 0 := by omega
  have h1 : b.filter (fun x => !a.contains x) = [] := List.length_eq_zero_iff.1 h0
  intro x hx
  by_cases hxa : x ∈ a
  · exact hxa
  · have : x ∈ b.filter (fun x => !a.contains x) := by
      simp only [List.mem_filter, List.contains_eq_mem, Bool.not_eq_eq_eq_not, Bool.not_true,
        decide_eq_false_iff_not]
      exact ⟨hx, hxa⟩
    rw [h1] at this
    simp at this

theorem length_unionL_ge (a b : List Nat) : a.length ≤ (unionL a b).length := by
  unfold unionL; simp

theorem lookup_pmSet (n : Nat) (v : List Nat) (k : Nat) :
    ∀ (pm : PredMap), (pmSet pm n v).lookup k = if k = n then (pm.lookup n).map (fun _ => v) else pm.lookup k
  | [] => by simp [pmSet]
  | (a, x) :: pm => by
    have ih := lookup_pmSet n v k pm
    unfold pmSet at ih ⊢
    by_cases han : a = n
    · subst han
      simp only [List.map_cons, BEq.rfl, if_true, List.lookup_cons]
      by_cases hk : k = a
      · subst hk; simp
      · have hk' : (k == a) = false := by simpa using hk
        simp only [hk', hk, if_false]
        simpa [hk] using ih
    · have han' : (a == n) = false := by simpa using han
      have hna : (n == a) = false := by simpa using Ne.symm han
      simp only [List.map_cons, han', Bool.false_eq_true, if_false, List.lookup_cons, hna]
      by_cases hk : k = a
      · subst hk
        have : ¬ k = n := han
        simp [this]
      · have hk' : (k == a) = false := by simpa using hk
        simp only [hk']
        exact ih

theorem G_pmSet (pm : PredMap) (n : Nat) (v : List Nat) (k : Nat) (hn : (pm.lookup n).isSome) :
    G (pmSet pm n v) k = if k = n then v else G pm k := by
  unfold G
  rw [lookup_pmSet]
  by_cases hk : k = n
  · subst hk
    cases h : pm.lookup k with
    | none => simp [h] at hn
    | some x => simp
  · simp [hk]

theorem lookup_isSome_pmSet (pm : PredMap) (n : Nat) (v : List Nat) (k : Nat) :
    ((pmSet pm n v).lookup k).isSome = (pm.lookup k).isSome := by
  rw [lookup_pmSet]
  by_cases hk : k = n
  · subst hk; cases pm.lookup k <;> simp
  · simp [hk]

/-- loop invariant of `compute_predecessors` (`done` = the starts already handled) -/
structure PInv (nodes : List Nat) (out : Nat → List Nat) (pm : PredMap) (d : List Nat)
    (unproc : List (Nat × Nat)) (done : List Nat) : Prop where
  keys : ∀ k, (pm.lookup k).isSome ↔ k ∈ nodes
  self : ∀ n ∈ nodes, n ∈ G pm n
  sound : ∀ n p, p ∈ G pm n → p ∈ nodes ∧ ReflTransGen (Edge out) p n
  nodup : ∀ n, (G pm n).Nodup
  closed : ∀ u, (u ∈ d ∨ u ∈ done) → ∀ v ∈ out u, (∀ x ∈ G pm u, x ∈ G pm v) ∨ (u, v) ∈ unproc
  edges : ∀ e ∈ unproc, e.1 ∈ nodes ∧ e.2 ∈ out e.1
  dsub : ∀ u ∈ d, u ∈ nodes

theorem lookup_map_self (k : Nat) : ∀ (nodes : List Nat),
    (nodes.map fun n => (n, [n])).lookup k = if k ∈ nodes then some [k] else none
  | [] => by simp
  | a :: l => by
    have ih := lookup_map_self k l
    simp only [List.map_cons, List.lookup_cons, List.mem_cons]
    by_cases h : k = a
    · subst h; simp
    · have : (k == a) = false := by simpa using h
      simp only [this, h, false_or]
      exact ih

theorem pinv_init (nodes : List Nat) (out : Nat → List Nat) :
    PInv nodes out (nodes.map fun n => (n, [n])) [] [] [] where
  keys := by intro k; rw [lookup_map_self]; by_cases h : k ∈ nodes <;> simp [h]
  self := by intro n hn; unfold G; rw [lookup_map_self]; simp [hn]
  sound := by
    intro n p hp
    unfold G at hp; rw [lookup_map_self] at hp
    by_cases h : n ∈ nodes
    · simp [h] at hp; subst hp; exact ⟨h, .refl⟩
    · simp [h] at hp
  nodup := by
    intro n; unfold G; rw [lookup_map_self]
    by_cases h : n ∈ nodes <;> simp [h]
  closed := by intro u hu; simp at hu
  edges := by simp
  dsub := by simp

variable {nodes : List Nat} {out : Nat → List Nat}

/-- one pop of `unprocessed` -/
theorem pinv_step (hclosed : ∀ n ∈ nodes, ∀ m ∈ out n, m ∈ nodes)
    {pm : PredMap} {d done : List Nat} {frm node : Nat} {rest : List (Nat × Nat)}
    (inv : PInv nodes out pm d ((frm, node) :: rest) done) :
    ∃ pn pf, pm.lookup node = some pn ∧ pm.lookup frm = some pf ∧
      (((unionL pn pf).length != pn.length) = true →
        PInv nodes out (pmSet pm node (unionL pn pf)) (node :: d)
          (rest ++ (out node).map fun n => (node, n)) done) ∧
      (((unionL pn pf).length != pn.length) = false → PInv nodes out pm d rest done) := by
  have he := inv.edges (frm, node) (by simp)
  have hfrm : frm ∈ nodes := he.1
  have hedge : node ∈ out frm := he.2
  have hnode : node ∈ nodes := hclosed frm hfrm node hedge
  have h1 := (inv.keys node).2 hnode
  have h2 := (inv.keys frm).2 hfrm
  cases hpn : pm.lookup node with
  | none => simp [hpn] at h1
  | some pn =>
  cases hpf : pm.lookup frm with
  | none => simp [hpf] at h2
  | some pf =>
  have hGn : G pm node = pn := by simp [G, hpn]
  have hGf : G pm frm = pf := by simp [G, hpf]
  refine ⟨pn, pf, rfl, rfl, ?_, ?_⟩
  · intro _
    have hsome : (pm.lookup node).isSome := by simp [hpn]
    have hG : ∀ k, G (pmSet pm node (unionL pn pf)) k = if k = node then unionL pn pf else G pm k :=
      fun k => G_pmSet pm node _ k hsome
    have hmono : ∀ k x, x ∈ G pm k → x ∈ G (pmSet pm node (unionL pn pf)) k := by
      intro k x hx
      rw [hG]
      by_cases hk : k = node
      · subst hk; simp only [if_true]; exact (mem_unionL _ _ _).2 (Or.inl (hGn ▸ hx))
      · simpa [hk] using hx
    refine
      { keys := ?_, self := ?_, sound := ?_, nodup := ?_, closed := ?_, edges := ?_, dsub := ?_ }
    · intro k; rw [lookup_isSome_pmSet]; exact inv.keys k
    · intro n hn; exact hmono n n (inv.self n hn)
    · intro n p hp
      rw [hG] at hp
      by_cases hk : n = node
      · subst hk
        simp only [if_true] at hp
        rcases (mem_unionL _ _ _).1 hp with h | h
        · exact inv.sound n p (hGn ▸ h)
        · have := inv.sound frm p (hGf ▸ h)
          exact ⟨this.1, this.2.tail hedge⟩
      · simp only [hk, if_false] at hp; exact inv.sound n p hp
    · intro n
      rw [hG]
      by_cases hk : n = node
      · subst hk; simp only [if_true]
        exact nodup_unionL (hGn ▸ inv.nodup n) (hGf ▸ inv.nodup frm)
      · simp only [hk, if_false]; exact inv.nodup n
    · intro u hu v hv
      by_cases hun : u = node
      · subst hun
        right
        exact List.mem_append_right _ (List.mem_map.2 ⟨v, hv, rfl⟩)
      · have hu' : u ∈ d ∨ u ∈ done := by
          rcases hu with h | h
          · rcases List.mem_cons.1 h with h | h
            · exact absurd h hun
            · exact Or.inl h
          · exact Or.inr h
        rcases inv.closed u hu' v hv with h | h
        · left
          intro x hx
          have hxu : x ∈ G pm u := by rw [hG] at hx; simpa [hun] using hx
          exact hmono v x (h x hxu)
        · rcases List.mem_cons.1 h with h | h
          · -- the pair being processed
            have hu1 : u = frm := congrArg Prod.fst h
            have hv1 : v = node := congrArg Prod.snd h
            subst hu1; subst hv1
            left
            intro x hx
            have hxu : x ∈ G pm u := by rw [hG] at hx; simpa [hun] using hx
            rw [hG]; simp only [if_true]
            exact (mem_unionL _ _ _).2 (Or.inr (hGf ▸ hxu))
          · exact Or.inr (List.mem_append_left _ h)
    · intro e he'
      rcases List.mem_append.1 he' with h | h
      · exact inv.edges e (List.mem_cons_of_mem _ h)
      · rcases List.mem_map.1 h with ⟨v, hv, rfl⟩
        exact ⟨hnode, hv⟩
    · intro u hu
      rcases List.mem_cons.1 hu with h | h
      · exact h ▸ hnode
      · exact inv.dsub u h
  · intro hsame
    have hlen : (unionL pn pf).length = pn.length := by simpa using hsame
    have hsub := length_unionL_eq hlen
    refine
      { keys := inv.keys, self := inv.self, sound := inv.sound, nodup := inv.nodup, closed := ?_,
        edges := fun e he' => inv.edges e (List.mem_cons_of_mem _ he'), dsub := inv.dsub }
    intro u hu v hv
    rcases inv.closed u hu v hv with h | h
    · exact Or.inl h
    · rcases List.mem_cons.1 h with h | h
      · have hu1 : u = frm := congrArg Prod.fst h
        have hv1 : v = node := congrArg Prod.snd h
        subst hu1; subst hv1
        left
        intro x hx
        rw [hGn]; exact hsub x (hGf ▸ hx)
      · exact Or.inr h

theorem predLoop_inv (hclosed : ∀ n ∈ nodes, ∀ m ∈ out n, m ∈ nodes) :
    ∀ (f : Nat) (unproc : List (Nat × Nat)) (pm : PredMap) (d done : List Nat) (pm' : PredMap) (d' : List Nat),
      PInv nodes out pm d unproc done → predLoop out f unproc pm d = .ok (pm', d') →
      PInv nodes out pm' d' [] done
  | f, [], pm, d, done, pm', d', inv, h => by
    cases f <;> (simp [predLoop] at h; obtain ⟨rfl, rfl⟩ := h; exact inv)
  | 0, _ :: _, pm, d, done, pm', d', inv, h => by simp [predLoop] at h
  | f + 1, (frm, node) :: rest, pm, d, done, pm', d', inv, h => by
    obtain ⟨pn, pf, h1, h2, hch, hsame⟩ := pinv_step hclosed inv
    unfold predLoop at h
    simp only [h1, h2] at h
    by_cases hc : ((unionL pn pf).length != pn.length) = true
    · simp only [hc, if_true] at h
      exact predLoop_inv hclosed f _ _ _ done pm' d' (hch hc) h
    · have hc' : ((unionL pn pf).length != pn.length) = false := by simpa using hc
      simp only [hc', Bool.false_eq_true, if_false] at h
      exact predLoop_inv hclosed f _ _ _ done pm' d' (hsame hc') h

theorem predStarts_inv (hclosed : ∀ n ∈ nodes, ∀ m ∈ out n, m ∈ nodes) (fuel : Nat) :
    ∀ (starts : List Nat) (pm : PredMap) (d done : List Nat) (pm' : PredMap) (d' : List Nat),
      (∀ s ∈ starts, s ∈ nodes) →
      PInv nodes out pm d [] done → predStarts out fuel starts pm d = .ok (pm', d') →
      PInv nodes out pm' d' [] (starts.reverse ++ done)
  | [], pm, d, done, pm', d', _, inv, h => by
    simp [predStarts] at h; obtain ⟨rfl, rfl⟩ := h; simpa using inv
  | s :: rest, pm, d, done, pm', d', hs, inv, h => by
    unfold predStarts at h
    have hrest : ∀ x ∈ rest, x ∈ nodes := fun x hx => hs x (List.mem_cons_of_mem _ hx)
    by_cases hd : d.contains s = true
    · simp only [hd, if_true] at h
      have inv' : PInv nodes out pm d [] (s :: done) :=
        { inv with
          closed := by
            intro u hu v hv
            rcases hu with hu | hu
            · exact inv.closed u (Or.inl hu) v hv
            · rcases List.mem_cons.1 hu with hu | hu
              · subst hu
                exact inv.closed u (Or.inl (by simpa using hd)) v hv
              · exact inv.closed u (Or.inr hu) v hv }
      have := predStarts_inv hclosed fuel rest pm d (s :: done) pm' d' hrest inv' h
      simpa using this
    · simp only [hd] at h
      have inv' : PInv nodes out pm d ((out s).map fun n => (s, n)) (s :: done) :=
        { inv with
          closed := by
            intro u hu v hv
            rcases hu with hu | hu
            · rcases inv.closed u (Or.inl hu) v hv with h1 | h1
              · exact Or.inl h1
              · simp at h1
            · rcases List.mem_cons.1 hu with hu | hu
              · subst hu
                exact Or.inr (List.mem_map.2 ⟨v, hv, rfl⟩)
              · rcases inv.closed u (Or.inr hu) v hv with h1 | h1
                · exact Or.inl h1
                · simp at h1
          edges := by
            intro e he
            rcases List.mem_map.1 he with ⟨v, hv, rfl⟩
            exact ⟨hs s (by simp), hv⟩ }
      cases hl : predLoop out fuel ((out s).map fun n => (s, n)) pm d with
      | error e => simp [hl] at h
      | ok r =>
        obtain ⟨pm1, d1⟩ := r
        simp only [hl] at h
        have inv1 := predLoop_inv hclosed fuel _ pm d (s :: done) pm1 d1 inv' hl
        have := predStarts_inv hclosed fuel rest pm1 d1 (s :: done) pm' d' hrest inv1 h
        simpa using this

/-- `compute_predecessors` returns exactly the reflexive-transitive ancestors (inside `nodes`) -/
theorem computePredecessors_spec (hclosed : ∀ n ∈ nodes, ∀ m ∈ out n, m ∈ nodes) {pm : PredMap}
    (h : computePredecessors nodes out = .ok pm) :
    (∀ k, (pm.lookup k).isSome ↔ k ∈ nodes) ∧
    (∀ n, (G pm n).Nodup) ∧
    (∀ n ∈ nodes, ∀ p, p ∈ G pm n ↔ (p ∈ nodes ∧ ReflTransGen (Edge out) p n)) := by
  unfold computePredecessors at h
  cases hs : predStarts out (predFuel nodes out) nodes (nodes.map fun n => (n, [n])) [] with
  | error e => simp [hs] at h
  | ok r =>
    obtain ⟨pm1, d1⟩ := r
    simp only [hs] at h
    have hpm : pm1 = pm := by simpa using h
    subst hpm
    have inv := predStarts_inv hclosed _ nodes _ [] [] pm1 d1 (fun s hs => hs) (pinv_init nodes out) hs
    refine ⟨inv.keys, inv.nodup, ?_⟩
    intro n _ p
    constructor
    · exact inv.sound n p
    · rintro ⟨hp, hreach⟩
      have key : ∀ b, ReflTransGen (Edge out) p b → b ∈ nodes ∧ p ∈ G pm1 b := by
        intro b hb
        induction hb with
        | refl => exact ⟨hp, inv.self p hp⟩
        | @tail b c _ hbc ih =>
          obtain ⟨hbn, hpb⟩ := ih
          refine ⟨hclosed b hbn c hbc, ?_⟩
          rcases inv.closed b (Or.inr (by simpa using hbn)) c hbc with h1 | h1
          · exact h1 p hpb
          · simp at h1
      exact (key n hreach).2

/-! ### fuel -/

def sizeSum (nodes : List Nat) (pm : PredMap) : Nat := (nodes.map fun n => (G pm n).length).sum

theorem sum_map_le_mul (f : Nat → Nat) (c : Nat) : ∀ (l : List Nat), (∀ x ∈ l, f x ≤ c) →
    (l.map f).sum ≤ l.length * c
  | [], _ => by simp
  | a :: l, h => by
    have ih := sum_map_le_mul f c l (fun x hx => h x (List.mem_cons_of_mem _ hx))
    have ha := h a (by simp)
    simp only [List.map_cons, List.sum_cons, List.length_cons, Nat.succ_mul]
    omega

theorem sum_map_update (g g' : Nat → Nat) (node : Nat) (hmono : ∀ n, g n ≤ g' n) (hnode : g node + 1 ≤ g' node) :
    ∀ (l : List Nat), node ∈ l → (l.map g).sum + 1 ≤ (l.map g').sum
  | [], h => by simp at h
  | a :: l, h => by
    have hle : (l.map g).sum ≤ (l.map g').sum := by
      clear h
      induction l with
      | nil => simp
      | cons b l ih => simp only [List.map_cons, List.sum_cons]; have := hmono b; omega
    simp only [List.map_cons, List.sum_cons]
    by_cases ha : a = node
    · subst ha; omega
    · have hmem : node ∈ l := by
        rcases List.mem_cons.1 h with h | h
        · exact absurd h.symm ha
        · exact h
      have ih := sum_map_update g g' node hmono hnode l hmem
      have := hmono a
      omega

theorem le_edgeCount (out : Nat → List Nat) (node : Nat) : ∀ (l : List Nat), node ∈ l →
    (out node).length ≤ edgeCount l out
  | [], h => by simp at h
  | a :: l, h => by
    unfold edgeCount
    simp only [List.map_cons, List.sum_cons]
    rcases List.mem_cons.1 h with h | h
    · subst h; omega
    · have := le_edgeCount out node l h
      unfold edgeCount at this
      omega

theorem PInv.size_le {pm : PredMap} {d done : List Nat} {unproc : List (Nat × Nat)}
    (inv : PInv nodes out pm d unproc done) (n : Nat) : (G pm n).length ≤ nodes.length :=
  (List.subperm_of_subset (inv.nodup n) (fun p hp => (inv.sound n p hp).1)).length_le

theorem PInv.sizeSum_le {pm : PredMap} {d done : List Nat} {unproc : List (Nat × Nat)}
    (inv : PInv nodes out pm d unproc done) : sizeSum nodes pm ≤ nodes.length * nodes.length :=
  sum_map_le_mul _ _ nodes (fun n _ => inv.size_le n)

theorem predLoop_fuel (hclosed : ∀ n ∈ nodes, ∀ m ∈ out n, m ∈ nodes) :
    ∀ (f : Nat) (unproc : List (Nat × Nat)) (pm : PredMap) (d done : List Nat),
      PInv nodes out pm d unproc done →
      unproc.length + (edgeCount nodes out + 1) * (nodes.length * nodes.length - sizeSum nodes pm) ≤ f →
      ∃ r, predLoop out f unproc pm d = .ok r
  | f, [], pm, d, done, _, _ => by cases f <;> exact ⟨(pm, d), by simp [predLoop]⟩
  | 0, _ :: _, pm, d, done, _, hf => by simp at hf
  | f + 1, (frm, node) :: rest, pm, d, done, inv, hf => by
    obtain ⟨pn, pf, h1, h2, hch, hsame⟩ := pinv_step hclosed inv
    unfold predLoop
    simp only [h1, h2]
    by_cases hc : ((unionL pn pf).length != pn.length) = true
    · simp only [hc, if_true]
      have inv' := hch hc
      have hnode : node ∈ nodes := hclosed frm (inv.edges (frm, node) (by simp)).1 node (inv.edges (frm, node) (by simp)).2
      have hsome : (pm.lookup node).isSome := by simp [h1]
      have hGn : G pm node = pn := by simp [G, h1]
      have hlen : pn.length + 1 ≤ (unionL pn pf).length := by
        have := length_unionL_ge pn pf
        have hne : (unionL pn pf).length ≠ pn.length := by simpa using hc
        omega
      have hgrow : sizeSum nodes pm + 1 ≤ sizeSum nodes (pmSet pm node (unionL pn pf)) := by
        unfold sizeSum
        refine sum_map_update _ _ node ?_ ?_ nodes hnode
        · intro n
          rw [G_pmSet pm node _ n hsome]
          by_cases hn : n = node
          · subst hn; simp only [if_true, hGn]; omega
          · simp [hn]
        · rw [G_pmSet pm node _ node hsome]; simp only [if_true, hGn]; exact hlen
      have hbound := inv'.sizeSum_le
      have hdeg := le_edgeCount out node nodes hnode
      refine predLoop_fuel hclosed f _ _ _ done inv' ?_
      have hA : (nodes.length * nodes.length - sizeSum nodes (pmSet pm node (unionL pn pf))) + 1 ≤
          nodes.length * nodes.length - sizeSum nodes pm := by omega
      have hmul := Nat.mul_le_mul_left (edgeCount nodes out + 1) hA
      rw [Nat.mul_succ] at hmul
      simp only [List.length_append, List.length_map, List.length_cons] at hf ⊢
      omega
    · have hc' : ((unionL pn pf).length != pn.length) = false := by simpa using hc
      simp only [hc', Bool.false_eq_true, if_false]
      refine predLoop_fuel hclosed f _ _ _ done (hsame hc') ?_
      simp only [List.length_cons] at hf
      omega

theorem predStarts_fuel (hclosed : ∀ n ∈ nodes, ∀ m ∈ out n, m ∈ nodes) :
    ∀ (starts : List Nat) (pm : PredMap) (d done : List Nat),
      (∀ s ∈ starts, s ∈ nodes) → PInv nodes out pm d [] done →
      ∃ r, predStarts out (predFuel nodes out) starts pm d = .ok r
  | [], pm, d, done, _, _ => ⟨(pm, d), by simp [predStarts]⟩
  | s :: rest, pm, d, done, hs, inv => by
    unfold predStarts
    have hrest : ∀ x ∈ rest, x ∈ nodes := fun x hx => hs x (List.mem_cons_of_mem _ hx)
    by_cases hd : d.contains s = true
    · simp only [hd, if_true]
      exact predStarts_fuel hclosed rest pm d done hrest inv
    · simp only [hd]
      have inv' : PInv nodes out pm d ((out s).map fun n => (s, n)) (s :: done) :=
        { inv with
          closed := by
            intro u hu v hv
            rcases hu with hu | hu
            · rcases inv.closed u (Or.inl hu) v hv with h1 | h1
              · exact Or.inl h1
              · simp at h1
            · rcases List.mem_cons.1 hu with hu | hu
              · subst hu
                exact Or.inr (List.mem_map.2 ⟨v, hv, rfl⟩)
              · rcases inv.closed u (Or.inr hu) v hv with h1 | h1
                · exact Or.inl h1
                · simp at h1
          edges := by
            intro e he
            rcases List.mem_map.1 he with ⟨v, hv, rfl⟩
            exact ⟨hs s (by simp), hv⟩ }
      have hdeg := le_edgeCount out s nodes (hs s (by simp))
      have hfuel : ((out s).map fun n => (s, n)).length +
          (edgeCount nodes out + 1) * (nodes.length * nodes.length - sizeSum nodes pm) ≤ predFuel nodes out := by
        unfold predFuel
        have h1 : (edgeCount nodes out + 1) * (nodes.length * nodes.length - sizeSum nodes pm) ≤
            (edgeCount nodes out + 1) * (nodes.length * nodes.length) :=
          Nat.mul_le_mul_left _ (Nat.sub_le _ _)
        rw [Nat.mul_succ]
        simp only [List.length_map]
        omega
      obtain ⟨r, hr⟩ := predLoop_fuel hclosed _ _ pm d (s :: done) inv' hfuel
      obtain ⟨pm1, d1⟩ := r
      simp only [hr]
      exact predStarts_fuel hclosed rest pm1 d1 (s :: done) hrest
        (predLoop_inv hclosed _ _ pm d (s :: done) pm1 d1 inv' hr)

/-- `compute_predecessors` terminates within the model's fuel and raises nothing on a closed graph -/
theorem computePredecessors_ok (hclosed : ∀ n ∈ nodes, ∀ m ∈ out n, m ∈ nodes) :
    ∃ pm, computePredecessors nodes out = .ok pm := by
  obtain ⟨r, hr⟩ := predStarts_fuel hclosed nodes _ [] [] (fun s hs => hs) (pinv_init nodes out)
  obtain ⟨pm, d⟩ := r
  exact ⟨pm, by simp [computePredecessors, hr]⟩

end PytypeModel.Blocks
