/-
C11 proofs, part 5: every type-level visitor keeps types well-kinded (`kok`), so that the guard of
CombineContainers can be stated on the input of the pipeline.
-/
import PytypeModel.Proofs.OptimizeCC
import PytypeModel.Proofs.OptimizeSuper

namespace PytypeModel.Pytd

/-- what a hook may do to a class reference used as the base of a generic -/
def BaseOK (hook : Ty → Ty) : Prop :=
  ∀ b, b.isSimple = true → (hook b).isSimple = true ∧
    ∀ k, (containerNames k).contains b.nameStr = true → (hook b).nameStr = b.nameStr

theorem bu_simple (hook : Ty → Ty) {b : Ty} (h : b.isSimple = true) : b.bu hook = hook b := by
  cases b <;> simp [Ty.isSimple] at h <;> simp [Ty.bu]

section
variable {hook : Ty → Ty} (hb : BaseOK hook) (hh : ∀ t, kok t = true → kok (hook t) = true)
include hb hh

mutual
theorem bu_kok : ∀ t, kok t = true → kok (t.bu hook) = true
  | .generic b ps, h => by
    simp [kok] at h
    simp only [Ty.bu]
    apply hh
    simp only [kok, Bool.and_eq_true]
    rw [bu_simple hook h.1]
    exact ⟨(hb b h.1).1, buList_kok ps h.2⟩
  | .tuple b ps, h => by
    simp only [kok, Bool.and_eq_true] at h
    simp only [Ty.bu]
    apply hh
    simp only [kok, Bool.and_eq_true]
    rw [bu_simple hook h.1.1, (hb b h.1.1).2 .tuple h.1.2]
    exact ⟨⟨(hb b h.1.1).1, h.1.2⟩, buList_kok ps h.2⟩
  | .callable b ps, h => by
    simp only [kok, Bool.and_eq_true] at h
    simp only [Ty.bu]
    apply hh
    simp only [kok, Bool.and_eq_true]
    rw [bu_simple hook h.1.1, (hb b h.1.1).2 .callable h.1.2]
    exact ⟨⟨(hb b h.1.1).1, h.1.2⟩, buList_kok ps h.2⟩
  | .union ts, h => by
    simp only [kok] at h
    simp only [Ty.bu]
    exact hh _ (kok_mkUnion (buList_kok ts h))
  | .annotated t a, h => by
    simp only [kok] at h
    simp only [Ty.bu]
    apply hh
    simp only [kok]
    exact bu_kok t h
  | .any, h => by simp only [Ty.bu]; exact hh _ h
  | .nothing, h => by simp only [Ty.bu]; exact hh _ h
  | .named _, h => by simp only [Ty.bu]; exact hh _ h
  | .cls _, h => by simp only [Ty.bu]; exact hh _ h
  | .late _, h => by simp only [Ty.bu]; exact hh _ h
  | .typeParam _ _, h => by simp only [Ty.bu]; exact hh _ h
  | .literal _, h => by simp only [Ty.bu]; exact hh _ h
theorem buList_kok : ∀ ts, kokList ts = true → kokList (buList hook ts) = true
  | [], _ => by simp [buList, kokList]
  | t :: ts, h => by
    simp [kokList] at h
    simp only [buList, kokList, Bool.and_eq_true]
    exact ⟨bu_kok t h.1, buList_kok ts h.2⟩
end
end

theorem baseOK_of_id {hook : Ty → Ty} (h : ∀ b, b.isSimple = true → hook b = b) : BaseOK hook :=
  fun b hb => by rw [h b hb]; exact ⟨hb, fun _ _ => rfl⟩

theorem simplifyUnions_kok (t : Ty) (h : kok t = true) : kok (simplifyUnions t) = true := by
  apply bu_kok (baseOK_of_id ?_) ?_ t h
  · intro b hb; cases b <;> simp [Ty.isSimple] at hb <;> rfl
  · intro t ht
    cases t <;> simp only [suHook] <;> try exact ht
    exact kok_joinTypes (by simpa [kok] using ht)

theorem simplifyContainers_kok (t : Ty) (h : kok t = true) : kok (simplifyContainers t) = true := by
  apply bu_kok (baseOK_of_id ?_) ?_ t h
  · intro b hb; cases b <;> simp [Ty.isSimple] at hb <;> rfl
  · intro t ht
    cases t <;> simp only [scHook] <;> try exact ht
    split
    · simp [kok] at ht; exact simple_kok ht.1
    · exact ht

theorem kokList_filter {ts : List Ty} (p : Ty → Bool) (h : kokList ts = true) : kokList (ts.filter p) = true :=
  (kokList_iff _).2 fun t ht => (kokList_iff _).1 h t (List.mem_filter.1 ht).1

theorem suws_kok (H : Hier) (t : Ty) (h : kok t = true) : kok (suws H t) = true := by
  apply bu_kok (baseOK_of_id ?_) ?_ t h
  · intro b hb; cases b <;> simp [Ty.isSimple] at hb <;> rfl
  · intro t ht
    cases t <;> simp only [suwsHook] <;> try exact ht
    exact kok_joinTypes (kokList_filter _ (by simpa [kok] using ht))

theorem fcs_kok (H : Hier) (t : Ty) (h : kok t = true) : kok (fcs H t) = true := by
  apply bu_kok (baseOK_of_id ?_) ?_ t h
  · intro b hb; cases b <;> simp [Ty.isSimple] at hb <;> rfl
  · intro t ht
    cases t <;> simp only [fcsHook] <;> try exact ht
    split
    · exact ht
    · exact ht
    · split
      · exact ht
      · apply kok_joinTypes
        rw [kokList_iff]
        intro x hx
        obtain ⟨c, _, rfl⟩ := List.mem_map.1 hx
        simp [kok]

theorem collapse_kok (max : Nat) (t : Ty) (h : kok t = true) : kok (collapse max t) = true := by
  apply bu_kok (baseOK_of_id ?_) ?_ t h
  · intro b hb; cases b <;> simp [Ty.isSimple] at hb <;> rfl
  · intro t ht
    cases t <;> simp only [collapseHook] <;> try exact ht
    split
    · simp [kok]
    · split
      · exact kok_joinTypes (by simpa [kok] using ht)
      · exact ht

theorem agHook_baseOK : BaseOK agHook := by
  intro b hb
  match b, hb with
  | .named n, _ => exact ⟨rfl, fun _ _ => rfl⟩
  | .late n, _ => exact ⟨rfl, fun _ _ => rfl⟩
  | .any, _ => exact ⟨rfl, fun _ _ => rfl⟩
  | .cls n, _ =>
    by_cases hn : n = objectName
    · subst hn
      refine ⟨by simp [agHook, Ty.isSimple], ?_⟩
      intro k hk
      cases k <;> simp [containerNames, Ty.nameStr, objectName] at hk
    · have : agHook (.cls n) = .cls n := by simp [agHook, hn]
      rw [this]
      exact ⟨rfl, fun _ _ => rfl⟩

theorem adjustGeneric_kok (t : Ty) (h : kok t = true) : kok (adjustGeneric t) = true := by
  apply bu_kok agHook_baseOK ?_ t h
  intro t ht
  cases t <;> simp only [agHook] <;> try exact ht
  split <;> simp [kok]

theorem lookupHook_baseOK : BaseOK lookupHook := by
  intro b hb
  match b, hb with
  | .named n, _ => exact ⟨rfl, fun _ _ => rfl⟩
  | .late n, _ => exact ⟨rfl, fun _ _ => rfl⟩
  | .any, _ => exact ⟨rfl, fun _ _ => rfl⟩
  | .cls n, _ => exact ⟨rfl, fun _ _ => rfl⟩

theorem lookup_kok (t : Ty) (h : kok t = true) : kok (t.bu lookupHook) = true := by
  apply bu_kok lookupHook_baseOK ?_ t h
  intro t ht
  cases t <;> simp only [lookupHook] <;> first | exact ht | simp [kok]

end PytypeModel.Pytd
