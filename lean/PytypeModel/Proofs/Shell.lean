import PytypeModel.Shell.Outcome

/-! Helper lemmas about the except-chain model (C15). -/
namespace PytypeModel.Shell

/-- which clause Python picks for each kind of exception -/
theorem firstClause_cases (e : Exc) :
    firstClause e = match e with
      | .usage => some .usage
      | .compileErr _ => some .compileErr
      | .constant _ => some .constErr
      | .indentation _ => some .indentErr
      | .libcst _ => some .libcstErr
      | .syntax _ => some .syntaxErr
      | .skipFile => some .skipFile
      | .other => some .exception
      | .baseExc => none := by
  cases e <;> rfl

/-- The `except IndentationError` clause is redundant for the result: an IndentationError handled by the
`except SyntaxError` clause gives the same outcome. -/
theorem indent_same_as_syntax (l : Option Nat) (nf ck : Bool) :
    handle .indentErr (.indentation l) nf ck = handle .syntaxErr (.indentation l) nf ck := rfl

theorem outcome_raised (st : Stage) (e : Exc) (nf ck : Bool) :
    outcome (.raised st e) nf ck = match e with
      | .usage => .reraise
      | .compileErr l => compilerError (some l)
      | .constant l => compilerError l
      | .indentation l => compilerError l
      | .libcst l => compilerError (some l)
      | .syntax l => compilerError l
      | .skipFile => .defaultStub .skipFile []
      | .other => if nf then .defaultStub (if ck then .none else .caught) [] else .reraise
      | .baseExc => .reraise := by
  cases e <;> rfl

/-- the outcome never depends on *which stage* raised -/
theorem outcome_stage_irrelevant (s₁ s₂ : Stage) (e : Exc) (nf ck : Bool) :
    outcome (.raised s₁ e) nf ck = outcome (.raised s₂ e) nf ck := by
  rw [outcome_raised, outcome_raised]

theorem declared_exc (st : Stage) (e : Exc) (h : (StageResult.raised st e).declared = true) :
    e = .usage ∨ e = .skipFile ∨ e.isCompileFailure = true := by
  cases st <;> cases e <;> simp_all [StageResult.declared, Exc.isCompileFailure]

/-- the bit encoding used by the correspondence harness loses nothing -/
theorem ofBits_bits (e : Exc) : Exc.ofBits e.bits e.attrs = some e := by
  cases e <;> rfl

end PytypeModel.Shell
