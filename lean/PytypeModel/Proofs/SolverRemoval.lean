/-
`remove_finished_goals` computes exactly the declarative relation `Removal`, and the fuel `travFuel =
(B+1)² + 1` is sufficient (B = number of bindings): each step pops one goal; a goal not seen before
shrinks the set of unseen ids, a seen one shrinks the id-ordered todo set, which never holds more than
B ids.
-/
import PytypeModel.Proofs.SolverBfs

namespace PytypeModel.Typegraph

/-- id-ordered set: strictly increasing -/
abbrev Sorted (l : List Nat) : Prop := List.Pairwise (· < ·) l

theorem sorted_sinsert {x : Nat} {l : List Nat} (h : Sorted l) : Sorted (sinsert x l) := by
  induction l with
  | nil => simp [sinsert, Sorted]
  | cons y ys ih =>
    unfold sinsert
    rw [Sorted, List.pairwise_cons] at h
    split
    · rename_i hxy
      rw [Sorted, List.pairwise_cons]
      refine ⟨?_, List.pairwise_cons.2 h⟩
      intro z hz
      rcases List.mem_cons.1 hz with rfl | hz
      · exact hxy
      · exact Nat.lt_trans hxy (h.1 z hz)
    · split
      · exact List.pairwise_cons.2 h
      · rename_i h1 h2
        rw [Sorted, List.pairwise_cons]
        refine ⟨?_, ih h.2⟩
        intro z hz
        rcases mem_sinsert.1 hz with rfl | hz
        · omega
        · exact h.1 z hz

theorem sorted_sunion {a b : List Nat} (h : Sorted a) : Sorted (sunion a b) := by
  unfold sunion
  induction b generalizing a with
  | nil => exact h
  | cons y ys ih => exact ih (sorted_sinsert h)

theorem sorted_ofList (l : List Nat) : Sorted (ofList l) := sorted_sunion List.Pairwise.nil

theorem sorted_filter {l : List Nat} (p : Nat → Bool) (h : Sorted l) : Sorted (l.filter p) :=
  List.Pairwise.filter p h

/-- a strictly increasing list of numbers in `[lo, B)` has at most `B - lo` elements -/
theorem sorted_length_aux (B : Nat) : ∀ (l : List Nat) (lo : Nat), Sorted l →
    (∀ y ∈ l, lo ≤ y ∧ y < B) → l.length ≤ B - lo := by
  intro l
  induction l with
  | nil => intro lo _ _; simp
  | cons x xs ih =>
    intro lo hs hb
    rw [Sorted, List.pairwise_cons] at hs
    have hx := hb x List.mem_cons_self
    have := ih (x + 1) hs.2 (fun y hy => ⟨hs.1 y hy, (hb y (List.mem_cons_of_mem _ hy)).2⟩)
    simp only [List.length_cons]
    omega

theorem sorted_length_le {B : Nat} {l : List Nat} (hs : Sorted l) (hb : ∀ y ∈ l, y < B) : l.length ≤ B := by
  have := sorted_length_aux B l 0 hs (fun y hy => ⟨Nat.zero_le _, hb y hy⟩)
  omega

/-- number of binding ids below `B` that are not in `seen` -/
def unseenCount (B : Nat) (seen : List Nat) : Nat := unseenW (fun _ => 1) seen (List.range B)

theorem unseenCount_cons {B : Nat} {seen : List Nat} {b : Nat} (hb : b < B) (hs : b ∉ seen) :
    unseenCount B (b :: seen) + 1 = unseenCount B seen :=
  unseenW_cons_mem _ seen b hs _ List.nodup_range (List.mem_range.2 hb)

theorem unseenCount_nil (B : Nat) : unseenCount B [] = B := by
  unfold unseenCount
  have : ∀ l : List Nat, unseenW (fun _ => 1) [] l = l.length := by
    intro l
    induction l with
    | nil => rfl
    | cons n ns ih => simp [unseenW, ih]; omega
  rw [this, List.length_range]

/-- all ids occurring in source sets are binding ids -/
def Graph.IdsOK (g : Graph) : Prop :=
  ∀ b o ss x, o ∈ (g.binding b).origins → ss ∈ o.sourceSets → x ∈ ss → x < g.bindings.length

/-! ### soundness: every DFS result is a `Removal` -/

theorem trav_sound (g : Graph) (pos : NodeId) :
    ∀ (fuel : Nat) (todo seen R N R' N' : List BId),
      (R', N') ∈ trav g pos fuel todo seen R N → Removal g pos todo seen R N R' N' := by
  intro fuel
  induction fuel with
  | zero =>
    intro todo seen R N R' N' h
    cases todo with
    | nil =>
      simp only [trav, List.mem_singleton, Prod.mk.injEq] at h
      obtain ⟨rfl, rfl⟩ := h
      exact Removal.done _ _ _
    | cons x xs => simp [trav] at h
  | succ fuel ih =>
    intro todo seen R N R' N' h
    cases todo with
    | nil =>
      simp only [trav, List.mem_singleton, Prod.mk.injEq] at h
      obtain ⟨rfl, rfl⟩ := h
      exact Removal.done _ _ _
    | cons b todo =>
      unfold trav at h
      split at h
      · rename_i hs
        exact Removal.skip (by simpa using hs) (ih _ _ _ _ _ _ h)
      · rename_i hs
        have hs' : b ∉ seen := by simpa using hs
        split at h
        · rename_i ho
          exact Removal.keep hs' ho (ih _ _ _ _ _ _ h)
        · rename_i o ho
          rw [List.mem_flatMap] at h
          obtain ⟨ss, hss, h⟩ := h
          exact Removal.expand hs' ho hss (ih _ _ _ _ _ _ h)

/-! ### completeness with the stated fuel -/

theorem trav_complete (g : Graph) (hids : g.IdsOK) (pos : NodeId) {todo seen R N R' N' : List BId}
    (h : Removal g pos todo seen R N R' N') :
    Sorted todo → (∀ x ∈ todo, x < g.bindings.length) →
    ∀ fuel, unseenCount g.bindings.length seen * (g.bindings.length + 1) + todo.length < fuel →
      (R', N') ∈ trav g pos fuel todo seen R N := by
  induction h with
  | done seen R N =>
    intro _ _ fuel _
    cases fuel <;> simp [trav]
  | @skip b todo seen R N R' N' hb _ ih =>
    intro hs hbd fuel hf
    obtain ⟨f, rfl⟩ : ∃ f, fuel = f + 1 := ⟨fuel - 1, by omega⟩
    rw [Sorted, List.pairwise_cons] at hs
    unfold trav
    have : seen.contains b = true := by simpa using hb
    simp only [this, ↓reduceIte]
    exact ih hs.2 (fun x hx => hbd x (List.mem_cons_of_mem _ hx)) f (by
      simp only [List.length_cons] at hf; omega)
  | @keep b todo seen R N R' N' hb ho _ ih =>
    intro hs hbd fuel hf
    obtain ⟨f, rfl⟩ : ∃ f, fuel = f + 1 := ⟨fuel - 1, by omega⟩
    rw [Sorted, List.pairwise_cons] at hs
    unfold trav
    have : seen.contains b = false := by simpa using hb
    simp only [this, Bool.false_eq_true, ↓reduceIte, ho]
    have hcount := unseenCount_cons (hbd b List.mem_cons_self) hb
    refine ih hs.2 (fun x hx => hbd x (List.mem_cons_of_mem _ hx)) f ?_
    simp only [List.length_cons] at hf
    have : unseenCount g.bindings.length seen * (g.bindings.length + 1) =
        unseenCount g.bindings.length (b :: seen) * (g.bindings.length + 1) + (g.bindings.length + 1) := by
      rw [← hcount, Nat.add_mul]; simp
    omega
  | @expand b todo seen R N R' N' o ss hb ho hss _ ih =>
    intro hs hbd fuel hf
    obtain ⟨f, rfl⟩ : ∃ f, fuel = f + 1 := ⟨fuel - 1, by omega⟩
    rw [Sorted, List.pairwise_cons] at hs
    unfold trav
    have : seen.contains b = false := by simpa using hb
    simp only [this, Bool.false_eq_true, ↓reduceIte, ho]
    rw [List.mem_flatMap]
    refine ⟨ss, hss, ?_⟩
    have hcount := unseenCount_cons (hbd b List.mem_cons_self) hb
    have hsorted : Sorted (sunion todo ss) := sorted_sunion hs.2
    have hbound : ∀ x ∈ sunion todo ss, x < g.bindings.length := by
      intro x hx
      rcases mem_sunion.1 hx with hx | hx
      · exact hbd x (List.mem_cons_of_mem _ hx)
      · exact hids b o ss x (findOrigin_some_mem ho).1 hss hx
    have hlen := sorted_length_le hsorted hbound
    refine ih hsorted hbound f ?_
    simp only [List.length_cons] at hf
    have : unseenCount g.bindings.length seen * (g.bindings.length + 1) =
        unseenCount g.bindings.length (b :: seen) * (g.bindings.length + 1) + (g.bindings.length + 1) := by
      rw [← hcount, Nat.add_mul]; simp
    omega

theorem travFuel_enough (B L : Nat) (h : L ≤ B) : B * (B + 1) + L < (B + 1) * (B + 1) + 1 := by
  have e : (B + 1) * (B + 1) = B * (B + 1) + (B + 1) := Nat.succ_mul B (B + 1)
  rw [e]
  omega

/-- **`remove_finished_goals` = `Removal`** for an id-ordered goal set of valid binding ids. -/
theorem removeFinishedGoals_iff (g : Graph) (hids : g.IdsOK) (pos : NodeId) (goals : List BId)
    (hs : Sorted goals) (hb : ∀ x ∈ goals, x < g.bindings.length) (R N : List BId) :
    (R, N) ∈ removeFinishedGoals g pos goals ↔
      Removal g pos (hereGoals g pos goals) [] [] (awayGoals g pos goals) R N := by
  unfold removeFinishedGoals hereGoals awayGoals
  constructor
  · exact trav_sound g pos _ _ _ _ _ _ _
  · intro h
    have hsf : Sorted (goals.filter fun b => (g.node pos).bindings.contains b) := sorted_filter _ hs
    have hbf : ∀ x ∈ goals.filter (fun b => (g.node pos).bindings.contains b), x < g.bindings.length :=
      fun x hx => hb x (List.mem_filter.1 hx).1
    refine trav_complete g hids pos h hsf hbf _ ?_
    have := sorted_length_le hsf hbf
    rw [unseenCount_nil]
    unfold Graph.travFuel
    exact travFuel_enough _ _ this

end PytypeModel.Typegraph
