import PytypeModel.Sem.Mro

/-! Merge-level lemmas for C10: lock-step simulation of `mro.MergeSequences` and CPython's
`pmerge` on duplicate-free sequences, fuel sufficiency, shape of the result. -/
namespace PytypeModel.Mro
set_option linter.unusedSectionVars false

section merge
variable {α : Type} [DecidableEq α]

def NodupAll (seqs : List (List α)) : Prop := ∀ s ∈ seqs, s.Nodup
def NoSing (sing : α → Bool) (seqs : List (List α)) : Prop := ∀ s ∈ seqs, ∀ x ∈ s, sing x = false

/-! ### basic facts -/

theorem inTail_cons (c x : α) (xs : List α) : inTail c (x :: xs) = xs.contains c := rfl

theorem inTail_nil (c : α) : inTail c ([] : List α) = false := rfl

theorem popHead_sublist (c : α) (s : List α) : (popHead c s).Sublist s := by
  cases s with
  | nil => exact List.Sublist.refl _
  | cons x xs =>
    simp only [popHead]
    split
    · exact List.sublist_cons_self x xs
    · exact List.Sublist.refl _

theorem popHead_length_le (c : α) (s : List α) : (popHead c s).length ≤ s.length :=
  (popHead_sublist c s).length_le

theorem popHead_self (c : α) (tl : List α) : popHead c (c :: tl) = tl := by
  simp [popHead]

theorem popHead_of_not_mem (c : α) (s : List α) (h : c ∉ s) : popHead c s = s := by
  cases s with
  | nil => rfl
  | cons x xs =>
    have : x ≠ c := fun e => h (by simp [e])
    simp [popHead, this]

/-- after a successful candidate check, the candidate is gone from every sequence -/
theorem not_mem_popHead (c : α) (s : List α) (h : inTail c s = false) : c ∉ popHead c s := by
  cases s with
  | nil => simp [popHead]
  | cons x xs =>
    have hx : c ∉ xs := by simpa [inTail] using h
    simp only [popHead]
    split
    · exact hx
    · rename_i hne
      intro hm
      rcases List.mem_cons.1 hm with e | e
      · exact hne e.symm
      · exact hx e

theorem totalLen_nil : totalLen ([] : List (List α)) = 0 := rfl

theorem totalLen_cons (s : List α) (seqs : List (List α)) :
    totalLen (s :: seqs) = s.length + totalLen seqs := by
  simp [totalLen]

theorem totalLen_append (a b : List (List α)) : totalLen (a ++ b) = totalLen a + totalLen b := by
  simp [totalLen]

theorem totalLen_map_le (g : List α → List α) (hg : ∀ s, (g s).length ≤ s.length)
    (seqs : List (List α)) : totalLen (seqs.map g) ≤ totalLen seqs := by
  induction seqs with
  | nil => exact Nat.le_refl _
  | cons s rest ih =>
    rw [List.map_cons, totalLen_cons, totalLen_cons]
    have := hg s
    omega

theorem totalLen_map_lt (g : List α → List α) (hg : ∀ s, (g s).length ≤ s.length)
    (seqs : List (List α)) (s : List α) (hs : s ∈ seqs) (hlt : (g s).length < s.length) :
    totalLen (seqs.map g) < totalLen seqs := by
  induction seqs with
  | nil => cases hs
  | cons t rest ih =>
    rw [List.map_cons, totalLen_cons, totalLen_cons]
    rcases List.mem_cons.1 hs with e | e
    · subst e
      have := totalLen_map_le g hg rest
      omega
    · have := ih e
      have := hg t
      omega

theorem allEmpty_cons_nil (seqs : List (List α)) : allEmpty ([] :: seqs) = allEmpty seqs := by
  simp [allEmpty]

/-! ### what a successful scan returns -/

theorem cScan_some (before after : List (List α)) (c : α) (seqs' : List (List α))
    (h : cScan before after = some (c, seqs')) :
    seqs' = (before ++ after).map (popHead c) ∧
    (∃ tl, (c :: tl) ∈ after) ∧
    ∀ s ∈ before ++ after, inTail c s = false := by
  induction after generalizing before with
  | nil => simp [cScan] at h
  | cons s rest ih =>
    cases s with
    | nil =>
      rw [cScan] at h
      have := ih (before ++ [[]]) h
      simp only [List.append_assoc, List.singleton_append] at this
      refine ⟨this.1, ?_, this.2.2⟩
      obtain ⟨tl, htl⟩ := this.2.1
      exact ⟨tl, List.mem_cons_of_mem _ htl⟩
    | cons x tl =>
      rw [cScan] at h
      split at h
      · have := ih (before ++ [x :: tl]) h
        simp only [List.append_assoc, List.singleton_append] at this
        refine ⟨this.1, ?_, this.2.2⟩
        obtain ⟨tl', htl⟩ := this.2.1
        exact ⟨tl', List.mem_cons_of_mem _ htl⟩
      · rename_i hany
        simp only [Option.some.injEq, Prod.mk.injEq] at h
        obtain ⟨rfl, rfl⟩ := h
        refine ⟨rfl, ⟨tl, List.mem_cons_self⟩, ?_⟩
        intro s hs
        have hf : (before ++ (x :: tl) :: rest).any (inTail x) = false := by
          simpa using hany
        exact (List.any_eq_false.1 hf) s hs |> fun h => by simpa using h

theorem cScan_lt (before after : List (List α)) (c : α) (seqs' : List (List α))
    (h : cScan before after = some (c, seqs')) : totalLen seqs' < totalLen (before ++ after) := by
  obtain ⟨rfl, ⟨tl, htl⟩, _⟩ := cScan_some before after c seqs' h
  refine totalLen_map_lt (popHead c) (popHead_length_le c) _ (c :: tl)
    (List.mem_append_right _ htl) ?_
  rw [popHead_self]
  simp

theorem pyScan_lt (sing : α → Bool) (before after : List (List α)) (c : α)
    (seqs' : List (List α)) (h : pyScan sing before after = some (c, seqs')) :
    totalLen seqs' < totalLen (before ++ after) := by
  induction after generalizing before with
  | nil => simp [pyScan] at h
  | cons s rest ih =>
    cases s with
    | nil =>
      rw [pyScan] at h
      have := ih (before ++ [[]]) h
      simpa only [List.append_assoc, List.singleton_append] using this
    | cons x tl =>
      rw [pyScan] at h
      split at h
      · simp only [Option.some.injEq, Prod.mk.injEq] at h
        obtain ⟨rfl, rfl⟩ := h
        refine totalLen_map_lt _ (fun s => List.length_filter_le _ s) _ (x :: tl)
          (List.mem_append_right _ List.mem_cons_self) ?_
        have : (List.filter (fun y => decide (y ≠ x)) (x :: tl)).length ≤ tl.length := by
          rw [List.filter_cons_of_neg (by simp)]
          exact List.length_filter_le _ _
        simp only [List.length_cons]
        omega
      · split at h
        · have := ih (before ++ [x :: tl]) h
          simpa only [List.append_assoc, List.singleton_append] using this
        · simp only [Option.some.injEq, Prod.mk.injEq] at h
          obtain ⟨rfl, rfl⟩ := h
          refine totalLen_map_lt (popHead x) (popHead_length_le x) _ (x :: tl)
            (List.mem_append_right _ List.mem_cons_self) ?_
          rw [popHead_self]
          simp

/-! ### fuel sufficiency -/

theorem cMergeFuel_fuel (f1 f2 : Nat) (seqs : List (List α))
    (h1 : totalLen seqs < f1) (h2 : totalLen seqs < f2) :
    cMergeFuel f1 seqs = cMergeFuel f2 seqs := by
  induction f1 generalizing f2 seqs with
  | zero => omega
  | succ f1 ih =>
    cases f2 with
    | zero => omega
    | succ f2 =>
      unfold cMergeFuel
      split
      · rfl
      · cases hsc : cScan [] seqs with
        | none => rfl
        | some p =>
          obtain ⟨c, seqs'⟩ := p
          have hlt := cScan_lt [] seqs c seqs' hsc
          simp only [List.nil_append] at hlt
          simp only
          rw [ih f2 seqs' (by omega) (by omega)]

/-- `pmerge`'s fuel is enough: any larger fuel gives the same answer -/
theorem pmerge_fuel (f : Nat) (seqs : List (List α)) (h : totalLen seqs < f) :
    cMergeFuel f seqs = pmerge seqs :=
  cMergeFuel_fuel f _ seqs h (Nat.lt_succ_self _)

theorem mergeFuel_fuel (sing : α → Bool) (f1 f2 : Nat) (seqs : List (List α))
    (h1 : totalLen seqs < f1) (h2 : totalLen seqs < f2) :
    mergeFuel sing f1 seqs = mergeFuel sing f2 seqs := by
  induction f1 generalizing f2 seqs with
  | zero => omega
  | succ f1 ih =>
    cases f2 with
    | zero => omega
    | succ f2 =>
      unfold mergeFuel
      split
      · rfl
      · cases hsc : pyScan sing [] seqs with
        | none => rfl
        | some p =>
          obtain ⟨c, seqs'⟩ := p
          have hlt := pyScan_lt sing [] seqs c seqs' hsc
          simp only [List.nil_append] at hlt
          simp only
          rw [ih f2 seqs' (by omega) (by omega)]

/-- `MergeSequences` terminates within `totalLen + 1` iterations of its `while True` -/
theorem mergeFuel_sufficient (sing : α → Bool) (f : Nat) (seqs : List (List α))
    (h : totalLen seqs < f) : mergeFuel sing f seqs = mergeSequences sing seqs :=
  mergeFuel_fuel sing f _ seqs h (Nat.lt_succ_self _)

/-- with enough fuel the answer is never the artificial `.fuel` error -/
theorem cMergeFuel_ne_fuel (f : Nat) (seqs : List (List α)) (h : totalLen seqs < f) :
    cMergeFuel f seqs ≠ .error .fuel := by
  induction f generalizing seqs with
  | zero => omega
  | succ f ih =>
    unfold cMergeFuel
    split
    · simp
    · cases hsc : cScan [] seqs with
      | none => simp
      | some p =>
        obtain ⟨c, seqs'⟩ := p
        have hlt := cScan_lt [] seqs c seqs' hsc
        simp only [List.nil_append] at hlt
        have := ih seqs' (by omega)
        simp only
        cases hr : cMergeFuel f seqs' with
        | ok r => simp [consRes]
        | error e =>
          rw [hr] at this
          simp only [consRes]
          intro he
          injection he with he
          exact this (by rw [he])

/-! ### lock-step simulation on duplicate-free, singleton-free sequences -/

theorem scan_eq (sing : α → Bool) (before after : List (List α))
    (hnd : NodupAll (before ++ after)) (hns : NoSing sing (before ++ after)) :
    pyScan sing before after = cScan before after := by
  induction after generalizing before with
  | nil => rfl
  | cons s rest ih =>
    cases s with
    | nil =>
      rw [pyScan, cScan]
      apply ih
      · simpa only [List.append_assoc, List.singleton_append] using hnd
      · simpa only [List.append_assoc, List.singleton_append] using hns
    | cons x tl =>
      have hmem : (x :: tl) ∈ before ++ (x :: tl) :: rest :=
        List.mem_append_right _ List.mem_cons_self
      have hsx : sing x = false := hns _ hmem x List.mem_cons_self
      have hxtl : x ∉ tl := (List.nodup_cons.1 (hnd _ hmem)).1
      have hany : (before ++ (x :: tl) :: rest).any (inTail x) = (before ++ rest).any (inTail x) := by
        simp only [List.any_append, List.any_cons, inTail_cons]
        have : tl.contains x = false := by simpa using hxtl
        rw [this, Bool.false_or]
      rw [pyScan, cScan, hany]
      simp only [hsx, Bool.false_eq_true, if_false]
      split
      · apply ih
        · simpa only [List.append_assoc, List.singleton_append] using hnd
        · simpa only [List.append_assoc, List.singleton_append] using hns
      · rfl

theorem nodupAll_popHead (c : α) (seqs : List (List α)) (h : NodupAll seqs) :
    NodupAll (seqs.map (popHead c)) := by
  intro s hs
  obtain ⟨t, ht, rfl⟩ := List.mem_map.1 hs
  exact (h t ht).sublist (popHead_sublist c t)

theorem noSing_popHead (sing : α → Bool) (c : α) (seqs : List (List α)) (h : NoSing sing seqs) :
    NoSing sing (seqs.map (popHead c)) := by
  intro s hs x hx
  obtain ⟨t, ht, rfl⟩ := List.mem_map.1 hs
  exact h t ht x ((popHead_sublist c t).subset hx)

theorem mergeFuel_eq_cMergeFuel (sing : α → Bool) (f : Nat) (seqs : List (List α))
    (hnd : NodupAll seqs) (hns : NoSing sing seqs) :
    mergeFuel sing f seqs = cMergeFuel f seqs := by
  induction f generalizing seqs with
  | zero => rfl
  | succ f ih =>
    unfold mergeFuel cMergeFuel
    rw [scan_eq sing [] seqs (by simpa using hnd) (by simpa using hns)]
    split
    · rfl
    · cases hsc : cScan [] seqs with
      | none => rfl
      | some p =>
        obtain ⟨c, seqs'⟩ := p
        obtain ⟨rfl, _, _⟩ := cScan_some [] seqs c seqs' hsc
        simp only [List.nil_append]
        rw [ih _ (nodupAll_popHead c seqs hnd) (noSing_popHead sing c seqs hns)]

/-! ### shape of `pmerge`'s result (no hypotheses on the input) -/

theorem cMergeFuel_mem (f : Nat) (seqs : List (List α)) (r : List α)
    (h : cMergeFuel f seqs = .ok r) : ∀ x ∈ r, ∃ s ∈ seqs, x ∈ s := by
  induction f generalizing seqs r with
  | zero => simp [cMergeFuel] at h
  | succ f ih =>
    unfold cMergeFuel at h
    split at h
    · injection h with h
      subst h
      intro x hx
      cases hx
    · cases hsc : cScan [] seqs with
      | none => rw [hsc] at h; simp at h
      | some p =>
        obtain ⟨c, seqs'⟩ := p
        rw [hsc] at h
        simp only at h
        obtain ⟨hs', ⟨tl, htl⟩, _⟩ := cScan_some [] seqs c seqs' hsc
        simp only [List.nil_append] at hs' htl
        cases hr : cMergeFuel f seqs' with
        | error e => rw [hr] at h; simp [consRes] at h
        | ok r' =>
          rw [hr] at h
          simp only [consRes] at h
          injection h with h
          subst h
          intro x hx
          rcases List.mem_cons.1 hx with e | e
          · subst e
            exact ⟨_, htl, List.mem_cons_self⟩
          · obtain ⟨s, hs, hxs⟩ := ih seqs' r' hr x e
            rw [hs'] at hs
            obtain ⟨t, ht, rfl⟩ := List.mem_map.1 hs
            exact ⟨t, ht, (popHead_sublist c t).subset hxs⟩

theorem cMergeFuel_nodup (f : Nat) (seqs : List (List α)) (r : List α)
    (h : cMergeFuel f seqs = .ok r) : r.Nodup := by
  induction f generalizing seqs r with
  | zero => simp [cMergeFuel] at h
  | succ f ih =>
    unfold cMergeFuel at h
    split at h
    · injection h with h
      subst h
      exact List.nodup_nil
    · cases hsc : cScan [] seqs with
      | none => rw [hsc] at h; simp at h
      | some p =>
        obtain ⟨c, seqs'⟩ := p
        rw [hsc] at h
        simp only at h
        obtain ⟨hs', _, hnt⟩ := cScan_some [] seqs c seqs' hsc
        simp only [List.nil_append] at hs' hnt
        cases hr : cMergeFuel f seqs' with
        | error e => rw [hr] at h; simp [consRes] at h
        | ok r' =>
          rw [hr] at h
          simp only [consRes] at h
          injection h with h
          subst h
          refine List.nodup_cons.2 ⟨?_, ih seqs' r' hr⟩
          intro hc
          obtain ⟨s, hs, hcs⟩ := cMergeFuel_mem f seqs' r' hr c hc
          rw [hs'] at hs
          obtain ⟨t, ht, rfl⟩ := List.mem_map.1 hs
          exact not_mem_popHead c t (hnt t ht) hcs

/-! ### sequences that do not matter / new class in front -/

theorem cScan_nil_cons (before after : List (List α)) :
    cScan ([] :: before) after =
      (cScan before after).map (fun p => (p.1, [] :: p.2)) := by
  induction after generalizing before with
  | nil => rfl
  | cons s rest ih =>
    cases s with
    | nil =>
      rw [cScan, cScan]
      exact ih (before ++ [[]])
    | cons x tl =>
      rw [cScan, cScan]
      simp only [List.cons_append, List.any_cons, inTail_nil, Bool.false_or]
      split
      · exact ih (before ++ [x :: tl])
      · simp [popHead]

theorem cMergeFuel_nil_cons (f : Nat) (seqs : List (List α)) :
    cMergeFuel f ([] :: seqs) = cMergeFuel f seqs := by
  induction f generalizing seqs with
  | zero => rfl
  | succ f ih =>
    unfold cMergeFuel
    rw [allEmpty_cons_nil]
    have h1 : cScan [] ([] :: seqs) = cScan [[]] seqs := by rw [cScan]; rfl
    rw [h1, cScan_nil_cons]
    split
    · rfl
    · cases hsc : cScan [] seqs with
      | none => rfl
      | some p =>
        obtain ⟨c, seqs'⟩ := p
        simp only [Option.map_some]
        rw [ih]

/-- a fresh element in front (`[[self]] + …` of compute_mro) comes out first, and the rest is
the merge of the remaining sequences (`acc = [type]` of CPython) -/
theorem pmerge_cons_fresh (c : α) (seqs : List (List α)) (hc : ∀ s ∈ seqs, c ∉ s) :
    pmerge ([c] :: seqs) = consRes c (pmerge seqs) := by
  unfold pmerge
  rw [totalLen_cons]
  have hf : [c].length + totalLen seqs + 1 = (totalLen seqs + 1) + 1 := by simp; omega
  rw [hf]
  conv => lhs; unfold cMergeFuel
  have hne : allEmpty ([c] :: seqs) = false := by simp [allEmpty]
  rw [hne]
  have hany : (([] : List (List α)) ++ [c] :: seqs).any (inTail c) = false := by
    rw [List.any_eq_false]
    intro s hs
    simp only [List.nil_append] at hs
    rcases List.mem_cons.1 hs with e | e
    · subst e; simp [inTail]
    · have := hc s e
      cases s with
      | nil => simp [inTail]
      | cons x xs =>
        have : c ∉ xs := fun h => this (List.mem_cons_of_mem _ h)
        simpa [inTail] using this
  have hsc : cScan [] ([c] :: seqs) = some (c, [] :: seqs) := by
    rw [cScan, hany]
    simp only [Bool.false_eq_true, if_false, List.nil_append, List.map_cons, popHead_self]
    congr 3
    conv => rhs; rw [← List.map_id seqs]
    exact List.map_congr_left (fun s hs => popHead_of_not_mem c s (hc s hs))
  simp only [Bool.false_eq_true, if_false, hsc]
  rw [cMergeFuel_nil_cons]

/-- single-base fast path of `mro_implementation` agrees with the general merge -/
theorem cMergeFuel_single (f : Nat) (s : List α) (hs : s.Nodup) (hf : s.length < f) :
    cMergeFuel f [s, []] = .ok s := by
  induction s generalizing f with
  | nil =>
    cases f with
    | zero => omega
    | succ f => simp [cMergeFuel, allEmpty]
  | cons x xs ih =>
    cases f with
    | zero => omega
    | succ f =>
      have hx : x ∉ xs := (List.nodup_cons.1 hs).1
      unfold cMergeFuel
      have hne : allEmpty [x :: xs, []] = false := by simp [allEmpty]
      have hsc : cScan [] [x :: xs, []] = some (x, [xs, []]) := by
        rw [cScan]
        simp [inTail, hx, popHead]
      simp only [hne, Bool.false_eq_true, if_false, hsc]
      rw [ih f (List.nodup_cons.1 hs).2 (by simp at hf; omega)]
      rfl

theorem pmerge_single (b : α) (m : List α) (hm : (b :: m).Nodup) :
    pmerge [b :: m, [b]] = .ok (b :: m) := by
  unfold pmerge
  have hb : b ∉ m := (List.nodup_cons.1 hm).1
  unfold cMergeFuel
  have hne : allEmpty [b :: m, [b]] = false := by simp [allEmpty]
  have hsc : cScan [] [b :: m, [b]] = some (b, [m, []]) := by
    rw [cScan]
    simp [inTail, hb, popHead]
  simp only [hne, Bool.false_eq_true, if_false, hsc]
  rw [cMergeFuel_single _ m (List.nodup_cons.1 hm).2 (by simp [totalLen]; omega)]
  rfl

/-! ### Dedup -/

theorem dedupAux_of_nodup (seen s : List α) (hs : s.Nodup) (hd : ∀ x ∈ s, x ∉ seen) :
    dedupAux seen s = s := by
  induction s generalizing seen with
  | nil => rfl
  | cons x xs ih =>
    have hx : x ∉ seen := hd x List.mem_cons_self
    rw [dedupAux, if_neg hx]
    congr 1
    apply ih (x :: seen) (List.nodup_cons.1 hs).2
    intro y hy hmem
    rcases List.mem_cons.1 hmem with e | e
    · subst e; exact (List.nodup_cons.1 hs).1 hy
    · exact hd y (List.mem_cons_of_mem _ hy) e

theorem dedup_of_nodup (s : List α) (hs : s.Nodup) : dedup s = s :=
  dedupAux_of_nodup [] s hs (fun _ _ h => by cases h)

theorem map_dedup_of_nodupAll (seqs : List (List α)) (h : NodupAll seqs) :
    seqs.map dedup = seqs := by
  conv => rhs; rw [← List.map_id seqs]
  exact List.map_congr_left (fun s hs => dedup_of_nodup s (h s hs))

/-- `MROMerge` = `pmerge` on duplicate-free, singleton-free input -/
theorem mroMerge_eq_pmerge (sing : α → Bool) (seqs : List (List α))
    (hnd : NodupAll seqs) (hns : NoSing sing seqs) : mroMerge sing seqs = pmerge seqs := by
  unfold mroMerge mergeSequences pmerge
  rw [map_dedup_of_nodupAll seqs hnd]
  exact mergeFuel_eq_cMergeFuel sing _ seqs hnd hns

end merge
end PytypeModel.Mro
