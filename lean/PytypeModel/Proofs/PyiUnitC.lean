import PytypeModel.Proofs.PyiUnitB

/-! C05, unit level, part C: lists of constants / type parameters / aliases. -/
namespace PytypeModel.Pytd

theorem postConst_preConst {g : GCtx} {c : Const} {pre : Ty} (h : postTy g.tps pre = normTy g.tps false c.ty) :
    postConst g.tps (preConst c pre) = normConst g.tps c := by
  unfold postConst preConst normConst
  simp [h]

/-- all constants of a list, in any class context -/
theorem consts_stmts {g : GCtx} (hg : GOK g) {d : Defs} (henv : EnvOK g d g.adds) (path : List String) :
    ∀ (l : List Const), l.all (fConst g) = true → (∀ c ∈ l, ∀ x ∈ constAdds c, x ∈ g.adds) →
    ∃ pcs : List Const, convStmts d path (l.map constStmt) = .ok (d, pcs.map Item.const) ∧
      pcs.map (postConst g.tps) = l.map (normConst g.tps) ∧ pcs.map (·.name) = l.map (·.name)
  | [], _, _ => ⟨[], by simp [convStmts], rfl, rfl⟩
  | c :: cs, hf, hsub => by
    simp only [List.all_cons, Bool.and_eq_true] at hf
    obtain ⟨pre, h1, h2⟩ := const_stmt hg hf.1 (hsub c (by simp)) henv path
    obtain ⟨pcs, h3, h4, h5⟩ := consts_stmts hg henv path cs hf.2 (fun c' hc' => hsub c' (by simp [hc']))
    refine ⟨preConst c pre :: pcs, ?_, ?_, ?_⟩
    · simp only [List.map_cons, convStmts_cons, h1, h3, bind, Except.bind]
      rfl
    · simp [postConst_preConst h2, h4]
    · simp [preConst, h5]

theorem tps_stmts {g : GCtx} (hg : GOK g) : ∀ (l : List TypeParamDecl) (d : Defs), EnvOK g d g.adds →
    l.all (fDecl g) = true → (∀ t ∈ l, ∀ x ∈ typeParamAdds t, x ∈ g.adds) →
    ∃ pds : List TypeParamDecl, convStmts d [] (l.map typeParamStmt) =
        .ok ({ d with typeParams := d.typeParams ++ pds }, []) ∧
      pds.map (postDecl g.tps) = l.map (normDecl g.tps) ∧ pds.map (·.name) = l.map (·.name)
  | [], d, _, _, _ => ⟨[], by simp [convStmts], rfl, rfl⟩
  | t :: ts, d, henv, hf, hsub => by
    simp only [List.all_cons, Bool.and_eq_true] at hf
    obtain ⟨cs, b, h1, h2⟩ := typeParam_stmt hg hf.1 (hsub t (by simp)) henv
    obtain ⟨pds, h3, h4, h5⟩ := tps_stmts hg ts _ (henv.setTypeParams (d.typeParams ++ [preDecl t cs b]))
      hf.2 (fun t' ht' => hsub t' (by simp [ht']))
    refine ⟨preDecl t cs b :: pds, ?_, ?_, ?_⟩
    · simp only [List.map_cons, convStmts_cons, h1, h3, bind, Except.bind]
      simp
    · simp [h2, h4]
    · simp [preDecl, h5]

theorem lookup_append_not_mem {α : Type} (l m : List (String × α)) (k : String) (h : k ∉ l.map Prod.fst) :
    (l ++ m).lookup k = m.lookup k := by
  induction l with
  | nil => rfl
  | cons a as ih =>
    simp only [List.map_cons, List.mem_cons, not_or] at h
    have : (k == a.1) = false := by simpa using h.1
    simp only [List.cons_append, List.lookup, this]
    exact ih h.2

/-- binding alias names keeps the environment good -/
theorem EnvOK.addAliases {g : GCtx} (hg : GOK g) {d : Defs} (h : EnvOK g d g.adds) (pas : List (String × Ty))
    (hk : ∀ k ∈ pas.map Prod.fst, g.aliasNames.contains k = true) :
    EnvOK g { d with typeMap := pas ++ d.typeMap, aliases := pas ++ d.aliases } g.adds := by
  refine ⟨?_, ?_, ?_⟩
  · intro x hx
    show (pas ++ d.typeMap).lookup x = _
    rw [lookup_append_not_mem]
    · exact h.imp x hx
    · intro hm
      have := hk x hm
      rw [hg.addsAlias x hx] at this
      exact absurd this (by simp)
  · intro k h1 h2
    show (pas ++ d.typeMap).lookup k = none ∨ (pas ++ d.typeMap).lookup k = _
    rw [lookup_append_not_mem]
    · exact h.other k h1 h2
    · intro hm
      have := hk k hm
      rw [h2] at this
      exact absurd this (by simp)
  · intro k h2
    show (pas ++ d.aliases).lookup k = none
    rw [lookup_append_not_mem]
    · exact h.alias k h2
    · intro hm
      have := hk k hm
      rw [h2] at this
      exact absurd this (by simp)

def aliasItem (p : String × Ty) : Item := .alias { name := p.1, ty := p.2 }

theorem aliases_stmts {g : GCtx} (hg : GOK g) : ∀ (l : List Alias) (d : Defs), EnvOK g d g.adds →
    l.all (fAlias g) = true → (∀ a ∈ l, ∀ x ∈ tyAdds false a.ty, x ∈ g.adds) →
    (∀ a ∈ l, g.aliasNames.contains a.name = true) →
    ∃ pas : List (String × Ty), convStmts d [] (l.map aliasStmt) =
        .ok ({ d with typeMap := pas.reverse ++ d.typeMap, aliases := pas.reverse ++ d.aliases },
          pas.map aliasItem) ∧
      pas.map Prod.fst = l.map (·.name) ∧
      pas.map (fun p => postTy g.tps p.2) = l.map (fun a => normTy g.tps false a.ty) ∧
      (∀ p ∈ pas, AliasOK p.2)
  | [], d, _, _, _, _ => ⟨[], by simp [convStmts], rfl, rfl, by simp⟩
  | a :: as, d, henv, hf, hsub, hnames => by
    simp only [List.all_cons, Bool.and_eq_true] at hf
    obtain ⟨pre, h1, h2, h3⟩ := alias_stmt hg hf.1 (hsub a (by simp)) henv
    have henv1 := EnvOK.addAliases hg henv [(a.name, pre)] (by
      intro k hk; simp at hk; subst hk; exact hnames a (by simp))
    obtain ⟨pas, h4, h5, h6, h7⟩ := aliases_stmts hg as _ henv1 hf.2
      (fun a' ha' => hsub a' (by simp [ha'])) (fun a' ha' => hnames a' (by simp [ha']))
    refine ⟨(a.name, pre) :: pas, ?_, ?_, ?_, ?_⟩
    · simp only [List.map_cons, convStmts_cons, h1, bind, Except.bind]
      simp only [List.singleton_append] at h4
      rw [h4]
      simp [aliasItem, List.append_assoc]
    · simp [h5]
    · simp [h2, h6]
    · intro p hp
      rcases List.mem_cons.1 hp with rfl | hp
      · exact h3
      · exact h7 p hp

end PytypeModel.Pytd
