import PytypeModel.Proofs.PyiTypes

/-! C05, unit level, part A: statement lists, the import block, constants, type parameters, aliases. -/
namespace PytypeModel.Pytd

/-! ### `convStmts` on concatenations -/

theorem convStmts_nil (d : Defs) (path : List String) : convStmts d path [] = .ok (d, []) := by
  simp [convStmts]

theorem convStmts_cons (d : Defs) (path : List String) (s : PyStmt) (ss : List PyStmt) :
    convStmts d path (s :: ss) =
      (do let (d1, i1) ← convStmt d path s
          let (d2, i2) ← convStmts d1 path ss
          .ok (d2, i1 ++ i2)) := by
  simp [convStmts]

theorem convStmts_append (d : Defs) (path : List String) (a b : List PyStmt) {d1 : Defs} {i1 : List Item}
    (ha : convStmts d path a = .ok (d1, i1)) :
    convStmts d path (a ++ b) =
      (do let (d2, i2) ← convStmts d1 path b
          .ok (d2, i1 ++ i2)) := by
  induction a generalizing d d1 i1 with
  | nil =>
    rw [convStmts_nil] at ha
    simp only [Except.ok.injEq, Prod.mk.injEq] at ha
    obtain ⟨rfl, rfl⟩ := ha
    simp only [List.nil_append]
    cases convStmts d path b with
    | error e => rfl
    | ok r => rfl
  | cons s ss ih =>
    rw [convStmts_cons] at ha
    simp only [List.cons_append, convStmts_cons]
    cases hs : convStmt d path s with
    | error e => rw [hs] at ha; simp [bind, Except.bind] at ha
    | ok r =>
      obtain ⟨ds, is⟩ := r
      rw [hs] at ha
      simp only [bind, Except.bind] at ha ⊢
      cases hss : convStmts ds path ss with
      | error e => rw [hss] at ha; simp at ha
      | ok r2 =>
        obtain ⟨d2, i2⟩ := r2
        rw [hss] at ha
        simp only [Except.ok.injEq, Prod.mk.injEq] at ha
        obtain ⟨rfl, rfl⟩ := ha
        rw [ih ds hss]
        simp only [bind, Except.bind]
        cases convStmts d2 path b with
        | error e => rfl
        | ok r3 => simp [List.append_assoc]

/-! ### the import block -/

theorem mem_insertStr {x y : String} {l : List String} : y ∈ insertStr x l ↔ y = x ∨ y ∈ l := by
  induction l with
  | nil => simp [insertStr]
  | cons z zs ih =>
    simp only [insertStr]
    split
    · simp
    · split
      · next h => subst h; simp
      · simp only [List.mem_cons, ih]
        constructor
        · rintro (h | h | h)
          · exact Or.inr (Or.inl h)
          · exact Or.inl h
          · exact Or.inr (Or.inr h)
        · rintro (h | h | h)
          · exact Or.inr (Or.inl h)
          · exact Or.inl h
          · exact Or.inr (Or.inr h)

theorem mem_sortUniq {x : String} {l : List String} : x ∈ sortUniq l ↔ x ∈ l := by
  unfold sortUniq
  induction l with
  | nil => simp
  | cons y ys ih => simp only [List.foldr_cons, mem_insertStr, ih, List.mem_cons]

theorem lookup_foldl_bind (f : String → Ty) (names : List (String × Option String)) (d0 : Defs) (x : String) :
    (names.foldl (fun d na => d.bind na.1 (f na.1)) d0).typeMap.lookup x =
      if x ∈ names.map Prod.fst then some (f x) else d0.typeMap.lookup x := by
  induction names generalizing d0 with
  | nil => simp
  | cons na rest ih =>
    simp only [List.foldl_cons, ih, List.map_cons, List.mem_cons]
    by_cases h1 : x ∈ rest.map Prod.fst
    · simp [h1]
    · simp only [h1, if_false, or_false]
      unfold Defs.bind
      simp only [List.lookup]
      by_cases h2 : x = na.1
      · subst h2; simp
      · have : (x == na.1) = false := by simpa using h2
        simp [this, h2]

theorem foldl_bind_other (f : String → Ty) (names : List (String × Option String)) (d0 : Defs) :
    (names.foldl (fun d na => d.bind na.1 (f na.1)) d0).aliases = d0.aliases ∧
    (names.foldl (fun d na => d.bind na.1 (f na.1)) d0).typeParams = d0.typeParams := by
  induction names generalizing d0 with
  | nil => exact ⟨rfl, rfl⟩
  | cons na rest ih =>
    simp only [List.foldl_cons]
    obtain ⟨h1, h2⟩ := ih (d0.bind na.1 (f na.1))
    exact ⟨h1, h2⟩

/-- after the printed import block every requested `typing` member resolves -/
theorem imports_ok (g : GCtx) :
    ∃ d, convStmts {} [] (importStmts g.adds) = .ok (d, []) ∧ EnvOK g d g.adds ∧
      d.typeParams = [] ∧ d.aliases = [] := by
  unfold importStmts typingImports
  cases hs : sortUniq g.adds with
  | nil =>
    refine ⟨{}, by simp [convStmts], ⟨?_, ?_, ?_⟩, rfl, rfl⟩
    · intro x hx
      have := (mem_sortUniq (l := g.adds)).2 hx
      rw [hs] at this; simp at this
    · intro k _ _; left; rfl
    · intro k _; rfl
  | cons a as =>
    let names : List (String × Option String) := (a :: as).map (fun x => (x, none))
    let d := names.foldl (fun d na => d.bind na.1 (Ty.named ("typing." ++ na.1))) ({} : Defs)
    refine ⟨d, ?_, ⟨?_, ?_, ?_⟩, ?_, ?_⟩
    · simp only [convStmts, convStmt]
      have hany : names.any (fun na => na.2.isSome) = false := by
        simp [names]
      simp [hany, names, d]
      rfl
    · intro x hx
      have hm : x ∈ names.map Prod.fst := by
        have := (mem_sortUniq (l := g.adds)).2 hx
        rw [hs] at this
        simp only [names, List.map_map]
        exact List.mem_map.2 ⟨x, this, rfl⟩
      show d.typeMap.lookup x = _
      simp only [d]
      rw [lookup_foldl_bind (fun y => Ty.named ("typing." ++ y)), if_pos hm]
    · intro k hk _
      left
      show d.typeMap.lookup k = _
      simp only [d]
      rw [lookup_foldl_bind (fun y => Ty.named ("typing." ++ y))]
      have : ¬ k ∈ names.map Prod.fst := by
        intro hm
        simp only [names, List.map_map] at hm
        obtain ⟨y, hy, rfl⟩ := List.mem_map.1 hm
        have : y ∈ g.adds := mem_sortUniq.1 (by rw [hs]; exact hy)
        have : g.adds.contains y = true := List.contains_iff_mem.2 this
        simp only [Function.comp] at hk
        rw [this] at hk; exact absurd hk (by simp)
      rw [if_neg this]
      rfl
    · intro k _
      show d.aliases.lookup k = none
      simp only [d]
      rw [(foldl_bind_other (fun y => Ty.named ("typing." ++ y)) names {}).1]
      rfl
    · exact (foldl_bind_other (fun y => Ty.named ("typing." ++ y)) names {}).2
    · exact (foldl_bind_other (fun y => Ty.named ("typing." ++ y)) names {}).1

end PytypeModel.Pytd
