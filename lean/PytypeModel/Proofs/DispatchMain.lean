import PytypeModel.Proofs.Dispatch

/-! Statement-level theorems of C14 over an arbitrary builtin view `T` and hierarchy `H`. -/
namespace PytypeModel.Dispatch

theorem pyOption_b_fails {T : BView} {H : Hier} {op : Op} {refl : Bool} {k : Nat} {y : Operand}
    (h : ∀ r, pyOption T H op refl (.b k) y ≠ .returns r) :
    T.py (if refl then (op.kind, 0, y.code T H, k) else (op.kind, 0, k, y.code T H)) = true := by
  unfold pyOption at h
  simp only at h
  cases hp : T.py (if refl = true then (op.kind, 0, y.code T H, k) else (op.kind, 0, k, y.code T H)) with
  | true => rfl
  | false => rw [hp] at h; exact absurd rfl (h none)

theorem pyOption_u_fails {T : BView} {H : Hier} {op : Op} {refl : Bool} {c : Nat} {y : Operand}
    (h : ∀ r, pyOption T H op refl (.u c) y ≠ .returns r) :
    optFails H c (if refl then op.rname else op.name) = true := by
  cases hf : optFails H c (if refl then op.rname else op.name) with
  | true => rfl
  | false =>
    obtain ⟨r, hr⟩ := (pyOption_u T H op refl c y).2 hf
    exact absurd hr (h r)

theorem all_bad_singleton_typeError : [Outcome.typeError].all Outcome.bad = true := rfl

/-- binary operators: every error of the model is a TypeError/AttributeError in CPython -/
theorem binop_no_false_error (T : BView) (exc : List RowKey) (hT : RowsOK1 T exc = true)
    (H : Hier) (x : Operand) (op : Op) (y : Operand)
    (herr : (modelBinop T H x op y).isErr = true)
    (hrow : ∀ k, (Stmt.bin x op y).row T H = some k → k ∉ exc) :
    (cpyBinop T H x op y).all Outcome.bad = true := by
  cases x with
  | b k =>
    cases y with
    | b k' =>
      have hpy : T.py (op.kind, 0, k, k') = true := by
        unfold modelBinop at herr
        simp only at herr
        cases hp : T.py (op.kind, 0, k, k') with
        | true => rfl
        | false => rw [hp] at herr; simp [PyRes.isErr] at herr
      have hk : (op.kind, 0, k, k') ∉ exc := hrow _ (by simp [Stmt.row, Operand.code])
      simpa [cpyBinop] using py_bad_of_rowsOK1 hT hk hpy
    | u c =>
      obtain ⟨h1, h2⟩ := (modelBinop_err_iff T H op (.b k) (.u c) (by simp)).1 herr
      have hpy := pyOption_b_fails h1
      have hf := pyOption_u_fails h2
      simp only [Operand.code, Bool.false_eq_true, if_false, if_true] at hpy hf
      have hk : (op.kind, 0, k, userCode T H c) ∉ exc := hrow _ (by simp [Stmt.row, Operand.code])
      have hbase := py_bad_of_rowsOK1 hT hk hpy
      have hnv := callMaybe_noVal_of_optFails hf
      simp only [cpyBinop, hbase, if_true]
      cases hc : callMaybe H c op.rname with
      | val t => rw [hc] at hnv; simp [CRes.noVal] at hnv
      | notImpl => simpa using hbase
      | typeError => simpa using hbase
  | u c =>
    cases y with
    | b k =>
      obtain ⟨h1, h2⟩ := (modelBinop_err_iff T H op (.u c) (.b k) (by simp)).1 herr
      have hf := pyOption_u_fails h1
      have hpy := pyOption_b_fails h2
      simp only [Bool.false_eq_true, if_false, if_true] at hpy hf
      have hk : (op.kind, 0, userCode T H c, k) ∉ exc := hrow _ (by simp [Stmt.row, Operand.code])
      have hbase := py_bad_of_rowsOK1 hT hk hpy
      have hnv := callMaybe_noVal_of_optFails hf
      simp only [cpyBinop]
      cases hc : callMaybe H c op.name with
      | val t => rw [hc] at hnv; simp [CRes.noVal] at hnv
      | notImpl => simpa using hbase
      | typeError => rfl
    | u c' =>
      obtain ⟨h1, h2⟩ := (modelBinop_err_iff T H op (.u c) (.u c') (by simp)).1 herr
      have hf1 := pyOption_u_fails h1
      have hf2 := pyOption_u_fails h2
      simp only [Bool.false_eq_true, if_false, if_true] at hf1 hf2
      have := binaryOp1UU_noVal (callMaybe_noVal_of_optFails hf1) (callMaybe_noVal_of_optFails hf2)
      simp [cpyBinop, CRes.outcome_of_noVal this, Outcome.bad]

theorem table_stmt_no_false_error {T : BView} {exc : List RowKey} (hT : RowsOK1 T exc = true)
    {k : RowKey} (herr : (if T.py k then PyRes.err .reported else PyRes.ok none).isErr = true)
    (hk : k ∉ exc) : (T.cpy k).all Outcome.bad = true := by
  cases hp : T.py k with
  | true => exact py_bad_of_rowsOK1 hT hk hp
  | false => rw [hp] at herr; simp [PyRes.isErr] at herr

/-- clause 1 of C14 for every statement of F14, all hierarchies, any builtin view whose rows
outside `exc` satisfy clause 1 -/
theorem stmt_no_false_error (T : BView) (exc : List RowKey) (hT : RowsOK1 T exc = true)
    (H : Hier) (s : Stmt) (herr : (modelStmt T H s).isErr = true)
    (hrow : ∀ k, s.row T H = some k → k ∉ exc) :
    (cpyStmt T H s).all Outcome.bad = true := by
  cases s with
  | bin x op y => exact binop_no_false_error T exc hT H x op y herr hrow
  | sub x y =>
    cases x with
    | b k =>
      exact table_stmt_no_false_error hT (by simpa [modelStmt, modelSub] using herr)
        (hrow _ (by simp [Stmt.row, Operand.code]))
    | u c =>
      simp only [modelStmt, modelSub] at herr
      simp only [cpyStmt, cpySub]
      cases h : lookupCls H c getitemName with
      | none => rfl
      | some p =>
        obtain ⟨d, m⟩ := p
        cases m with
        | method r => rw [h] at herr; simp [PyRes.isErr] at herr
        | data t => rfl
  | neg x =>
    cases x with
    | b k =>
      exact table_stmt_no_false_error hT (by simpa [modelStmt, modelNeg] using herr)
        (hrow _ (by simp [Stmt.row, Operand.code]))
    | u c =>
      simp only [modelStmt, modelNeg] at herr
      simp only [cpyStmt, cpyNeg]
      cases h : lookupCls H c negName with
      | none => rfl
      | some p =>
        obtain ⟨d, m⟩ := p
        cases m with
        | method r => rw [h] at herr; simp [PyRes.isErr] at herr
        | data t => rfl
  | call x =>
    cases x with
    | b k =>
      exact table_stmt_no_false_error hT (by simpa [modelStmt, modelCall] using herr)
        (hrow _ (by simp [Stmt.row, Operand.code]))
    | u c =>
      simp only [modelStmt, modelCall] at herr
      simp only [cpyStmt, cpyCall]
      cases h : lookupCls H c callName with
      | none => rfl
      | some p =>
        obtain ⟨d, m⟩ := p
        cases m with
        | method r => rw [h] at herr; simp [PyRes.isErr] at herr
        | data t => rfl
  | attrU c n =>
    simp only [modelStmt, modelAttr] at herr
    simp only [cpyStmt, cpyAttr, cpyGetAttr_eq_pyGetAttr]
    cases h : pyGetAttr H c n with
    | none => rfl
    | some m => rw [h] at herr; cases m <;> simp [PyRes.isErr] at herr
  | mcallU c n =>
    simp only [modelStmt, modelMCall] at herr
    simp only [cpyStmt, cpyMCall, cpyGetAttr_eq_pyGetAttr]
    cases h : pyGetAttr H c n with
    | none => rfl
    | some m =>
      cases m with
      | method r => rw [h] at herr; simp [PyRes.isErr] at herr
      | data t => rfl
  | attrB k a =>
    exact table_stmt_no_false_error hT (by simpa [modelStmt] using herr) (hrow _ (by simp [Stmt.row]))
  | mcallB k a =>
    exact table_stmt_no_false_error hT (by simpa [modelStmt] using herr) (hrow _ (by simp [Stmt.row]))
  | fcall f x =>
    exact table_stmt_no_false_error hT (by simpa [modelStmt] using herr) (hrow _ (by simp [Stmt.row]))

theorem table_stmt_catches {T : BView} {exc : List RowKey} (hT : RowsOK2 T exc = true)
    {k : RowKey} (hadv : T.adv k = true) (hbad : (T.cpy k).any Outcome.bad = true) (hk : k ∉ exc) :
    (if T.py k then PyRes.err .reported else PyRes.ok none).isErr = true := by
  rw [py_of_rowsOK2 hT hk hadv hbad]
  rfl

/-- clause 2 of C14: an advertised basic mistake that raises TypeError/AttributeError for some
representative values is flagged, outside the exception rows -/
theorem stmt_catches (T : BView) (exc : List RowKey) (hT : RowsOK2 T exc = true)
    (H : Hier) (s : Stmt) (hadv : s.advertised T = true)
    (hbad : (cpyStmt T H s).any Outcome.bad = true)
    (hrow : ∀ k, s.row T H = some k → k ∉ exc) :
    (modelStmt T H s).isErr = true := by
  cases s with
  | bin x op y =>
    cases x with
    | b k =>
      cases y with
      | b k' =>
        simp only [modelStmt, modelBinop]
        exact table_stmt_catches hT (by simpa [Stmt.advertised] using hadv)
          (by simpa [cpyStmt, cpyBinop] using hbad) (hrow _ (by simp [Stmt.row, Operand.code]))
      | u c => simp [Stmt.advertised] at hadv
    | u c => simp [Stmt.advertised] at hadv
  | sub x y =>
    cases x with
    | b k =>
      cases y with
      | b k' =>
        simp only [modelStmt, modelSub, Operand.code]
        exact table_stmt_catches hT (by simpa [Stmt.advertised] using hadv)
          (by simpa [cpyStmt, cpySub, Operand.code] using hbad)
          (hrow _ (by simp [Stmt.row, Operand.code]))
      | u c => simp [Stmt.advertised] at hadv
    | u c => simp [Stmt.advertised] at hadv
  | neg x =>
    cases x with
    | b k =>
      simp only [modelStmt, modelNeg]
      exact table_stmt_catches hT (by simpa [Stmt.advertised] using hadv)
        (by simpa [cpyStmt, cpyNeg] using hbad) (hrow _ (by simp [Stmt.row, Operand.code]))
    | u c => simp [Stmt.advertised] at hadv
  | call x =>
    cases x with
    | b k =>
      simp only [modelStmt, modelCall]
      exact table_stmt_catches hT (by simpa [Stmt.advertised] using hadv)
        (by simpa [cpyStmt, cpyCall] using hbad) (hrow _ (by simp [Stmt.row, Operand.code]))
    | u c =>
      simp only [cpyStmt, cpyCall] at hbad
      simp only [modelStmt, modelCall]
      cases h : lookupCls H c callName with
      | none => rfl
      | some p =>
        obtain ⟨d, m⟩ := p
        cases m with
        | method r => rw [h] at hbad; simp [Outcome.bad] at hbad
        | data t => rfl
  | attrU c n =>
    simp only [cpyStmt, cpyAttr, cpyGetAttr_eq_pyGetAttr] at hbad
    simp only [modelStmt, modelAttr]
    cases h : pyGetAttr H c n with
    | none => rfl
    | some m => rw [h] at hbad; simp [Outcome.bad] at hbad
  | mcallU c n =>
    simp only [cpyStmt, cpyMCall, cpyGetAttr_eq_pyGetAttr] at hbad
    simp only [modelStmt, modelMCall]
    cases h : pyGetAttr H c n with
    | none => rfl
    | some m =>
      cases m with
      | method r => rw [h] at hbad; simp [Outcome.bad] at hbad
      | data t => rfl
  | attrB k a =>
    simp only [modelStmt]
    exact table_stmt_catches hT (by simpa [Stmt.advertised] using hadv)
      (by simpa [cpyStmt] using hbad) (hrow _ (by simp [Stmt.row]))
  | mcallB k a =>
    simp only [modelStmt]
    exact table_stmt_catches hT (by simpa [Stmt.advertised] using hadv)
      (by simpa [cpyStmt] using hbad) (hrow _ (by simp [Stmt.row]))
  | fcall f x => simp [Stmt.advertised] at hadv

end PytypeModel.Dispatch
