import PytypeModel.Sem.MiniFlowTable
import PytypeModel.Proofs.MiniFlowSub

namespace PytypeModel.MiniFlow

theorem kindTruth_spec (a : V) (t : Bool) (h : kindTruth (kindOf a) = some t) : a ≠ .ubool ∧ truth a = t := by
  cases a with
  | int n => by_cases hn : n = 0 <;> simp_all [kindOf, kindTruth, truth]
  | float nz => cases nz <;> simp_all [kindOf, kindTruth, truth]
  | str s => by_cases hs : s.isEmpty = true <;> simp_all [kindOf, kindTruth, truth]
  | bytes ne => cases ne <;> simp_all [kindOf, kindTruth, truth]
  | bool b => cases b <;> simp_all [kindOf, kindTruth, truth]
  | none => simp_all [kindOf, kindTruth, truth]
  | ubool => simp [kindOf, kindTruth] at h
  | list xs => cases xs <;> simp_all [kindOf, kindTruth, truth]
  | tuple xs => cases xs <;> simp_all [kindOf, kindTruth, truth]
  | set xs => cases xs <;> simp_all [kindOf, kindTruth, truth]
  | dict ks vs => cases ks <;> simp_all [kindOf, kindTruth, truth]

theorem lookupRow_mem : ∀ (tbl : List (String × Bool × Bool × Bool × Bool)) (k : String) (r : Bool × Bool × Bool × Bool),
    lookupRow tbl k = some r → (k, r) ∈ tbl
  | [], _, _, h => by simp [lookupRow] at h
  | (k', r') :: rest, k, r, h => by
    simp only [lookupRow] at h
    by_cases hk : (k == k') = true
    · simp only [hk, if_true, Option.some.injEq] at h
      have : k = k' := by simpa using hk
      subst this; subst h; simp
    · simp only [hk] at h
      exact List.mem_cons_of_mem _ (lookupRow_mem rest k r h)

/-- If every row of the (regenerated) table is sound, the pruning oracle derived from it never prunes a
branch that a concrete execution takes. -/
theorem decOfTable_sound (tbl : List (String × Bool × Bool × Bool × Bool)) (ht : tableSound tbl = true) :
    DecSound (decOfTable tbl) := by
  intro a b hd c hr
  unfold decOfTable at hd
  have hall := List.all_eq_true.1 ht
  cases hl : lookupRow tbl (kindOf a) with
  | none => simp [hl] at hd
  | some r =>
    obtain ⟨t, f, n, nn⟩ := r
    have hmem := lookupRow_mem tbl (kindOf a) (t, f, n, nn) hl
    have hs := hall _ hmem
    simp only [rowSound, Bool.and_eq_true] at hs
    rw [hl] at hd
    cases t <;> cases f <;> simp at hd
    · -- (false, true): pruned the true branch
      subst hd
      cases hk : kindTruth (kindOf a) with
      | none => simp [hk] at hs
      | some tv =>
        cases tv
        · obtain ⟨hne, htr⟩ := kindTruth_spec a false hk
          rw [truth_refines c a hr hne, htr]
        · simp [hk] at hs
    · subst hd
      cases hk : kindTruth (kindOf a) with
      | none => simp [hk] at hs
      | some tv =>
        cases tv
        · simp [hk] at hs
        · obtain ⟨hne, htr⟩ := kindTruth_spec a true hk
          rw [truth_refines c a hr hne, htr]

end PytypeModel.MiniFlow
