import PytypeModel.Proofs.FlowAssoc

/-! Lemmas about `BlockState` (C18): meaning of a state, the invariant, with_condition, merge. -/
namespace PytypeModel.Flow

/-! ### meaning of a state in terms of `Var.sem` -/

/-- truth value of the implicit block condition for local `x` -/
def BState.blk (s : BState) (ρ : Nat → Bool) (x : String) : Bool :=
  if s.lwbc.contains x then s.cond.eval ρ else true

def semVals (l : List (Val × Bool)) (blk : Bool) : List Val :=
  (l.filter fun p => p.2 && blk).map (·.1)

theorem vals_eq (ρ : Nat → Bool) (s : BState) (x : String) :
    s.vals ρ x = match assocGet s.locals x with
      | none => []
      | some v => semVals (v.sem ρ) (s.blk ρ x) := by
  unfold BState.vals
  cases assocGet s.locals x with
  | none => rfl
  | some v =>
    simp only [semVals, Var.sem, List.filter_map, List.map_map]
    congr 1

theorem mem_semVals (l : List (Val × Bool)) (blk : Bool) (val : Val) :
    val ∈ semVals l blk ↔ (val, true) ∈ l ∧ blk = true := by
  simp only [semVals, List.mem_map, List.mem_filter, Bool.and_eq_true]
  constructor
  · rintro ⟨⟨a, t⟩, ⟨hm, ht, hb⟩, rfl⟩
    simp only at ht; subst ht
    exact ⟨hm, hb⟩
  · rintro ⟨hm, hb⟩
    exact ⟨(val, true), ⟨hm, rfl, hb⟩, rfl⟩

theorem mem_map_and (l : List (Val × Bool)) (e : Bool) (val : Val) :
    (val, true) ∈ l.map (fun p => (p.1, p.2 && e)) ↔ (val, true) ∈ l ∧ e = true := by
  simp only [List.mem_map, Prod.mk.injEq, Bool.and_eq_true]
  constructor
  · rintro ⟨⟨a, t⟩, hm, rfl, ht, he⟩
    simp only at ht; subst ht
    exact ⟨hm, he⟩
  · rintro ⟨hm, he⟩
    exact ⟨(val, true), hm, rfl, rfl, he⟩

theorem mem_sem_iff (ρ : Nat → Bool) (v : Var) (val : Val) :
    (val, true) ∈ v.sem ρ ↔ ∃ b ∈ v.bindings, b.value = val ∧ b.cond.eval ρ = true := by
  simp [Var.sem]

/-! ### invariant: construction, store_local, load_local, with_condition -/

theorem mem_dictOf (ls : List (String × Var)) (p : String × Var) : ∀ acc : List (String × Var),
    p ∈ ls.foldl (fun d q => assocSet d q.1 q.2) acc → p ∈ acc ∨ p ∈ ls := by
  induction ls with
  | nil => intro acc h; exact Or.inl h
  | cons q ls ih =>
    intro acc h
    rw [List.foldl_cons] at h
    rcases ih _ h with h | h
    · rcases mem_assocSet acc q.1 q.2 p h with h | h
      · exact Or.inl h
      · exact Or.inr (by rw [h]; exact List.mem_cons_self)
    · exact Or.inr (List.mem_cons_of_mem _ h)

theorem nodup_dictOf (ls : List (String × Var)) : ∀ acc : List (String × Var),
    (akeys acc).Nodup → (akeys (ls.foldl (fun d q => assocSet d q.1 q.2) acc)).Nodup := by
  induction ls with
  | nil => intro acc h; exact h
  | cons q ls ih =>
    intro acc h
    rw [List.foldl_cons]
    exact ih _ (nodup_akeys_assocSet acc q.1 q.2 h)

theorem inv_init' (ls : List (String × Var)) (c : Cond) (h : ∀ p ∈ ls, p.2.values.Nodup) :
    Inv (BState.init ls c) := by
  refine ⟨?_, ?_, ?_, ?_⟩
  · exact nodup_dictOf ls [] (by simp)
  · intro x hx; exact hx
  · intro x v hv
    rcases mem_dictOf ls (x, v) [] hv with h' | h'
    · cases h'
    · exact h (x, v) h'
  · intro x v hv hx
    exact absurd (mem_akeys_of_mem hv) hx

theorem inv_storeLocal' (s : BState) (x : String) (var : Var) (h : Inv s)
    (hv : var.values.Nodup) : Inv (s.storeLocal x var) := by
  refine ⟨?_, ?_, ?_, ?_⟩
  · exact nodup_akeys_assocSet s.locals x var h.keysNodup
  · intro y hy
    rcases (mem_setAdd s.lwbc x y).1 hy with hy | hy
    · exact (mem_akeys_assocSet s.locals x y var).2 (Or.inl (h.lwbcKeys y hy))
    · exact (mem_akeys_assocSet s.locals x y var).2 (Or.inr hy)
  · intro y w hw
    rcases mem_assocSet s.locals x var (y, w) hw with hw | hw
    · exact h.valsNodup y w hw
    · cases hw; exact hv
  · intro y w hw hy b hb ρ hρ
    have hy' : y ∉ s.lwbc ∧ y ≠ x := by
      constructor
      · exact fun e => hy ((mem_setAdd s.lwbc x y).2 (Or.inl e))
      · exact fun e => hy ((mem_setAdd s.lwbc x y).2 (Or.inr e))
    rcases mem_assocSet s.locals x var (y, w) hw with hw | hw
    · exact h.implied y w hw hy'.1 b hb ρ hρ
    · cases hw; exact absurd rfl hy'.2

theorem loadLocal_values (s : BState) (x : String) (var : Var) (h : Inv s)
    (hl : s.loadLocal x = some var) : var.values.Nodup := by
  unfold BState.loadLocal at hl
  cases hg : assocGet s.locals x with
  | none => simp [hg] at hl
  | some v =>
    simp only [hg, Option.map_some, Option.some.injEq] at hl
    subst hl
    exact h.valsNodup x v (mem_of_assocGet _ _ _ hg)

theorem withCondition_locals (s : BState) (c : Cond) :
    (s.withCondition c).locals = s.locals.map fun p =>
      (p.1, if s.lwbc.contains p.1 then p.2 else p.2.withCondition (mkAnd [s.cond, c])) := by
  unfold BState.withCondition
  simp only
  apply List.map_congr_left
  intro p _
  split <;> rfl

theorem withCondition_cond (s : BState) (c : Cond) :
    (s.withCondition c).cond = mkAnd [s.cond, c] := rfl

theorem withCondition_lwbc (s : BState) (c : Cond) : (s.withCondition c).lwbc = s.lwbc := rfl

theorem mem_bindings_withCondition (v : Var) (c : Cond) (b : Binding)
    (hb : b ∈ (v.withCondition c).bindings) (ρ : Nat → Bool) (hρ : b.cond.eval ρ = true) :
    c.eval ρ = true := by
  unfold Var.withCondition at hb
  split at hb
  · rename_i h
    rw [(Cond.isTT_iff c).1 h]; simp
  · simp only [List.mem_map] at hb
    obtain ⟨b0, _, rfl⟩ := hb
    simp only [eval_mkAnd', List.all_cons, List.all_nil, Bool.and_true, Bool.and_eq_true] at hρ
    exact hρ.2

theorem inv_withCondition' (s : BState) (c : Cond) (h : Inv s) : Inv (s.withCondition c) := by
  have hk : (s.withCondition c).keys = s.keys := by
    unfold BState.keys
    rw [withCondition_locals]
    exact akeys_map s.locals
      (fun k v => if s.lwbc.contains k then v else v.withCondition (mkAnd [s.cond, c]))
  refine ⟨?_, ?_, ?_, ?_⟩
  · rw [hk]; exact h.keysNodup
  · intro x hx; rw [hk]; exact h.lwbcKeys x hx
  · intro x v hv
    rw [withCondition_locals, List.mem_map] at hv
    obtain ⟨p, hp, he⟩ := hv
    cases he
    split
    · exact h.valsNodup p.1 p.2 hp
    · rw [Var.values_withCondition]; exact h.valsNodup p.1 p.2 hp
  · intro x v hv hx b hb ρ hρ
    rw [withCondition_locals, List.mem_map] at hv
    obtain ⟨p, hp, he⟩ := hv
    cases he
    rw [withCondition_lwbc] at hx
    have hc : s.lwbc.contains p.1 = false := by
      cases hcc : s.lwbc.contains p.1
      · rfl
      · exact absurd ((contains_iff _ _).1 hcc) hx
    rw [hc] at hb
    exact mem_bindings_withCondition p.2 _ b hb ρ hρ

/-! ### with_condition restricts every local by exactly `c` -/
theorem state_withCondition' (s : BState) (c : Cond) (ρ : Nat → Bool) (x : String) (h : Inv s) :
    (s.withCondition c).vals ρ x = if c.eval ρ = true then s.vals ρ x else [] := by
  rw [vals_eq, vals_eq, withCondition_locals,
    assocGet_map s.locals
      (fun k v => if s.lwbc.contains k then v else v.withCondition (mkAnd [s.cond, c]))]
  cases hg : assocGet s.locals x with
  | none => simp
  | some v =>
    simp only [Option.map_some]
    by_cases hx : s.lwbc.contains x = true
    · simp only [BState.blk, withCondition_lwbc, withCondition_cond, hx, if_true, eval_mkAnd',
        List.all_cons, List.all_nil, Bool.and_true]
      cases c.eval ρ <;> simp [semVals]
    · have hx' : s.lwbc.contains x = false := by simpa using hx
      have himp : ∀ p ∈ v.sem ρ, p.2 = true → s.cond.eval ρ = true := by
        intro p hp hp2
        simp only [Var.sem, List.mem_map] at hp
        obtain ⟨b, hb, rfl⟩ := hp
        exact h.implied x v (mem_of_assocGet _ _ _ hg) (by simpa using hx') b hb ρ hp2
      have hmem : x ∉ s.lwbc := by simpa using hx'
      have hblk1 : (s.withCondition c).blk ρ x = true := by
        simp [BState.blk, withCondition_lwbc, hmem]
      have hblk2 : s.blk ρ x = true := by simp [BState.blk, hmem]
      simp only [hx', hblk1, hblk2, Bool.false_eq_true, if_false]
      rw [Var.sem_withCondition]
      simp only [semVals, List.filter_map, List.map_map, eval_mkAnd', List.all_cons, List.all_nil,
        Bool.and_true]
      cases hc : c.eval ρ
      · simp
      · simp only [if_true]
        congr 1
        apply List.filter_congr
        intro p hp
        cases hp2 : p.2
        · simp [hp2]
        · simp [hp2, himp p hp hp2]

/-! ### store_local -/
theorem store_vals' (s : BState) (x : String) (var : Var) (ρ : Nat → Bool) (y : String) :
    (s.storeLocal x var).vals ρ y =
      if y = x then (var.bindings.filter fun b => b.cond.eval ρ && s.cond.eval ρ).map (·.value)
      else s.vals ρ y := by
  unfold BState.vals BState.storeLocal BState.effective
  by_cases hy : y = x
  · subst hy
    have : y ∈ setAdd s.lwbc y := (mem_setAdd _ _ _).2 (Or.inr rfl)
    simp [assocGet_set_same, this]
  · have h1 : (setAdd s.lwbc x).contains y = s.lwbc.contains y := by
      rw [Bool.eq_iff_iff, contains_iff, contains_iff, mem_setAdd]
      exact ⟨fun h => h.elim id (fun e => absurd e hy), Or.inl⟩
    simp only [assocGet_set_ne s.locals x y var (fun e => hy e.symm), h1, hy, if_false]

/-! ### merging the bindings of two variables -/
def dholds (ρ : Nat → Bool) (d : List (Val × Cond)) (val : Val) : Bool :=
  match assocGet d val with
  | some c => c.eval ρ
  | none => false

theorem bindMergeStep_eq (d : List (Val × Cond)) (b : Binding) :
    ∃ c, bindMergeStep d b = assocSet d b.value c ∧
      (∀ ρ, c.eval ρ = (dholds ρ d b.value || b.cond.eval ρ)) := by
  unfold bindMergeStep dholds
  cases assocGet d b.value with
  | none => exact ⟨b.cond, rfl, by simp⟩
  | some c => exact ⟨mkOr [c, b.cond], rfl, by simp [eval_mkOr']⟩

theorem dholds_bindMergeStep (ρ : Nat → Bool) (d : List (Val × Cond)) (b : Binding) (val : Val) :
    dholds ρ (bindMergeStep d b) val = (dholds ρ d val || (b.value == val && b.cond.eval ρ)) := by
  obtain ⟨c, hc, hev⟩ := bindMergeStep_eq d b
  rw [hc]
  by_cases h : b.value = val
  · subst h
    simp [dholds, assocGet_set_same, hev ρ]
  · simp [dholds, assocGet_set_ne d b.value val c h, h]

theorem dholds_foldl (ρ : Nat → Bool) (bs : List Binding) (val : Val) :
    ∀ d : List (Val × Cond), dholds ρ (bs.foldl bindMergeStep d) val =
      (dholds ρ d val || bs.any (fun b => b.value == val && b.cond.eval ρ)) := by
  induction bs with
  | nil => intro d; simp
  | cons b bs ih =>
    intro d
    rw [List.foldl_cons, ih, dholds_bindMergeStep]
    simp [Bool.or_assoc]

theorem dholds_bindDict_aux (ρ : Nat → Bool) (bs : List Binding) (val : Val)
    (hn : (bs.map (·.value)).Nodup) : ∀ d : List (Val × Cond),
    dholds ρ (bs.foldl (fun d b => assocSet d b.value b.cond) d) val =
      if val ∈ bs.map (·.value) then bs.any (fun b => b.value == val && b.cond.eval ρ)
      else dholds ρ d val := by
  induction bs with
  | nil => intro d; simp
  | cons b bs ih =>
    intro d
    simp only [List.map_cons, List.nodup_cons] at hn
    rw [List.foldl_cons, ih hn.2]
    by_cases h : b.value = val
    · subst h
      have hnot : b.value ∉ bs.map (·.value) := hn.1
      have hany : bs.any (fun b' => b'.value == b.value && b'.cond.eval ρ) = false := by
        rw [List.any_eq_false]
        intro b' hb'
        have : b'.value ≠ b.value := fun e => hnot (e ▸ List.mem_map.2 ⟨b', hb', rfl⟩)
        simp [this]
      simp [hnot, dholds, assocGet_set_same, hany]
    · have h' : ¬ val = b.value := fun e => h e.symm
      have hbeq : (b.value == val) = false := by simp [h]
      simp only [List.map_cons, List.mem_cons, h', false_or, List.any_cons, hbeq,
        Bool.false_and, Bool.false_or]
      split
      · rfl
      · simp [dholds, assocGet_set_ne d b.value val b.cond h]

theorem dholds_bindDict (ρ : Nat → Bool) (bs : List Binding) (val : Val)
    (hn : (bs.map (·.value)).Nodup) :
    dholds ρ (bindDict bs) val = bs.any (fun b => b.value == val && b.cond.eval ρ) := by
  unfold bindDict
  rw [dholds_bindDict_aux ρ bs val hn]
  split
  · rfl
  · rename_i h
    have : bs.any (fun b => b.value == val && b.cond.eval ρ) = false := by
      rw [List.any_eq_false]
      intro b hb
      have : b.value ≠ val := fun e => h (e ▸ List.mem_map.2 ⟨b, hb, rfl⟩)
      simp [this]
    simp [dholds, assocGet, this]

theorem nodup_bindDict (bs : List Binding) : ∀ d : List (Val × Cond), (akeys d).Nodup →
    (akeys (bs.foldl (fun d b => assocSet d b.value b.cond) d)).Nodup := by
  induction bs with
  | nil => intro d h; exact h
  | cons b bs ih => intro d h; rw [List.foldl_cons]; exact ih _ (nodup_akeys_assocSet d _ _ h)

theorem nodup_foldl_bindMergeStep (bs : List Binding) : ∀ d : List (Val × Cond), (akeys d).Nodup →
    (akeys (bs.foldl bindMergeStep d)).Nodup := by
  induction bs with
  | nil => intro d h; exact h
  | cons b bs ih =>
    intro d h
    rw [List.foldl_cons]
    obtain ⟨c, hc, _⟩ := bindMergeStep_eq d b
    exact ih _ (hc ▸ nodup_akeys_assocSet d _ _ h)

/-- the dict built by the merge of two variables -/
def mergeDict (cur var : Var) : List (Val × Cond) :=
  var.bindings.foldl bindMergeStep (bindDict cur.bindings)

theorem nodup_mergeDict (cur var : Var) : (akeys (mergeDict cur var)).Nodup :=
  nodup_foldl_bindMergeStep _ _ (nodup_bindDict _ [] (by simp))

theorem mergeBindings_values (cur var : Var) : (mergeBindings cur var).values.Nodup := by
  have := nodup_mergeDict cur var
  simpa [mergeBindings, Var.values, mergeDict, akeys, List.map_map, Function.comp_def] using this

theorem any_iff_mem_sem (ρ : Nat → Bool) (v : Var) (val : Val) :
    v.bindings.any (fun b => b.value == val && b.cond.eval ρ) = true ↔ (val, true) ∈ v.sem ρ := by
  rw [mem_sem_iff]
  simp

/-- under every valuation the merged variable has value `val` iff one of the two inputs has it
(needs pairwise distinct values in `cur`: the dict comprehension keeps the last duplicate). -/
theorem mergeBindings_sem (ρ : Nat → Bool) (cur var : Var) (hn : cur.values.Nodup) (val : Val) :
    (val, true) ∈ (mergeBindings cur var).sem ρ ↔
      (val, true) ∈ cur.sem ρ ∨ (val, true) ∈ var.sem ρ := by
  have hd : dholds ρ (mergeDict cur var) val = true ↔
      (val, true) ∈ cur.sem ρ ∨ (val, true) ∈ var.sem ρ := by
    unfold mergeDict
    rw [dholds_foldl, dholds_bindDict ρ _ val hn, Bool.or_eq_true, any_iff_mem_sem, any_iff_mem_sem]
  rw [← hd]
  have hnd := nodup_mergeDict cur var
  have hsem : (mergeBindings cur var).sem ρ = (mergeDict cur var).map fun p => (p.1, p.2.eval ρ) := by
    simp [mergeBindings, Var.sem, mergeDict, List.map_map, Function.comp_def]
  rw [hsem]
  simp only [List.mem_map, Prod.mk.injEq]
  constructor
  · rintro ⟨⟨k, c⟩, hm, rfl, hc⟩
    simp only [dholds, assocGet_of_mem _ hnd k c hm]
    exact hc
  · intro h
    unfold dholds at h
    cases hg : assocGet (mergeDict cur var) val with
    | none => simp [hg] at h
    | some c =>
      simp only [hg] at h
      exact ⟨(val, c), mem_of_assocGet _ _ _ hg, rfl, h⟩

/-- every condition in the merged variable implies `P` when every input condition does -/
theorem mergeBindings_implied (ρ : Nat → Bool) (P : Prop) (cur var : Var)
    (hc : ∀ b ∈ cur.bindings, b.cond.eval ρ = true → P)
    (hv : ∀ b ∈ var.bindings, b.cond.eval ρ = true → P) :
    ∀ b ∈ (mergeBindings cur var).bindings, b.cond.eval ρ = true → P := by
  have h0 : ∀ (bs : List Binding), (∀ b ∈ bs, b.cond.eval ρ = true → P) →
      ∀ d : List (Val × Cond), (∀ p ∈ d, p.2.eval ρ = true → P) →
      ∀ p ∈ bs.foldl (fun d b => assocSet d b.value b.cond) d, p.2.eval ρ = true → P := by
    intro bs
    induction bs with
    | nil => intro _ d hd; exact hd
    | cons b bs ih =>
      intro hbs d hd
      rw [List.foldl_cons]
      apply ih (fun b' hb' => hbs b' (List.mem_cons_of_mem _ hb'))
      intro p hp
      rcases mem_assocSet d b.value b.cond p hp with hp | hp
      · exact hd p hp
      · rw [hp]; exact hbs b List.mem_cons_self
  have h1 : ∀ (bs : List Binding), (∀ b ∈ bs, b.cond.eval ρ = true → P) →
      ∀ d : List (Val × Cond), (∀ p ∈ d, p.2.eval ρ = true → P) →
      ∀ p ∈ bs.foldl bindMergeStep d, p.2.eval ρ = true → P := by
    intro bs
    induction bs with
    | nil => intro _ d hd; exact hd
    | cons b bs ih =>
      intro hbs d hd
      rw [List.foldl_cons]
      apply ih (fun b' hb' => hbs b' (List.mem_cons_of_mem _ hb'))
      intro p hp
      obtain ⟨c, hc', hev⟩ := bindMergeStep_eq d b
      rw [hc'] at hp
      rcases mem_assocSet d b.value c p hp with hp | hp
      · exact hd p hp
      · rw [hp]
        simp only [hev ρ, Bool.or_eq_true]
        rintro (h | h)
        · unfold dholds at h
          cases hg : assocGet d b.value with
          | none => simp [hg] at h
          | some c0 =>
            simp only [hg] at h
            exact hd (b.value, c0) (mem_of_assocGet _ _ _ hg) h
        · exact hbs b List.mem_cons_self h
  intro b hb
  simp only [mergeBindings, List.mem_map] at hb
  obtain ⟨p, hp, rfl⟩ := hb
  exact h1 var.bindings hv _ (h0 cur.bindings hc [] (by simp)) p hp

/-! ### the variable with its block condition made explicit -/
def explicitVar (s : BState) (x : String) (v : Var) : Var :=
  if s.lwbc.contains x then v.withCondition s.cond else v

theorem explicitVar_values (s : BState) (x : String) (v : Var) :
    (explicitVar s x v).values = v.values := by
  unfold explicitVar
  split
  · exact Var.values_withCondition v s.cond
  · rfl

theorem mem_sem_explicit (ρ : Nat → Bool) (s : BState) (x : String) (v : Var) (val : Val)
    (hg : assocGet s.locals x = some v) :
    (val, true) ∈ (explicitVar s x v).sem ρ ↔ val ∈ s.vals ρ x := by
  rw [vals_eq, hg]
  simp only [mem_semVals, BState.blk, explicitVar]
  split
  · rw [Var.sem_withCondition, mem_map_and]
  · simp

theorem explicit_implied (s : BState) (x : String) (v : Var) (h : Inv s)
    (hg : assocGet s.locals x = some v) (b : Binding) (hb : b ∈ (explicitVar s x v).bindings)
    (ρ : Nat → Bool) (hρ : b.cond.eval ρ = true) : s.cond.eval ρ = true := by
  unfold explicitVar at hb
  split at hb
  · exact mem_bindings_withCondition v s.cond b hb ρ hρ
  · rename_i hx
    exact h.implied x v (mem_of_assocGet _ _ _ hg) (by simpa using hx) b hb ρ hρ

/-! ### merge_into: what ends up under each key -/
def mergeLw (a b : BState) : List String := (a.locals.filter fun p => sameIn b p.1 p.2).map (·.1)

def mergeSpec (a b : BState) (x : String) : Option Var :=
  updSpec (merge2Upd b (mergeLw a b)) b.locals x ((assocGet a.locals x).map (merge1Var a b x))

theorem mergeInto_locals (a b : BState) :
    (a.mergeInto (some b)).locals =
      b.locals.foldl (merge2Step b (mergeLw a b)) (a.locals.map fun p => (p.1, merge1Var a b p.1 p.2)) :=
  rfl

theorem mergeInto_lwbc (a b : BState) : (a.mergeInto (some b)).lwbc = mergeLw a b := rfl
theorem mergeInto_cond (a b : BState) : (a.mergeInto (some b)).cond = mkOr [a.cond, b.cond] := rfl

theorem merge2Step_eq (b : BState) (lw : List String) (acc : List (String × Var))
    (p : String × Var) : merge2Step b lw acc p =
      assocUpd acc p.1 (merge2Upd b lw p.1 p.2 (assocGet acc p.1)) := rfl

theorem mergeInto_get (a b : BState) (hb : (akeys b.locals).Nodup) (x : String) :
    assocGet (a.mergeInto (some b)).locals x = mergeSpec a b x := by
  rw [mergeInto_locals,
    assocGet_foldl_upd (merge2Upd b (mergeLw a b)) (merge2Step b (mergeLw a b))
      (merge2Step_eq b (mergeLw a b)) b.locals hb x,
    assocGet_map a.locals (merge1Var a b)]
  rfl

theorem mem_mergeLw (a b : BState) (ha : (akeys a.locals).Nodup) (x : String) :
    x ∈ mergeLw a b ↔ ∃ v, assocGet a.locals x = some v ∧ sameIn b x v = true := by
  simp only [mergeLw, List.mem_map, List.mem_filter]
  constructor
  · rintro ⟨⟨k, v⟩, ⟨hm, hs⟩, rfl⟩
    exact ⟨v, assocGet_of_mem _ ha k v hm, hs⟩
  · rintro ⟨v, hg, hs⟩
    exact ⟨(x, v), ⟨mem_of_assocGet _ _ _ hg, hs⟩, rfl⟩

theorem mergeLw_sub (a b : BState) (x : String) (h : x ∈ mergeLw a b) : x ∈ akeys a.locals := by
  simp only [mergeLw, List.mem_map, List.mem_filter] at h
  obtain ⟨p, ⟨hm, _⟩, rfl⟩ := h
  exact mem_akeys_of_mem (v := p.2) hm

/-- the possible shapes of the merged entry for one name -/
inductive MergeCase (a b : BState) (x : String) : Option Var → Prop
  | neither : assocGet a.locals x = none → assocGet b.locals x = none → MergeCase a b x none
  | left (va : Var) : assocGet a.locals x = some va → assocGet b.locals x = none →
      x ∉ mergeLw a b → MergeCase a b x (some (explicitVar a x va))
  | right (wb : Var) : assocGet a.locals x = none → assocGet b.locals x = some wb →
      x ∉ mergeLw a b → MergeCase a b x (some (explicitVar b x wb))
  | same (va wb : Var) : assocGet a.locals x = some va → assocGet b.locals x = some wb →
      va.beq wb = true → x ∈ mergeLw a b → MergeCase a b x (some va)
  | both (va wb : Var) : assocGet a.locals x = some va → assocGet b.locals x = some wb →
      x ∉ mergeLw a b →
      MergeCase a b x (some (mergeBindings (explicitVar a x va) (explicitVar b x wb)))

theorem mergeSpec_cases (a b : BState) (ha : (akeys a.locals).Nodup) (x : String) :
    MergeCase a b x (mergeSpec a b x) := by
  have hlw := mem_mergeLw a b ha x
  unfold mergeSpec updSpec
  cases hA : assocGet a.locals x with
  | none =>
    have hnot : x ∉ mergeLw a b := by
      rw [hlw, hA]; simp
    have hc : (mergeLw a b).contains x = false := by
      cases hcc : (mergeLw a b).contains x
      · rfl
      · exact absurd ((contains_iff _ _).1 hcc) hnot
    cases hB : assocGet b.locals x with
    | none => exact .neither hA hB
    | some wb =>
      simp only [Option.map_none, merge2Upd, hc, Bool.false_eq_true, if_false]
      exact .right wb hA hB hnot
  | some va =>
    cases hB : assocGet b.locals x with
    | none =>
      have hs : sameIn b x va = false := by simp [sameIn, hB]
      have hnot : x ∉ mergeLw a b := by
        rw [hlw, hA]; simp [hs]
      simp only [Option.map_some, merge1Var, hs, Bool.false_eq_true, if_false]
      exact .left va hA hB hnot
    | some wb =>
      have hs : sameIn b x va = va.beq wb := by simp [sameIn, hB]
      cases hbeq : va.beq wb
      · have hnot : x ∉ mergeLw a b := by
          rw [hlw, hA]; simp [hs, hbeq]
        have hc : (mergeLw a b).contains x = false := by
          cases hcc : (mergeLw a b).contains x
          · rfl
          · exact absurd ((contains_iff _ _).1 hcc) hnot
        simp only [Option.map_some, merge1Var, hs, hbeq, merge2Upd, hc, Bool.false_eq_true,
          if_false, Option.or_some]
        exact .both va wb hA hB hnot
      · have hin : x ∈ mergeLw a b := by
          rw [hlw, hA]; exact ⟨va, rfl, by rw [hs, hbeq]⟩
        have hc : (mergeLw a b).contains x = true := (contains_iff _ _).2 hin
        simp only [Option.map_some, merge1Var, hs, hbeq, merge2Upd, hc, if_true, Option.none_or]
        exact .same va wb hA hB hbeq hin

/-! ### merge = union -/
theorem merge_union' (a b : BState) (ha : Inv a) (hb : Inv b) (ρ : Nat → Bool) (x : String)
    (val : Val) :
    val ∈ (a.mergeInto (some b)).vals ρ x ↔ val ∈ a.vals ρ x ∨ val ∈ b.vals ρ x := by
  have hcase := mergeSpec_cases a b ha.keysNodup x
  rw [vals_eq ρ (a.mergeInto (some b)) x, mergeInto_get a b hb.keysNodup x]
  have hblk : (a.mergeInto (some b)).blk ρ x =
      if (mergeLw a b).contains x then (a.cond.eval ρ || b.cond.eval ρ) else true := by
    simp [BState.blk, mergeInto_lwbc, mergeInto_cond, eval_mkOr']
  generalize mergeSpec a b x = r at hcase
  cases hcase with
  | neither hA hB => simp [vals_eq, hA, hB]
  | left va hA hB hnot =>
    have hc : (mergeLw a b).contains x = false := by
      cases hcc : (mergeLw a b).contains x
      · rfl
      · exact absurd ((contains_iff _ _).1 hcc) hnot
    simp only [hblk, hc, mem_semVals, mem_sem_explicit ρ a x va val hA]
    simp [vals_eq ρ b x, hB]
  | right wb hA hB hnot =>
    have hc : (mergeLw a b).contains x = false := by
      cases hcc : (mergeLw a b).contains x
      · rfl
      · exact absurd ((contains_iff _ _).1 hcc) hnot
    simp only [hblk, hc, mem_semVals, mem_sem_explicit ρ b x wb val hB]
    simp [vals_eq ρ a x, hA]
  | both va wb hA hB hnot =>
    have hc : (mergeLw a b).contains x = false := by
      cases hcc : (mergeLw a b).contains x
      · rfl
      · exact absurd ((contains_iff _ _).1 hcc) hnot
    have hn : (explicitVar a x va).values.Nodup := by
      rw [explicitVar_values]; exact ha.valsNodup x va (mem_of_assocGet _ _ _ hA)
    simp only [hblk, hc, mem_semVals, mergeBindings_sem ρ _ _ hn val,
      mem_sem_explicit ρ a x va val hA, mem_sem_explicit ρ b x wb val hB]
    simp
  | same va wb hA hB hbeq hin =>
    have hc : (mergeLw a b).contains x = true := (contains_iff _ _).2 hin
    have hsem : va.sem ρ = wb.sem ρ := Var.beq_sound ρ va wb hbeq
    have hia : (val, true) ∈ va.sem ρ → a.blk ρ x = a.cond.eval ρ := by
      intro hm
      unfold BState.blk
      split
      · rfl
      · rename_i hx
        obtain ⟨bd, hbd, _, hev⟩ := (mem_sem_iff ρ va val).1 hm
        exact (ha.implied x va (mem_of_assocGet _ _ _ hA) (by simpa using hx) bd hbd ρ hev).symm
    have hib : (val, true) ∈ va.sem ρ → b.blk ρ x = b.cond.eval ρ := by
      intro hm
      rw [hsem] at hm
      unfold BState.blk
      split
      · rfl
      · rename_i hx
        obtain ⟨bd, hbd, _, hev⟩ := (mem_sem_iff ρ wb val).1 hm
        exact (hb.implied x wb (mem_of_assocGet _ _ _ hB) (by simpa using hx) bd hbd ρ hev).symm
    rw [hblk]
    simp only [hc, if_true, mem_semVals]
    rw [vals_eq ρ a x, vals_eq ρ b x, hA, hB]
    simp only [mem_semVals, ← hsem]
    by_cases hm : (val, true) ∈ va.sem ρ
    · simp [hm, hia hm, hib hm]
    · simp [hm]

theorem merge_none' (a : BState) : a.mergeInto none = a := rfl

/-! ### the invariant after a merge -/
theorem inv_mergeInto' (a b : BState) (ha : Inv a) (hb : Inv b) : Inv (a.mergeInto (some b)) := by
  have hk := akeys_foldl_upd (merge2Upd b (mergeLw a b)) (merge2Step b (mergeLw a b))
    (merge2Step_eq b (mergeLw a b)) b.locals (a.locals.map fun p => (p.1, merge1Var a b p.1 p.2))
    (by rw [akeys_map a.locals (merge1Var a b)]; exact ha.keysNodup)
  have hget : ∀ x v, (x, v) ∈ (a.mergeInto (some b)).locals → MergeCase a b x (some v) := by
    intro x v hv
    have := assocGet_of_mem _ (by rw [mergeInto_locals]; exact hk.1) x v hv
    rw [mergeInto_get a b hb.keysNodup x] at this
    rw [← this]
    exact mergeSpec_cases a b ha.keysNodup x
  refine ⟨?_, ?_, ?_, ?_⟩
  · show (akeys (a.mergeInto (some b)).locals).Nodup
    rw [mergeInto_locals]; exact hk.1
  · intro x hx
    show x ∈ akeys (a.mergeInto (some b)).locals
    rw [mergeInto_locals]
    apply hk.2
    rw [akeys_map a.locals (merge1Var a b)]
    exact mergeLw_sub a b x hx
  · intro x v hv
    generalize hr : some v = r
    have hcase := hget x v hv
    rw [hr] at hcase
    cases hcase with
    | neither _ _ => cases hr
    | left va hA _ _ =>
      cases hr; rw [explicitVar_values]; exact ha.valsNodup x va (mem_of_assocGet _ _ _ hA)
    | right wb _ hB _ =>
      cases hr; rw [explicitVar_values]; exact hb.valsNodup x wb (mem_of_assocGet _ _ _ hB)
    | same va wb hA _ _ _ =>
      rw [Option.some.inj hr]; exact ha.valsNodup x va (mem_of_assocGet _ _ _ hA)
    | both va wb _ _ _ => cases hr; exact mergeBindings_values _ _
  · intro x v hv hx bd hbd ρ hρ
    rw [mergeInto_lwbc] at hx
    rw [mergeInto_cond, eval_mkOr']
    simp only [List.any_cons, List.any_nil, Bool.or_false, Bool.or_eq_true]
    generalize hr : some v = r
    have hcase := hget x v hv
    rw [hr] at hcase
    cases hcase with
    | neither _ _ => cases hr
    | left va hA _ _ => cases hr; exact Or.inl (explicit_implied a x va ha hA bd hbd ρ hρ)
    | right wb _ hB _ => cases hr; exact Or.inr (explicit_implied b x wb hb hB bd hbd ρ hρ)
    | same va wb _ _ _ hin => exact absurd hin hx
    | both va wb hA hB _ =>
      cases hr
      exact mergeBindings_implied ρ _ _ _
        (fun b' hb' h' => Or.inl (explicit_implied a x va ha hA b' hb' ρ h'))
        (fun b' hb' h' => Or.inr (explicit_implied b x wb hb hB b' hb' ρ h')) bd hbd hρ

/-! ### histories -/
theorem fromValue_values (v : Val) (n : Option String) : (Var.fromValue v n).values.Nodup := by
  simp [Var.fromValue, Var.values]

theorem inv_set (m : List BState) (i : Nat) (s : BState) (hm : ∀ t ∈ m, Inv t) (hs : Inv s) :
    ∀ t ∈ m.set i s, Inv t := by
  intro t ht
  rcases List.mem_or_eq_of_mem_set ht with h | h
  · exact hm t h
  · exact h ▸ hs

theorem inv_append (m : List BState) (s : BState) (hm : ∀ t ∈ m, Inv t) (hs : Inv s) :
    ∀ t ∈ m ++ [s], Inv t := by
  intro t ht
  rcases List.mem_append.1 ht with h | h
  · exact hm t h
  · simp at h; exact h ▸ hs

theorem inv_step (m : List BState) (op : Op) (hm : ∀ t ∈ m, Inv t) (hop : op.ok = true) :
    ∀ t ∈ step m op, Inv t := by
  cases op with
  | new ls c =>
    apply inv_append m _ hm
    apply inv_init'
    intro p hp
    simp only [List.mem_map] at hp
    obtain ⟨q, _, rfl⟩ := hp
    exact fromValue_values _ _
  | storeVal i x v =>
    simp only [step]
    cases hi : m[i]? with
    | none => exact hm
    | some s =>
      exact inv_set m i _ hm (inv_storeLocal' s x _ (hm s (List.mem_of_getElem? hi)) (fromValue_values _ _))
  | storeLoad i x j y =>
    simp only [step]
    cases hi : m[i]? with
    | none => exact hm
    | some s =>
      cases hj : m[j]? with
      | none => exact hm
      | some t =>
        simp only
        cases hl : t.loadLocal y with
        | none => exact hm
        | some var =>
          exact inv_set m i _ hm (inv_storeLocal' s x var (hm s (List.mem_of_getElem? hi))
            (loadLocal_values t y var (hm t (List.mem_of_getElem? hj)) hl))
  | storeVar i x var =>
    simp only [step]
    cases hi : m[i]? with
    | none => exact hm
    | some s =>
      have : var.values.Nodup := by simpa [Op.ok] using hop
      exact inv_set m i _ hm (inv_storeLocal' s x var (hm s (List.mem_of_getElem? hi)) this)
  | withCond i c =>
    simp only [step]
    cases hi : m[i]? with
    | none => exact hm
    | some s => exact inv_append m _ hm (inv_withCondition' s c (hm s (List.mem_of_getElem? hi)))
  | merge i j =>
    simp only [step]
    cases hi : m[i]? with
    | none => exact hm
    | some s =>
      cases hj : m[j]? with
      | none => exact hm
      | some t =>
        exact inv_append m _ hm (inv_mergeInto' s t (hm s (List.mem_of_getElem? hi))
          (hm t (List.mem_of_getElem? hj)))
  | mergeNone i =>
    simp only [step]
    cases hi : m[i]? with
    | none => exact hm
    | some s => exact inv_append m _ hm (hm s (List.mem_of_getElem? hi))

theorem inv_run' (ops : List Op) (hok : ∀ op ∈ ops, op.ok = true) : ∀ t ∈ run ops, Inv t := by
  have : ∀ (ops : List Op) (m : List BState), (∀ op ∈ ops, op.ok = true) → (∀ t ∈ m, Inv t) →
      ∀ t ∈ ops.foldl step m, Inv t := by
    intro ops
    induction ops with
    | nil => intro m _ hm; exact hm
    | cons op ops ih =>
      intro m hok hm
      rw [List.foldl_cons]
      exact ih _ (fun o ho => hok o (List.mem_cons_of_mem _ ho))
        (inv_step m op hm (hok op List.mem_cons_self))
  exact this ops [] hok (by simp)

end PytypeModel.Flow
