import PytypeModel.Pytd.MsgPack

/-! # MessagePack layer: decode ∘ encode = id, injectivity, bytes < 256 -/
namespace PytypeModel.Pytd

/-! ### big-endian numbers -/

theorem beBytes_length (k n : Nat) : (beBytes k n).length = k := by
  induction k generalizing n with
  | zero => rfl
  | succ k ih => simp [beBytes, ih]

theorem beVal_append_one (xs : Bytes) (b : Nat) : beVal (xs ++ [b]) = beVal xs * 256 + b := by
  simp [beVal, List.foldl_append]

theorem beVal_beBytes (k n : Nat) (h : n < 256 ^ k) : beVal (beBytes k n) = n := by
  induction k generalizing n with
  | zero => simp at h; subst h; rfl
  | succ k ih =>
    have h' : n / 256 < 256 ^ k := by
      rw [Nat.div_lt_iff_lt_mul (by decide)]; rw [Nat.pow_succ] at h; exact h
    rw [beBytes, beVal_append_one, ih _ h']
    omega

theorem splitExact_append (s rest : Bytes) : splitExact s.length (s ++ rest) = some (s, rest) := by
  induction s with
  | nil => simp [splitExact]
  | cons b s ih => simp [splitExact, ih]

theorem readBE_beBytes (k n : Nat) (rest : Bytes) (h : n < 256 ^ k) :
    readBE k (beBytes k n ++ rest) = some (n, rest) := by
  have hl := beBytes_length k n
  have := splitExact_append (beBytes k n) rest
  rw [hl] at this
  simp [readBE, this, beVal_beBytes k n h]

theorem readBytes_append (s rest : Bytes) : readBytes s.length (s ++ rest) = some (s, rest) :=
  splitExact_append s rest

theorem beBytes_lt (k n : Nat) : ∀ b ∈ beBytes k n, b < 256 := by
  induction k generalizing n with
  | zero => intro b hb; simp [beBytes] at hb
  | succ k ih =>
    intro b hb
    simp only [beBytes, List.mem_append, List.mem_singleton] at hb
    rcases hb with hb | hb
    · exact ih _ b hb
    · omega

/-! ### head-byte dispatch of the decoder -/

section heads
variable (f : Nat) (bs : Bytes)

theorem decF_posfix (b : Nat) (h : b < 0x80) : decF (f + 1) (b :: bs) = some (.int b, bs) := by
  unfold decF; rw [if_pos h]

theorem decF_negfix (b : Nat) (h1 : 0xe0 ≤ b) (h2 : b < 0x100) :
    decF (f + 1) (b :: bs) = some (.int ((b : Int) - 256), bs) := by
  unfold decF
  repeat (first | rw [if_neg (by omega)] | rw [if_pos (And.intro h1 h2)])

theorem decF_fixmap (n : Nat) (h : n < 16) :
    decF (f + 1) ((0x80 + n) :: bs) = (decKVs f n bs).map fun (kvs, r) => (.map kvs, r) := by
  unfold decF
  rw [if_neg (by omega), if_pos (by omega)]
  have : 0x80 + n - 0x80 = n := by omega
  rw [this]

theorem decF_fixarr (n : Nat) (h : n < 16) :
    decF (f + 1) ((0x90 + n) :: bs) = (decList f n bs).map fun (xs, r) => (.arr xs, r) := by
  unfold decF
  rw [if_neg (by omega), if_neg (by omega), if_pos (by omega)]
  have : 0x90 + n - 0x90 = n := by omega
  rw [this]

theorem decF_fixstr (n : Nat) (h : n < 32) :
    decF (f + 1) ((0xa0 + n) :: bs) = (readBytes n bs).map fun (s, r) => (.str s, r) := by
  unfold decF
  rw [if_neg (by omega), if_neg (by omega), if_neg (by omega), if_pos (by omega)]
  have : 0xa0 + n - 0xa0 = n := by omega
  rw [this]

theorem decF_c0 : decF (f + 1) (0xc0 :: bs) = some (.nil, bs) := by simp [decF]
theorem decF_c2 : decF (f + 1) (0xc2 :: bs) = some (.bool false, bs) := by simp [decF]
theorem decF_c3 : decF (f + 1) (0xc3 :: bs) = some (.bool true, bs) := by simp [decF]
theorem decF_cc : decF (f + 1) (0xcc :: bs) = (readBE 1 bs).map fun (n, r) => (.int n, r) := by
  simp [decF]
theorem decF_cd : decF (f + 1) (0xcd :: bs) = (readBE 2 bs).map fun (n, r) => (.int n, r) := by
  simp [decF]
theorem decF_ce : decF (f + 1) (0xce :: bs) = (readBE 4 bs).map fun (n, r) => (.int n, r) := by
  simp [decF]
theorem decF_cf : decF (f + 1) (0xcf :: bs) = (readBE 8 bs).map fun (n, r) => (.int n, r) := by
  simp [decF]
theorem decF_d0 : decF (f + 1) (0xd0 :: bs) = (readBE 1 bs).map fun (n, r) => (.int (signedOf 8 n), r) := by
  simp [decF]
theorem decF_d1 : decF (f + 1) (0xd1 :: bs) = (readBE 2 bs).map fun (n, r) => (.int (signedOf 16 n), r) := by
  simp [decF]
theorem decF_d2 : decF (f + 1) (0xd2 :: bs) = (readBE 4 bs).map fun (n, r) => (.int (signedOf 32 n), r) := by
  simp [decF]
theorem decF_d3 : decF (f + 1) (0xd3 :: bs) = (readBE 8 bs).map fun (n, r) => (.int (signedOf 64 n), r) := by
  simp [decF]
theorem decF_d9 : decF (f + 1) (0xd9 :: bs) =
    (readBE 1 bs).bind fun (n, r) => (readBytes n r).map fun (s, r) => (.str s, r) := by simp [decF]
theorem decF_da : decF (f + 1) (0xda :: bs) =
    (readBE 2 bs).bind fun (n, r) => (readBytes n r).map fun (s, r) => (.str s, r) := by simp [decF]
theorem decF_db : decF (f + 1) (0xdb :: bs) =
    (readBE 4 bs).bind fun (n, r) => (readBytes n r).map fun (s, r) => (.str s, r) := by simp [decF]
theorem decF_dc : decF (f + 1) (0xdc :: bs) =
    (readBE 2 bs).bind fun (n, r) => (decList f n r).map fun (xs, r) => (.arr xs, r) := by simp [decF]
theorem decF_dd : decF (f + 1) (0xdd :: bs) =
    (readBE 4 bs).bind fun (n, r) => (decList f n r).map fun (xs, r) => (.arr xs, r) := by simp [decF]
theorem decF_de : decF (f + 1) (0xde :: bs) =
    (readBE 2 bs).bind fun (n, r) => (decKVs f n r).map fun (kvs, r) => (.map kvs, r) := by simp [decF]
theorem decF_df : decF (f + 1) (0xdf :: bs) =
    (readBE 4 bs).bind fun (n, r) => (decKVs f n r).map fun (kvs, r) => (.map kvs, r) := by simp [decF]
end heads

/-! ### ints -/

theorem decF_encInt (f : Nat) (i : Int) (rest : Bytes) (h1 : -(2 ^ 63) ≤ i) (h2 : i < 2 ^ 64) :
    decF (f + 1) (encInt i ++ rest) = some (.int i, rest) := by
  unfold encInt
  by_cases h0 : 0 ≤ i
  · rw [if_pos h0]
    have hn : ((i.toNat : Nat) : Int) = i := Int.toNat_of_nonneg h0
    generalize i.toNat = n at hn
    subst hn
    simp only []
    by_cases c1 : n < 128
    · rw [if_pos c1]; exact decF_posfix f rest n c1
    rw [if_neg c1]
    by_cases c2 : n < 2 ^ 8
    · rw [if_pos c2, List.cons_append, decF_cc, readBE_beBytes 1 n rest (by omega)]; rfl
    rw [if_neg c2]
    by_cases c3 : n < 2 ^ 16
    · rw [if_pos c3, List.cons_append, decF_cd, readBE_beBytes 2 n rest (by omega)]; rfl
    rw [if_neg c3]
    by_cases c4 : n < 2 ^ 32
    · rw [if_pos c4, List.cons_append, decF_ce, readBE_beBytes 4 n rest (by omega)]; rfl
    rw [if_neg c4, List.cons_append, decF_cf, readBE_beBytes 8 n rest (by omega)]; rfl
  · rw [if_neg h0]
    by_cases c1 : -32 ≤ i
    · rw [if_pos c1]
      have hb : (((256 + i).toNat : Nat) : Int) = 256 + i := Int.toNat_of_nonneg (by omega)
      generalize (256 + i).toNat = b at hb
      rw [List.singleton_append, decF_negfix f rest b (by omega) (by omega)]
      congr 3; omega
    rw [if_neg c1]
    by_cases c2 : -(2 ^ 7) ≤ i
    · rw [if_pos c2]
      have hb : (((2 ^ 8 + i).toNat : Nat) : Int) = 2 ^ 8 + i := Int.toNat_of_nonneg (by omega)
      generalize (2 ^ 8 + i).toNat = b at hb
      rw [List.cons_append, decF_d0, readBE_beBytes 1 b rest (by omega)]
      simp only [Option.map_some, signedOf]
      rw [if_neg (by omega)]
      congr 3; omega
    rw [if_neg c2]
    by_cases c3 : -(2 ^ 15) ≤ i
    · rw [if_pos c3]
      have hb : (((2 ^ 16 + i).toNat : Nat) : Int) = 2 ^ 16 + i := Int.toNat_of_nonneg (by omega)
      generalize (2 ^ 16 + i).toNat = b at hb
      rw [List.cons_append, decF_d1, readBE_beBytes 2 b rest (by omega)]
      simp only [Option.map_some, signedOf]
      rw [if_neg (by omega)]
      congr 3; omega
    rw [if_neg c3]
    by_cases c4 : -(2 ^ 31) ≤ i
    · rw [if_pos c4]
      have hb : (((2 ^ 32 + i).toNat : Nat) : Int) = 2 ^ 32 + i := Int.toNat_of_nonneg (by omega)
      generalize (2 ^ 32 + i).toNat = b at hb
      rw [List.cons_append, decF_d2, readBE_beBytes 4 b rest (by omega)]
      simp only [Option.map_some, signedOf]
      rw [if_neg (by omega)]
      congr 3; omega
    rw [if_neg c4]
    have hb : (((2 ^ 64 + i).toNat : Nat) : Int) = 2 ^ 64 + i := Int.toNat_of_nonneg (by omega)
    generalize (2 ^ 64 + i).toNat = b at hb
    rw [List.cons_append, decF_d3, readBE_beBytes 8 b rest (by omega)]
    simp only [Option.map_some, signedOf]
    rw [if_neg (by omega)]
    congr 3; omega

/-! ### str / array / map headers -/

theorem decF_str (f : Nat) (s rest : Bytes) (h : s.length < 2 ^ 32) :
    decF (f + 1) (strHead s.length ++ s ++ rest) = some (.str s, rest) := by
  unfold strHead
  by_cases c1 : s.length < 32
  · rw [if_pos c1, List.append_assoc, List.singleton_append, decF_fixstr f _ _ c1, readBytes_append]; rfl
  rw [if_neg c1]
  by_cases c2 : s.length < 2 ^ 8
  · rw [if_pos c2, List.append_assoc, List.cons_append, decF_d9,
      readBE_beBytes 1 _ _ (by omega)]
    simp [readBytes_append]
  rw [if_neg c2]
  by_cases c3 : s.length < 2 ^ 16
  · rw [if_pos c3, List.append_assoc, List.cons_append, decF_da,
      readBE_beBytes 2 _ _ (by omega)]
    simp [readBytes_append]
  rw [if_neg c3, List.append_assoc, List.cons_append, decF_db, readBE_beBytes 4 _ _ (by omega)]
  simp [readBytes_append]

theorem decF_arrHead (f n : Nat) (bs : Bytes) (h : n < 2 ^ 32) :
    decF (f + 1) (arrHead n ++ bs) = (decList f n bs).map fun (xs, r) => (.arr xs, r) := by
  unfold arrHead
  by_cases c1 : n < 16
  · rw [if_pos c1, List.singleton_append, decF_fixarr f _ _ c1]
  rw [if_neg c1]
  by_cases c2 : n < 2 ^ 16
  · rw [if_pos c2, List.cons_append, decF_dc, readBE_beBytes 2 _ _ (by omega)]; rfl
  rw [if_neg c2, List.cons_append, decF_dd, readBE_beBytes 4 _ _ (by omega)]; rfl

theorem decF_mapHead (f n : Nat) (bs : Bytes) (h : n < 2 ^ 32) :
    decF (f + 1) (mapHead n ++ bs) = (decKVs f n bs).map fun (kvs, r) => (.map kvs, r) := by
  unfold mapHead
  by_cases c1 : n < 16
  · rw [if_pos c1, List.singleton_append, decF_fixmap f _ _ c1]
  rw [if_neg c1]
  by_cases c2 : n < 2 ^ 16
  · rw [if_pos c2, List.cons_append, decF_de, readBE_beBytes 2 _ _ (by omega)]; rfl
  rw [if_neg c2, List.cons_append, decF_df, readBE_beBytes 4 _ _ (by omega)]; rfl

/-! ### fuel measure -/

mutual
def sz : MP → Nat
  | .arr xs => 1 + szList xs
  | .map kvs => 1 + szKVs kvs
  | _ => 1
def szList : List MP → Nat
  | [] => 0
  | x :: xs => 1 + sz x + szList xs
def szKVs : List (MP × MP) → Nat
  | [] => 0
  | (k, v) :: r => 1 + sz k + sz v + szKVs r
end

theorem encInt_length_pos (i : Int) : 1 ≤ (encInt i).length := by
  unfold encInt
  simp only []
  repeat' split
  all_goals simp

theorem strHead_length_pos (n : Nat) : 1 ≤ (strHead n).length := by
  unfold strHead; repeat' split
  all_goals simp
theorem arrHead_length_pos (n : Nat) : 1 ≤ (arrHead n).length := by
  unfold arrHead; repeat' split
  all_goals simp
theorem mapHead_length_pos (n : Nat) : 1 ≤ (mapHead n).length := by
  unfold mapHead; repeat' split
  all_goals simp

mutual
theorem sz_le : ∀ v : MP, sz v + 1 ≤ 2 * (encodeMP v).length
  | .nil => by simp [sz, encodeMP]
  | .bool false => by simp [sz, encodeMP]
  | .bool true => by simp [sz, encodeMP]
  | .int i => by have := encInt_length_pos i; simp [sz, encodeMP]; omega
  | .str s => by have := strHead_length_pos s.length; simp [sz, encodeMP]; omega
  | .arr xs => by
    have := arrHead_length_pos xs.length; have := szList_le xs
    simp [sz, encodeMP]; omega
  | .map kvs => by
    have := mapHead_length_pos kvs.length; have := szKVs_le kvs
    simp [sz, encodeMP]; omega
theorem szList_le : ∀ xs : List MP, szList xs ≤ 2 * (encodeList xs).length
  | [] => by simp [szList]
  | x :: xs => by
    have := sz_le x; have := szList_le xs
    simp [szList, encodeList]; omega
theorem szKVs_le : ∀ kvs : List (MP × MP), szKVs kvs ≤ 2 * (encodeKVs kvs).length
  | [] => by simp [szKVs]
  | (k, v) :: r => by
    have := sz_le k; have := sz_le v; have := szKVs_le r
    simp [szKVs, encodeKVs]; omega
end

/-! ### decode ∘ encode -/

mutual
theorem decF_complete : ∀ (v : MP), v.wf = true → ∀ (f : Nat) (rest : Bytes), sz v ≤ f →
    decF f (encodeMP v ++ rest) = some (v, rest)
  | .nil, _, f, rest, hf => by
    obtain ⟨f, rfl⟩ : ∃ g, f = g + 1 := ⟨f - 1, by simp [sz] at hf; omega⟩
    simp [encodeMP, decF_c0]
  | .bool false, _, f, rest, hf => by
    obtain ⟨f, rfl⟩ : ∃ g, f = g + 1 := ⟨f - 1, by simp [sz] at hf; omega⟩
    simp [encodeMP, decF_c2]
  | .bool true, _, f, rest, hf => by
    obtain ⟨f, rfl⟩ : ∃ g, f = g + 1 := ⟨f - 1, by simp [sz] at hf; omega⟩
    simp [encodeMP, decF_c3]
  | .int i, hwf, f, rest, hf => by
    obtain ⟨f, rfl⟩ : ∃ g, f = g + 1 := ⟨f - 1, by simp [sz] at hf; omega⟩
    simp only [MP.wf, Bool.and_eq_true, decide_eq_true_eq] at hwf
    simp only [encodeMP]
    exact decF_encInt f i rest hwf.1 hwf.2
  | .str s, hwf, f, rest, hf => by
    obtain ⟨f, rfl⟩ : ∃ g, f = g + 1 := ⟨f - 1, by simp [sz] at hf; omega⟩
    simp only [MP.wf, decide_eq_true_eq] at hwf
    simp only [encodeMP]
    exact decF_str f s rest hwf
  | .arr xs, hwf, f, rest, hf => by
    obtain ⟨f, rfl⟩ : ∃ g, f = g + 1 := ⟨f - 1, by simp [sz] at hf; omega⟩
    simp only [MP.wf, Bool.and_eq_true, decide_eq_true_eq] at hwf
    simp only [encodeMP, List.append_assoc]
    rw [decF_arrHead f _ _ hwf.1, decList_complete xs hwf.2 f rest (by simp [sz] at hf; omega)]
    rfl
  | .map kvs, hwf, f, rest, hf => by
    obtain ⟨f, rfl⟩ : ∃ g, f = g + 1 := ⟨f - 1, by simp [sz] at hf; omega⟩
    simp only [MP.wf, Bool.and_eq_true, decide_eq_true_eq] at hwf
    simp only [encodeMP, List.append_assoc]
    rw [decF_mapHead f _ _ hwf.1, decKVs_complete kvs hwf.2 f rest (by simp [sz] at hf; omega)]
    rfl
theorem decList_complete : ∀ (xs : List MP), MP.wfList xs = true → ∀ (f : Nat) (rest : Bytes),
    szList xs ≤ f → decList f xs.length (encodeList xs ++ rest) = some (xs, rest)
  | [], _, f, rest, _ => by cases f <;> simp [decList, encodeList]
  | x :: xs, hwf, f, rest, hf => by
    obtain ⟨f, rfl⟩ : ∃ g, f = g + 1 := ⟨f - 1, by simp [szList] at hf; omega⟩
    simp only [MP.wfList, Bool.and_eq_true] at hwf
    simp only [szList] at hf
    simp only [encodeList, List.length_cons, decList, List.append_assoc]
    rw [decF_complete x hwf.1 f _ (by omega)]
    simp only [Option.bind_some]
    rw [decList_complete xs hwf.2 f rest (by omega)]
    rfl
theorem decKVs_complete : ∀ (kvs : List (MP × MP)), MP.wfKVs kvs = true → ∀ (f : Nat) (rest : Bytes),
    szKVs kvs ≤ f → decKVs f kvs.length (encodeKVs kvs ++ rest) = some (kvs, rest)
  | [], _, f, rest, _ => by cases f <;> simp [decKVs, encodeKVs]
  | (k, v) :: r, hwf, f, rest, hf => by
    obtain ⟨f, rfl⟩ : ∃ g, f = g + 1 := ⟨f - 1, by simp [szKVs] at hf; omega⟩
    simp only [MP.wfKVs, Bool.and_eq_true] at hwf
    simp only [szKVs] at hf
    simp only [encodeKVs, List.length_cons, decKVs, List.append_assoc]
    rw [decF_complete k hwf.1 f _ (by omega)]
    simp only [Option.bind_some]
    rw [decF_complete v hwf.2.1 f _ (by omega)]
    simp only [Option.bind_some]
    rw [decKVs_complete r hwf.2.2 f rest (by omega)]
    rfl
end

theorem decodeMP_encodeMP (v : MP) (hwf : v.wf = true) (rest : Bytes) :
    decodeMP (encodeMP v ++ rest) = some (v, rest) := by
  unfold decodeMP
  apply decF_complete v hwf
  have := sz_le v
  simp only [List.length_append]
  omega

theorem encodeMP_inj (a b : MP) (ha : a.wf = true) (hb : b.wf = true)
    (h : encodeMP a = encodeMP b) : a = b := by
  have h1 := decodeMP_encodeMP a ha []
  have h2 := decodeMP_encodeMP b hb []
  rw [h, h2] at h1
  simpa using h1.symm

/-- prefix-freeness: no encoding is a proper prefix of another -/
theorem encodeMP_prefix_free (a b : MP) (ha : a.wf = true) (hb : b.wf = true) (r s : Bytes)
    (h : encodeMP a ++ r = encodeMP b ++ s) : a = b ∧ r = s := by
  have h1 := decodeMP_encodeMP a ha r
  have h2 := decodeMP_encodeMP b hb s
  rw [h, h2] at h1
  simp at h1
  exact ⟨h1.1.symm, h1.2.symm⟩

/-! ### every emitted number is a byte -/

theorem encInt_bytes (i : Int) (h1 : -(2 ^ 63) ≤ i) (h2 : i < 2 ^ 64) : ∀ b ∈ encInt i, b < 256 := by
  intro b hb
  unfold encInt at hb
  simp only [] at hb
  have hbe := beBytes_lt
  repeat' split at hb
  all_goals
    simp only [List.mem_cons, List.not_mem_nil, or_false] at hb
    first
      | (rcases hb with hb | hb
         · omega
         · exact hbe _ _ b hb)
      | omega

theorem head_bytes (n : Nat) :
    (∀ b ∈ strHead n, b < 256) ∧ (∀ b ∈ arrHead n, b < 256) ∧ (∀ b ∈ mapHead n, b < 256) := by
  have hbe := beBytes_lt
  refine ⟨?_, ?_, ?_⟩
  all_goals
    intro b hb
    first | unfold strHead at hb | unfold arrHead at hb | unfold mapHead at hb
    repeat' split at hb
    all_goals
      simp only [List.mem_cons, List.not_mem_nil, or_false] at hb
      first
        | (rcases hb with hb | hb
           · omega
           · exact hbe _ _ b hb)
        | omega

mutual
theorem encodeMP_bytes : ∀ v : MP, v.wf = true → v.bytesOk = true → ∀ b ∈ encodeMP v, b < 256
  | .nil, _, _ => by simp [encodeMP]
  | .bool false, _, _ => by simp [encodeMP]
  | .bool true, _, _ => by simp [encodeMP]
  | .int i, hwf, _ => by
    simp only [MP.wf, Bool.and_eq_true, decide_eq_true_eq] at hwf
    simpa [encodeMP] using encInt_bytes i hwf.1 hwf.2
  | .str s, _, hb => by
    intro b hm
    simp only [encodeMP, List.mem_append] at hm
    simp only [MP.bytesOk, List.all_eq_true, decide_eq_true_eq] at hb
    rcases hm with hm | hm
    · exact (head_bytes s.length).1 b hm
    · exact hb b hm
  | .arr xs, hwf, hb => by
    intro b hm
    simp only [MP.wf, Bool.and_eq_true, decide_eq_true_eq] at hwf
    simp only [MP.bytesOk] at hb
    simp only [encodeMP, List.mem_append] at hm
    rcases hm with hm | hm
    · exact (head_bytes xs.length).2.1 b hm
    · exact encodeList_bytes xs hwf.2 hb b hm
  | .map kvs, hwf, hb => by
    intro b hm
    simp only [MP.wf, Bool.and_eq_true, decide_eq_true_eq] at hwf
    simp only [MP.bytesOk] at hb
    simp only [encodeMP, List.mem_append] at hm
    rcases hm with hm | hm
    · exact (head_bytes kvs.length).2.2 b hm
    · exact encodeKVs_bytes kvs hwf.2 hb b hm
theorem encodeList_bytes : ∀ xs : List MP, MP.wfList xs = true → MP.bytesOkList xs = true →
    ∀ b ∈ encodeList xs, b < 256
  | [], _, _ => by simp [encodeList]
  | x :: xs, hwf, hb => by
    intro b hm
    simp only [MP.wfList, Bool.and_eq_true] at hwf
    simp only [MP.bytesOkList, Bool.and_eq_true] at hb
    simp only [encodeList, List.mem_append] at hm
    rcases hm with hm | hm
    · exact encodeMP_bytes x hwf.1 hb.1 b hm
    · exact encodeList_bytes xs hwf.2 hb.2 b hm
theorem encodeKVs_bytes : ∀ kvs : List (MP × MP), MP.wfKVs kvs = true → MP.bytesOkKVs kvs = true →
    ∀ b ∈ encodeKVs kvs, b < 256
  | [], _, _ => by simp [encodeKVs]
  | (k, v) :: r, hwf, hb => by
    intro b hm
    simp only [MP.wfKVs, Bool.and_eq_true] at hwf
    simp only [MP.bytesOkKVs, Bool.and_eq_true] at hb
    simp only [encodeKVs, List.mem_append] at hm
    rcases hm with hm | hm | hm
    · exact encodeMP_bytes k hwf.1 hb.1 b hm
    · exact encodeMP_bytes v hwf.2.1 hb.2.1 b hm
    · exact encodeKVs_bytes r hwf.2.2 hb.2.2 b hm
end

end PytypeModel.Pytd
