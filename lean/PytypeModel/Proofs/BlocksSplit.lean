import PytypeModel.Proofs.BlocksOpcodes

/-! Proofs about `splitBytecode` (blocks._split_bytecode incl. the SEND branch). -/
namespace PytypeModel.Blocks

theorem flat_append (a b : List Block) : flat (a ++ b) = flat a ++ flat b := by
  simp [flat, List.flatMap_append]

theorem flat_single (b : Block) : flat [b] = b.code := by simp [flat]

theorem flat_pair (a b : Block) : flat [a, b] = a.code ++ b.code := by simp [flat]

/-- the ops taken from the stream that are not in a finished block yet -/
def pending (st : SplitSt) : List Nat :=
  match st.mode with
  | .normal => st.code
  | .seek s => s :: st.code
  | .afterJ s => s :: st.code

theorem mkBlock_code (c : List Nat) : (mkBlock c).code = c := rfl
theorem mkBlock_id (c : List Nat) : (mkBlock c).id = c.headD 0 := rfl

def stSend (op : Op) (st : SplitSt) : SplitSt :=
  { st with mode := .seek op.idx, code := [],
            blocks := if st.code.isEmpty then st.blocks else st.blocks ++ [mkBlock st.code] }

def stClose (op : Op) (st : SplitSt) : SplitSt :=
  { st with code := [], blocks := st.blocks ++ [mkBlock (st.code ++ [op.idx])] }

def stCont (op : Op) (st : SplitSt) : SplitSt := { st with code := st.code ++ [op.idx] }

def stDone (send : Nat) (yv : List Nat) (pb : Block) (st : SplitSt) : SplitSt :=
  { mode := .normal, code := [], blocks := st.blocks ++ [mkBlock [send], mkBlock yv],
    edges := st.edges ++ [(pb.id, send), (send, yv.headD 0)] }

/-- the three outcomes of the ordinary loop body -/
theorem stepNormal_cases (cx : Ctx) (op : Op) (st : SplitSt) :
    ((cx.v312 && (info op.cls).isSend) = true ∧ stepNormal cx op st = stSend op st) ∨
    ((cx.v312 && (info op.cls).isSend) = false ∧ endsBlock cx op = true ∧ stepNormal cx op st = stClose op st) ∨
    ((cx.v312 && (info op.cls).isSend) = false ∧ endsBlock cx op = false ∧ stepNormal cx op st = stCont op st) := by
  unfold stepNormal stSend stClose stCont
  cases h1 : (cx.v312 && (info op.cls).isSend)
  · right
    cases h2 : endsBlock cx op
    · right; exact ⟨rfl, rfl, by simp⟩
    · left; exact ⟨rfl, rfl, by simp⟩
  · left; exact ⟨rfl, by simp⟩

theorem complete_ok {send : Nat} {yv : List Nat} {st st' : SplitSt} (h : complete send yv st = .ok st') :
    ∃ pb, st.blocks.getLast? = some pb ∧ st' = stDone send yv pb st := by
  unfold complete at h
  cases hl : st.blocks.getLast? with
  | none => simp [hl] at h
  | some pb => simp only [hl, Except.ok.injEq] at h; exact ⟨pb, rfl, h.symm⟩

/-! ### partition -/

structure GoodBlocks (st : SplitSt) : Prop where
  nonempty : ∀ b ∈ st.blocks, b.code ≠ [] ∧ b.id = b.code.headD 0
  afterJ : ∀ s, st.mode = .afterJ s → st.code ≠ []

theorem good_stepNormal (cx : Ctx) (op : Op) {st : SplitSt} (hg : ∀ b ∈ st.blocks, b.code ≠ [] ∧ b.id = b.code.headD 0)
    (hm : st.mode = .normal) :
    GoodBlocks (stepNormal cx op st) ∧
      flat (stepNormal cx op st).blocks ++ pending (stepNormal cx op st) =
        flat st.blocks ++ st.code ++ [op.idx] := by
  rcases stepNormal_cases cx op st with ⟨h0, h⟩ | ⟨h0, h00, h⟩ | ⟨h0, h00, h⟩
  · rw [h]; unfold stSend
    constructor
    · refine ⟨?_, by intro s hs; simp at hs⟩
      intro b hb
      simp only at hb
      by_cases he : st.code.isEmpty = true
      · simp only [he, if_true] at hb; exact hg b hb
      · simp only [he] at hb
        rcases List.mem_append.1 hb with hb | hb
        · exact hg b hb
        · simp at hb; subst hb
          exact ⟨by simpa [mkBlock_code] using he, rfl⟩
    · simp only [pending]
      by_cases he : st.code.isEmpty = true
      · have : st.code = [] := by simpa using he
        simp [he, this]
      · simp [he, flat_append, flat_single, mkBlock_code]
  · rw [h]; unfold stClose
    constructor
    · refine ⟨?_, by intro s hs; simp [hm] at hs⟩
      intro b hb
      simp only at hb
      rcases List.mem_append.1 hb with hb | hb
      · exact hg b hb
      · simp at hb; subst hb
        exact ⟨by simp [mkBlock_code], rfl⟩
    · simp [pending, hm, flat_append, flat_single, mkBlock_code]
  · rw [h]; unfold stCont
    constructor
    · exact ⟨hg, by intro s hs; simp [hm] at hs⟩
    · simp [pending, hm]

/-- one step keeps the blocks good and appends exactly the op to blocks ++ pending -/
theorem stepOp_partition (cx : Ctx) {st st' : SplitSt} {op : Op} (hg : GoodBlocks st)
    (h : stepOp cx st op = .ok st') :
    GoodBlocks st' ∧ flat st'.blocks ++ pending st' = flat st.blocks ++ pending st ++ [op.idx] := by
  unfold stepOp at h
  cases hm : st.mode with
  | normal =>
    simp only [hm, Except.ok.injEq] at h
    subst h
    have := good_stepNormal cx op hg.nonempty hm
    refine ⟨this.1, ?_⟩
    rw [this.2]; simp [pending, hm]
  | seek s =>
    simp only [hm, Except.ok.injEq] at h
    subst h
    constructor
    · refine ⟨hg.nonempty, ?_⟩
      intro s' _
      simp
    · by_cases hj : (info op.cls).isJbni = true <;> simp [pending, hm, hj]
  | afterJ s =>
    simp only [hm] at h
    by_cases hc : (info op.cls).isCleanupThrow = true
    · simp only [hc, if_true] at h
      obtain ⟨pb, _, rfl⟩ := complete_ok h
      unfold stDone
      constructor
      · refine ⟨?_, by intro s' hs; simp at hs⟩
        intro b hb
        simp only at hb
        rcases List.mem_append.1 hb with hb | hb
        · exact hg.nonempty b hb
        · simp at hb
          rcases hb with rfl | rfl
          · exact ⟨by simp [mkBlock_code], rfl⟩
          · exact ⟨by simp [mkBlock_code], rfl⟩
      · simp [pending, hm, flat_append, flat_pair, mkBlock_code]
    · simp only [hc] at h
      cases hcomp : complete s st.code st with
      | error e => simp [hcomp] at h
      | ok st1 =>
        simp only [hcomp, Bool.false_eq_true, if_false, Except.ok.injEq] at h
        subst h
        obtain ⟨pb, _, rfl⟩ := complete_ok hcomp
        have hne := hg.afterJ s hm
        have hg1 : ∀ b ∈ (stDone s st.code pb st).blocks, b.code ≠ [] ∧ b.id = b.code.headD 0 := by
          intro b hb
          unfold stDone at hb
          simp only at hb
          rcases List.mem_append.1 hb with hb | hb
          · exact hg.nonempty b hb
          · simp at hb
            rcases hb with rfl | rfl
            · exact ⟨by simp [mkBlock_code], rfl⟩
            · exact ⟨by simpa [mkBlock_code] using hne, rfl⟩
        have := good_stepNormal cx op (st := stDone s st.code pb st) hg1 rfl
        refine ⟨this.1, ?_⟩
        rw [this.2]
        simp [stDone, pending, hm, flat_append, flat_pair, mkBlock_code]

theorem splitRun_partition (cx : Ctx) : ∀ (ops : List Op) (st st' : SplitSt), GoodBlocks st →
    splitRun cx st ops = .ok st' →
    GoodBlocks st' ∧ flat st'.blocks ++ pending st' = flat st.blocks ++ pending st ++ ops.map (·.idx)
  | [], st, st', hg, h => by
    simp [splitRun] at h; subst h; exact ⟨hg, by simp⟩
  | op :: rest, st, st', hg, h => by
    unfold splitRun at h
    cases h1 : stepOp cx st op with
    | error e => simp [h1] at h
    | ok st1 =>
      simp only [h1] at h
      obtain ⟨g1, e1⟩ := stepOp_partition cx hg h1
      obtain ⟨g2, e2⟩ := splitRun_partition cx rest st1 st' g1 h
      refine ⟨g2, ?_⟩
      rw [e2, e1]; simp

/-! ### a block still open in normal mode was not closed by the previous op -/

/-- `prev` = the op processed last -/
def NoOpen (cx : Ctx) (st : SplitSt) (prev : Option Op) : Prop :=
  st.mode = .normal → st.code ≠ [] → ∃ p, prev = some p ∧ endsBlock cx p = false ∧ st.code.getLast? = some p.idx

theorem noOpen_stepNormal (cx : Ctx) (op : Op) (st : SplitSt) : NoOpen cx (stepNormal cx op st) (some op) := by
  intro hm hc
  rcases stepNormal_cases cx op st with ⟨h0, h⟩ | ⟨h0, h00, h⟩ | ⟨h0, he, h⟩
  · rw [h] at hm; simp [stSend] at hm
  · rw [h] at hc; simp [stClose] at hc
  · rw [h]; exact ⟨op, rfl, he, by simp [stCont]⟩

theorem noOpen_stepOp (cx : Ctx) {st st' : SplitSt} {op : Op} (h : stepOp cx st op = .ok st') :
    NoOpen cx st' (some op) := by
  unfold stepOp at h
  cases hm : st.mode with
  | normal =>
    simp only [hm, Except.ok.injEq] at h; subst h; exact noOpen_stepNormal cx op st
  | seek s =>
    simp only [hm, Except.ok.injEq] at h; subst h
    intro hm'; by_cases hj : (info op.cls).isJbni = true <;> simp [hj] at hm'
  | afterJ s =>
    simp only [hm] at h
    by_cases hc : (info op.cls).isCleanupThrow = true
    · simp only [hc, if_true] at h
      obtain ⟨pb, _, rfl⟩ := complete_ok h
      intro _ hc'; simp [stDone] at hc'
    · simp only [hc] at h
      cases hcomp : complete s st.code st with
      | error e => simp [hcomp] at h
      | ok st1 =>
        simp only [hcomp, Bool.false_eq_true, if_false, Except.ok.injEq] at h
        subst h; exact noOpen_stepNormal cx op st1

/-- the state after the whole run, and the last op processed -/
theorem splitRun_noOpen (cx : Ctx) : ∀ (ops : List Op) (st st' : SplitSt) (prev : Option Op),
    NoOpen cx st prev → splitRun cx st ops = .ok st' →
    NoOpen cx st' (match ops.getLast? with | some l => some l | none => prev)
  | [], st, st', prev, hn, h => by simp [splitRun] at h; subst h; simpa using hn
  | op :: rest, st, st', prev, hn, h => by
    unfold splitRun at h
    cases h1 : stepOp cx st op with
    | error e => simp [h1] at h
    | ok st1 =>
      simp only [h1] at h
      have := splitRun_noOpen cx rest st1 st' (some op) (noOpen_stepOp cx h1) h
      cases rest with
      | nil => simpa using this
      | cons b l =>
        rw [List.getLast?_cons_cons]
        cases hr : (b :: l).getLast? with
        | none => simp at hr
        | some x => rw [hr] at this; exact this

/-! ### the whole splitter: partition -/

theorem endsBlock_of_next_none (cx : Ctx) (op : Op) (h : op.next = none) : endsBlock cx op = true := by
  unfold endsBlock; simp [h]

theorem goodBlocks_init : GoodBlocks ({} : SplitSt) :=
  ⟨by intro b hb; simp at hb, by intro s hs; simp at hs⟩

theorem splitBytecode_partition {ver : Nat} {ops : List Op} {blocks : List Block} {edges : List (Nat × Nat)}
    (hlast : ∀ l, ops.getLast? = some l → l.next = none)
    (h : splitBytecode ver ops = .ok (blocks, edges)) :
    (∀ b ∈ blocks, b.code ≠ [] ∧ b.id = b.code.headD 0) ∧ flat blocks = ops.map (·.idx) := by
  unfold splitBytecode at h
  cases hr : splitRun (mkCtx ver ops) {} ops with
  | error e => simp [hr] at h
  | ok st =>
    simp only [hr] at h
    unfold splitFinish at h
    cases hm : st.mode with
    | seek s => simp [hm] at h
    | afterJ s => simp [hm] at h
    | normal =>
      simp only [hm, Except.ok.injEq, Prod.mk.injEq] at h
      obtain ⟨rfl, rfl⟩ := h
      obtain ⟨hg, hp⟩ := splitRun_partition _ ops {} st goodBlocks_init hr
      have hno := splitRun_noOpen (mkCtx ver ops) ops {} st none (by intro _ hc; simp at hc) hr
      have hcode : st.code = [] := by
        by_cases hc : st.code = []
        · exact hc
        · obtain ⟨p, hp1, hp2, _⟩ := hno hm hc
          cases hl : ops.getLast? with
          | none => simp [hl] at hp1
          | some l =>
            simp only [hl, Option.some.injEq] at hp1
            subst hp1
            have := endsBlock_of_next_none (mkCtx ver ops) l (hlast l hl)
            rw [this] at hp2; simp at hp2
      refine ⟨hg.nonempty, ?_⟩
      simpa [pending, hm, hcode, flat] using hp

theorem map_idx_of_wf : ∀ (l : List Op) (k : Nat) (p : Option Nat), opsWFFrom k p l = true →
    l.map (·.idx) = List.range' k l.length
  | [], _, _, _ => by simp
  | a :: l, k, p, hw => by
    unfold opsWFFrom at hw
    simp only [Bool.and_eq_true, beq_iff_eq] at hw
    obtain ⟨⟨⟨w1, _⟩, _⟩, w4⟩ := hw
    simp [List.range'_succ, w1, map_idx_of_wf l (k + 1) (some k) w4]

theorem last_next_none_of_wf : ∀ (l : List Op) (k : Nat) (p : Option Nat), opsWFFrom k p l = true →
    ∀ x, l.getLast? = some x → x.next = none
  | [], _, _, _, x, h => by simp at h
  | [a], k, p, hw, x, h => by
    unfold opsWFFrom at hw
    simp only [Bool.and_eq_true, beq_iff_eq, List.isEmpty_nil, if_true] at hw
    simp at h; subst h; exact hw.1.2
  | a :: b :: l, k, p, hw, x, h => by
    unfold opsWFFrom at hw
    simp only [Bool.and_eq_true] at hw
    rw [List.getLast?_cons_cons] at h
    exact last_next_none_of_wf (b :: l) (k + 1) (some k) hw.2 x h

/-! ### jump targets start blocks -/

def Starts (st : SplitSt) (t : Nat) : Prop :=
  (∃ b ∈ st.blocks, b.code.head? = some t) ∨
    match st.mode with
    | .normal => st.code.head? = some t
    | .seek s => t = s ∨ st.code.head? = some t
    | .afterJ s => t = s ∨ st.code.head? = some t

def scanOf (st : SplitSt) : ScanMode :=
  match st.mode with
  | .normal => .outside
  | .seek _ => if st.code.isEmpty then .first else .inside
  | .afterJ _ => .afterJ

theorem sendInteriorFrom_cons (v312 : Bool) (m : ScanMode) (op : Op) (rest : List Op) :
    sendInteriorFrom v312 m (op :: rest) =
      (if isInterior m op then [op.idx] else []) ++ sendInteriorFrom v312 (nextScan v312 m op) rest := by
  rw [sendInteriorFrom]

theorem scanOf_stepNormal (cx : Ctx) (op : Op) (st : SplitSt) (hm : st.mode = .normal) :
    scanOf (stepNormal cx op st) = if cx.v312 && (info op.cls).isSend then .first else .outside := by
  rcases stepNormal_cases cx op st with ⟨h0, h⟩ | ⟨h0, _, h⟩ | ⟨h0, _, h⟩
  · rw [h, h0]; simp [scanOf, stSend]
  · rw [h, h0]; simp [scanOf, stClose, hm]
  · rw [h, h0]; simp [scanOf, stCont, hm]

theorem scan_step (cx : Ctx) {st st' : SplitSt} {op : Op} (h : stepOp cx st op = .ok st') :
    scanOf st' = nextScan cx.v312 (scanOf st) op := by
  unfold stepOp at h
  cases hm : st.mode with
  | normal =>
    simp only [hm, Except.ok.injEq] at h; subst h
    rw [scanOf_stepNormal cx op st hm]; simp [scanOf, hm, nextScan]
  | seek s =>
    simp only [hm, Except.ok.injEq] at h; subst h
    by_cases hj : (info op.cls).isJbni = true
    · by_cases he : st.code.isEmpty = true <;> simp [scanOf, hm, hj, he, nextScan]
    · by_cases he : st.code.isEmpty = true <;> simp [scanOf, hm, hj, he, nextScan]
  | afterJ s =>
    simp only [hm] at h
    by_cases hc : (info op.cls).isCleanupThrow = true
    · simp only [hc, if_true] at h
      obtain ⟨pb, _, rfl⟩ := complete_ok h
      simp [scanOf, hm, hc, nextScan, stDone]
    · simp only [hc] at h
      cases hcomp : complete s st.code st with
      | error e => simp [hcomp] at h
      | ok st1 =>
        simp only [hcomp, Bool.false_eq_true, if_false, Except.ok.injEq] at h
        subst h
        obtain ⟨pb, _, rfl⟩ := complete_ok hcomp
        rw [scanOf_stepNormal cx op _ rfl]
        simp [scanOf, hm, hc, nextScan]

theorem head?_append_of_head? {l : List Nat} {t : Nat} (h : l.head? = some t) (m : List Nat) :
    (l ++ m).head? = some t := by
  cases l with
  | nil => simp at h
  | cons a l => simpa using h

theorem starts_stepNormal (cx : Ctx) (op : Op) {st : SplitSt} {t : Nat} (hm : st.mode = .normal)
    (h : Starts st t) : Starts (stepNormal cx op st) t := by
  rcases h with ⟨b, hb, hh⟩ | h
  · left
    refine ⟨b, ?_, hh⟩
    rcases stepNormal_cases cx op st with ⟨_, h⟩ | ⟨_, _, h⟩ | ⟨_, _, h⟩ <;> rw [h]
    · unfold stSend; simp only; split
      · exact hb
      · exact List.mem_append_left _ hb
    · exact List.mem_append_left _ hb
    · exact hb
  · simp only [hm] at h
    rcases stepNormal_cases cx op st with ⟨_, h'⟩ | ⟨_, _, h'⟩ | ⟨_, _, h'⟩ <;> rw [h']
    · left
      have hne : st.code.isEmpty = false := by
        cases hc : st.code with
        | nil => simp [hc] at h
        | cons a l => simp
      exact ⟨mkBlock st.code, by simp [stSend, hne], by simpa [mkBlock_code] using h⟩
    · left
      exact ⟨mkBlock (st.code ++ [op.idx]), by simp [stClose], by
        simpa [mkBlock_code] using head?_append_of_head? h [op.idx]⟩
    · right
      simp only [stCont, hm]
      exact head?_append_of_head? h [op.idx]

theorem starts_stDone {st : SplitSt} {s : Nat} {yv : List Nat} {pb : Block} {t : Nat}
    (h : (∃ b ∈ st.blocks, b.code.head? = some t) ∨ t = s ∨ yv.head? = some t) :
    Starts (stDone s yv pb st) t := by
  left
  rcases h with ⟨b, hb, hh⟩ | rfl | h
  · exact ⟨b, by simp [stDone, hb], hh⟩
  · exact ⟨mkBlock [t], by simp [stDone], by simp [mkBlock_code]⟩
  · exact ⟨mkBlock yv, by simp [stDone], by simpa [mkBlock_code] using h⟩

/-- a start stays a start -/
theorem starts_mono (cx : Ctx) {st st' : SplitSt} {op : Op} {t : Nat} (h : stepOp cx st op = .ok st')
    (hs : Starts st t) : Starts st' t := by
  unfold stepOp at h
  cases hm : st.mode with
  | normal =>
    simp only [hm, Except.ok.injEq] at h; subst h
    exact starts_stepNormal cx op hm hs
  | seek s =>
    simp only [hm, Except.ok.injEq] at h; subst h
    rcases hs with hs | hs
    · exact Or.inl hs
    · right
      simp only [hm] at hs
      have : t = s ∨ (st.code ++ [op.idx]).head? = some t := by
        rcases hs with hs | hs
        · exact Or.inl hs
        · exact Or.inr (head?_append_of_head? hs _)
      cases hj : (info op.cls).isJbni
      · exact this
      · exact this
  | afterJ s =>
    simp only [hm] at h
    have hs' : (∃ b ∈ st.blocks, b.code.head? = some t) ∨ t = s ∨ st.code.head? = some t := by
      rcases hs with hs | hs
      · exact Or.inl hs
      · simp only [hm] at hs; exact Or.inr hs
    by_cases hc : (info op.cls).isCleanupThrow = true
    · simp only [hc, if_true] at h
      obtain ⟨pb, _, rfl⟩ := complete_ok h
      apply starts_stDone
      rcases hs' with h1 | h1 | h1
      · exact Or.inl h1
      · exact Or.inr (Or.inl h1)
      · exact Or.inr (Or.inr (head?_append_of_head? h1 _))
    · simp only [hc] at h
      cases hcomp : complete s st.code st with
      | error e => simp [hcomp] at h
      | ok st1 =>
        simp only [hcomp, Bool.false_eq_true, if_false, Except.ok.injEq] at h
        subst h
        obtain ⟨pb, _, rfl⟩ := complete_ok hcomp
        exact starts_stepNormal cx op rfl (starts_stDone hs')

theorem splitRun_starts_mono (cx : Ctx) : ∀ (ops : List Op) (st st' : SplitSt) (t : Nat),
    splitRun cx st ops = .ok st' → Starts st t → Starts st' t
  | [], st, st', t, h, hs => by simp [splitRun] at h; subst h; exact hs
  | op :: rest, st, st', t, h, hs => by
    unfold splitRun at h
    cases h1 : stepOp cx st op with
    | error e => simp [h1] at h
    | ok st1 =>
      simp only [h1] at h
      exact splitRun_starts_mono cx rest st1 st' t h (starts_mono cx h1 hs)

theorem starts_new_stepNormal (cx : Ctx) (op : Op) {st : SplitSt}
    (h : st.code ≠ [] → (cx.v312 && (info op.cls).isSend) = true) :
    Starts (stepNormal cx op st) op.idx := by
  rcases stepNormal_cases cx op st with ⟨_, h'⟩ | ⟨h0, _, h'⟩ | ⟨h0, _, h'⟩ <;> rw [h']
  · right; simp [stSend]
  · have hc : st.code = [] := by
      by_cases hc : st.code = []
      · exact hc
      · rw [h hc] at h0; simp at h0
    left
    exact ⟨mkBlock (st.code ++ [op.idx]), by simp [stClose], by simp [mkBlock_code, hc]⟩
  · have hc : st.code = [] := by
      by_cases hc : st.code = []
      · exact hc
      · rw [h hc] at h0; simp at h0
    right
    cases hm : st.mode <;> simp [stCont, hm, hc]

/-- the op just processed starts a block unless it is interior, or the previous op left the block open -/
theorem starts_new (cx : Ctx) {st st' : SplitSt} {op : Op} (h : stepOp cx st op = .ok st')
    (hint : isInterior (scanOf st) op = false)
    (hopen : st.mode = .normal → st.code ≠ [] → (cx.v312 && (info op.cls).isSend) = true) :
    Starts st' op.idx := by
  unfold stepOp at h
  cases hm : st.mode with
  | normal =>
    simp only [hm, Except.ok.injEq] at h; subst h
    exact starts_new_stepNormal cx op (hopen hm)
  | seek s =>
    simp only [hm, Except.ok.injEq] at h; subst h
    have he : st.code = [] := by
      by_cases he : st.code = []
      · exact he
      · have : st.code.isEmpty = false := by simpa using he
        simp [scanOf, hm, this, isInterior] at hint
    right
    have : op.idx = s ∨ (st.code ++ [op.idx]).head? = some op.idx := Or.inr (by simp [he])
    cases hj : (info op.cls).isJbni
    · exact this
    · exact this
  | afterJ s =>
    simp only [hm] at h
    have hc : (info op.cls).isCleanupThrow = false := by simpa [scanOf, hm, isInterior] using hint
    simp only [hc, Bool.false_eq_true, if_false] at h
    cases hcomp : complete s st.code st with
    | error e => simp [hcomp] at h
    | ok st1 =>
      simp only [hcomp, Except.ok.injEq] at h
      subst h
      obtain ⟨pb, _, rfl⟩ := complete_ok hcomp
      exact starts_new_stepNormal cx op (by intro hne; simp [stDone] at hne)

/-- consecutive ops are linked by `next` -/
def Chain : Option Op → List Op → Prop
  | _, [] => True
  | prev, x :: rest => (∀ p, prev = some p → p.next = some x.idx) ∧ Chain (some x) rest

/-- `t` must start a block according to the closing condition of `_split_bytecode` -/
def Needed (cx : Ctx) (t : Nat) : Prop :=
  cx.targets.contains t = true ∧ ((info (clsAt cx.ops t)).isGetAnext = false ∨ cx.v312 = false)

theorem not_needed_of_open {cx : Ctx} {p : Op} {t : Nat} (he : endsBlock cx p = false) (hn : p.next = some t) :
    ¬ Needed cx t := by
  unfold endsBlock at he
  simp only [hn, Bool.or_eq_false_iff, Bool.and_eq_false_imp] at he
  intro ⟨h1, h2⟩
  have := he.2 h1
  rcases h2 with h2 | h2 <;> simp [h2] at this

theorem splitRun_starts (cx : Ctx) : ∀ (ops : List Op) (st st' : SplitSt) (prev : Option Op),
    NoOpen cx st prev → Chain prev ops → splitRun cx st ops = .ok st' →
    ∀ x ∈ ops, Needed cx x.idx → x.idx ∉ sendInteriorFrom cx.v312 (scanOf st) ops → Starts st' x.idx
  | [], _, _, _, _, _, _, x, hx, _, _ => by simp at hx
  | op :: rest, st, st', prev, hno, hch, h, x, hx, hneed, hnot => by
    unfold splitRun at h
    cases h1 : stepOp cx st op with
    | error e => simp [h1] at h
    | ok st1 =>
      simp only [h1] at h
      rw [sendInteriorFrom_cons] at hnot
      rcases List.mem_cons.1 hx with rfl | hx
      · -- the op itself
        have hint : isInterior (scanOf st) x = false := by
          cases hi : isInterior (scanOf st) x with
          | false => rfl
          | true => simp [hi] at hnot
        refine splitRun_starts_mono cx rest st1 st' x.idx h (starts_new cx h1 hint ?_)
        intro hm hc
        obtain ⟨p, hp, he, _⟩ := hno hm hc
        exact absurd hneed (not_needed_of_open he (hch.1 p hp))
      · refine splitRun_starts cx rest st1 st' (some op) (noOpen_stepOp cx h1) hch.2 h x hx hneed ?_
        rw [scan_step cx h1]
        intro hmem
        exact hnot (List.mem_append_right _ hmem)

theorem chain_of_wf : ∀ (l : List Op) (k : Nat) (p : Option Nat) (prev : Option Op), opsWFFrom k p l = true →
    (∀ q, prev = some q → q.next = some k) → Chain prev l
  | [], _, _, _, _, _ => trivial
  | a :: l, k, p, prev, hw, hprev => by
    unfold opsWFFrom at hw
    simp only [Bool.and_eq_true, beq_iff_eq] at hw
    obtain ⟨⟨⟨w1, _⟩, w3⟩, w4⟩ := hw
    refine ⟨fun q hq => by rw [w1]; exact hprev q hq, ?_⟩
    cases l with
    | nil => trivial
    | cons b l' =>
      refine chain_of_wf (b :: l') (k + 1) (some k) (some a) w4 ?_
      intro q hq
      simp at hq; subst hq
      simpa using w3

/-- `_split_bytecode`: every op that must start a block (a jump target that is not a 3.12 `GET_ANEXT`)
and does not lie strictly inside a `yield_value_block` is the first op of some block -/
theorem splitBytecode_starts {ver : Nat} {ops : List Op} {blocks : List Block} {edges : List (Nat × Nat)}
    (hwf : opsWFFrom 0 none ops = true)
    (h : splitBytecode ver ops = .ok (blocks, edges)) :
    ∀ x ∈ ops, Needed (mkCtx ver ops) x.idx → x.idx ∉ sendInterior ver ops →
      ∃ b ∈ blocks, b.code.head? = some x.idx := by
  intro x hx hneed hnot
  have hpart := splitBytecode_partition (last_next_none_of_wf ops 0 none hwf) h
  unfold splitBytecode at h
  cases hr : splitRun (mkCtx ver ops) {} ops with
  | error e => simp [hr] at h
  | ok st =>
    simp only [hr] at h
    unfold splitFinish at h
    cases hm : st.mode with
    | seek s => simp [hm] at h
    | afterJ s => simp [hm] at h
    | normal =>
      simp only [hm, Except.ok.injEq, Prod.mk.injEq] at h
      obtain ⟨rfl, rfl⟩ := h
      have hs := splitRun_starts (mkCtx ver ops) ops {} st none (by intro _ hc; simp at hc)
        (chain_of_wf ops 0 none none hwf (by intro q hq; simp at hq)) hr x hx hneed
        (by simpa [sendInterior, scanOf, mkCtx] using hnot)
      rcases hs with hs | hs
      · exact hs
      · -- the run ended in normal mode with no open block
        obtain ⟨hg, hp⟩ := splitRun_partition _ ops {} st goodBlocks_init hr
        have hflat : flat st.blocks = ops.map (·.idx) := hpart.2
        have hcode : st.code = [] := by
          have hp' : flat st.blocks ++ st.code = ops.map (·.idx) := by
            have h0 : flat ({} : SplitSt).blocks ++ pending ({} : SplitSt) = [] := by simp [flat, pending]
            rw [h0] at hp
            simpa [pending, hm] using hp
          rw [hflat] at hp'
          exact List.append_right_eq_self.1 hp'
        simp [hm, hcode] at hs

end PytypeModel.Blocks

namespace PytypeModel.Blocks

/-! ### glue: statements about ops instead of indices; streams without `SEND` -/

theorem getElem?_idx_of_wf {ops : List Op} (hwf : opsWFFrom 0 none ops = true) {x : Op} (hx : x ∈ ops) :
    ops[x.idx]? = some x := by
  obtain ⟨j, hj⟩ := List.getElem?_of_mem hx
  have := opsWFFrom_getElem ops 0 none hwf j x hj
  have hji : x.idx = j := by omega
  rw [hji]; exact hj

theorem clsAt_of_wf {ops : List Op} (hwf : opsWFFrom 0 none ops = true) {x : Op} (hx : x ∈ ops) :
    clsAt ops.toArray x.idx = x.cls := by
  unfold clsAt
  have := getElem?_idx_of_wf hwf hx
  simp [Array.getD, List.getElem?_eq_some_iff.1 this |>.1]
  have h2 := (List.getElem?_eq_some_iff.1 this).2
  rw [h2]

theorem needed_of_target {ver : Nat} {ops : List Op} (hwf : opsWFFrom 0 none ops = true) {x : Op} (hx : x ∈ ops)
    (ht : x.idx ∈ targetsOf ops) (hga : ¬ (ver ≥ 12 ∧ (info x.cls).isGetAnext = true)) :
    Needed (mkCtx ver ops) x.idx := by
  unfold Needed mkCtx
  simp only [List.contains_eq_mem, decide_eq_true_eq, clsAt_of_wf hwf hx, decide_eq_false_iff_not]
  refine ⟨ht, ?_⟩
  by_cases hv : ver ≥ 12
  · left
    cases hg : (info x.cls).isGetAnext with
    | false => rfl
    | true => exact absurd ⟨hv, hg⟩ hga
  · right; exact hv

theorem sendInteriorFrom_outside_nil (v312 : Bool) : ∀ (ops : List Op),
    (∀ op ∈ ops, (v312 && (info op.cls).isSend) = false) → sendInteriorFrom v312 .outside ops = []
  | [], _ => by simp [sendInteriorFrom]
  | op :: rest, h => by
    rw [sendInteriorFrom_cons]
    have h1 := h op (by simp)
    simp only [isInterior, nextScan, h1, Bool.false_eq_true, if_false, List.nil_append]
    exact sendInteriorFrom_outside_nil v312 rest (fun o ho => h o (List.mem_cons_of_mem _ ho))

theorem splitRun_normal_ok (cx : Ctx) : ∀ (ops : List Op) (st : SplitSt), st.mode = .normal →
    (∀ op ∈ ops, (cx.v312 && (info op.cls).isSend) = false) →
    ∃ st', splitRun cx st ops = .ok st' ∧ st'.mode = .normal
  | [], st, hm, _ => ⟨st, rfl, hm⟩
  | op :: rest, st, hm, h => by
    unfold splitRun stepOp
    simp only [hm]
    have h1 := h op (by simp)
    have hm' : (stepNormal cx op st).mode = .normal := by
      rcases stepNormal_cases cx op st with ⟨h0, _⟩ | ⟨_, _, h'⟩ | ⟨_, _, h'⟩
      · rw [h1] at h0; simp at h0
      · rw [h']; simp [stClose, hm]
      · rw [h']; simp [stCont, hm]
    exact splitRun_normal_ok cx rest _ hm' (fun o ho => h o (List.mem_cons_of_mem _ ho))

/-- without `SEND` (or before 3.12) `_split_bytecode` raises nothing -/
theorem splitBytecode_ok_of_no_send {ver : Nat} {ops : List Op}
    (h : ∀ op ∈ ops, (decide (ver ≥ 12) && (info op.cls).isSend) = false) :
    ∃ r, splitBytecode ver ops = .ok r := by
  obtain ⟨st, hst, hm⟩ := splitRun_normal_ok (mkCtx ver ops) ops {} rfl h
  unfold splitBytecode splitFinish
  simp only [hst, hm]
  exact ⟨_, rfl⟩

end PytypeModel.Blocks
