import PytypeModel.Pytd.EqHash
import PytypeModel.Proofs.CodecNode

/-! # `==` on pytd nodes is a partial equivalence, and equal nodes hash equally -/
namespace PytypeModel.Pytd

/-! ### induction that also reaches the elements of tuple-valued fields -/

theorem Val.ind2 {P : Val → Prop}
    (hnone : P .none) (hbool : ∀ b, P (.bool b)) (hint : ∀ i, P (.int i)) (hstr : ∀ s, P (.str s))
    (htup : ∀ xs, (∀ x ∈ xs, P x) → P (.tup xs)) (hdict : P .dict0)
    (hnode : ∀ n args, (∀ x ∈ args, P x) → (∀ xs, Val.tup xs ∈ args → ∀ x ∈ xs, P x) → P (.node n args)) :
    ∀ v, P v := by
  have key : ∀ v, P v ∧ (∀ xs, v = .tup xs → ∀ x ∈ xs, P x) := by
    intro v
    induction v using Val.ind with
    | hnone => exact ⟨hnone, fun _ h => by cases h⟩
    | hbool b => exact ⟨hbool b, fun _ h => by cases h⟩
    | hint i => exact ⟨hint i, fun _ h => by cases h⟩
    | hstr s => exact ⟨hstr s, fun _ h => by cases h⟩
    | hdict => exact ⟨hdict, fun _ h => by cases h⟩
    | htup xs ih =>
      refine ⟨htup xs (fun x hx => (ih x hx).1), ?_⟩
      intro ys h x hx
      cases h
      exact (ih x hx).1
    | hnode n args ih =>
      refine ⟨hnode n args (fun x hx => (ih x hx).1) ?_, fun _ h => by cases h⟩
      intro xs hm x hx
      exact (ih _ hm).2 xs rfl x hx
  exact fun v => (key v).1

/-! ### unfolding equations (stated explicitly: the auto-generated ones for structural recursion over
the nested inductive are not usable by `simp`) -/

section equations
variable (σ : Schema)

theorem veq_none (b : Val) : veq σ .none b = (match b with | .none => true | _ => false) := by
  cases b <;> rw [veq.eq_def]

theorem veq_bool (x : Bool) (b : Val) : veq σ (.bool x) b =
    (match b with | .bool y => x == y | .int i => boolInt x == i | _ => false) := by
  cases b <;> rw [veq.eq_def]

theorem veq_int (x : Int) (b : Val) : veq σ (.int x) b =
    (match b with | .bool y => x == boolInt y | .int i => x == i | _ => false) := by
  cases b <;> rw [veq.eq_def]

theorem veq_str (x : Bytes) (b : Val) : veq σ (.str x) b =
    (match b with | .str y => x == y | _ => false) := by
  cases b <;> rw [veq.eq_def]

theorem veq_dict (b : Val) : veq σ .dict0 b = (match b with | .dict0 => true | _ => false) := by
  cases b <;> rw [veq.eq_def]

theorem veq_tup (xs : List Val) (b : Val) : veq σ (.tup xs) b =
    (match b with | .tup ys => veqList σ xs ys | _ => false) := by
  cases b <;> rw [veq.eq_def]

theorem veq_node_node (s t : Bytes) (as bs : List Val) : veq σ (.node s as) (.node t bs) =
    (s == t && (match eqModeOf σ s with
        | .fields idx _ => veqIdx σ idx 0 as bs
        | .setlike => (match as, bs with
          | [.tup xs], [.tup ys] => subL σ xs ys && ys.all (anyL σ xs)
          | _, _ => false)
        | .identity => false
        | .unknown => false)) := by
  rw [veq.eq_def]; rfl

theorem veq_node_nonnode (s : Bytes) (as : List Val) (b : Val) (h : veq σ (.node s as) b = true) :
    ∃ t bs, b = .node t bs := by
  cases b <;> first | exact ⟨_, _, rfl⟩ | (rw [veq.eq_def] at h; simp at h)

theorem vhash_node {α : Type} (H : HashFns α) (s : Bytes) (as : List Val) : vhash H σ (.node s as) =
    (match eqModeOf σ s with
    | .fields _ hidx => H.hNode s (vhashIdx H σ hidx 0 as)
    | .setlike => (match as with
      | [.tup xs] =>
        H.hSet ((dedupBy (fun p q => veq σ p.1 q.1) (xs.zip (vhashList H σ xs))).map (·.2))
      | _ => H.hNode s [])
    | _ => H.hNode s []) := by
  rw [vhash.eq_def]; rfl

theorem eqOK_node (s : Bytes) (as : List Val) : eqOK σ (.node s as) =
    ((match eqModeOf σ s with
      | .fields _ _ => true
      | .setlike => (match as with
        | [.tup _] => true
        | _ => false)
      | _ => false) && eqOKList σ as) := by
  rw [eqOK.eq_def]; rfl

theorem eqOK_tup (xs : List Val) : eqOK σ (.tup xs) = eqOKList σ xs := by
  rw [eqOK.eq_def]

end equations

/-! ### list-level characterisations -/

theorem anyL_iff (σ : Schema) (y : Val) : ∀ xs : List Val,
    anyL σ xs y = true ↔ ∃ x ∈ xs, veq σ x y = true := by
  intro xs
  induction xs with
  | nil => simp [anyL]
  | cons x xs ih => simp [anyL, ih]

theorem subL_iff (σ : Schema) (ys : List Val) : ∀ xs : List Val,
    subL σ xs ys = true ↔ ∀ x ∈ xs, ∃ y ∈ ys, veq σ x y = true := by
  intro xs
  induction xs with
  | nil => simp [subL]
  | cons x xs ih => simp [subL, ih]

theorem setEq_iff (σ : Schema) (xs ys : List Val) :
    (subL σ xs ys && ys.all (anyL σ xs)) = true ↔
      (∀ x ∈ xs, ∃ y ∈ ys, veq σ x y = true) ∧ (∀ y ∈ ys, ∃ x ∈ xs, veq σ x y = true) := by
  simp [subL_iff, anyL_iff]

/-! ### symmetry -/

theorem veqList_symm (σ : Schema) : ∀ (xs : List Val),
    (∀ x ∈ xs, ∀ b, veq σ x b = true → veq σ b x = true) →
    ∀ ys, veqList σ xs ys = true → veqList σ ys xs = true := by
  intro xs
  induction xs with
  | nil => intro _ ys h; cases ys <;> simp_all [veqList]
  | cons x xs ih =>
    intro hx ys h
    cases ys with
    | nil => simp [veqList] at h
    | cons y ys =>
      simp only [veqList, Bool.and_eq_true] at h ⊢
      exact ⟨hx x (by simp) y h.1, ih (fun z hz => hx z (by simp [hz])) ys h.2⟩

theorem veqIdx_symm (σ : Schema) (idx : List Nat) : ∀ (xs : List Val),
    (∀ x ∈ xs, ∀ b, veq σ x b = true → veq σ b x = true) →
    ∀ i ys, veqIdx σ idx i xs ys = true → veqIdx σ idx i ys xs = true := by
  intro xs
  induction xs with
  | nil => intro _ i ys h; cases ys <;> simp_all [veqIdx]
  | cons x xs ih =>
    intro hx i ys h
    cases ys with
    | nil => simp [veqIdx] at h
    | cons y ys =>
      simp only [veqIdx, Bool.and_eq_true] at h ⊢
      refine ⟨?_, ih (fun z hz => hx z (by simp [hz])) (i + 1) ys h.2⟩
      by_cases hc : idx.contains i = true
      · simp only [hc, if_true] at h ⊢; exact hx x (by simp) y h.1
      · simp only [hc]; rfl

theorem veq_symm (σ : Schema) : ∀ a b : Val, veq σ a b = true → veq σ b a = true := by
  intro a
  induction a using Val.ind2 with
  | hnone =>
    intro b h
    rw [veq_none] at h
    cases b with
    | none => rw [veq_none]
    | _ => simp at h
  | hbool x =>
    intro b h
    rw [veq_bool] at h
    cases b with
    | bool y => rw [veq_bool]; simp at h ⊢; exact h.symm
    | int i => rw [veq_int]; simp at h ⊢; exact h.symm
    | _ => simp at h
  | hint x =>
    intro b h
    rw [veq_int] at h
    cases b with
    | bool y => rw [veq_bool]; simp at h ⊢; exact h.symm
    | int i => rw [veq_int]; simp at h ⊢; exact h.symm
    | _ => simp at h
  | hstr x =>
    intro b h
    rw [veq_str] at h
    cases b with
    | str y => rw [veq_str]; simp at h ⊢; exact h.symm
    | _ => simp at h
  | hdict =>
    intro b h
    rw [veq_dict] at h
    cases b with
    | dict0 => rw [veq_dict]
    | _ => simp at h
  | htup xs ih =>
    intro b h
    rw [veq_tup] at h
    cases b with
    | tup ys => rw [veq_tup]; exact veqList_symm σ xs ih _ h
    | _ => simp at h
  | hnode s as ih ih2 =>
    intro b h
    obtain ⟨t, bs, rfl⟩ := veq_node_nonnode σ s as b h
    rw [veq_node_node] at h ⊢
    simp only [Bool.and_eq_true, beq_iff_eq] at h ⊢
    obtain ⟨rfl, h⟩ := h
    refine ⟨rfl, ?_⟩
    cases hm : eqModeOf σ s with
    | fields e hh =>
      simp only [hm] at h ⊢
      exact veqIdx_symm σ e as ih 0 bs h
    | setlike =>
      simp only [hm] at h ⊢
      match as, bs, h, ih2 with
      | [.tup xs], [.tup ys], h, ih2 =>
        have ihx := ih2 xs (by simp)
        simp only [setEq_iff] at h ⊢
        constructor
        · intro y hy
          obtain ⟨x, hx, hxy⟩ := h.2 y hy
          exact ⟨x, hx, ihx x hx y hxy⟩
        · intro x hx
          obtain ⟨y, hy, hxy⟩ := h.1 x hx
          exact ⟨y, hy, ihx x hx y hxy⟩
    | identity => simp [hm] at h
    | unknown => simp [hm] at h

/-! ### transitivity -/

@[simp] theorem boolInt_inj (a b : Bool) : boolInt a = boolInt b ↔ a = b := by
  cases a <;> cases b <;> decide

theorem veqList_trans (σ : Schema) : ∀ (xs : List Val),
    (∀ x ∈ xs, ∀ b c, veq σ x b = true → veq σ b c = true → veq σ x c = true) →
    ∀ ys zs, veqList σ xs ys = true → veqList σ ys zs = true → veqList σ xs zs = true := by
  intro xs
  induction xs with
  | nil =>
    intro _ ys zs h1 h2
    cases ys <;> cases zs <;> simp_all [veqList]
  | cons x xs ih =>
    intro hx ys zs h1 h2
    cases ys with
    | nil => simp [veqList] at h1
    | cons y ys =>
      cases zs with
      | nil => simp [veqList] at h2
      | cons z zs =>
        simp only [veqList, Bool.and_eq_true] at h1 h2 ⊢
        exact ⟨hx x (by simp) y z h1.1 h2.1, ih (fun w hw => hx w (by simp [hw])) ys zs h1.2 h2.2⟩

theorem veqIdx_trans (σ : Schema) (idx : List Nat) : ∀ (xs : List Val),
    (∀ x ∈ xs, ∀ b c, veq σ x b = true → veq σ b c = true → veq σ x c = true) →
    ∀ i ys zs, veqIdx σ idx i xs ys = true → veqIdx σ idx i ys zs = true → veqIdx σ idx i xs zs = true := by
  intro xs
  induction xs with
  | nil =>
    intro _ i ys zs h1 h2
    cases ys <;> cases zs <;> simp_all [veqIdx]
  | cons x xs ih =>
    intro hx i ys zs h1 h2
    cases ys with
    | nil => simp [veqIdx] at h1
    | cons y ys =>
      cases zs with
      | nil => simp [veqIdx] at h2
      | cons z zs =>
        simp only [veqIdx, Bool.and_eq_true] at h1 h2 ⊢
        refine ⟨?_, ih (fun w hw => hx w (by simp [hw])) (i + 1) ys zs h1.2 h2.2⟩
        by_cases hc : idx.contains i = true
        · simp only [hc, if_true] at h1 h2 ⊢; exact hx x (by simp) y z h1.1 h2.1
        · simp only [hc]; rfl

theorem veq_trans (σ : Schema) : ∀ a b c : Val,
    veq σ a b = true → veq σ b c = true → veq σ a c = true := by
  intro a
  induction a using Val.ind2 with
  | hnone =>
    intro b c h1 h2
    rw [veq_none] at h1
    cases b with
    | none => exact h2
    | _ => simp at h1
  | hbool x =>
    intro b c h1 h2
    rw [veq_bool] at h1
    cases b with
    | bool y =>
      simp at h1; subst h1; exact h2
    | int i =>
      simp at h1; subst h1
      rw [veq_int] at h2; rw [veq_bool]
      cases c <;> simp at h2 ⊢ <;> exact h2
    | _ => simp at h1
  | hint x =>
    intro b c h1 h2
    rw [veq_int] at h1
    cases b with
    | bool y =>
      simp at h1; subst h1
      rw [veq_bool] at h2; rw [veq_int]
      cases c <;> simp at h2 ⊢ <;> exact h2
    | int i => simp at h1; subst h1; exact h2
    | _ => simp at h1
  | hstr x =>
    intro b c h1 h2
    rw [veq_str] at h1
    cases b with
    | str y => simp at h1; subst h1; exact h2
    | _ => simp at h1
  | hdict =>
    intro b c h1 h2
    rw [veq_dict] at h1
    cases b with
    | dict0 => exact h2
    | _ => simp at h1
  | htup xs ih =>
    intro b c h1 h2
    rw [veq_tup] at h1
    cases b with
    | tup ys =>
      rw [veq_tup] at h2 ⊢
      cases c with
      | tup zs => exact veqList_trans σ xs ih ys zs h1 h2
      | _ => simp at h2
    | _ => simp at h1
  | hnode s as ih ih2 =>
    intro b c h1 h2
    obtain ⟨t, bs, rfl⟩ := veq_node_nonnode σ s as b h1
    obtain ⟨u, cs, rfl⟩ := veq_node_nonnode σ t bs c h2
    rw [veq_node_node] at h1 h2 ⊢
    simp only [Bool.and_eq_true, beq_iff_eq] at h1 h2 ⊢
    obtain ⟨rfl, h1⟩ := h1
    obtain ⟨rfl, h2⟩ := h2
    refine ⟨rfl, ?_⟩
    cases hm : eqModeOf σ s with
    | fields e hh =>
      simp only [hm] at h1 h2 ⊢
      exact veqIdx_trans σ e as ih 0 bs cs h1 h2
    | setlike =>
      simp only [hm] at h1 h2 ⊢
      match as, bs, cs, h1, h2, ih2 with
      | [.tup xs], [.tup ys], [.tup zs], h1, h2, ih2 =>
        have ihx := ih2 xs (by simp)
        simp only [setEq_iff] at h1 h2 ⊢
        constructor
        · intro x hx
          obtain ⟨y, hy, hxy⟩ := h1.1 x hx
          obtain ⟨z, hz, hyz⟩ := h2.1 y hy
          exact ⟨z, hz, ihx x hx y z hxy hyz⟩
        · intro z hz
          obtain ⟨y, hy, hyz⟩ := h2.2 z hz
          obtain ⟨x, hx, hxy⟩ := h1.2 y hy
          exact ⟨x, hx, ihx x hx y z hxy hyz⟩
    | identity => simp [hm] at h1
    | unknown => simp [hm] at h1

/-! ### reflexivity (on values whose equality is value-based) -/

theorem eqOKList_mem (σ : Schema) : ∀ (xs : List Val), eqOKList σ xs = true → ∀ x ∈ xs, eqOK σ x = true := by
  intro xs
  induction xs with
  | nil => intro _ x hx; cases hx
  | cons y ys ih =>
    intro h x hx
    simp only [eqOKList, Bool.and_eq_true] at h
    rcases List.mem_cons.1 hx with rfl | hx
    · exact h.1
    · exact ih h.2 x hx

theorem veqList_refl (σ : Schema) : ∀ (xs : List Val), (∀ x ∈ xs, veq σ x x = true) →
    veqList σ xs xs = true := by
  intro xs
  induction xs with
  | nil => intro _; rfl
  | cons x xs ih =>
    intro h
    simp only [veqList, Bool.and_eq_true]
    exact ⟨h x (by simp), ih (fun y hy => h y (by simp [hy]))⟩

theorem veqIdx_refl (σ : Schema) (idx : List Nat) : ∀ (xs : List Val), (∀ x ∈ xs, veq σ x x = true) →
    ∀ i, veqIdx σ idx i xs xs = true := by
  intro xs
  induction xs with
  | nil => intro _ i; rfl
  | cons x xs ih =>
    intro h i
    simp only [veqIdx, Bool.and_eq_true]
    refine ⟨?_, ih (fun y hy => h y (by simp [hy])) (i + 1)⟩
    by_cases hc : idx.contains i = true
    · simp only [hc, if_true]; exact h x (by simp)
    · simp only [hc]; rfl

theorem veq_refl (σ : Schema) : ∀ a : Val, eqOK σ a = true → veq σ a a = true := by
  intro a
  induction a using Val.ind2 with
  | hnone => intro _; rw [veq_none]
  | hbool x => intro _; rw [veq_bool]; simp
  | hint x => intro _; rw [veq_int]; simp
  | hstr x => intro _; rw [veq_str]; simp
  | hdict => intro _; rw [veq_dict]
  | htup xs ih =>
    intro h
    rw [eqOK_tup] at h
    rw [veq_tup]
    exact veqList_refl σ xs (fun x hx => ih x hx (eqOKList_mem σ xs h x hx))
  | hnode s as ih ih2 =>
    intro h
    rw [eqOK_node] at h
    simp only [Bool.and_eq_true] at h
    have hall := fun x hx => ih x hx (eqOKList_mem σ as h.2 x hx)
    rw [veq_node_node]
    simp only [Bool.and_eq_true, beq_self_eq_true, true_and]
    cases hm : eqModeOf σ s with
    | fields e hh => exact veqIdx_refl σ e as hall 0
    | setlike =>
      simp only [hm] at h ⊢
      match as, h, ih2 with
      | [.tup xs], h, ih2 =>
        have hok : eqOKList σ xs = true := by
          have := h.2
          simp only [eqOKList, Bool.and_eq_true, eqOK_tup] at this
          exact this.1
        have ihx := fun x hx => ih2 xs (by simp) x hx (eqOKList_mem σ xs hok x hx)
        simp only [setEq_iff]
        exact ⟨fun x hx => ⟨x, hx, ihx x hx⟩, fun x hx => ⟨x, hx, ihx x hx⟩⟩
    | identity => simp [hm] at h
    | unknown => simp [hm] at h

/-! ### building a set: `dedupBy` keeps one representative per class; two mutually included lists give
permutation-equal hash lists -/

section dedup
variable {β : Type} (r : β → β → Bool)

theorem dedupBy_subset : ∀ (xs : List β), ∀ d ∈ dedupBy r xs, d ∈ xs := by
  intro xs
  induction xs with
  | nil => intro d hd; simp [dedupBy] at hd
  | cons x xs ih =>
    intro d hd
    simp only [dedupBy, List.mem_cons, List.mem_filter] at hd
    rcases hd with rfl | ⟨hd, _⟩
    · simp
    · exact List.mem_cons_of_mem _ (ih d hd)

theorem dedupBy_pairwise : ∀ (xs : List β), (dedupBy r xs).Pairwise (fun a b => r a b = false) := by
  intro xs
  induction xs with
  | nil => exact List.Pairwise.nil
  | cons x xs ih =>
    simp only [dedupBy]
    apply List.Pairwise.cons
    · intro b hb
      simp only [List.mem_filter, Bool.not_eq_true'] at hb
      exact hb.2
    · exact ih.filter _

variable (rsymm : ∀ a b, r a b = true → r b a = true)
  (rtrans : ∀ a b c, r a b = true → r b c = true → r a c = true)

include rtrans in
theorem dedupBy_repr : ∀ (xs : List β), ∀ x ∈ xs, r x x = true → ∃ d ∈ dedupBy r xs, r d x = true := by
  intro xs
  induction xs with
  | nil => intro x hx; cases hx
  | cons y ys ih =>
    intro x hx hxx
    rcases List.mem_cons.1 hx with rfl | hx
    · exact ⟨x, by simp [dedupBy], hxx⟩
    · obtain ⟨d, hd, hdx⟩ := ih x hx hxx
      by_cases hyd : r y d = true
      · exact ⟨y, by simp [dedupBy], rtrans y d x hyd hdx⟩
      · refine ⟨d, ?_, hdx⟩
        simp only [dedupBy, List.mem_cons, List.mem_filter, Bool.not_eq_true']
        right
        exact ⟨hd, by simpa using hyd⟩

include rsymm rtrans in
theorem match_perm {α : Type} (h : β → α) : ∀ (dx dy : List β),
    dx.Pairwise (fun a b => r a b = false) → dy.Pairwise (fun a b => r a b = false) →
    (∀ x ∈ dx, ∃ y ∈ dy, r x y = true) → (∀ y ∈ dy, ∃ x ∈ dx, r x y = true) →
    (∀ x ∈ dx, ∀ y ∈ dy, r x y = true → h x = h y) →
    (dx.map h).Perm (dy.map h) := by
  intro dx
  induction dx with
  | nil =>
    intro dy _ _ _ hsup _
    cases dy with
    | nil => exact List.Perm.nil
    | cons y ys =>
      obtain ⟨x, hx, _⟩ := hsup y (by simp)
      cases hx
  | cons x dx ih =>
    intro dy hpx hpy hsub hsup hh
    obtain ⟨y, hy, hxy⟩ := hsub x (by simp)
    obtain ⟨l1, l2, rfl⟩ := List.append_of_mem hy
    rw [List.pairwise_cons] at hpx
    rw [List.pairwise_append] at hpy
    obtain ⟨hp1, hp2, hp12⟩ := hpy
    rw [List.pairwise_cons] at hp2
    have hpy' : (l1 ++ l2).Pairwise (fun a b => r a b = false) := by
      rw [List.pairwise_append]
      exact ⟨hp1, hp2.2, fun a ha b hb => hp12 a ha b (List.mem_cons_of_mem _ hb)⟩
    have hsub' : ∀ x' ∈ dx, ∃ y' ∈ l1 ++ l2, r x' y' = true := by
      intro x' hx'
      obtain ⟨y', hy', hx'y'⟩ := hsub x' (List.mem_cons_of_mem _ hx')
      rcases List.mem_append.1 hy' with h1 | h2
      · exact ⟨y', List.mem_append_left _ h1, hx'y'⟩
      · rcases List.mem_cons.1 h2 with rfl | h2
        · -- x' ~ y and x ~ y, so x ~ x': contradiction with pairwise
          have : r x x' = true := rtrans x y' x' hxy (rsymm x' y' hx'y')
          rw [hpx.1 x' hx'] at this
          cases this
        · exact ⟨y', List.mem_append_right _ h2, hx'y'⟩
    have hsup' : ∀ y' ∈ l1 ++ l2, ∃ x' ∈ dx, r x' y' = true := by
      intro y' hy'
      have hy'' : y' ∈ l1 ++ y :: l2 := by
        rcases List.mem_append.1 hy' with h1 | h2
        · exact List.mem_append_left _ h1
        · exact List.mem_append_right _ (List.mem_cons_of_mem _ h2)
      obtain ⟨x', hx', hx'y'⟩ := hsup y' hy''
      rcases List.mem_cons.1 hx' with rfl | hx'
      · -- x ~ y' and x ~ y: y' ~ y, both in dy at different places
        rcases List.mem_append.1 hy' with h1 | h2
        · have : r y' y = true := rtrans y' x' y (rsymm x' y' hx'y') hxy
          rw [hp12 y' h1 y (by simp)] at this
          cases this
        · have : r y y' = true := rtrans y x' y' (rsymm x' y hxy) hx'y'
          rw [hp2.1 y' h2] at this
          cases this
      · exact ⟨x', hx', hx'y'⟩
    have hh' : ∀ x' ∈ dx, ∀ y' ∈ l1 ++ l2, r x' y' = true → h x' = h y' := by
      intro x' hx' y' hy' hr
      refine hh x' (List.mem_cons_of_mem _ hx') y' ?_ hr
      rcases List.mem_append.1 hy' with h1 | h2
      · exact List.mem_append_left _ h1
      · exact List.mem_append_right _ (List.mem_cons_of_mem _ h2)
    have ihp := ih (l1 ++ l2) hpx.2 hpy' hsub' hsup' hh'
    have hxy' : h x = h y := hh x (by simp) y hy hxy
    simp only [List.map_cons, List.map_append]
    rw [hxy']
    refine List.Perm.trans (List.Perm.cons _ ?_) (List.perm_middle).symm
    simpa [List.map_append] using ihp

include rsymm rtrans in
/-- two lists with the same classes have permutation-equal lists of (class-invariant) hashes of their
representatives -/
theorem dedup_map_perm {α : Type} (h : β → α) (xs ys : List β)
    (hsub : ∀ x ∈ xs, ∃ y ∈ ys, r x y = true) (hsup : ∀ y ∈ ys, ∃ x ∈ xs, r x y = true)
    (hh : ∀ x ∈ xs, ∀ y ∈ ys, r x y = true → h x = h y) :
    ((dedupBy r xs).map h).Perm ((dedupBy r ys).map h) := by
  apply match_perm r rsymm rtrans h _ _ (dedupBy_pairwise r xs) (dedupBy_pairwise r ys)
  · intro x hx
    have hx' := dedupBy_subset r xs x hx
    obtain ⟨y, hy, hxy⟩ := hsub x hx'
    have hyy : r y y = true := rtrans y x y (rsymm x y hxy) hxy
    obtain ⟨d, hd, hdy⟩ := dedupBy_repr r rtrans ys y hy hyy
    exact ⟨d, hd, rtrans x y d hxy (rsymm d y hdy)⟩
  · intro y hy
    have hy' := dedupBy_subset r ys y hy
    obtain ⟨x, hx, hxy⟩ := hsup y hy'
    have hxx : r x x = true := rtrans x y x hxy (rsymm x y hxy)
    obtain ⟨d, hd, hdx⟩ := dedupBy_repr r rtrans xs x hx hxx
    exact ⟨d, hd, rtrans d x y hdx hxy⟩
  · intro x hx y hy hr
    exact hh x (dedupBy_subset r xs x hx) y (dedupBy_subset r ys y hy) hr

end dedup

/-! ### equal nodes hash equally -/

section hash
variable {α : Type} (H : HashFns α) (σ : Schema)

theorem vhash_none : vhash H σ .none = H.hNone := by rw [vhash.eq_def]
theorem vhash_bool (b : Bool) : vhash H σ (.bool b) = H.hInt (boolInt b) := by rw [vhash.eq_def]
theorem vhash_int (i : Int) : vhash H σ (.int i) = H.hInt i := by rw [vhash.eq_def]
theorem vhash_str (s : Bytes) : vhash H σ (.str s) = H.hStr s := by rw [vhash.eq_def]
theorem vhash_dict : vhash H σ .dict0 = H.hDict := by rw [vhash.eq_def]
theorem vhash_tup (xs : List Val) : vhash H σ (.tup xs) = H.hTup (vhashList H σ xs) := by
  rw [vhash.eq_def]

theorem mem_zip_vhash : ∀ (xs : List Val) (p : Val × α), p ∈ xs.zip (vhashList H σ xs) →
    p.1 ∈ xs ∧ p.2 = vhash H σ p.1 := by
  intro xs
  induction xs with
  | nil => intro p hp; simp [vhashList] at hp
  | cons x xs ih =>
    intro p hp
    simp only [vhashList, List.zip_cons_cons, List.mem_cons] at hp
    rcases hp with rfl | hp
    · simp
    · exact ⟨List.mem_cons_of_mem _ (ih p hp).1, (ih p hp).2⟩

theorem zip_vhash_mem : ∀ (xs : List Val), ∀ x ∈ xs, (x, vhash H σ x) ∈ xs.zip (vhashList H σ xs) := by
  intro xs
  induction xs with
  | nil => intro x hx; cases hx
  | cons y ys ih =>
    intro x hx
    simp only [vhashList, List.zip_cons_cons, List.mem_cons]
    rcases List.mem_cons.1 hx with rfl | hx
    · left; rfl
    · right; exact ih x hx

theorem veqList_hash : ∀ (xs : List Val),
    (∀ x ∈ xs, ∀ b, veq σ x b = true → vhash H σ x = vhash H σ b) →
    ∀ ys, veqList σ xs ys = true → vhashList H σ xs = vhashList H σ ys := by
  intro xs
  induction xs with
  | nil => intro _ ys h; cases ys <;> simp_all [veqList, vhashList]
  | cons x xs ih =>
    intro hx ys h
    cases ys with
    | nil => simp [veqList] at h
    | cons y ys =>
      simp only [veqList, Bool.and_eq_true] at h
      simp only [vhashList]
      rw [hx x (by simp) y h.1, ih (fun z hz => hx z (by simp [hz])) ys h.2]

theorem veqIdx_hash (e hh : List Nat) (hsub : subsetN hh e = true) : ∀ (xs : List Val),
    (∀ x ∈ xs, ∀ b, veq σ x b = true → vhash H σ x = vhash H σ b) →
    ∀ i ys, veqIdx σ e i xs ys = true → vhashIdx H σ hh i xs = vhashIdx H σ hh i ys := by
  intro xs
  induction xs with
  | nil => intro _ i ys h; cases ys <;> simp_all [veqIdx, vhashIdx]
  | cons x xs ih =>
    intro hx i ys h
    cases ys with
    | nil => simp [veqIdx] at h
    | cons y ys =>
      simp only [veqIdx, Bool.and_eq_true] at h
      simp only [vhashIdx]
      rw [ih (fun z hz => hx z (by simp [hz])) (i + 1) ys h.2]
      by_cases hc : hh.contains i = true
      · have he : e.contains i = true := by
          simp only [subsetN, List.all_eq_true] at hsub
          exact hsub i (by simpa using hc)
        have h1 := h.1
        simp only [he, if_true] at h1
        simp only [hc, if_true]
        rw [hx x (by simp) y h1]
      · simp only [hc]; rfl

theorem eqSpec_fields (hspec : eqSpecOK σ = true) {s : Bytes} {e hh : List Nat}
    (hm : eqModeOf σ s = .fields e hh) : subsetN hh e = true := by
  unfold eqModeOf at hm
  cases hf : σ.find s with
  | none => simp [hf] at hm
  | some sd =>
    simp only [hf] at hm
    have := List.all_eq_true.1 hspec sd (find_mem hf)
    simp only [hm] at this
    exact this

/-- **Equal nodes hash equally**, for every schema whose classes hash a subset of what they compare,
and every choice of Python's hash functions such that the hash of a frozenset does not depend on the
order of its elements. -/
theorem veq_vhash (hspec : eqSpecOK σ = true)
    (hperm : ∀ l₁ l₂ : List α, l₁.Perm l₂ → H.hSet l₁ = H.hSet l₂) :
    ∀ a b : Val, veq σ a b = true → vhash H σ a = vhash H σ b := by
  intro a
  induction a using Val.ind2 with
  | hnone =>
    intro b h
    rw [veq_none] at h
    cases b with
    | none => rfl
    | _ => simp at h
  | hbool x =>
    intro b h
    rw [veq_bool] at h
    cases b with
    | bool y => simp at h; rw [h]
    | int i => simp at h; rw [vhash_bool, vhash_int, h]
    | _ => simp at h
  | hint x =>
    intro b h
    rw [veq_int] at h
    cases b with
    | bool y => simp at h; rw [vhash_bool, vhash_int, h]
    | int i => simp at h; rw [h]
    | _ => simp at h
  | hstr x =>
    intro b h
    rw [veq_str] at h
    cases b with
    | str y => simp at h; rw [h]
    | _ => simp at h
  | hdict =>
    intro b h
    rw [veq_dict] at h
    cases b with
    | dict0 => rfl
    | _ => simp at h
  | htup xs ih =>
    intro b h
    rw [veq_tup] at h
    cases b with
    | tup ys => rw [vhash_tup, vhash_tup, veqList_hash H σ xs ih ys h]
    | _ => simp at h
  | hnode s as ih ih2 =>
    intro b h
    obtain ⟨t, bs, rfl⟩ := veq_node_nonnode σ s as b h
    rw [veq_node_node] at h
    simp only [Bool.and_eq_true, beq_iff_eq] at h
    obtain ⟨rfl, h⟩ := h
    rw [vhash_node, vhash_node]
    cases hm : eqModeOf σ s with
    | fields e hh =>
      simp only [hm] at h ⊢
      rw [veqIdx_hash H σ e hh (eqSpec_fields σ hspec hm) as ih 0 bs h]
    | setlike =>
      simp only [hm] at h ⊢
      match as, bs, h, ih2 with
      | [.tup xs], [.tup ys], h, ih2 =>
        have ihx := ih2 xs (by simp)
        simp only [setEq_iff] at h
        simp only []
        apply hperm
        apply dedup_map_perm (fun p q : Val × α => veq σ p.1 q.1)
          (fun p q => veq_symm σ p.1 q.1) (fun p q w => veq_trans σ p.1 q.1 w.1) (·.2)
        · intro p hp
          obtain ⟨hp1, _⟩ := mem_zip_vhash H σ xs p hp
          obtain ⟨y, hy, hxy⟩ := h.1 p.1 hp1
          exact ⟨(y, vhash H σ y), zip_vhash_mem H σ ys y hy, hxy⟩
        · intro q hq
          obtain ⟨hq1, _⟩ := mem_zip_vhash H σ ys q hq
          obtain ⟨x, hx, hxy⟩ := h.2 q.1 hq1
          exact ⟨(x, vhash H σ x), zip_vhash_mem H σ xs x hx, hxy⟩
        · intro p hp q hq hr
          obtain ⟨hp1, hp2⟩ := mem_zip_vhash H σ xs p hp
          obtain ⟨_, hq2⟩ := mem_zip_vhash H σ ys q hq
          rw [hp2, hq2]
          exact ihx p.1 hp1 q.1 hr
    | identity => simp [hm] at h
    | unknown => simp [hm] at h

end hash

end PytypeModel.Pytd
