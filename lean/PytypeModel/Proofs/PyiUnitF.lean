import PytypeModel.Proofs.PyiUnitE

/-! C05, unit level, part F: `print (norm u) = print u`, `Verify (norm u)`. -/
namespace PytypeModel.Pytd

/-! ### the statements of a normalised declaration -/

theorem fConst_ty {g : GCtx} {c : Const} (h : fConst g c = true) : fTy g false c.ty = true := by
  unfold fConst at h
  simp only [Bool.and_eq_true] at h
  exact h.1.2

theorem fAlias_ty {g : GCtx} {a : Alias} (h : fAlias g a = true) : fTy g false a.ty = true := by
  unfold fAlias at h
  simp only [Bool.and_eq_true] at h
  exact h.1.1.2

theorem fDecl_tys {g : GCtx} {d : TypeParamDecl} (h : fDecl g d = true) :
    fTys g false d.constraints = true ∧ (∀ b, d.bound = some b → fTy g false b = true) := by
  unfold fDecl at h
  simp only [Bool.and_eq_true] at h
  refine ⟨h.1.2, ?_⟩
  intro b hb
  have := h.2
  rw [hb] at this
  exact this

theorem constStmt_norm {g : GCtx} (hg : GOK g) {c : Const} (hf : fConst g c = true)
    (hsub : ∀ x ∈ constAdds c, x ∈ g.adds) : constStmt (normConst g.tps c) = constStmt c := by
  unfold constStmt normConst
  simp only [(tyGood hg false c.ty (fConst_ty hf) hsub).1]
  cases c.value <;> rfl

theorem aliasStmt_norm {g : GCtx} (hg : GOK g) {a : Alias} (hf : fAlias g a = true)
    (hsub : ∀ x ∈ tyAdds false a.ty, x ∈ g.adds) :
    aliasStmt { a with ty := normTy g.tps false a.ty } = aliasStmt a := by
  unfold aliasStmt
  simp only [(tyGood hg false a.ty (fAlias_ty hf) hsub).1]

theorem typeParamStmt_norm {g : GCtx} (hg : GOK g) {d : TypeParamDecl} (hf : fDecl g d = true)
    (hsub : ∀ x ∈ typeParamAdds d, x ∈ g.adds) : typeParamStmt (normDecl g.tps d) = typeParamStmt d := by
  obtain ⟨hc, hb⟩ := fDecl_tys hf
  unfold typeParamStmt normDecl
  simp only [PyStmt.typeVarDef.injEq, true_and, List.map_map]
  constructor
  · apply List.map_congr_left
    intro c hcm
    exact (tyGood hg false c (fTys_mem hc hcm) (fun x hx => hsub x (by
      unfold typeParamAdds
      simp only [List.mem_append, List.mem_flatten, List.mem_map]
      exact Or.inl (Or.inl ⟨_, ⟨c, hcm, rfl⟩, hx⟩)))).1
  · cases hbd : d.bound with
    | none => rfl
    | some b =>
      simp only [Option.map_some]
      congr 1
      exact (tyGood hg false b (hb b hbd) (fun x hx => hsub x (by
        unfold typeParamAdds; rw [hbd]; simp [hx]))).1

/-! ### the `typing` members requested by the normal form -/

theorem constAdds_norm {g : GCtx} (hg : GOK g) {c : Const} (hf : fConst g c = true)
    (hsub : ∀ x ∈ constAdds c, x ∈ g.adds) (X : String) :
    X ∈ constAdds (normConst g.tps c) ↔ X ∈ constAdds c := by
  unfold constAdds normConst
  exact (tyGood hg false c.ty (fConst_ty hf) hsub).2.1 X

theorem typeParamAdds_norm {g : GCtx} (hg : GOK g) {d : TypeParamDecl} (hf : fDecl g d = true)
    (hsub : ∀ x ∈ typeParamAdds d, x ∈ g.adds) (X : String) :
    X ∈ typeParamAdds (normDecl g.tps d) ↔ X ∈ typeParamAdds d := by
  obtain ⟨hc, hb⟩ := fDecl_tys hf
  have hcs : ∀ c ∈ d.constraints, ∀ x ∈ tyAdds false c, x ∈ g.adds := by
    intro c hcm x hx
    apply hsub
    unfold typeParamAdds
    simp only [List.mem_append, List.mem_flatten, List.mem_map]
    exact Or.inl (Or.inl ⟨_, ⟨c, hcm, rfl⟩, hx⟩)
  unfold typeParamAdds normDecl
  simp only [List.mem_append, List.mem_flatten, List.mem_map, List.map_map]
  constructor
  · rintro ((⟨l, ⟨c, hcm, rfl⟩, hx⟩ | hx) | hx)
    · exact Or.inl (Or.inl ⟨_, ⟨c, hcm, rfl⟩,
        ((tyGood hg false c (fTys_mem hc hcm) (hcs c hcm)).2.1 X).1 hx⟩)
    · cases hbd : d.bound with
      | none => rw [hbd] at hx; simp at hx
      | some b =>
        rw [hbd] at hx
        simp only [Option.map_some] at hx
        have := ((tyGood hg false b (hb b hbd) (fun x hx' => hsub x (by
          unfold typeParamAdds; rw [hbd]; simp [hx']))).2.1 X).1 hx
        exact Or.inl (Or.inr this)
    · exact Or.inr hx
  · rintro ((⟨l, ⟨c, hcm, rfl⟩, hx⟩ | hx) | hx)
    · exact Or.inl (Or.inl ⟨_, ⟨c, hcm, rfl⟩,
        ((tyGood hg false c (fTys_mem hc hcm) (hcs c hcm)).2.1 X).2 hx⟩)
    · cases hbd : d.bound with
      | none => rw [hbd] at hx; simp at hx
      | some b =>
        rw [hbd] at hx
        have := ((tyGood hg false b (hb b hbd) (fun x hx' => hsub x (by
          unfold typeParamAdds; rw [hbd]; simp [hx']))).2.1 X).2 hx
        exact Or.inl (Or.inr (by simp only [Option.map_some]; exact this))
    · exact Or.inr hx

theorem classesAdds_nil (path : List String) : classesAdds path [] = [] := by simp [classesAdds]

theorem unitAdds_norm {u : TUnit} (hf : Frag u) (X : String) :
    X ∈ unitAdds (normUnit u) ↔ X ∈ unitAdds u := by
  have hg := gok_of_frag hf
  have htps : (unitCtx u).tps = u.typeParams.map (·.name) := rfl
  unfold unitAdds normUnit
  simp only [hf.noClass, hf.noFunc, normClasses_nil, classesAdds_nil, List.map_nil, List.flatten_nil,
    List.append_nil, List.mem_append, List.mem_flatten, List.mem_map, List.map_map]
  rw [← htps]
  constructor
  · rintro ((⟨l, ⟨c, hc, rfl⟩, hx⟩ | ⟨l, ⟨t, ht, rfl⟩, hx⟩) | ⟨l, ⟨a, ha, rfl⟩, hx⟩)
    · exact Or.inl (Or.inl ⟨_, ⟨c, hc, rfl⟩,
        (constAdds_norm hg (List.all_eq_true.1 hf.consts c hc) (mem_unitAdds_const hc) X).1 hx⟩)
    · have ht' := mem_sortDecls.1 ht
      obtain ⟨t0, ht0, rfl⟩ := List.mem_map.1 ht'
      exact Or.inl (Or.inr ⟨_, ⟨t0, ht0, rfl⟩,
        (typeParamAdds_norm hg (List.all_eq_true.1 hf.tps t0 ht0) (mem_unitAdds_tp ht0) X).1 hx⟩)
    · exact Or.inr ⟨_, ⟨a, ha, rfl⟩,
        ((tyGood hg false a.ty (fAlias_ty (List.all_eq_true.1 hf.aliases a ha)) (mem_unitAdds_alias ha)).2.1 X).1 hx⟩
  · rintro ((⟨l, ⟨c, hc, rfl⟩, hx⟩ | ⟨l, ⟨t, ht, rfl⟩, hx⟩) | ⟨l, ⟨a, ha, rfl⟩, hx⟩)
    · exact Or.inl (Or.inl ⟨_, ⟨c, hc, rfl⟩,
        (constAdds_norm hg (List.all_eq_true.1 hf.consts c hc) (mem_unitAdds_const hc) X).2 hx⟩)
    · refine Or.inl (Or.inr ⟨_, ⟨normDecl (unitCtx u).tps t, ?_, rfl⟩,
        (typeParamAdds_norm hg (List.all_eq_true.1 hf.tps t ht) (mem_unitAdds_tp ht) X).2 hx⟩)
      exact mem_sortDecls.2 (List.mem_map.2 ⟨t, ht, rfl⟩)
    · exact Or.inr ⟨_, ⟨a, ha, rfl⟩,
        ((tyGood hg false a.ty (fAlias_ty (List.all_eq_true.1 hf.aliases a ha)) (mem_unitAdds_alias ha)).2.1 X).2 hx⟩

/-- **print ∘ norm = print** on the fragment -/
theorem print_norm {u : TUnit} (hfr : inFragment u = true) : printUnit (normUnit u) = printUnit u := by
  have hf := frag_of_inFragment hfr
  have hg := gok_of_frag hf
  have htps : (unitCtx u).tps = u.typeParams.map (·.name) := rfl
  have hnames := hf.namesOnce
  unfold unitNames at hnames
  rw [hf.noFunc, hf.noClass] at hnames
  simp only [List.map_nil, List.nil_append, List.append_nil] at hnames
  have hnt : (u.typeParams.map (·.name)).Nodup := (List.nodup_append.1 (List.nodup_append.1 hnames).1).2.1
  have himp : importStmts (unitAdds (normUnit u)) = importStmts (unitAdds u) := by
    unfold importStmts typingImports
    rw [sortUniq_congr (unitAdds_norm hf)]
  unfold printUnit
  rw [himp]
  unfold normUnit
  simp only [hf.noClass, hf.noFunc, normClasses_nil, classStmts_nil, List.map_nil, List.flatten_nil, List.map_map]
  rw [← htps]
  have e1 : (sortDecls (sortDecls (u.typeParams.map (normDecl (unitCtx u).tps)))).map typeParamStmt =
      (sortDecls u.typeParams).map typeParamStmt := by
    rw [sortDecls_idem _ (by rw [List.map_map]; exact hnt),
      sortDecls_map (normDecl (unitCtx u).tps) (fun d => rfl), List.map_map]
    apply List.map_congr_left
    intro t ht
    have ht' := mem_sortDecls.1 ht
    exact typeParamStmt_norm hg (List.all_eq_true.1 hf.tps t ht') (mem_unitAdds_tp ht')
  have e2 : u.aliases.map (aliasStmt ∘ fun a => { a with ty := normTy (unitCtx u).tps false a.ty }) =
      u.aliases.map aliasStmt := by
    apply List.map_congr_left
    intro a ha
    exact aliasStmt_norm hg (List.all_eq_true.1 hf.aliases a ha) (mem_unitAdds_alias ha)
  have e3 : u.constants.map (constStmt ∘ normConst (unitCtx u).tps) = u.constants.map constStmt := by
    apply List.map_congr_left
    intro c hc
    exact constStmt_norm hg (List.all_eq_true.1 hf.consts c hc) (mem_unitAdds_const hc)
  rw [e1, e2, e3]

end PytypeModel.Pytd
