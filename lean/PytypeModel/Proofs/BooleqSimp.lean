import PytypeModel.Proofs.Booleq

/-! # Lemmas about `simplify` (soundness, when it raises) and the normal form of the constructors -/
namespace PytypeModel.Booleq

/-! ### soundness of `simplify` -/

theorem simplifyEq_sound (T : Table) (vars : List String) (ρ : String → String)
    (hvars : ∀ x ∈ vars, (T.lookup x).isSome = true)
    (hρ : ∀ x ∈ vars, ∀ vs, T.lookup x = some vs → ρ x ∈ vs)
    (l r : String) (t' : Term) (h : simplifyEq T l r = .ok t') :
    eval (val vars ρ) t' = eval (val vars ρ) (.eq l r) := by
  unfold simplifyEq at h
  split at h
  · cases h; rfl
  · rename_i hr
    split at h
    · cases h
    · rename_i vs hl
      split at h
      · cases h; rfl
      · rename_i hc
        cases h
        have hrv : ¬ r ∈ vars := fun hm => hr (hvars r hm)
        have hc' : ¬ r ∈ vs := by simpa using hc
        simp only [eval, val, List.contains_iff_mem, hrv, if_false]
        by_cases hlv : l ∈ vars
        · have := hρ l hlv vs hl
          simp only [hlv, if_true]
          have hne : ρ l ≠ r := fun he => hc' (he ▸ this)
          simp [hne]
        · simp only [hlv, if_false]
          have hne : l ≠ r := by
            intro he; subst he; simp [hl] at hr
          simp [hne]

theorem simplifyList_sound (T : Table) (k : Kind) (v : String → String) (es : List Term)
    (ih : ∀ e ∈ es, ∀ e', simplify T e = .ok e' → eval v e' = eval v e) :
    ∀ acc t', simplifyList T k acc es = .ok t' →
      eval v t' = kop k (kall k v acc) (kall k v es) := by
  induction es with
  | nil =>
    intro acc t' h
    simp only [simplifyList, Except.ok.injEq] at h
    subst h
    rw [eval_finish, kop_unit]
  | cons e es ihes =>
    intro acc t' h
    simp only [simplifyList] at h
    cases h1 : simplify T e with
    | error x => simp [h1] at h
    | ok e' =>
      have hee := ih e (List.mem_cons_self) e' h1
      simp only [h1] at h
      cases hs : step k acc e' with
      | none =>
        simp only [hs, Except.ok.injEq] at h
        subst h
        have := isStop_eval k v e' ((step_none k acc e').1 hs)
        rw [eval_stop, kall_cons, ← hee, this]
        cases k <;> simp [kop, kabs]
      | some acc' =>
        simp only [hs] at h
        rw [ihes (fun x hx => ih x (List.mem_cons_of_mem _ hx)) acc' t' h,
          step_some_eval k v acc acc' e' hs, kall_cons, kop_assoc, hee]

/-- soundness for any valuation under which `_Eq.simplify` is sound -/
theorem simplify_sound_of_eq (T : Table) (v : String → String)
    (hv : ∀ l r t', simplifyEq T l r = .ok t' → eval v t' = eval v (.eq l r)) (t : Term) :
    ∀ t', simplify T t = .ok t' → eval v t' = eval v t := by
  induction t using Term.ind with
  | tt => intro t' h; simp only [simplify, Except.ok.injEq] at h; subst h; rfl
  | ff => intro t' h; simp only [simplify, Except.ok.injEq] at h; subst h; rfl
  | eq l r => intro t' h; simp only [simplify] at h; exact hv l r t' h
  | and es ih =>
    intro t' h
    simp only [simplify] at h
    rw [simplifyList_sound T .conj v es ih [] t' h, kall_nil_left]
    simp [eval, evalAll_eq, kall]
  | or es ih =>
    intro t' h
    simp only [simplify] at h
    rw [simplifyList_sound T .disj v es ih [] t' h, kall_nil_left]
    simp [eval, evalAny_eq, kall]

/-- strict (non-lazy) simplification of all children -/
def simplifyAll (T : Table) : List Term → Except Err (List Term)
  | [] => .ok []
  | e :: es =>
    match simplify T e with
    | .error x => .error x
    | .ok e' =>
      match simplifyAll T es with
      | .error x => .error x
      | .ok es' => .ok (e' :: es')

theorem simplifyList_eq_collect (T : Table) (k : Kind) (es : List Term) :
    ∀ acc es', simplifyAll T es = .ok es' → simplifyList T k acc es = .ok (collect k acc es') := by
  induction es with
  | nil =>
    intro acc es' h
    simp only [simplifyAll, Except.ok.injEq] at h
    subst h
    simp [simplifyList, collect]
  | cons e es ih =>
    intro acc es' h
    simp only [simplifyAll] at h
    cases h1 : simplify T e with
    | error x => simp [h1] at h
    | ok e' =>
      simp only [h1] at h
      cases h2 : simplifyAll T es with
      | error x => simp [h2] at h
      | ok es'' =>
        simp only [h2, Except.ok.injEq] at h
        subst h
        simp only [simplifyList, h1, collect]
        cases hs : step k acc e' with
        | none => rfl
        | some acc' => exact ih acc' es'' h2

/-! ### when `simplify` raises -/

theorem simplifyEq_error_iff (T : Table) (l r : String) (x : Err) :
    simplifyEq T l r = .error x ↔ (T.lookup r).isNone = true ∧ (T.lookup l).isNone = true := by
  cases x
  unfold simplifyEq
  cases hr : T.lookup r <;> cases hl : T.lookup l <;> simp

theorem simplifyList_error_iff (T : Table) (k : Kind) (x : Err) (es : List Term) :
    ∀ acc, simplifyList T k acc es = .error x ↔
      ∃ pre e post, es = pre ++ e :: post ∧ simplify T e = .error x ∧
        ∀ p ∈ pre, ∃ p', simplify T p = .ok p' ∧ k.isStop p' = false := by
  induction es with
  | nil => intro acc; simp [simplifyList]
  | cons e es ih =>
    intro acc
    simp only [simplifyList]
    cases h1 : simplify T e with
    | error y =>
      cases x; cases y
      simp only [true_iff]
      exact ⟨[], e, es, rfl, h1, by simp⟩
    | ok e' =>
      simp only []
      cases hs : step k acc e' with
      | none =>
        have hst := (step_none k acc e').1 hs
        simp only [reduceCtorEq, false_iff]
        rintro ⟨pre, y, post, heq, hy, hpre⟩
        cases pre with
        | nil =>
          simp only [List.nil_append, List.cons.injEq] at heq
          rw [← heq.1, h1] at hy; cases hy
        | cons p pre =>
          simp only [List.cons_append, List.cons.injEq] at heq
          obtain ⟨p', hp', hns⟩ := hpre p (List.mem_cons_self)
          rw [← heq.1, h1] at hp'
          cases hp'
          rw [hst] at hns; cases hns
      | some acc' =>
        have hns : k.isStop e' = false := by
          cases hh : k.isStop e' with
          | false => rfl
          | true => rw [(step_none k acc e').2 hh] at hs; cases hs
        simp only []
        rw [ih acc']
        constructor
        · rintro ⟨pre, y, post, heq, hy, hpre⟩
          refine ⟨e :: pre, y, post, by simp [heq], hy, ?_⟩
          intro p hp
          cases hp with
          | head => exact ⟨e', h1, hns⟩
          | tail _ hp' => exact hpre p hp'
        · rintro ⟨pre, y, post, heq, hy, hpre⟩
          cases pre with
          | nil =>
            simp only [List.nil_append, List.cons.injEq] at heq
            rw [← heq.1, h1] at hy; cases hy
          | cons p pre =>
            simp only [List.cons_append, List.cons.injEq] at heq
            exact ⟨pre, y, post, heq.2, hy, fun q hq => hpre q (List.mem_cons_of_mem _ hq)⟩

theorem simplify_error_unkeyed (T : Table) (t : Term) :
    ∀ x, simplify T t = .error x → hasUnkeyed T t = true := by
  induction t using Term.ind with
  | tt => intro x h; simp [simplify] at h
  | ff => intro x h; simp [simplify] at h
  | eq l r =>
    intro x h
    simp only [simplify] at h
    simpa [hasUnkeyed] using (simplifyEq_error_iff T l r x).1 h
  | and es ih =>
    intro x h
    simp only [simplify] at h
    obtain ⟨pre, e, post, heq, he, _⟩ := (simplifyList_error_iff T .conj x es []).1 h
    simp only [hasUnkeyed, anyUnkeyed_eq, List.any_eq_true]
    exact ⟨e, by simp [heq], ih e (by simp [heq]) x he⟩
  | or es ih =>
    intro x h
    simp only [simplify] at h
    obtain ⟨pre, e, post, heq, he, _⟩ := (simplifyList_error_iff T .disj x es []).1 h
    simp only [hasUnkeyed, anyUnkeyed_eq, List.any_eq_true]
    exact ⟨e, by simp [heq], ih e (by simp [heq]) x he⟩

theorem simplifyList_error_of_unkeyed (T : Table) (k : Kind) (es : List Term)
    (ih : ∀ e ∈ es, neverStops T e = true → hasUnkeyed T e = true → simplify T e = .error .keyError) :
    ∀ acc, neverStopsList T k es = true → anyUnkeyed T es = true →
      simplifyList T k acc es = .error .keyError := by
  induction es with
  | nil => intro acc _ h; simp [anyUnkeyed] at h
  | cons e es ihes =>
    intro acc hn hu
    simp only [neverStopsList, Bool.and_eq_true, Bool.not_eq_true'] at hn
    simp only [anyUnkeyed, Bool.or_eq_true] at hu
    simp only [simplifyList]
    cases h1 : simplify T e with
    | error x => cases x; rfl
    | ok e' =>
      simp only []
      have hue : hasUnkeyed T e = false := by
        cases hh : hasUnkeyed T e with
        | false => rfl
        | true => rw [ih e (List.mem_cons_self) hn.1.1 hh] at h1; cases h1
      have hu' : anyUnkeyed T es = true := by
        cases hu with
        | inl h => rw [hue] at h; cases h
        | inr h => exact h
      have hns : k.isStop e' = false := by simpa [h1, isOkStop] using hn.1.2
      cases hs : step k acc e' with
      | none => rw [(step_none k acc e').1 hs] at hns; cases hns
      | some acc' =>
        exact ihes (fun x hx => ih x (List.mem_cons_of_mem _ hx)) acc' hn.2 hu'

theorem simplify_error_of_unkeyed (T : Table) (t : Term) :
    neverStops T t = true → hasUnkeyed T t = true → simplify T t = .error .keyError := by
  induction t using Term.ind with
  | tt => intro _ h; simp [hasUnkeyed] at h
  | ff => intro _ h; simp [hasUnkeyed] at h
  | eq l r =>
    intro _ h
    simp only [hasUnkeyed, Bool.and_eq_true] at h
    simp only [simplify]
    exact (simplifyEq_error_iff T l r .keyError).2 h
  | and es ih =>
    intro hn hu
    simp only [neverStops] at hn
    simp only [hasUnkeyed] at hu
    simp only [simplify]
    exact simplifyList_error_of_unkeyed T .conj es ih [] hn hu
  | or es ih =>
    intro hn hu
    simp only [neverStops] at hn
    simp only [hasUnkeyed] at hu
    simp only [simplify]
    exact simplifyList_error_of_unkeyed T .disj es ih [] hn hu

/-! ### normal form -/

/-- invariant of the accumulator (`expr_set`) -/
def AccInv (k : Kind) (acc : List Term) : Prop :=
  distinctB acc = true ∧ ∀ e ∈ acc, ChildOK k e

theorem accInv_nil (k : Kind) : AccInv k [] := ⟨rfl, by simp⟩

theorem insertT_inv (k : Kind) (acc : List Term) (e : Term) (h : AccInv k acc) (he : ChildOK k e) :
    AccInv k (insertT acc e) := by
  unfold insertT
  split
  · exact h
  · rename_i hany
    refine ⟨?_, ?_⟩
    · rw [distinctB_iff, List.pairwise_append]
      refine ⟨(distinctB_iff acc).1 h.1, by simp, ?_⟩
      intro a ha b hb
      simp only [List.mem_singleton] at hb
      subst hb
      cases hab : a.beq b with
      | false => rfl
      | true => exact absurd (List.any_eq_true.2 ⟨a, ha, hab⟩) hany
    · intro x hx
      simp only [List.mem_append, List.mem_singleton] at hx
      cases hx with
      | inl hx => exact h.2 x hx
      | inr hx => exact hx ▸ he

theorem unionT_inv (k : Kind) (fs : List Term) :
    ∀ acc, AccInv k acc → (∀ f ∈ fs, ChildOK k f) → AccInv k (unionT acc fs) := by
  unfold unionT
  induction fs with
  | nil => intro acc h _; exact h
  | cons f fs ih =>
    intro acc h hfs
    rw [List.foldl_cons]
    exact ih _ (insertT_inv k acc f h (hfs f (List.mem_cons_self)))
      (fun x hx => hfs x (List.mem_cons_of_mem _ hx))

theorem children_normal (k : Kind) (e : Term) (fs : List Term) (hc : k.children? e = some fs)
    (hn : e.normal = true) : ∀ f ∈ fs, ChildOK k f := by
  cases k <;> cases e <;> simp only [Kind.children?, Option.some.injEq, reduceCtorEq] at hc
  all_goals
    subst hc
    simp only [Term.normal, Bool.and_eq_true] at hn
    exact (childrenOK_iff _ _).1 hn.2

theorem step_inv (k : Kind) (acc acc' : List Term) (e : Term) (h : AccInv k acc)
    (hn : e.normal = true) (hs : step k acc e = some acc') : AccInv k acc' := by
  unfold step at hs
  split at hs
  · cases hs
  · rename_i hstop
    split at hs
    · cases hs; exact h
    · rename_i hskip
      split at hs
      · rename_i fs hc
        cases hs
        exact unionT_inv k fs acc h (children_normal k e fs hc hn)
      · rename_i hc
        cases hs
        refine insertT_inv k acc e h ⟨hn, ?_, ?_, hc⟩
        · cases k <;> simp_all [Kind.isStop, Kind.isSkip]
        · cases k <;> simp_all [Kind.isStop, Kind.isSkip]

theorem skip_normal (k : Kind) : k.skip.normal = true := by cases k <;> rfl
theorem stop_normal (k : Kind) : k.stop.normal = true := by cases k <;> rfl

theorem finish_normal (k : Kind) (acc : List Term) (h : AccInv k acc) :
    (finish k acc).normal = true := by
  match acc, h with
  | [], _ => simp [finish, skip_normal]
  | [e], h => simp only [finish]; exact (h.2 e (by simp)).1
  | a :: b :: rest, h =>
    have hc := (childrenOK_iff k (a :: b :: rest)).2 h.2
    cases k <;> simp [finish, Kind.mk, Term.normal, h.1, hc]

theorem collect_normal (k : Kind) (es : List Term) :
    ∀ acc, AccInv k acc → (∀ e ∈ es, e.normal = true) → (collect k acc es).normal = true := by
  induction es with
  | nil => intro acc h _; simp only [collect]; exact finish_normal k acc h
  | cons e es ih =>
    intro acc h hes
    simp only [collect]
    cases hs : step k acc e with
    | none => exact stop_normal k
    | some acc' =>
      exact ih acc' (step_inv k acc acc' e h (hes e (List.mem_cons_self)) hs)
        (fun x hx => hes x (List.mem_cons_of_mem _ hx))

theorem simplifyExprs_normal (k : Kind) (es : List Term) (h : ∀ e ∈ es, e.normal = true) :
    (simplifyExprs k es).normal = true :=
  collect_normal k es [] (accInv_nil k) h

theorem mkEq_normal' (l r : String) : (mkEq l r).normal = true := by
  unfold mkEq
  split
  · rfl
  · rename_i hne
    split
    · rename_i hlt; simp [Term.normal, hlt]
    · rename_i hlt
      have : l < r := Std.lt_of_le_of_ne (String.not_lt.1 hlt) hne
      simp [Term.normal, this]

theorem build_normal' (t : Term) : (build t).normal = true := by
  induction t using Term.ind with
  | tt => rfl
  | ff => rfl
  | eq l r => simp only [build]; exact mkEq_normal' l r
  | and es ih =>
    simp only [build, buildList_eq, mkAnd]
    apply simplifyExprs_normal
    intro e he
    obtain ⟨x, hx, rfl⟩ := List.mem_map.1 he
    exact ih x hx
  | or es ih =>
    simp only [build, buildList_eq, mkOr]
    apply simplifyExprs_normal
    intro e he
    obtain ⟨x, hx, rfl⟩ := List.mem_map.1 he
    exact ih x hx

theorem simplifyList_normal (T : Table) (k : Kind) (es : List Term)
    (ih : ∀ e ∈ es, ∀ e', simplify T e = .ok e' → e'.normal = true) :
    ∀ acc t', AccInv k acc → simplifyList T k acc es = .ok t' → t'.normal = true := by
  induction es with
  | nil =>
    intro acc t' h hs
    simp only [simplifyList, Except.ok.injEq] at hs
    subst hs
    exact finish_normal k acc h
  | cons e es ihes =>
    intro acc t' h hs
    simp only [simplifyList] at hs
    cases h1 : simplify T e with
    | error x => simp [h1] at hs
    | ok e' =>
      simp only [h1] at hs
      cases hst : step k acc e' with
      | none =>
        simp only [hst, Except.ok.injEq] at hs
        subst hs
        exact stop_normal k
      | some acc' =>
        simp only [hst] at hs
        exact ihes (fun x hx => ih x (List.mem_cons_of_mem _ hx)) acc' t'
          (step_inv k acc acc' e' h (ih e (List.mem_cons_self) e' h1) hst) hs

theorem simplify_normal' (T : Table) (t : Term) :
    t.normal = true → ∀ t', simplify T t = .ok t' → t'.normal = true := by
  induction t using Term.ind with
  | tt => intro _ t' h; simp only [simplify, Except.ok.injEq] at h; subst h; rfl
  | ff => intro _ t' h; simp only [simplify, Except.ok.injEq] at h; subst h; rfl
  | eq l r =>
    intro hn t' h
    simp only [simplify, simplifyEq] at h
    split at h
    · cases h; exact hn
    · split at h
      · cases h
      · split at h
        · cases h; exact hn
        · cases h; rfl
  | and es ih =>
    intro hn t' h
    simp only [simplify] at h
    simp only [Term.normal, Bool.and_eq_true] at hn
    have hc := (childrenOK_iff _ _).1 hn.2
    exact simplifyList_normal T .conj es (fun e he => ih e he (hc e he).1) [] t' (accInv_nil _) h
  | or es ih =>
    intro hn t' h
    simp only [simplify] at h
    simp only [Term.normal, Bool.and_eq_true] at hn
    have hc := (childrenOK_iff _ _).1 hn.2
    exact simplifyList_normal T .disj es (fun e he => ih e he (hc e he).1) [] t' (accInv_nil _) h

end PytypeModel.Booleq
