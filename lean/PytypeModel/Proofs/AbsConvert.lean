/-
C06 proofs, part 1: `rpartition`/`NamedTypeWithModule` round trip, `JoinTypes` on one type, and the closed
form of convert-then-output (`reexport_same`).
-/
import PytypeModel.Pytd.AbsConvert

namespace PytypeModel.Pytd.AbsConvert
open PytypeModel.Pytd

/-! ### `joinName (splitName s) = s` -/

theorem rpartDot_spec : ∀ (cs m b : List Char), rpartDot cs = some (m, b) → cs = m ++ '.' :: b
  | [], m, b, h => by simp [rpartDot] at h
  | c :: cs, m, b, h => by
    unfold rpartDot at h
    cases hr : rpartDot cs with
    | some mb =>
      obtain ⟨m', b'⟩ := mb
      rw [hr] at h
      simp only [Option.some.injEq, Prod.mk.injEq] at h
      obtain ⟨h1, h2⟩ := h
      have := rpartDot_spec cs m' b' hr
      subst h1 h2
      simp [this]
    | none =>
      rw [hr] at h
      by_cases hc : c = '.'
      · simp only [hc, if_true, Option.some.injEq, Prod.mk.injEq] at h
        obtain ⟨h1, h2⟩ := h
        subst h1 h2 hc
        simp
      · simp [hc] at h

theorem joinName_splitName (s : String) : joinName (splitName s) = s := by
  unfold splitName
  cases h : rpartDot s.toList with
  | none => simp [joinName]
  | some mb =>
    obtain ⟨m, b⟩ := mb
    simp only [joinName]
    apply String.ext
    have := rpartDot_spec _ _ _ h
    simp [String.toList_append, this]

/-! ### `toPytd` never yields a union; when it yields `Any` / `nothing` -/

theorem toPytd_not_union (v : AVal) : isUnionTy (toPytd v) = false := by
  cases v with
  | pinst c ps =>
    simp only [toPytd]
    split <;> rfl
  | _ => rfl

theorem toPytd_eq_any (v : AVal) : (toPytd v = .any) ↔ v.isUnsolvable = true := by
  cases v with
  | pinst c ps =>
    simp only [toPytd, AVal.isUnsolvable]
    split <;> simp
  | _ => simp [toPytd, AVal.isUnsolvable]

theorem toPytd_eq_nothing (v : AVal) : (toPytd v = .nothing) ↔ v.isEmpty = true := by
  cases v with
  | pinst c ps =>
    simp only [toPytd, AVal.isEmpty]
    split <;> simp
  | _ => simp [toPytd, AVal.isEmpty]

/-! ### `JoinTypes` of a single non-union type -/

theorem flatten_single (y : Ty) (h : isUnionTy y = false) : flatten [y] = [y] := by
  cases y <;> simp_all [flatten, isUnionTy]

theorem joinTypes_single (y : Ty) (h : isUnionTy y = false) : joinTypes [y] = y := by
  unfold joinTypes
  rw [flatten_single y h]
  by_cases hn : y = .nothing
  · subst hn; simp [dedupe, joinCore]
  · simp [dedupe, hn, seenHas, joinCore]

theorem joinTypes_any : joinTypes [Ty.any] = Ty.any := by decide

/-! ### names and generics -/

theorem arity_ne_type (n : String) (k : Nat) (h : arity n = some k) : n ≠ "builtins.type" := by
  intro e; subst e; simp [arity] at h

theorem toPytdVars_replicate (k : Nat) :
    toPytdVars (List.replicate k [AVal.unsolvable]) = List.replicate k Ty.any := by
  induction k with
  | zero => simp [toPytdVars]
  | succ k ih =>
    simp only [List.replicate_succ, toPytdVars, toPytdList, toPytd, ih]
    rw [joinTypes_single _ rfl]

theorem toPytd_instOf (n : String) : toPytd (instOf n) = normName n := by
  unfold instOf normName
  by_cases h : n = "builtins.type" ∨ n = "builtins.property"
  · simp [h, toPytd]
  · simp only [h, if_false]
    cases ha : arity n with
    | none => simp [toPytd, joinName_splitName]
    | some k => simp only [toPytd, toPytdVars_replicate, joinName_splitName]

theorem toPytdVars_append (a b : List AVar) : toPytdVars (a ++ b) = toPytdVars a ++ toPytdVars b := by
  induction a with
  | nil => simp [toPytdVars]
  | cons x xs ih => simp [toPytdVars, ih]

theorem toPytdVars_length (a : List AVar) : (toPytdVars a).length = a.length := by
  induction a with
  | nil => simp [toPytdVars]
  | cons x xs ih => simp [toPytdVars, ih]

theorem toPytdVars_pad (k : Nat) (vs : List AVar) :
    toPytdVars (padParams k vs) = padTys k (toPytdVars vs) := by
  simp [padParams, padTys, toPytdVars_append, toPytdVars_replicate, toPytdVars_length]

theorem toPytd_genericVal (b : Ty) (raw : List Ty) (vs : List AVar) :
    toPytd (genericVal b raw vs) = normGeneric b raw (toPytdVars vs) := by
  unfold genericVal normGeneric
  by_cases h : tyName b = "builtins.type"
  · simp only [h, if_true]
    split <;> simp_all [toPytd, joinName_splitName]
  · simp only [h, if_false]
    cases ha : arity (tyName b) with
    | none => simp only [toPytd, joinName_splitName]
    | some k => simp only [toPytd, joinName_splitName, toPytdVars_pad]

/-! ### the round trip, nested positions -/

theorem toPytdList_append (a b : AVar) : toPytdList (a ++ b) = toPytdList a ++ toPytdList b := by
  induction a with
  | nil => simp [toPytdList]
  | cons x xs ih => simp [toPytdList, ih]

theorem normGeneric_not_union (b : Ty) (raw ps : List Ty) : isUnionTy (normGeneric b raw ps) = false := by
  unfold normGeneric
  by_cases h : tyName b = "builtins.type"
  · simp only [h, if_true]; split <;> rfl
  · simp only [h, if_false]; split <;> rfl

theorem normName_not_union (n : String) : isUnionTy (normName n) = false := by
  unfold normName
  by_cases h : n = "builtins.type" ∨ n = "builtins.property"
  · simp [h, isUnionTy]
  · simp only [h, if_false]
    cases arity n with
    | none => rfl
    | some k => simp only; split <;> rfl

mutual
theorem roundtrip_in : ∀ t : Ty, joinTypes (toPytdList (toAbsVar t)) = normIn t
  | .any => by simp [toAbsVar, toPytdList, toPytd, normIn, joinTypes_any]
  | .nothing => by simp [toAbsVar, toPytdList, normIn, joinTypes, flatten, dedupe, joinCore]
  | .union ts => by simp only [toAbsVar, normIn, roundtrip_members ts]
  | .named n => by
    simp only [toAbsVar, toPytdList, normIn, toPytd_instOf]
    exact joinTypes_single _ (normName_not_union n)
  | .cls n => by
    simp only [toAbsVar, toPytdList, normIn, toPytd_instOf]
    exact joinTypes_single _ (normName_not_union n)
  | .generic b ps => by
    simp only [toAbsVar, toPytdList, normIn, toPytd_genericVal, roundtrip_vars ps]
    exact joinTypes_single _ (normGeneric_not_union _ _ _)
  | .tuple b ps => by
    simp only [toAbsVar, toPytdList, normIn, toPytd, roundtrip_vars ps]
    exact joinTypes_single _ rfl
  | .late n => by
    simp only [toAbsVar, toPytdList, normIn, toPytd_instOf]
    exact joinTypes_single _ (normName_not_union n)
  | .typeParam _ _ => by simp [toAbsVar, toPytdList, toPytd, normIn, joinTypes_any]
  | .callable _ _ => by simp [toAbsVar, toPytdList, toPytd, normIn, joinTypes_any]
  | .literal _ => by simp [toAbsVar, toPytdList, toPytd, normIn, joinTypes_any]
  | .annotated _ _ => by simp [toAbsVar, toPytdList, toPytd, normIn, joinTypes_any]
theorem roundtrip_val : ∀ t : Ty, toPytd (toAbsVal t) = normVal t
  | .any => by simp [toAbsVal, toPytd, normVal]
  | .nothing => by simp [toAbsVal, toPytd, normVal]
  | .union _ => by simp [toAbsVal, toPytd, normVal]
  | .named n => by simp only [toAbsVal, normVal, toPytd_instOf]
  | .cls n => by simp only [toAbsVal, normVal, toPytd_instOf]
  | .generic b ps => by simp only [toAbsVal, normVal, toPytd_genericVal, roundtrip_vars ps]
  | .tuple b ps => by simp only [toAbsVal, normVal, toPytd, roundtrip_vars ps]
  | .late n => by simp only [toAbsVal, normVal, toPytd_instOf]
  | .typeParam _ _ => by simp [toAbsVal, toPytd, normVal]
  | .callable _ _ => by simp [toAbsVal, toPytd, normVal]
  | .literal _ => by simp [toAbsVal, toPytd, normVal]
  | .annotated _ _ => by simp [toAbsVal, toPytd, normVal]
theorem roundtrip_members : ∀ ts : List Ty, toPytdList (toAbsMembers ts) = normMembers ts
  | [] => by simp [toAbsMembers, toPytdList, normMembers]
  | t :: ts => by
    simp only [toAbsMembers, normMembers, toPytdList_append, roundtrip_members ts]
    by_cases h : t = .nothing
    · simp [h, toPytdList]
    · simp [h, toPytdList, roundtrip_val t]
theorem roundtrip_vars : ∀ ts : List Ty, toPytdVars (toAbsVars ts) = normIns ts
  | [] => by simp [toAbsVars, toPytdVars, normIns]
  | t :: ts => by simp only [toAbsVars, toPytdVars, normIns, roundtrip_in t, roundtrip_vars ts]
end

/-! ### the round trip at module level -/

theorem any_unsolvable_iff (v : AVar) :
    v.any AVal.isUnsolvable = (toPytdList v).any (· = .any) := by
  induction v with
  | nil => simp [toPytdList]
  | cons x xs ih =>
    simp only [List.any_cons, toPytdList, ih]
    congr 1
    have := toPytd_eq_any x
    by_cases h : x.isUnsolvable = true
    · simp [h, this.2 h]
    · have h' : ¬ toPytd x = .any := fun e => h (this.1 e)
      simp [h, h']

theorem exportTop_eq (v : AVar) : exportTop v = exportTys (toPytdList v) := by
  unfold exportTop exportTys
  rw [any_unsolvable_iff]
  by_cases h : (toPytdList v).any (· = .any) = true
  · simp [h]
  · simp only [h, if_false]
    match v with
    | [] => simp [toPytdList]
    | [x] =>
      simp only [toPytdList]
      have := toPytd_eq_nothing x
      by_cases he : x.isEmpty = true
      · simp [he, this.2 he]
      · have h' : ¬ toPytd x = .nothing := fun e => he (this.1 e)
        simp [he, h']
    | x :: y :: r => simp [toPytdList]

theorem toPytdList_toAbsVar (t : Ty) : toPytdList (toAbsVar t) = topMembers t := by
  cases t with
  | union ts => simp [toAbsVar, topMembers, roundtrip_members]
  | nothing => simp [toAbsVar, topMembers, toPytdList]
  | any => simp [toAbsVar, topMembers, toPytdList, toPytd, normVal]
  | named n => simp [toAbsVar, topMembers, toPytdList, toPytd_instOf, normVal]
  | cls n => simp [toAbsVar, topMembers, toPytdList, toPytd_instOf, normVal]
  | generic b ps => simp [toAbsVar, topMembers, toPytdList, toPytd_genericVal, normVal, roundtrip_vars]
  | tuple b ps => simp [toAbsVar, topMembers, toPytdList, toPytd, normVal, roundtrip_vars]
  | late n => simp [toAbsVar, topMembers, toPytdList, toPytd_instOf, normVal]
  | typeParam _ _ => simp [toAbsVar, topMembers, toPytdList, toPytd, normVal]
  | callable _ _ => simp [toAbsVar, topMembers, toPytdList, toPytd, normVal]
  | literal _ => simp [toAbsVar, topMembers, toPytdList, toPytd, normVal]
  | annotated _ _ => simp [toAbsVar, topMembers, toPytdList, toPytd, normVal]

/-- convert-then-output at module level is `normOut` -/
theorem reexport_eq_normOut (t : Ty) : reexport t = normOut t := by
  unfold reexport normOut
  rw [exportTop_eq, toPytdList_toAbsVar]

end PytypeModel.Pytd.AbsConvert
