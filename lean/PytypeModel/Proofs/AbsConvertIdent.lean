/-
C06 proofs, part 4: `normIn`/`normVal` do not look at the node class of a name (`strip`-invariance), and on
emitted-shape types they are the identity up to `strip` — also after `nl`.
-/
import PytypeModel.Proofs.AbsConvertShape

namespace PytypeModel.Pytd.AbsConvert
open PytypeModel.Pytd

/-! ### small facts about `strip` / `nl` / `skel` -/

theorem tyName_strip (b : Ty) : tyName (strip b) = tyName b := by
  cases b <;> simp [strip, tyName]

theorem strip_eq_nothing (t : Ty) : strip t = .nothing ↔ t = .nothing := by
  cases t <;> simp [strip]

theorem strip_name (b : Ty) (h : isNameTy b = true) : strip b = .named (tyName b) := by
  cases b <;> simp_all [isNameTy, strip, tyName]

theorem skel_eq_nothing (x : Ty) (h : skel x = .nothing) : x = .nothing := by
  cases x <;> simp_all [skel]

theorem skel_eq_any (x : Ty) (h : skel x = .any) : x = .any := by
  cases x <;> simp_all [skel]

theorem isUnionTy_skel (x : Ty) : isUnionTy (skel x) = isUnionTy x := by
  cases x <;> simp [skel, isUnionTy]

theorem strips_append (a b : List Ty) : strips (a ++ b) = strips a ++ strips b := by
  induction a with
  | nil => simp [strips]
  | cons x xs ih => simp [strips, ih]

theorem strips_eq_map (l : List Ty) : strips l = l.map strip := by
  induction l with
  | nil => rfl
  | cons x xs ih => simp [strips, ih]

theorem mem_strips (l : List Ty) (x : Ty) (h : x ∈ strips l) : ∃ y ∈ l, x = strip y := by
  rw [strips_eq_map] at h
  obtain ⟨y, hy, e⟩ := List.mem_map.1 h
  exact ⟨y, hy, e.symm⟩

/-! ### `strip`-invariance of the closed form -/

theorem normGeneric_strip (b : Ty) (raw ps : List Ty) :
    normGeneric (strip b) (strips raw) ps = normGeneric b raw ps := by
  unfold normGeneric
  rw [tyName_strip]
  by_cases h : tyName b = "builtins.type"
  · simp only [h, if_true]
    match raw with
    | [] => simp [strips]
    | [x] => cases x <;> simp [strips, strip]
    | x :: y :: r => simp [strips]
  · simp only [h, if_false]

mutual
theorem normIn_strip : ∀ t : Ty, normIn (strip t) = normIn t
  | .any | .nothing | .named _ | .cls _ | .late _ | .typeParam _ _ | .literal _ => by simp [strip, normIn]
  | .union ts => by simp only [strip, normIn, normMembers_strips ts]
  | .generic b ps => by simp only [strip, normIn, normIns_strips ps, normGeneric_strip]
  | .tuple b ps => by simp only [strip, normIn, normIns_strips ps]
  | .callable b ps => by simp [strip, normIn]
  | .annotated t as => by simp [strip, normIn]
theorem normVal_strip : ∀ t : Ty, normVal (strip t) = normVal t
  | .any | .nothing | .named _ | .cls _ | .late _ | .typeParam _ _ | .literal _ => by simp [strip, normVal]
  | .union ts => by simp [strip, normVal]
  | .generic b ps => by simp only [strip, normVal, normIns_strips ps, normGeneric_strip]
  | .tuple b ps => by simp only [strip, normVal, normIns_strips ps]
  | .callable b ps => by simp [strip, normVal]
  | .annotated t as => by simp [strip, normVal]
theorem normMembers_strips : ∀ ts : List Ty, normMembers (strips ts) = normMembers ts
  | [] => by simp [strips]
  | t :: ts => by
    simp only [strips, normMembers, normVal_strip t, normMembers_strips ts, strip_eq_nothing]
theorem normIns_strips : ∀ ts : List Ty, normIns (strips ts) = normIns ts
  | [] => by simp [strips]
  | t :: ts => by simp only [strips, normIns, normIn_strip t, normIns_strips ts]
end

theorem topMembers_strip (t : Ty) : topMembers (strip t) = topMembers t := by
  cases t <;> simp [strip, topMembers, normMembers_strips, normVal, normIns_strips, normGeneric_strip]

theorem normOut_strip (t : Ty) : normOut (strip t) = normOut t := by
  unfold normOut; rw [topMembers_strip]

/-! ### inversion of `emitted` -/

theorem emitted_generic_inv (b : Ty) (ps : List Ty) (h : emitted (.generic b ps) = true) :
    isNameTy b = true ∧
    ((tyName b = "builtins.type" ∧ ∃ c, ps = [.named c] ∨ ps = [.cls c] ∨ ps = [.late c]) ∨
     (tyName b ≠ "builtins.type" ∧ ∃ k, arity (tyName b) = some k ∧ ps.length = k ∧ emittedP ps = true)) := by
  simp only [emitted, Bool.and_eq_true] at h
  refine ⟨h.1, ?_⟩
  have h2 := h.2
  by_cases hb : tyName b = "builtins.type"
  · left
    refine ⟨hb, ?_⟩
    simp only [hb, if_true] at h2
    split at h2
    · rename_i c; exact ⟨c, Or.inl rfl⟩
    · rename_i c; exact ⟨c, Or.inr (Or.inl rfl)⟩
    · rename_i c; exact ⟨c, Or.inr (Or.inr rfl)⟩
    · simp at h2
  · right
    refine ⟨hb, ?_⟩
    simp only [hb, if_false, Bool.and_eq_true] at h2
    cases ha : arity (tyName b) with
    | none => simp [ha] at h2
    | some k =>
      simp only [ha, Bool.and_eq_true, beq_iff_eq] at h2
      exact ⟨k, rfl, h2.1.1, h2.2⟩

theorem isUnionTy_nl (t : Ty) : isUnionTy (nl t) = isUnionTy t := by
  cases t <;> simp [nl, isUnionTy]

theorem normName_emitted (n : String) (h1 : n ≠ "builtins.type") (h2 : n ≠ "builtins.property")
    (h3 : (arity n).isNone = true) : normName n = .named n := by
  unfold normName
  have : ¬ (n = "builtins.type" ∨ n = "builtins.property") := by
    intro h; rcases h with h | h <;> contradiction
  simp only [this, if_false]
  cases ha : arity n with
  | none => rfl
  | some k => simp [ha] at h3

/-- a fully parameterised container re-exports to itself -/
theorem normGeneric_full (b : Ty) (raw ps : List Ty) (k : Nat) (hn : isNameTy b = true)
    (hb : tyName b ≠ "builtins.type") (ha : arity (tyName b) = some k) (hlen : ps.length = k) :
    normGeneric b raw ps = .generic (strip b) ps := by
  unfold normGeneric
  simp only [hb, if_false, ha]
  have hk : k ≠ 0 := arity_pos _ _ ha
  have hpad : padTys k ps = ps := by simp [padTys, hlen]
  rw [hpad, strip_name b hn]
  cases ps with
  | nil => simp at hlen; exact absurd hlen.symm hk
  | cons x xs => rfl

theorem normGeneric_type (b : Ty) (raw ps : List Ty) (c : String) (hn : isNameTy b = true)
    (hb : tyName b = "builtins.type") (hraw : raw = [.named c] ∨ raw = [.cls c] ∨ raw = [.late c]) :
    normGeneric b raw ps = .generic (strip b) [.named c] := by
  unfold normGeneric
  simp only [hb, if_true]
  rw [strip_name b hn, hb]
  rcases hraw with e | e | e <;> subst e <;> rfl

/-! ### the identity on emitted-shape types -/

theorem emitted_of_or (t : Ty) (hne : t ≠ .nothing) (h : t = .nothing ∨ emitted t = true) :
    emitted t = true := by
  rcases h with h | h
  · exact absurd h hne
  · exact h

/-- what the mutual induction proves for one type `t` -/
def FixBoth (f : Ty → Ty) (t : Ty) : Prop := f t = strip t ∧ f (nl t) = strip (nl t)

theorem members_fix_union (ts : List Ty)
    (hm : ∀ m ∈ ts, isUnionTy m = false ∧ m ≠ .any ∧ m ≠ .nothing ∧ FixBoth normVal m)
    (hs : nodupTys (skels ts) = true) (hlen : 2 ≤ ts.length) :
    FixBoth normIn (.union ts) := by
  constructor
  · -- normIn (union ts) = union (strips ts)
    simp only [normIn, strip]
    rw [← normMembers_strips]
    apply joinTypes_members_id
    · intro m' hm'
      obtain ⟨m, hmem, e⟩ := mem_strips ts m' hm'
      subst e
      have := hm m hmem
      refine ⟨by rw [normVal_strip]; exact this.2.2.2.1, ?_, ?_, ?_⟩
      · rw [← isUnionTy_skel, skel_strip, isUnionTy_skel]; exact this.1
      · intro e; exact this.2.2.1 ((strip_eq_nothing m).1 e)
      · intro e; exact this.2.1 (skel_eq_any m (by rw [← skel_strip, e]; rfl))
    · rw [skels_strips]; exact hs
    · rw [strips_length]; exact hlen
  · -- the same after None has been moved last
    simp only [nl, normIn, strip]
    rw [← normMembers_strips]
    apply joinTypes_members_id
    · intro m' hm'
      obtain ⟨m1, hmem1, e⟩ := mem_strips _ m' hm'
      subst e
      have hmem2 := (mem_noneLastR (nls ts) m1).1 hmem1
      obtain ⟨m, hmem, e⟩ := mem_nls ts m1 hmem2
      subst e
      have := hm m hmem
      have hsk : skel (strip (nl m)) = skel m := by rw [skel_strip, skel_nl]
      refine ⟨by rw [normVal_strip]; exact this.2.2.2.2, ?_, ?_, ?_⟩
      · rw [← isUnionTy_skel, hsk, isUnionTy_skel]; exact this.1
      · intro e; exact this.2.2.1 (skel_eq_nothing m (by rw [← hsk, e]; rfl))
      · intro e; exact this.2.1 (skel_eq_any m (by rw [← hsk, e]; rfl))
    · rw [skels_strips]
      apply nodup_skels_noneLastR
      rw [skels_nls]; exact hs
    · rw [strips_length, length_noneLastR, nls_length]; exact hlen

mutual
theorem identV : ∀ t : Ty, emitted t = true → isUnionTy t = false → FixBoth normVal t
  | .any, _, _ => by simp [FixBoth, normVal, nl, strip]
  | .nothing, h, _ => by simp [emitted] at h
  | .union _, _, hu => by simp [isUnionTy] at hu
  | .named n, h, _ => by
    simp only [emitted, Bool.and_eq_true, decide_eq_true_eq] at h
    simp [FixBoth, normVal, nl, strip, normName_emitted n h.1.1 h.1.2 h.2]
  | .cls n, h, _ => by
    simp only [emitted, Bool.and_eq_true, decide_eq_true_eq] at h
    simp [FixBoth, normVal, nl, strip, normName_emitted n h.1.1 h.1.2 h.2]
  | .late n, h, _ => by
    simp only [emitted, Bool.and_eq_true, decide_eq_true_eq] at h
    simp [FixBoth, normVal, nl, strip, normName_emitted n h.1.1 h.1.2 h.2]
  | .generic b ps, h, _ => by
    obtain ⟨hn, hcase⟩ := emitted_generic_inv b ps h
    rcases hcase with ⟨hb, c, hc⟩ | ⟨hb, k, ha, hlen, hp⟩
    · have hnl : nls ps = ps := by rcases hc with e | e | e <;> subst e <;> rfl
      have hst : strips ps = [.named c] := by rcases hc with e | e | e <;> subst e <;> rfl
      simp only [FixBoth, normVal, nl, strip, hnl, hst, normGeneric_type b ps _ c hn hb hc]
      constructor <;> first | rfl | trivial
    · have ih := identPs ps hp
      simp only [FixBoth, normVal, nl, strip]
      rw [ih.1, ih.2, normGeneric_full b ps _ k hn hb ha (by rw [strips_length]; exact hlen),
        normGeneric_full b (nls ps) _ k hn hb ha (by rw [strips_length, nls_length]; exact hlen)]
      constructor <;> first | rfl | trivial
  | .tuple b ps, h, _ => by
    simp only [emitted, Bool.and_eq_true, beq_iff_eq] at h
    have ih := identPs ps h.2
    have hb : strip b = .named "builtins.tuple" := by rw [strip_name b h.1.1, h.1.2]
    simp only [FixBoth, normVal, nl, strip, ih.1, ih.2, hb]
    constructor <;> first | rfl | trivial
  | .typeParam _ _, h, _ => by simp [emitted] at h
  | .callable _ _, h, _ => by simp [emitted] at h
  | .literal _, h, _ => by simp [emitted] at h
  | .annotated _ _, h, _ => by simp [emitted] at h
theorem identP : ∀ t : Ty, (t = .nothing ∨ emitted t = true) → FixBoth normIn t
  | .union ts, h => by
    have he : emitted (.union ts) = true := by
      rcases h with h | h
      · simp at h
      · exact h
    simp only [emitted, Bool.and_eq_true, decide_eq_true_eq] at he
    exact members_fix_union ts (identM ts he.1.2) he.2 he.1.1
  | .nothing, _ => by simp [FixBoth, normIn, nl, strip]
  | .any, _ => by simp [FixBoth, normIn, nl, strip]
  | .named n, h => by
    have := identV (.named n) (emitted_of_or _ (by simp) h) rfl
    simpa [FixBoth, normIn, normVal, nl] using this
  | .cls n, h => by
    have := identV (.cls n) (emitted_of_or _ (by simp) h) rfl
    simpa [FixBoth, normIn, normVal, nl] using this
  | .late n, h => by
    have := identV (.late n) (emitted_of_or _ (by simp) h) rfl
    simpa [FixBoth, normIn, normVal, nl] using this
  | .generic b ps, h => by
    have := identV (.generic b ps) (emitted_of_or _ (by simp) h) rfl
    simpa [FixBoth, normIn, normVal, nl] using this
  | .tuple b ps, h => by
    have := identV (.tuple b ps) (emitted_of_or _ (by simp) h) rfl
    simpa [FixBoth, normIn, normVal, nl] using this
  | .typeParam _ _, h => by rcases h with h | h <;> simp [emitted] at h
  | .callable _ _, h => by rcases h with h | h <;> simp [emitted] at h
  | .literal _, h => by rcases h with h | h <;> simp [emitted] at h
  | .annotated _ _, h => by rcases h with h | h <;> simp [emitted] at h
theorem identPs : ∀ ts : List Ty, emittedP ts = true →
    normIns ts = strips ts ∧ normIns (nls ts) = strips (nls ts)
  | [], _ => by simp [normIns, strips, nls]
  | t :: ts, h => by
    simp only [emittedP, Bool.and_eq_true, Bool.or_eq_true, decide_eq_true_eq] at h
    have h1 := identP t h.1
    have h2 := identPs ts h.2
    simp only [normIns, strips, nls, h1.1, h1.2, h2.1, h2.2]
    constructor <;> first | rfl | trivial
theorem identM : ∀ ts : List Ty, emittedM ts = true →
    ∀ m ∈ ts, isUnionTy m = false ∧ m ≠ .any ∧ m ≠ .nothing ∧ FixBoth normVal m
  | [], _ => by intro m hm; simp at hm
  | t :: ts, h => by
    simp only [emittedM, Bool.and_eq_true, Bool.not_eq_true', decide_eq_true_eq] at h
    intro m hm
    rcases List.mem_cons.1 hm with e | hm'
    · rw [e]
      refine ⟨h.1.1.1, h.1.1.2, ?_, identV t h.1.2 h.1.1.1⟩
      intro e2; rw [e2] at h; simp [emitted] at h
    · exact identM ts h.2 m hm'
end

end PytypeModel.Pytd.AbsConvert
