import PytypeModel.Proofs.PyiTypesD

/-! C05, types, part E: `Annotated`, generic types, tuples, callables. -/
namespace PytypeModel.Pytd

/-! ### `Annotated` -/

theorem unquote_spec {s c : String} (h : unquote s = some c) : s = "'" ++ c ++ "'" := by
  unfold unquote at h
  split at h
  · next rest hs =>
    split at h
    · next mid hr =>
      simp only [Option.some.injEq] at h
      subst h
      have hrest : rest = mid.reverse ++ ['\''] := by
        have := congrArg List.reverse hr
        simpa using this
      have : s = String.ofList s.toList := (String.ofList_toList).symm
      rw [this, hs, hrest]
      have e1 : ("'" : String) = String.ofList ['\''] := by decide
      rw [e1, ← String.ofList_append, ← String.ofList_append]
      simp
    · simp at h
  · simp at h

theorem metaString_ann {a : String} (h : quotedPlain a = true) : metaString (annExpr a) = .ok a := by
  unfold quotedPlain at h
  unfold annExpr
  split at h
  · next c hc =>
    rw [hc]
    simp only [metaString, pyReprStr]
    rw [← unquote_spec hc]
  · simp at h

theorem metaStrings_ann : ∀ {as : List String}, as.all quotedPlain = true →
    metaStrings (as.map annExpr) = .ok as
  | [], _ => rfl
  | a :: as, h => by
    simp only [List.all_cons, Bool.and_eq_true] at h
    simp only [List.map_cons, metaStrings, metaString_ann h.1, metaStrings_ann h.2]
    rfl

theorem good_annotated {g : GCtx} (hg : GOK g) (ip : Bool) (t : Ty) (as : List String)
    (hne : as ≠ []) (hq : as.all quotedPlain = true) (ih : TyGood g ip t)
    (hsub : ∀ x ∈ tyAdds ip (.annotated t as), x ∈ g.adds) : TyGood g ip (.annotated t as) := by
  obtain ⟨ih1, ih2, ih3⟩ := ih
  have hn : normTy g.tps ip (.annotated t as) = .annotated (normTy g.tps ip t) as := by simp [normTy]
  refine ⟨?_, ?_, ?_⟩
  · rw [hn]; simp [tyExpr, ih1]
  · intro X; rw [hn]; simp [tyAdds, ih2 X]
  · intro d henv
    have hAnn : "Annotated" ∈ g.adds := hsub _ (by simp [tyAdds])
    have hsp : special d "Annotated" = .annotated := by
      rw [special_of_single henv (by decide) (adds_not_alias hg hAnn)]; rfl
    obtain ⟨pre, hp1, hp2, _⟩ := ih3 d (henv.mono (by intro x hx; simp [tyAdds, hx]))
    refine ⟨.annotated pre as, ?_, ?_, headOK_empty rfl⟩
    · have he : tyExpr ip (.annotated t as) = .sub (.name "Annotated") (tyExpr ip t :: as.map annExpr) := by
        simp [tyExpr]
      rw [he]
      cases as with
      | nil => exact absurd rfl hne
      | cons a as' =>
        simp only [parseTy, dottedName, hsp, List.map_cons, hp1]
        have := metaStrings_ann hq
        simp only [List.map_cons] at this
        rw [this]
        rfl
    · rw [hn]; simp [postTy, hp2]

/-! ### the base of a subscript -/

theorem fBase_cases {g : GCtx} {n : String} (h : fBase g n = true) :
    fName g n = true ∧
    ((∃ x, (classify n = .simple x ∨ classify n = .builtin x) ∧ g.tps.contains x = false ∧ x ≠ "NoneType") ∨
     (∃ x, classify n = .typing x ∧ typingBannedBase.contains x = false)) := by
  unfold fBase at h
  simp only [Bool.and_eq_true] at h
  obtain ⟨h1, h2⟩ := h
  refine ⟨h1, ?_⟩
  cases hc : classify n with
  | simple x => rw [hc] at h2; exact Or.inl ⟨x, Or.inl rfl, by simpa using h2⟩
  | builtin x => rw [hc] at h2; exact Or.inl ⟨x, Or.inr rfl, by simpa using h2⟩
  | typing x => rw [hc] at h2; exact Or.inr ⟨x, rfl, by simpa using h2⟩
  | dotted cs => rw [hc] at h2; simp at h2

end PytypeModel.Pytd
