import PytypeModel.Sem.Dispatch

/-! Helper lemmas for C14: table lookups, MRO lookups, and the user-class operator dispatch of
pytype (`modelBinop`) against CPython's `binary_op1`/`slot_nb_*` (`cpyBinop`). -/
namespace PytypeModel.Dispatch

/-! ### table rows -/

theorem keyEq_iff {a b : RowKey} : keyEq a b = true ↔ a = b := by
  obtain ⟨a1, a2, a3, a4⟩ := a
  obtain ⟨b1, b2, b3, b4⟩ := b
  simp [keyEq]

theorem any_keyEq_iff {exc : List RowKey} {k : RowKey} : exc.any (keyEq k) = true ↔ k ∈ exc := by
  rw [List.any_eq_true]
  constructor
  · rintro ⟨x, hx, he⟩
    rw [keyEq_iff.1 he]
    exact hx
  · intro h
    exact ⟨k, h, keyEq_iff.2 rfl⟩

theorem BView.find_some {T : BView} {k : RowKey} {r : Row} (h : T.find k = some r) :
    (∃ ch ∈ T.chunks, r ∈ ch) ∧ r.key = k := by
  unfold BView.find at h
  simp only at h
  split at h
  · rename_i r' hr'
    split at h
    · rename_i hk
      cases h
      refine ⟨?_, keyEq_iff.1 hk⟩
      have hmem := List.mem_of_getElem? hr'
      refine ⟨_, ?_, hmem⟩
      rw [List.getD_eq_getElem?_getD] at hmem ⊢
      cases hc : T.chunks[T.index k / T.chunkSize]? with
      | none => rw [hc] at hmem; simp at hmem
      | some ch => simpa using List.mem_of_getElem? hc
    · cases h
  · cases h

/-- clause 1 on table rows, outside the exception list -/
def RowsOK1 (T : BView) (exc : List RowKey) : Bool :=
  T.chunks.all fun ch => ch.all fun r => (!r.py || r.cpy.all Outcome.bad) || exc.any (keyEq r.key)

/-- clause 2 on table rows, outside the exception list -/
def RowsOK2 (T : BView) (exc : List RowKey) : Bool :=
  T.chunks.all fun ch => ch.all fun r =>
    (!r.adv || r.py || r.cpy.all (fun o => !o.bad)) || exc.any (keyEq r.key)

theorem py_bad_of_rowsOK1 {T : BView} {exc : List RowKey} (hT : RowsOK1 T exc = true)
    {k : RowKey} (hk : k ∉ exc) (hpy : T.py k = true) : (T.cpy k).all Outcome.bad = true := by
  unfold BView.py at hpy
  unfold BView.cpy
  cases hf : T.find k with
  | none => simp
  | some r =>
    rw [hf] at hpy
    obtain ⟨⟨ch, hch, hmem⟩, hkey⟩ := BView.find_some hf
    have := (List.all_eq_true.mp ((List.all_eq_true.mp hT) ch hch)) r hmem
    simp only [Bool.or_eq_true, Bool.not_eq_true'] at this
    rcases this with (h | h) | h
    · simp only at hpy
      rw [hpy] at h
      exact absurd h (by decide)
    · exact h
    · rw [hkey] at h
      exact absurd (any_keyEq_iff.1 h) hk

theorem py_of_rowsOK2 {T : BView} {exc : List RowKey} (hT : RowsOK2 T exc = true)
    {k : RowKey} (hk : k ∉ exc) (hadv : T.adv k = true) (hbad : (T.cpy k).any Outcome.bad = true) :
    T.py k = true := by
  unfold BView.adv at hadv
  unfold BView.cpy at hbad
  unfold BView.py
  cases hf : T.find k with
  | none => rw [hf] at hadv; simp at hadv
  | some r =>
    rw [hf] at hadv hbad
    obtain ⟨⟨ch, hch, hmem⟩, hkey⟩ := BView.find_some hf
    have := (List.all_eq_true.mp ((List.all_eq_true.mp hT) ch hch)) r hmem
    simp only [Bool.or_eq_true, Bool.not_eq_true'] at this
    rcases this with ((h | h) | h) | h
    · simp only at hadv
      rw [hadv] at h
      exact absurd h (by decide)
    · exact h
    · simp only at hbad
      obtain ⟨o, ho, hob⟩ := List.any_eq_true.mp hbad
      have := (List.all_eq_true.mp h) o ho
      rw [hob] at this
      exact absurd this (by decide)
    · rw [hkey] at h
      exact absurd (any_keyEq_iff.1 h) hk

/-! ### MRO lookups -/

theorem findDefiner_none_iff (H : Hier) (n : String) (l : List Nat) :
    findDefiner H n l = none ↔ ∀ d ∈ l, ownMember H d n = none := by
  induction l with
  | nil => simp [findDefiner]
  | cons d ds ih =>
    unfold findDefiner
    cases h : ownMember H d n with
    | none => simp [ih, h]
    | some m => simp [h]

theorem findDefiner_some {H : Hier} {n : String} {l : List Nat} {d : Nat} {m : Member}
    (h : findDefiner H n l = some (d, m)) : d ∈ l ∧ ownMember H d n = some m := by
  induction l with
  | nil => simp [findDefiner] at h
  | cons e es ih =>
    unfold findDefiner at h
    cases ho : ownMember H e n with
    | none =>
      rw [ho] at h
      obtain ⟨h1, h2⟩ := ih h
      exact ⟨List.mem_cons_of_mem _ h1, h2⟩
    | some m' =>
      rw [ho] at h
      simp only [Option.some.injEq, Prod.mk.injEq] at h
      obtain ⟨rfl, rfl⟩ := h
      exact ⟨List.mem_cons_self, ho⟩

theorem cpyGetAttr_eq_pyGetAttr (H : Hier) (c : Nat) (n : String) :
    cpyGetAttr H c n = pyGetAttr H c n := by
  unfold cpyGetAttr pyGetAttr
  cases lookupCls H c n with
  | none => cases (instAttrs H c).contains n <;> simp
  | some p => cases (instAttrs H c).contains n <;> simp

/-! ### user-class binary dispatch -/

/-- a slot call that did not produce a value -/
def CRes.noVal : CRes → Bool
  | .val _ => false
  | _ => true

theorem CRes.outcome_of_noVal {r : CRes} (h : r.noVal = true) : r.outcome = .typeError := by
  cases r <;> simp_all [CRes.noVal, CRes.outcome]

/-- the option `(u c, _, name)` does not return -/
def optFails (H : Hier) (c : Nat) (n : String) : Bool :=
  match lookupCls H c n with
  | some (_, .method _) => false
  | _ => true

theorem callMaybe_noVal_of_optFails {H : Hier} {c : Nat} {n : String} (h : optFails H c n = true) :
    (callMaybe H c n).noVal = true := by
  unfold optFails at h
  unfold callMaybe
  split <;> simp_all [CRes.noVal]

theorem pyOption_u (T : BView) (H : Hier) (op : Op) (refl : Bool) (c : Nat) (y : Operand) :
    (∃ r, pyOption T H op refl (.u c) y = .returns r) ↔
      optFails H c (if refl then op.rname else op.name) = false := by
  simp only [pyOption, optFails]
  cases lookupCls H c (if refl = true then op.rname else op.name) with
  | none => simp
  | some p =>
    obtain ⟨d, m⟩ := p
    cases m <;> simp

theorem noVal_ite {c : Prop} [Decidable c] {x y : CRes} (hx : x.noVal = true) (hy : y.noVal = true) :
    (if c then x else y).noVal = true := by
  split <;> assumption

theorem slotNb_noVal {H : Hier} {op : Op} {a b : Nat}
    (h1 : (callMaybe H a op.name).noVal = true) (h2 : (callMaybe H b op.rname).noVal = true) :
    (slotNb H op a b).noVal = true := by
  have h0 : CRes.notImpl.noVal = true := rfl
  unfold slotNb
  simp only []
  refine noVal_ite (noVal_ite (noVal_ite h2 h0) (noVal_ite h1 (noVal_ite h2 h0))) (noVal_ite h2 h0)

theorem binaryOp1UU_noVal {H : Hier} {op : Op} {a b : Nat}
    (h1 : (callMaybe H a op.name).noVal = true) (h2 : (callMaybe H b op.rname).noVal = true) :
    (binaryOp1UU H op a b).noVal = true := by
  unfold binaryOp1UU
  simp only
  have := slotNb_noVal (H := H) (op := op) h1 h2
  split
  · split
    · exact this
    · rfl
  · split
    · exact this
    · rfl

/-- both orders of the two-element option list fail iff both options fail -/
theorem pyTry_two_err {T : BView} {H : Hier} {op : Op} {o1 o2 : Operand × Operand × Bool} :
    (pyTryOptions T H op [o1, o2]).isErr = true ↔
      (∀ r, pyOption T H op o1.2.2 o1.1 o1.2.1 ≠ .returns r) ∧
      (∀ r, pyOption T H op o2.2.2 o2.1 o2.2.1 ≠ .returns r) := by
  obtain ⟨l1, r1, f1⟩ := o1
  obtain ⟨l2, r2, f2⟩ := o2
  simp only [pyTryOptions]
  cases h1 : pyOption T H op f1 l1 r1 <;> cases h2 : pyOption T H op f2 l2 r2 <;>
    simp [PyRes.isErr]

theorem modelBinop_err_iff (T : BView) (H : Hier) (op : Op) (x y : Operand)
    (hxy : ∀ k k', ¬ (x = .b k ∧ y = .b k')) :
    (modelBinop T H x op y).isErr = true ↔
      (∀ r, pyOption T H op false x y ≠ .returns r) ∧ (∀ r, pyOption T H op true y x ≠ .returns r) := by
  have key : (modelBinop T H x op y) = pyTryOptions T H op (pyOptions H op x y) := by
    unfold modelBinop
    cases x <;> cases y <;> simp_all
  rw [key]
  have two : ∀ b : Bool,
      (pyTryOptions T H op (if b then [(x, y, false), (y, x, true)].reverse
        else [(x, y, false), (y, x, true)])).isErr = true ↔
      (∀ r, pyOption T H op false x y ≠ .returns r) ∧ (∀ r, pyOption T H op true y x ≠ .returns r) := by
    intro b
    cases b
    · simpa using pyTry_two_err (T := T) (H := H) (op := op) (o1 := (x, y, false)) (o2 := (y, x, true))
    · have := pyTry_two_err (T := T) (H := H) (op := op) (o1 := (y, x, true)) (o2 := (x, y, false))
      simp only [List.reverse_cons, List.reverse_nil, List.nil_append, List.cons_append, if_true]
      rw [this]
      exact And.comm
  unfold pyOptions
  cases x <;> cases y
  · simpa using two false
  · simpa using two false
  · simpa using two false
  · rename_i c c'
    simpa using two (overrides H c' c op.rname)

end PytypeModel.Dispatch
