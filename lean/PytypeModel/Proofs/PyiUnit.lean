import PytypeModel.Proofs.PyiUnitD

/-! C05, unit level: `convert (print u) = norm u` on the fragment. -/
namespace PytypeModel.Pytd

/-- the fragment guards, unpacked -/
structure Frag (u : TUnit) : Prop where
  modelled : modelled u = true
  consts : u.constants.all (fConst (unitCtx u)) = true
  tps : u.typeParams.all (fDecl (unitCtx u)) = true
  aliases : u.aliases.all (fAlias (unitCtx u)) = true
  noClass : u.classes = []
  noFunc : u.functions = []
  namesOnce : (unitNames u).Nodup
  noneTps : (unitCtx u).tps.contains "NoneType" = false
  noneAlias : (unitCtx u).aliasNames.contains "NoneType" = false
  noTyping : (unitNames u).contains "typing" = false

theorem frag_of_inFragment {u : TUnit} (h : inFragment u = true) : Frag u := by
  unfold inFragment fragmentGuards at h
  simp only [List.all_cons, List.all_nil, Bool.and_true, Bool.and_eq_true, decide_eq_true_eq,
    Bool.not_eq_true', List.isEmpty_iff] at h
  obtain ⟨h1, h2, h3, h4, h5, h6, h7, ⟨h8, h9⟩, h10⟩ := h
  exact ⟨h1, h2, h3, h4, h5, h6, h7, h8, h9, h10⟩

theorem modelled_collision {u : TUnit} (h : modelled u = true) :
    ∀ x ∈ (unitCtx u).adds, (unitCtx u).declared.contains x = false := by
  unfold modelled modelledGuards at h
  simp only [List.all_cons, List.all_nil, Bool.and_true, Bool.and_eq_true] at h
  have hc := h.1.2.2.2.2.2.1
  intro x hx
  have := List.all_eq_true.1 hc x hx
  simpa using this

theorem fDecl_ident {g : GCtx} {d : TypeParamDecl} (h : fDecl g d = true) : identOK d.name = true := by
  unfold fDecl mDecl at h
  simp only [Bool.and_eq_true] at h
  exact h.1.1.1.1

theorem gok_of_frag {u : TUnit} (hf : Frag u) : GOK (unitCtx u) := by
  refine ⟨hf.noneTps, ?_, ?_, hf.noneAlias⟩
  · intro x hx
    simp only [unitCtx, List.mem_map] at hx
    obtain ⟨d, hd, rfl⟩ := hx
    exact identOK_comps (fDecl_ident (List.all_eq_true.1 hf.tps d hd))
  · intro x hx
    have hdecl := modelled_collision hf.modelled x hx
    rw [Bool.eq_false_iff] at hdecl ⊢
    intro ha
    apply hdecl
    rw [List.contains_iff_mem] at ha ⊢
    simp only [unitCtx] at ha ⊢
    simp only [List.mem_append]
    exact Or.inr ha

theorem mem_unitAdds_const {u : TUnit} {c : Const} (hc : c ∈ u.constants) :
    ∀ x ∈ constAdds c, x ∈ unitAdds u := by
  intro x hx
  unfold unitAdds
  simp only [List.mem_append, List.mem_flatten, List.mem_map]
  exact Or.inl (Or.inl (Or.inl (Or.inl ⟨_, ⟨c, hc, rfl⟩, hx⟩)))

theorem mem_unitAdds_tp {u : TUnit} {t : TypeParamDecl} (ht : t ∈ u.typeParams) :
    ∀ x ∈ typeParamAdds t, x ∈ unitAdds u := by
  intro x hx
  unfold unitAdds
  simp only [List.mem_append, List.mem_flatten, List.mem_map]
  exact Or.inl (Or.inl (Or.inl (Or.inr ⟨_, ⟨t, ht, rfl⟩, hx⟩)))

theorem mem_unitAdds_alias {u : TUnit} {a : Alias} (ha : a ∈ u.aliases) :
    ∀ x ∈ tyAdds false a.ty, x ∈ unitAdds u := by
  intro x hx
  unfold unitAdds
  simp only [List.mem_append, List.mem_flatten, List.mem_map]
  exact Or.inr ⟨_, ⟨a, ha, rfl⟩, hx⟩

theorem classStmts_nil (path : List String) : classStmts path [] = [] := by simp [classStmts]
theorem normClasses_nil (tps path : List String) : normClasses tps path [] = [] := by simp [normClasses]
theorem postClasses_nil (tps : List String) : postClasses tps [] = [] := by simp [postClasses]

/-- **parse ∘ print = norm** on the fragment -/
theorem convert_print {u : TUnit} (hfr : inFragment u = true) :
    convert (printUnit u) = .ok (normUnit u) := by
  have hf := frag_of_inFragment hfr
  have hg := gok_of_frag hf
  let g := unitCtx u
  have hadds : g.adds = unitAdds u := rfl
  have htps : g.tps = u.typeParams.map (·.name) := rfl
  -- the sections of the printed module
  obtain ⟨dI, hI, henvI, hItp, hIal⟩ := imports_ok g
  have hsorted_f : (sortDecls u.typeParams).all (fDecl g) = true := by
    rw [List.all_eq_true]
    intro t ht
    exact List.all_eq_true.1 hf.tps t (mem_sortDecls.1 ht)
  obtain ⟨pds, hT, hT2, hT3⟩ := tps_stmts hg (sortDecls u.typeParams) dI henvI hsorted_f
    (fun t ht => mem_unitAdds_tp (mem_sortDecls.1 ht))
  have henvT : EnvOK g { dI with typeParams := dI.typeParams ++ pds } g.adds := henvI.setTypeParams _
  obtain ⟨pas, hA, hA2, hA3, hA4⟩ := aliases_stmts hg u.aliases _ henvT hf.aliases
    (fun a ha => mem_unitAdds_alias ha)
    (fun a ha => List.contains_iff_mem.2 (List.mem_map.2 ⟨a, ha, rfl⟩))
  have henvA := EnvOK.addAliases hg henvT pas.reverse (by
    intro k hk
    rw [List.map_reverse, List.mem_reverse, hA2] at hk
    exact List.contains_iff_mem.2 hk)
  obtain ⟨pcs, hC, hC2, hC3⟩ := consts_stmts hg henvA [] u.constants hf.consts
    (fun c hc => mem_unitAdds_const hc)
  -- put the sections together
  have hprint : printUnit u = importStmts g.adds ++ ((sortDecls u.typeParams).map typeParamStmt ++
      (u.aliases.map aliasStmt ++ u.constants.map constStmt)) := by
    unfold printUnit
    rw [hf.noClass, hf.noFunc, classStmts_nil]
    simp [hadds]
  have hconv : convStmts {} [] (printUnit u) =
      .ok ({ typeMap := pas.reverse ++ dI.typeMap, typeParams := dI.typeParams ++ pds,
             aliases := pas.reverse ++ dI.aliases }, pas.map aliasItem ++ pcs.map Item.const) := by
    rw [hprint, convStmts_append _ _ _ _ hI, convStmts_append _ _ _ _ hT, convStmts_append _ _ _ _ hA, hC]
    rfl
  unfold convert
  rw [hconv]
  simp only [bind, Except.bind]
  -- build_type_decl_unit
  have hnames := hf.namesOnce
  unfold unitNames at hnames
  rw [hf.noFunc, hf.noClass] at hnames
  simp only [List.map_nil, List.nil_append, List.append_nil] at hnames
  have hnc : (u.constants.map (·.name)).Nodup := (List.nodup_append.1 (List.nodup_append.1 hnames).1).1
  have hnt : (u.typeParams.map (·.name)).Nodup := (List.nodup_append.1 (List.nodup_append.1 hnames).1).2.1
  have hna : (u.aliases.map (·.name)).Nodup := (List.nodup_append.1 hnames).2.1
  have hslots : ∀ c ∈ pcs, c.name ≠ "__slots__" := by
    intro c hc
    have : c.name ∈ pcs.map (·.name) := List.mem_map.2 ⟨c, hc, rfl⟩
    rw [hC3] at this
    obtain ⟨c0, hc0, he⟩ := List.mem_map.1 this
    have hfc := List.all_eq_true.1 hf.consts c0 hc0
    unfold fConst at hfc
    simp only [Bool.and_eq_true, Bool.not_eq_true'] at hfc
    rw [← he]
    exact (specialDecl_facts hfc.2).2.1
  have hnotyping : ∀ c ∈ pcs, c.name ≠ "typing" := by
    intro c hc e
    have : c.name ∈ pcs.map (·.name) := List.mem_map.2 ⟨c, hc, rfl⟩
    rw [hC3, e] at this
    have hnt' := hf.noTyping
    rw [Bool.eq_false_iff] at hnt'
    apply hnt'
    rw [List.contains_iff_mem]
    unfold unitNames
    simp only [List.mem_append]
    exact Or.inl (Or.inl (Or.inl (Or.inr this)))
  let aliasList : List Alias := pas.map (fun nt => ({ name := nt.1, ty := nt.2 } : Alias))
  have haliasNames : aliasList.map (·.name) = u.aliases.map (·.name) := by
    simp only [aliasList, List.map_map]
    rw [← hA2]; rfl
  have hpermNames : ((sortDecls u.typeParams).map (·.name)).Perm (u.typeParams.map (·.name)) :=
    (perm_sortDecls u.typeParams).map _
  have hpdsnames : (pds.map (·.name)).Nodup := by
    rw [hT3]; exact hpermNames.nodup_iff.2 hnt
  have hcross : crossDuplicates [([] : List Func).map (·.name), pcs.map (·.name), pds.map (·.name),
      ([] : List Class).map Class.name, aliasList.map (·.name)] = false := by
    unfold crossDuplicates
    simp only [List.map_nil, List.flatten_cons, List.flatten_nil, List.nil_append, List.append_nil,
      Bool.not_eq_eq_eq_not, Bool.not_false, decide_eq_true_eq]
    rw [hC3, hT3, haliasNames, ← List.append_assoc]
    have hp : (u.constants.map (·.name) ++ (sortDecls u.typeParams).map (·.name) ++ u.aliases.map (·.name)).Perm
        (u.constants.map (·.name) ++ u.typeParams.map (·.name) ++ u.aliases.map (·.name)) :=
      List.Perm.append (List.Perm.append (List.Perm.refl _) hpermNames) (List.Perm.refl _)
    exact hp.nodup_iff.2 hnames
  have hbuild : buildUnit (Defs.mk (pas.reverse ++ dI.typeMap) (dI.typeParams ++ pds) (pas.reverse ++ dI.aliases))
        (pas.map aliasItem ++ pcs.map Item.const) =
      .ok (TUnit.mk "" pcs pds [] [] aliasList) := by
    unfold buildUnit
    simp only [itemSlots_ac, itemConsts_aliases, itemConsts_consts pcs hslots, itemClasses_ac, itemFuncs_ac,
      mergeSigs_nil, bind, Except.bind, List.isEmpty_nil, Bool.not_true, Bool.false_eq_true, if_false,
      List.any_nil, hIal, hItp, List.append_nil, List.nil_append, List.reverse_reverse]
    have hrd1 : removeDupsBy (fun x : Alias => x.name)
        (pas.map (fun nt => ({ name := nt.1, ty := nt.2 } : Alias))) = aliasList :=
      removeDupsBy_nodup _ _ (by rw [haliasNames]; exact hna)
    rw [hrd1, resolveAliases_keep pcs hnotyping aliasList (by
      intro a ha
      obtain ⟨p, hp, rfl⟩ := List.mem_map.1 ha
      exact hA4 p hp)]
    have hrd2 : removeDupsBy (fun x : Const => x.name) pcs = pcs :=
      removeDupsBy_nodup _ _ (by rw [hC3]; exact hnc)
    have hrd3 : removeDupsBy (fun x : TypeParamDecl => x.name) pds = pds := removeDupsBy_nodup _ _ hpdsnames
    have hrd4 : removeDupsBy (fun x : Func => x.name) [] = [] := by rw [removeDupsBy]
    have hrd5 : removeDupsBy Class.name [] = [] := by rw [removeDupsBy]
    simp only [hrd2, hrd3, hrd4, hrd5, hcross, Bool.false_eq_true, if_false]
  rw [hbuild]
  -- post_process_ast
  have hcontains : ∀ x, (pds.map (·.name)).contains x = g.tps.contains x := by
    intro x; rw [hT3, htps]; exact contains_sortDecls_names _ x
  have hpt : ∀ t, postTy (pds.map (·.name)) t = postTy g.tps t := postTy_congr hcontains
  congr 1
  unfold postUnit normUnit
  simp only [postClasses_nil, normClasses_nil, hf.noClass, hf.noFunc, List.map_nil]
  have htps' : u.typeParams.map (·.name) = (unitCtx u).tps := rfl
  have e1 : pcs.map (postConst (pds.map (·.name))) = u.constants.map (normConst (u.typeParams.map (·.name))) := by
    rw [htps', ← hC2]
    apply List.map_congr_left
    intro c _
    unfold postConst
    rw [hpt]
  have e2 : pds.map (postDecl (pds.map (·.name))) =
      sortDecls (u.typeParams.map (normDecl (u.typeParams.map (·.name)))) := by
    rw [htps', sortDecls_map (normDecl (unitCtx u).tps) (fun d => rfl), ← hT2]
    apply List.map_congr_left
    intro t _
    unfold postDecl
    congr 1
    · apply List.map_congr_left; intro c _; exact hpt c
    · cases t.bound with
      | none => rfl
      | some b => simp only [Option.map_some]; rw [hpt]
  have e3 : aliasList.map (fun a => ({ a with ty := postTy (pds.map (·.name)) a.ty } : Alias)) =
      u.aliases.map (fun a => ({ a with ty := normTy (u.typeParams.map (·.name)) false a.ty } : Alias)) := by
    rw [htps']
    simp only [aliasList, List.map_map]
    have := map2_eq (fun p : String × Ty => p.1) (fun p => postTy g.tps p.2) (fun a : Alias => a.name)
      (fun a => normTy g.tps false a.ty) (fun n t => ({ name := n, ty := t } : Alias)) pas u.aliases hA2 hA3
    rw [← this]
    apply List.map_congr_left
    intro p _
    simp [hpt]
  rw [e1, e2, e3]

end PytypeModel.Pytd
