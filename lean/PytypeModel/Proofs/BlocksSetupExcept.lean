import PytypeModel.Blocks.SetupExcept

/-! # Lemmas about the model of `_add_setup_except` (C16)

Main result `addSetupExcept_closed`: when every instruction offset is even (wordcode), every kept range starts
after offset 0 and ends on an instruction, then for every kept exception-table entry the output contains the
`SETUP_EXCEPT_311` marker just before its start (with the handler as target) **and** the `POP_BLOCK` marker just
after its end, and no instruction of the input is lost.  The parity argument is the point: markers sit at
`2·start − 1 ≡ 3 (mod 4)` and `2·end + 1 ≡ 1 (mod 4)`, instructions at `≡ 0 (mod 4)`, so no dict key collides. -/
namespace PytypeModel.Blocks
open PytypeModel.Generated.OpcodeTable

/-! ### dict assignment -/

theorem mem_setXKey_self (m : List XOp) (x : XOp) : x ∈ setXKey m x := by
  simp [setXKey]

theorem mem_setXKey_of_ne {m : List XOp} {x y : XOp} (hy : y ∈ m) (hne : y.off ≠ x.off) : y ∈ setXKey m x := by
  simp only [setXKey, List.mem_cons, List.mem_filter]
  right
  exact ⟨hy, by simpa using hne⟩

theorem mem_setXKey_iff {m : List XOp} {x y : XOp} : y ∈ setXKey m x ↔ y = x ∨ (y ∈ m ∧ y.off ≠ x.off) := by
  simp only [setXKey, List.mem_cons, List.mem_filter]
  constructor
  · rintro (h | ⟨h1, h2⟩)
    · exact Or.inl h
    · exact Or.inr ⟨h1, by simpa using h2⟩
  · rintro (h | ⟨h1, h2⟩)
    · exact Or.inl h
    · exact Or.inr ⟨h1, by simpa using h2⟩

theorem hasXKey_iff {m : List XOp} {k : Nat} : hasXKey m k = true ↔ ∃ x ∈ m, x.off = k := by
  simp [hasXKey, List.any_eq_true]

/-! ### sorting keeps the members -/

theorem mem_insertSorted {x y : XOp} {l : List XOp} : y ∈ insertSorted x l ↔ y = x ∨ y ∈ l := by
  induction l with
  | nil => simp [insertSorted]
  | cons z zs ih =>
    simp only [insertSorted]
    split
    · simp
    · simp only [List.mem_cons, ih]
      constructor
      · rintro (h | h | h)
        · exact Or.inr (Or.inl h)
        · exact Or.inl h
        · exact Or.inr (Or.inr h)
      · rintro (h | h | h)
        · exact Or.inr (Or.inl h)
        · exact Or.inl h
        · exact Or.inr (Or.inr h)

theorem mem_sortX {y : XOp} {l : List XOp} : y ∈ sortX l ↔ y ∈ l := by
  induction l with
  | nil => simp [sortX]
  | cons x xs ih => simp [sortX, mem_insertSorted, ih]

/-! ### the flag pass changes neither key nor class nor target -/

theorem flagOp_off (bits : List Bool) (x : XOp) : (flagOp bits x).off = x.off := by
  unfold flagOp
  split
  · dsimp only
    split
    · rfl
    · split <;> rfl
  · rfl

theorem flagOp_cls (bits : List Bool) (x : XOp) : (flagOp bits x).cls = x.cls := by
  unfold flagOp
  split
  · dsimp only
    split
    · rfl
    · split <;> rfl
  · rfl

theorem flagOp_pre (bits : List Bool) (x : XOp) : (flagOp bits x).pre = x.pre := by
  unfold flagOp
  split
  · dsimp only
    split
    · rfl
    · split <;> rfl
  · rfl

theorem flagOp_argval (bits : List Bool) (x : XOp) : (flagOp bits x).argval = x.argval := by
  unfold flagOp
  split
  · dsimp only
    split
    · rfl
    · split <;> rfl
  · rfl

/-! ### the invariant of the `addBlocks` loop -/

/-- every key is an instruction (`≡ 0 mod 4`), a SETUP marker (`≡ 3`) or a POP marker (`≡ 1`) -/
def KeysOK (m : List XOp) : Prop := ∀ x ∈ m, x.off % 4 = 0 ∨ x.off % 4 = 3 ∨ x.off % 4 = 1

/-- the instructions of the input are all still there, untouched -/
def RealKept (ops : List PreOp) (m : List XOp) : Prop := ∀ o ∈ ops, toX o ∈ m

/-- entry `e` has both of its markers in `m` -/
def Closed (m : List XOp) (e : ExcEntry) : Prop :=
  (∃ x ∈ m, x.off = 2 * e.start - 1 ∧ x.cls = Cls.SETUP_EXCEPT_311 ∧ x.pre = some (2 * e.target)) ∧
  (∃ y ∈ m, y.off = 2 * e.stop + 1 ∧ y.cls = Cls.POP_BLOCK)

/-- what the theorem asks of an entry: starts after 0 on an even offset, ends on an instruction -/
structure GoodEntry (ops : List PreOp) (e : ExcEntry) : Prop where
  startPos : e.start ≠ 0
  startEven : e.start % 2 = 0
  stopOnOp : hasPreOff ops e.stop = true

theorem toX_off (o : PreOp) : (toX o).off = 2 * o.off := rfl

theorem hasPreOff_iff {ops : List PreOp} {k : Nat} : hasPreOff ops k = true ↔ ∃ o ∈ ops, o.off = k := by
  simp [hasPreOff, List.any_eq_true]

/-- one `_add_exception_block` under the premises: the result is `setKey (setKey m SETUP) POP` with the POP at
`2·stop + 1` -/
theorem addBlock_eq {ops : List PreOp} {m : List XOp} {e : ExcEntry} (hr : RealKept ops m)
    (hg : GoodEntry ops e) :
    addBlock m e = .ok (setXKey (setXKey m (setupOp e)) (popOp (2 * e.stop))) := by
  unfold addBlock
  have h0 : (e.start == 0) = false := by simpa using hg.startPos
  simp only [h0, Bool.false_eq_true, ↓reduceIte]
  obtain ⟨o, ho, hoo⟩ := hasPreOff_iff.1 hg.stopOnOp
  have hmem : toX o ∈ setXKey m (setupOp e) := by
    apply mem_setXKey_of_ne (hr o ho)
    have hs := hg.startEven
    have hp := hg.startPos
    simp only [toX_off, setupOp]
    omega
  have hk : hasXKey (setXKey m (setupOp e)) (2 * e.stop) = true :=
    hasXKey_iff.2 ⟨toX o, hmem, by simp [toX_off, hoo]⟩
  simp [endKey, hk]

theorem setupOp_off_mod {e : ExcEntry} (hp : e.start ≠ 0) (he : e.start % 2 = 0) : (setupOp e).off % 4 = 3 := by
  simp only [setupOp]; omega

theorem popOp_off_mod {k : Nat} (he : k % 2 = 0) : (popOp (2 * k)).off % 4 = 1 := by
  simp only [popOp]; omega

/-- one step preserves the invariant, closes the new entry and keeps earlier entries closed -/
theorem addBlock_step {ops : List PreOp} {m : List XOp} {e : ExcEntry}
    (hev : ∀ o ∈ ops, o.off % 2 = 0) (hk : KeysOK m) (hr : RealKept ops m) (hg : GoodEntry ops e) :
    ∃ m', addBlock m e = .ok m' ∧ KeysOK m' ∧ RealKept ops m' ∧ Closed m' e ∧
      ∀ e', GoodEntry ops e' → e'.start ≠ e.start → Closed m e' → Closed m' e' := by
  refine ⟨_, addBlock_eq hr hg, ?_, ?_, ?_, ?_⟩
  · -- KeysOK
    obtain ⟨o, ho, hoo⟩ := hasPreOff_iff.1 hg.stopOnOp
    have hse : e.stop % 2 = 0 := hoo ▸ hev o ho
    intro x hx
    rcases mem_setXKey_iff.1 hx with rfl | ⟨hx, _⟩
    · exact Or.inr (Or.inr (popOp_off_mod hse))
    · rcases mem_setXKey_iff.1 hx with rfl | ⟨hx, _⟩
      · exact Or.inr (Or.inl (setupOp_off_mod hg.startPos hg.startEven))
      · exact hk x hx
  · -- RealKept
    obtain ⟨o', ho', hoo'⟩ := hasPreOff_iff.1 hg.stopOnOp
    have hse : e.stop % 2 = 0 := hoo' ▸ hev o' ho'
    intro o ho
    have h1 : toX o ∈ setXKey m (setupOp e) := by
      apply mem_setXKey_of_ne (hr o ho)
      have := hev o ho; have hs := hg.startEven; have hp := hg.startPos
      simp only [toX_off, setupOp]; omega
    apply mem_setXKey_of_ne h1
    have := hev o ho
    simp only [toX_off, popOp]; omega
  · -- Closed m' e
    obtain ⟨o', ho', hoo'⟩ := hasPreOff_iff.1 hg.stopOnOp
    have hse : e.stop % 2 = 0 := hoo' ▸ hev o' ho'
    refine ⟨⟨setupOp e, ?_, rfl, rfl, rfl⟩, ⟨popOp (2 * e.stop), mem_setXKey_self _ _, rfl, rfl⟩⟩
    apply mem_setXKey_of_ne (mem_setXKey_self _ _)
    have hs := hg.startEven; have hp := hg.startPos
    simp only [setupOp, popOp]; omega
  · -- earlier entries stay closed
    obtain ⟨o', ho', hoo'⟩ := hasPreOff_iff.1 hg.stopOnOp
    have hse : e.stop % 2 = 0 := hoo' ▸ hev o' ho'
    intro e' hg' hne ⟨⟨x, hx, hxo, hxc, hxp⟩, ⟨y, hy, hyo, hyc⟩⟩
    obtain ⟨o2, ho2, hoo2⟩ := hasPreOff_iff.1 hg'.stopOnOp
    have hse' : e'.stop % 2 = 0 := hoo2 ▸ hev o2 ho2
    have hs := hg.startEven; have hp := hg.startPos
    have hs' := hg'.startEven; have hp' := hg'.startPos
    constructor
    · refine ⟨x, ?_, hxo, hxc, hxp⟩
      apply mem_setXKey_of_ne
      · apply mem_setXKey_of_ne hx
        simp only [setupOp, hxo]; omega
      · simp only [popOp, hxo]; omega
    · -- the POP of e' survives, or is replaced by an identical POP at the same key
      by_cases hsame : e'.stop = e.stop
      · exact ⟨popOp (2 * e.stop), mem_setXKey_self _ _, by simp [popOp, hsame], rfl⟩
      · refine ⟨y, ?_, hyo, hyc⟩
        apply mem_setXKey_of_ne
        · apply mem_setXKey_of_ne hy
          simp only [setupOp, hyo]; omega
        · simp only [popOp, hyo]; omega

/-- the whole loop, for entries with pairwise distinct starts -/
theorem addBlocks_closed {ops : List PreOp} (hev : ∀ o ∈ ops, o.off % 2 = 0) :
    ∀ (ks : List ExcEntry) (m : List XOp), KeysOK m → RealKept ops m →
      (∀ e ∈ ks, GoodEntry ops e) → ks.Pairwise (fun a b => a.start ≠ b.start) →
      ∃ m', addBlocks m ks = .ok m' ∧ KeysOK m' ∧ RealKept ops m' ∧ (∀ e ∈ ks, Closed m' e) ∧
        ∀ e', GoodEntry ops e' → (∀ e ∈ ks, e'.start ≠ e.start) → Closed m e' → Closed m' e' := by
  intro ks
  induction ks with
  | nil =>
    intro m hk hr _ _
    exact ⟨m, rfl, hk, hr, by simp, fun _ _ _ h => h⟩
  | cons e es ih =>
    intro m hk hr hg hp
    obtain ⟨m1, h1, hk1, hr1, hc1, hkeep1⟩ := addBlock_step hev hk hr (hg e (List.mem_cons_self ..))
    have hp' := List.pairwise_cons.1 hp
    obtain ⟨m2, h2, hk2, hr2, hc2, hkeep2⟩ :=
      ih m1 hk1 hr1 (fun x hx => hg x (List.mem_cons_of_mem _ hx)) hp'.2
    refine ⟨m2, by simp [addBlocks, h1, h2], hk2, hr2, ?_, ?_⟩
    · intro x hx
      rcases List.mem_cons.1 hx with rfl | hx
      · exact hkeep2 x (hg x (List.mem_cons_self ..)) (fun y hy => hp'.1 y hy) hc1
      · exact hc2 x hx
    · intro e' hg' hne hc
      apply hkeep2 e' hg' (fun y hy => hne y (List.mem_cons_of_mem _ hy))
      exact hkeep1 e' hg' (hne e (List.mem_cons_self ..)) hc

/-! ### the selection loop keeps at most one entry per start -/

theorem keptFrom_spec (ops : List PreOp) :
    ∀ (es : List ExcEntry) (seen : List Nat) (ks : List ExcEntry), keptFrom ops es seen = .ok ks →
      (∀ e ∈ ks, e ∈ es ∧ ∃ s, preOpAt ops e.start = some s ∧ s.line ∉ seen) ∧
      ks.Pairwise (fun a b => a.start ≠ b.start) := by
  intro es
  induction es with
  | nil =>
    intro seen ks h
    simp only [keptFrom, Except.ok.injEq] at h
    subst h
    exact ⟨by simp, List.Pairwise.nil⟩
  | cons e es ih =>
    intro seen ks h
    unfold keptFrom at h
    split at h
    · cases h
    · obtain ⟨h1, h2⟩ := ih seen ks h
      exact ⟨fun x hx => ⟨List.mem_cons_of_mem _ (h1 x hx).1, (h1 x hx).2⟩, h2⟩
    · split at h
      · cases h
      · rename_i s hs
        split at h
        · rename_i hcond
          split at h
          · rename_i r hr
            simp only [Except.ok.injEq] at h
            subst h
            obtain ⟨h1, h2⟩ := ih (s.line :: seen) r hr
            have hns : s.line ∉ seen := by
              simp only [Bool.and_eq_true, Bool.not_eq_eq_eq_not, Bool.not_true] at hcond
              have := hcond.2
              simpa [List.contains_iff_mem] using this
            refine ⟨?_, ?_⟩
            · intro x hx
              rcases List.mem_cons.1 hx with rfl | hx
              · exact ⟨List.mem_cons_self .., s, hs, hns⟩
              · obtain ⟨hm, s', hs', hn'⟩ := h1 x hx
                exact ⟨List.mem_cons_of_mem _ hm, s', hs', fun hc => hn' (List.mem_cons_of_mem _ hc)⟩
            · refine List.pairwise_cons.2 ⟨?_, h2⟩
              intro x hx heq
              obtain ⟨_, s', hs', hn'⟩ := h1 x hx
              rw [← heq, hs] at hs'
              cases hs'
              exact hn' (List.mem_cons_self ..)
          · cases h
        · obtain ⟨h1, h2⟩ := ih seen ks h
          exact ⟨fun x hx => ⟨List.mem_cons_of_mem _ (h1 x hx).1, (h1 x hx).2⟩, h2⟩

theorem preOpAt_some {ops : List PreOp} {k : Nat} {s : PreOp} (h : preOpAt ops k = some s) : s ∈ ops ∧ s.off = k := by
  unfold preOpAt at h
  exact ⟨List.mem_of_find?_eq_some h, by simpa using List.find?_some h⟩

/-! ### the main lemma -/

theorem keysOK_init {ops : List PreOp} (hev : ∀ o ∈ ops, o.off % 2 = 0) : KeysOK (ops.map toX) := by
  intro x hx
  obtain ⟨o, ho, rfl⟩ := List.mem_map.1 hx
  left
  have := hev o ho
  simp only [toX_off]; omega

theorem addSetupExcept_closed (ops : List PreOp) (entries : List ExcEntry) (out : List XOp)
    (hev : evenOffs ops = true) (hst : stopsOnOps ops entries = true) (hsp : startsPos ops entries = true)
    (h : addSetupExcept ops entries = .ok out) :
    ∃ ks, kept ops entries = .ok ks ∧
      (∀ e ∈ ks,
        (∃ x ∈ out, x.off = 2 * e.start - 1 ∧ x.cls = Cls.SETUP_EXCEPT_311 ∧ x.pre = some (2 * e.target)) ∧
        (∃ y ∈ out, y.off = 2 * e.stop + 1 ∧ y.cls = Cls.POP_BLOCK)) ∧
      (∀ o ∈ ops, ∃ x ∈ out, x.off = 2 * o.off ∧ x.cls = o.cls ∧ x.argval = o.argval ∧ x.pre = none) := by
  have hev' : ∀ o ∈ ops, o.off % 2 = 0 := by
    intro o ho
    have := (List.all_eq_true.1 hev) o ho
    simpa using this
  unfold addSetupExcept at h
  cases hk : kept ops entries with
  | error x => simp [hk] at h
  | ok ks =>
    simp only [hk] at h
    have hspec := keptFrom_spec ops entries [] ks hk
    have hgood : ∀ e ∈ ks, GoodEntry ops e := by
      intro e he
      obtain ⟨_, s, hs, _⟩ := hspec.1 e he
      obtain ⟨hsm, hso⟩ := preOpAt_some hs
      refine ⟨?_, ?_, ?_⟩
      · have := hsp; simp only [startsPos, hk, List.all_eq_true] at this
        simpa using this e he
      · rw [← hso]; exact hev' s hsm
      · have := hst; simp only [stopsOnOps, hk, List.all_eq_true] at this
        exact this e he
    obtain ⟨m', hm', _, hr', hc', _⟩ :=
      addBlocks_closed hev' ks (ops.map toX) (keysOK_init hev') (fun o ho => List.mem_map.2 ⟨o, ho, rfl⟩) hgood hspec.2
    simp only [hm'] at h
    split at h
    · cases h
    · simp only [Except.ok.injEq] at h
      subst h
      refine ⟨ks, rfl, ?_, ?_⟩
      · intro e he
        obtain ⟨⟨x, hx, hxo, hxc, hxp⟩, ⟨y, hy, hyo, hyc⟩⟩ := hc' e he
        constructor
        · exact ⟨flagOp _ x, mem_sortX.2 (List.mem_map.2 ⟨x, hx, rfl⟩), by rw [flagOp_off, hxo],
            by rw [flagOp_cls, hxc], by rw [flagOp_pre, hxp]⟩
        · exact ⟨flagOp _ y, mem_sortX.2 (List.mem_map.2 ⟨y, hy, rfl⟩), by rw [flagOp_off, hyo],
            by rw [flagOp_cls, hyc]⟩
      · intro o ho
        exact ⟨flagOp _ (toX o), mem_sortX.2 (List.mem_map.2 ⟨toX o, hr' o ho, rfl⟩), by rw [flagOp_off]; rfl,
          by rw [flagOp_cls]; rfl, by rw [flagOp_argval]; rfl, by rw [flagOp_pre]; rfl⟩

end PytypeModel.Blocks
