/-
C07 on well-formed acyclic graphs without node conditions: the memo-free recursion `spec` (hence `Solve`)
accepts a goal set exactly when it is *explained* (`Expl`).
-/
import PytypeModel.Proofs.SolverRemoval
import PytypeModel.Proofs.SolverAcyclic

namespace PytypeModel.Typegraph

/-! ### without conditions the articulation walk reports nothing -/

theorem walk_nocond {g : Graph} (hnc : g.NoConditions) (fin : NodeId) (path : List NodeId) :
    ∀ (fuel : Nat) (node : NodeId) (seen acc : List NodeId), walk g fin path fuel node seen acc = acc := by
  intro fuel
  induction fuel with
  | zero => intro node seen acc; rfl
  | succ fuel ih =>
    intro node seen acc
    unfold walk
    simp only [hnc node, Option.isSome_none, Bool.false_eq_true, ↓reduceIte]
    split
    · rfl
    · split
      · exact ih _ _ _
      · rfl

theorem findNodeBackwards_nocond {g : Graph} (hnc : g.NoConditions) (start fin : NodeId) (blocked : List NodeId) :
    (findNodeBackwards g start fin blocked).2 = [] := by
  unfold findNodeBackwards
  simp only
  split
  · rfl
  · exact walk_nocond hnc _ _ _ _ _ _

theorem newPositions_fold_iff {g : Graph} (hnc : g.NoConditions) (pos : NodeId) (blocked : List NodeId) (p : NodeId) :
    ∀ (fins : List NodeId) (acc : List NodeId),
      p ∈ fins.foldl (fun acc fin =>
        let (ex, cpath) := findNodeBackwards g pos fin blocked
        if ex then sinsert ((cpath.find? (fun n => n != pos)).getD fin) acc else acc) acc ↔
      p ∈ acc ∨ (p ∈ fins ∧ (findNodeBackwards g pos p blocked).1 = true) := by
  intro fins
  induction fins with
  | nil => intro acc; simp
  | cons f fs ih =>
    intro acc
    simp only [List.foldl_cons]
    rw [ih]
    have hc := findNodeBackwards_nocond hnc pos f blocked
    generalize hr : findNodeBackwards g pos f blocked = r at hc
    obtain ⟨ex, cpath⟩ := r
    simp only at hc
    subst hc
    simp only [List.find?_nil, Option.getD_none, List.mem_cons]
    constructor
    · rintro (h | ⟨h1, h2⟩)
      · split at h
        · rename_i hex
          rcases mem_sinsert.1 h with rfl | h
          · exact Or.inr ⟨Or.inl rfl, by rw [hr]; exact hex⟩
          · exact Or.inl h
        · exact Or.inl h
      · exact Or.inr ⟨Or.inr h1, h2⟩
    · rintro (h | ⟨h1 | h1, h2⟩)
      · left
        split
        · exact mem_sinsert.2 (Or.inr h)
        · exact h
      · subst h1
        rw [hr] at h2
        simp only at h2
        left
        simp only [h2, ↓reduceIte]
        exact mem_sinsert.2 (Or.inl rfl)
      · exact Or.inr ⟨h1, h2⟩

/-- without conditions: the new positions are the origin nodes of the remaining goals reachable by a
clear path -/
theorem newPositions_iff {g : Graph} (hnc : g.NoConditions) (pos : NodeId) (N : List BId) (p : NodeId) :
    p ∈ newPositions g pos N ↔ p ∈ finishNodes g N ∧ ClearPath g (blockedOf g N) pos p := by
  unfold newPositions
  rw [newPositions_fold_iff hnc, findNodeBackwards_iff]
  simp

theorem goalsAt_nocond {g : Graph} (hnc : g.NoConditions) (st : SState) : goalsAt g st = st.goals := by
  unfold goalsAt
  rw [hnc st.pos]

/-! ### the remaining goals stay an id-ordered set of valid ids -/

theorem removal_props {g : Graph} (hids : g.IdsOK) {pos : NodeId} {todo seen R N R' N' : List BId}
    (h : Removal g pos todo seen R N R' N') :
    Sorted N → (∀ x ∈ N, x < g.bindings.length) → (∀ x ∈ todo, x < g.bindings.length) →
    Sorted N' ∧ ∀ x ∈ N', x < g.bindings.length := by
  induction h with
  | done => intro hs hb _; exact ⟨hs, hb⟩
  | skip _ _ ih => intro hs hb ht; exact ih hs hb (fun x hx => ht x (List.mem_cons_of_mem _ hx))
  | @keep b _ _ _ _ _ _ _ _ _ ih =>
    intro hs hb ht
    refine ih (sorted_sinsert hs) ?_ (fun x hx => ht x (List.mem_cons_of_mem _ hx))
    intro x hx
    rcases mem_sinsert.1 hx with rfl | hx
    · exact ht _ List.mem_cons_self
    · exact hb x hx
  | @expand b _ _ _ _ _ _ o ss _ ho hss _ ih =>
    intro hs hb ht
    refine ih hs hb ?_
    intro x hx
    rcases mem_sunion.1 hx with hx | hx
    · exact ht x (List.mem_cons_of_mem _ hx)
    · exact hids b o ss x (findOrigin_some_mem ho).1 hss hx

theorem anyRes_true_iff {g : Graph} {val : SState → Bool} {pos : NodeId} {rs : List RemoveResult} :
    anyRes g val pos rs = true ↔
      ∃ R N, (R, N) ∈ rs ∧ goalsConflict g R = false ∧
        (N = [] ∨ ∃ p ∈ newPositions g pos N, val ⟨p, N⟩ = true) := by
  unfold anyRes anyPos
  simp only [List.any_eq_true, Bool.and_eq_true, Bool.not_eq_eq_eq_not, Bool.not_true, Bool.or_eq_true,
    List.isEmpty_iff]
  constructor
  · rintro ⟨⟨R, N⟩, hm, hc, h⟩
    exact ⟨R, N, hm, hc, h⟩
  · rintro ⟨R, N, hm, hc, h⟩
    exact ⟨(R, N), hm, hc, h⟩

/-- **memo-free recursion ⇔ explanation** on well-formed acyclic unconditioned graphs -/
theorem spec_iff_expl {g : Graph} {rank : NodeId → Nat} (hwf : g.WF) (hac : g.AcyclicBy rank)
    (hnc : g.NoConditions) (hids : g.IdsOK) :
    ∀ (k : Nat) (st : SState), rank st.pos = k → Sorted st.goals → (∀ x ∈ st.goals, x < g.bindings.length) →
      (spec g rank st = true ↔ Expl g st.pos st.goals) := by
  intro k
  induction k using Nat.strongRecOn with
  | _ k ih =>
    intro st hk hs hb
    have hunf : spec g rank st = stepVal g (spec g rank) st := by
      have hinv : MemoInv3 (spec g rank) (Memo.set [] st true) (st :: []) := by
        intro s b hs
        rw [Memo.find_set] at hs
        split at hs
        · rename_i heq; subst heq; exact Or.inl List.mem_cons_self
        · simp [Memo.find] at hs
      have hrec : RecOK3 rank (spec g rank) (rank st.pos) (recall g (rank st.pos)) :=
        fun stack memo st' hlt hm hab => recall_spec hwf hac st' _ hlt stack memo hm hab
      have h2 := (findSolution_pure hwf hac (spec g rank) (recall g (rank st.pos)) [] _ st hrec hinv
        (above_nil rank _)).2
      rw [← h2]
      unfold spec recall
      simp only [Memo.find]
    rw [hunf]
    unfold stepVal
    rw [goalsAt_nocond hnc, anyRes_true_iff]
    -- facts about any removal result at this node
    have hres : ∀ R N, (R, N) ∈ removeFinishedGoals g st.pos st.goals →
        Removal g st.pos (hereGoals g st.pos st.goals) [] [] (awayGoals g st.pos st.goals) R N ∧
        Sorted N ∧ (∀ x ∈ N, x < g.bindings.length) := by
      intro R N hm
      have hrem := (removeFinishedGoals_iff g hids st.pos st.goals hs hb R N).1 hm
      have := removal_props hids hrem (sorted_filter _ hs)
        (fun x hx => hb x (List.mem_filter.1 hx).1) (fun x hx => hb x (List.mem_filter.1 hx).1)
      exact ⟨hrem, this⟩
    constructor
    · rintro ⟨R, N, hm, hc, hcase⟩
      obtain ⟨hrem, hsN, hbN⟩ := hres R N hm
      cases N with
      | nil => exact Expl.fin hrem hc
      | cons x xs =>
        rcases hcase with hnil | ⟨p, hp, hval⟩
        · cases hnil
        · have hlt : rank p < k := hk ▸ (newPositions_rank hwf hac hm hp).2
          obtain ⟨hfin, hclear⟩ := (newPositions_iff hnc st.pos _ p).1 hp
          have := (ih (rank p) hlt ⟨p, x :: xs⟩ rfl hsN hbN).1 hval
          exact Expl.move hrem hc (by simp) hfin hclear this
    · intro hex
      cases hex with
      | @fin _ _ R hrem hc =>
        exact ⟨R, [], (removeFinishedGoals_iff g hids st.pos st.goals hs hb R []).2 hrem, hc, Or.inl rfl⟩
      | @move _ _ R N m hrem hc hne hfin hclear hsub =>
        have hm := (removeFinishedGoals_iff g hids st.pos st.goals hs hb R N).2 hrem
        obtain ⟨_, hsN, hbN⟩ := hres R N hm
        have hp : m ∈ newPositions g st.pos N := (newPositions_iff hnc st.pos N m).2 ⟨hfin, hclear⟩
        have hlt : rank m < k := hk ▸ (newPositions_rank hwf hac hm hp).2
        have := (ih (rank m) hlt ⟨m, N⟩ rfl hsN hbN).2 hsub
        exact ⟨R, N, hm, hc, Or.inr ⟨m, hp, this⟩⟩

theorem ofList_bounded {B : Nat} {l : List Nat} (h : ∀ x ∈ l, x < B) : ∀ x ∈ ofList l, x < B :=
  fun x hx => h x (mem_ofList.1 hx)

/-- **`Solve` ⇔ explanation** (fresh solver, well-formed acyclic unconditioned graph): the combination is
accepted iff it is explained and — the `CanHaveSolution` pre-pass, only for two or more goals — every
single goal is explained on its own. -/
theorem solve_iff_expl_prepass {g : Graph} {rank : NodeId → Nat} (hwf : g.WF) (hac : g.AcyclicBy rank)
    (hnc : g.NoConditions) (hids : g.IdsOK) (n : NodeId) (attrs : List BId)
    (hb : ∀ x ∈ attrs, x < g.bindings.length) :
    (solve g [] n attrs).1 = true ↔
      (attrs.length > 1 → ∀ b ∈ attrs, Expl g n [b]) ∧ Expl g n (ofList attrs) := by
  rw [(solve_spec hwf hac [] n attrs (memoInv3_nil _ _)).2]
  have hall := spec_iff_expl hwf hac hnc hids (rank n) ⟨n, ofList attrs⟩ rfl (sorted_ofList _) (ofList_bounded hb)
  have hone : ∀ b ∈ attrs, (spec g rank ⟨n, ofList [b]⟩ = true ↔ Expl g n [b]) := by
    intro b hbm
    have := spec_iff_expl hwf hac hnc hids (rank n) ⟨n, ofList [b]⟩ rfl (sorted_ofList _)
      (ofList_bounded (fun x hx => by simp only [List.mem_singleton] at hx; exact hx ▸ hb b hbm))
    rw [ofList_singleton] at this ⊢
    exact this
  unfold solveVal
  split
  · rename_i hlen
    simp only [Bool.and_eq_true, List.all_eq_true]
    constructor
    · rintro ⟨h1, h2⟩
      exact ⟨fun _ b hbm => (hone b hbm).1 (h1 b hbm), hall.1 h2⟩
    · rintro ⟨h1, h2⟩
      exact ⟨fun b hbm => (hone b hbm).2 (h1 hlen b hbm), hall.2 h2⟩
  · rename_i hlen
    constructor
    · intro h
      exact ⟨fun hl => absurd hl hlen, hall.1 h⟩
    · rintro ⟨_, h2⟩
      exact hall.2 h2

end PytypeModel.Typegraph

namespace PytypeModel.Typegraph

/-- decidable check for `Graph.IdsOK` -/
def Graph.idsOKB (g : Graph) : Bool :=
  g.bindings.all fun bd => bd.origins.all fun o => o.sourceSets.all fun ss =>
    ss.all fun x => decide (x < g.bindings.length)

theorem Graph.idsOK_of_idsOKB (g : Graph) (h : g.idsOKB = true) : g.IdsOK := by
  intro b o ss x ho hss hx
  unfold Graph.idsOKB at h
  rw [List.all_eq_true] at h
  by_cases hb : b < g.bindings.length
  · have hmem : g.binding b ∈ g.bindings := by
      unfold Graph.binding
      rw [List.getD_eq_getElem?_getD, List.getElem?_eq_getElem hb]
      exact List.getElem_mem hb
    have h1 := h _ hmem
    rw [List.all_eq_true] at h1
    have h2 := h1 o ho
    rw [List.all_eq_true] at h2
    have h3 := h2 ss hss
    rw [List.all_eq_true] at h3
    simpa using h3 x hx
  · exfalso
    unfold Graph.binding at ho
    rw [List.getD_eq_getElem?_getD, List.getElem?_eq_none (Nat.le_of_not_lt hb)] at ho
    have hd : (default : Binding).origins = [] := rfl
    rw [Option.getD_none, hd] at ho
    exact absurd ho List.not_mem_nil

end PytypeModel.Typegraph
