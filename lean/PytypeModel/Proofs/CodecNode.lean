import PytypeModel.Pytd.Codec
import PytypeModel.Proofs.CodecMP

/-! # struct layer: `fromMP σ ty (toMP σ v) = some v` for every well-formed schema -/
namespace PytypeModel.Pytd

/-! ### induction over `Val` with membership hypotheses -/

section ind
set_option linter.unusedSectionVars false
variable {P : Val → Prop}
  (hnone : P .none) (hbool : ∀ b, P (.bool b)) (hint : ∀ i, P (.int i)) (hstr : ∀ s, P (.str s))
  (htup : ∀ xs, (∀ x ∈ xs, P x) → P (.tup xs)) (hdict : P .dict0)
  (hnode : ∀ n args, (∀ x ∈ args, P x) → P (.node n args))
include hnone hbool hint hstr htup hdict hnode

mutual
theorem Val.ind : ∀ v : Val, P v
  | .none => hnone
  | .bool b => hbool b
  | .int i => hint i
  | .str s => hstr s
  | .tup xs => htup xs (Val.ind_list xs)
  | .dict0 => hdict
  | .node n args => hnode n args (Val.ind_list args)
theorem Val.ind_list : ∀ (xs : List Val), ∀ x ∈ xs, P x
  | [], _, h => by cases h
  | y :: ys, x, h =>
    (List.mem_cons.1 h).elim (fun e => e ▸ Val.ind y) (fun h' => Val.ind_list ys x h')
end
end ind

/-! ### `Val.beq` is equality -/

theorem Val.beqList_eq (xs : List Val) (ih : ∀ x ∈ xs, ∀ b, Val.beq x b = true → x = b) :
    ∀ ys, Val.beqList xs ys = true → xs = ys := by
  induction xs with
  | nil => intro ys h; cases ys <;> simp_all [Val.beqList]
  | cons x xs ihx =>
    intro ys h
    cases ys with
    | nil => simp [Val.beqList] at h
    | cons y ys =>
      simp only [Val.beqList, Bool.and_eq_true] at h
      rw [ih x (by simp) y h.1, ihx (fun z hz => ih z (by simp [hz])) ys h.2]

theorem Val.eq_of_beq' : ∀ a b : Val, Val.beq a b = true → a = b := by
  intro a
  induction a using Val.ind with
  | hnone => intro b h; cases b <;> simp_all [Val.beq]
  | hbool x => intro b h; cases b <;> simp_all [Val.beq]
  | hint x => intro b h; cases b <;> simp_all [Val.beq]
  | hstr x => intro b h; cases b <;> simp_all [Val.beq]
  | hdict => intro b h; cases b <;> simp_all [Val.beq]
  | htup xs ih =>
    intro b h
    cases b <;> simp only [Val.beq] at h <;> try contradiction
    rw [Val.beqList_eq xs ih _ h]
  | hnode n args ih =>
    intro b h
    cases b <;> simp only [Val.beq, Bool.and_eq_true] at h <;> try contradiction
    rw [Val.beqList_eq args ih _ h.2]
    simp at h
    rw [h.1]

theorem Val.beqList_refl (xs : List Val) (ih : ∀ x ∈ xs, Val.beq x x = true) :
    Val.beqList xs xs = true := by
  induction xs with
  | nil => rfl
  | cons x xs ihx =>
    simp only [Val.beqList, Bool.and_eq_true]
    exact ⟨ih x (by simp), ihx (fun z hz => ih z (by simp [hz]))⟩

theorem Val.beq_refl' : ∀ a : Val, Val.beq a a = true := by
  intro a
  induction a using Val.ind with
  | hnone => rfl
  | hbool x => simp [Val.beq]
  | hint x => simp [Val.beq]
  | hstr x => simp [Val.beq]
  | hdict => rfl
  | htup xs ih => simp only [Val.beq]; exact Val.beqList_refl xs ih
  | hnode n args ih => simp only [Val.beq, Bool.and_eq_true]; exact ⟨by simp, Val.beqList_refl args ih⟩

instance : LawfulBEq Val where
  eq_of_beq {a b} h := Val.eq_of_beq' a b h
  rfl {a} := Val.beq_refl' a

/-! ### small list facts about the Bool-valued duplicate checks -/

theorem nodupB_cons {x : Bytes} {xs : List Bytes} (h : nodupB (x :: xs) = true) :
    x ∉ xs ∧ nodupB xs = true := by
  simp only [nodupB, Bool.and_eq_true, Bool.not_eq_true', List.contains_eq_mem,
    decide_eq_false_iff_not] at h
  exact h

/-! ### `pick` -/

theorem pick_some {k : Kind} {ty : FTy} {a : Atom} (h : pick k ty = some a) : a ∈ ty ∧ a.kind = k := by
  unfold pick at h
  refine ⟨List.mem_of_find?_eq_some h, ?_⟩
  have := List.find?_some h
  simpa using this

theorem atomsWF_mem {σ : Schema} {ty : List Atom} {a : Atom} (h : atomsWF σ ty = true) (ha : a ∈ ty) :
    a.wf σ = true := by
  induction ty with
  | nil => cases ha
  | cons b bs ih =>
    simp only [atomsWF, Bool.and_eq_true] at h
    rcases List.mem_cons.1 ha with rfl | ha
    · exact h.1
    · exact ih h.2 ha

theorem tyWF_pick {σ : Schema} {k : Kind} {ty : FTy} {a : Atom} (h : tyWF σ ty = true)
    (hp : pick k ty = some a) : a.wf σ = true := by
  simp only [tyWF, Bool.and_eq_true] at h
  exact atomsWF_mem h.2 (pick_some hp).1

/-! ### class lookup -/

theorem find_name {σ : Schema} {n : Bytes} {sd : StructDef} (h : σ.find n = some sd) : sd.name = n := by
  unfold Schema.find at h
  have := List.find?_some h
  simpa using this

theorem find_mem {σ : Schema} {n : Bytes} {sd : StructDef} (h : σ.find n = some sd) : sd ∈ σ.structs := by
  unfold Schema.find at h
  exact List.mem_of_find?_eq_some h

theorem find_unique_tag (g : Bytes → Option Bytes) (t : Bytes) :
    ∀ (names : List Bytes) (n : Bytes), nodupB (names.filterMap g) = true → n ∈ names → g n = some t →
      names.find? (fun n' => g n' == some t) = some n := by
  intro names
  induction names with
  | nil => intro n _ hn; cases hn
  | cons n' rest ih =>
    intro n hnd hn hg
    cases hg' : g n' with
    | none =>
      have hne : n ≠ n' := by intro e; subst e; rw [hg] at hg'; cases hg'
      have hn' : n ∈ rest := by
        rcases List.mem_cons.1 hn with e | h
        · exact absurd e hne
        · exact h
      rw [List.filterMap_cons, hg'] at hnd
      rw [List.find?_cons, hg']
      simpa using ih n hnd hn' hg
    | some t' =>
      rw [List.filterMap_cons, hg'] at hnd
      have hnd' := nodupB_cons hnd
      rw [List.find?_cons, hg']
      rcases List.mem_cons.1 hn with e | h
      · subst e
        rw [hg] at hg'
        cases hg'
        simp
      · have htne : t' ≠ t := by
          intro e
          subst e
          exact hnd'.1 (List.mem_filterMap.2 ⟨n, h, hg⟩)
        have : (some t' == some t) = false := by simpa using htne
        rw [this]
        exact ih n hnd'.2 h hg

theorem structs_decode_tagged {σ : Schema} {names : List Bytes} {n t : Bytes} {sd : StructDef}
    (hwf : structsWF σ names = true) (hn : n ∈ names) (hf : σ.find n = some sd) (ht : sd.tag = some t) :
    untaggedOf σ names = none ∧ findByTag σ names t = some sd := by
  have htag : tagOf σ n = some t := by simp [tagOf, hf, ht]
  simp only [structsWF, Bool.and_eq_true, Bool.or_eq_true, beq_iff_eq] at hwf
  constructor
  · unfold untaggedOf
    split
    · rename_i n'
      have : n = n' := by simpa using hn
      subst this
      simp [hf, ht]
    · rfl
  · unfold findByTag
    rcases hwf.2 with hlen | hall
    · -- singleton
      match names, hlen, hn with
      | [n'], _, hn =>
        have : n = n' := by simpa using hn
        subst this
        simp [htag, hf]
    · rw [find_unique_tag (tagOf σ) t names n hall.2 hn htag]
      simpa using hf

theorem structs_decode_untagged {σ : Schema} {names : List Bytes} {n : Bytes} {sd : StructDef}
    (hwf : structsWF σ names = true) (hn : n ∈ names) (hf : σ.find n = some sd) (ht : sd.tag = none) :
    untaggedOf σ names = some sd := by
  have htag : tagOf σ n = none := by simp [tagOf, hf, ht]
  simp only [structsWF, Bool.and_eq_true, Bool.or_eq_true, beq_iff_eq] at hwf
  rcases hwf.2 with hlen | hall
  · match names, hlen, hn with
    | [n'], _, hn =>
      have : n = n' := by simpa using hn
      subst this
      simp [untaggedOf, hf, ht]
  · have := List.all_eq_true.1 hall.1 n hn
    rw [htag] at this
    cases this

/-! ### struct fields -/

/-- the `(field name, value)` pairs that are put on the wire -/
def emitted (om : Bool) : List Field → List Val → List (Bytes × Val)
  | f :: fs, a :: as =>
    if om && f.dflt == some a then emitted om fs as else (f.name, a) :: emitted om fs as
  | _, _ => []

theorem find_field (all : List Field) (f : Field) (hnd : nodupB (all.map (·.name)) = true)
    (hf : f ∈ all) : all.find? (fun g => g.name == f.name) = some f := by
  induction all with
  | nil => cases hf
  | cons g rest ih =>
    rw [List.map_cons] at hnd
    have hnd' := nodupB_cons hnd
    rcases List.mem_cons.1 hf with e | h
    · subst e; simp
    · have hne : g.name ≠ f.name := by
        intro e
        exact hnd'.1 (e ▸ List.mem_map.2 ⟨f, h, rfl⟩)
      rw [List.find?_cons]
      have : (g.name == f.name) = false := by simpa using hne
      rw [this]
      exact ih hnd'.2 h

theorem lookup_emitted_none (om : Bool) (k : Bytes) :
    ∀ (fs : List Field) (args : List Val), k ∉ fs.map (·.name) → lookupKV k (emitted om fs args) = none := by
  intro fs
  induction fs with
  | nil => intro args _; cases args <;> rfl
  | cons f fs ih =>
    intro args hk
    cases args with
    | nil => rfl
    | cons a as =>
      simp only [List.map_cons, List.mem_cons, not_or] at hk
      simp only [emitted]
      split
      · exact ih as hk.2
      · simp only [lookupKV]
        have : (f.name == k) = false := by simpa using fun e => hk.1 e.symm
        rw [this]
        exact ih as hk.2

theorem lookup_emitted (om : Bool) :
    ∀ (fs : List Field) (args : List Val), nodupB (fs.map (·.name)) = true →
      ∀ f a, (f, a) ∈ fs.zip args →
        lookupKV f.name (emitted om fs args) = if (om && f.dflt == some a) = true then none else some a := by
  intro fs
  induction fs with
  | nil => intro args _ f a h; simp at h
  | cons g fs ih =>
    intro args hnd f a h
    cases args with
    | nil => simp at h
    | cons b bs =>
      rw [List.map_cons] at hnd
      have hnd' := nodupB_cons hnd
      rw [List.zip_cons_cons] at h
      rcases List.mem_cons.1 h with e | h
      · cases e
        simp only [emitted]
        split
        · exact lookup_emitted_none om _ fs bs hnd'.1
        · simp [lookupKV]
      · have hfm : f.name ∈ fs.map (·.name) := List.mem_map.2 ⟨f, (List.of_mem_zip h).1, rfl⟩
        have hne : (g.name == f.name) = false := by
          have : g.name ≠ f.name := fun e => hnd'.1 (e ▸ hfm)
          simpa using this
        simp only [emitted]
        split
        · exact ih bs hnd'.2 f a h
        · simp only [lookupKV, hne]
          exact ih bs hnd'.2 f a h

theorem assemble_of_lookup (om : Bool) (dec : List (Bytes × Val)) :
    ∀ (fs : List Field) (args : List Val), fs.length = args.length →
      (∀ f a, (f, a) ∈ fs.zip args →
        lookupKV f.name dec = if (om && f.dflt == some a) = true then none else some a) →
      assemble fs dec = some args := by
  intro fs
  induction fs with
  | nil => intro args hl _; cases args <;> simp_all [assemble]
  | cons f fs ih =>
    intro args hl h
    cases args with
    | nil => simp at hl
    | cons a as =>
      have h0 := h f a (by simp)
      have ht := ih as (by simpa using hl) (fun f' a' hm => h f' a' (by simp [hm]))
      simp only [assemble, ht]
      by_cases hc : (om && f.dflt == some a) = true
      · rw [if_pos hc] at h0
        have hd : f.dflt = some a := by
          simp only [Bool.and_eq_true] at hc
          exact eq_of_beq hc.2
        simp [h0, hd]
      · rw [if_neg hc] at h0
        simp [h0]

theorem WTfields_length {σ : Schema} : ∀ (fs : List Field) (args : List Val),
    WTfields σ fs args = true → fs.length = args.length := by
  intro fs
  induction fs with
  | nil => intro args h; cases args <;> simp_all [WTfields]
  | cons f fs ih =>
    intro args h
    cases args with
    | nil => simp [WTfields] at h
    | cons a as =>
      simp only [WTfields, Bool.and_eq_true] at h
      simp [ih as h.2]

theorem WTfields_zip {σ : Schema} : ∀ (fs : List Field) (args : List Val),
    WTfields σ fs args = true → ∀ f a, (f, a) ∈ fs.zip args → WT σ f.ty a = true := by
  intro fs
  induction fs with
  | nil => intro args _ f a h; simp at h
  | cons g fs ih =>
    intro args h f a hm
    cases args with
    | nil => simp at hm
    | cons b bs =>
      simp only [WTfields, Bool.and_eq_true] at h
      rw [List.zip_cons_cons] at hm
      rcases List.mem_cons.1 hm with e | hm
      · cases e; exact h.1
      · exact ih bs h.2 f a hm

theorem fromKVs_toKVs (σ : Schema) (om : Bool) (all : List Field)
    (hnd : nodupB (all.map (·.name)) = true) :
    ∀ (fs : List Field) (args : List Val), (∀ f ∈ fs, f ∈ all) →
      (∀ f a, (f, a) ∈ fs.zip args → fromMP σ f.ty (toMP σ a) = some a) →
      fromKVs σ all (toKVs σ om fs args) = some (emitted om fs args) := by
  intro fs
  induction fs with
  | nil => intro args _ _; cases args <;> simp [toKVs, emitted, fromKVs]
  | cons f fs ih =>
    intro args hsub hrt
    cases args with
    | nil => simp [toKVs, emitted, fromKVs]
    | cons a as =>
      have ht := ih as (fun g hg => hsub g (by simp [hg])) (fun g b hm => hrt g b (by simp [hm]))
      simp only [toKVs, emitted]
      split
      · exact ht
      · simp only [fromKVs]
        rw [find_field all f hnd (hsub f (by simp))]
        simp [hrt f a (by simp), ht]

/-! ### arrays -/

theorem fromMPs_toMPs (σ : Schema) (e : FTy) : ∀ (xs : List Val),
    (∀ x ∈ xs, fromMP σ e (toMP σ x) = some x) → fromMPs σ e (toMPs σ xs) = some xs := by
  intro xs
  induction xs with
  | nil => intro _; simp [toMPs, fromMPs]
  | cons x xs ih =>
    intro h
    simp [toMPs, fromMPs, h x (by simp), ih (fun y hy => h y (by simp [hy]))]

theorem fromFix_toMPs (σ : Schema) : ∀ (es : List FTy) (xs : List Val), es.length = xs.length →
    (∀ e x, (e, x) ∈ es.zip xs → fromMP σ e (toMP σ x) = some x) →
    fromFix σ es (toMPs σ xs) = some xs := by
  intro es
  induction es with
  | nil => intro xs hl _; cases xs <;> simp_all [toMPs, fromFix]
  | cons e es ih =>
    intro xs hl h
    cases xs with
    | nil => simp at hl
    | cons x xs =>
      simp [toMPs, fromFix, h e x (by simp),
        ih xs (by simpa using hl) (fun e' x' hm => h e' x' (by simp [hm]))]

theorem WTs_mem {σ : Schema} {e : FTy} : ∀ (xs : List Val), WTs σ e xs = true → ∀ x ∈ xs, WT σ e x = true := by
  intro xs
  induction xs with
  | nil => intro _ x hx; cases hx
  | cons y ys ih =>
    intro h x hx
    simp only [WTs, Bool.and_eq_true] at h
    rcases List.mem_cons.1 hx with rfl | hx
    · exact h.1
    · exact ih h.2 x hx

theorem WTfix_length {σ : Schema} : ∀ (es : List FTy) (xs : List Val),
    WTfix σ es xs = true → es.length = xs.length := by
  intro es
  induction es with
  | nil => intro xs h; cases xs <;> simp_all [WTfix]
  | cons e es ih =>
    intro xs h
    cases xs with
    | nil => simp [WTfix] at h
    | cons x xs =>
      simp only [WTfix, Bool.and_eq_true] at h
      simp [ih xs h.2]

theorem WTfix_zip {σ : Schema} : ∀ (es : List FTy) (xs : List Val),
    WTfix σ es xs = true → ∀ e x, (e, x) ∈ es.zip xs → WT σ e x = true := by
  intro es
  induction es with
  | nil => intro xs _ e x h; simp at h
  | cons e' es ih =>
    intro xs h e x hm
    cases xs with
    | nil => simp at hm
    | cons y ys =>
      simp only [WTfix, Bool.and_eq_true] at h
      rw [List.zip_cons_cons] at hm
      rcases List.mem_cons.1 hm with c | hm
      · cases c; exact h.1
      · exact ih ys h.2 e x hm

theorem tysWF_mem {σ : Schema} : ∀ (es : List (List Atom)), tysWF σ es = true → ∀ e ∈ es, tyWF σ e = true := by
  intro es
  induction es with
  | nil => intro _ e he; cases he
  | cons t ts ih =>
    intro h e he
    simp only [tysWF, Bool.and_eq_true] at h
    rcases List.mem_cons.1 he with rfl | he
    · simp [tyWF, h.1.1, h.1.2]
    · exact ih h.2 e he

/-! ### what `SchemaWF` gives for a class found in the schema -/

theorem schema_struct {σ : Schema} (hσ : SchemaWF σ = true) {n : Bytes} {sd : StructDef}
    (hf : σ.find n = some sd) : StructDef.wf σ sd = true := by
  simp only [SchemaWF, Bool.and_eq_true] at hσ
  exact List.all_eq_true.1 hσ.2 sd (find_mem hf)

theorem struct_fields_nodup {σ : Schema} {sd : StructDef} (h : StructDef.wf σ sd = true) :
    nodupB (sd.fields.map (·.name)) = true := by
  simp only [StructDef.wf, Bool.and_eq_true] at h
  exact h.1.1.1.1.1

theorem struct_field_wf {σ : Schema} {sd : StructDef} (h : StructDef.wf σ sd = true) :
    ∀ f ∈ sd.fields, Field.wf σ f = true := by
  simp only [StructDef.wf, Bool.and_eq_true] at h
  exact List.all_eq_true.1 h.1.2

theorem field_tyWF {σ : Schema} {f : Field} (h : Field.wf σ f = true) : tyWF σ f.ty = true := by
  simp only [Field.wf, Bool.and_eq_true] at h
  exact h.1.2

/-! ### the round trip at the msgpack-value level -/

theorem fromMP_toMP (σ : Schema) (hσ : SchemaWF σ = true) :
    ∀ (v : Val) (ty : FTy), tyWF σ ty = true → WT σ ty v = true → fromMP σ ty (toMP σ v) = some v := by
  intro v
  induction v using Val.ind with
  | hnone =>
    intro ty _ hwt
    simp only [WT] at hwt
    simp only [toMP, fromMP]
    cases hp : pick .nil ty with
    | none => simp [hp] at hwt
    | some a => rfl
  | hbool b =>
    intro ty _ hwt
    simp only [WT] at hwt
    simp only [toMP, fromMP]
    cases hp : pick .bool ty with
    | none => simp [hp] at hwt
    | some a => rfl
  | hint i =>
    intro ty _ hwt
    simp only [WT] at hwt
    simp only [toMP, fromMP]
    cases hp : pick .int ty with
    | none => simp [hp] at hwt
    | some a =>
      rw [hp] at hwt
      cases a <;> simp only [Bool.false_eq_true] at hwt
      · rfl
      · simp only [Bool.and_eq_true, decide_eq_true_eq] at hwt
        simp [hwt.1, hwt.2]
  | hstr s =>
    intro ty _ hwt
    simp only [WT, Bool.and_eq_true] at hwt
    simp only [toMP, fromMP]
    cases hp : pick .str ty with
    | none => simp [hp] at hwt
    | some a =>
      rw [hp] at hwt
      cases a <;> simp only [Bool.false_eq_true, and_false] at hwt
      · rfl
      · have hm := hwt.2
        simp only [hm, if_true]
  | hdict =>
    intro ty _ hwt
    simp only [WT] at hwt
    simp only [toMP, fromMP]
    cases hp : pick .map ty with
    | none => simp [hp] at hwt
    | some a =>
      rw [hp] at hwt
      cases a <;> simp only [Bool.false_eq_true] at hwt
      rfl
  | htup xs ih =>
    intro ty hty hwt
    simp only [WT, Bool.and_eq_true] at hwt
    simp only [toMP, fromMP]
    cases hp : pick .arr ty with
    | none => simp [hp] at hwt
    | some a =>
      have hawf := tyWF_pick hty hp
      rw [hp] at hwt
      cases a <;> simp only [Bool.false_eq_true, and_false] at hwt
      case arr e =>
        simp only [Atom.wf, Bool.and_eq_true] at hawf
        have he : tyWF σ e = true := by simp [tyWF, hawf.1, hawf.2]
        have := fromMPs_toMPs σ e xs (fun x hx => ih x hx e he (WTs_mem xs hwt.2 x hx))
        simp [this]
      case strset =>
        simp only [Bool.and_eq_true] at hwt
        have he : tyWF σ [.str] = true := by simp [tyWF, kindsOf, nodupK, atomsWF, Atom.wf]
        have := fromMPs_toMPs σ [.str] xs (fun x hx => ih x hx [.str] he (WTs_mem xs hwt.2.1 x hx))
        simp [this, hwt.2.2]
      case fix es =>
        simp only [Atom.wf] at hawf
        have := fromFix_toMPs σ es xs (WTfix_length es xs hwt.2) (fun e x hm =>
          ih x (List.of_mem_zip hm).2 e (tysWF_mem es hawf e (List.of_mem_zip hm).1)
            (WTfix_zip es xs hwt.2 e x hm))
        simp [this]
  | hnode n args ih =>
    intro ty hty hwt
    simp only [WT] at hwt
    cases hp : pick .map ty with
    | none => simp [hp] at hwt
    | some a =>
      have hawf := tyWF_pick hty hp
      rw [hp] at hwt
      cases a <;> simp only [Bool.false_eq_true] at hwt
      case structs names =>
        simp only [Atom.wf] at hawf
        simp only [Bool.and_eq_true, List.contains_eq_mem, decide_eq_true_eq] at hwt
        cases hf : σ.find n with
        | none => simp [hf] at hwt
        | some sd =>
          rw [hf] at hwt
          have hsd := schema_struct hσ hf
          have hnd := struct_fields_nodup hsd
          have hname := find_name hf
          have hlen := WTfields_length sd.fields args hwt.2
          have hrt : ∀ f a, (f, a) ∈ sd.fields.zip args → fromMP σ f.ty (toMP σ a) = some a :=
            fun f a hm => ih a (List.of_mem_zip hm).2 f.ty
              (field_tyWF (struct_field_wf hsd f (List.of_mem_zip hm).1))
              (WTfields_zip sd.fields args hwt.2 f a hm)
          have hkv := fromKVs_toKVs σ sd.omitDefaults sd.fields hnd sd.fields args (fun f hf => hf) hrt
          have hasm := assemble_of_lookup sd.omitDefaults (emitted sd.omitDefaults sd.fields args)
            sd.fields args hlen (lookup_emitted sd.omitDefaults sd.fields args hnd)
          simp only [toMP, hf]
          cases htag : sd.tag with
          | none =>
            have hu := structs_decode_untagged hawf hwt.1 hf htag
            simp only [tagEntry, htag, List.nil_append]
            rw [fromMP.eq_def]
            simp only [hp, hu, hkv, Option.bind_some, hasm, Option.map_some, hname]
          | some t =>
            have hu := structs_decode_tagged hawf hwt.1 hf htag
            simp only [tagEntry, htag, List.cons_append, List.nil_append]
            rw [fromMP.eq_def]
            simp only [hp, hu.1, beq_self_eq_true, if_true, hu.2, hkv, Option.bind_some, hasm,
              Option.map_some, hname]

/-! ### the emitted msgpack value is encodable (ints in 64-bit range, 32-bit lengths) -/

theorem toMPs_length (σ : Schema) (xs : List Val) : (toMPs σ xs).length = xs.length := by
  induction xs with
  | nil => rfl
  | cons x xs ih => simp [toMPs, ih]

theorem wfList_toMPs (σ : Schema) (xs : List Val) (h : ∀ x ∈ xs, (toMP σ x).wf = true) :
    MP.wfList (toMPs σ xs) = true := by
  induction xs with
  | nil => rfl
  | cons x xs ih =>
    simp only [toMPs, MP.wfList, Bool.and_eq_true]
    exact ⟨h x (by simp), ih (fun y hy => h y (by simp [hy]))⟩

theorem toKVs_length_le (σ : Schema) (om : Bool) : ∀ (fs : List Field) (args : List Val),
    (toKVs σ om fs args).length ≤ fs.length := by
  intro fs
  induction fs with
  | nil => intro args; cases args <;> simp [toKVs]
  | cons f fs ih =>
    intro args
    cases args with
    | nil => simp [toKVs]
    | cons a as =>
      simp only [toKVs]
      split
      · have := ih as; simp; omega
      · have := ih as; simp; omega

theorem wfKVs_toKVs (σ : Schema) (om : Bool) : ∀ (fs : List Field) (args : List Val),
    (∀ f ∈ fs, f.name.length < 2 ^ 32) → (∀ a ∈ args, (toMP σ a).wf = true) →
    MP.wfKVs (toKVs σ om fs args) = true := by
  intro fs
  induction fs with
  | nil => intro args _ _; cases args <;> simp [toKVs, MP.wfKVs]
  | cons f fs ih =>
    intro args hn ha
    cases args with
    | nil => simp [toKVs, MP.wfKVs]
    | cons a as =>
      have ht := ih as (fun g hg => hn g (by simp [hg])) (fun b hb => ha b (by simp [hb]))
      simp only [toKVs]
      split
      · exact ht
      · simp only [MP.wfKVs, MP.wf, Bool.and_eq_true, decide_eq_true_eq]
        exact ⟨hn f (by simp), ha a (by simp), ht⟩

theorem toMP_wf (σ : Schema) (hσ : SchemaWF σ = true) :
    ∀ (v : Val) (ty : FTy), tyWF σ ty = true → WT σ ty v = true → (toMP σ v).wf = true := by
  intro v
  induction v using Val.ind with
  | hnone => intro ty _ _; rfl
  | hbool b => intro ty _ _; rfl
  | hdict => intro ty _ _; simp [toMP, MP.wf, MP.wfKVs]
  | hint i =>
    intro ty hty hwt
    simp only [WT] at hwt
    simp only [toMP, MP.wf, Bool.and_eq_true, decide_eq_true_eq]
    cases hp : pick .int ty with
    | none => simp [hp] at hwt
    | some a =>
      have hawf := tyWF_pick hty hp
      rw [hp] at hwt
      cases a <;> simp only [Bool.false_eq_true] at hwt
      · simpa using hwt
      · simp only [Bool.and_eq_true, decide_eq_true_eq] at hwt
        simp only [Atom.wf, decide_eq_true_eq] at hawf
        constructor
        · omega
        · have : ((_ : Nat) : Int) ≤ ((2 ^ 64 : Nat) : Int) := Int.ofNat_le.2 hawf
          omega
  | hstr s =>
    intro ty _ hwt
    simp only [WT, Bool.and_eq_true] at hwt
    simp only [toMP, MP.wf]
    exact hwt.1
  | htup xs ih =>
    intro ty hty hwt
    simp only [WT, Bool.and_eq_true] at hwt
    simp only [toMP, MP.wf, Bool.and_eq_true, toMPs_length]
    refine ⟨hwt.1, wfList_toMPs σ xs ?_⟩
    cases hp : pick .arr ty with
    | none => simp [hp] at hwt
    | some a =>
      have hawf := tyWF_pick hty hp
      rw [hp] at hwt
      cases a <;> simp only [Bool.false_eq_true, and_false] at hwt
      case arr e =>
        simp only [Atom.wf, Bool.and_eq_true] at hawf
        have he : tyWF σ e = true := by simp [tyWF, hawf.1, hawf.2]
        exact fun x hx => ih x hx e he (WTs_mem xs hwt.2 x hx)
      case strset =>
        simp only [Bool.and_eq_true] at hwt
        have he : tyWF σ [.str] = true := by simp [tyWF, kindsOf, nodupK, atomsWF, Atom.wf]
        exact fun x hx => ih x hx [.str] he (WTs_mem xs hwt.2.1 x hx)
      case fix es =>
        simp only [Atom.wf] at hawf
        intro x hx
        have hl := WTfix_length es xs hwt.2
        obtain ⟨i, hi, rfl⟩ := List.getElem_of_mem hx
        have hi' : i < es.length := by omega
        have hm : (es[i], xs[i]) ∈ es.zip xs := by
          have : (es.zip xs)[i]'(by simp; omega) = (es[i], xs[i]) := by simp
          exact this ▸ List.getElem_mem _
        exact ih _ hx es[i] (tysWF_mem es hawf _ (List.getElem_mem hi')) (WTfix_zip es xs hwt.2 _ _ hm)
  | hnode n args ih =>
    intro ty hty hwt
    simp only [WT] at hwt
    cases hp : pick .map ty with
    | none => simp [hp] at hwt
    | some a =>
      rw [hp] at hwt
      cases a <;> simp only [Bool.false_eq_true] at hwt
      case structs names =>
        simp only [Bool.and_eq_true] at hwt
        cases hf : σ.find n with
        | none => simp [hf] at hwt
        | some sd =>
          rw [hf] at hwt
          have hsd := schema_struct hσ hf
          have hfw := struct_field_wf hsd
          have hlen := WTfields_length sd.fields args hwt.2
          have hargs : ∀ a ∈ args, (toMP σ a).wf = true := by
            intro a ha
            obtain ⟨i, hi, rfl⟩ := List.getElem_of_mem ha
            have hi' : i < sd.fields.length := by omega
            have hm : (sd.fields[i], args[i]) ∈ sd.fields.zip args := by
              have : (sd.fields.zip args)[i]'(by simp; omega) = (sd.fields[i], args[i]) := by simp
              exact this ▸ List.getElem_mem _
            exact ih _ ha sd.fields[i].ty (field_tyWF (hfw _ (List.getElem_mem hi')))
              (WTfields_zip sd.fields args hwt.2 _ _ hm)
          have hnames : ∀ f ∈ sd.fields, f.name.length < 2 ^ 32 := by
            intro f hf'
            have := hfw f hf'
            simp only [Field.wf, Bool.and_eq_true, decide_eq_true_eq] at this
            exact this.1.1
          have hkv := wfKVs_toKVs σ sd.omitDefaults sd.fields args hnames hargs
          have hkl := toKVs_length_le σ sd.omitDefaults sd.fields args
          simp only [StructDef.wf, Bool.and_eq_true, decide_eq_true_eq] at hsd
          simp only [SchemaWF, Bool.and_eq_true, decide_eq_true_eq] at hσ
          have hcnt := hsd.1.1.1.2
          simp only [toMP, hf]
          cases htag : sd.tag with
          | none =>
            simp only [tagEntry, htag, List.nil_append, MP.wf, Bool.and_eq_true, decide_eq_true_eq]
            exact ⟨by omega, hkv⟩
          | some t =>
            have htl := hsd.1.1.2
            rw [htag] at htl
            simp only [decide_eq_true_eq] at htl
            simp only [tagEntry, htag, List.cons_append, List.nil_append, MP.wf, MP.wfKVs,
              Bool.and_eq_true, decide_eq_true_eq, List.length_cons]
            exact ⟨by omega, hσ.1.1, htl, hkv⟩

/-! ### bytes in, bytes out -/

theorem decodeNode_encodeNode (σ : Schema) (hσ : SchemaWF σ = true) (ty : FTy) (hty : tyWF σ ty = true)
    (v : Val) (hwt : WT σ ty v = true) : decodeNode σ ty (encodeNode σ v) = some v := by
  unfold decodeNode encodeNode
  have h := decodeMP_encodeMP (toMP σ v) (toMP_wf σ hσ v ty hty hwt) []
  rw [List.append_nil] at h
  rw [h]
  exact fromMP_toMP σ hσ v ty hty hwt

end PytypeModel.Pytd
