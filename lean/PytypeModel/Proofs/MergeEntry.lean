import PytypeModel.Merge.Entry

namespace PytypeModel.Merge.Entry

theorem fsGet_fsSet_same (fs : FS) (q t : String) : fsGet (fsSet fs q t) q = some t := by
  induction fs with
  | nil => simp [fsSet, fsGet]
  | cons a r ih =>
    obtain ⟨p, t'⟩ := a
    by_cases h : p = q
    · simp [fsSet, fsGet, h]
    · simp [fsSet, fsGet, h, ih]

theorem fsGet_fsSet_other (fs : FS) (q t x : String) (h : x ≠ q) : fsGet (fsSet fs q t) x = fsGet fs x := by
  induction fs with
  | nil =>
    have : ¬ q = x := fun e => h e.symm
    simp [fsSet, fsGet, this]
  | cons a r ih =>
    obtain ⟨p, t'⟩ := a
    by_cases hp : p = q
    · subst hp
      have : ¬ p = x := fun e => h e.symm
      simp [fsSet, fsGet, this]
    · by_cases hx : p = x
      · subst hx
        simp [fsSet, fsGet, h]
      · simp [fsSet, fsGet, hp, hx, ih]

theorem backupPath_ne (p b : String) : backupPath p b ≠ p := by
  intro h
  have hl := congrArg String.length h
  simp only [backupPath, String.length_append] at hl
  have : ".".length = 1 := rfl
  omega

end PytypeModel.Merge.Entry
