import PytypeModel.Blocks.WF

/-! Proofs about `buildOps` (opcodes._make_opcode_list, _add_jump_targets, _add_async_for_jump_back_targets) -/
namespace PytypeModel.Blocks

/-- the attributes `_add_jump_targets` / `_add_async_for_jump_back_targets` leave alone -/
def SameLinks (a b : Op) : Prop :=
  b.idx = a.idx ∧ b.prev = a.prev ∧ b.next = a.next ∧ b.cls = a.cls ∧ b.off = a.off ∧ b.blockTarget = a.blockTarget

theorem SameLinks.refl (a : Op) : SameLinks a a := ⟨rfl, rfl, rfl, rfl, rfl, rfl⟩

theorem SameLinks.trans {a b c : Op} (h1 : SameLinks a b) (h2 : SameLinks b c) : SameLinks a c := by
  obtain ⟨a1, a2, a3, a4, a5, a6⟩ := h1
  obtain ⟨b1, b2, b3, b4, b5, b6⟩ := h2
  exact ⟨b1.trans a1, b2.trans a2, b3.trans a3, b4.trans a4, b5.trans a5, b6.trans a6⟩

/-- pointwise relation between two lists (same length) -/
def Pointwise {α β : Type} (R : α → β → Prop) : List α → List β → Prop
  | [], [] => True
  | a :: l, b :: r => R a b ∧ Pointwise R l r
  | _, _ => False

theorem Pointwise.length_eq {α β : Type} {R : α → β → Prop} : ∀ {l : List α} {r : List β}, Pointwise R l r → l.length = r.length
  | [], [], _ => rfl
  | a :: l, b :: r, h => by simp [Pointwise.length_eq h.2]
  | [], _ :: _, h => h.elim
  | _ :: _, [], h => h.elim

theorem Pointwise.isEmpty_eq {α β : Type} {R : α → β → Prop} : ∀ {l : List α} {r : List β}, Pointwise R l r → l.isEmpty = r.isEmpty
  | [], [], _ => rfl
  | _ :: _, _ :: _, _ => rfl
  | [], _ :: _, h => h.elim
  | _ :: _, [], h => h.elim

theorem Pointwise.getElem? {α β : Type} {R : α → β → Prop} : ∀ {l : List α} {r : List β}, Pointwise R l r →
    ∀ (i : Nat) (a : α), l[i]? = some a → ∃ b, r[i]? = some b ∧ R a b
  | [], [], _, i, a, h => by simp at h
  | x :: l, y :: r, h, 0, a, ha => by
    simp at ha; subst ha; exact ⟨y, by simp, h.1⟩
  | x :: l, y :: r, h, i + 1, a, ha => by
    simp at ha
    obtain ⟨b, hb, hr⟩ := Pointwise.getElem? h.2 i a ha
    exact ⟨b, by simpa using hb, hr⟩
  | [], _ :: _, h, _, _, _ => h.elim
  | _ :: _, [], h, _, _, _ => h.elim

theorem Pointwise.mem_right {α β : Type} {R : α → β → Prop} : ∀ {l : List α} {r : List β}, Pointwise R l r →
    ∀ b ∈ r, ∃ a ∈ l, R a b
  | [], [], _, b, hb => by simp at hb
  | x :: l, y :: r, h, b, hb => by
    rcases List.mem_cons.1 hb with rfl | hb
    · exact ⟨x, by simp, h.1⟩
    · obtain ⟨a, ha, hr⟩ := Pointwise.mem_right h.2 b hb
      exact ⟨a, List.mem_cons_of_mem _ ha, hr⟩
  | [], _ :: _, h, _, _ => h.elim
  | _ :: _, [], h, _, _ => h.elim

theorem Pointwise.trans {α β γ : Type} {R : α → β → Prop} {S : β → γ → Prop} {T : α → γ → Prop}
    (hT : ∀ a b c, R a b → S b c → T a c) :
    ∀ {l : List α} {m : List β} {r : List γ}, Pointwise R l m → Pointwise S m r → Pointwise T l r
  | [], [], [], _, _ => trivial
  | a :: l, b :: m, c :: r, h1, h2 => ⟨hT a b c h1.1 h2.1, Pointwise.trans hT h1.2 h2.2⟩
  | [], [], _ :: _, _, h => h.elim
  | [], _ :: _, _, h, _ => h.elim
  | _ :: _, [], _, h, _ => h.elim
  | _ :: _, _ :: _, [], _, h => h.elim

theorem pointwise_map {α β : Type} {R : α → β → Prop} (g : α → β) (hg : ∀ a, R a (g a)) :
    ∀ (l : List α), Pointwise R l (l.map g)
  | [] => trivial
  | a :: l => ⟨hg a, pointwise_map g hg l⟩

theorem mapExcept_pointwise (f : Op → Except Err Op) : ∀ (l r : List Op),
    mapExcept f l = .ok r → Pointwise (fun a b => f a = .ok b) l r
  | [], r, h => by simp [mapExcept] at h; subst h; trivial
  | a :: l, r, h => by
    unfold mapExcept at h
    cases hfa : f a with
    | error e => simp [hfa] at h
    | ok b =>
      cases hl : mapExcept f l with
      | error e => simp [hfa, hl] at h
      | ok bs =>
        simp [hfa, hl] at h; subst h
        exact ⟨hfa, mapExcept_pointwise f l bs hl⟩

/-- positional links survive a pointwise `SameLinks` map -/
theorem opsWFFrom_pointwise : ∀ (l r : List Op) (k : Nat) (p : Option Nat),
    Pointwise SameLinks l r → opsWFFrom k p l = true → opsWFFrom k p r = true
  | [], [], _, _, _, _ => rfl
  | a :: l, b :: r, k, p, h, hw => by
    obtain ⟨⟨h1, h2, h3, _, _, _⟩, hrest⟩ := h
    unfold opsWFFrom at hw ⊢
    simp only [Bool.and_eq_true] at hw ⊢
    obtain ⟨⟨⟨w1, w2⟩, w3⟩, w4⟩ := hw
    refine ⟨⟨⟨by rw [h1]; exact w1, by rw [h2]; exact w2⟩, ?_⟩, opsWFFrom_pointwise l r _ _ hrest w4⟩
    rw [h3, ← Pointwise.isEmpty_eq hrest]; exact w3
  | [], _ :: _, _, _, h, _ => h.elim
  | _ :: _, [], _, _, h, _ => h.elim

theorem mkList_isEmpty (ver : Nat) : ∀ (raw : List RawOp) (k : Nat) (p : Option Nat),
    (mkList ver raw k p).isEmpty = !hasKept ver raw
  | [], _, _ => by simp [mkList, hasKept]
  | r :: rest, k, p => by
    unfold mkList hasKept
    by_cases h : shouldElide ver r rest = true
    · simp only [h, if_true]; exact mkList_isEmpty ver rest k p
    · simp [h]

/-- `_make_opcode_list`: index / prev / next are positional -/
theorem mkList_wf (ver : Nat) : ∀ (raw : List RawOp) (k : Nat) (p : Option Nat),
    opsWFFrom k p (mkList ver raw k p) = true
  | [], _, _ => by simp [mkList, opsWFFrom]
  | r :: rest, k, p => by
    unfold mkList
    by_cases h : shouldElide ver r rest = true
    · simp only [h, if_true]; exact mkList_wf ver rest k p
    · simp only [h]
      unfold opsWFFrom
      have ih := mkList_wf ver rest (k + 1) (some k)
      have he := mkList_isEmpty ver rest (k + 1) (some k)
      simp only [Bool.false_eq_true, if_false, ih, Bool.and_true, he]
      cases hasKept ver rest <;> simp

theorem opsWFFrom_bounds : ∀ (l : List Op) (k : Nat) (p : Option Nat), opsWFFrom k p l = true →
    ∀ o ∈ l, k ≤ o.idx ∧ o.idx < k + l.length
  | [], _, _, _, o, ho => by simp at ho
  | a :: l, k, p, hw, o, ho => by
    unfold opsWFFrom at hw
    simp only [Bool.and_eq_true, beq_iff_eq] at hw
    obtain ⟨⟨⟨w1, _⟩, _⟩, w4⟩ := hw
    rcases List.mem_cons.1 ho with rfl | ho
    · simp only [List.length_cons]; omega
    · have := opsWFFrom_bounds l (k + 1) (some k) w4 o ho
      simp only [List.length_cons]; omega

theorem resolveTarget_ok {ops : List Op} {o2i : List (Nat × Nat)} {a b : Op}
    (hw : opsWFFrom 0 none ops = true) (h : resolveTarget ops o2i a = .ok b) :
    SameLinks a b ∧ (∀ t, b.target = some t → t < ops.length ∨ b.target = a.target) ∧
      ((info a.cls).hasKnownJump = true → a.pre = none → b.target.isSome) ∧ (a.pre.isSome → b.target.isSome) := by
  unfold resolveTarget at h
  cases hp : a.pre with
  | some p =>
    simp only [hp] at h
    cases hf : ops.find? (fun o => o.off == p) with
    | none => simp [hf] at h
    | some t =>
      simp only [hf, Except.ok.injEq] at h
      subst h
      have hmem : t ∈ ops := List.mem_of_find?_eq_some hf
      have := opsWFFrom_bounds ops 0 none hw t hmem
      refine ⟨⟨rfl, rfl, rfl, rfl, rfl, rfl⟩, ?_, by simp, by simp⟩
      intro t' ht'
      left
      simp at ht'
      omega
  | none =>
    simp only [hp] at h
    by_cases hk : (info a.cls).hasKnownJump = true
    · simp only [hk, if_true] at h
      cases hl : o2i.lookup a.argval with
      | none => simp [hl] at h
      | some i =>
        simp only [hl] at h
        by_cases hi : i < ops.length
        · simp only [hi, if_true, Except.ok.injEq] at h
          subst h
          refine ⟨⟨rfl, rfl, rfl, rfl, rfl, rfl⟩, ?_, by simp, by simp⟩
          intro t' ht'
          left
          simp at ht'
          omega
        · simp [hi] at h
    · simp only [hk] at h
      simp only [Bool.false_eq_true, if_false, Except.ok.injEq] at h
      subst h
      exact ⟨SameLinks.refl _, fun t ht => Or.inr rfl, fun h' => absurd h' hk, by simp [hp]⟩

/-- relation established by `_add_async_for_jump_back_targets` on every op: only `eaft` may change -/
def OnlyEaft (a b : Op) : Prop := SameLinks a b ∧ b.target = a.target ∧ b.pre = a.pre

theorem pointwise_onlyEaft_refl : ∀ l : List Op, Pointwise OnlyEaft l l
  | [] => trivial
  | a :: l => ⟨⟨SameLinks.refl a, rfl, rfl⟩, pointwise_onlyEaft_refl l⟩

theorem asyncEntry_pointwise (o2i : List (Nat × Nat)) (ops ops' : List Op) (e : Nat × Nat)
    (h : asyncEntry o2i ops e = .ok ops') : Pointwise OnlyEaft ops ops' := by
  have hrefl : ∀ l : List Op, Pointwise OnlyEaft l l := by
    intro l
    induction l with
    | nil => trivial
    | cons a l ih => exact ⟨⟨SameLinks.refl a, rfl, rfl⟩, ih⟩
  unfold asyncEntry at h
  cases h1 : o2i.lookup e.1 with
  | none => simp [h1] at h; subst h; exact hrefl ops
  | some s =>
    simp only [h1] at h
    split at h
    · cases h2 : o2i.lookup e.2 with
      | none => simp [h2] at h
      | some t =>
        simp only [h2, Except.ok.injEq] at h
        subst h
        apply pointwise_map
        intro a
        split
        · exact ⟨⟨rfl, rfl, rfl, rfl, rfl, rfl⟩, rfl, rfl⟩
        · exact ⟨SameLinks.refl a, rfl, rfl⟩
    · simp at h; subst h; exact hrefl ops

theorem addAsyncFor_pointwise (o2i : List (Nat × Nat)) : ∀ (entries : List (Nat × Nat)) (ops ops' : List Op),
    addAsyncFor o2i entries ops = .ok ops' → Pointwise OnlyEaft ops ops'
  | [], ops, ops', h => by
    simp [addAsyncFor] at h; subst h
    induction ops with
    | nil => trivial
    | cons a l ih => exact ⟨⟨SameLinks.refl a, rfl, rfl⟩, ih⟩
  | e :: es, ops, ops', h => by
    unfold addAsyncFor at h
    cases h1 : asyncEntry o2i ops e with
    | error err => simp [h1] at h
    | ok ops1 =>
      simp only [h1] at h
      have p1 := asyncEntry_pointwise o2i ops ops1 e h1
      have p2 := addAsyncFor_pointwise o2i es ops1 ops' h
      exact Pointwise.trans (fun a b c hab hbc =>
        ⟨hab.1.trans hbc.1, hbc.2.1.trans hab.2.1, hbc.2.2.trans hab.2.2⟩) p1 p2

/-- what `buildOps` guarantees about every stream it accepts -/
theorem buildOps_wf {ver : Nat} {raw : List RawOp} {entries : List (Nat × Nat)} {ops : List Op}
    (h : buildOps ver raw entries = .ok ops) :
    opsWFFrom 0 none ops = true ∧
    (∀ op ∈ ops, ∀ t, op.target = some t → t < ops.length) ∧
    (∀ op ∈ ops, (info op.cls).hasKnownJump = true → op.target.isSome) := by
  unfold buildOps at h
  cases h1 : addJumpTargets (mkList ver raw 0 none) (offsetToIndex ver raw 0) with
  | error e => simp [h1] at h
  | ok ops1 =>
    simp only [h1] at h
    have hw0 := mkList_wf ver raw 0 none
    have p1 := mapExcept_pointwise _ _ _ h1
    have p1' : Pointwise SameLinks (mkList ver raw 0 none) ops1 := by
      refine Pointwise.trans (R := fun a b => resolveTarget (mkList ver raw 0 none) (offsetToIndex ver raw 0) a = .ok b)
        (S := fun a b => a = b) (fun a b c hab hbc => ?_) p1 ?_
      · subst hbc; exact (resolveTarget_ok hw0 hab).1
      · clear p1 h1 h
        induction ops1 with
        | nil => trivial
        | cons a l ih => exact ⟨rfl, ih⟩
    have hlen1 : (mkList ver raw 0 none).length = ops1.length := p1.length_eq
    have hw1 : opsWFFrom 0 none ops1 = true := opsWFFrom_pointwise _ _ _ _ p1' hw0
    have ht1 : ∀ op ∈ ops1, ∀ t, op.target = some t → t < ops1.length := by
      intro op hop t ht
      obtain ⟨a, ha, hr⟩ := p1.mem_right op hop
      have hok := resolveTarget_ok hw0 hr
      rcases hok.2.1 t ht with h2 | h2
      · omega
      · -- target unchanged: the fresh op had none
        have hnone : a.target = none := by
          have : ∀ (raw : List RawOp) (k : Nat) (p : Option Nat), ∀ o ∈ mkList ver raw k p, o.target = none := by
            intro raw
            induction raw with
            | nil => intro k p o ho; simp [mkList] at ho
            | cons r rest ih =>
              intro k p o ho
              unfold mkList at ho
              split at ho
              · exact ih k p o ho
              · rcases List.mem_cons.1 ho with rfl | ho
                · rfl
                · exact ih _ _ o ho
          exact this raw 0 none a ha
        rw [h2, hnone] at ht; simp at ht
    have hj1 : ∀ op ∈ ops1, (info op.cls).hasKnownJump = true → op.target.isSome := by
      intro op hop hk
      obtain ⟨a, ha, hr⟩ := p1.mem_right op hop
      have hok := resolveTarget_ok hw0 hr
      have hcls : op.cls = a.cls := hok.1.2.2.2.1
      cases hp : a.pre with
      | none => exact hok.2.2.1 (hcls ▸ hk) hp
      | some p => exact hok.2.2.2 (by simp [hp])
    by_cases hv : ver ≥ 12
    · simp only [hv, if_true] at h
      have p2 := addAsyncFor_pointwise _ _ _ _ h
      have p2' : Pointwise SameLinks ops1 ops :=
        Pointwise.trans (S := fun a b => a = b) (fun a b c hab hbc => by subst hbc; exact hab.1) p2 (by
          clear p2 h
          induction ops with
          | nil => trivial
          | cons a l ih => exact ⟨rfl, ih⟩)
      have hlen2 : ops1.length = ops.length := p2.length_eq
      refine ⟨opsWFFrom_pointwise _ _ _ _ p2' hw1, ?_, ?_⟩
      · intro op hop t ht
        obtain ⟨a, ha, hr⟩ := p2.mem_right op hop
        have := ht1 a ha t (hr.2.1 ▸ ht)
        omega
      · intro op hop hk
        obtain ⟨a, ha, hr⟩ := p2.mem_right op hop
        rw [hr.2.1]
        exact hj1 a ha (hr.1.2.2.2.1 ▸ hk)
    · simp only [hv] at h
      simp only [if_false, Except.ok.injEq] at h
      subst h
      exact ⟨hw1, ht1, hj1⟩


/-! ### targets are the positions of the jump-argument offsets (no elision, i.e. every version but 3.11) -/

theorem shouldElide_false {ver : Nat} (hv : ver ≠ 11) (r : RawOp) (rest : List RawOp) :
    shouldElide ver r rest = false := by
  unfold shouldElide
  have : (ver == 11) = false := by simpa using hv
  simp [this]

/-- a fresh op as `_make_opcode_list` leaves it -/
def FreshOf (r : RawOp) (o : Op) : Prop :=
  o.off = r.off ∧ o.cls = r.cls ∧ o.argval = r.argval ∧ o.pre = r.pre ∧ o.target = none

theorem mkList_fresh {ver : Nat} (hv : ver ≠ 11) : ∀ (raw : List RawOp) (k : Nat) (p : Option Nat),
    Pointwise FreshOf raw (mkList ver raw k p)
  | [], _, _ => by simp [mkList, Pointwise]
  | r :: rest, k, p => by
    unfold mkList
    simp only [shouldElide_false hv, Bool.false_eq_true, if_false]
    exact ⟨⟨rfl, rfl, rfl, rfl, rfl⟩, mkList_fresh hv rest _ _⟩

theorem offsetToIndex_lookup {ver : Nat} (hv : ver ≠ 11) : ∀ (raw : List RawOp) (k off i : Nat),
    (offsetToIndex ver raw k).lookup off = some i →
    ∃ j r', i = k + j ∧ raw[j]? = some r' ∧ r'.off = off
  | [], _, _, _, h => by simp [offsetToIndex] at h
  | r :: rest, k, off, i, h => by
    unfold offsetToIndex at h
    simp only [shouldElide_false hv, Bool.false_eq_true, if_false, List.lookup_cons] at h
    by_cases ho : off = r.off
    · subst ho
      simp at h
      exact ⟨0, r, by omega, by simp, rfl⟩
    · have : (off == r.off) = false := by simpa using ho
      simp only [this] at h
      obtain ⟨j, r', hi, hj, hoff⟩ := offsetToIndex_lookup hv rest (k + 1) off i h
      exact ⟨j + 1, r', by omega, by simpa using hj, hoff⟩

theorem offsetToIndex_lookup_some {ver : Nat} (hv : ver ≠ 11) : ∀ (raw : List RawOp) (k off : Nat),
    (raw.any fun x => x.off == off) = true → ∃ i, (offsetToIndex ver raw k).lookup off = some i ∧ i < k + raw.length
  | [], _, _, h => by simp at h
  | r :: rest, k, off, h => by
    unfold offsetToIndex
    simp only [shouldElide_false hv, Bool.false_eq_true, if_false, List.lookup_cons]
    by_cases ho : off = r.off
    · subst ho; exact ⟨k, by simp, by simp⟩
    · have hne : (off == r.off) = false := by simpa using ho
      have hne' : (r.off == off) = false := by simpa using Ne.symm ho
      simp only [List.any_cons, hne', Bool.false_or] at h
      obtain ⟨i, hi, hlt⟩ := offsetToIndex_lookup_some hv rest (k + 1) off h
      exact ⟨i, by simp only [hne]; exact hi, by simp only [List.length_cons]; omega⟩

theorem opsWFFrom_getElem : ∀ (l : List Op) (k : Nat) (p : Option Nat), opsWFFrom k p l = true →
    ∀ j o, l[j]? = some o → o.idx = k + j
  | [], _, _, _, j, o, h => by simp at h
  | a :: l, k, p, hw, j, o, h => by
    unfold opsWFFrom at hw
    simp only [Bool.and_eq_true, beq_iff_eq] at hw
    obtain ⟨⟨⟨w1, _⟩, _⟩, w4⟩ := hw
    cases j with
    | zero => simp at h; subst h; omega
    | succ j =>
      simp at h
      have := opsWFFrom_getElem l (k + 1) (some k) w4 j o h
      omega

theorem buildOps_targets {ver : Nat} (hv : ver ≠ 11) {raw : List RawOp} {entries : List (Nat × Nat)}
    {ops : List Op} (h : buildOps ver raw entries = .ok ops) :
    ops.length = raw.length ∧
    ∀ (i : Nat) (r : RawOp), raw[i]? = some r → ∃ o : Op, ops[i]? = some o ∧ o.idx = i ∧ o.off = r.off ∧
      o.cls = r.cls ∧
      (∀ p, r.pre = some p → ∃ (j : Nat) (r' : RawOp), raw[j]? = some r' ∧ r'.off = p ∧ o.target = some j) ∧
      (r.pre = none → (info r.cls).hasKnownJump = true →
        ∃ (j : Nat) (r' : RawOp), raw[j]? = some r' ∧ r'.off = r.argval ∧ o.target = some j) ∧
      (r.pre = none → (info r.cls).hasKnownJump = false → o.target = none) := by
  have hwf := (buildOps_wf h).1
  unfold buildOps at h
  cases h1 : addJumpTargets (mkList ver raw 0 none) (offsetToIndex ver raw 0) with
  | error e => simp [h1] at h
  | ok ops1 =>
    simp only [h1] at h
    have hw0 := mkList_wf ver raw 0 none
    have pf := mkList_fresh hv raw 0 none
    have p1 := mapExcept_pointwise _ _ _ h1
    -- ops1 vs ops
    have p2 : Pointwise OnlyEaft ops1 ops := by
      by_cases hv12 : ver ≥ 12
      · simp only [hv12, if_true] at h
        exact addAsyncFor_pointwise _ _ _ _ h
      · simp only [hv12, if_false, Except.ok.injEq] at h
        subst h
        exact pointwise_onlyEaft_refl ops1
    refine ⟨by rw [← p2.length_eq, ← p1.length_eq, ← pf.length_eq], ?_⟩
    intro i r hr
    obtain ⟨o0, ho0, hfresh⟩ := pf.getElem? i r hr
    obtain ⟨o1, ho1, hres⟩ := p1.getElem? i o0 ho0
    obtain ⟨o, ho, honly⟩ := p2.getElem? i o1 ho1
    obtain ⟨f1, f2, f3, f4, f5⟩ := hfresh
    have hidx : o.idx = i := by
      have := opsWFFrom_getElem ops 0 none hwf i o ho
      omega
    have hok := resolveTarget_ok hw0 hres
    obtain ⟨s1, s2, s3, s4, s5, s6⟩ := hok.1
    obtain ⟨⟨t1, t2, t3, t4, t5, t6⟩, htgt, _⟩ := honly
    refine ⟨o, ho, hidx, by rw [t5, s5, f1], by rw [t4, s4, f2], ?_, ?_, ?_⟩
    · intro p hp
      unfold resolveTarget at hres
      have hp0 : o0.pre = some p := by rw [f4, hp]
      simp only [hp0] at hres
      cases hf : (mkList ver raw 0 none).find? (fun o => o.off == p) with
      | none => simp [hf] at hres
      | some t =>
        simp only [hf, Except.ok.injEq] at hres
        have hmem : t ∈ mkList ver raw 0 none := List.mem_of_find?_eq_some hf
        have hoff : t.off = p := by simpa using List.find?_some hf
        obtain ⟨j, hj⟩ := List.getElem?_of_mem hmem
        have hjidx := opsWFFrom_getElem _ 0 none hw0 j t hj
        -- raw[j]
        have hjlt : j < raw.length := by
          have := (List.getElem?_eq_some_iff.1 hj).1
          rw [← pf.length_eq] at this; exact this
        have hrj : raw[j]? = some raw[j] := List.getElem?_eq_getElem hjlt
        obtain ⟨t', ht', hfr⟩ := pf.getElem? j _ hrj
        rw [hj] at ht'
        have : t' = t := by simpa using ht'.symm
        subst this
        refine ⟨j, raw[j], hrj, by rw [← hfr.1, hoff], ?_⟩
        rw [htgt, ← hres]
        simp; omega
    · intro hp hk
      unfold resolveTarget at hres
      have hp0 : o0.pre = none := by rw [f4, hp]
      have hk0 : (info o0.cls).hasKnownJump = true := by rw [f2]; exact hk
      simp only [hp0, hk0, if_true] at hres
      cases hl : (offsetToIndex ver raw 0).lookup o0.argval with
      | none => simp [hl] at hres
      | some i' =>
        simp only [hl] at hres
        by_cases hi : i' < (mkList ver raw 0 none).length
        · simp only [hi, if_true, Except.ok.injEq] at hres
          obtain ⟨j, r', hij, hj, hoff⟩ := offsetToIndex_lookup hv raw 0 _ _ hl
          refine ⟨j, r', hj, by rw [hoff, f3], ?_⟩
          rw [htgt, ← hres]
          simp; omega
        · simp [hi] at hres
    · intro hp hk
      unfold resolveTarget at hres
      have hp0 : o0.pre = none := by rw [f4, hp]
      have hk0 : (info o0.cls).hasKnownJump = false := by rw [f2]; exact hk
      simp only [hp0, hk0, Bool.false_eq_true, if_false, Except.ok.injEq] at hres
      rw [htgt, ← hres, f5]

end PytypeModel.Blocks
