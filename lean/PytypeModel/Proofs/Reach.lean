import PytypeModel.Typegraph.Reach
import Mathlib.Logic.Relation

namespace PytypeModel.Reach
open Relation

/-! ### bit-level lemmas (the `/ 64`, `& 63` arithmetic) -/

theorem getBit_nil (j : Nat) : getBit [] j = false := by
  simp [getBit]

theorem getBit_orRow (a b : List Nat) (h : a.length = b.length) (j : Nat) :
    getBit (orRow a b) j = (getBit a j || getBit b j) := by
  unfold getBit orRow
  by_cases hk : j / 64 < a.length
  · have hb : j / 64 < b.length := h ▸ hk
    simp [List.getD_eq_getElem?_getD, List.getElem?_zipWith, List.getElem?_eq_getElem hk,
      List.getElem?_eq_getElem hb, Nat.testBit_or]
  · have hb : ¬ j / 64 < b.length := h ▸ hk
    simp [List.getD_eq_getElem?_getD, List.getElem?_zipWith,
      List.getElem?_eq_none (Nat.le_of_not_lt hk), List.getElem?_eq_none (Nat.le_of_not_lt hb)]

theorem orRow_self (d : List Nat) : orRow d d = d := by
  unfold orRow
  induction d with
  | nil => rfl
  | cons x xs ih => simp

theorem length_orRow (a b : List Nat) (h : a.length = b.length) : (orRow a b).length = a.length := by
  simp [orRow, h]

theorem getBit_growRow (size : Nat) (row : List Nat) (j : Nat) :
    getBit (growRow size row) j = getBit row j := by
  unfold getBit growRow
  by_cases hk : j / 64 < row.length
  · simp [List.getD_eq_getElem?_getD, List.getElem?_append_left hk]
  · have hk' := Nat.le_of_not_lt hk
    simp only [List.getD_eq_getElem?_getD, List.getElem?_append_right hk',
      List.getElem?_eq_none hk']
    by_cases h2 : j / 64 - row.length < size - row.length
    · simp [h2]
    · simp [h2]

theorem length_growRow (size : Nat) (row : List Nat) (h : row.length ≤ size) :
    (growRow size row).length = size := by
  simp [growRow]; omega

theorem testBit_nodeBit (n k : Nat) : (nodeBit n).testBit k = decide (n % 64 = k) := by
  simp [nodeBit, Nat.one_shiftLeft, Nat.testBit_two_pow]

theorem getBit_set_nodeBit (row : List Nat) (n j : Nat) (h : n / 64 < row.length) :
    getBit (row.set (n / 64) (nodeBit n)) j =
      if j / 64 = n / 64 then decide (j = n) else getBit row j := by
  unfold getBit
  by_cases hj : j / 64 = n / 64
  · simp only [hj, if_true, List.getD_eq_getElem?_getD, List.getElem?_set_self h, Option.getD_some,
      testBit_nodeBit]
    by_cases hjn : j = n
    · simp [hjn]
    · have : n % 64 ≠ j % 64 := by omega
      simp [hjn, this]
  · have hne : n / 64 ≠ j / 64 := fun e => hj e.symm
    simp [hj, List.getD_eq_getElem?_getD, List.getElem?_set_ne hne]

/-! ### the in-place loop computes the simultaneous update -/

def upd (src : Nat) (d : List Nat) (row : List Nat) : List Nat :=
  if getBit row src then orRow row d else row

private theorem upd_self (src : Nat) (d : List Nat) : upd src d d = d := by
  unfold upd; split <;> simp [orRow_self]

private theorem loop_prefix (src dst : Nat) (rows : List (List Nat)) :
    ∀ k, k ≤ rows.length →
      ((List.range k).foldl (connStep src dst) rows).length = rows.length ∧
      ∀ m, ((List.range k).foldl (connStep src dst) rows)[m]? =
        if m < k then rows[m]?.map (upd src (rows.getD dst [])) else rows[m]? := by
  intro k
  induction k with
  | zero => intro _; simp
  | succ k ih =>
    intro hk
    obtain ⟨hlen, hget⟩ := ih (by omega)
    rw [List.range_succ, List.foldl_append]
    simp only [List.foldl_cons, List.foldl_nil]
    generalize hcur : (List.range k).foldl (connStep src dst) rows = cur at hlen hget
    have hkl : k < rows.length := by omega
    have hcurk : cur.getD k [] = rows[k] := by
      simp [List.getD_eq_getElem?_getD, hget k, List.getElem?_eq_getElem hkl]
    have hcurd : cur.getD dst [] = rows.getD dst [] := by
      simp only [List.getD_eq_getElem?_getD, hget dst]
      by_cases hd : dst < k
      · have hdl : dst < rows.length := by omega
        simp [hd, List.getElem?_eq_getElem hdl, upd_self]
      · simp [hd]
    unfold connStep
    rw [hcurk, hcurd]
    by_cases hb : getBit rows[k] src = true
    · simp only [hb, if_true]
      refine ⟨by simp [hlen], ?_⟩
      intro m
      by_cases hmk : m = k
      · subst hmk
        have : m < cur.length := by omega
        simp [List.getElem?_set_self this, List.getElem?_eq_getElem hkl, upd, hb]
      · have hne : k ≠ m := fun e => hmk e.symm
        rw [List.getElem?_set_ne hne, hget m]
        by_cases h1 : m < k
        · have : m < k + 1 := by omega
          simp [h1, this]
        · have : ¬ m < k + 1 := by omega
          simp [h1, this]
    · rw [if_neg hb]
      refine ⟨hlen, ?_⟩
      intro m
      rw [hget m]
      by_cases hmk : m = k
      · subst hmk
        simp [List.getElem?_eq_getElem hkl, upd, hb]
      · by_cases h1 : m < k
        · have : m < k + 1 := by omega
          simp [h1, this]
        · have : ¬ m < k + 1 := by omega
          simp [h1, this]

/-- Refinement: the C++ in-place loop (`row_dst` aliasing row `i` when `i = dst`) equals the
simultaneous update. -/
theorem addConn_eq_simul (r : Reach) (src dst : Nat) (h : r.rows.length = r.n) :
    r.addConn src dst = r.addConnSimul src dst := by
  unfold Reach.addConn Reach.addConnSimul
  congr 1
  obtain ⟨hlen, hget⟩ := loop_prefix src dst r.rows r.n (by omega)
  apply List.ext_getElem?
  intro m
  rw [hget m]
  by_cases hm : m < r.n
  · simp only [hm, if_true, List.getElem?_map]; rfl
  · have : r.rows.length ≤ m := by omega
    simp [hm, List.getElem?_eq_none this]

/-! ### closure under one new edge -/

theorem rtg_add_edge {α : Type} (R : α → α → Prop) (s d i j : α) :
    ReflTransGen (fun x y => R x y ∨ (x = s ∧ y = d)) i j ↔
      ReflTransGen R i j ∨ (ReflTransGen R i s ∧ ReflTransGen R d j) := by
  constructor
  · intro h
    induction h with
    | refl => exact Or.inl .refl
    | tail _ hbc ih =>
      rcases hbc with hbc | ⟨rfl, rfl⟩
      · rcases ih with ih | ⟨h1, h2⟩
        · exact Or.inl (ih.tail hbc)
        · exact Or.inr ⟨h1, h2.tail hbc⟩
      · rcases ih with ih | ⟨h1, _⟩
        · exact Or.inr ⟨ih, .refl⟩
        · exact Or.inr ⟨h1, .refl⟩
  · have mono : ∀ {a b}, ReflTransGen R a b →
        ReflTransGen (fun x y => R x y ∨ (x = s ∧ y = d)) a b :=
      fun h => ReflTransGen.mono (fun _ _ h => Or.inl h) _ _ h
    rintro (h | ⟨h1, h2⟩)
    · exact mono h
    · exact (mono h1).trans (ReflTransGen.head (Or.inr ⟨rfl, rfl⟩) (mono h2))

end PytypeModel.Reach

namespace PytypeModel.Reach
open Relation

theorem rtg_congr {α : Type} {R S : α → α → Prop} (h : ∀ x y, R x y ↔ S x y) (a b : α) :
    ReflTransGen R a b ↔ ReflTransGen S a b :=
  ⟨ReflTransGen.mono (fun x y => (h x y).1) a b, ReflTransGen.mono (fun x y => (h x y).2) a b⟩

/-- A path that ends (resp. starts) outside the domain of the relation is trivial. -/
theorem rtg_to_fresh {R : Nat → Nat → Prop} {n : Nat} (hdom : ∀ x y, R x y → x < n ∧ y < n)
    {i j : Nat} (h : ReflTransGen R i j) (hj : n ≤ j) : i = j := by
  cases h with
  | refl => rfl
  | tail _ hbc => have := (hdom _ _ hbc).2; omega

theorem rtg_from_fresh {R : Nat → Nat → Prop} {n : Nat} (hdom : ∀ x y, R x y → x < n ∧ y < n)
    {i j : Nat} (h : ReflTransGen R i j) (hi : n ≤ i) : i = j := by
  cases h.cases_head with
  | inl h => exact h
  | inr h => obtain ⟨c, hic, _⟩ := h; have := (hdom _ _ hic).1; omega

/-- The representation invariant of `Prog` relative to the forward edge relation `E`. -/
structure Inv (E : Nat → Nat → Prop) (p : Prog) : Prop where
  rows_len : p.reach.rows.length = p.reach.n
  out_len : p.out.length = p.reach.n
  row_len : ∀ i, i < p.reach.n → (p.reach.rows.getD i []).length = (p.reach.n + 63) / 64
  bit : ∀ i j, i < p.reach.n → j < p.reach.n →
    (getBit (p.reach.rows.getD i []) j = true ↔ ReflTransGen (fun x y => E y x) i j)
  zero : ∀ i j, i < p.reach.n → p.reach.n ≤ j → getBit (p.reach.rows.getD i []) j = false
  out : ∀ a b, a < p.reach.n → b ∈ p.out.getD a [] → E a b
  dom : ∀ a b, E a b → a < p.reach.n ∧ b < p.reach.n

theorem Inv.congr {E E' : Nat → Nat → Prop} {p : Prog} (h : ∀ a b, E a b ↔ E' a b)
    (inv : Inv E p) : Inv E' p where
  rows_len := inv.rows_len
  out_len := inv.out_len
  row_len := inv.row_len
  bit := fun i j hi hj => (inv.bit i j hi hj).trans (rtg_congr (fun x y => h y x) i j)
  zero := inv.zero
  out := fun a b ha hb => (h a b).1 (inv.out a b ha hb)
  dom := fun a b hab => inv.dom a b ((h a b).2 hab)

theorem inv_empty : Inv (fun _ _ => False) Prog.empty where
  rows_len := rfl
  out_len := rfl
  row_len := fun i hi => absurd hi (Nat.not_lt_zero i)
  bit := fun i _ hi _ => absurd hi (Nat.not_lt_zero i)
  zero := fun i _ hi _ => absurd hi (Nat.not_lt_zero i)
  out := fun a _ ha _ => absurd ha (Nat.not_lt_zero a)
  dom := fun _ _ h => h.elim

end PytypeModel.Reach
