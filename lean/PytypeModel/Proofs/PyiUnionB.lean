import PytypeModel.Proofs.PyiUnionA

/-! C05, unions, part B: facts about the members of a fragment union, printing a normalised union. -/
namespace PytypeModel.Pytd

/-! ### members -/

theorem litArgs_simpleNameExpr (x : String) : litArgs (simpleNameExpr x) = none := by
  unfold simpleNameExpr; split <;> rfl

theorem litArgs_dottedExpr (cs : List String) : litArgs (dottedExpr cs) = none := by
  cases cs with
  | nil => rfl
  | cons x xs =>
    simp only [dottedExpr]
    cases xs with
    | nil => rfl
    | cons a l =>
      have : ∀ (e : PyExpr) (l : List String), litArgs (l.foldl (fun e a => PyExpr.attr e a) (.attr e a)) = none := by
        intro e l
        induction l generalizing e a with
        | nil => rfl
        | cons b l ih => exact ih _ _
      exact this _ _

theorem litArgs_nameExpr (n : String) : litArgs (nameExpr n) = none := by
  unfold nameExpr
  split
  · exact litArgs_simpleNameExpr _
  · exact litArgs_simpleNameExpr _
  · exact litArgs_simpleNameExpr _
  · exact litArgs_dottedExpr _

theorem litArgs_sub_base {be : PyExpr} {args : List PyExpr} (h : be ≠ .name "Literal") :
    litArgs (.sub be args) = none := by
  unfold litArgs
  split
  · next heq => simp at heq; exact absurd heq.1 h
  · rfl

/-- the printed base of a fragment subscript is never `Literal` -/
theorem base_not_Literal {g : GCtx} {n : String} (h : fBase g n = true ∨ n = "typing.Callable") :
    nameExpr n ≠ .name "Literal" := by
  rcases h with h | h
  · obtain ⟨hfn, hcases⟩ := fBase_cases h
    unfold fName at hfn
    simp only [Bool.and_eq_true] at hfn
    rcases hcases with ⟨x, hc, _, _⟩ | ⟨x, hc, hb⟩
    · have e : nameExpr n = simpleNameExpr x := by
        rcases hc with hc | hc <;> (unfold nameExpr; rw [hc])
      have hfs : fSimple g x = true := by
        rcases hc with hc | hc <;> (have := hfn.2; rw [hc] at this; exact this)
      intro he
      have := simpleNameExpr_eq_name (e ▸ he)
      subst this
      exact (reserved_facts (fSimple_facts hfs).1).1 rfl
    · have e : nameExpr n = simpleNameExpr x := by unfold nameExpr; rw [hc]
      intro he
      have := simpleNameExpr_eq_name (e ▸ he)
      subst this
      exact (bannedBase_facts hb).2.1 rfl
  · subst h; decide

theorem fTy_generic_unpack {g : GCtx} {ip : Bool} {b : Ty} {ps : List Ty} (h : fTy g ip (.generic b ps) = true) :
    isNameTy b = true ∧ (fBase g (tyBaseName b) = true ∨ tyBaseName b = "typing.Callable") ∧ mTy g b = true ∧
    ps ≠ [] ∧ fTys g ip ps = true ∧
    (if tyExpr false b = .name "tuple" then ps.length = 1
     else if tyBaseName b = "typing.Callable" then anyThenOne ps = true
     else True) := by
  simp only [fTy, Bool.and_eq_true, Bool.or_eq_true, decide_eq_true_eq, Bool.not_eq_true'] at h
  obtain ⟨⟨⟨⟨⟨h1, h2⟩, h3⟩, h4⟩, h5⟩, h6⟩ := h
  refine ⟨h1, h2, h3, ?_, h5, ?_⟩
  · intro e; subst e; simp at h4
  · split
    · next ht => rw [if_pos ht] at h6; simpa using h6
    · next ht =>
      rw [if_neg ht] at h6
      by_cases hc : tyBaseName b = "typing.Callable"
      · rw [if_pos hc] at h6 ⊢; exact h6
      · rw [if_neg hc]; trivial

theorem tyExpr_generic_sub (ip : Bool) (b : Ty) (ps : List Ty) :
    ∃ args, tyExpr ip (.generic b ps) = .sub (tyExpr ip b) args := by
  rw [tyExpr_generic]
  split
  · exact ⟨_, rfl⟩
  · split <;> exact ⟨_, rfl⟩

/-- (M1) only a literal prints as `Literal[…]` -/
theorem member_lit {g : GCtx} {ip : Bool} {t : Ty} (hf : fTy g ip t = true) (hu : isUnionTy t = false)
    (hl : isLitE (tyExpr ip t) = true) : ∃ v, t = .literal v := by
  unfold isLitE at hl
  cases t with
  | any => simp [tyExpr, litArgs] at hl
  | nothing => simp [tyExpr, litArgs] at hl
  | named n => rw [tyExpr_named, litArgs_nameExpr] at hl; simp at hl
  | cls n => simp only [tyExpr] at hl; rw [litArgs_nameExpr] at hl; simp at hl
  | late n => simp only [tyExpr] at hl; rw [litArgs_nameExpr] at hl; simp at hl
  | typeParam n s => simp [tyExpr, litArgs] at hl
  | generic b ps =>
    obtain ⟨hb, hbase, _, _, _, _⟩ := fTy_generic_unpack hf
    obtain ⟨args, he⟩ := tyExpr_generic_sub ip b ps
    rw [he, (nameTy_facts hb g.tps ip g).1, litArgs_sub_base (base_not_Literal hbase)] at hl
    simp at hl
  | tuple b ps =>
    simp only [fTy, Bool.and_eq_true, decide_eq_true_eq] at hf
    have hb : tyExpr false b = .name "tuple" := hf.1.1.2
    have hbn := hf.1.1.1.1
    have e : tyExpr ip b = .name "tuple" := by
      rw [(nameTy_facts hbn g.tps ip g).1, ← (nameTy_facts hbn g.tps false g).1]; exact hb
    rw [tyExpr_tuple, e] at hl
    split at hl <;> simp [litArgs] at hl
  | callable b ps =>
    simp only [fTy, Bool.and_eq_true, decide_eq_true_eq] at hf
    have hbn := hf.1.1.1.1.1
    have hn : tyBaseName b = "typing.Callable" := hf.1.1.1.1.2
    have e : tyExpr ip b = .name "Callable" := by
      rw [(nameTy_facts hbn g.tps ip g).1, hn]; decide
    simp only [tyExpr, e, litArgs] at hl
    simp at hl
  | union ts => simp [isUnionTy] at hu
  | literal v => exact ⟨v, rfl⟩
  | annotated t as => simp [tyExpr, litArgs] at hl

theorem compatFirst_mem {c : String} (h : c ∈ compatItems.map Prod.fst) :
    c = "int" ∨ c = "float" ∨ c = "bytearray" ∨ c = "memoryview" := by
  simpa [compatItems] using h

/-- (M2) a member that prints as one of the droppable plain names requests no `typing` member -/
theorem member_compat_adds {g : GCtx} {ip : Bool} {t : Ty} (hf : fTy g ip t = true) (hu : isUnionTy t = false)
    {c : String} (hc : c ∈ compatItems.map Prod.fst) (he : tyExpr ip t = .name c) : tyAdds ip t = [] := by
  have hcc := compatFirst_mem hc
  have hban : typingBanned.contains c = true := by
    rcases hcc with rfl | rfl | rfl | rfl <;> decide
  have name_case : ∀ n, fName g n = true → nameExpr n = .name c → nameAdds n = [] := by
    intro n hfn hne
    unfold fName at hfn
    simp only [Bool.and_eq_true] at hfn
    unfold nameAdds
    cases hcl : classify n with
    | typing x =>
      exfalso
      have e : nameExpr n = simpleNameExpr x := by unfold nameExpr; rw [hcl]
      have := simpleNameExpr_eq_name (e ▸ hne)
      subst this
      have h2 : (!typingBanned.contains x) = true := by
        have := hfn.2; rw [hcl] at this; exact this
      rw [hban] at h2
      simp at h2
    | simple x => rfl
    | builtin x => rfl
    | dotted cs => rfl
  cases t with
  | any =>
    simp [tyExpr] at he
    subst he
    rcases hcc with h | h | h | h <;> simp at h
  | nothing => simp [tyAdds]
  | named n => rw [tyAdds_named]; exact name_case n (by simpa [fTy] using hf) (by rwa [tyExpr_named] at he)
  | cls n =>
    simp only [tyAdds]
    exact name_case n (by simpa [fTy] using hf) (by simpa [tyExpr] using he)
  | late n =>
    simp only [tyAdds]
    exact name_case n (by simpa [fTy] using hf) (by simpa [tyExpr] using he)
  | typeParam n s => simp [tyAdds]
  | generic b ps =>
    obtain ⟨args, hs⟩ := tyExpr_generic_sub ip b ps
    rw [hs] at he; simp at he
  | tuple b ps => rw [tyExpr_tuple] at he; split at he <;> simp at he
  | callable b ps => simp [tyExpr] at he
  | union ts => simp [isUnionTy] at hu
  | literal v => simp [tyExpr] at he
  | annotated t as => simp [tyExpr] at he

theorem simpleNorm_not_union (tps : List String) (x : String) : isUnionTy (simpleNorm tps x) = false := by
  unfold simpleNorm noneTy
  split
  · rfl
  · split <;> rfl

theorem normName_not_union (tps : List String) (n : String) : isUnionTy (normName tps n) = false := by
  unfold normName
  split
  · exact simpleNorm_not_union _ _
  · exact simpleNorm_not_union _ _
  · rfl
  · rfl

/-- (M3) normalising a non-union does not produce a union -/
theorem normTy_not_union (tps : List String) (ip : Bool) {t : Ty} (hu : isUnionTy t = false) :
    isUnionTy (normTy tps ip t) = false := by
  cases t with
  | union ts => simp [isUnionTy] at hu
  | named n => simp only [normTy]; exact normName_not_union _ _
  | cls n => simp only [normTy]; exact normName_not_union _ _
  | late n => simp only [normTy]; exact normName_not_union _ _
  | typeParam n s => simp only [normTy]; exact simpleNorm_not_union _ _
  | generic b ps => rw [normTy_generic]; split <;> rfl
  | any => simp [normTy, isUnionTy]
  | nothing => simp [normTy, isUnionTy]
  | tuple b ps => simp [normTy, isUnionTy]
  | callable b ps => simp [normTy, isUnionTy]
  | literal v => simp [normTy, isUnionTy]
  | annotated t as => simp [normTy, isUnionTy]

end PytypeModel.Pytd
