import PytypeModel.Proofs.PlanGraph

/-! Functional specification of `deps_from_import_graph`: the deps of every source group are exactly the sources among
the files of its dep nodes plus everything the type stubs among them stand for (`StubSrc`, declarative). -/
namespace PytypeModel.Plan

/-- `StubSrc nodes k m`: the stub `k` stands for the source `m` — the node of `k` imports a node containing `m`, or
imports a node containing a stub that stands for `m`. -/
inductive StubSrc (nodes : List GNode) : Nat → Mod → Prop
  | direct {i j : Nat} {n d : GNode} {k : Nat} {m : Mod} :
      nodes[i]? = some n → GFile.stub k ∈ n.files → j ∈ n.deps → nodes[j]? = some d → GFile.src m ∈ d.files →
      StubSrc nodes k m
  | via {i j : Nat} {n d : GNode} {k k' : Nat} {m : Mod} :
      nodes[i]? = some n → GFile.stub k ∈ n.files → j ∈ n.deps → nodes[j]? = some d → GFile.stub k' ∈ d.files →
      StubSrc nodes k' m → StubSrc nodes k m

/-- what a node with sources must be given as deps -/
def DepSpec (nodes : List GNode) (n : GNode) (m : Mod) : Prop :=
  (∃ j ∈ n.deps, ∃ d, nodes[j]? = some d ∧ GFile.src m ∈ d.files) ∨
  (∃ j ∈ n.deps, ∃ d k, nodes[j]? = some d ∧ GFile.stub k ∈ d.files ∧ StubSrc nodes k m)

/-- every type stub is a file of exactly one node -/
def StubsOnce (nodes : List GNode) : Prop :=
  ∀ (i i' : Nat) (n n' : GNode) (k : Nat), nodes[i]? = some n → nodes[i']? = some n' →
    GFile.stub k ∈ n.files → GFile.stub k ∈ n'.files → i = i'

/-- positional form of `topo` -/
def TopoP (nodes : List GNode) : Prop := ∀ (i : Nat) (n : GNode), nodes[i]? = some n → ∀ j ∈ n.deps, j < i

theorem topoFrom_spec : ∀ (l : List GNode) (b : Nat), topoFrom b l = true →
    ∀ (i : Nat) (n : GNode), l[i]? = some n → ∀ j ∈ n.deps, j < b + i
  | [], _, _, i, n, h, _, _ => by simp at h
  | x :: r, b, ht, i, n, h, j, hj => by
    simp only [topoFrom, Bool.and_eq_true] at ht
    cases i with
    | zero =>
      simp only [List.getElem?_cons_zero, Option.some.injEq] at h
      subst h
      simpa using List.all_eq_true.1 ht.1 j hj
    | succ i =>
      simp only [List.getElem?_cons_succ] at h
      have := topoFrom_spec r (b + 1) ht.2 i n h j hj
      omega

theorem topoP_of_topo {nodes : List GNode} (h : topo nodes = true) : TopoP nodes := by
  intro i n hn j hj
  simpa using topoFrom_spec nodes 0 h i n hn j hj

theorem once_of_nodup {α β : Type} (f : α → List β) : ∀ (l : List α), (l.flatMap f).Nodup →
    ∀ (i i' : Nat) (a a' : α) (x : β), l[i]? = some a → l[i']? = some a' → x ∈ f a → x ∈ f a' → i = i'
  | [], _, i, _, a, _, _, h, _, _, _ => by simp at h
  | y :: r, hn, i, i', a, a', x, h, h', hx, hx' => by
    simp only [List.flatMap_cons] at hn
    have hn' := List.nodup_append.1 hn
    cases i with
    | zero =>
      cases i' with
      | zero => rfl
      | succ i' =>
        simp only [List.getElem?_cons_zero, Option.some.injEq] at h
        simp only [List.getElem?_cons_succ] at h'
        subst h
        have : x ∈ r.flatMap f := List.mem_flatMap.2 ⟨a', List.mem_of_getElem? h', hx'⟩
        exact absurd rfl (hn'.2.2 x hx x this)
    | succ i =>
      cases i' with
      | zero =>
        simp only [List.getElem?_cons_zero, Option.some.injEq] at h'
        simp only [List.getElem?_cons_succ] at h
        subst h'
        have : x ∈ r.flatMap f := List.mem_flatMap.2 ⟨a, List.mem_of_getElem? h, hx⟩
        exact absurd rfl (hn'.2.2 x hx' x this)
      | succ i' =>
        simp only [List.getElem?_cons_succ] at h h'
        have := once_of_nodup f r hn'.2.1 i i' a a' x h h' hx hx'
        omega

theorem stubsOnce_of_distinct {nodes : List GNode} (h : stubsDistinct nodes = true) : StubsOnce nodes := by
  intro i i' n n' k hn hn' hk hk'
  have hd : (nodes.flatMap fun n => stubsOf n.files).Nodup := by simpa [stubsDistinct] using h
  exact once_of_nodup (fun n => stubsOf n.files) nodes hd i i' n n' k hn hn' (mem_stubsOf.2 hk) (mem_stubsOf.2 hk')

/-! ### membership in the map after the updates of one node -/

theorem mem_sget_foldExt (s : Nat) (k' : Nat) (m : Mod) : ∀ (sd : List Nat) (sm1 : StubMap),
    m ∈ sget (sd.foldl (fun sm2 d => sextend sm2 s (sget sm2 d)) sm1) k' ↔
      (k' ≠ s ∧ m ∈ sget sm1 k') ∨ (k' = s ∧ (m ∈ sget sm1 s ∨ ∃ d ∈ sd, m ∈ sget sm1 d))
  | [], sm1 => by
    by_cases h : k' = s
    · subst h; simp
    · simp [h]
  | d :: r, sm1 => by
    simp only [List.foldl_cons]
    rw [mem_sget_foldExt s k' m r]
    by_cases h : k' = s
    · subst h
      simp only [ne_eq, not_true_eq_false, false_and, true_and, false_or, sget_sextend, if_true, List.mem_append,
        List.mem_cons, exists_eq_or_imp]
      constructor
      · rintro ((h1 | h1) | ⟨d', hd', h1⟩)
        · exact .inl h1
        · exact .inr (.inl h1)
        · by_cases hds : d' = k'
          · subst hds
            simp only [if_true, List.mem_append] at h1
            rcases h1 with h1 | h1
            · exact .inl h1
            · exact .inr (.inl h1)
          · simp only [hds, if_false] at h1
            exact .inr (.inr ⟨d', hd', h1⟩)
      · rintro (h1 | h1 | ⟨d', hd', h1⟩)
        · exact .inl (.inl h1)
        · exact .inl (.inr h1)
        · by_cases hds : d' = k'
          · subst hds; exact .inl (.inl h1)
          · exact .inr ⟨d', hd', by simp [hds, h1]⟩
    · simp [h, sget_sextend]

theorem mem_sget_collectStub (sd : List Nat) (src : List Mod) (sm : StubMap) (s k' : Nat) (m : Mod) :
    m ∈ sget (collectStub sd src sm s) k' ↔
      (k' ≠ s ∧ m ∈ sget sm k') ∨ (k' = s ∧ (m ∈ sget sm s ∨ m ∈ src ∨ ∃ d ∈ sd, m ∈ sget sm d)) := by
  unfold collectStub
  rw [mem_sget_foldExt]
  by_cases h : k' = s
  · subst h
    simp only [ne_eq, not_true_eq_false, false_and, true_and, false_or, sget_sextend, if_true, List.mem_append]
    constructor
    · rintro ((h1 | h1) | ⟨d, hd, h1⟩)
      · exact .inl h1
      · exact .inr (.inl h1)
      · by_cases hds : d = k'
        · subst hds
          simp only [if_true, List.mem_append] at h1
          rcases h1 with h1 | h1
          · exact .inl h1
          · exact .inr (.inl h1)
        · simp only [hds, if_false] at h1
          exact .inr (.inr ⟨d, hd, h1⟩)
    · rintro (h1 | h1 | ⟨d, hd, h1⟩)
      · exact .inl (.inl h1)
      · exact .inl (.inr h1)
      · by_cases hds : d = k'
        · subst hds; exact .inl (.inl h1)
        · exact .inr ⟨d, hd, by simp [hds, h1]⟩
  · simp [h, sget_sextend]

theorem mem_sget_foldCollect (sd : List Nat) (src : List Mod) (k' : Nat) (m : Mod) :
    ∀ (S : List Nat) (sm : StubMap), (∀ d ∈ sd, d ∉ S) →
      (m ∈ sget (S.foldl (collectStub sd src) sm) k' ↔
        (k' ∉ S ∧ m ∈ sget sm k') ∨ (k' ∈ S ∧ (m ∈ sget sm k' ∨ m ∈ src ∨ ∃ d ∈ sd, m ∈ sget sm d)))
  | [], sm, _ => by simp
  | s :: r, sm, hdis => by
    simp only [List.foldl_cons]
    have hdis' : ∀ d ∈ sd, d ∉ r := fun d hd h => hdis d hd (List.mem_cons_of_mem _ h)
    rw [mem_sget_foldCollect sd src k' m r _ hdis']
    have hsd : ∀ d ∈ sd, (m ∈ sget (collectStub sd src sm s) d ↔ m ∈ sget sm d) := by
      intro d hd
      have hne : d ≠ s := fun e => hdis d hd (e ▸ List.mem_cons_self)
      rw [mem_sget_collectStub]
      simp [hne]
    have hex : (∃ d ∈ sd, m ∈ sget (collectStub sd src sm s) d) ↔ ∃ d ∈ sd, m ∈ sget sm d := by
      constructor
      · rintro ⟨d, hd, h⟩; exact ⟨d, hd, (hsd d hd).1 h⟩
      · rintro ⟨d, hd, h⟩; exact ⟨d, hd, (hsd d hd).2 h⟩
    rw [hex, mem_sget_collectStub]
    by_cases hks : k' = s
    · subst hks
      by_cases hkr : k' ∈ r
      · simp only [hkr, not_true_eq_false, false_and, true_and, false_or, ne_eq, List.mem_cons, true_or]
        constructor
        · rintro ((h1 | h1 | h1) | h1 | h1)
          · exact .inl h1
          · exact .inr (.inl h1)
          · exact .inr (.inr h1)
          · exact .inr (.inl h1)
          · exact .inr (.inr h1)
        · rintro (h1 | h1 | h1)
          · exact .inl (.inl h1)
          · exact .inr (.inl h1)
          · exact .inr (.inr h1)
      · simp [hkr]
    · by_cases hkr : k' ∈ r
      · simp [hks, hkr]
      · simp [hks, hkr]

theorem mem_depFiles {nodes : List GNode} {n : GNode} {f : GFile} :
    f ∈ depFiles nodes n ↔ ∃ j ∈ n.deps, ∃ d, nodes[j]? = some d ∧ f ∈ d.files := by
  unfold depFiles
  simp only [List.mem_flatMap]
  constructor
  · rintro ⟨j, hj, hf⟩
    cases hd : nodes[j]? with
    | none => simp [hd] at hf
    | some d => exact ⟨j, hj, d, hd, by simpa [hd] using hf⟩
  · rintro ⟨j, hj, d, hd, hf⟩
    exact ⟨j, hj, by simpa [hd] using hf⟩

/-! ### the invariant -/

structure SInv (nodes : List GNode) (b : Nat) (st : GSt) : Prop where
  spec : ∀ k, (∃ i n, i < b ∧ nodes[i]? = some n ∧ GFile.stub k ∈ n.files) →
    ∀ m, m ∈ sget st.stubMap k ↔ StubSrc nodes k m
  empty : ∀ k, (¬ ∃ i n, i < b ∧ nodes[i]? = some n ∧ GFile.stub k ∈ n.files) → ∀ m, m ∉ sget st.stubMap k
  outs : ∀ i n, i < b → nodes[i]? = some n → sourcesOf n.files ≠ [] →
    ∃ g ∈ st.out, g.1 = sourcesOf n.files ∧ ∀ m, m ∈ g.2 ↔ DepSpec nodes n m

theorem stubSrc_iff_depSpec {nodes : List GNode} (ho : StubsOnce nodes) {i : Nat} {n : GNode}
    (hn : nodes[i]? = some n) {k : Nat} (hk : GFile.stub k ∈ n.files) (m : Mod) :
    StubSrc nodes k m ↔ DepSpec nodes n m := by
  constructor
  · intro h
    cases h with
    | direct hn' hk' hj hd hm =>
      have := ho _ _ _ _ _ hn' hn hk' hk
      subst this
      rw [hn] at hn'
      cases hn'
      exact .inl ⟨_, hj, _, hd, hm⟩
    | via hn' hk' hj hd hk2 hs =>
      have := ho _ _ _ _ _ hn' hn hk' hk
      subst this
      rw [hn] at hn'
      cases hn'
      exact .inr ⟨_, hj, _, _, hd, hk2, hs⟩
  · rintro (⟨j, hj, d, hd, hm⟩ | ⟨j, hj, d, k', hd, hk', hs⟩)
    · exact .direct hn hk hj hd hm
    · exact .via hn hk hj hd hk' hs

theorem sstep_inv {nodes : List GNode} (ht : TopoP nodes) (ho : StubsOnce nodes) {b : Nat} {st : GSt} {n : GNode}
    (hn : nodes[b]? = some n) (inv : SInv nodes b st) : SInv nodes (b + 1) (gstep nodes st n) := by
  -- abbreviations
  have hflat : ∀ f, f ∈ uniqueList (depFiles nodes n) ↔ ∃ j ∈ n.deps, ∃ d, nodes[j]? = some d ∧ f ∈ d.files :=
    fun f => mem_uniqueList.trans mem_depFiles
  have hsrcD : ∀ m, m ∈ sourcesOf (uniqueList (depFiles nodes n)) ↔
      ∃ j ∈ n.deps, ∃ d, nodes[j]? = some d ∧ GFile.src m ∈ d.files :=
    fun m => mem_sourcesOf.trans (hflat _)
  have hstubD : ∀ k, k ∈ stubsOf (uniqueList (depFiles nodes n)) ↔
      ∃ j ∈ n.deps, ∃ d, nodes[j]? = some d ∧ GFile.stub k ∈ d.files :=
    fun k => mem_stubsOf.trans (hflat _)
  -- a stub dep lives in an earlier node: known to the map, and not a stub of this node
  have hdep_old : ∀ d, d ∈ stubsOf (uniqueList (depFiles nodes n)) →
      ∃ i n', i < b ∧ nodes[i]? = some n' ∧ GFile.stub d ∈ n'.files := by
    intro d hd
    obtain ⟨j, hj, dn, hdn, hf⟩ := (hstubD d).1 hd
    exact ⟨j, dn, ht b n hn j hj, hdn, hf⟩
  have hdis : ∀ d, d ∈ stubsOf (uniqueList (depFiles nodes n)) → d ∉ stubsOf n.files := by
    intro d hd hmem
    obtain ⟨i, n', hi, hn', hf⟩ := hdep_old d hd
    have := ho _ _ _ _ _ hn' hn hf (mem_stubsOf.1 hmem)
    omega
  have hnew_empty : ∀ k, k ∈ stubsOf n.files → ∀ m, m ∉ sget st.stubMap k := by
    intro k hk
    refine inv.empty k ?_
    rintro ⟨i, n', hi, hn', hf⟩
    have := ho _ _ _ _ _ hn' hn hf (mem_stubsOf.1 hk)
    omega
  -- the map after this node
  have hmap : ∀ k m, m ∈ sget ((stubsOf n.files).foldl
      (collectStub (stubsOf (uniqueList (depFiles nodes n))) (sourcesOf (uniqueList (depFiles nodes n)))) st.stubMap) k ↔
      (k ∉ stubsOf n.files ∧ m ∈ sget st.stubMap k) ∨ (k ∈ stubsOf n.files ∧ DepSpec nodes n m) := by
    intro k m
    rw [mem_sget_foldCollect _ _ k m _ _ hdis]
    by_cases hk : k ∈ stubsOf n.files
    · simp only [hk, not_true_eq_false, false_and, true_and, false_or]
      have he := hnew_empty k hk m
      constructor
      · rintro (h1 | h1 | ⟨d, hd, h1⟩)
        · exact absurd h1 he
        · exact .inl ((hsrcD m).1 h1)
        · obtain ⟨j, hj, dn, hdn, hf⟩ := (hstubD d).1 hd
          exact .inr ⟨j, hj, dn, d, hdn, hf, (inv.spec d (hdep_old d hd) m).1 h1⟩
      · rintro (h1 | ⟨j, hj, dn, d, hdn, hf, hs⟩)
        · exact .inr (.inl ((hsrcD m).2 h1))
        · have hd : d ∈ stubsOf (uniqueList (depFiles nodes n)) := (hstubD d).2 ⟨j, hj, dn, hdn, hf⟩
          exact .inr (.inr ⟨d, hd, (inv.spec d (hdep_old d hd) m).2 hs⟩)
    · simp [hk]
  have hmapfield : (gstep nodes st n).stubMap = (stubsOf n.files).foldl
      (collectStub (stubsOf (uniqueList (depFiles nodes n))) (sourcesOf (uniqueList (depFiles nodes n)))) st.stubMap := by
    unfold gstep
    cases sourcesOf n.files <;> rfl
  have hsub : ∀ g, g ∈ st.out → g ∈ (gstep nodes st n).out := by
    intro g hg
    unfold gstep
    cases sourcesOf n.files with
    | nil => exact hg
    | cons a r => exact List.mem_append_left _ hg
  refine ⟨?_, ?_, ?_⟩
  · rintro k ⟨i, n', hi, hn', hf⟩ m
    rw [hmapfield, hmap]
    by_cases hib : i = b
    · subst hib
      rw [hn] at hn'
      cases hn'
      have hk : k ∈ stubsOf n.files := mem_stubsOf.2 hf
      simp only [hk, not_true_eq_false, false_and, true_and, false_or]
      exact (stubSrc_iff_depSpec ho hn hf m).symm
    · have hib' : i < b := by omega
      have hk : k ∉ stubsOf n.files := by
        intro hmem
        have := ho _ _ _ _ _ hn' hn hf (mem_stubsOf.1 hmem)
        omega
      simp only [hk, not_false_eq_true, true_and, false_and, or_false]
      exact inv.spec k ⟨i, n', hib', hn', hf⟩ m
  · intro k hk m
    rw [hmapfield, hmap]
    have hk' : k ∉ stubsOf n.files := fun hmem => hk ⟨b, n, by omega, hn, mem_stubsOf.1 hmem⟩
    simp only [hk', not_false_eq_true, true_and, false_and, or_false]
    exact inv.empty k (fun ⟨i, n', hi, hn', hf⟩ => hk ⟨i, n', by omega, hn', hf⟩) m
  · intro i n' hi hn' hne
    by_cases hib : i = b
    · subst hib
      rw [hn] at hn'
      cases hn'
      unfold gstep
      cases hs : sourcesOf n.files with
      | nil => exact absurd hs hne
      | cons a r =>
        refine ⟨_, List.mem_append_right _ List.mem_cons_self, rfl, ?_⟩
        intro m
        simp only [List.mem_append, List.mem_flatMap]
        constructor
        · rintro (h1 | ⟨d, hd, h1⟩)
          · exact .inl ((hsrcD m).1 h1)
          · have h2 := (hmap d m).1 h1
            have hdn := hdis d hd
            simp only [hdn, not_false_eq_true, true_and, false_and, or_false] at h2
            obtain ⟨j, hj, dn, hdn', hf⟩ := (hstubD d).1 hd
            exact .inr ⟨j, hj, dn, d, hdn', hf, (inv.spec d (hdep_old d hd) m).1 h2⟩
        · rintro (h1 | ⟨j, hj, dn, d, hdn, hf, hs'⟩)
          · exact .inl ((hsrcD m).2 h1)
          · have hd : d ∈ stubsOf (uniqueList (depFiles nodes n)) := (hstubD d).2 ⟨j, hj, dn, hdn, hf⟩
            refine .inr ⟨d, hd, (hmap d m).2 (.inl ⟨hdis d hd, (inv.spec d (hdep_old d hd) m).2 hs'⟩)⟩
    · obtain ⟨g, hg, h1, h2⟩ := inv.outs i n' (by omega) hn' hne
      exact ⟨g, hsub g hg, h1, h2⟩

theorem sfold_inv {nodes : List GNode} (ht : TopoP nodes) (ho : StubsOnce nodes) :
    ∀ (l : List GNode) (b : Nat) (st : GSt), (∀ i, l[i]? = nodes[b + i]?) → b + l.length = nodes.length →
      SInv nodes b st → SInv nodes nodes.length (gfold nodes l st)
  | [], b, st, _, hlen, inv => by
    simp only [List.length_nil, Nat.add_zero] at hlen
    subst hlen
    simpa [gfold] using inv
  | n :: r, b, st, hl, hlen, inv => by
    rw [gfold]
    have hn : nodes[b]? = some n := by simpa using (hl 0).symm
    refine sfold_inv ht ho r (b + 1) _ ?_ ?_ (sstep_inv ht ho hn inv)
    · intro i
      have := hl (i + 1)
      simp only [List.getElem?_cons_succ] at this
      rw [this]
      congr 1
      omega
    · simp only [List.length_cons] at hlen
      omega

theorem depsFromGraph_spec {nodes : List GNode} (ht : topo nodes = true) (hs : stubsDistinct nodes = true) :
    SInv nodes nodes.length (gfold nodes nodes ⟨[], []⟩) :=
  sfold_inv (topoP_of_topo ht) (stubsOnce_of_distinct hs) nodes 0 _ (fun i => by simp) (by simp)
    ⟨fun k ⟨i, _, hi, _⟩ => by omega, fun k _ m => by simp [sget], fun i _ hi => by omega⟩

end PytypeModel.Plan
