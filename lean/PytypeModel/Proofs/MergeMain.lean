import PytypeModel.Merge.MergePyi
import PytypeModel.Proofs.MergeStub
import PytypeModel.Proofs.MergeErase
import PytypeModel.Proofs.MergeInserted

/-! C20: from the applier lemmas to statements about `merge`. -/
namespace PytypeModel.Merge

def envOf (py pyi : List Stmt) : Env :=
  { A := collect (mkCtx py pyi) (prefilter pyi), globals := globalsOfL py }

def runOf (py pyi : List Stmt) : List Stmt × St := applyStmts (envOf py pyi) {} py

/-- the two shapes of a successful merge -/
theorem merge_ok {py pyi : List Stmt} {m : Merged} (h : merge py pyi = .ok m) :
    (m.body = py ∧ m.decls = [] ∧ m.imports = [] ∧ m.classes = [] ∧ m.genericAdded = false) ∨
    (m.body = (runOf py pyi).1 ∧
     m.decls = (runOf py pyi).2.top.map
        (fun d => (d.1, quote (envOf py pyi).globals (runOf py pyi).2.visited d.2)) ∧
     m.leaked = (runOf py pyi).2.leaked ∧ m.scopeTop = (runOf py pyi).2.scopeTop ∧
     m.genericAdded = (runOf py pyi).2.genericAdded) := by
  unfold merge at h
  simp only at h
  split at h
  · cases h
  · split at h
    · injection h with h; subst h; exact Or.inl ⟨rfl, rfl, rfl, rfl, rfl⟩
    · injection h with h; subst h; exact Or.inr ⟨rfl, rfl, rfl, rfl, rfl⟩

/-! ### stub slots through `collect` -/

theorem paramsOf_map (c : Ctx) (k : PKind) (ps : List Param) :
    paramsOf k (ps.map (dequalParam c)) = (paramsOf k ps).map (dequalParam c) := by
  unfold paramsOf
  rw [List.filter_map]
  congr 1
  apply List.filter_congr
  intro p _
  simp only [Function.comp]
  unfold dequalParam
  split <;> rfl

theorem dequalParam_ann (c : Ctx) (p : Param) (x : Ann) (h : (dequalParam c p).ann = some x) :
    ∃ raw, p.ann = some raw ∧ (x = dequal c raw ∨ x = raw) := by
  unfold dequalParam at h
  split at h
  · cases hp : p.ann with
    | none => simp [hp] at h
    | some raw => simp [hp] at h; exact ⟨raw, rfl, Or.inl h.symm⟩
  · exact ⟨x, h, Or.inr rfl⟩

theorem findParam_map (c : Ctx) (n : String) : ∀ (l : List Param),
    findParam n (l.map (dequalParam c)) = (findParam n l).map (dequalParam c) := by
  intro l
  induction l with
  | nil => rfl
  | cons p ps ih =>
    have hn : (dequalParam c p).name = p.name := by unfold dequalParam; split <;> rfl
    simp only [List.map, findParam, hn]
    split
    · rfl
    · exact ih

theorem findParam_mem (n : String) : ∀ (l : List Param) (p : Param), findParam n l = some p → p ∈ l := by
  intro l
  induction l with
  | nil => intro p h; simp [findParam] at h
  | cons q qs ih =>
    intro p h
    simp only [findParam] at h
    split at h
    · cases h; exact List.mem_cons_self
    · exact List.mem_cons_of_mem _ (ih p h)

theorem stubSlot_dequal (c : Ctx) (ps : List Param) (r : Option Ann) (slot : Slot) (x : Ann)
    (h : stubSlot (ps.map (dequalParam c)) (r.map (dequal c)) slot = some x) :
    ∃ raw, stubSlot ps r slot = some raw ∧ (x = dequal c raw ∨ x = raw) := by
  cases slot with
  | ret =>
    simp only [stubSlot] at h ⊢
    cases r with
    | none => simp at h
    | some raw => simp at h; exact ⟨raw, rfl, Or.inl h.symm⟩
  | pos i =>
    simp only [stubSlot, paramsOf_map, List.getElem?_map] at h ⊢
    cases hp : (paramsOf .pos ps)[i]? with
    | none => simp [hp] at h
    | some p =>
      simp only [hp, Option.map_some, Option.bind_some] at h ⊢
      exact dequalParam_ann c p x h
  | posonly i =>
    simp only [stubSlot, paramsOf_map, List.getElem?_map] at h ⊢
    cases hp : (paramsOf .posonly ps)[i]? with
    | none => simp [hp] at h
    | some p =>
      simp only [hp, Option.map_some, Option.bind_some] at h ⊢
      exact dequalParam_ann c p x h
  | kw n =>
    simp only [stubSlot, paramsOf_map, findParam_map] at h ⊢
    cases hp : findParam n (paramsOf .kwonly ps) with
    | none => simp [hp] at h
    | some p =>
      simp only [hp, Option.map_some, Option.bind_some] at h ⊢
      exact dequalParam_ann c p x h
  | star => simp [stubSlot] at h
  | starstar => simp [stubSlot] at h
  | var => simp [stubSlot] at h

theorem stubSlot_mem (qn : String) (ps : List Param) (r : Option Ann) (slot : Slot) (raw : Ann)
    (h : stubSlot ps r slot = some raw) : raw ∈ (Item.func qn ps r).allAnns := by
  have key : ∀ p : Param, p ∈ ps → p.ann = some raw → raw ∈ (Item.func qn ps r).allAnns := by
    intro p hp ha
    simp only [Item.allAnns, List.mem_append, List.mem_filterMap]
    exact Or.inl ⟨p, hp, ha⟩
  cases slot with
  | ret =>
    simp only [stubSlot] at h
    simp [Item.allAnns, h]
  | pos i =>
    simp only [stubSlot] at h
    cases hp : (paramsOf .pos ps)[i]? with
    | none => simp [hp] at h
    | some p =>
      simp only [hp, Option.bind_some] at h
      have := List.mem_of_getElem? hp
      exact key p (List.mem_filter.mp this).1 h
  | posonly i =>
    simp only [stubSlot] at h
    cases hp : (paramsOf .posonly ps)[i]? with
    | none => simp [hp] at h
    | some p =>
      simp only [hp, Option.bind_some] at h
      have := List.mem_of_getElem? hp
      exact key p (List.mem_filter.mp this).1 h
  | kw n =>
    simp only [stubSlot] at h
    cases hp : findParam n (paramsOf .kwonly ps) with
    | none => simp [hp] at h
    | some p =>
      simp only [hp, Option.bind_some] at h
      have := findParam_mem n _ p hp
      exact key p (List.mem_filter.mp this).1 h
  | star => simp [stubSlot] at h
  | starstar => simp [stubSlot] at h
  | var => simp [stubSlot] at h

/-- `RemoveAnyNeverTransformer` only ever removes a return annotation -/
theorem stubSlot_unfiltered (ps : List Param) (r0 : Option Ann) (slot : Slot) (raw : Ann)
    (h : stubSlot ps (if optAnyNever r0 then none else r0) slot = some raw) :
    stubSlot ps r0 slot = some raw ∧ (slot = .ret → isAnyNever raw = false) := by
  cases slot with
  | ret =>
    simp only [stubSlot] at h ⊢
    split at h
    · cases h
    · rename_i hn
      subst h
      exact ⟨rfl, fun _ => by simpa [optAnyNever] using hn⟩
  | pos i => exact ⟨h, fun hh => by cases hh⟩
  | posonly i => exact ⟨h, fun hh => by cases hh⟩
  | kw n => exact ⟨h, fun hh => by cases hh⟩
  | star => exact ⟨h, fun hh => by cases hh⟩
  | starstar => exact ⟨h, fun hh => by cases hh⟩
  | var => exact ⟨h, fun hh => by cases hh⟩

/-- what a looked-up annotation is, in terms of the raw stub -/
theorem namedSrc_raw {py pyi : List Stmt} {qn : String} {slot : Slot} {a : Ann}
    (h : NamedSrc (envOf py pyi) qn slot a) :
    ∃ raw v, StubGives pyi qn slot raw ∧
      (a = quote (globalsOfL py) v (dequal (mkCtx py pyi) raw) ∨ a = quote (globalsOfL py) v raw) ∧
      ((slot = .ret ∨ slot = .var) → isAnyNever raw = false ∧
        a = quote (globalsOfL py) v (dequal (mkCtx py pyi) raw)) ∧
      (∃ it ∈ itemsL [] pyi, raw ∈ it.allAnns ∧ ((slot = .ret ∨ slot = .var) → raw ∈ it.retVarAnns)) := by
  rcases h with ⟨hs, x, v, hm, ha⟩ | ⟨ps, sps, sr, x, v, hm, hsl, ha⟩
  · obtain ⟨raw, hit, hx⟩ := mem_attrEntries _ _ _ _ hm
    obtain ⟨hraw, hany⟩ := prefilter_var hit
    subst hx
    refine ⟨raw, v, Or.inl ⟨hs, _, hraw, rfl⟩, Or.inl ha, fun _ => ⟨hany, ha⟩,
      ⟨_, hraw, by simp [Item.allAnns], fun _ => by simp [Item.retVarAnns]⟩⟩
  · obtain ⟨qn0, ps0, r0, hit, hk, hsps, hsr⟩ := mem_funcEntries _ _ _ _ _ hm
    have hq : qn = qn0 := congrArg FKey.name hk
    subst hq
    subst hsps; subst hsr
    obtain ⟨raw, hraw, hx⟩ := stubSlot_dequal _ _ _ _ _ hsl
    obtain ⟨r00, hit0, hr0⟩ := prefilter_func hit
    subst hr0
    obtain ⟨hraw0, hnotany⟩ := stubSlot_unfiltered _ _ _ _ hraw
    refine ⟨raw, v, Or.inr ⟨ps0, r00, ⟨_, hit0, rfl⟩, hraw0⟩, ?_, ?_, ⟨_, hit0, stubSlot_mem _ _ _ _ _ hraw0, ?_⟩⟩
    · rcases hx with hx | hx
      · exact Or.inl (hx ▸ ha)
      · exact Or.inr (hx ▸ ha)
    · intro hs
      rcases hs with hs | hs
      · subst hs
        refine ⟨hnotany rfl, ?_⟩
        -- a return annotation is always dequalified
        simp only [stubSlot] at hsl hraw
        rw [hraw] at hsl
        simp at hsl
        exact hsl ▸ ha
      · subst hs; simp [stubSlot] at hsl
    · intro hs
      rcases hs with hs | hs
      · subst hs
        simp only [stubSlot] at hraw0
        simp [Item.retVarAnns, hraw0]
      · subst hs; simp [stubSlot] at hsl

/-- all inserted entries of a successful merge, with their lookup name -/
theorem insertedAll_src {py pyi : List Stmt} {m : Merged} (h : merge py pyi = .ok m) :
    ∀ e ∈ insertedAll py m, ∃ qn', NamedSrc (envOf py pyi) qn' e.2.1 e.2.2 ∧
      (m.leaked = false → m.scopeTop = false → qn' = e.1) := by
  intro e he
  simp only [insertedAll, List.mem_append, List.mem_map] at he
  rcases merge_ok h with ⟨hb, hd, _⟩ | ⟨hb, hd, hl, hs, _⟩
  · rw [hb, hd, insertedL_self] at he
    simp at he
  · rcases he with he | ⟨d, hd', rfl⟩
    · rw [hb] at he
      obtain ⟨qn', h1, h2⟩ := inserted_applyL (envOf py pyi) py {} [] e he
      exact ⟨qn', h1, fun hlk _ => h2 rfl (hl ▸ hlk)⟩
    · rw [hd] at hd'
      simp only [List.mem_map] at hd'
      obtain ⟨p, hp, rfl⟩ := hd'
      have inv : TopInv (envOf py pyi) (runOf py pyi).2 :=
        top_invL (envOf py pyi) py {} (by intro p hp; simp at hp)
      obtain ⟨qn', hm, hq⟩ := inv p hp
      exact ⟨qn', Or.inl ⟨rfl, p.2, _, hm, rfl⟩, fun _ hst => hq (hs ▸ hst)⟩

end PytypeModel.Merge
