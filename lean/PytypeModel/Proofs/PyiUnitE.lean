import PytypeModel.Proofs.PyiUnit

/-! C05, unit level, part E: sorting is canonical; printing the normal form of a unit. -/
namespace PytypeModel.Pytd

theorem str_lt_of_not_lt_ne {a b : String} (h1 : ¬ a < b) (h2 : a ≠ b) : b < a :=
  Std.lt_of_le_of_ne h1 (Ne.symm h2)

/-! ### `sortUniq` depends only on the set -/

/-- strictly increasing -/
def StrictSorted : List String → Prop
  | [] => True
  | [_] => True
  | a :: b :: rest => a < b ∧ StrictSorted (b :: rest)

theorem StrictSorted.tail {a : String} {l : List String} (h : StrictSorted (a :: l)) : StrictSorted l := by
  cases l with
  | nil => trivial
  | cons b rest => exact h.2

theorem StrictSorted.head_lt {a : String} {l : List String} (h : StrictSorted (a :: l)) :
    ∀ x ∈ l, a < x := by
  induction l generalizing a with
  | nil => intro x hx; simp at hx
  | cons b rest ih =>
    intro x hx
    rcases List.mem_cons.1 hx with rfl | hx
    · exact h.1
    · exact String.lt_trans h.1 (ih h.2 x hx)

theorem strictSorted_insertStr (x : String) : ∀ {l : List String}, StrictSorted l → StrictSorted (insertStr x l)
  | [], _ => trivial
  | [y], _ => by
    simp only [insertStr]
    split
    · next h => exact ⟨h, trivial⟩
    · split
      · trivial
      · next h1 h2 => exact ⟨str_lt_of_not_lt_ne h1 h2, trivial⟩
  | y :: z :: rest, h => by
    simp only [insertStr]
    split
    · next hxy => exact ⟨hxy, h⟩
    · next hxy =>
      split
      · exact h
      · next hne =>
        have hyx : y < x := str_lt_of_not_lt_ne hxy hne
        have ih := strictSorted_insertStr x (l := z :: rest) h.2
        simp only [insertStr] at ih ⊢
        split
        · next hxz => exact ⟨hyx, hxz, h.2⟩
        · next hxz =>
          rw [if_neg hxz] at ih
          split
          · next hxe => exact ⟨h.1, by rw [if_pos hxe] at ih; exact ih⟩
          · next hxe =>
            rw [if_neg hxe] at ih
            exact ⟨h.1, ih⟩

theorem strictSorted_sortUniq (l : List String) : StrictSorted (sortUniq l) := by
  unfold sortUniq
  induction l with
  | nil => trivial
  | cons x xs ih => exact strictSorted_insertStr x ih

theorem strictSorted_ext : ∀ {l m : List String}, StrictSorted l → StrictSorted m → (∀ x, x ∈ l ↔ x ∈ m) → l = m
  | [], [], _, _, _ => rfl
  | [], b :: _, _, _, h => by have := (h b).2 (by simp); simp at this
  | a :: _, [], _, _, h => by have := (h a).1 (by simp); simp at this
  | a :: l, b :: m, hl, hm, h => by
    have hab : a = b := by
      have ha : a ∈ b :: m := (h a).1 (by simp)
      have hb : b ∈ a :: l := (h b).2 (by simp)
      rcases List.mem_cons.1 ha with e | ha'
      · exact e
      · rcases List.mem_cons.1 hb with e | hb'
        · exact e.symm
        · exact absurd (String.lt_trans (hm.head_lt a ha') (hl.head_lt b hb')) (String.lt_irrefl _)
    subst hab
    congr 1
    apply strictSorted_ext hl.tail hm.tail
    intro x
    constructor
    · intro hx
      have := (h x).1 (List.mem_cons_of_mem _ hx)
      rcases List.mem_cons.1 this with e | h'
      · subst e; exact absurd (hl.head_lt x hx) (String.lt_irrefl _)
      · exact h'
    · intro hx
      have := (h x).2 (List.mem_cons_of_mem _ hx)
      rcases List.mem_cons.1 this with e | h'
      · subst e; exact absurd (hm.head_lt x hx) (String.lt_irrefl _)
      · exact h'

/-- `sorted(set(l))` is determined by the set -/
theorem sortUniq_congr {l m : List String} (h : ∀ x, x ∈ l ↔ x ∈ m) : sortUniq l = sortUniq m :=
  strictSorted_ext (strictSorted_sortUniq l) (strictSorted_sortUniq m)
    (fun x => by rw [mem_sortUniq, mem_sortUniq]; exact h x)

/-! ### sorting type parameters twice -/

def DeclSorted : List TypeParamDecl → Prop
  | [] => True
  | [_] => True
  | a :: b :: rest => a.name < b.name ∧ DeclSorted (b :: rest)

theorem sortDecls_of_sorted : ∀ {l : List TypeParamDecl}, DeclSorted l → sortDecls l = l
  | [], _ => rfl
  | [a], _ => rfl
  | a :: b :: rest, h => by
    have ih := sortDecls_of_sorted (l := b :: rest) h.2
    unfold sortDecls at ih ⊢
    simp only [List.foldr_cons] at ih ⊢
    rw [ih]
    simp [insertDecl, h.1]

theorem declSorted_insert (d : TypeParamDecl) : ∀ {l : List TypeParamDecl}, DeclSorted l →
    (∀ e ∈ l, e.name ≠ d.name) → DeclSorted (insertDecl d l)
  | [], _, _ => trivial
  | [y], _, hn => by
    simp only [insertDecl]
    split
    · next h => exact ⟨h, trivial⟩
    · next h1 => exact ⟨str_lt_of_not_lt_ne h1 (fun e => hn y (by simp) e.symm), trivial⟩
  | y :: z :: rest, h, hn => by
    simp only [insertDecl]
    split
    · next hxy => exact ⟨hxy, h⟩
    · next hxy =>
      have hyx : y.name < d.name := str_lt_of_not_lt_ne hxy (fun e => hn y (by simp) e.symm)
      have ih := declSorted_insert d (l := z :: rest) h.2 (fun e he => hn e (by simp [he]))
      simp only [insertDecl] at ih ⊢
      split
      · next hxz => exact ⟨hyx, hxz, h.2⟩
      · next hxz =>
        rw [if_neg hxz] at ih
        exact ⟨h.1, ih⟩

theorem declSorted_sortDecls : ∀ (l : List TypeParamDecl), (l.map (·.name)).Nodup → DeclSorted (sortDecls l)
  | [], _ => trivial
  | x :: xs, h => by
    rw [List.map_cons, List.nodup_cons] at h
    unfold sortDecls
    simp only [List.foldr_cons]
    apply declSorted_insert x (declSorted_sortDecls xs h.2)
    intro e he hname
    have : e ∈ xs := mem_sortDecls.1 he
    exact h.1 (hname ▸ List.mem_map.2 ⟨e, this, rfl⟩)

theorem sortDecls_idem (l : List TypeParamDecl) (h : (l.map (·.name)).Nodup) :
    sortDecls (sortDecls l) = sortDecls l :=
  sortDecls_of_sorted (declSorted_sortDecls l h)

end PytypeModel.Pytd
