import PytypeModel.Proofs.PyiTypesH

/-! C05, types, part I: heterogeneous tuples and callables with an argument list. -/
namespace PytypeModel.Pytd

theorem homTupleParam_types (ts : List Ty) : homTupleParam (ts.map PArg.ty) = none := by
  cases ts with
  | nil => rfl
  | cons a ts =>
    cases ts with
    | nil => rfl
    | cons b ts => cases ts <;> rfl

theorem parseTy_sub_tuple (d : Defs) (x : String) (es : List PyExpr) (h : special d x = .tuple) :
    parseTy d (.sub (.name x) es) =
      (if es = [.emptyTuple] then newType d x (some [])
       else do let ps ← parseArgs d es; newType d x (some ps)) := by
  unfold parseTy
  simp only [dottedName]
  rw [h]

theorem parseTy_sub_callable (d : Defs) (x : String) (es : List PyExpr) (h : special d x = .callable) :
    parseTy d (.sub (.name x) es) =
      (if es = [.emptyTuple] then newType d x (some [])
       else do let ps ← parseArgs d es; newType d x (some ps)) := by
  unfold parseTy
  simp only [dottedName]
  rw [h]

theorem parameterized_tuple {d : Defs} {ts : List Ty} (hs : special d "tuple" = .tuple) :
    parameterized d "tuple" (ts.map PArg.ty) = .ok (.tuple (.named "tuple") ts) := by
  unfold parameterized
  rw [hs]
  simp only [any_map_ty ts PArg.isLit (fun _ => rfl), Bool.false_eq_true, if_false, homTupleParam_types,
    cleanParams_types]
  show (do let ts ← pargTys (ts.map PArg.ty); Except.ok ((Ty.named "tuple").tuple ts)) = _
  rw [pargTys_map]
  rfl

theorem tyExpr_tuple (ip : Bool) (b : Ty) (ps : List Ty) :
    tyExpr ip (.tuple b ps) =
      if ps = [] then .sub (tyExpr ip b) [.emptyTuple] else .sub (tyExpr ip b) (tyExprs ip ps) := by
  cases ps <;> simp [tyExpr]

theorem tyExprs_ne_nil (ip : Bool) {ps : List Ty} (h : ps ≠ []) : tyExprs ip ps ≠ [] := by
  cases ps with
  | nil => exact absurd rfl h
  | cons p ps => simp [tyExprs]

/-- `tuple[X, Y]`, `tuple[()]` -/
theorem good_tuple {g : GCtx} (hg : GOK g) (ip : Bool) (b : Ty) (ps : List Ty) (hb : isNameTy b = true)
    (hf : fBase g (tyBaseName b) = true) (he : tyExpr false b = .name "tuple") (ihps : ListGood g ip ps) :
    TyGood g ip (.tuple b ps) := by
  obtain ⟨e1, e2, e3, _, _⟩ := nameTy_facts hb g.tps ip g
  have e1' : tyExpr false b = nameExpr (tyBaseName b) := (nameTy_facts hb g.tps false g).1
  rw [e1'] at he
  obtain ⟨hnorm, hadds, hfs, htp⟩ := base_prints_tuple hf he
  have htn : tyExpr ip (.named "tuple") = .name "tuple" := by rw [tyExpr_named]; decide
  have hn : normTy g.tps ip (.tuple b ps) = .tuple (.named "tuple") (normTys g.tps ip ps) := by
    simp [normTy, e2, hnorm]
  have hnil : normTys g.tps ip ps = [] ↔ ps = [] := by
    cases ps <;> simp [normTys]
  refine ⟨?_, ?_, ?_⟩
  · rw [hn, tyExpr_tuple, tyExpr_tuple, e1, he, htn, listGood_exprs ihps]
    by_cases hp : ps = []
    · simp [hp, normTys]
    · rw [if_neg hp, if_neg (fun h => hp (hnil.1 h))]
  · intro X
    rw [hn]
    have hna : nameAdds "tuple" = [] := by decide
    simp [tyAdds, e3, hadds, hna, listGood_adds ihps X]
  · intro d henv
    have hsp := special_tuple henv hfs
    obtain ⟨pres, hp1, hp2⟩ := listGood_parse ihps (henv.mono (by
      intro y hy; simp [tyAdds, hy]))
    refine ⟨.tuple (.named "tuple") pres, ?_, ?_,
      headOK_single henv (x := "tuple") (by decide) (fSimple_facts hfs).2.2 (by decide) (by decide) rfl⟩
    · rw [tyExpr_tuple, e1, he]
      by_cases hp : ps = []
      · subst hp
        have : pres = [] := by
          cases pres with
          | nil => rfl
          | cons _ _ => simp [tyExprs, ParsesTo] at hp1
        subst this
        rw [if_pos rfl, parseTy_sub_tuple d _ _ hsp, if_pos rfl,
          newType_params (resolve_tuple henv hfs) (by decide)]
        exact parameterized_tuple (ts := []) hsp
      · rw [if_neg hp, parseTy_sub_tuple d _ _ hsp, if_neg (ParsesTo_ne_emptyTuple hp1),
          parseArgs_types hp1]
        show newType d "tuple" (some (pres.map PArg.ty)) = _
        rw [newType_params (resolve_tuple henv hfs) (by decide)]
        exact parameterized_tuple hsp
    · rw [hn]
      have : postTy g.tps (.tuple (.named "tuple") pres) =
          .tuple (postTy g.tps (.named "tuple")) (postTys g.tps pres) := by simp [postTy]
      rw [this, postTy_tuple_name htp, hp2]

/-! ### callables -/

theorem tyExprs_append (ip : Bool) (qs rs : List Ty) :
    tyExprs ip (qs ++ rs) = tyExprs ip qs ++ tyExprs ip rs := by
  simp [tyExprs_eq_map]

theorem normTys_append (tps : List String) (ip : Bool) (qs rs : List Ty) :
    normTys tps ip (qs ++ rs) = normTys tps ip qs ++ normTys tps ip rs := by
  simp [normTys_eq_map]

theorem tysAdds_append (ip : Bool) (qs rs : List Ty) :
    tysAdds ip (qs ++ rs) = tysAdds ip qs ++ tysAdds ip rs := by
  simp [tysAdds_eq]

theorem tyExpr_callable (ip : Bool) (b : Ty) (qs : List Ty) (r : Ty) :
    tyExpr ip (.callable b (qs ++ [r])) = .sub (tyExpr ip b) [.list (tyExprs ip qs), tyExpr ip r] := by
  simp [tyExpr, tyExprs_append, tyExprs]

theorem isBuiltinOrTypingMember_Callable : isBuiltinOrTypingMember "typing.Callable" = true := by decide

theorem cleanParams_callable (qs : List Ty) (r : Ty) :
    cleanParams "typing.Callable" [.list qs, .ty r] true = .ok [.list qs, .ty r] := by
  unfold cleanParams
  simp [isBuiltinOrTypingMember_Callable, PArg.isEllipsis, PArg.isList]

/-- `Callable[[a, b], r]` -/
theorem good_callable {g : GCtx} (hg : GOK g) (ip : Bool) (b : Ty) (qs : List Ty) (r : Ty)
    (hb : isNameTy b = true) (hn : tyBaseName b = "typing.Callable")
    (hnn : normTys g.tps ip qs ≠ [.nothing])
    (ihq : ListGood g ip qs) (ihr : TyGood g ip r)
    (hsub : ∀ x ∈ tyAdds ip (.callable b (qs ++ [r])), x ∈ g.adds) :
    TyGood g ip (.callable b (qs ++ [r])) := by
  obtain ⟨e1, e2, e3, _, _⟩ := nameTy_facts hb g.tps ip g
  rw [hn] at e1 e2 e3
  have hne : nameExpr "typing.Callable" = .name "Callable" := by decide
  have hnm : normName g.tps "typing.Callable" = .named "typing.Callable" := by
    unfold normName; rw [classify_typing_Callable]
  have hna : nameAdds "typing.Callable" = ["Callable"] := by decide
  rw [hne] at e1
  rw [hnm] at e2
  rw [hna] at e3
  have hnorm : normTy g.tps ip (.callable b (qs ++ [r])) =
      .callable (.named "typing.Callable") (normTys g.tps ip qs ++ [normTy g.tps ip r]) := by
    simp [normTy, e2, normTys_append, normTys]
  have haddsC : tyAdds ip (.callable b (qs ++ [r])) = "Callable" :: (tysAdds ip qs ++ tyAdds ip r) := by
    simp [tyAdds, e3, tysAdds_append, tysAdds]
  obtain ⟨ir1, ir2, ir3⟩ := ihr
  refine ⟨?_, ?_, ?_⟩
  · rw [hnorm, tyExpr_callable, tyExpr_callable, e1, tyExpr_named, hne, listGood_exprs ihq, ir1]
  · intro X
    rw [hnorm, haddsC]
    simp [tyAdds, tyAdds_named, hna, tysAdds_append, tysAdds, listGood_adds ihq X, ir2 X]
  · intro d henv
    have hC : "Callable" ∈ g.adds := hsub _ (by rw [haddsC]; simp)
    have hsp : special d "Callable" = .callable := by
      rw [special_of_single henv (by decide) (adds_not_alias hg hC)]; rfl
    have hres : resolveType d "Callable" = .named "typing.Callable" := by
      rw [resolveType_imp henv (by rw [haddsC]; simp) (by decide)]; rfl
    obtain ⟨presq, hq1, hq2⟩ := listGood_parse ihq (henv.mono (by
      intro y hy; rw [haddsC]; simp [hy]))
    obtain ⟨prer, hr1, hr2, _⟩ := ir3 d (henv.mono (by
      intro y hy; rw [haddsC]; simp [hy]))
    refine ⟨.callable (.named "typing.Callable") (presq ++ [prer]), ?_, ?_,
      headOK_typing_sub (n := "typing.Callable") (x := "Callable") (by decide) (by decide) (by decide) rfl
        (by intro m; simp)⟩
    · rw [tyExpr_callable, e1, parseTy_sub_callable d _ _ hsp, if_neg (by simp)]
      simp only [parseArgs, parseTys_types hq1]
      rw [parseArgs_cons_type d _ _ (tyExpr_shape ip r), hr1]
      simp only [parseArgs]
      show newType d "Callable" (some [.list presq, .ty prer]) = _
      rw [newType_params hres (by decide)]
      unfold parameterized
      rw [special_typing_Callable]
      simp only [List.any_cons, List.any_nil, PArg.isLit, Bool.or_false, Bool.false_eq_true, if_false,
        PArg.isEllipsis, cleanParams_callable]
      show buildCallable "typing.Callable" [.list presq, .ty prer] = _
      unfold buildCallable
      simp only []
      by_cases hc : presq = [] ∨ presq = [.nothing]
      · rw [if_pos hc]
        rcases hc with hc | hc
        · subst hc; rfl
        · exfalso
          apply hnn
          rw [← hq2, hc]
          simp [postTys, postTy]
      · rw [if_neg hc]
    · have hb' : postTy g.tps (.named "typing.Callable") = .named "typing.Callable" :=
        postTy_typing_keep hg (x := "Callable") (by decide) (by decide) (by decide)
      have : postTy g.tps (.callable (.named "typing.Callable") (presq ++ [prer])) =
          .callable (postTy g.tps (.named "typing.Callable")) (postTys g.tps (presq ++ [prer])) := by
        simp [postTy]
      rw [hnorm, this, hb', ← hq2, ← hr2]
      simp [postTys_eq_map]

end PytypeModel.Pytd
