import PytypeModel.Plan.Graph
import PytypeModel.Proofs.PlanTotal

/-! Lemmas about `deps_from_import_graph` (model: `Plan/Graph.lean`). -/
namespace PytypeModel.Plan

theorem mem_sourcesOf {m : Mod} : ∀ {l : List GFile}, m ∈ sourcesOf l ↔ GFile.src m ∈ l
  | [] => by simp [sourcesOf]
  | .src m' :: r => by
    simp only [sourcesOf, List.mem_cons, GFile.src.injEq]
    rw [mem_sourcesOf (l := r)]
  | .stub k :: r => by
    simp only [sourcesOf, List.mem_cons]
    rw [mem_sourcesOf (l := r)]
    simp

theorem mem_stubsOf {k : Nat} : ∀ {l : List GFile}, k ∈ stubsOf l ↔ GFile.stub k ∈ l
  | [] => by simp [stubsOf]
  | .stub k' :: r => by
    simp only [stubsOf, List.mem_cons, GFile.stub.injEq]
    rw [mem_stubsOf (l := r)]
  | .src m :: r => by
    simp only [stubsOf, List.mem_cons]
    rw [mem_stubsOf (l := r)]
    simp

theorem sourcesOf_append (a b : List GFile) : sourcesOf (a ++ b) = sourcesOf a ++ sourcesOf b := by
  induction a with
  | nil => rfl
  | cons x r ih => cases x <;> simp [sourcesOf, ih]

theorem mem_uniqueAux {α : Type} [DecidableEq α] {x : α} :
    ∀ {l seen : List α}, x ∈ uniqueAux l seen ↔ x ∈ l ∧ x ∉ seen
  | [], seen => by simp [uniqueAux]
  | y :: r, seen => by
    unfold uniqueAux
    by_cases hy : seen.contains y = true
    · rw [if_pos hy, mem_uniqueAux (l := r)]
      have hy' : y ∈ seen := by simpa using hy
      constructor
      · rintro ⟨h1, h2⟩; exact ⟨List.mem_cons_of_mem _ h1, h2⟩
      · rintro ⟨h1, h2⟩
        rcases List.mem_cons.1 h1 with rfl | h1
        · exact absurd hy' h2
        · exact ⟨h1, h2⟩
    · rw [if_neg hy, List.mem_cons, mem_uniqueAux (l := r)]
      have hy' : y ∉ seen := by simpa using hy
      constructor
      · rintro (rfl | ⟨h1, h2⟩)
        · exact ⟨List.mem_cons_self, hy'⟩
        · exact ⟨List.mem_cons_of_mem _ h1, fun h => h2 (List.mem_cons_of_mem _ h)⟩
      · rintro ⟨h1, h2⟩
        rcases List.mem_cons.1 h1 with rfl | h1
        · exact .inl rfl
        · by_cases hxy : x = y
          · exact .inl hxy
          · exact .inr ⟨h1, by simpa [List.mem_cons, hxy] using h2⟩

/-- `unique_list` keeps exactly the elements of its input -/
theorem mem_uniqueList {α : Type} [DecidableEq α] {x : α} {l : List α} : x ∈ uniqueList l ↔ x ∈ l := by
  simp [uniqueList, mem_uniqueAux]

theorem uniqueAux_nodup {α : Type} [DecidableEq α] :
    ∀ (l seen : List α), (uniqueAux l seen).Nodup
  | [], _ => by simp [uniqueAux]
  | y :: r, seen => by
    unfold uniqueAux
    split
    · exact uniqueAux_nodup r seen
    · refine List.nodup_cons.2 ⟨?_, uniqueAux_nodup r _⟩
      intro h
      exact (mem_uniqueAux.1 h).2 List.mem_cons_self

theorem sget_sextend (sm : StubMap) (k : Nat) (xs : List Mod) (k' : Nat) :
    sget (sextend sm k xs) k' = if k' = k then sget sm k ++ xs else sget sm k' := by
  induction sm with
  | nil =>
    by_cases h : k' = k
    · simp [sextend, sget, h]
    · have : ¬ k = k' := fun e => h e.symm
      simp [sextend, sget, h, this]
  | cons p r ih =>
    obtain ⟨k0, v⟩ := p
    by_cases h0 : k0 = k
    · subst h0
      by_cases h : k' = k0
      · subst h; simp [sextend, sget]
      · have : ¬ k0 = k' := fun e => h e.symm
        simp [sextend, sget, h, this]
    · by_cases h : k' = k
      · subst h
        simp [sextend, sget, h0, ih]
      · by_cases h1 : k0 = k'
        · subst h1; simp [sextend, sget, h0]
        · simp [sextend, sget, h0, h, h1, ih]

/-- every list stored in the map only mentions modules satisfying `P` -/
def SmSub (sm : StubMap) (P : Mod → Prop) : Prop := ∀ k, ∀ m ∈ sget sm k, P m

theorem SmSub.extend {sm : StubMap} {P : Mod → Prop} (h : SmSub sm P) (k : Nat) {xs : List Mod}
    (hx : ∀ m ∈ xs, P m) : SmSub (sextend sm k xs) P := by
  intro k' m hm
  rw [sget_sextend] at hm
  split at hm
  · rcases List.mem_append.1 hm with h1 | h1
    · exact h _ _ h1
    · exact hx _ h1
  · exact h _ _ hm

theorem SmSub.collect {sm : StubMap} {P : Mod → Prop} (h : SmSub sm P) (sd : List Nat) {src : List Mod}
    (hs : ∀ m ∈ src, P m) (s : Nat) : SmSub (collectStub sd src sm s) P := by
  unfold collectStub
  generalize hsm : sextend sm s src = sm1
  have h1 : SmSub sm1 P := hsm ▸ h.extend s hs
  clear hsm
  induction sd generalizing sm1 with
  | nil => simpa using h1
  | cons d r ih =>
    simp only [List.foldl_cons]
    exact ih _ (h1.extend s fun m hm => h1 _ _ hm)

theorem SmSub.foldCollect {P : Mod → Prop} (sd : List Nat) {src : List Mod} (hs : ∀ m ∈ src, P m) :
    ∀ (stubs : List Nat) {sm : StubMap}, SmSub sm P → SmSub (stubs.foldl (collectStub sd src) sm) P
  | [], _, h => by simpa using h
  | s :: r, _, h => by
    simp only [List.foldl_cons]
    exact SmSub.foldCollect sd hs r (h.collect sd hs s)

theorem SmSub.mono {sm : StubMap} {P Q : Mod → Prop} (h : SmSub sm P) (hpq : ∀ m, P m → Q m) : SmSub sm Q :=
  fun k m hm => hpq _ (h k m hm)

/-! ### sources are neither lost nor duplicated -/

theorem gstep_out_members (nodes : List GNode) (st : GSt) (n : GNode) :
    (gstep nodes st n).out.flatMap (·.1) = st.out.flatMap (·.1) ++ sourcesOf n.files := by
  unfold gstep
  cases h : sourcesOf n.files with
  | nil => simp
  | cons a r => simp

theorem gfold_out_members (nodes : List GNode) :
    ∀ (l : List GNode) (st : GSt),
      (gfold nodes l st).out.flatMap (·.1) = st.out.flatMap (·.1) ++ l.flatMap (fun n => sourcesOf n.files)
  | [], st => by simp [gfold]
  | n :: r, st => by
    rw [gfold, gfold_out_members nodes r, gstep_out_members]
    simp [List.append_assoc]

/-! ### the output is in dependency order -/

theorem depsClosedAux_append (seen : List Mod) (a : List (List Mod × List Mod)) (g : List Mod × List Mod) :
    depsClosedAux seen (a ++ [g]) =
      (depsClosedAux seen a && g.2.all (fun d => (seen ++ a.flatMap (·.1)).contains d)) := by
  induction a generalizing seen with
  | nil => simp [depsClosedAux]
  | cons x r ih =>
    simp only [List.cons_append, depsClosedAux, ih, List.flatMap_cons, List.append_assoc, Bool.and_assoc]

/-- what holds before the node at position `pre.length` is processed -/
structure GInv (pre : List GNode) (st : GSt) : Prop where
  members : st.out.flatMap (·.1) = graphSources pre
  sub : SmSub st.stubMap (· ∈ graphSources pre)
  closed : depsClosedAux [] st.out = true

theorem depFiles_earlier {pre l : List GNode} {n : GNode} (hd : n.deps.all (· < pre.length) = true)
    {m : Mod} (hm : GFile.src m ∈ depFiles (pre ++ l) n) : m ∈ graphSources pre := by
  unfold depFiles at hm
  obtain ⟨j, hj, hf⟩ := List.mem_flatMap.1 hm
  have hlt : j < pre.length := by simpa using List.all_eq_true.1 hd j hj
  rw [List.getElem?_append_left hlt, List.getElem?_eq_getElem hlt] at hf
  exact List.mem_flatMap.2 ⟨pre[j], List.getElem_mem hlt, mem_sourcesOf.2 hf⟩

theorem graphSources_append (a b : List GNode) : graphSources (a ++ b) = graphSources a ++ graphSources b := by
  simp [graphSources]

theorem gstep_inv {pre l : List GNode} {st : GSt} {n : GNode} (inv : GInv pre st)
    (hd : n.deps.all (· < pre.length) = true) : GInv (pre ++ [n]) (gstep (pre ++ l) st n) := by
  have hsrc : ∀ m ∈ sourcesOf (uniqueList (depFiles (pre ++ l) n)), m ∈ graphSources pre := by
    intro m hm
    exact depFiles_earlier hd (mem_uniqueList.1 (mem_sourcesOf.1 hm))
  have hsm : SmSub ((stubsOf n.files).foldl
      (collectStub (stubsOf (uniqueList (depFiles (pre ++ l) n)))
        (sourcesOf (uniqueList (depFiles (pre ++ l) n)))) st.stubMap) (· ∈ graphSources pre) :=
    SmSub.foldCollect _ hsrc _ inv.sub
  have hmono : ∀ m, m ∈ graphSources pre → m ∈ graphSources (pre ++ [n]) := by
    intro m hm
    rw [graphSources_append]
    exact List.mem_append_left _ hm
  refine ⟨?_, ?_, ?_⟩
  · rw [gstep_out_members, inv.members, graphSources_append]
    simp [graphSources]
  · unfold gstep
    cases h : sourcesOf n.files with
    | nil => exact hsm.mono hmono
    | cons a r => exact hsm.mono hmono
  · unfold gstep
    cases h : sourcesOf n.files with
    | nil => exact inv.closed
    | cons a r =>
      simp only
      rw [depsClosedAux_append, inv.closed, Bool.true_and, List.nil_append, inv.members]
      refine List.all_eq_true.2 fun d hd' => ?_
      have : d ∈ graphSources pre := by
        rcases List.mem_append.1 hd' with h1 | h1
        · exact hsrc _ h1
        · obtain ⟨k, _, hk⟩ := List.mem_flatMap.1 h1
          exact hsm _ _ hk
      simpa using this

theorem gfold_inv (nodes : List GNode) :
    ∀ (l pre : List GNode) (st : GSt), nodes = pre ++ l → topoFrom pre.length l = true → GInv pre st →
      GInv nodes (gfold nodes l st)
  | [], pre, st, hn, _, inv => by
    simp only [List.append_nil] at hn
    subst hn
    simpa [gfold] using inv
  | n :: r, pre, st, hn, ht, inv => by
    simp only [topoFrom, Bool.and_eq_true] at ht
    rw [gfold]
    have hstep : GInv (pre ++ [n]) (gstep nodes st n) := by
      rw [hn]
      exact gstep_inv inv ht.1
    refine gfold_inv nodes r (pre ++ [n]) _ (by simp [hn]) ?_ hstep
    simpa using ht.2

theorem depsFromGraph_inv (nodes : List GNode) (h : topo nodes = true) :
    GInv nodes (gfold nodes nodes ⟨[], []⟩) :=
  gfold_inv nodes nodes [] _ rfl h ⟨by simp [graphSources], fun k m hm => by simp [sget] at hm, rfl⟩

end PytypeModel.Plan
