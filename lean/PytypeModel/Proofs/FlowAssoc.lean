import PytypeModel.Bool.BlockState
import PytypeModel.Proofs.FlowCond

/-! Lemmas about the insertion-ordered dict model and about `Variable` (C18). -/
namespace PytypeModel.Flow
set_option linter.unusedSectionVars false

section assoc
variable {κ β : Type} [DecidableEq κ]

def akeys (d : List (κ × β)) : List κ := d.map (·.1)

@[simp] theorem akeys_nil : akeys ([] : List (κ × β)) = [] := rfl
@[simp] theorem akeys_cons (p : κ × β) (d : List (κ × β)) : akeys (p :: d) = p.1 :: akeys d := rfl

theorem assocGet_set_same (d : List (κ × β)) (x : κ) (v : β) :
    assocGet (assocSet d x v) x = some v := by
  induction d with
  | nil => simp [assocSet, assocGet]
  | cons p d ih =>
    obtain ⟨k, w⟩ := p
    by_cases h : k = x
    · simp [assocSet, assocGet, h]
    · simp [assocSet, assocGet, h, ih]

theorem assocGet_set_ne (d : List (κ × β)) (x y : κ) (v : β) (hxy : x ≠ y) :
    assocGet (assocSet d x v) y = assocGet d y := by
  induction d with
  | nil => simp [assocSet, assocGet, hxy]
  | cons p d ih =>
    obtain ⟨k, w⟩ := p
    by_cases h : k = x
    · subst h; simp [assocSet, assocGet, hxy]
    · by_cases h2 : k = y
      · subst h2; simp [assocSet, assocGet, h]
      · simp [assocSet, assocGet, h, h2, ih]

theorem assocGet_eq_none_iff (d : List (κ × β)) (x : κ) : assocGet d x = none ↔ x ∉ akeys d := by
  induction d with
  | nil => simp [assocGet]
  | cons p d ih =>
    obtain ⟨k, w⟩ := p
    by_cases h : k = x
    · simp [assocGet, h]
    · have h' : ¬ x = k := fun e => h e.symm
      simp [assocGet, h, h', ih]

theorem mem_of_assocGet (d : List (κ × β)) (x : κ) (v : β) (h : assocGet d x = some v) :
    (x, v) ∈ d := by
  induction d with
  | nil => simp [assocGet] at h
  | cons p d ih =>
    obtain ⟨k, w⟩ := p
    by_cases hk : k = x
    · simp [assocGet, hk] at h; subst hk; subst h; simp
    · simp [assocGet, hk] at h; exact List.mem_cons_of_mem _ (ih h)

theorem mem_akeys_of_mem {d : List (κ × β)} {x : κ} {v : β} (h : (x, v) ∈ d) : x ∈ akeys d :=
  List.mem_map.2 ⟨(x, v), h, rfl⟩

theorem assocGet_of_mem (d : List (κ × β)) (hn : (akeys d).Nodup) (x : κ) (v : β)
    (h : (x, v) ∈ d) : assocGet d x = some v := by
  induction d with
  | nil => cases h
  | cons p d ih =>
    obtain ⟨k, w⟩ := p
    simp only [akeys_cons, List.nodup_cons] at hn
    rcases List.mem_cons.1 h with h | h
    · cases h; simp [assocGet]
    · have hx : x ∈ akeys d := mem_akeys_of_mem h
      have : k ≠ x := fun e => hn.1 (e ▸ hx)
      simp [assocGet, this, ih hn.2 h]

theorem assocGet_iff_mem (d : List (κ × β)) (hn : (akeys d).Nodup) (x : κ) (v : β) :
    assocGet d x = some v ↔ (x, v) ∈ d :=
  ⟨mem_of_assocGet d x v, assocGet_of_mem d hn x v⟩

theorem mem_akeys_iff (d : List (κ × β)) (x : κ) : x ∈ akeys d ↔ ∃ v, assocGet d x = some v := by
  constructor
  · intro h
    cases hg : assocGet d x with
    | none => exact absurd h ((assocGet_eq_none_iff d x).1 hg)
    | some v => exact ⟨v, rfl⟩
  · rintro ⟨v, hv⟩
    exact mem_akeys_of_mem (mem_of_assocGet d x v hv)

theorem akeys_assocSet (d : List (κ × β)) (x : κ) (v : β) :
    akeys (assocSet d x v) = if x ∈ akeys d then akeys d else akeys d ++ [x] := by
  induction d with
  | nil => simp [assocSet, akeys]
  | cons p d ih =>
    obtain ⟨k, w⟩ := p
    by_cases h : k = x
    · subst h; simp [assocSet]
    · have h' : ¬ x = k := fun e => h e.symm
      simp only [assocSet, h, if_false, akeys_cons, ih, List.mem_cons, h', false_or]
      split <;> simp

theorem mem_akeys_assocSet (d : List (κ × β)) (x y : κ) (v : β) :
    y ∈ akeys (assocSet d x v) ↔ y ∈ akeys d ∨ y = x := by
  rw [akeys_assocSet]
  split
  · rename_i h
    constructor
    · exact Or.inl
    · rintro (h' | h')
      · exact h'
      · exact h' ▸ h
  · simp

theorem nodup_akeys_assocSet (d : List (κ × β)) (x : κ) (v : β) (hn : (akeys d).Nodup) :
    (akeys (assocSet d x v)).Nodup := by
  rw [akeys_assocSet]
  split
  · exact hn
  · rename_i h
    rw [List.nodup_append]
    exact ⟨hn, by simp, by intro a ha b hb; simp at hb; subst hb; exact fun e => h (e ▸ ha)⟩

theorem mem_assocSet (d : List (κ × β)) (x : κ) (v : β) (p : κ × β) (h : p ∈ assocSet d x v) :
    p ∈ d ∨ p = (x, v) := by
  induction d with
  | nil => simp [assocSet] at h; exact Or.inr h
  | cons q d ih =>
    obtain ⟨k, w⟩ := q
    by_cases hk : k = x
    · simp only [assocSet, hk, if_true, List.mem_cons] at h
      rcases h with h | h
      · exact Or.inr h
      · exact Or.inl (List.mem_cons_of_mem _ h)
    · simp only [assocSet, hk, if_false, List.mem_cons] at h
      rcases h with h | h
      · exact Or.inl (h ▸ List.mem_cons_self)
      · rcases ih h with h | h
        · exact Or.inl (List.mem_cons_of_mem _ h)
        · exact Or.inr h

theorem assocGet_map (d : List (κ × β)) {γ : Type} (f : κ → β → γ) (x : κ) :
    assocGet (d.map fun p => (p.1, f p.1 p.2)) x = (assocGet d x).map (f x) := by
  induction d with
  | nil => simp [assocGet]
  | cons p d ih =>
    obtain ⟨k, w⟩ := p
    by_cases h : k = x
    · subst h; simp [assocGet]
    · simp [assocGet, h, ih]

theorem akeys_map (d : List (κ × β)) {γ : Type} (f : κ → β → γ) :
    akeys (d.map fun p => (p.1, f p.1 p.2)) = akeys d := by
  simp [akeys, List.map_map, Function.comp_def]

/-- effect on key `x` of a loop over `bl` whose step only ever writes the key it is looking at -/
def updSpec (upd : κ → β → Option β → Option β) (bl : List (κ × β)) (x : κ) (cur : Option β) :
    Option β :=
  match assocGet bl x with
  | none => cur
  | some w => (upd x w cur).or cur

/-- a `foldl` whose step only ever writes the key it is looking at (second loop of merge_into). -/
theorem assocGet_foldl_upd (upd : κ → β → Option β → Option β)
    (stepf : List (κ × β) → κ × β → List (κ × β))
    (hstep : ∀ acc p, stepf acc p = assocUpd acc p.1 (upd p.1 p.2 (assocGet acc p.1)))
    (bl : List (κ × β)) (hn : (akeys bl).Nodup) (x : κ) : ∀ acc : List (κ × β),
    assocGet (bl.foldl stepf acc) x = updSpec upd bl x (assocGet acc x) := by
  induction bl with
  | nil => intro acc; simp [assocGet, updSpec]
  | cons p bl ih =>
    intro acc
    obtain ⟨k, w⟩ := p
    simp only [akeys_cons, List.nodup_cons] at hn
    rw [List.foldl_cons, ih hn.2]
    by_cases hk : k = x
    · subst hk
      have hnone : assocGet bl k = none := (assocGet_eq_none_iff bl k).2 hn.1
      simp only [updSpec, hnone, assocGet, if_true, hstep]
      cases upd k w (assocGet acc k) with
      | none => simp [assocUpd]
      | some nv => simp [assocUpd, assocGet_set_same]
    · have hacc : assocGet (stepf acc (k, w)) x = assocGet acc x := by
        rw [hstep]
        cases upd k w (assocGet acc k) with
        | none => rfl
        | some nv => exact assocGet_set_ne acc k x nv hk
      simp only [updSpec, assocGet, hk, if_false, hacc]

theorem akeys_foldl_upd (upd : κ → β → Option β → Option β)
    (stepf : List (κ × β) → κ × β → List (κ × β))
    (hstep : ∀ acc p, stepf acc p = assocUpd acc p.1 (upd p.1 p.2 (assocGet acc p.1)))
    (bl : List (κ × β)) : ∀ acc : List (κ × β), (akeys acc).Nodup →
      (akeys (bl.foldl stepf acc)).Nodup ∧ ∀ y ∈ akeys acc, y ∈ akeys (bl.foldl stepf acc) := by
  induction bl with
  | nil => intro acc h; exact ⟨h, fun y hy => hy⟩
  | cons p bl ih =>
    intro acc h
    rw [List.foldl_cons]
    have h1 : (akeys (stepf acc p)).Nodup ∧ ∀ y ∈ akeys acc, y ∈ akeys (stepf acc p) := by
      rw [hstep]
      cases upd p.1 p.2 (assocGet acc p.1) with
      | none => exact ⟨h, fun y hy => hy⟩
      | some nv =>
        exact ⟨nodup_akeys_assocSet acc p.1 nv h,
          fun y hy => (mem_akeys_assocSet acc p.1 y nv).2 (Or.inl hy)⟩
    obtain ⟨h2, h3⟩ := ih (stepf acc p) h1.1
    exact ⟨h2, fun y hy => h3 y (h1.2 y hy)⟩

end assoc

/-! ### name sets -/
theorem contains_iff (s : List String) (x : String) : s.contains x = true ↔ x ∈ s := by
  simp

theorem mem_setAdd (s : List String) (x y : String) : y ∈ setAdd s x ↔ y ∈ s ∨ y = x := by
  unfold setAdd
  split
  · rename_i h
    have hx : x ∈ s := (contains_iff s x).1 h
    constructor
    · exact Or.inl
    · rintro (h' | h')
      · exact h'
      · exact h' ▸ hx
  · simp

/-! ### variables -/

/-- a variable under a valuation: values with the truth value of their own condition, in order -/
def Var.sem (ρ : Nat → Bool) (v : Var) : List (Val × Bool) :=
  v.bindings.map fun b => (b.value, b.cond.eval ρ)

theorem Var.sem_withCondition (ρ : Nat → Bool) (v : Var) (c : Cond) :
    (v.withCondition c).sem ρ = (v.sem ρ).map fun p => (p.1, p.2 && c.eval ρ) := by
  unfold Var.withCondition
  split
  · rename_i h
    have : c = .tt := (Cond.isTT_iff c).1 h
    subst this
    simp [Var.sem]
  · simp [Var.sem, List.map_map, Function.comp_def, eval_mkAnd']

theorem Var.values_withCondition (v : Var) (c : Cond) : (v.withCondition c).values = v.values := by
  unfold Var.withCondition
  split
  · rfl
  · simp [Var.values, List.map_map, Function.comp_def]

theorem Var.name_withCondition (v : Var) (c : Cond) : (v.withCondition c).name = v.name := by
  unfold Var.withCondition
  split <;> rfl

theorem Var.values_eq_sem (ρ : Nat → Bool) (v : Var) : v.values = (v.sem ρ).map (·.1) := by
  simp [Var.values, Var.sem, List.map_map, Function.comp_def]

theorem bindingsBeq_sound (ρ : Nat → Bool) : ∀ as bs : List Binding, bindingsBeq as bs = true →
    as.map (fun b => (b.value, b.cond.eval ρ)) = bs.map (fun b => (b.value, b.cond.eval ρ)) := by
  intro as
  induction as with
  | nil => intro bs h; cases bs <;> simp_all [bindingsBeq]
  | cons a as ih =>
    intro bs h
    cases bs with
    | nil => simp [bindingsBeq] at h
    | cons b bs =>
      simp only [bindingsBeq, Bool.and_eq_true, Binding.beq, beq_iff_eq] at h
      simp [h.1.1, Cond.beq_sound ρ _ _ h.1.2, ih bs h.2]

/-- `==` on variables implies the same meaning under every valuation -/
theorem Var.beq_sound (ρ : Nat → Bool) (a b : Var) (h : a.beq b = true) : a.sem ρ = b.sem ρ := by
  simp only [Var.beq, Bool.and_eq_true] at h
  exact bindingsBeq_sound ρ _ _ h.1

end PytypeModel.Flow
