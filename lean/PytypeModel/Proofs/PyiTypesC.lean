import PytypeModel.Proofs.PyiTypesB

/-! C05, types, part C: names and the simple constructors. -/
namespace PytypeModel.Pytd

/-- the parse-stage type does not look like `Final` / `TypeAlias` to `_ann_assign` -/
def FinalOK (d : Defs) (pre : Ty) : Prop :=
  tyName pre = "" ∨ (matchesName d (tyName pre) ["typing"] "Final" = false ∧
    matchesName d (tyName pre) ["typing"] "TypeAlias" = false)

/-- … and, if it is a bare name, `_maybe_resolve_alias` keeps an alias to it -/
def AliasOK (pre : Ty) : Prop :=
  ∀ n, pre = .named n → typingSets.contains n = false ∧ (comps n = [n] ∨ ∃ x, comps n = ["typing", x])

def HeadOK (d : Defs) (pre : Ty) : Prop := FinalOK d pre ∧ AliasOK pre

/-- what is proved for every fragment type: printing the normal form prints the same expression, with the
same `typing` members, and parsing the printed expression gives the normal form after post-processing -/
def TyGood (g : GCtx) (ip : Bool) (t : Ty) : Prop :=
  tyExpr ip (normTy g.tps ip t) = tyExpr ip t ∧
  (∀ X, X ∈ tyAdds ip (normTy g.tps ip t) ↔ X ∈ tyAdds ip t) ∧
  (∀ d, EnvOK g d (tyAdds ip t) →
    ∃ pre, parseTy d (tyExpr ip t) = .ok pre ∧ postTy g.tps pre = normTy g.tps ip t ∧ HeadOK d pre)

theorem headOK_single {g : GCtx} {d : Defs} {needs : List String} (h : EnvOK g d needs) {x : String}
    (hx : comps x = [x]) (ha : g.aliasNames.contains x = false) (h1 : x ≠ "Final") (h2 : x ≠ "TypeAlias")
    {pre : Ty} (hn : tyName pre = x) : HeadOK d pre := by
  refine ⟨?_, ?_⟩
  · right
    rw [hn]
    unfold matchesName matchesC
    simp only [hx, resolveAlias_of_not_alias h ha]
    simp [h1, h2]
  · intro n hpn
    subst hpn
    simp only [tyName] at hn
    subst hn
    exact ⟨typingSets_single hx, Or.inl hx⟩

theorem finalOK_typing {d : Defs} {n x : String} (hcn : comps n = ["typing", x]) (h1 : x ≠ "Final")
    (h2 : x ≠ "TypeAlias") {pre : Ty} (hn : tyName pre = n) : FinalOK d pre := by
  right
  rw [hn]
  unfold matchesName matchesC
  simp only [hcn]
  simp [h1, h2]

/-- a bare `typing.x` name that is not one of the set types -/
theorem headOK_typing {d : Defs} {n x : String} (hcn : comps n = ["typing", x]) (h1 : x ≠ "Final")
    (h2 : x ≠ "TypeAlias") (h3 : x ≠ "Intersection") (h4 : x ≠ "Optional") (h5 : x ≠ "Union")
    {pre : Ty} (hn : tyName pre = n) : HeadOK d pre := by
  refine ⟨finalOK_typing hcn h1 h2 hn, ?_⟩
  intro m hpn
  subst hpn
  simp only [tyName] at hn
  subst hn
  exact ⟨typingSets_typing hcn h3 h4 h5, Or.inr ⟨x, hcn⟩⟩

/-- a subscripted `typing.x[...]` -/
theorem headOK_typing_sub {d : Defs} {n x : String} (hcn : comps n = ["typing", x]) (h1 : x ≠ "Final")
    (h2 : x ≠ "TypeAlias") {pre : Ty} (hn : tyName pre = n) (hnn : ∀ m, pre ≠ .named m) : HeadOK d pre :=
  ⟨finalOK_typing hcn h1 h2 hn, fun m hm => absurd hm (hnn m)⟩

theorem headOK_empty {d : Defs} {pre : Ty} (hn : tyName pre = "") : HeadOK d pre := by
  refine ⟨Or.inl hn, ?_⟩
  intro n hpn
  subst hpn
  simp only [tyName] at hn
  subst hn
  exact ⟨by decide, Or.inl (by decide)⟩

theorem fSimple_facts {g : GCtx} {x : String} (h : fSimple g x = true) :
    reservedTypeNames.contains x = false ∧ g.adds.contains x = false ∧ g.aliasNames.contains x = false := by
  unfold fSimple at h
  simp only [Bool.and_eq_true, Bool.not_eq_true'] at h
  exact ⟨h.1.1, h.1.2, h.2⟩

theorem convNamed_single {x : String} (hx : comps x = [x]) (hn : x ≠ "None") : convNamed x = .named x := by
  unfold convNamed
  rw [hx]
  split
  · next h => simp at h; exact absurd h hn
  · next h => simp at h
  · rfl

theorem postTy_named (tps : List String) (n : String) :
    postTy tps (.named n) = if tps.contains n then .typeParam n none else convNamed n := by
  simp [postTy]

theorem tyExpr_named (ip : Bool) (n : String) : tyExpr ip (.named n) = nameExpr n := by simp [tyExpr]
theorem tyAdds_named (ip : Bool) (n : String) : tyAdds ip (.named n) = nameAdds n := by simp [tyAdds]
theorem tyExpr_typeParam (ip : Bool) (n : String) (s : Option String) :
    tyExpr ip (.typeParam n s) = .name n := by simp [tyExpr]
theorem tyAdds_typeParam (ip : Bool) (n : String) (s : Option String) :
    tyAdds ip (.typeParam n s) = [] := by simp [tyAdds]

theorem nameAdds_single {x : String} (hx : comps x = [x]) : nameAdds x = [] := by
  unfold nameAdds
  rw [classify_of_single hx]

theorem nameExpr_single {x : String} (hx : comps x = [x]) : nameExpr x = simpleNameExpr x := by
  unfold nameExpr
  rw [classify_of_single hx]

theorem parseTy_name (d : Defs) (x : String) : parseTy d (.name x) = newType d x none := by
  simp [parseTy]

theorem newType_bare {d : Defs} {x bn : String} (hr : resolveType d x = .named bn)
    (hs : typingSets.contains bn = false) : newType d x none = .ok (.named bn) := by
  unfold newType
  rw [hr]
  simp only [hs]
  rfl

theorem simpleNorm_pos {tps : List String} {x : String} (h : tps.contains x = true) :
    simpleNorm tps x = .typeParam x none := by
  unfold simpleNorm; rw [if_pos h]

theorem simpleNorm_neg {tps : List String} {x : String} (h : tps.contains x = false) (hn : x ≠ "None") :
    simpleNorm tps x = .named x := by
  unfold simpleNorm
  rw [if_neg (by rw [h]; exact Bool.false_ne_true), if_neg hn]

/-- a plain identifier that is neither imported nor an alias: printed as itself and read back as
`NamedType x`, which post-processing turns into a type parameter if `x` is declared as one -/
theorem good_simple {g : GCtx} (hg : GOK g) (ip : Bool) {x : String} (hid : identOK x = true)
    (hf : fSimple g x = true) :
    tyExpr ip (simpleNorm g.tps x) = simpleNameExpr x ∧ tyAdds ip (simpleNorm g.tps x) = [] ∧
    (∀ d needs, EnvOK g d needs →
      ∃ pre, parseTy d (simpleNameExpr x) = .ok pre ∧ postTy g.tps pre = simpleNorm g.tps x ∧ HeadOK d pre) := by
  have hx := identOK_comps hid
  have hNone := identOK_ne_None hid
  obtain ⟨hres, hadds, halias⟩ := fSimple_facts hf
  have hnothing : x ≠ "nothing" := by
    intro e; subst e; revert hres; decide
  have hFinal : x ≠ "Final" := by
    intro e; subst e; revert hres; decide
  have hTA : x ≠ "TypeAlias" := by
    intro e; subst e; revert hres; decide
  by_cases hNT : x = "NoneType"
  · subst hNT
    have htp : g.tps.contains "NoneType" = false := hg.tpsNone
    rw [simpleNorm_neg htp (by decide)]
    refine ⟨?_, ?_, ?_⟩
    · rw [tyExpr_named]; decide
    · rw [tyAdds_named]; decide
    · intro d needs henv
      refine ⟨.named "NoneType", ?_, ?_, headOK_single henv hx halias (by decide) (by decide) rfl⟩
      · have : simpleNameExpr "NoneType" = .none := by decide
        rw [this]; simp [parseTy]
      · rw [postTy_named, htp]
        decide
  · have hexpr : simpleNameExpr x = .name x := by
      unfold simpleNameExpr
      simp [hNT, hNone]
    by_cases ht : g.tps.contains x = true
    · rw [simpleNorm_pos ht]
      refine ⟨?_, ?_, ?_⟩
      · rw [tyExpr_typeParam, hexpr]
      · exact tyAdds_typeParam _ _ _
      · intro d needs henv
        refine ⟨.named x, ?_, ?_, headOK_single henv hx halias hFinal hTA rfl⟩
        · rw [hexpr, parseTy_name]
          exact newType_bare (resolveType_other henv hadds halias hnothing) (typingSets_single hx)
        · rw [postTy_named, if_pos ht]
    · have ht' : g.tps.contains x = false := by simpa using ht
      rw [simpleNorm_neg ht' hNone]
      refine ⟨?_, ?_, ?_⟩
      · rw [tyExpr_named, nameExpr_single hx]
      · rw [tyAdds_named, nameAdds_single hx]
      · intro d needs henv
        refine ⟨.named x, ?_, ?_, headOK_single henv hx halias hFinal hTA rfl⟩
        · rw [hexpr, parseTy_name]
          exact newType_bare (resolveType_other henv hadds halias hnothing) (typingSets_single hx)
        · rw [postTy_named, if_neg ht, convNamed_single hx hNone]


theorem convNamed_typing {n x : String} (hn : comps n = ["typing", x])
    (hb : typingToBuiltin.lookup x = none) (ha : x ≠ "Any") : convNamed n = .named n := by
  unfold convNamed
  rw [hn]
  simp only [hb]
  rw [if_neg ha]

theorem ne_of_not_contains {l : List String} {x y : String} (h : l.contains x = false) (hy : y ∈ l) :
    x ≠ y := by
  intro e
  subst e
  have : l.contains x = true := List.contains_iff_mem.2 hy
  rw [this] at h
  exact absurd h (by simp)

theorem typingBanned_facts {x : String} (h : typingBanned.contains x = false) :
    typingToBuiltin.lookup x = none ∧ x ≠ "Any" ∧ x ≠ "Optional" ∧ x ≠ "Union" ∧ x ≠ "Intersection" ∧
    x ≠ "NoneType" ∧ x ≠ "nothing" ∧ x ≠ "Final" ∧ x ≠ "TypeAlias" ∧ x ≠ "Tuple" ∧ x ≠ "tuple" := by
  have n := fun (y : String) (hy : y ∈ typingBanned) => ne_of_not_contains h hy
  refine ⟨?_, n _ (by decide), n _ (by decide), n _ (by decide), n _ (by decide), n _ (by decide),
    n _ (by decide), n _ (by decide), n _ (by decide), n _ (by decide), n _ (by decide)⟩
  unfold typingToBuiltin
  have b1 : (x == "List") = false := by simpa using n "List" (by decide)
  have b2 : (x == "Dict") = false := by simpa using n "Dict" (by decide)
  have b3 : (x == "Tuple") = false := by simpa using n "Tuple" (by decide)
  have b4 : (x == "Set") = false := by simpa using n "Set" (by decide)
  have b5 : (x == "FrozenSet") = false := by simpa using n "FrozenSet" (by decide)
  have b6 : (x == "Type") = false := by simpa using n "Type" (by decide)
  simp only [List.lookup, b1, b2, b3, b4, b5, b6]

theorem mName_simple {g : GCtx} {n x : String} (hc : classify n = .simple x) (h : mName g n = true) :
    identOK x = true := by
  unfold mName at h
  rw [hc] at h
  simp only [Bool.and_eq_true] at h
  exact h.1

theorem mName_builtin {g : GCtx} {n x : String} (hc : classify n = .builtin x) (h : mName g n = true) :
    identOK x = true := by
  unfold mName at h
  rw [hc] at h
  simp only [Bool.and_eq_true] at h
  exact h.1.1

theorem mName_typing {g : GCtx} {n x : String} (hc : classify n = .typing x) (h : mName g n = true) :
    identOK x = true := by
  unfold mName at h
  rw [hc] at h
  simp only [Bool.and_eq_true] at h
  exact h.1.1.1

/-- names: `VisitNamedType` against `new_type` + `ConvertTypingToNative` -/
theorem good_name {g : GCtx} (hg : GOK g) (ip : Bool) {n : String} (hf : fName g n = true) :
    tyExpr ip (normName g.tps n) = nameExpr n ∧
    (∀ X, X ∈ tyAdds ip (normName g.tps n) ↔ X ∈ nameAdds n) ∧
    (∀ d, EnvOK g d (nameAdds n) →
      ∃ pre, parseTy d (nameExpr n) = .ok pre ∧ postTy g.tps pre = normName g.tps n ∧ HeadOK d pre) := by
  unfold fName at hf
  simp only [Bool.and_eq_true] at hf
  obtain ⟨hm, hf⟩ := hf
  cases hc : classify n with
  | simple x =>
    rw [hc] at hf
    have hid := mName_simple hc hm
    obtain ⟨h1, h2, h3⟩ := good_simple hg ip hid hf
    have e1 : normName g.tps n = simpleNorm g.tps x := by unfold normName; rw [hc]
    have e2 : nameExpr n = simpleNameExpr x := by unfold nameExpr; rw [hc]
    have e3 : nameAdds n = [] := by unfold nameAdds; rw [hc]
    rw [e1, e2, e3]
    exact ⟨h1, by rw [h2]; simp, fun d henv => h3 d [] henv⟩
  | builtin x =>
    rw [hc] at hf
    have hid := mName_builtin hc hm
    obtain ⟨h1, h2, h3⟩ := good_simple hg ip hid hf
    have e1 : normName g.tps n = simpleNorm g.tps x := by unfold normName; rw [hc]
    have e2 : nameExpr n = simpleNameExpr x := by unfold nameExpr; rw [hc]
    have e3 : nameAdds n = [] := by unfold nameAdds; rw [hc]
    rw [e1, e2, e3]
    exact ⟨h1, by rw [h2]; simp, fun d henv => h3 d [] henv⟩
  | typing x =>
    rw [hc] at hf
    have hid := mName_typing hc hm
    obtain ⟨hn, hcn, hx⟩ := classify_typing hc
    have hb : typingBanned.contains x = false := by simpa using hf
    obtain ⟨hlk, hAny, hOpt, hUn, hInt, hNT, hnothing, hFin, hTA, _, _⟩ := typingBanned_facts hb
    have hNone := identOK_ne_None hid
    have e1 : normName g.tps n = .named n := by unfold normName; rw [hc]
    have e2 : nameExpr n = .name x := by
      unfold nameExpr; rw [hc]; unfold simpleNameExpr; simp [hNT, hNone]
    have e3 : nameAdds n = [x] := by unfold nameAdds; rw [hc]
    rw [e1, e2, e3]
    refine ⟨?_, ?_, ?_⟩
    · rw [tyExpr_named, ← e2]
    · intro X; rw [tyAdds_named, e3]
    · intro d henv
      refine ⟨.named n, ?_, ?_, headOK_typing hcn hFin hTA hInt hOpt hUn rfl⟩
      · rw [parseTy_name]
        apply newType_bare
        · rw [resolveType_imp henv (by simp) hnothing, hn]
        · exact typingSets_typing hcn hInt hOpt hUn
      · rw [postTy_named]
        have : g.tps.contains n = false := by
          rw [Bool.eq_false_iff]
          intro hmem
          have := hg.tpsSingle n (by simpa using hmem)
          rw [hcn] at this
          simp at this
        rw [this]
        simp only [Bool.false_eq_true, if_false]
        exact convNamed_typing hcn hlk hAny
  | dotted cs =>
    rw [hc] at hf
    simp at hf

end PytypeModel.Pytd
