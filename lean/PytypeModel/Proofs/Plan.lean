import PytypeModel.Plan.Runner

/-! Invariants of the `setup_build` loop (helper lemmas for Props/C19). -/
namespace PytypeModel.Plan

/-! ### dict lemmas -/

theorem dget_dset {β : Type} (d : List (Mod × β)) (k k' : Mod) (v : β) :
    dget (dset d k v) k' = if k = k' then some v else dget d k' := by
  induction d with
  | nil => simp [dset, dget]
  | cons h t ih =>
    obtain ⟨a, b⟩ := h
    by_cases hak : a = k
    · subst hak
      by_cases h2 : a = k' <;> simp [dset, dget, h2]
    · by_cases h2 : a = k'
      · subst h2
        have : ¬ k = a := fun h => hak h.symm
        simp [dset, dget, hak, this]
      · simp [dset, dget, hak, h2, ih]

theorem mem_dset {β : Type} (d : List (Mod × β)) (k : Mod) (v : β) (x : Mod × β) :
    x ∈ dset d k v → x = (k, v) ∨ x ∈ d := by
  induction d with
  | nil => simp [dset]
  | cons h t ih =>
    obtain ⟨a, b⟩ := h
    by_cases hak : a = k
    · simp only [dset, hak, if_true, List.mem_cons]
      rintro (h | h)
      · exact .inl h
      · exact .inr (.inr h)
    · simp only [dset, hak, if_false, List.mem_cons]
      rintro (h | h)
      · exact .inr (.inl h)
      · rcases ih h with h | h
        · exact .inl h
        · exact .inr (.inr h)

theorem mem_dupdate {β : Type} (e d : List (Mod × β)) (x : Mod × β) :
    x ∈ dupdate d e → x ∈ d ∨ x ∈ e := by
  unfold dupdate
  induction e generalizing d with
  | nil => simp
  | cons h t ih =>
    intro hx
    simp only [List.foldl_cons] at hx
    rcases ih _ hx with h1 | h1
    · rcases mem_dset _ _ _ _ h1 with h2 | h2
      · exact .inr (by simp [h2])
      · exact .inl h2
    · exact .inr (List.mem_cons_of_mem _ h1)

/-! ### `get_imports_map` -/

theorem getImportsMapAux_defined (m2im : List (Mod × ImportsMap)) (m2o : List (Mod × Out)) :
    ∀ (deps : List Mod) (im res : ImportsMap), getImportsMapAux m2im m2o deps im = .ok res →
      ∀ m ∈ deps, ∃ o, dget m2o m = some o := by
  intro deps
  induction deps with
  | nil => intro _ _ _ m hm; cases hm
  | cons d ds ih =>
    intro im res h m hm
    simp only [getImportsMapAux] at h
    cases hd : dget m2o d with
    | none => simp [hd] at h
    | some o =>
      simp only [hd] at h
      rcases List.mem_cons.1 hm with rfl | hm
      · exact ⟨o, hd⟩
      · exact ih _ _ h m hm

theorem getImportsMapAux_mem (m2im : List (Mod × ImportsMap)) (m2o : List (Mod × Out)) :
    ∀ (deps : List Mod) (im res : ImportsMap), getImportsMapAux m2im m2o deps im = .ok res →
      ∀ x ∈ res, x ∈ im ∨ ∃ m ∈ deps, ∃ o, dget m2o m = some o ∧
        (x = (m, o) ∨ ∃ mp, dget m2im m = some mp ∧ x ∈ mp) := by
  intro deps
  induction deps with
  | nil =>
    intro im res h x hx
    simp only [getImportsMapAux, Except.ok.injEq] at h
    subst h; exact .inl hx
  | cons d ds ih =>
    intro im res h x hx
    simp only [getImportsMapAux] at h
    cases hd : dget m2o d with
    | none => simp [hd] at h
    | some o =>
      simp only [hd] at h
      rcases ih _ _ h x hx with h1 | ⟨m, hm, o', ho', hx'⟩
      · rcases mem_dset _ _ _ _ h1 with h2 | h2
        · exact .inr ⟨d, List.mem_cons_self, o, hd, .inl h2⟩
        · cases hmp : dget m2im d with
          | none => simp only [hmp] at h2; exact .inl h2
          | some mp =>
            simp only [hmp] at h2
            rcases mem_dupdate _ _ _ h2 with h3 | h3
            · exact .inl h3
            · exact .inr ⟨d, List.mem_cons_self, o, hd, .inr ⟨mp, hmp, h3⟩⟩
      · exact .inr ⟨m, List.mem_cons_of_mem _ hm, o', ho', hx'⟩

theorem getImportsMap_defined {deps m2im m2o res} (h : getImportsMap deps m2im m2o = .ok res) :
    ∀ m ∈ deps, ∃ o, dget m2o m = some o :=
  getImportsMapAux_defined m2im m2o deps [] res h

theorem getImportsMap_mem {deps m2im m2o res} (h : getImportsMap deps m2im m2o = .ok res) :
    ∀ x ∈ res, ∃ m ∈ deps, ∃ o, dget m2o m = some o ∧
      (x = (m, o) ∨ ∃ mp, dget m2im m = some mp ∧ x ∈ mp) := by
  intro x hx
  rcases getImportsMapAux_mem m2im m2o deps [] res h x hx with h1 | h1
  · cases h1
  · exact h1

theorem mem_declaredDeps {m2o : List (Mod × Out)} {deps : List Mod} {o : Out} :
    o ∈ declaredDeps m2o deps ↔ ∃ m ∈ deps, dget m2o m = some o ∧ o ≠ .default := by
  unfold declaredDeps
  simp only [List.mem_filterMap]
  constructor
  · rintro ⟨m, hm, h⟩
    refine ⟨m, hm, ?_⟩
    cases hd : dget m2o m with
    | none => simp [hd] at h
    | some o' =>
      cases o' with
      | default => simp [hd] at h
      | pyi a b => simp only [hd, Option.some.injEq] at h; subst h; simp
  · rintro ⟨m, hm, hd, hne⟩
    refine ⟨m, hm, ?_⟩
    cases o with
    | default => exact absurd rfl hne
    | pyi a b => simp [hd]

/-! ### the dependency relation of a plan -/

/-- `Reach p s v`: `v` is a declared dep of `s`, or of a step of `p` producing a declared dep of
`s`, and so on: the transitive closure of the declared edges, starting at `s`. -/
inductive Reach (p : List Step) : Step → Out → Prop
  | direct {s : Step} {v : Out} : v ∈ s.deps → Reach p s v
  | trans {s t : Step} {v : Out} : t ∈ p → t.out ∈ s.deps → Reach p t v → Reach p s v

theorem Reach.mono {p q : List Step} (h : ∀ t ∈ p, t ∈ q) {s : Step} {v : Out} :
    Reach p s v → Reach q s v := by
  intro r
  induction r with
  | direct hv => exact .direct hv
  | trans ht hd _ ih => exact .trans (h _ ht) hd ih

/-- every declared dep of the `i`-th statement is the output of a strictly earlier statement -/
def OrderedIdx (p : List Step) : Prop :=
  ∀ i (hi : i < p.length), ∀ d ∈ p[i].deps, ∃ j, ∃ (hj : j < i), (p[j]'(Nat.lt_trans hj hi)).out = d

theorem OrderedIdx.snoc {p : List Step} {s : Step} (h : OrderedIdx p)
    (hs : ∀ d ∈ s.deps, ∃ t ∈ p, t.out = d) : OrderedIdx (p ++ [s]) := by
  intro i hi d hd
  by_cases hlt : i < p.length
  · rw [List.getElem_append_left hlt] at hd
    obtain ⟨j, hj, hjo⟩ := h i hlt d hd
    refine ⟨j, hj, ?_⟩
    rw [List.getElem_append_left (Nat.lt_trans hj hlt)]
    exact hjo
  · have hi' : i = p.length := by
      simp only [List.length_append, List.length_singleton] at hi; omega
    subst hi'
    simp only [List.getElem_concat_length] at hd
    obtain ⟨t, ht, hto⟩ := hs d hd
    obtain ⟨j, hj, hjt⟩ := List.mem_iff_getElem.1 ht
    refine ⟨j, hj, ?_⟩
    rw [List.getElem_append_left hj, hjt]
    exact hto

/-! ### the loop invariant -/

/-- the action of a yielded item agrees with its module (only CHECK→INFER is ever rewritten) -/
def ItemOK (it : Item) : Prop := it.act = .genDefault ↔ it.mod.isGen = true

def ikey (it : Item) : Nat × Bool := (it.mod.id, it.isFirst)
def skey (s : Step) : Nat × Bool := (s.mod.id, s.first)

structure Inv (done : List Item) (st : St) : Prop where
  oShape : ∀ m o, dget st.m2o m = some o →
    (o = .default ∧ m.isGen = true) ∨ (∃ b, o = .pyi m b ∧ m.isGen = false)
  oStep : ∀ m m' b, dget st.m2o m = some (.pyi m' b) →
    ∃ s ∈ st.steps, s.out = .pyi m' b ∧ dget st.m2im m = some s.imports
  imGen : ∀ m im, dget st.m2im m = some im → m.isGen = false
  closed : ∀ s ∈ st.steps, ∀ v ∈ s.reads, v = .default ∨ Reach st.steps s v
  ordered : OrderedIdx st.steps
  files : ∀ f ∈ st.files, ∃ it ∈ done, it.mod.id = f ∧ it.isFirst = false
  keys : (st.steps.map skey).Sublist (done.map ikey)
  prov : ∀ s ∈ st.steps, ∃ it ∈ done, s.mod = it.mod ∧ s.first = it.isFirst ∧ s.act = it.act ∧
    ∀ m ∈ it.deps, m.isGen = false → ∃ b, Out.pyi m b ∈ s.deps

theorem Inv.init : Inv [] St.init where
  oShape := by intro m o h; simp [St.init, dget] at h
  oStep := by intro m m' b h; simp [St.init, dget] at h
  imGen := by intro m im h; simp [St.init, dget] at h
  closed := by intro s h; simp [St.init] at h
  ordered := by intro i hi; simp [St.init] at hi
  files := by intro f h; simp [St.init] at h
  keys := by simp [St.init]
  prov := by intro s h; simp [St.init] at h

theorem Inv.weaken {done : List Item} {st : St} (it : Item) (h : Inv done st) :
    Inv (done ++ [it]) st where
  oShape := h.oShape
  oStep := h.oStep
  imGen := h.imGen
  closed := h.closed
  ordered := h.ordered
  files := by
    intro f hf
    obtain ⟨x, hx, hh⟩ := h.files f hf
    exact ⟨x, List.mem_append_left _ hx, hh⟩
  keys := by
    rw [List.map_append]
    exact h.keys.trans (List.sublist_append_left _ _)
  prov := by
    intro s hs
    obtain ⟨x, hx, hh⟩ := h.prov s hs
    exact ⟨x, List.mem_append_left _ hx, hh⟩

/-- the three outcomes of one loop iteration -/
theorem stepItem_cases {req : List Nat} {st st' : St} {it : Item}
    (h : stepItem req st it = .ok st') :
    (skipping req st = true ∧ st' = st) ∨
    (skipping req st = false ∧ it.act = .genDefault ∧
      st' = { st with m2o := dset st.m2o it.mod .default }) ∨
    (skipping req st = false ∧ it.act ≠ .genDefault ∧
      ∃ im, getImportsMap it.deps st.m2im st.m2o = .ok im ∧
        st' = { files := if it.isFirst then st.files
                         else if st.files.contains it.mod.id then st.files
                         else st.files ++ [it.mod.id]
                m2im := dset st.m2im it.mod im
                m2o := dset st.m2o it.mod (.pyi it.mod it.isFirst)
                steps := st.steps ++ [⟨it.mod, it.isFirst, it.act, declaredDeps st.m2o it.deps, im⟩] }) := by
  unfold stepItem at h
  by_cases hs : skipping req st = true
  · simp only [hs, if_true, Except.ok.injEq] at h
    exact .inl ⟨hs, h.symm⟩
  · have hs' : skipping req st = false := by simpa using hs
    simp only [hs', Bool.false_eq_true, if_false] at h
    by_cases hg : it.act = .genDefault
    · simp only [hg, if_true, Except.ok.injEq] at h
      exact .inr (.inl ⟨hs', hg, h.symm⟩)
    · simp only [hg, if_false] at h
      cases hi : getImportsMap it.deps st.m2im st.m2o with
      | error e => simp [hi] at h
      | ok im =>
        simp only [hi, Except.ok.injEq] at h
        exact .inr (.inr ⟨hs', hg, im, rfl, h.symm⟩)

theorem stepItem_inv {req : List Nat} {done : List Item} {st st' : St} {it : Item}
    (hok : ItemOK it) (hinv : Inv done st) (h : stepItem req st it = .ok st') :
    Inv (done ++ [it]) st' := by
  rcases stepItem_cases h with ⟨_, rfl⟩ | ⟨_, hg, rfl⟩ | ⟨_, hg, im, him, rfl⟩
  · exact hinv.weaken it
  · -- GENERATE_DEFAULT: only module_to_output[module] = default_output
    have hgen : it.mod.isGen = true := hok.1 hg
    have w := hinv.weaken it
    refine { w with oShape := ?_, oStep := ?_ }
    · intro m o hm
      simp only [dget_dset] at hm
      by_cases hk : it.mod = m
      · simp only [hk, if_true, Option.some.injEq] at hm
        subst hm; subst hk; exact .inl ⟨rfl, hgen⟩
      · simp only [hk, if_false] at hm
        exact hinv.oShape m o hm
    · intro m m' b hm
      simp only [dget_dset] at hm
      by_cases hk : it.mod = m
      · simp [hk] at hm
      · simp only [hk, if_false] at hm
        exact hinv.oStep m m' b hm
  · -- a build statement is written
    have hngen : it.mod.isGen = false := by
      cases hb : it.mod.isGen with
      | false => rfl
      | true => exact absurd (hok.2 hb) hg
    have hdef := getImportsMap_defined him
    have hmem := getImportsMap_mem him
    -- every declared dep is the output of an existing step
    have hdeps : ∀ d ∈ declaredDeps st.m2o it.deps, ∃ t ∈ st.steps, t.out = d := by
      intro d hd
      obtain ⟨m, _, hmo, hne⟩ := mem_declaredDeps.1 hd
      cases d with
      | default => exact absurd rfl hne
      | pyi a b =>
        obtain ⟨s, hs, hso, _⟩ := hinv.oStep m a b hmo
        exact ⟨s, hs, hso⟩
    refine ⟨?_, ?_, ?_, ?_, ?_, ?_, ?_, ?_⟩
    · -- oShape
      intro m o hm
      simp only [dget_dset] at hm
      by_cases hk : it.mod = m
      · simp only [hk, if_true, Option.some.injEq] at hm
        subst hm; subst hk; exact .inr ⟨_, rfl, hngen⟩
      · simp only [hk, if_false] at hm
        exact hinv.oShape m o hm
    · -- oStep
      intro m m' b hm
      simp only [dget_dset] at hm ⊢
      by_cases hk : it.mod = m
      · simp only [hk, if_true, Option.some.injEq, Out.pyi.injEq] at hm ⊢
        obtain ⟨rfl, rfl⟩ := hm
        refine ⟨_, List.mem_append_right _ (List.mem_singleton.2 rfl), ?_, rfl⟩
        simp [Step.out]
      · simp only [hk, if_false] at hm ⊢
        obtain ⟨s, hs, hso, hsi⟩ := hinv.oStep m m' b hm
        exact ⟨s, List.mem_append_left _ hs, hso, hsi⟩
    · -- imGen
      intro m im' hm
      simp only [dget_dset] at hm
      by_cases hk : it.mod = m
      · subst hk; exact hngen
      · simp only [hk, if_false] at hm
        exact hinv.imGen m im' hm
    · -- closed
      intro s hs v hv
      rcases List.mem_append.1 hs with hs | hs
      · rcases hinv.closed s hs v hv with h1 | h1
        · exact .inl h1
        · exact .inr (h1.mono fun t ht => List.mem_append_left _ ht)
      · have hs' := List.mem_singleton.1 hs
        subst hs'
        simp only [Step.reads, List.mem_map] at hv
        obtain ⟨x, hx, rfl⟩ := hv
        obtain ⟨m, hm, o, hmo, hx'⟩ := hmem x hx
        rcases hx' with rfl | ⟨mp, hmp, hxmp⟩
        · -- the entry for the dep itself
          by_cases hod : o = .default
          · exact .inl hod
          · exact .inr (.direct (mem_declaredDeps.2 ⟨m, hm, hmo, hod⟩))
        · -- an entry inherited from the dep's own imports map
          have hmg := hinv.imGen m mp hmp
          rcases hinv.oShape m o hmo with ⟨_, hgen'⟩ | ⟨b, rfl, _⟩
          · rw [hmg] at hgen'; cases hgen'
          · obtain ⟨t, ht, hto, hti⟩ := hinv.oStep m m b hmo
            rw [hmp, Option.some.injEq] at hti
            have hvt : x.2 ∈ t.reads := by
              simp only [Step.reads, List.mem_map]
              exact ⟨x, hti ▸ hxmp, rfl⟩
            have hdecl : t.out ∈ declaredDeps st.m2o it.deps :=
              mem_declaredDeps.2 ⟨m, hm, hto ▸ hmo, by rw [hto]; simp⟩
            rcases hinv.closed t ht x.2 hvt with h1 | h1
            · exact .inl h1
            · exact .inr (.trans (List.mem_append_left _ ht) hdecl
                (h1.mono fun u hu => List.mem_append_left _ hu))
    · -- ordered
      exact hinv.ordered.snoc hdeps
    · -- files
      intro f hf
      have hold : f ∈ st.files → ∃ x ∈ done ++ [it], x.mod.id = f ∧ x.isFirst = false := by
        intro hf
        obtain ⟨x, hx, hh⟩ := hinv.files f hf
        exact ⟨x, List.mem_append_left _ hx, hh⟩
      cases hfi : it.isFirst with
      | true => simp only [hfi, if_true] at hf; exact hold hf
      | false =>
        simp only [hfi, Bool.false_eq_true, if_false] at hf
        by_cases hc : st.files.contains it.mod.id = true
        · simp only [hc, if_true] at hf; exact hold hf
        · simp only [hc] at hf
          rcases List.mem_append.1 hf with hf | hf
          · exact hold hf
          · exact ⟨it, List.mem_append_right _ (List.mem_singleton.2 rfl),
              (List.mem_singleton.1 hf).symm, hfi⟩
    · -- keys
      simp only [List.map_append, List.map_cons, List.map_nil]
      exact List.Sublist.append hinv.keys (by simp [skey, ikey])
    · -- prov
      intro s hs
      rcases List.mem_append.1 hs with hs | hs
      · obtain ⟨x, hx, hh⟩ := hinv.prov s hs
        exact ⟨x, List.mem_append_left _ hx, hh⟩
      · have hs' := List.mem_singleton.1 hs
        subst hs'
        refine ⟨it, List.mem_append_right _ (List.mem_singleton.2 rfl), rfl, rfl, rfl, ?_⟩
        intro m hm hmg
        obtain ⟨o, hmo⟩ := hdef m hm
        rcases hinv.oShape m o hmo with ⟨_, hgen'⟩ | ⟨b, rfl, _⟩
        · rw [hmg] at hgen'; cases hgen'
        · exact ⟨b, mem_declaredDeps.2 ⟨m, hm, hmo, by simp⟩⟩

theorem runItems_inv {req : List Nat} : ∀ (items done : List Item) (st st' : St),
    (∀ it ∈ items, ItemOK it) → Inv done st → runItems req items st = .ok st' →
    Inv (done ++ items) st' := by
  intro items
  induction items with
  | nil =>
    intro done st st' _ hinv h
    simp only [runItems, Except.ok.injEq] at h
    subst h; simpa using hinv
  | cons it r ih =>
    intro done st st' hok hinv h
    simp only [runItems] at h
    cases hs : stepItem req st it with
    | error e => simp [hs] at h
    | ok st1 =>
      simp only [hs] at h
      have := ih (done ++ [it]) st1 st' (fun x hx => hok x (List.mem_cons_of_mem _ hx))
        (stepItem_inv (hok it List.mem_cons_self) hinv hs) h
      simpa using this

/-- build statements are only ever appended -/
theorem stepItem_steps_prefix {req : List Nat} {st st' : St} {it : Item}
    (h : stepItem req st it = .ok st') : ∃ more, st'.steps = st.steps ++ more := by
  rcases stepItem_cases h with ⟨_, rfl⟩ | ⟨_, _, rfl⟩ | ⟨_, _, im, _, rfl⟩
  · exact ⟨[], by simp⟩
  · exact ⟨[], by simp⟩
  · exact ⟨_, rfl⟩

theorem runItems_steps_prefix {req : List Nat} : ∀ (items : List Item) (st st' : St),
    runItems req items st = .ok st' → ∃ more, st'.steps = st.steps ++ more := by
  intro items
  induction items with
  | nil =>
    intro st st' h
    simp only [runItems, Except.ok.injEq] at h
    subst h; exact ⟨[], by simp⟩
  | cons it r ih =>
    intro st st' h
    simp only [runItems] at h
    cases hs : stepItem req st it with
    | error e => simp [hs] at h
    | ok st1 =>
      simp only [hs] at h
      obtain ⟨m1, h1⟩ := stepItem_steps_prefix hs
      obtain ⟨m2, h2⟩ := ih st1 st' h
      exact ⟨m1 ++ m2, by rw [h2, h1, List.append_assoc]⟩

theorem runItems_append {req : List Nat} : ∀ (a b : List Item) (st st' : St),
    runItems req (a ++ b) st = .ok st' →
    ∃ st1, runItems req a st = .ok st1 ∧ runItems req b st1 = .ok st' := by
  intro a
  induction a with
  | nil => intro b st st' h; exact ⟨st, rfl, h⟩
  | cons it r ih =>
    intro b st st' h
    simp only [List.cons_append, runItems] at h ⊢
    cases hs : stepItem req st it with
    | error e => simp [hs] at h
    | ok st1 =>
      simp only [hs] at h ⊢
      exact ih b st1 st' h

/-! ### `yield_sorted_modules` -/

theorem moduleAction_gen (req : List Nat) (m : Mod) :
    moduleAction req m = .genDefault ↔ m.isGen = true := by
  unfold moduleAction
  cases h : m.isGen
  · simp only [Bool.false_eq_true, if_false]
    split <;> simp
  · simp

theorem firstAct_gen (a : Action) : firstAct a = .genDefault ↔ a = .genDefault := by
  cases a <;> simp [firstAct]

theorem moduleAction_check {req : List Nat} {m : Mod} (h : moduleAction req m = .check) :
    m.id ∈ req := by
  unfold moduleAction at h
  cases hg : m.isGen
  · simp only [hg, Bool.false_eq_true, if_false] at h
    by_cases hr : m.id ∈ req
    · exact hr
    · simp [hr] at h
  · simp [hg] at h

/-- what is known about one yielded item -/
structure FromGroup (req : List Nat) (g : List Mod × List Mod) (it : Item) : Prop where
  mem : it.mod ∈ g.1
  ok : ItemOK it
  check : it.act = .check → it.mod.id ∈ req ∧ it.isFirst = false
  second : it.isFirst = false → g.1.length ≠ 1 → it.deps = g.2 ++ g.1
  firstLen : it.isFirst = true → g.1.length ≠ 1

theorem yieldGroup_multi (req : List Nat) (g : List Mod × List Mod) (h : g.1.length ≠ 1) :
    yieldGroup req g =
      g.1.map (fun m => ⟨m, firstAct (moduleAction req m), g.2, .first⟩) ++
      (g.1.filter (fun m => decide (moduleAction req m ≠ .genDefault))).map
        (fun m => ⟨m, moduleAction req m, g.2 ++ g.1, .second⟩) := by
  unfold yieldGroup
  split
  · rename_i m hm; rw [hm] at h; simp at h
  · rfl

theorem yieldGroup_single (req : List Nat) (g : List Mod × List Mod) (m : Mod) (h : g.1 = [m]) :
    yieldGroup req g = [⟨m, moduleAction req m, g.2, .single⟩] := by
  unfold yieldGroup
  rw [h]

theorem length_one {α : Type} (l : List α) (h : l.length = 1) : ∃ a, l = [a] := by
  match l, h with
  | [a], _ => exact ⟨a, rfl⟩

theorem yieldGroup_from (req : List Nat) (g : List Mod × List Mod) :
    ∀ it ∈ yieldGroup req g, FromGroup req g it := by
  intro it hit
  by_cases hl : g.1.length = 1
  · obtain ⟨m, hm⟩ := length_one _ hl
    rw [yieldGroup_single req g m hm, List.mem_singleton] at hit
    subst hit
    refine ⟨by simp [hm], ?_, ?_, ?_, ?_⟩
    · exact moduleAction_gen req m
    · intro hc; exact ⟨moduleAction_check hc, by simp [Item.isFirst]⟩
    · intro _ hne; exact absurd hl hne
    · intro hf; simp [Item.isFirst] at hf
  · rw [yieldGroup_multi req g hl, List.mem_append] at hit
    rcases hit with hit | hit
    · obtain ⟨m, hm, rfl⟩ := List.mem_map.1 hit
      refine ⟨hm, ?_, ?_, ?_, ?_⟩
      · exact (firstAct_gen _).trans (moduleAction_gen req m)
      · intro hc
        exfalso
        revert hc
        cases moduleAction req m <;> simp [firstAct]
      · intro hf; simp [Item.isFirst] at hf
      · intro _; exact hl
    · obtain ⟨m, hm, rfl⟩ := List.mem_map.1 hit
      have hm' := (List.mem_filter.1 hm).1
      refine ⟨hm', ?_, ?_, ?_, ?_⟩
      · exact moduleAction_gen req m
      · intro hc; exact ⟨moduleAction_check hc, by simp [Item.isFirst]⟩
      · intro _ _; rfl
      · intro hf; simp [Item.isFirst] at hf

theorem yieldSorted_from (req : List Nat) (gs : List (List Mod × List Mod)) :
    ∀ it ∈ yieldSorted req gs, ∃ g ∈ gs, FromGroup req g it := by
  intro it hit
  obtain ⟨g, hg, hig⟩ := List.mem_flatMap.1 hit
  exact ⟨g, hg, yieldGroup_from req g it hig⟩

/-- every module that is not GENERATE_DEFAULT has a final (single or second pass) item -/
theorem yieldGroup_final (req : List Nat) (g : List Mod × List Mod) (m : Mod) (hm : m ∈ g.1)
    (hg : m.isGen = false) :
    ∃ it ∈ yieldGroup req g, it.mod = m ∧ it.act = moduleAction req m ∧ it.isFirst = false := by
  by_cases hl : g.1.length = 1
  · obtain ⟨a, ha⟩ := length_one _ hl
    rw [yieldGroup_single req g a ha]
    rw [ha, List.mem_singleton] at hm
    subst hm
    exact ⟨_, List.mem_singleton.2 rfl, rfl, rfl, by simp [Item.isFirst]⟩
  · rw [yieldGroup_multi req g hl]
    refine ⟨⟨m, moduleAction req m, g.2 ++ g.1, .second⟩, ?_, rfl, rfl, by simp [Item.isFirst]⟩
    apply List.mem_append_right
    apply List.mem_map.2
    refine ⟨m, List.mem_filter.2 ⟨hm, ?_⟩, rfl⟩
    have : moduleAction req m ≠ .genDefault := by
      intro h; rw [(moduleAction_gen req m).1 h] at hg; cases hg
    simpa using this

/-- the item keys of one group: a sublist of (first-pass keys ++ final keys) of its modules -/
theorem yieldGroup_keys (req : List Nat) (g : List Mod × List Mod) :
    ((yieldGroup req g).map ikey).Sublist
      (g.1.map (fun m => (m.id, true)) ++ g.1.map (fun m => (m.id, false))) := by
  by_cases hl : g.1.length = 1
  · obtain ⟨a, ha⟩ := length_one _ hl
    rw [yieldGroup_single req g a ha, ha]
    simp [ikey, Item.isFirst]
  · rw [yieldGroup_multi req g hl, List.map_append]
    apply List.Sublist.append
    · simp only [List.map_map]
      exact List.Sublist.refl _ |>.trans (by
        have : (ikey ∘ fun m => (⟨m, firstAct (moduleAction req m), g.2, .first⟩ : Item)) =
            fun m : Mod => (m.id, true) := by
          funext m; simp [ikey, Item.isFirst]
        rw [this]; exact List.Sublist.refl _)
    · simp only [List.map_map]
      have : (ikey ∘ fun m => (⟨m, moduleAction req m, g.2 ++ g.1, .second⟩ : Item)) =
          fun m : Mod => (m.id, false) := by
        funext m; simp [ikey, Item.isFirst]
      rw [this]
      exact List.Sublist.map _ List.filter_sublist

end PytypeModel.Plan
