/-
C11 proofs, part 1: basic facts about `den`, Python equality, the UnionType constructor and JoinTypes.
-/
import PytypeModel.Pytd.Den
import PytypeModel.Pytd.Guards

namespace PytypeModel.Pytd

/-! ### unfolding `den` -/

@[simp] theorem den_any (S : Sem) (v) : den S .any v = True := by simp [den]
@[simp] theorem den_nothing (S : Sem) (v) : den S .nothing v = False := by simp [den]
@[simp] theorem den_named (S : Sem) (n v) : den S (.named n) v = S.sub v.clsOf n := by simp [den]
@[simp] theorem den_cls (S : Sem) (n v) : den S (.cls n) v = S.sub v.clsOf n := by simp [den]
@[simp] theorem den_late (S : Sem) (n v) : den S (.late n) v = S.sub v.clsOf n := by simp [den]
@[simp] theorem den_typeParam (S : Sem) (n s v) : den S (.typeParam n s) v = S.tp n s v := by simp [den]
@[simp] theorem den_union (S : Sem) (ts v) : den S (.union ts) v = denAny S ts v := by simp [den]
@[simp] theorem den_annotated (S : Sem) (t a v) : den S (.annotated t a) v = den S t v := by simp [den]
theorem den_generic (S : Sem) (b ps v) :
    den S (.generic b ps) v = (den S b v ∧ denSlots S ps v.slots) := by simp [den]
theorem den_tuple (S : Sem) (b ps v) :
    den S (.tuple b ps) v = (den S b v ∧ ∃ es, v.items = some es ∧ denTup S ps es) := by simp [den]
theorem den_callable (S : Sem) (b ps v) :
    den S (.callable b ps) v = (den S b v ∧ ∀ r, r ∈ v.results → denLast S ps r) := by simp [den]
@[simp] theorem den_literal (S : Sem) (l v) : den S (.literal l) v = v.isLit l := by simp [den]

theorem denAny_iff (S : Sem) (ts : List Ty) (v : Val) : denAny S ts v ↔ ∃ t, t ∈ ts ∧ den S t v := by
  induction ts with
  | nil => simp [denAny]
  | cons t ts ih => simp [denAny, ih]

theorem denAny_append (S : Sem) (as bs : List Ty) (v : Val) :
    denAny S (as ++ bs) v ↔ denAny S as v ∨ denAny S bs v := by
  simp only [denAny_iff, List.mem_append]
  constructor
  · rintro ⟨t, h | h, hd⟩
    · exact Or.inl ⟨t, h, hd⟩
    · exact Or.inr ⟨t, h, hd⟩
  · rintro (⟨t, h, hd⟩ | ⟨t, h, hd⟩)
    · exact ⟨t, Or.inl h, hd⟩
    · exact ⟨t, Or.inr h, hd⟩

theorem TyLe.refl (S : Sem) (a : Ty) : TyLe S a a := fun _ h => h
theorem TyLe.trans {S : Sem} {a b c : Ty} (h1 : TyLe S a b) (h2 : TyLe S b c) : TyLe S a c :=
  fun v h => h2 v (h1 v h)

/-! ### literals -/

/-- the Python value a literal compares as -/
def Lit.key : Lit → Lit
  | .bool b => .int (if b then 1 else 0)
  | l => l

theorem Lit.pyEq_iff_key : ∀ a b : Lit, a.pyEq b = true ↔ a.key = b.key
  | .bool a, .bool b => by cases a <;> cases b <;> simp [Lit.pyEq, Lit.key]
  | .int a, .bool b => by cases b <;> simp [Lit.pyEq, Lit.key]
  | .bool a, .int b => by cases a <;> simp [Lit.pyEq, Lit.key] <;> exact ⟨Eq.symm, Eq.symm⟩
  | .int a, .int b => by simp [Lit.pyEq, Lit.key]
  | .str a, b => by cases b <;> simp [Lit.pyEq, Lit.key]
  | .enumMember c n, b => by cases b <;> simp [Lit.pyEq, Lit.key]
  | .int a, .str _ => by simp [Lit.pyEq, Lit.key]
  | .int a, .enumMember _ _ => by simp [Lit.pyEq, Lit.key]
  | .bool a, .str _ => by simp [Lit.pyEq, Lit.key]
  | .bool a, .enumMember _ _ => by simp [Lit.pyEq, Lit.key]

theorem Lit.pyEq_symm (a b : Lit) (h : a.pyEq b = true) : b.pyEq a = true :=
  (Lit.pyEq_iff_key b a).2 ((Lit.pyEq_iff_key a b).1 h).symm

theorem Lit.pyEq_trans (a b c : Lit) (h1 : a.pyEq b = true) (h2 : b.pyEq c = true) : a.pyEq c = true :=
  (Lit.pyEq_iff_key a c).2 (((Lit.pyEq_iff_key a b).1 h1).trans ((Lit.pyEq_iff_key b c).1 h2))

/-! ### Python equality is sound for `den` -/

theorem pyEq_nameStr : ∀ (a b : Ty), a.pyEq b = true → a.nameStr = b.nameStr
  | .any, b, h => by cases b <;> simp_all [Ty.pyEq, Ty.nameStr]
  | .nothing, b, h => by cases b <;> simp_all [Ty.pyEq, Ty.nameStr]
  | .named n, b, h => by cases b <;> simp_all [Ty.pyEq, Ty.nameStr]
  | .cls n, b, h => by cases b <;> simp_all [Ty.pyEq, Ty.nameStr]
  | .late n, b, h => by cases b <;> simp_all [Ty.pyEq, Ty.nameStr]
  | .typeParam n s, b, h => by cases b <;> simp_all [Ty.pyEq, Ty.nameStr]
  | .literal l, b, h => by cases b <;> simp_all [Ty.pyEq, Ty.nameStr]
  | .annotated t a, b, h => by cases b <;> simp_all [Ty.pyEq, Ty.nameStr]
  | .union as, b, h => by cases b <;> simp_all [Ty.pyEq, Ty.nameStr]
  | .generic b1 p1, b, h => by
    cases b <;> simp_all [Ty.pyEq, Ty.nameStr]
    exact pyEq_nameStr _ _ h.1
  | .tuple b1 p1, b, h => by
    cases b <;> simp_all [Ty.pyEq, Ty.nameStr]
    exact pyEq_nameStr _ _ h.1
  | .callable b1 p1, b, h => by
    cases b <;> simp_all [Ty.pyEq, Ty.nameStr]
    exact pyEq_nameStr _ _ h.1

mutual
theorem pyEq_den (S : Sem) : ∀ (a b : Ty), a.pyEq b = true → ∀ v, (den S a v ↔ den S b v)
  | .any, b, h, v => by cases b <;> simp_all [Ty.pyEq]
  | .nothing, b, h, v => by cases b <;> simp_all [Ty.pyEq]
  | .named n, b, h, v => by cases b <;> simp_all [Ty.pyEq]
  | .cls n, b, h, v => by cases b <;> simp_all [Ty.pyEq]
  | .late n, b, h, v => by cases b <;> simp_all [Ty.pyEq]
  | .typeParam n s, b, h, v => by cases b <;> simp_all [Ty.pyEq]
  | .literal l, b, h, v => by
    cases b <;> simp_all [Ty.pyEq]
    rename_i l2
    cases v with
    | inst c s => simp [Val.isLit]
    | lit l' =>
      simp only [Val.isLit]
      constructor
      · intro h1; exact Lit.pyEq_trans _ _ _ (Lit.pyEq_symm _ _ h) h1
      · intro h1; exact Lit.pyEq_trans _ _ _ h h1
  | .annotated t a, b, h, v => by
    cases b <;> simp_all [Ty.pyEq]
    exact pyEq_den S _ _ h.1 v
  | .generic b1 p1, b, h, v => by
    cases b <;> simp_all [Ty.pyEq]
    rw [den_generic, den_generic, pyEqList_slots S _ _ h.2, pyEq_den S _ _ h.1 v]
  | .tuple b1 p1, b, h, v => by
    cases b <;> simp_all [Ty.pyEq]
    rw [den_tuple, den_tuple, pyEq_den S _ _ h.1 v]
    have := pyEqList_tup S _ _ h.2
    simp [this]
  | .callable b1 p1, b, h, v => by
    cases b <;> simp_all [Ty.pyEq]
    rw [den_callable, den_callable, pyEq_den S _ _ h.1 v]
    have := pyEqList_last S _ _ h.2
    simp [this]
  | .union as, b, h, v => by
    cases b <;> simp_all [Ty.pyEq]
    rename_i bs
    constructor
    · exact pyEqSub_den S as bs h.1 v
    · intro hb
      obtain ⟨t, ht, hd⟩ := (denAny_iff S bs v).1 hb
      exact pyEqMemL_den S as t (h.2 t ht) v hd
theorem pyEqList_slots (S : Sem) : ∀ (p q : List Ty), pyEqList p q = true → ∀ ss, denSlots S p ss = denSlots S q ss
  | [], [], _, ss => rfl
  | [], _ :: _, h, _ => by simp [pyEqList] at h
  | _ :: _, [], h, _ => by simp [pyEqList] at h
  | a :: as, b :: bs, h, ss => by
    simp [pyEqList] at h
    cases ss with
    | nil => simp [denSlots]
    | cons es ess =>
      simp only [denSlots]
      rw [pyEqList_slots S as bs h.2 ess]
      have := pyEq_den S a b h.1
      simp [this]
theorem pyEqList_tup (S : Sem) : ∀ (p q : List Ty), pyEqList p q = true → ∀ es, denTup S p es = denTup S q es
  | [], [], _, es => rfl
  | [], _ :: _, h, _ => by simp [pyEqList] at h
  | _ :: _, [], h, _ => by simp [pyEqList] at h
  | a :: as, b :: bs, h, es => by
    simp [pyEqList] at h
    cases es with
    | nil => simp [denTup]
    | cons e es =>
      simp only [denTup]
      rw [pyEqList_tup S as bs h.2 es]
      have := pyEq_den S a b h.1 e
      simp [this]
theorem pyEqList_last (S : Sem) : ∀ (p q : List Ty), pyEqList p q = true → ∀ v, denLast S p v = denLast S q v
  | [], [], _, v => rfl
  | [], _ :: _, h, _ => by simp [pyEqList] at h
  | _ :: _, [], h, _ => by simp [pyEqList] at h
  | a :: as, b :: bs, h, v => by
    simp [pyEqList] at h
    cases as with
    | nil =>
      cases bs with
      | nil => simp [denLast]; exact pyEq_den S a b h.1 v
      | cons _ _ => simp [pyEqList] at h
    | cons a' as' =>
      cases bs with
      | nil => simp [pyEqList] at h
      | cons b' bs' =>
        simp only [denLast]
        exact pyEqList_last S (a' :: as') (b' :: bs') h.2 v
theorem pyEqSub_den (S : Sem) : ∀ (as bs : List Ty), pyEqSub as bs = true → ∀ v, denAny S as v → denAny S bs v
  | [], _, _, v, h => by simp [denAny] at h
  | a :: as, bs, h, v, hd => by
    simp [pyEqSub] at h
    simp only [denAny] at hd
    cases hd with
    | inl h1 =>
      obtain ⟨b, hb, he⟩ := h.1
      exact (denAny_iff S bs v).2 ⟨b, hb, (pyEq_den S a b he v).1 h1⟩
    | inr h2 => exact pyEqSub_den S as bs h.2 v h2
theorem pyEqMemL_den (S : Sem) : ∀ (as : List Ty) (b : Ty), pyEqMemL as b = true → ∀ v, den S b v → denAny S as v
  | [], _, h, _, _ => by simp [pyEqMemL] at h
  | a :: as, b, h, v, hd => by
    simp [pyEqMemL] at h
    simp only [denAny]
    cases h with
    | inl h1 => exact Or.inl ((pyEq_den S a b h1 v).2 hd)
    | inr h2 => exact Or.inr (pyEqMemL_den S as b h2 v hd)
end

/-! ### dedup, flatten, the union constructor -/

theorem pyMem_den (S : Sem) (seen : List Ty) (t : Ty) (h : pyMem seen t = true) (v : Val) (hd : den S t v) :
    denAny S seen v := by
  simp [pyMem] at h
  obtain ⟨s, hs, he⟩ := h
  exact (denAny_iff S seen v).2 ⟨s, hs, (pyEq_den S s t he v).2 hd⟩

theorem dedupAux_sub (seen : List Ty) : ∀ ts t, t ∈ dedupAux seen ts → t ∈ ts := by
  intro ts
  induction ts generalizing seen with
  | nil => simp [dedupAux]
  | cons a ts ih =>
    intro t h
    simp only [dedupAux] at h
    split at h
    · exact List.mem_cons_of_mem _ (ih seen t h)
    · cases h with
      | head => exact List.mem_cons_self
      | tail _ h => exact List.mem_cons_of_mem _ (ih _ t h)

theorem dedupAux_den (S : Sem) (v : Val) : ∀ ts seen, denAny S ts v → denAny S seen v ∨ denAny S (dedupAux seen ts) v := by
  intro ts
  induction ts with
  | nil => intro seen h; simp [denAny] at h
  | cons a ts ih =>
    intro seen h
    simp only [denAny] at h
    simp only [dedupAux]
    split
    · rename_i hm
      cases h with
      | inl h1 => exact Or.inl (pyMem_den S seen a hm v h1)
      | inr h2 => exact ih seen h2
    · cases h with
      | inl h1 => exact Or.inr (by simp [denAny, h1])
      | inr h2 =>
        cases ih (a :: seen) h2 with
        | inl h3 =>
          simp only [denAny] at h3
          cases h3 with
          | inl h4 => exact Or.inr (by simp [denAny, h4])
          | inr h4 => exact Or.inl h4
        | inr h3 => exact Or.inr (by simp [denAny, h3])

theorem dedupPy_den (S : Sem) (ts : List Ty) (v : Val) : denAny S (dedupPy ts) v ↔ denAny S ts v := by
  constructor
  · intro h
    obtain ⟨t, ht, hd⟩ := (denAny_iff S _ v).1 h
    exact (denAny_iff S _ v).2 ⟨t, dedupAux_sub [] ts t ht, hd⟩
  · intro h
    cases dedupAux_den S v ts [] h with
    | inl h1 => simp [denAny] at h1
    | inr h1 => exact h1

theorem dedupPy_sub (ts : List Ty) : ∀ t, t ∈ dedupPy ts → t ∈ ts := dedupAux_sub [] ts

theorem flattenUnionMembers_den (S : Sem) (v : Val) : ∀ ts, denAny S (flattenUnionMembers ts) v ↔ denAny S ts v := by
  intro ts
  induction ts with
  | nil => simp [flattenUnionMembers]
  | cons a ts ih =>
    cases a <;> simp [flattenUnionMembers, denAny, ih, denAny_append]

theorem mkUnion_den (S : Sem) (ts : List Ty) (v : Val) : den S (mkUnion ts) v ↔ denAny S ts v := by
  simp [mkUnion, dedupPy_den, flattenUnionMembers_den]

mutual
theorem flatTy_den (S : Sem) (v : Val) : ∀ t, denAny S (flatTy t) v ↔ den S t v
  | .union ts => by simp [flatTy]; exact flatList_den S v ts
  | .nothing => by simp [flatTy, denAny]
  | .any => by simp [flatTy, denAny]
  | .named _ => by simp [flatTy, denAny]
  | .cls _ => by simp [flatTy, denAny]
  | .late _ => by simp [flatTy, denAny]
  | .typeParam _ _ => by simp [flatTy, denAny]
  | .generic _ _ => by simp [flatTy, denAny]
  | .tuple _ _ => by simp [flatTy, denAny]
  | .callable _ _ => by simp [flatTy, denAny]
  | .literal _ => by simp [flatTy, denAny]
  | .annotated _ _ => by simp [flatTy, denAny]
theorem flatList_den (S : Sem) (v : Val) : ∀ ts, denAny S (flatList ts) v ↔ denAny S ts v
  | [] => by simp [flatList]
  | t :: ts => by
    simp only [flatList, denAny_append, denAny]
    rw [flatTy_den S v t, flatList_den S v ts]
end

/-! ### JoinTypes is exact -/

theorem any_isAny_den (S : Sem) (ms : List Ty) (h : ms.any Ty.isAny = true) (v : Val) : denAny S ms v := by
  simp at h
  obtain ⟨t, ht, ha⟩ := h
  cases t <;> simp [Ty.isAny] at ha
  exact (denAny_iff S ms v).2 ⟨.any, ht, by simp⟩

/-- `den (JoinTypes ts) = ⋃ den t` -/
theorem joinTypes_den (S : Sem) (ts : List Ty) (v : Val) : den S (joinTypes ts) v ↔ denAny S ts v := by
  have key : denAny S (dedupPy (flatList ts)) v ↔ denAny S ts v := by
    rw [dedupPy_den, flatList_den]
  unfold joinTypes joinCore
  split
  · rename_i t heq
    rw [heq] at key
    simpa [denAny] using key
  · rename_i ms _
    split
    · rename_i hany
      have hv : denAny S (dedupPy (flatList ts)) v := any_isAny_den S _ hany v
      split
      · simp [denAny]; exact key.1 hv
      · simp; exact key.1 hv
    · split
      · rename_i hemp
        simp at hemp
        rw [hemp] at key
        simpa [denAny] using key
      · rw [mkUnion_den]; exact key

theorem joinTypes_le (S : Sem) (ts : List Ty) (t : Ty) (h : t ∈ ts) : TyLe S t (joinTypes ts) :=
  fun v hd => (joinTypes_den S ts v).2 ((denAny_iff S ts v).2 ⟨t, h, hd⟩)

end PytypeModel.Pytd
