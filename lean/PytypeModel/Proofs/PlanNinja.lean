import PytypeModel.Plan.Ninja

/-! `escape_ninja_path` against ninja's reader, `.imports` lines (helper lemmas for Props/C19). -/
namespace PytypeModel.Ninja

theorem isSpecial_false {c : Char} (h : isSpecial c = false) :
    c ≠ '\n' ∧ c ≠ ' ' ∧ c ≠ ':' ∧ c ≠ '$' := by
  simpa [isSpecial, and_assoc] using h

theorem isSpecial_true {c : Char} (h : isSpecial c = true) :
    c = '\n' ∨ c = ' ' ∨ c = ':' ∨ c = '$' := by
  simpa [isSpecial, or_assoc] using h

theorem wellEscaped_escape : ∀ p : List Char, wellEscaped (escape p) = true
  | [] => rfl
  | c :: cs => by
    have ih := wellEscaped_escape cs
    cases hs : isSpecial c with
    | true => simp [escape, hs, wellEscaped, ih]
    | false =>
      have hne : c ≠ '$' := (isSpecial_false hs).2.2.2
      simp only [escape, hs, Bool.false_eq_true, if_false]
      cases he : escape cs with
      | nil => simp [wellEscaped, hs]
      | cons d r =>
        rw [he] at ih
        simp [wellEscaped, hne, hs, ih]

/-- the characters of `p` that no escaping can carry through ninja's reader -/
def Carry (path : Bool) (p : List Char) : Prop :=
  ∀ c ∈ p, c ≠ '\n' ∧ c ≠ '\r' ∧ c ≠ Char.ofNat 0 ∧ (path = true → c ≠ '|')

/-- what follows the token: end of input, a newline, or (for paths) any path terminator -/
def Ends (path : Bool) (rest : List Char) : Prop :=
  rest = [] ∨ ∃ c cs, rest = c :: cs ∧ (c = '\n' ∨ (path = true ∧ isPathEnd c = true))

theorem evalAux_end (path : Bool) (rest acc : List Char) (h : Ends path rest) :
    evalAux path .norm rest acc = .ok (acc.reverse, rest) := by
  rcases h with rfl | ⟨c, cs, rfl, hc⟩
  · rfl
  · rcases hc with rfl | ⟨rfl, hc⟩
    · simp [evalAux, trans, transNorm]
    · have hc' : c = ' ' ∨ c = ':' ∨ c = '|' ∨ c = '\n' := by
        simpa [isPathEnd, or_assoc] using hc
      rcases hc' with rfl | rfl | rfl | rfl <;> simp [evalAux, trans, transNorm, isPathEnd]

theorem evalAux_escape (path : Bool) : ∀ (p rest acc : List Char), Carry path p → Ends path rest →
    evalAux path .norm (escape p ++ rest) acc = .ok (acc.reverse ++ p, rest)
  | [], rest, acc, _, he => by simpa [escape] using evalAux_end path rest acc he
  | c :: cs, rest, acc, hc, he => by
    have hcs : Carry path cs := fun x hx => hc x (List.mem_cons_of_mem _ hx)
    obtain ⟨h1, h2, h3, h4⟩ := hc c List.mem_cons_self
    cases hs : isSpecial c with
    | true =>
      have ih := evalAux_escape path cs rest (c :: acc) hcs he
      have hc' : c = ' ' ∨ c = ':' ∨ c = '$' := by
        rcases isSpecial_true hs with h | h | h | h
        · exact absurd h h1
        · exact .inl h
        · exact .inr (.inl h)
        · exact .inr (.inr h)
      simp only [escape, hs, if_true, List.cons_append]
      rw [evalAux]
      simp only [trans, transNorm, if_true]
      rw [evalAux]
      rcases hc' with rfl | rfl | rfl <;> simp [trans, ih]
    | false =>
      have ih := evalAux_escape path cs rest (c :: acc) hcs he
      obtain ⟨_, n2, n3, n4⟩ := isSpecial_false hs
      simp only [escape, hs, Bool.false_eq_true, if_false, List.cons_append]
      rw [evalAux]
      have : transNorm path c (escape cs ++ rest).head? = .go .norm (some c) := by
        unfold transNorm
        simp only [n4, h1, h2, h3, if_false]
        cases path with
        | false => simp
        | true =>
          have := h4 rfl
          simp [isPathEnd, n2, n3, h1, this]
      simp only [trans, this]
      simpa using ih

theorem escape_head (p : List Char) : ∀ c, (escape p).head? = some c → c ≠ ' ' := by
  intro c h
  cases p with
  | nil => simp [escape] at h
  | cons d ds =>
    cases hs : isSpecial d with
    | true =>
      simp only [escape, hs, if_true, List.head?_cons, Option.some.injEq] at h
      rw [← h]; decide
    | false =>
      simp only [escape, hs, Bool.false_eq_true, if_false, List.head?_cons, Option.some.injEq] at h
      rw [← h]; exact (isSpecial_false hs).2.1

theorem splitFirstSpace_append : ∀ (k v : List Char), (∀ c ∈ k, c ≠ ' ') →
    splitFirstSpace (k ++ ' ' :: v) = some (k, v)
  | [], v, _ => by simp [splitFirstSpace]
  | c :: k, v, h => by
    have hc : c ≠ ' ' := h c List.mem_cons_self
    have ih := splitFirstSpace_append k v fun x hx => h x (List.mem_cons_of_mem _ hx)
    simp [splitFirstSpace, hc, ih]

theorem strip_id (a b : Char) (mid : List Char) (ha : isPyWs a = false) (hb : isPyWs b = false) :
    strip (a :: mid ++ [b]) = a :: mid ++ [b] := by
  unfold strip
  have h1 : (a :: mid ++ [b]).dropWhile isPyWs = a :: mid ++ [b] := by
    simp [ha]
  rw [h1]
  have h2 : (a :: mid ++ [b]).reverse = b :: (a :: mid).reverse := by simp
  rw [h2]
  have h3 : (b :: (a :: mid).reverse).dropWhile isPyWs = b :: (a :: mid).reverse := by
    simp [List.dropWhile, hb]
  rw [h3]
  simp

theorem strip_single (a : Char) (ha : isPyWs a = false) : strip [a] = [a] := by
  simp [strip, List.dropWhile, ha]

end PytypeModel.Ninja
