import PytypeModel.Proofs.ArgBind

/-! Receiver insertion: binding a call `o.m(args)` against `def m(self, <s>)` is binding `(args)`
against `<s>`, with `self` bound to the receiver and positional indices shifted by one. -/
namespace PytypeModel.ArgBind

/-- `s'` is `s` with a fresh first positional parameter `me` (Python's `self`/`cls`) (either kind) -/
structure SelfExt (me : Name) (s s' : Sig) : Prop where
  e_params : s'.params = me :: s.params
  e_kwonly : s'.kwonly = s.kwonly
  e_varargs : s'.varargs = s.varargs
  e_kwargs : s'.kwargs = s.kwargs
  e_defaults : s'.defaults = s.defaults
  e_posonly : ∀ k, k ≠ me → (k ∈ s'.posonly ↔ k ∈ s.posonly)
  fresh_params : me ∉ s.params
  fresh_kwonly : me ∉ s.kwonly
  fresh_defaults : me ∉ s.defaults
  fresh_varargs : s.varargs ≠ some me
  fresh_kwargs : s.kwargs ≠ some me

theorem zipPos_shift (ps : List Name) (i n : Nat) :
    zipPos ps (i + 1) n = (zipPos ps i n).map fun e => (e.1, e.2.shift) := by
  induction ps generalizing i n with
  | nil => simp [zipPos]
  | cons p ps ih =>
    cases n with
    | zero => simp [zipPos]
    | succ n => simp [zipPos, ih, ArgRef.shift]

theorem any_congr_mem {α : Type} {l : List α} {p q : α → Bool} (h : ∀ a ∈ l, p a = q a) :
    l.any p = l.any q := by
  induction l with
  | nil => rfl
  | cons a l ih =>
    simp only [List.any_cons]
    rw [h a (by simp), ih (fun b hb => h b (List.mem_cons_of_mem _ hb))]

theorem range'_succ_start (a n : Nat) :
    List.range' (a + 1) n = (List.range' a n).map (· + 1) := by
  induction n generalizing a with
  | zero => simp
  | succ n ih => simp [List.range'_succ, ih]

theorem lookup_map_shift (d : Dict) (p : Name) :
    (d.map fun e => (e.1, e.2.shift)).lookup p = (d.lookup p).map ArgRef.shift := by
  induction d with
  | nil => simp
  | cons e d ih =>
    obtain ⟨k, r⟩ := e
    simp only [List.map_cons, List.lookup_cons]
    cases p == k <;> simp [ih]

variable {me : Name} {s s' : Sig} {c : Call}

theorem SelfExt.positional (h : SelfExt me s s') :
    positional s' c.withReceiver =
      (me, .pos 0) :: (positional s c).map fun e => (e.1, e.2.shift) := by
  unfold ArgBind.positional Call.withReceiver
  rw [h.e_params]
  simp [zipPos, zipPos_shift]

theorem SelfExt.hasDuplicate (h : SelfExt me s s') (hk : me ∉ c.kws) :
    hasDuplicate s' c.withReceiver = hasDuplicate s c := by
  unfold ArgBind.hasDuplicate
  rw [h.positional]
  have hkws : c.withReceiver.kws = c.kws := rfl
  simp only [List.any_cons, hkws, List.any_map]
  have h0 : (c.kws.contains me) = false := by simpa using hk
  rw [h0, Bool.and_false, Bool.false_or]
  apply any_congr_mem
  intro e he
  have hne : e.1 ≠ me := fun hh => h.fresh_params (hh ▸ zipPos_mem_keys he)
  have := h.e_posonly e.1 hne
  simp only [Function.comp]
  by_cases hp : e.1 ∈ s.posonly
  · simp [hp, this.2 hp]
  · have hp' : e.1 ∉ s'.posonly := fun hh => hp (this.1 hh)
    simp [hp, hp']

theorem SelfExt.extraKws (h : SelfExt me s s') (hk : me ∉ c.kws) :
    extraKws s' c.withReceiver = extraKws s c := by
  unfold ArgBind.extraKws
  have hkws : c.withReceiver.kws = c.kws := rfl
  rw [hkws, h.e_params, h.e_kwonly]
  apply List.filter_congr
  intro k hkk
  have hne : k ≠ me := fun hh => hk (hh ▸ hkk)
  simp [hne]

theorem SelfExt.posonlyKws (h : SelfExt me s s') (hk : me ∉ c.kws) :
    posonlyKws s' c.withReceiver = posonlyKws s c := by
  unfold ArgBind.posonlyKws
  have hkws : c.withReceiver.kws = c.kws := rfl
  rw [hkws]
  apply List.filter_congr
  intro k hkk
  have hne : k ≠ me := fun hh => hk (hh ▸ hkk)
  have := h.e_posonly k hne
  by_cases hp : k ∈ s.posonly
  · simp [hp, this.2 hp]
  · have hp' : k ∉ s'.posonly := fun hh => hp (this.1 hh)
    simp [hp, hp']

theorem SelfExt.callargs0_self (h : SelfExt me s s') (hk : me ∉ c.kws) :
    (callargs0 s' c.withReceiver).lookup me = some (.pos 0) := by
  unfold callargs0
  have hkws : c.withReceiver.kws = c.kws := rfl
  rw [List.lookup_append, List.lookup_append, lookup_kwEntries, h.positional, hkws]
  have : me ∉ c.kws.filter fun k => !(ArgBind.posonlyKws s' c.withReceiver).contains k :=
    fun hh => hk (List.mem_filter.1 hh).1
  rw [if_neg this]
  simp

theorem SelfExt.callargs0_other (h : SelfExt me s s') (hk : me ∉ c.kws) (p : Name)
    (hp : p ≠ me) :
    (callargs0 s' c.withReceiver).lookup p = ((callargs0 s c).lookup p).map ArgRef.shift := by
  unfold callargs0
  have hkws : c.withReceiver.kws = c.kws := rfl
  rw [List.lookup_append, List.lookup_append, List.lookup_append, List.lookup_append,
    h.posonlyKws hk, hkws, h.positional, lookup_cons_ne _ _ _ _ hp, lookup_map_shift,
    lookup_kwEntries, lookup_defaultsDict, lookup_defaultsDict, h.e_defaults]
  by_cases h1 : p ∈ c.kws.filter fun k => !(ArgBind.posonlyKws s c).contains k
  · rw [if_pos h1]
    simp [ArgRef.shift]
  · rw [if_neg h1]
    cases (ArgBind.positional s c).lookup p with
    | some v => simp
    | none => by_cases h2 : p ∈ s.defaults <;> simp [h2, ArgRef.shift]

theorem SelfExt.hasMissing (h : SelfExt me s s') (hk : me ∉ c.kws) :
    hasMissing s' c.withReceiver = hasMissing s c := by
  unfold ArgBind.hasMissing required
  rw [h.e_params, h.e_kwonly, h.e_defaults]
  have hd : (s.defaults.contains me) = false := by simpa using h.fresh_defaults
  rw [List.filter_cons, hd]
  simp only [Bool.not_false, ↓reduceIte, List.cons_append, List.any_cons]
  rw [h.callargs0_self hk]
  simp only [Option.isNone_some, Bool.false_or]
  apply any_congr_mem
  intro p hp
  have hne : p ≠ me := by
    intro hh
    rcases List.mem_append.1 hp with h1 | h1
    · exact h.fresh_params (hh ▸ (List.mem_filter.1 h1).1)
    · exact h.fresh_kwonly (hh ▸ h1)
  rw [h.callargs0_other hk p hne]
  simp

theorem SelfExt.extraneous (h : SelfExt me s s') :
    extraneous s' c.withReceiver = (extraneous s c).map (· + 1) := by
  unfold ArgBind.extraneous Call.withReceiver
  rw [h.e_params]
  simp only [List.length_cons, Nat.add_sub_add_right]
  exact range'_succ_start _ _

theorem SelfExt.omit_filter (h : SelfExt me s s') (hk : me ∉ c.kws) :
    (c.withReceiver.kws.filter fun k => !(omitNames s' c.withReceiver).contains k) =
      c.kws.filter fun k => !(omitNames s c).contains k := by
  have hkws : c.withReceiver.kws = c.kws := rfl
  rw [hkws]
  apply List.filter_congr
  intro k hkk
  have hne : k ≠ me := fun hh => hk (hh ▸ hkk)
  unfold omitNames
  rw [h.posonlyKws hk, h.e_params, h.e_kwonly]
  have : (k ∈ (List.filter (fun n => !(ArgBind.posonlyKws s c).contains n) (me :: s.params)) ++ s.kwonly) ↔
      (k ∈ (List.filter (fun n => !(ArgBind.posonlyKws s c).contains n) s.params) ++ s.kwonly) := by
    simp only [List.mem_append, List.mem_filter, List.mem_cons]
    constructor
    · rintro (⟨h1 | h1, h2⟩ | h1)
      · exact absurd h1 hne
      · exact Or.inl ⟨h1, h2⟩
      · exact Or.inr h1
    · rintro (⟨h1, h2⟩ | h1)
      · exact Or.inl ⟨Or.inr h1, h2⟩
      · exact Or.inr h1
  have hb : (List.filter (fun n => !(ArgBind.posonlyKws s c).contains n) (me :: s.params) ++ s.kwonly).contains k =
      (List.filter (fun n => !(ArgBind.posonlyKws s c).contains n) s.params ++ s.kwonly).contains k := by
    rw [Bool.eq_iff_iff, List.contains_iff_mem, List.contains_iff_mem]
    exact this
  rw [hb]

/-- what binding `o.m(args)` yields relative to binding `(args)` against the signature without
`self`: same error, or `self ↦ receiver` and every other name's value shifted -/
def SelfRel (me : Name) : Except BindErr Dict → Except BindErr Dict → Prop
  | .error e, r' => r' = .error e
  | .ok d, r' => ∃ d', r' = .ok d' ∧ d'.lookup me = some (.pos 0) ∧
      ∀ p, p ≠ me → d'.lookup p = (d.lookup p).map ArgRef.shift

theorem SelfExt.mapArgs (h : SelfExt me s s') (hk : me ∉ c.kws) :
    SelfRel me (mapArgs s c) (mapArgs s' c.withReceiver) := by
  unfold ArgBind.mapArgs
  rw [h.hasDuplicate hk, h.extraKws hk, h.posonlyKws hk, h.hasMissing hk, h.e_kwargs]
  by_cases h1 : ArgBind.hasDuplicate s c = true
  · simp [h1, SelfRel]
  by_cases h2 : (!(ArgBind.extraKws s c).isEmpty && s.kwargs.isNone) = true
  · simp [h1, h2, SelfRel]
  by_cases h3 : (!(ArgBind.posonlyKws s c).isEmpty && s.kwargs.isNone) = true
  · simp [h1, h2, h3, SelfRel]
  by_cases h4 : ArgBind.hasMissing s c = true
  · simp [h1, h2, h3, h4, SelfRel]
  simp only [h1, h2, h3, h4, Bool.false_eq_true, ↓reduceIte]
  unfold withVarargs
  rw [h.e_varargs, h.e_params]
  have hnpos : c.withReceiver.npos = c.npos + 1 := rfl
  -- the ** entry, shared
  have hkwargs : ∀ (d d' : Dict), d'.lookup me = some (.pos 0) →
      (∀ p, p ≠ me → d'.lookup p = (d.lookup p).map ArgRef.shift) →
      (withKwargs s' c.withReceiver d').lookup me = some (.pos 0) ∧
      ∀ p, p ≠ me → (withKwargs s' c.withReceiver d').lookup p =
        ((withKwargs s c d).lookup p).map ArgRef.shift := by
    intro d d' hs ho
    unfold withKwargs
    rw [h.e_kwargs, h.omit_filter hk]
    cases hkw : s.kwargs with
    | none => exact ⟨hs, ho⟩
    | some kw =>
      have hne : me ≠ kw := fun hh => h.fresh_kwargs (by rw [hkw, hh])
      refine ⟨by rw [lookup_cons_ne _ _ _ _ hne]; exact hs, ?_⟩
      intro p hp
      by_cases hpk : p = kw
      · subst hpk
        rw [lookup_cons_self, lookup_cons_self]
        rfl
      · rw [lookup_cons_ne _ _ _ _ hpk, lookup_cons_ne _ _ _ _ hpk]
        exact ho p hp
  cases hva : s.varargs with
  | some v =>
    have hne : me ≠ v := fun hh => h.fresh_varargs (by rw [hva, hh])
    simp only [SelfRel]
    refine ⟨_, rfl, ?_⟩
    apply hkwargs
    · rw [lookup_cons_ne _ _ _ _ hne]
      exact h.callargs0_self hk
    · intro p hp
      by_cases hpv : p = v
      · subst hpv
        rw [lookup_cons_self, lookup_cons_self, h.extraneous]
        rfl
      · rw [lookup_cons_ne _ _ _ _ hpv, lookup_cons_ne _ _ _ _ hpv]
        exact h.callargs0_other hk p hp
  | none =>
    simp only [hnpos, List.length_cons, Nat.add_lt_add_iff_right, gt_iff_lt]
    by_cases h5 : s.params.length < c.npos
    · simp [h5, SelfRel]
    · simp only [h5, ↓reduceIte, SelfRel]
      refine ⟨_, rfl, ?_⟩
      apply hkwargs
      · exact h.callargs0_self hk
      · exact fun p hp => h.callargs0_other hk p hp

theorem selfPosonly_ext (me : Name) (s : Sig) (hf : me ∉ s.allNames) (hdf : me ∉ s.defaults) :
    SelfExt me s (s.selfPosonly me) := by
  unfold Sig.allNames at hf
  simp only [List.mem_append, Option.mem_toList, not_or] at hf
  obtain ⟨⟨⟨⟨h1, h2⟩, h3⟩, h4⟩, h5⟩ := hf
  refine ⟨rfl, rfl, rfl, rfl, rfl, ?_, ?_, h4, hdf, h3, h5⟩
  · intro k hk
    simp [Sig.selfPosonly, hk]
  · simp [Sig.params, h1, h2]

theorem selfPoskw_ext (me : Name) (s : Sig) (hpo : s.posonly = []) (hf : me ∉ s.allNames)
    (hdf : me ∉ s.defaults) : SelfExt me s (s.selfPoskw me) := by
  unfold Sig.allNames at hf
  simp only [List.mem_append, Option.mem_toList, not_or] at hf
  obtain ⟨⟨⟨⟨h1, h2⟩, h3⟩, h4⟩, h5⟩ := hf
  refine ⟨?_, rfl, rfl, rfl, rfl, ?_, ?_, h4, hdf, h3, h5⟩
  · simp [Sig.params, Sig.selfPoskw, hpo]
  · intro k _
    simp [Sig.selfPoskw]
  · simp [Sig.params, h1, h2]

end PytypeModel.ArgBind
