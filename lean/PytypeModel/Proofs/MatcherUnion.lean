import PytypeModel.Proofs.MatcherFlat

/-! Values with a single view, and exactness for `Union` (option chosen uniformly for all views). -/
namespace PytypeModel.Sem

theorem consAll_single (w : VTy) (r : List VTy) : consAll [w] [r] = [w :: r] := by
  simp [consAll]

mutual
/-- a value whose displays have at most one element has exactly one view -/
theorem single_of_small : ∀ v : Val, Val.allSub Val.smallDisplay v = true → ∃ w, views (abs v) = [w]
  | .int _, _ | .bool _, _ | .float _, _ | .complex _, _ | .str _, _ | .bytes _, _ | .none, _
  | .inst _, _ | .clsobj _, _ | .bclsobj _, _ | .func _, _ => by simp [abs, views]
  | .list [], _ => by simp [abs, absL, views, viewsVar]
  | .list [x], h => by
    have hx : Val.allSub Val.smallDisplay x = true := by
      simp only [Val.allSub, Val.allSubL, Bool.and_eq_true] at h; exact h.2.1
    obtain ⟨w, hw⟩ := single_of_small x hx
    exact ⟨.cont .list w, by simp [abs, absL, views, viewsVar, viewsRest, hw]⟩
  | .list (_ :: _ :: _), h => by simp [Val.allSub, Val.smallDisplay] at h
  | .set [], _ => by simp [abs, absL, views, viewsVar]
  | .set [x], h => by
    have hx : Val.allSub Val.smallDisplay x = true := by
      simp only [Val.allSub, Val.allSubL, Bool.and_eq_true] at h; exact h.2.1
    obtain ⟨w, hw⟩ := single_of_small x hx
    exact ⟨.cont .set w, by simp [abs, absL, views, viewsVar, viewsRest, hw]⟩
  | .set (_ :: _ :: _), h => by simp [Val.allSub, Val.smallDisplay] at h
  | .fset [], _ => by simp [abs, absL, views, viewsVar]
  | .fset [x], h => by
    have hx : Val.allSub Val.smallDisplay x = true := by
      simp only [Val.allSub, Val.allSubL, Bool.and_eq_true] at h; exact h.2.1
    obtain ⟨w, hw⟩ := single_of_small x hx
    exact ⟨.cont .fset w, by simp [abs, absL, views, viewsVar, viewsRest, hw]⟩
  | .fset (_ :: _ :: _), h => by simp [Val.allSub, Val.smallDisplay] at h
  | .tuple xs, h => by
    have hx : Val.allSubL Val.smallDisplay xs = true := by
      simp only [Val.allSub, Bool.and_eq_true] at h; exact h.2
    obtain ⟨ws, hws⟩ := singleL_of_small xs hx
    exact ⟨.tuple ws, by simp [abs, views, hws]⟩
  | .dict [] [], _ => by simp [abs, absL, views, viewsVar]
  | .dict [k] [], h => by
    have hk : Val.allSub Val.smallDisplay k = true := by
      simp only [Val.allSub, Val.allSubL, Bool.and_eq_true] at h; exact h.1.2.1
    obtain ⟨w, hw⟩ := single_of_small k hk
    exact ⟨.dict w .nothing, by simp [abs, absL, views, viewsVar, viewsRest, hw]⟩
  | .dict [] [v], h => by
    have hv : Val.allSub Val.smallDisplay v = true := by
      simp only [Val.allSub, Val.allSubL, Bool.and_eq_true] at h; exact h.2.1
    obtain ⟨w, hw⟩ := single_of_small v hv
    exact ⟨.dict .nothing w, by simp [abs, absL, views, viewsVar, viewsRest, hw]⟩
  | .dict [k] [v], h => by
    have hk : Val.allSub Val.smallDisplay k = true := by
      simp only [Val.allSub, Val.allSubL, Bool.and_eq_true] at h; exact h.1.2.1
    have hv : Val.allSub Val.smallDisplay v = true := by
      simp only [Val.allSub, Val.allSubL, Bool.and_eq_true] at h; exact h.2.1
    obtain ⟨w, hw⟩ := single_of_small k hk
    obtain ⟨w', hw'⟩ := single_of_small v hv
    exact ⟨.dict w w', by simp [abs, absL, views, viewsVar, viewsRest, hw, hw']⟩
  | .dict (_ :: _ :: _) _, h => by simp [Val.allSub, Val.smallDisplay] at h
  | .dict _ (_ :: _ :: _), h => by simp [Val.allSub, Val.smallDisplay] at h
theorem singleL_of_small : ∀ xs : List Val, Val.allSubL Val.smallDisplay xs = true →
    ∃ ws, viewsProd (absL xs) = [ws]
  | [], _ => by simp [absL, viewsProd]
  | x :: xs, h => by
    simp only [Val.allSubL, Bool.and_eq_true] at h
    obtain ⟨w, hw⟩ := single_of_small x h.1
    obtain ⟨ws, hws⟩ := singleL_of_small xs h.2
    exact ⟨w :: ws, by simp [absL, viewsProd, hw, hws, consAll_single]⟩
end

theorem matchV_union (H : Hierarchy) (w : VTy) (as : List Ann) (hw : w ≠ .nothing) :
    matchV H w (.union as) = matchAny H w as := by
  cases w <;> first | exact absurd rfl hw | simp [matchV]

/-- two members of a list whose filter has at most one element, both passing the filter, are equal -/
theorem eq_of_filter_le_one {as : List Ann} {p : Ann → Bool} (h : (as.filter p).length ≤ 1)
    {a b : Ann} (ha : a ∈ as) (hb : b ∈ as) (hpa : p a = true) (hpb : p b = true) : a = b := by
  have ha' : a ∈ as.filter p := List.mem_filter.2 ⟨ha, hpa⟩
  have hb' : b ∈ as.filter p := List.mem_filter.2 ⟨hb, hpb⟩
  match hl : as.filter p, h with
  | [], _ => rw [hl] at ha'; simp at ha'
  | [c], _ =>
    rw [hl] at ha' hb'
    simp at ha' hb'
    rw [ha', hb']
  | _ :: _ :: _, h => simp at h

/-- the option can be chosen uniformly for all views: trivially for a single view; for a union with at most
one non-flat option because flat options decide the same way on all views -/
theorem union_uniform (H : Hierarchy) (v : Val) (as : List Ann)
    (hG : Val.allSub Val.smallDisplay v = true ∨ Ann.simpleUnion (.union as) = true)
    (h : ∀ w, w ∈ views (abs v) → ∃ a, a ∈ as ∧ matchV H w a = true) :
    ∃ a, a ∈ as ∧ ∀ w, w ∈ views (abs v) → matchV H w a = true := by
  obtain ⟨w0, hw0⟩ := exists_view (abs v)
  rcases hG with hs | hs
  · obtain ⟨w1, hw1⟩ := single_of_small v hs
    rw [hw1] at hw0 h
    obtain ⟨a, ha, hm⟩ := h w0 hw0
    refine ⟨a, ha, fun w hw => ?_⟩
    rw [hw1] at hw
    simp at hw hw0
    rw [hw, ← hw0]; exact hm
  · simp only [Ann.simpleUnion, decide_eq_true_eq] at hs
    -- is there a flat option matching w0?
    by_cases hf : ∃ a, a ∈ as ∧ a.flat = true ∧ matchV H w0 a = true
    · obtain ⟨a, ha, hfl, hm⟩ := hf
      exact ⟨a, ha, fun w hw => by rw [matchV_flat_const H hfl hw hw0]; exact hm⟩
    · -- no flat option matches any view, so every view is matched by the unique non-flat option
      obtain ⟨a0, ha0, hm0⟩ := h w0 hw0
      have nf : ∀ w, w ∈ views (abs v) → ∀ a, a ∈ as → matchV H w a = true → a.flat = false := by
        intro w hw a ha hm
        cases hfl : a.flat with
        | false => rfl
        | true =>
          exact absurd ⟨a, ha, hfl, by rw [matchV_flat_const H hfl hw0 hw]; exact hm⟩ hf
      refine ⟨a0, ha0, fun w hw => ?_⟩
      obtain ⟨a, ha, hm⟩ := h w hw
      have e : a = a0 := eq_of_filter_le_one (p := fun a => !a.flat) hs ha ha0
        (by simp [nf w hw a ha hm]) (by simp [nf w0 hw0 a0 ha0 hm0])
      rw [← e]; exact hm

theorem exact_union (H : Hierarchy) (as : List Ann) (ih : ∀ a, a ∈ as → Exact H a) : Exact H (.union as) := by
  intro v hG
  have hGa : ∀ a, a ∈ as → Guard v a = true := fun a ha => Guard.step (ValStep.refl v) (AnnStep.union ha) hG
  have hG4 : Val.allSub Val.smallDisplay v = true ∨ Ann.simpleUnion (.union as) = true := by
    simp only [Guard, Bool.and_eq_true, Bool.or_eq_true] at hG
    rcases hG.2 with h | h
    · exact Or.inl h
    · simp only [Ann.allSub, Bool.and_eq_true] at h; exact Or.inr h.1
  simp only [member, memberAny_iff]
  constructor
  · intro h
    have h' : ∀ w, w ∈ views (abs v) → ∃ a, a ∈ as ∧ matchV H w a = true := fun w hw => by
      have := h w hw
      rwa [matchV_union H w as (top_ne_nothing_of_mem_views hw), matchAny_iff] at this
    obtain ⟨a, ha, hm⟩ := union_uniform H v as hG4 h'
    exact ⟨a, ha, (ih a ha v (hGa a ha)).1 hm⟩
  · rintro ⟨a, ha, hm⟩ w hw
    rw [matchV_union H w as (top_ne_nothing_of_mem_views hw), matchAny_iff]
    exact ⟨a, ha, (ih a ha v (hGa a ha)).2 hm w hw⟩

end PytypeModel.Sem
