/-
C06 proofs, part 6: reads of the downstream module commute with type maps over the upstream unit; every read
of the derived downstream module resolves; re-export mentions no new class.
-/
import PytypeModel.Proofs.AbsConvertTransport

namespace PytypeModel.Pytd.AbsConvert
open PytypeModel.Pytd

/-! ### lookups under `mapUnit` -/

theorem findConst_map (f : Ty → Ty) (n : String) (cs : List Const) :
    findConst n (cs.map (mapConst f)) = (findConst n cs).map (mapConst f) := by
  induction cs with
  | nil => simp [findConst]
  | cons c cs ih =>
    simp only [List.map_cons, findConst, mapConst]
    by_cases h : c.name = n
    · simp [h, mapConst]
    · simp [h, ih, mapConst]

theorem findFunc_map (f : Ty → Ty) (n : String) (fs : List Func) :
    findFunc n (fs.map (mapFunc f)) = (findFunc n fs).map (mapFunc f) := by
  induction fs with
  | nil => simp [findFunc]
  | cons c cs ih =>
    simp only [List.map_cons, findFunc, mapFunc]
    by_cases h : c.name = n
    · simp [h, mapFunc]
    · simp [h, ih, mapFunc]

theorem retOf_map (f : Ty → Ty) (fn : Func) : retOf (mapFunc f fn) = (retOf fn).map f := by
  unfold retOf mapFunc
  match h : fn.sigs with
  | [] => simp [h]
  | [s] => simp [h, mapSig]
  | a :: b :: r => simp [h]

theorem mapClass_name (f : Ty → Ty) (c : Class) : (mapClass f c).name = c.name := by
  cases c; simp [mapClass, Class.name]

theorem mapClass_constants (f : Ty → Ty) (c : Class) :
    (mapClass f c).constants = c.constants.map (mapConst f) := by
  cases c; simp [mapClass, Class.constants]

theorem mapClass_methods (f : Ty → Ty) (c : Class) :
    (mapClass f c).methods = c.methods.map (mapFunc f) := by
  cases c; simp [mapClass, Class.methods]

theorem mapClass_classes (f : Ty → Ty) (c : Class) :
    (mapClass f c).classes = mapClasses f c.classes := by
  cases c; simp [mapClass, Class.classes]

theorem findClass_map (f : Ty → Ty) (n : String) (cs : List Class) :
    findClass n (mapClasses f cs) = (findClass n cs).map (mapClass f) := by
  induction cs with
  | nil => simp [findClass, mapClasses]
  | cons c cs ih =>
    simp only [mapClasses, findClass, mapClass_name]
    by_cases h : c.name = n
    · simp [h]
    · simp [h, ih]

theorem classAt_map (f : Ty → Ty) : ∀ (p : List String) (cs : List Class),
    classAt (mapClasses f cs) p = (classAt cs p).map (mapClass f)
  | [], cs => by simp [classAt]
  | [n], cs => by simp [classAt, findClass_map]
  | n :: m :: rest, cs => by
    simp only [classAt, findClass_map]
    cases h : findClass n cs with
    | none => simp
    | some c => simp [mapClass_classes, classAt_map f (m :: rest) c.classes]

/-- a read of a mapped unit is the mapped read (a class reference does not depend on the types at all) -/
theorem resolveRead_mapUnit (f : Ty → Ty) (u : TUnit) (r : Read) :
    resolveRead (mapUnit f u) r =
      (match r with
       | .clsRef _ => resolveRead u r
       | _ => (resolveRead u r).map f) := by
  cases r with
  | const x =>
    simp only [resolveRead, mapUnit, findConst_map]
    cases findConst x u.constants <;> simp [mapConst]
  | call g =>
    simp only [resolveRead, mapUnit, findFunc_map]
    cases findFunc g u.functions <;> simp [retOf_map]
  | clsAttr p x =>
    simp only [resolveRead, mapUnit, classAt_map]
    cases classAt u.classes p with
    | none => simp
    | some c =>
      simp only [Option.map_some, Option.bind_some, mapClass_constants, findConst_map]
      cases findConst x c.constants <;> simp [mapConst]
  | instAttr p x =>
    simp only [resolveRead, mapUnit, classAt_map]
    cases classAt u.classes p with
    | none => simp
    | some c =>
      simp only [Option.map_some, Option.bind_some, mapClass_constants, findConst_map]
      cases findConst x c.constants <;> simp [mapConst]
  | methCall p m =>
    simp only [resolveRead, mapUnit, classAt_map]
    cases classAt u.classes p with
    | none => simp
    | some c =>
      simp only [Option.map_some, Option.bind_some, mapClass_methods, findFunc_map]
      cases findFunc m c.methods <;> simp [retOf_map]
  | clsRef p =>
    simp only [resolveRead, mapUnit, classAt_map]
    cases classAt u.classes p <;> simp [mapClass_name]

/-! ### every read of the derived module resolves -/

theorem findConst_mem (cs : List Const) (c : Const) (h : c ∈ cs) : (findConst c.name cs).isSome = true := by
  induction cs with
  | nil => simp at h
  | cons d ds ih =>
    simp only [findConst]
    by_cases e : d.name = c.name
    · simp [e]
    · simp only [e, if_false]
      rcases List.mem_cons.1 h with e2 | h'
      · subst e2; exact absurd rfl e
      · exact ih h'

theorem findFunc_unique (fs : List Func) (f : Func) (hn : (fs.map (·.name)).Nodup) (h : f ∈ fs) :
    findFunc f.name fs = some f := by
  induction fs with
  | nil => simp at h
  | cons d ds ih =>
    simp only [List.map_cons, List.nodup_cons] at hn
    simp only [findFunc]
    rcases List.mem_cons.1 h with e | h'
    · subst e; simp
    · have : d.name ≠ f.name := fun e => hn.1 (e ▸ List.mem_map_of_mem (f := (·.name)) h')
      simp [this, ih hn.2 h']

theorem findClass_unique (cs : List Class) (c : Class) (hn : (cs.map Class.name).Nodup) (h : c ∈ cs) :
    findClass c.name cs = some c := by
  induction cs with
  | nil => simp at h
  | cons d ds ih =>
    simp only [List.map_cons, List.nodup_cons] at hn
    simp only [findClass]
    rcases List.mem_cons.1 h with e | h'
    · subst e; simp
    · have : d.name ≠ c.name := fun e => hn.1 (e ▸ List.mem_map_of_mem (f := Class.name) h')
      simp [this, ih hn.2 h']

theorem classAt_snoc : ∀ (p : List String) (cs : List Class) (n : String), p ≠ [] →
    classAt cs (p ++ [n]) = (classAt cs p).bind (fun c => findClass n c.classes)
  | [], _, _, h => absurd rfl h
  | [a], cs, n, _ => by
    simp only [List.singleton_append, classAt]
    cases findClass a cs <;> simp
  | a :: b :: rest, cs, n, _ => by
    simp only [List.cons_append, classAt]
    cases h : findClass a cs with
    | none => simp
    | some c =>
      have := classAt_snoc (b :: rest) c.classes n (by simp)
      simp only [List.cons_append] at this
      simp [this]

theorem wfClasses_mem (cs : List Class) (h : wfClasses cs = true) (c : Class) (hc : c ∈ cs) :
    wfClass c = true := by
  induction cs with
  | nil => simp at hc
  | cons d ds ih =>
    simp only [wfClasses, Bool.and_eq_true] at h
    rcases List.mem_cons.1 hc with e | h'
    · subst e; exact h.1
    · exact ih h.2 h'

/-- all reads derived for class `c` (reachable at `path ++ [c.name]`) resolve -/
def ClassReadsOk (root : List Class) (rs : List Read) : Prop :=
  ∀ r ∈ rs, ∀ u : TUnit, u.classes = root → (resolveRead u r).isSome = true

mutual
theorem deriveClass_ok (root : List Class) : ∀ (c : Class) (path : List String),
    classAt root (path ++ [c.name]) = some c → wfClass c = true → ClassReadsOk root (deriveClass path c)
  | .mk name kw bases methods constants classes decorators slots template, path, hat, hwf => by
    simp only [wfClass, Bool.and_eq_true, decide_eq_true_eq] at hwf
    simp only [Class.name] at hat
    intro r hr u hu
    simp only [deriveClass, List.mem_append, List.mem_cons, List.mem_map, List.mem_filter,
      List.not_mem_nil, or_false] at hr
    rcases hr with (((hr | hr) | hr) | hr) | hr
    · subst hr; simp [resolveRead, hu, hat]
    · obtain ⟨c, hc, e⟩ := hr
      subst e
      have := findConst_mem constants c hc
      simp only [resolveRead, hu, hat, Option.bind_some, Class.constants, Option.isSome_map]
      exact this
    · obtain ⟨c, hc, e⟩ := hr
      subst e
      have := findConst_mem constants c hc
      simp only [resolveRead, hu, hat, Option.bind_some, Class.constants, Option.isSome_map]
      exact this
    · obtain ⟨m, ⟨hm, hret⟩, e⟩ := hr
      subst e
      simp only [resolveRead, hu, hat, Option.bind_some, Class.methods,
        findFunc_unique methods m hwf.1.1.2 hm]
      exact hret
    · refine deriveClasses_ok root classes (path ++ [name]) ?_ hwf.2 r hr u hu
      intro k hk
      rw [classAt_snoc (path ++ [name]) root k.name (by simp), hat]
      simp only [Option.bind_some, Class.classes]
      exact findClass_unique classes k hwf.1.2 hk
theorem deriveClasses_ok (root : List Class) : ∀ (cs : List Class) (path : List String),
    (∀ k ∈ cs, classAt root (path ++ [k.name]) = some k) → wfClasses cs = true →
    ClassReadsOk root (deriveClasses path cs)
  | [], _, _, _ => by intro r hr; simp [deriveClasses] at hr
  | c :: cs, path, hat, hwf => by
    simp only [wfClasses, Bool.and_eq_true] at hwf
    intro r hr u hu
    simp only [deriveClasses, List.mem_append] at hr
    rcases hr with hr | hr
    · exact deriveClass_ok root c path (hat c (by simp)) hwf.1 r hr u hu
    · exact deriveClasses_ok root cs path (fun k hk => hat k (by simp [hk])) hwf.2 r hr u hu
end

theorem derive_resolves (u : TUnit) (hwf : wfUnit u = true) :
    ∀ r ∈ derive u, (resolveRead u r).isSome = true := by
  simp only [wfUnit, Bool.and_eq_true, decide_eq_true_eq] at hwf
  intro r hr
  simp only [derive, List.mem_append, List.mem_map, List.mem_filter] at hr
  rcases hr with (hr | hr) | hr
  · obtain ⟨c, hc, e⟩ := hr
    subst e
    simp only [resolveRead, Option.isSome_map]
    exact findConst_mem _ c hc
  · obtain ⟨f, ⟨hf, hret⟩, e⟩ := hr
    subst e
    simp only [resolveRead, findFunc_unique _ f hwf.1.1.2 hf, Option.bind_some]
    exact hret
  · refine deriveClasses_ok u.classes u.classes [] ?_ hwf.2 r hr u rfl
    intro k hk
    simp only [List.nil_append, classAt]
    exact findClass_unique _ k hwf.1.2 hk

/-! ### re-export mentions no class the declared type did not mention -/

theorem classRefs_normName (n x : String) (h : x ∈ classRefs (normName n)) : x = n := by
  unfold normName at h
  by_cases hs : n = "builtins.type" ∨ n = "builtins.property"
  · simp [hs, classRefs] at h
  · simp only [hs, if_false] at h
    cases ha : arity n with
    | none => simpa [ha, classRefs] using h
    | some k =>
      simp only [ha] at h
      have hrep : ∀ j, classRefsL (List.replicate j Ty.any) = [] := by
        intro j; induction j with
        | zero => rfl
        | succ j ih => simp [List.replicate_succ, classRefsL, classRefs, ih]
      split at h
      · simpa [classRefs] using h
      · rename_i args _
        simp only [classRefs, List.mem_append, List.mem_singleton] at h
        rcases h with h | h
        · exact h
        · rw [hrep] at h; simp at h

end PytypeModel.Pytd.AbsConvert
