import PytypeModel.Proofs.BlocksSetupExcept

/-! # `_add_setup_except` without the `stopsOnOps` guard (C16)

When `e.end` is not an instruction offset the POP_BLOCK is filed after the largest key below it.  Under `endsFresh`
(no earlier kept entry shares that last instruction, unless this entry ends on an instruction) that key is the
last instruction below `e.end` itself; the invariant adds that every key of the dict is an instruction, a SETUP
marker of a processed entry or a POP marker of a processed entry. -/
namespace PytypeModel.Blocks
open PytypeModel.Generated.OpcodeTable

/-! ### `maxOpt` -/

theorem maxOpt_none {l : List Nat} : maxOpt l = none ↔ l = [] := by
  cases l with
  | nil => simp [maxOpt]
  | cons x xs =>
    simp only [maxOpt]
    cases maxOpt xs <;> simp

theorem maxOpt_some {l : List Nat} {k : Nat} (h : maxOpt l = some k) : k ∈ l ∧ ∀ x ∈ l, x ≤ k := by
  induction l generalizing k with
  | nil => simp [maxOpt] at h
  | cons x xs ih =>
    simp only [maxOpt] at h
    cases hm : maxOpt xs with
    | none =>
      rw [hm] at h
      simp only [Option.some.injEq] at h
      subst h
      have : xs = [] := maxOpt_none.1 hm
      subst this
      simp
    | some y =>
      rw [hm] at h
      simp only [Option.some.injEq] at h
      subst h
      obtain ⟨hy, hle⟩ := ih hm
      constructor
      · by_cases hxy : x ≤ y
        · rw [Nat.max_eq_right hxy]; exact List.mem_cons_of_mem _ hy
        · rw [Nat.max_eq_left (by omega)]; exact List.mem_cons_self ..
      · intro z hz
        rcases List.mem_cons.1 hz with rfl | hz
        · exact Nat.le_max_left ..
        · exact Nat.le_trans (hle z hz) (Nat.le_max_right ..)

theorem maxOpt_eq_of {l : List Nat} {k : Nat} (hk : k ∈ l) (hle : ∀ x ∈ l, x ≤ k) : maxOpt l = some k := by
  cases h : maxOpt l with
  | none => rw [maxOpt_none.1 h] at hk; cases hk
  | some j =>
    obtain ⟨hj, hjl⟩ := maxOpt_some h
    have := hle j hj
    have := hjl k hk
    congr 1; omega

/-! ### the last instruction of an entry -/

theorem endR_spec {ops : List PreOp} {e : ExcEntry} {r : Nat} (h : endR ops e = some r) :
    (∃ o ∈ ops, o.off = r) ∧
    ((hasPreOff ops e.stop = true ∧ r = e.stop) ∨
     (hasPreOff ops e.stop = false ∧ r < e.stop ∧ ∀ o ∈ ops, o.off < e.stop → o.off ≤ r)) := by
  unfold endR at h
  split at h
  · rename_i hh
    simp only [Option.some.injEq] at h
    subst h
    exact ⟨hasPreOff_iff.1 hh, Or.inl ⟨hh, rfl⟩⟩
  · rename_i hh
    obtain ⟨hm, hle⟩ := maxOpt_some h
    simp only [List.mem_filter, List.mem_map, decide_eq_true_eq] at hm
    obtain ⟨⟨o, ho, hor⟩, hlt⟩ := hm
    refine ⟨⟨o, ho, hor⟩, Or.inr ⟨by simpa using hh, hlt, fun o' ho' hlt' => ?_⟩⟩
    apply hle
    simp only [List.mem_filter, List.mem_map, decide_eq_true_eq]
    exact ⟨⟨o', ho', rfl⟩, hlt'⟩

/-! ### the invariant -/

/-- every key is an instruction, the SETUP marker of a processed entry or the POP marker of a processed entry -/
def KeysFrom (ops : List PreOp) (done : List ExcEntry) (m : List XOp) : Prop :=
  ∀ x ∈ m, (∃ o ∈ ops, x.off = 2 * o.off) ∨ (∃ d ∈ done, x.off = 2 * d.start - 1) ∨
    (∃ d ∈ done, ∃ r, endR ops d = some r ∧ x.off = 2 * r + 1)

/-- both markers of `e`, the POP after its last instruction -/
def ClosedR (ops : List PreOp) (m : List XOp) (e : ExcEntry) : Prop :=
  (∃ x ∈ m, x.off = 2 * e.start - 1 ∧ x.cls = Cls.SETUP_EXCEPT_311 ∧ x.pre = some (2 * e.target)) ∧
  (∃ r, endR ops e = some r ∧ ∃ y ∈ m, y.off = 2 * r + 1 ∧ y.cls = Cls.POP_BLOCK)

/-- what is asked of an entry now: it starts on an instruction after offset 0 and has a last instruction -/
structure GoodEntryR (ops : List PreOp) (e : ExcEntry) : Prop where
  startPos : e.start ≠ 0
  startOnOp : hasPreOff ops e.start = true
  hasEnd : (endR ops e).isSome = true

theorem maxKeyBelow_eq_of {m : List XOp} {b k : Nat} (hk : ∃ x ∈ m, x.off = k) (hlt : k < b)
    (hle : ∀ x ∈ m, x.off < b → x.off ≤ k) : maxKeyBelow m b = some k := by
  unfold maxKeyBelow
  apply maxOpt_eq_of
  · simp only [List.mem_filter, List.mem_map, decide_eq_true_eq]
    obtain ⟨x, hx, hxo⟩ := hk
    exact ⟨⟨x, hx, hxo⟩, hlt⟩
  · intro z hz
    simp only [List.mem_filter, List.mem_map, decide_eq_true_eq] at hz
    obtain ⟨⟨x, hx, rfl⟩, hzb⟩ := hz
    exact hle x hx hzb

/-- one `_add_exception_block` under the general premises: the POP is filed after the entry's last instruction -/
theorem addBlock_eqR {ops : List PreOp} {done : List ExcEntry} {m : List XOp} {e : ExcEntry} {r : Nat}
    (hev : ∀ o ∈ ops, o.off % 2 = 0) (hr : RealKept ops m) (hkf : KeysFrom ops done m)
    (hdone : ∀ d ∈ done, GoodEntryR ops d) (hg : GoodEntryR ops e) (her : endR ops e = some r)
    (hfresh : hasPreOff ops e.stop = true ∨ ∀ d ∈ done, endR ops d ≠ endR ops e) :
    addBlock m e = .ok (setXKey (setXKey m (setupOp e)) (popOp (2 * r))) := by
  unfold addBlock
  have h0 : (e.start == 0) = false := by simpa using hg.startPos
  simp only [h0, Bool.false_eq_true, ↓reduceIte]
  obtain ⟨so, hso, hsoo⟩ := hasPreOff_iff.1 hg.startOnOp
  have hse : e.start % 2 = 0 := hsoo ▸ hev so hso
  obtain ⟨⟨ro, hro, hroo⟩, hcase⟩ := endR_spec her
  have hre : r % 2 = 0 := hroo ▸ hev ro hro
  -- the instruction `r` is still a key after the SETUP was filed
  have hrmem : toX ro ∈ setXKey m (setupOp e) := by
    apply mem_setXKey_of_ne (hr ro hro)
    have hp := hg.startPos
    simp only [toX_off, setupOp]; omega
  rcases hcase with ⟨hon, rfl⟩ | ⟨hoff, hrlt, hrmax⟩
  · have hk : hasXKey (setXKey m (setupOp e)) (2 * e.stop) = true :=
      hasXKey_iff.2 ⟨toX ro, hrmem, by simp [toX_off, hroo]⟩
    simp [endKey, hk]
  · -- `e.stop` is not a key: instruction keys are `2·off` with `off ≠ stop`, marker keys are odd
    have hnk : hasXKey (setXKey m (setupOp e)) (2 * e.stop) = false := by
      cases hh : hasXKey (setXKey m (setupOp e)) (2 * e.stop) with
      | false => rfl
      | true =>
        exfalso
        obtain ⟨x, hx, hxo⟩ := hasXKey_iff.1 hh
        rcases mem_setXKey_iff.1 hx with rfl | ⟨hx, _⟩
        · have hp := hg.startPos
          simp only [setupOp] at hxo; omega
        · rcases hkf x hx with ⟨o, ho, hox⟩ | ⟨d, hd, hdx⟩ | ⟨d, hd, r', _, hdx⟩
          · have : o.off = e.stop := by omega
            have : hasPreOff ops e.stop = true := hasPreOff_iff.2 ⟨o, ho, this⟩
            rw [hoff] at this; cases this
          · have := (hdone d hd).startPos; omega
          · omega
    have hmax : maxKeyBelow (setXKey m (setupOp e)) (2 * e.stop) = some (2 * r) := by
      apply maxKeyBelow_eq_of ⟨toX ro, hrmem, by simp [toX_off, hroo]⟩ (by omega)
      intro x hx hxlt
      -- a SETUP key `2s-1 < 2·stop` has `s ≤ r`
      have setupCase : ∀ s, hasPreOff ops s = true → s ≠ 0 → 2 * s - 1 < 2 * e.stop → 2 * s - 1 ≤ 2 * r := by
        intro s hs hs0 hlt
        obtain ⟨o, ho, hos⟩ := hasPreOff_iff.1 hs
        have hne : s ≠ e.stop := by
          intro heq; rw [heq] at hs; rw [hoff] at hs; cases hs
        have : o.off ≤ r := hrmax o ho (by omega)
        omega
      rcases mem_setXKey_iff.1 hx with rfl | ⟨hx, _⟩
      · exact setupCase e.start hg.startOnOp hg.startPos hxlt
      · rcases hkf x hx with ⟨o, ho, hox⟩ | ⟨d, hd, hdx⟩ | ⟨d, hd, r', hdr, hdx⟩
        · have : o.off ≤ r := hrmax o ho (by omega)
          omega
        · rw [hdx]; rw [hdx] at hxlt
          exact setupCase d.start (hdone d hd).startOnOp (hdone d hd).startPos hxlt
        · obtain ⟨⟨o', ho', hoo'⟩, _⟩ := endR_spec hdr
          have hr'e : r' % 2 = 0 := hoo' ▸ hev o' ho'
          have hr'le : r' ≤ r := by
            have := hrmax o' ho' (by omega)
            omega
          have hne : r' ≠ r := by
            intro heq
            rcases hfresh with hon | hf
            · rw [hoff] at hon; cases hon
            · exact hf d hd (by rw [hdr, her, heq])
          omega
    simp [endKey, hnk, hmax]

/-- one step of the loop -/
theorem addBlock_stepR {ops : List PreOp} {done : List ExcEntry} {m : List XOp} {e : ExcEntry}
    (hev : ∀ o ∈ ops, o.off % 2 = 0) (hr : RealKept ops m) (hkf : KeysFrom ops done m)
    (hdone : ∀ d ∈ done, GoodEntryR ops d) (hg : GoodEntryR ops e)
    (hfresh : hasPreOff ops e.stop = true ∨ ∀ d ∈ done, endR ops d ≠ endR ops e) :
    ∃ m', addBlock m e = .ok m' ∧ RealKept ops m' ∧ KeysFrom ops (e :: done) m' ∧ ClosedR ops m' e ∧
      ∀ d, GoodEntryR ops d → d.start ≠ e.start → ClosedR ops m d → ClosedR ops m' d := by
  obtain ⟨r, her⟩ := Option.isSome_iff_exists.1 hg.hasEnd
  obtain ⟨so, hso, hsoo⟩ := hasPreOff_iff.1 hg.startOnOp
  have hse : e.start % 2 = 0 := hsoo ▸ hev so hso
  have hsp := hg.startPos
  obtain ⟨⟨ro, hro, hroo⟩, _⟩ := endR_spec her
  have hre : r % 2 = 0 := hroo ▸ hev ro hro
  refine ⟨_, addBlock_eqR hev hr hkf hdone hg her hfresh, ?_, ?_, ?_, ?_⟩
  · intro o ho
    have := hev o ho
    apply mem_setXKey_of_ne
    · apply mem_setXKey_of_ne (hr o ho)
      simp only [toX_off, setupOp]; omega
    · simp only [toX_off, popOp]; omega
  · intro x hx
    rcases mem_setXKey_iff.1 hx with rfl | ⟨hx, _⟩
    · exact Or.inr (Or.inr ⟨e, List.mem_cons_self .., r, her, rfl⟩)
    · rcases mem_setXKey_iff.1 hx with rfl | ⟨hx, _⟩
      · exact Or.inr (Or.inl ⟨e, List.mem_cons_self .., rfl⟩)
      · rcases hkf x hx with h | ⟨d, hd, h⟩ | ⟨d, hd, h⟩
        · exact Or.inl h
        · exact Or.inr (Or.inl ⟨d, List.mem_cons_of_mem _ hd, h⟩)
        · exact Or.inr (Or.inr ⟨d, List.mem_cons_of_mem _ hd, h⟩)
  · refine ⟨⟨setupOp e, ?_, rfl, rfl, rfl⟩, ⟨r, her, popOp (2 * r), mem_setXKey_self _ _, rfl, rfl⟩⟩
    apply mem_setXKey_of_ne (mem_setXKey_self _ _)
    simp only [setupOp, popOp]; omega
  · intro d hgd hne ⟨⟨x, hx, hxo, hxc, hxp⟩, ⟨r', hdr, y, hy, hyo, hyc⟩⟩
    obtain ⟨so', hso', hsoo'⟩ := hasPreOff_iff.1 hgd.startOnOp
    have hse' : d.start % 2 = 0 := hsoo' ▸ hev so' hso'
    have hsp' := hgd.startPos
    obtain ⟨⟨ro', hro', hroo'⟩, _⟩ := endR_spec hdr
    have hre' : r' % 2 = 0 := hroo' ▸ hev ro' hro'
    constructor
    · refine ⟨x, ?_, hxo, hxc, hxp⟩
      apply mem_setXKey_of_ne
      · apply mem_setXKey_of_ne hx
        simp only [setupOp, hxo]; omega
      · simp only [popOp, hxo]; omega
    · refine ⟨r', hdr, ?_⟩
      by_cases hsame : r' = r
      · exact ⟨popOp (2 * r), mem_setXKey_self _ _, by simp [popOp, hsame], rfl⟩
      · refine ⟨y, ?_, hyo, hyc⟩
        apply mem_setXKey_of_ne
        · apply mem_setXKey_of_ne hy
          simp only [setupOp, hyo]; omega
        · simp only [popOp, hyo]; omega

/-- `endsFreshFrom` unfolded -/
theorem endsFreshFrom_cons {ops : List PreOp} {done : List ExcEntry} {e : ExcEntry} {es : List ExcEntry}
    (h : endsFreshFrom ops done (e :: es) = true) :
    (hasPreOff ops e.stop = true ∨ ∀ d ∈ done, endR ops d ≠ endR ops e) ∧ (endR ops e).isSome = true ∧
      endsFreshFrom ops (e :: done) es = true := by
  simp only [endsFreshFrom, Bool.and_eq_true, Bool.or_eq_true, List.all_eq_true, bne_iff_ne, ne_eq] at h
  exact ⟨h.1.1, h.1.2, h.2⟩

theorem addBlocks_closedR {ops : List PreOp} (hev : ∀ o ∈ ops, o.off % 2 = 0) :
    ∀ (ks done : List ExcEntry) (m : List XOp), RealKept ops m → KeysFrom ops done m →
      (∀ d ∈ done, GoodEntryR ops d) → (∀ e ∈ ks, e.start ≠ 0 ∧ hasPreOff ops e.start = true) →
      ks.Pairwise (fun a b => a.start ≠ b.start) → endsFreshFrom ops done ks = true →
      ∃ m', addBlocks m ks = .ok m' ∧ RealKept ops m' ∧ (∀ e ∈ ks, ClosedR ops m' e) ∧
        ∀ d, GoodEntryR ops d → (∀ e ∈ ks, d.start ≠ e.start) → ClosedR ops m d → ClosedR ops m' d := by
  intro ks
  induction ks with
  | nil =>
    intro done m hr _ _ _ _ _
    exact ⟨m, rfl, hr, by simp, fun _ _ _ h => h⟩
  | cons e es ih =>
    intro done m hr hkf hdone hst hp hf
    obtain ⟨hfresh, hend, hrest⟩ := endsFreshFrom_cons hf
    have hg : GoodEntryR ops e := ⟨(hst e (List.mem_cons_self ..)).1, (hst e (List.mem_cons_self ..)).2, hend⟩
    obtain ⟨m1, h1, hr1, hkf1, hc1, hkeep1⟩ := addBlock_stepR hev hr hkf hdone hg hfresh
    have hp' := List.pairwise_cons.1 hp
    have hdone1 : ∀ d ∈ e :: done, GoodEntryR ops d := by
      intro d hd
      rcases List.mem_cons.1 hd with rfl | hd
      · exact hg
      · exact hdone d hd
    obtain ⟨m2, h2, hr2, hc2, hkeep2⟩ :=
      ih (e :: done) m1 hr1 hkf1 hdone1 (fun x hx => hst x (List.mem_cons_of_mem _ hx)) hp'.2 hrest
    refine ⟨m2, by simp [addBlocks, h1, h2], hr2, ?_, ?_⟩
    · intro x hx
      rcases List.mem_cons.1 hx with rfl | hx
      · exact hkeep2 x hg (fun y hy => hp'.1 y hy) hc1
      · exact hc2 x hx
    · intro d hgd hne hc
      apply hkeep2 d hgd (fun y hy => hne y (List.mem_cons_of_mem _ hy))
      exact hkeep1 d hgd (hne e (List.mem_cons_self ..)) hc

theorem keysFrom_init (ops : List PreOp) : KeysFrom ops [] (ops.map toX) := by
  intro x hx
  obtain ⟨o, ho, rfl⟩ := List.mem_map.1 hx
  exact Or.inl ⟨o, ho, rfl⟩

/-- the general statement: `stopsOnOps` replaced by `endsFresh` -/
theorem addSetupExcept_closedR (ops : List PreOp) (entries : List ExcEntry) (out : List XOp)
    (hev : evenOffs ops = true) (hfr : endsFresh ops entries = true) (hsp : startsPos ops entries = true)
    (h : addSetupExcept ops entries = .ok out) :
    ∃ ks, kept ops entries = .ok ks ∧
      (∀ e ∈ ks,
        (∃ x ∈ out, x.off = 2 * e.start - 1 ∧ x.cls = Cls.SETUP_EXCEPT_311 ∧ x.pre = some (2 * e.target)) ∧
        (∃ r, endR ops e = some r ∧ ∃ y ∈ out, y.off = 2 * r + 1 ∧ y.cls = Cls.POP_BLOCK)) ∧
      (∀ o ∈ ops, ∃ x ∈ out, x.off = 2 * o.off ∧ x.cls = o.cls ∧ x.argval = o.argval ∧ x.pre = none) := by
  have hev' : ∀ o ∈ ops, o.off % 2 = 0 := by
    intro o ho
    have := (List.all_eq_true.1 hev) o ho
    simpa using this
  unfold addSetupExcept at h
  cases hk : kept ops entries with
  | error x => simp [hk] at h
  | ok ks =>
    simp only [hk] at h
    have hspec := keptFrom_spec ops entries [] ks hk
    have hst : ∀ e ∈ ks, e.start ≠ 0 ∧ hasPreOff ops e.start = true := by
      intro e he
      obtain ⟨_, s, hs, _⟩ := hspec.1 e he
      obtain ⟨hsm, hso⟩ := preOpAt_some hs
      refine ⟨?_, hasPreOff_iff.2 ⟨s, hsm, hso⟩⟩
      have := hsp; simp only [startsPos, hk, List.all_eq_true] at this
      simpa using this e he
    have hfr' : endsFreshFrom ops [] ks = true := by
      have := hfr; simp only [endsFresh, hk] at this; exact this
    obtain ⟨m', hm', hr', hc', _⟩ :=
      addBlocks_closedR hev' ks [] (ops.map toX) (fun o ho => List.mem_map.2 ⟨o, ho, rfl⟩) (keysFrom_init ops)
        (by simp) hst hspec.2 hfr'
    simp only [hm'] at h
    split at h
    · cases h
    · simp only [Except.ok.injEq] at h
      subst h
      refine ⟨ks, rfl, ?_, ?_⟩
      · intro e he
        obtain ⟨⟨x, hx, hxo, hxc, hxp⟩, ⟨r, her, y, hy, hyo, hyc⟩⟩ := hc' e he
        constructor
        · exact ⟨flagOp _ x, mem_sortX.2 (List.mem_map.2 ⟨x, hx, rfl⟩), by rw [flagOp_off, hxo],
            by rw [flagOp_cls, hxc], by rw [flagOp_pre, hxp]⟩
        · exact ⟨r, her, flagOp _ y, mem_sortX.2 (List.mem_map.2 ⟨y, hy, rfl⟩), by rw [flagOp_off, hyo],
            by rw [flagOp_cls, hyc]⟩
      · intro o ho
        exact ⟨flagOp _ (toX o), mem_sortX.2 (List.mem_map.2 ⟨toX o, hr' o ho, rfl⟩), by rw [flagOp_off]; rfl,
          by rw [flagOp_cls]; rfl, by rw [flagOp_argval]; rfl, by rw [flagOp_pre]; rfl⟩

end PytypeModel.Blocks
