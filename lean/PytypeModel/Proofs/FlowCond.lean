import PytypeModel.Bool.Conditions

/-! Lemmas about the condition constructors of `rewrite/flow/conditions.py` (C18). -/
namespace PytypeModel.Flow

/-- induction principle for the nested inductive `Cond` -/
theorem Cond.ind {P : Cond → Prop} (tt : P .tt) (ff : P .ff) (atom : ∀ i, P (.atom i))
    (not : ∀ c, P c → P (.not c))
    (and : ∀ cs, (∀ c ∈ cs, P c) → P (.and cs))
    (or : ∀ cs, (∀ c ∈ cs, P c) → P (.or cs)) : ∀ c, P c := by
  intro c
  refine Cond.rec (motive_1 := P) (motive_2 := fun cs => ∀ c ∈ cs, P c)
    tt ff atom (fun c ih => not c ih) (fun cs ih => and cs ih) (fun cs ih => or cs ih)
    ?_ ?_ c
  · intro c h; cases h
  · intro hd tl ih1 ih2 c hc
    rcases List.mem_cons.1 hc with h | h
    · exact h ▸ ih1
    · exact ih2 c h

theorem Cond.anyBeqL_eq (cs : List Cond) (d : Cond) :
    Cond.anyBeqL cs d = cs.any (fun c => c.beq d) := by
  induction cs with
  | nil => simp [Cond.anyBeqL]
  | cons c cs ih => simp [Cond.anyBeqL, ih]

theorem Cond.subsetL_eq (cs ds : List Cond) :
    Cond.subsetL cs ds = cs.all (fun c => ds.any (fun d => c.beq d)) := by
  induction cs with
  | nil => simp [Cond.subsetL]
  | cons c cs ih => simp [Cond.subsetL, ih]

theorem Cond.evalAll_eq (ρ : Nat → Bool) (cs : List Cond) :
    Cond.evalAll ρ cs = cs.all (fun c => c.eval ρ) := by
  induction cs with
  | nil => simp [Cond.evalAll]
  | cons c cs ih => simp [Cond.evalAll, ih]

theorem Cond.evalAny_eq (ρ : Nat → Bool) (cs : List Cond) :
    Cond.evalAny ρ cs = cs.any (fun c => c.eval ρ) := by
  induction cs with
  | nil => simp [Cond.evalAny]
  | cons c cs ih => simp [Cond.evalAny, ih]

@[simp] theorem Cond.eval_tt (ρ : Nat → Bool) : Cond.tt.eval ρ = true := by simp [Cond.eval]
@[simp] theorem Cond.eval_ff (ρ : Nat → Bool) : Cond.ff.eval ρ = false := by simp [Cond.eval]
@[simp] theorem Cond.eval_atom (ρ : Nat → Bool) (i : Nat) : (Cond.atom i).eval ρ = ρ i := by
  simp [Cond.eval]
@[simp] theorem Cond.eval_not (ρ : Nat → Bool) (c : Cond) : (Cond.not c).eval ρ = !(c.eval ρ) := by
  simp [Cond.eval]
@[simp] theorem Cond.eval_and (ρ : Nat → Bool) (cs : List Cond) :
    (Cond.and cs).eval ρ = cs.all (fun c => c.eval ρ) := by
  simp [Cond.eval, Cond.evalAll_eq]
@[simp] theorem Cond.eval_or (ρ : Nat → Bool) (cs : List Cond) :
    (Cond.or cs).eval ρ = cs.any (fun c => c.eval ρ) := by
  simp [Cond.eval, Cond.evalAny_eq]

/-- the two `beq` conditions on children lists, as membership statements -/
theorem Cond.setEq_iff (cs ds : List Cond) :
    (Cond.subsetL cs ds && ds.all (fun d => Cond.anyBeqL cs d)) = true ↔
      (∀ c ∈ cs, ∃ d ∈ ds, c.beq d = true) ∧ (∀ d ∈ ds, ∃ c ∈ cs, c.beq d = true) := by
  simp [Cond.subsetL_eq, Cond.anyBeqL_eq]

/-- Python `==` on conditions never identifies two conditions with different truth tables
(so storing conditions in `set`s / `frozenset`s cannot change meaning). -/
theorem Cond.beq_sound (ρ : Nat → Bool) : ∀ a b : Cond, a.beq b = true → a.eval ρ = b.eval ρ := by
  intro a
  induction a using Cond.ind with
  | tt => intro b h; cases b <;> simp_all [Cond.beq]
  | ff => intro b h; cases b <;> simp_all [Cond.beq]
  | atom i => intro b h; cases b <;> simp_all [Cond.beq]
  | not c ih =>
    intro b h
    cases b <;> simp [Cond.beq] at h
    rename_i b
    simp [ih b h]
  | and cs ih =>
    intro b h
    cases b <;> try (simp [Cond.beq] at h; done)
    rename_i ds
    rw [Cond.beq, Cond.setEq_iff] at h
    rw [Cond.eval_and, Cond.eval_and, Bool.eq_iff_iff]
    simp only [List.all_eq_true]
    constructor
    · intro hall d hd
      obtain ⟨c, hc, hcd⟩ := h.2 d hd
      rw [← ih c hc d hcd]; exact hall c hc
    · intro hall c hc
      obtain ⟨d, hd, hcd⟩ := h.1 c hc
      rw [ih c hc d hcd]; exact hall d hd
  | or cs ih =>
    intro b h
    cases b <;> try (simp [Cond.beq] at h; done)
    rename_i ds
    rw [Cond.beq, Cond.setEq_iff] at h
    rw [Cond.eval_or, Cond.eval_or, Bool.eq_iff_iff]
    simp only [List.any_eq_true]
    constructor
    · rintro ⟨c, hc, hev⟩
      obtain ⟨d, hd, hcd⟩ := h.1 c hc
      exact ⟨d, hd, by rw [← ih c hc d hcd]; exact hev⟩
    · rintro ⟨d, hd, hev⟩
      obtain ⟨c, hc, hcd⟩ := h.2 d hd
      exact ⟨c, hc, by rw [ih c hc d hcd]; exact hev⟩

/-- `beq` is reflexive (every condition is found again in a set it was added to). -/
theorem Cond.beq_refl : ∀ a : Cond, a.beq a = true := by
  intro a
  induction a using Cond.ind with
  | tt => simp [Cond.beq]
  | ff => simp [Cond.beq]
  | atom i => simp [Cond.beq]
  | not c ih => simpa [Cond.beq] using ih
  | and cs ih =>
    rw [Cond.beq, Cond.setEq_iff]
    exact ⟨fun c hc => ⟨c, hc, ih c hc⟩, fun c hc => ⟨c, hc, ih c hc⟩⟩
  | or cs ih =>
    rw [Cond.beq, Cond.setEq_iff]
    exact ⟨fun c hc => ⟨c, hc, ih c hc⟩, fun c hc => ⟨c, hc, ih c hc⟩⟩

/-! ### Not -/
theorem eval_mkNot' (ρ : Nat → Bool) (c : Cond) : (mkNot c).eval ρ = !(c.eval ρ) := by
  cases c <;> simp [mkNot]

/-! ### set operations -/
theorem Cond.memL_sound (ρ : Nat → Bool) (x : Cond) (cs : List Cond) (h : x.memL cs = true) :
    ∃ c ∈ cs, c.eval ρ = x.eval ρ := by
  simp only [Cond.memL, List.any_eq_true] at h
  obtain ⟨c, hc, hb⟩ := h
  exact ⟨c, hc, Cond.beq_sound ρ c x hb⟩

theorem Cond.all_insertL (ρ : Nat → Bool) (x : Cond) (cs : List Cond) :
    (Cond.insertL x cs).all (fun c => c.eval ρ) = (cs.all (fun c => c.eval ρ) && x.eval ρ) := by
  unfold Cond.insertL
  split
  · rename_i h
    obtain ⟨c, hc, he⟩ := Cond.memL_sound ρ x cs h
    rw [Bool.eq_iff_iff]
    simp only [Bool.and_eq_true, List.all_eq_true]
    exact ⟨fun hall => ⟨hall, by rw [← he]; exact hall c hc⟩, fun h => h.1⟩
  · simp

theorem Cond.any_insertL (ρ : Nat → Bool) (x : Cond) (cs : List Cond) :
    (Cond.insertL x cs).any (fun c => c.eval ρ) = (cs.any (fun c => c.eval ρ) || x.eval ρ) := by
  unfold Cond.insertL
  split
  · rename_i h
    obtain ⟨c, hc, he⟩ := Cond.memL_sound ρ x cs h
    rw [Bool.eq_iff_iff]
    simp only [Bool.or_eq_true, List.any_eq_true]
    exact ⟨fun h => Or.inl h, fun h => h.elim id (fun hx => ⟨c, hc, by rw [he]; exact hx⟩)⟩
  · simp

theorem Cond.isTT_iff (c : Cond) : c.isTT = true ↔ c = .tt := by cases c <;> simp [Cond.isTT]
theorem Cond.isFF_iff (c : Cond) : c.isFF = true ↔ c = .ff := by cases c <;> simp [Cond.isFF]

/-! ### the `_Composite.make` loop, `And` instance -/
theorem compLoop_and (ρ : Nat → Bool) (args : List Cond) : ∀ acc : List Cond,
    match compLoop .ff .tt args acc with
    | .ok cs => cs.all (fun c => c.eval ρ) =
        (acc.all (fun c => c.eval ρ) && args.all (fun c => c.eval ρ))
    | .error r => r.eval ρ = false ∧
        (acc.all (fun c => c.eval ρ) && args.all (fun c => c.eval ρ)) = false := by
  induction args with
  | nil => intro acc; simp [compLoop]
  | cons arg rest ih =>
    intro acc
    unfold compLoop
    by_cases h1 : Cond.isConst .tt arg = true
    · rw [if_pos h1]
      have : arg = .tt := (Cond.isTT_iff arg).1 h1
      subst this
      simpa using ih acc
    · rw [if_neg h1]
      by_cases h2 : Cond.isConst .ff arg = true
      · rw [if_pos h2]
        have : arg = .ff := (Cond.isFF_iff arg).1 h2
        subst this
        simp
      · rw [if_neg h2]
        by_cases h3 : (mkNot arg).memL acc = true
        · rw [if_pos h3]
          obtain ⟨m, hm, he⟩ := Cond.memL_sound ρ _ _ h3
          rw [eval_mkNot'] at he
          refine ⟨by simp, ?_⟩
          cases harg : arg.eval ρ
          · simp [harg]
          · have : acc.all (fun c => c.eval ρ) = false := by
              rw [List.all_eq_false]
              exact ⟨m, hm, by simp [he, harg]⟩
            simp [this]
        · rw [if_neg h3]
          have := ih (Cond.insertL arg acc)
          revert this
          cases compLoop .ff .tt rest (Cond.insertL arg acc) with
          | ok cs => simp [Cond.all_insertL, Bool.and_assoc]
          | error r => simp [Cond.all_insertL, Bool.and_assoc]

/-! ### the `_Composite.make` loop, `Or` instance -/
theorem compLoop_or (ρ : Nat → Bool) (args : List Cond) : ∀ acc : List Cond,
    match compLoop .tt .ff args acc with
    | .ok cs => cs.any (fun c => c.eval ρ) =
        (acc.any (fun c => c.eval ρ) || args.any (fun c => c.eval ρ))
    | .error r => r.eval ρ = true ∧
        (acc.any (fun c => c.eval ρ) || args.any (fun c => c.eval ρ)) = true := by
  induction args with
  | nil => intro acc; simp [compLoop]
  | cons arg rest ih =>
    intro acc
    unfold compLoop
    by_cases h1 : Cond.isConst .ff arg = true
    · rw [if_pos h1]
      have : arg = .ff := (Cond.isFF_iff arg).1 h1
      subst this
      simpa using ih acc
    · rw [if_neg h1]
      by_cases h2 : Cond.isConst .tt arg = true
      · rw [if_pos h2]
        have : arg = .tt := (Cond.isTT_iff arg).1 h2
        subst this
        simp
      · rw [if_neg h2]
        by_cases h3 : (mkNot arg).memL acc = true
        · rw [if_pos h3]
          obtain ⟨m, hm, he⟩ := Cond.memL_sound ρ _ _ h3
          rw [eval_mkNot'] at he
          refine ⟨by simp, ?_⟩
          cases harg : arg.eval ρ
          · have : acc.any (fun c => c.eval ρ) = true := by
              rw [List.any_eq_true]
              exact ⟨m, hm, by simp [he, harg]⟩
            simp [this]
          · simp [harg]
        · rw [if_neg h3]
          have := ih (Cond.insertL arg acc)
          revert this
          cases compLoop .tt .ff rest (Cond.insertL arg acc) with
          | ok cs => simp [Cond.any_insertL, Bool.or_assoc]
          | error r => simp [Cond.any_insertL, Bool.or_assoc]

theorem eval_mkAnd' (ρ : Nat → Bool) (args : List Cond) :
    (mkAnd args).eval ρ = args.all (fun c => c.eval ρ) := by
  have := compLoop_and ρ args []
  unfold mkAnd mkComp
  revert this
  cases compLoop .ff .tt args [] with
  | error r => intro h; simp at h; simp [h.1, h.2]
  | ok cs =>
    intro h
    match cs, h with
    | [], h => simpa using h
    | [c], h => simpa using h
    | c :: d :: cs, h => simpa using h

theorem eval_mkOr' (ρ : Nat → Bool) (args : List Cond) :
    (mkOr args).eval ρ = args.any (fun c => c.eval ρ) := by
  have := compLoop_or ρ args []
  unfold mkOr mkComp
  revert this
  cases compLoop .tt .ff args [] with
  | error r => intro h; simp at h; simp [h.1, h.2]
  | ok cs =>
    intro h
    match cs, h with
    | [], h => simpa using h
    | [c], h => simpa using h
    | c :: d :: cs, h => simpa using h

end PytypeModel.Flow
