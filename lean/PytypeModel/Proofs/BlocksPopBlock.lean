import PytypeModel.Proofs.BlocksOpcodes
import PytypeModel.Proofs.BlocksOrder

/-! Proofs about `addPopBlockTargets` (blocks.add_pop_block_targets): every `block_target` it assigns is the
`target` of some op of the stream (hence a member of `targets` in `_split_bytecode`), nothing else changes,
and the loop's fuel suffices. -/
namespace PytypeModel.Blocks

/-- `t` is the `target` attribute of some op object -/
def IsTarget (ops : Array Op) (t : Nat) : Prop := ∃ j, (opAt ops j).target = some t

theorem pbBranch_ok {ops : Array Op} {i : Nat} {stack : List Nat}
    {r : List Nat × List (Nat × List Nat) × Option Nat} (h : pbBranch ops i stack = .ok r) :
    r.2.1.length ≤ 1 ∧ (∀ e ∈ r.2.1, IsTarget ops e.1) ∧ (∀ t, r.2.2 = some t → IsTarget ops t) := by
  unfold pbBranch at h
  simp only at h
  by_cases c1 : (info (opAt ops i).cls).isPopBlock = true
  · simp only [c1, if_true] at h
    cases stack with
    | nil => simp at h
    | cons top below =>
      simp only [Except.ok.injEq] at h; subst h
      exact ⟨by simp, by simp, fun t ht => ⟨top, ht⟩⟩
  · simp only [c1] at h
    by_cases c2 : (info (opAt ops i).cls).isRaiseVarargs = true
    · simp only [c2, if_true, Bool.false_eq_true, if_false, Except.ok.injEq] at h; subst h
      refine ⟨by simp, by simp, ?_⟩
      intro t ht
      simp only at ht
      cases hf : stack.find? (fun b => (ciAt ops b).isSetupExcept) with
      | none => simp [hf] at ht
      | some b => simp only [hf, Option.bind_some] at ht; exact ⟨b, ht⟩
    · simp only [c2] at h
      by_cases c3 : (info (opAt ops i).cls).isBreakLoop = true
      · simp only [c3, if_true, Bool.false_eq_true, if_false] at h
        cases hd : stack.dropWhile (fun b => !(ciAt ops b).isSetupLoop) with
        | nil => simp only [hd, Except.ok.injEq] at h; subst h; exact ⟨by simp, by simp, by simp⟩
        | cons b below =>
          simp only [hd] at h
          cases ht : (opAt ops b).target with
          | none => simp [ht] at h
          | some t =>
            simp only [ht] at h
            by_cases hti : (t == i) = true
            · simp [hti] at h
            · simp only [hti, Bool.false_eq_true, if_false, Except.ok.injEq] at h; subst h
              refine ⟨by simp, ?_, ?_⟩
              · intro e he; simp at he; subst he; exact ⟨b, ht⟩
              · intro t' ht'; simp at ht'; subst ht'; exact ⟨b, ht⟩
      · simp only [c3] at h
        by_cases c4 : (info (opAt ops i).cls).isSetupExcept = true
        · simp only [c4, if_true, Bool.false_eq_true, if_false] at h
          cases ht : (opAt ops i).target with
          | none => simp [ht] at h
          | some t =>
            simp only [ht, Except.ok.injEq] at h; subst h
            refine ⟨by simp, ?_, by simp⟩
            intro e he; simp at he; subst he; exact ⟨i, ht⟩
        · simp only [c4] at h
          by_cases c5 : (info (opAt ops i).cls).pushesBlock = true
          · simp only [c5, if_true, Bool.false_eq_true, if_false] at h
            cases ht : (opAt ops i).target with
            | none => simp [ht] at h
            | some t => simp only [ht, Except.ok.injEq] at h; subst h; exact ⟨by simp, by simp, by simp⟩
          · simp only [c5] at h
            by_cases c6 : (info (opAt ops i).cls).doesJump = true
            · simp only [c6, if_true, Bool.false_eq_true, if_false] at h
              cases ht : (opAt ops i).target with
              | none => simp only [ht, Except.ok.injEq] at h; subst h; exact ⟨by simp, by simp, by simp⟩
              | some t =>
                simp only [ht] at h
                by_cases c7 : (opAt ops i).pushExc = true
                · simp only [c7, if_true] at h
                  cases hs : findSetupBack ops (ops.size + 1) t with
                  | none => simp [hs] at h
                  | some s =>
                    simp only [hs, Except.ok.injEq] at h; subst h
                    refine ⟨by simp, ?_, by simp⟩
                    intro e he; simp at he; subst he; exact ⟨i, ht⟩
                · simp only [c7, Bool.false_eq_true, if_false, Except.ok.injEq] at h; subst h
                  refine ⟨by simp, ?_, by simp⟩
                  intro e he; simp at he; subst he; exact ⟨i, ht⟩
            · simp only [c6, Bool.false_eq_true, if_false, Except.ok.injEq] at h; subst h
              exact ⟨by simp, by simp, by simp⟩

theorem bts_mem (ops : Array Op) (i : Nat) (bt : Option Nat) (stbt : List (Nat × Nat))
    (hbt : ∀ t, bt = some t → IsTarget ops t) :
    ∀ e ∈ (match bt with | some t => (i, t) :: stbt | none => stbt), e ∈ stbt ∨ IsTarget ops e.2 := by
  intro e he
  cases bt with
  | none => exact Or.inl he
  | some t =>
    rcases List.mem_cons.1 he with rfl | he
    · exact Or.inr (hbt t rfl)
    · exact Or.inl he

/-- what one visit does to the state -/
theorem pbVisit_ok {ops : Array Op} {i : Nat} {stack : List Nat} {st st' : PbSt}
    (h : pbVisit ops i stack st = .ok st') :
    st'.seen = st.seen ∧
    st'.todo.length ≤ st.todo.length + 2 ∧
    (∀ e ∈ st'.todo, e ∈ st.todo ∨ IsTarget ops e.1 ∨ (opAt ops i).next = some e.1) ∧
    (∀ e ∈ st'.bt, e ∈ st.bt ∨ IsTarget ops e.2) := by
  unfold pbVisit at h
  cases hb : pbBranch ops i stack with
  | error e => simp [hb] at h
  | ok r =>
    obtain ⟨stack', pushed, bt⟩ := r
    obtain ⟨hlen, hpush, hbt⟩ := pbBranch_ok hb
    simp only at hlen hpush hbt
    simp only [hb] at h
    have hbts := bts_mem ops i bt st.bt hbt
    by_cases hn : (ciAt ops i).noNext = true
    · simp only [hn, if_true, Except.ok.injEq] at h
      subst h
      refine ⟨rfl, ?_, ?_, hbts⟩
      · simp only [List.length_append]; omega
      · intro e he
        rcases List.mem_append.1 he with he | he
        · exact Or.inr (Or.inl (hpush e he))
        · exact Or.inl he
    · simp only [hn, Bool.false_eq_true, if_false] at h
      cases hnx : (opAt ops i).next with
      | none => simp [hnx] at h
      | some n =>
        simp only [hnx, Except.ok.injEq] at h
        subst h
        refine ⟨rfl, ?_, ?_, hbts⟩
        · simp only [List.length_cons, List.length_append]; omega
        · intro e he
          rcases List.mem_cons.1 he with rfl | he
          · exact Or.inr (Or.inr rfl)
          · rcases List.mem_append.1 he with he | he
            · exact Or.inr (Or.inl (hpush e he))
            · exact Or.inl he

theorem pbLoop_bt {ops : Array Op} : ∀ (f : Nat) (st st' : PbSt), pbLoop ops f st = .ok st' →
    (∀ e ∈ st.bt, IsTarget ops e.2) → ∀ e ∈ st'.bt, IsTarget ops e.2
  | 0, st, st', h, hinv => by
    unfold pbLoop at h
    split at h
    · simp at h; subst h; exact hinv
    · simp at h
  | f + 1, st, st', h, hinv => by
    unfold pbLoop at h
    cases ht : st.todo with
    | nil => simp [ht] at h; subst h; exact hinv
    | cons e rest =>
      obtain ⟨i, stack⟩ := e
      simp only [ht] at h
      by_cases hs : st.seen.contains i = true
      · simp only [hs, if_true] at h
        exact pbLoop_bt f _ st' h hinv
      · simp only [hs] at h
        cases hv : pbVisit ops i stack { st with todo := rest, seen := i :: st.seen } with
        | error e => simp [hv] at h
        | ok st1 =>
          simp only [hv] at h
          refine pbLoop_bt f st1 st' h ?_
          intro e he
          rcases (pbVisit_ok hv).2.2.2 e he with h1 | h1
          · exact hinv e h1
          · exact h1

theorem isTarget_mem {ops : List Op} {t : Nat} (h : IsTarget ops.toArray t) : t ∈ targetsOf ops := by
  obtain ⟨j, hj⟩ := h
  unfold opAt at hj
  unfold targetsOf
  rw [List.mem_filterMap]
  by_cases hlt : j < ops.length
  · refine ⟨ops[j], List.getElem_mem hlt, ?_⟩
    simpa [Array.getD, hlt] using hj
  · have : ops.toArray.getD j default = default := by simp [Array.getD, hlt]
    rw [this] at hj
    have hd : (default : Op).target = none := rfl
    rw [hd] at hj
    cases hj

/-! ### fuel -/

theorem pbBranch_no_fuel (ops : Array Op) (i : Nat) (stack : List Nat) :
    pbBranch ops i stack ≠ .error .outOfFuel := by
  unfold pbBranch
  simp only
  repeat' split
  all_goals simp

theorem pbVisit_no_fuel (ops : Array Op) (i : Nat) (stack : List Nat) (st : PbSt) :
    pbVisit ops i stack st ≠ .error .outOfFuel := by
  unfold pbVisit
  have := pbBranch_no_fuel ops i stack
  repeat' split
  all_goals simp_all

theorem next_lt_of_wf : ∀ (l : List Op) (k : Nat) (p : Option Nat), opsWFFrom k p l = true →
    ∀ o ∈ l, ∀ m, o.next = some m → m < k + l.length
  | [], _, _, _, o, ho, _, _ => by simp at ho
  | a :: l, k, p, hw, o, ho, m, hm => by
    unfold opsWFFrom at hw
    simp only [Bool.and_eq_true, beq_iff_eq] at hw
    obtain ⟨⟨⟨_, _⟩, w3⟩, w4⟩ := hw
    rcases List.mem_cons.1 ho with rfl | ho
    · rw [w3] at hm
      cases l with
      | nil => simp at hm
      | cons b l' => simp at hm; simp only [List.length_cons]; omega
    · have := next_lt_of_wf l (k + 1) (some k) w4 o ho m hm
      simp only [List.length_cons]; omega

/-- the index facts `add_pop_block_targets` relies on -/
structure PbWF (ops : List Op) : Prop where
  target : ∀ j t, (opAt ops.toArray j).target = some t → t < ops.length
  next : ∀ j m, (opAt ops.toArray j).next = some m → m < ops.length

theorem opAt_cases (ops : List Op) (j : Nat) : opAt ops.toArray j ∈ ops ∨ opAt ops.toArray j = default := by
  unfold opAt
  by_cases hlt : j < ops.length
  · left; simp [Array.getD, hlt]
  · right; simp [Array.getD, hlt]

theorem pbWF_of_opsWF {ops : List Op} (h : opsWF ops = true) : PbWF ops := by
  unfold opsWF at h
  simp only [Bool.and_eq_true, List.all_eq_true] at h
  obtain ⟨h1, h2⟩ := h
  constructor
  · intro j t ht
    rcases opAt_cases ops j with hm | hd
    · have := (h2 _ hm).1.1
      rw [ht] at this
      simpa using this
    · rw [hd] at ht; cases ht
  · intro j m hm
    rcases opAt_cases ops j with hmem | hd
    · have := next_lt_of_wf ops 0 none h1 _ hmem m hm
      omega
    · rw [hd] at hm; cases hm

def pbPot (n : Nat) (seen : List Nat) : Nat := pot (List.range n) (fun _ => [0, 0]) seen

theorem pbLoop_fuel {ops : List Op} (hw : PbWF ops) : ∀ (f : Nat) (st : PbSt),
    (∀ e ∈ st.todo, e.1 < ops.length) → st.todo.length + pbPot ops.length st.seen ≤ f →
    pbLoop ops.toArray f st ≠ .error .outOfFuel
  | 0, st, _, hf => by
    unfold pbLoop
    have : st.todo = [] := by
      cases ht : st.todo with
      | nil => rfl
      | cons a l => simp [ht] at hf
    simp [this]
  | f + 1, st, hidx, hf => by
    unfold pbLoop
    cases ht : st.todo with
    | nil => simp
    | cons e rest =>
      obtain ⟨i, stack⟩ := e
      simp only
      have hi : i < ops.length := hidx (i, stack) (by simp [ht])
      have hrest : ∀ e ∈ rest, e.1 < ops.length := fun e he => hidx e (by simp [ht, he])
      simp only [ht, List.length_cons] at hf
      by_cases hs : st.seen.contains i = true
      · simp only [hs, if_true]
        exact pbLoop_fuel hw f _ hrest (by simp only; omega)
      · have hs' : st.seen.contains i = false := by simpa using hs
        simp only [hs', Bool.false_eq_true, if_false]
        cases hv : pbVisit ops.toArray i stack { st with todo := rest, seen := i :: st.seen } with
        | error e =>
          intro heq
          simp only [Except.error.injEq] at heq
          subst heq
          exact pbVisit_no_fuel _ _ _ _ hv
        | ok st1 =>
          obtain ⟨hseen, hlen, htodo, _⟩ := pbVisit_ok hv
          simp only at hseen hlen htodo
          have hp := pot_cons (fun _ => [0, 0]) st.seen i (by simpa using hs) (List.range ops.length)
            (List.mem_range.2 hi)
          simp only [List.length_cons, List.length_nil] at hp
          refine pbLoop_fuel hw f st1 ?_ ?_
          · intro e he
            rcases htodo e he with h1 | ⟨j, hj⟩ | h1
            · exact hrest e h1
            · exact hw.target j _ hj
            · exact hw.next i _ h1
          · rw [hseen]
            unfold pbPot at hf ⊢
            omega

theorem pbPot_nil (n : Nat) : pbPot n [] = 2 * n := by
  unfold pbPot
  rw [pot_nil]
  unfold edgeCount
  induction n with
  | zero => simp
  | succ k ih =>
    rw [List.range_succ, List.map_append, List.sum_append, ih]
    simp; omega

/-- `add_pop_block_targets` terminates within the model's fuel on well-formed streams -/
theorem addPopBlockTargets_no_fuel {ops : List Op} (hw : opsWF ops = true) :
    addPopBlockTargets ops ≠ .error .outOfFuel := by
  cases ops with
  | nil => simp [addPopBlockTargets]
  | cons first rest =>
    have hpb := pbWF_of_opsWF hw
    have hidx : first.idx = 0 := by
      unfold opsWF opsWFFrom at hw
      simp only [Bool.and_eq_true, beq_iff_eq] at hw
      exact hw.1.1.1.1
    have := pbLoop_fuel hpb (2 * (first :: rest).length + 2) { todo := [(first.idx, [])] }
      (by intro e he; simp at he; subst he; simp [hidx])
      (by simp only [pbPot_nil, List.length_cons, List.length_nil]; omega)
    simp only [addPopBlockTargets]
    split
    · rename_i e he
      intro heq
      simp only [Except.error.injEq] at heq
      subst heq
      exact this he
    · simp

/-- what `add_pop_block_targets` leaves alone / guarantees, per op -/
def PopRel (ops : List Op) (a b : Op) : Prop :=
  b.idx = a.idx ∧ b.prev = a.prev ∧ b.next = a.next ∧ b.cls = a.cls ∧ b.target = a.target ∧ b.eaft = a.eaft ∧
    (∀ t, b.blockTarget = some t → t ∈ targetsOf ops)

/-- `add_pop_block_targets` only writes `block_target`, and only with targets of ops of the stream -/
theorem addPopBlockTargets_ok {ops ops' : List Op} (h : addPopBlockTargets ops = .ok ops') :
    Pointwise (PopRel ops) ops ops' := by
  cases ops with
  | nil => simp [addPopBlockTargets] at h; subst h; trivial
  | cons first rest =>
    simp only [addPopBlockTargets] at h
    split at h
    · simp at h
    · rename_i st hl
      simp only [Except.ok.injEq] at h
      subst h
      have hbt := pbLoop_bt _ _ st hl (by intro e he; simp at he)
      apply pointwise_map
      intro a
      refine ⟨rfl, rfl, rfl, rfl, rfl, rfl, ?_⟩
      intro t ht
      simp only at ht
      obtain ⟨l₁, l₂, heq, _⟩ := List.lookup_eq_some_iff.1 ht
      exact isTarget_mem (hbt (a.idx, t) (by rw [heq]; simp))

end PytypeModel.Blocks
