import PytypeModel.Proofs.DirectorLineSet

/-! # The Director as an interpreter of actions: frame lemmas and the insertion theorems

`Ins p as bs`: `bs` is `as` with extra actions satisfying `p` inserted.  Two simulations:
* trailing directives (`allowedTrailing k T`): the states agree except for the explicit per-line entries
  of line set `k` on the lines `T` (and the function ranges);
* stand-alone directives (`allowedStandalone k`): the states agree except for the transition list of line
  set `k` (and the function ranges). -/
namespace PytypeModel.Director
open PytypeModel.Generated

/-! ## state frame lemmas -/

namespace State

@[simp] theorem get_put_same (st : State) (k : Key) (ls : LineSet) : (st.put k ls).get k = ls := by
  simp [get, put]

theorem get_put_ne (st : State) {k k' : Key} (ls : LineSet) (h : k' ≠ k) :
    (st.put k ls).get k' = st.get k' := by
  have : (k' == k) = false := by simpa using h
  simp [get, put, List.lookup, this]

@[simp] theorem put_fr (st : State) (k : Key) (ls : LineSet) : (st.put k ls).fr = st.fr := rfl

end State

/-! ## insertion relation -/

inductive Ins (p : Action → Bool) : List Action → List Action → Prop where
  | nil : Ins p [] []
  | keep (a : Action) {as bs : List Action} : Ins p as bs → Ins p (a :: as) (a :: bs)
  | ins (b : Action) {as bs : List Action} : p b = true → Ins p as bs → Ins p as (b :: bs)
  /-- an `adjust_end` of the left list without counterpart on the right -/
  | dropAdj (o n : Nat) {as bs : List Action} : Ins p as bs → Ins p (.adjustEnd o n :: as) bs

namespace Ins

theorem refl (p : Action → Bool) : ∀ as, Ins p as as
  | [] => .nil
  | a :: as => .keep a (refl p as)

theorem mono {p q : Action → Bool} (h : ∀ a, p a = true → q a = true) {as bs : List Action}
    (hi : Ins p as bs) : Ins q as bs := by
  induction hi with
  | nil => exact .nil
  | keep a _ ih => exact .keep a ih
  | ins b hb _ ih => exact .ins b (h b hb) ih
  | dropAdj o n _ ih => exact .dropAdj o n ih

theorem insList {p : Action → Bool} {as bs : List Action} (xs : List Action)
    (hx : ∀ x ∈ xs, p x = true) (hi : Ins p as bs) : Ins p as (xs ++ bs) := by
  induction xs with
  | nil => simpa using hi
  | cons x xs ih =>
    exact .ins x (hx x (by simp)) (ih (fun y hy => hx y (by simp [hy])))

theorem keepList {p : Action → Bool} {as bs : List Action} (xs : List Action) (hi : Ins p as bs) :
    Ins p (xs ++ as) (xs ++ bs) := by
  induction xs with
  | nil => simpa using hi
  | cons x xs ih => exact .keep x ih

end Ins

theorem allAdjust_ins (p : Action → Bool) : ∀ as : List Action, as.all Action.isAdjust = true → Ins p as []
  | [], _ => .nil
  | a :: as, h => by
    simp only [List.all_cons, Bool.and_eq_true] at h
    cases a with
    | adjustEnd o n => exact .dropAdj o n (allAdjust_ins p as h.2)
    | setLine k l b => simp [Action.isAdjust] at h
    | startRange k l b => simp [Action.isAdjust] at h

theorem insOkB_sound (p : Action → Bool) : ∀ (bs as : List Action), insOkB p bs as = true → Ins p as bs := by
  intro bs
  induction bs with
  | nil => intro as h; exact allAdjust_ins p as (by simpa [insOkB] using h)
  | cons b bs ih =>
    intro as
    induction as with
    | nil =>
      intro h
      simp only [insOkB, insOkAux, Bool.and_eq_true] at h
      exact .ins b h.1 (ih [] h.2)
    | cons a as iha =>
      intro h
      simp only [insOkB, insOkAux] at h
      split at h
      · rename_i hab; subst hab; exact .keep a (ih as h)
      · split at h
        · rename_i hpb; exact .ins b hpb (ih (a :: as) h)
        · simp only [Bool.and_eq_true] at h
          cases a with
          | adjustEnd o n => exact .dropAdj o n (iha (by simpa [insOkB] using h.2))
          | setLine k l v => simp [Action.isAdjust] at h
          | startRange k l v => simp [Action.isAdjust] at h

theorem insOk_sound (p : Action → Bool) (as bs : List Action) (h : insOk p as bs = true) : Ins p as bs :=
  insOkB_sound p bs as h

/-! ## what a single action does to the line sets -/

theorem applyAction_get_ne {st st' : State} {a : Action} {k : Key} (h : applyAction st a = .ok st')
    (hk : ∀ l b, a ≠ .setLine k l b) (hk' : ∀ l b, a ≠ .startRange k l b) : st'.get k = st.get k := by
  cases a with
  | setLine k2 l b =>
    simp only [applyAction] at h; injection h with h; subst h
    have : k ≠ k2 := fun e => hk l b (by rw [e])
    exact State.get_put_ne _ _ this
  | startRange k2 l b =>
    simp only [applyAction] at h
    split at h
    · injection h with h; subst h
      have : k ≠ k2 := fun e => hk' l b (by rw [e])
      exact State.get_put_ne _ _ this
    · cases h
  | adjustEnd o n => simp only [applyAction] at h; injection h with h; subst h; rfl

/-! ## simulation for trailing directives -/

/-- the two states agree except for `k`'s explicit entries on the lines `T` (function ranges free) -/
structure AgreeOff (k : Key) (T : List Nat) (a b : State) : Prop where
  other : ∀ k', k' ≠ k → b.get k' = a.get k'
  trev : (b.get k).trev = (a.get k).trev
  lines : ∀ l, l ∉ T → (b.get k).lines.lookup l = (a.get k).lines.lookup l

theorem AgreeOff.rfl' (k : Key) (T : List Nat) (a : State) : AgreeOff k T a a :=
  ⟨fun _ _ => rfl, rfl, fun _ _ => rfl⟩

theorem lookup_cons_ne {l l' : Nat} {b : Bool} {xs : List (Nat × Bool)} (h : l' ≠ l) :
    List.lookup l' ((l, b) :: xs) = List.lookup l' xs := by
  have : (l' == l) = false := by simpa using h
  simp [List.lookup, this]

theorem AgreeOff.step {k : Key} {T : List Nat} {a b : State} (x : Action) (hab : AgreeOff k T a b) :
    (∀ a', applyAction a x = .ok a' → ∃ b', applyAction b x = .ok b' ∧ AgreeOff k T a' b') ∧
    (∀ e, applyAction a x = .error e → applyAction b x = .error e) := by
  cases x with
  | setLine k2 l v =>
    refine ⟨?_, by intro e h; simp [applyAction] at h⟩
    intro a' h
    simp only [applyAction] at h; injection h with h; subst h
    refine ⟨_, rfl, ?_⟩
    by_cases hk : k2 = k
    · subst hk
      refine ⟨?_, ?_, ?_⟩
      · intro k' hk'; rw [State.get_put_ne _ _ hk', State.get_put_ne _ _ hk']; exact hab.other k' hk'
      · simp [LineSet.setLine, hab.trev]
      · intro l' hl'
        simp only [State.get_put_same, LineSet.setLine]
        by_cases hll : l' = l
        · subst hll; simp [List.lookup]
        · rw [lookup_cons_ne hll, lookup_cons_ne hll]; exact hab.lines l' hl'
    · have hk' : k ≠ k2 := fun e => hk e.symm
      refine ⟨?_, ?_, ?_⟩
      · intro k' hk''
        by_cases h2 : k' = k2
        · subst h2; simp [hab.other k' hk'']
        · rw [State.get_put_ne _ _ h2, State.get_put_ne _ _ h2]; exact hab.other k' hk''
      · rw [State.get_put_ne _ _ hk', State.get_put_ne _ _ hk']; exact hab.trev
      · intro l' hl'; rw [State.get_put_ne _ _ hk', State.get_put_ne _ _ hk']; exact hab.lines l' hl'
  | startRange k2 l v =>
    by_cases hk : k2 = k
    · subst hk
      have htr := hab.trev
      constructor
      · intro a' h
        simp only [applyAction, LineSet.startRange] at h ⊢
        rw [htr]
        cases hst : LineSet.startTrev (a.get k2).trev l v with
        | error e => simp [hst] at h
        | ok t =>
          simp only [hst] at h ⊢
          injection h with h; subst h
          refine ⟨_, rfl, ?_, ?_, ?_⟩
          · intro k' hk'; rw [State.get_put_ne _ _ hk', State.get_put_ne _ _ hk']; exact hab.other k' hk'
          · simp
          · intro l' hl'; simpa using hab.lines l' hl'
      · intro e h
        simp only [applyAction, LineSet.startRange] at h ⊢
        rw [htr]
        cases hst : LineSet.startTrev (a.get k2).trev l v with
        | error e' => simp only [hst] at h ⊢; exact h
        | ok t => simp [hst] at h
    · have hk' : k ≠ k2 := fun e => hk e.symm
      have heq : b.get k2 = a.get k2 := hab.other k2 hk
      constructor
      · intro a' h
        simp only [applyAction] at h ⊢
        rw [heq]
        cases hst : (a.get k2).startRange l v with
        | error e => simp [hst] at h
        | ok ls =>
          simp only [hst] at h ⊢
          injection h with h; subst h
          refine ⟨_, rfl, ?_, ?_, ?_⟩
          · intro k' hk''
            by_cases h2 : k' = k2
            · subst h2; simp
            · rw [State.get_put_ne _ _ h2, State.get_put_ne _ _ h2]; exact hab.other k' hk''
          · rw [State.get_put_ne _ _ hk', State.get_put_ne _ _ hk']; exact hab.trev
          · intro l' hl'; rw [State.get_put_ne _ _ hk', State.get_put_ne _ _ hk']; exact hab.lines l' hl'
      · intro e h
        simp only [applyAction] at h ⊢
        rw [heq]
        cases hst : (a.get k2).startRange l v with
        | error e' => simp only [hst] at h ⊢; exact h
        | ok ls => simp [hst] at h
  | adjustEnd o n =>
    refine ⟨?_, by intro e h; simp [applyAction] at h⟩
    intro a' h
    simp only [applyAction] at h; injection h with h; subst h
    exact ⟨_, rfl, ⟨hab.other, hab.trev, hab.lines⟩⟩

theorem AgreeOff.insert {k : Key} {T : List Nat} {a b : State} (x : Action)
    (hx : allowedTrailing k T x = true) (hab : AgreeOff k T a b) :
    ∃ b', applyAction b x = .ok b' ∧ AgreeOff k T a b' := by
  cases x with
  | setLine k2 l v =>
    cases v with
    | false => simp [allowedTrailing] at hx
    | true =>
      simp only [allowedTrailing, Bool.and_eq_true, beq_iff_eq, List.contains_iff_mem] at hx
      obtain ⟨hk, hl⟩ := hx
      subst hk
      refine ⟨_, rfl, ?_, ?_, ?_⟩
      · intro k' hk'; rw [State.get_put_ne _ _ hk']; exact hab.other k' hk'
      · simp [LineSet.setLine, hab.trev]
      · intro l' hl'
        have hne : l' ≠ l := fun e => hl' (e ▸ hl)
        simp only [State.get_put_same, LineSet.setLine]
        rw [lookup_cons_ne hne]; exact hab.lines l' hl'
  | startRange k2 l v => simp [allowedTrailing] at hx
  | adjustEnd o n => exact ⟨_, rfl, ⟨hab.other, hab.trev, hab.lines⟩⟩

theorem applyAll_ins_trailing {k : Key} {T : List Nat} {as bs : List Action}
    (hi : Ins (allowedTrailing k T) as bs) :
    ∀ (a b : State), AgreeOff k T a b →
      (∀ a', applyAll a as = .ok a' → ∃ b', applyAll b bs = .ok b' ∧ AgreeOff k T a' b') ∧
      (∀ e, applyAll a as = .error e → applyAll b bs = .error e) := by
  induction hi with
  | nil =>
    intro a b hab
    exact ⟨fun a' h => ⟨b, rfl, by simp only [applyAll] at h; injection h with h; subst h; exact hab⟩,
           fun e h => by simp [applyAll] at h⟩
  | keep x _ ih =>
    intro a b hab
    obtain ⟨hok, herr⟩ := hab.step x
    constructor
    · intro a' h
      simp only [applyAll] at h ⊢
      cases hax : applyAction a x with
      | error e => simp [hax] at h
      | ok a1 =>
        simp only [hax] at h
        obtain ⟨b1, hb1, hab1⟩ := hok a1 hax
        simp only [hb1]
        exact (ih a1 b1 hab1).1 a' h
    · intro e h
      simp only [applyAll] at h ⊢
      cases hax : applyAction a x with
      | error e' =>
        simp only [hax] at h; injection h with h; subst h
        simp [herr e' hax]
      | ok a1 =>
        simp only [hax] at h
        obtain ⟨b1, hb1, hab1⟩ := hok a1 hax
        simp only [hb1]
        exact (ih a1 b1 hab1).2 e h
  | ins x hx _ ih =>
    intro a b hab
    obtain ⟨b1, hb1, hab1⟩ := hab.insert x hx
    constructor
    · intro a' h; simp only [applyAll, hb1]; exact (ih a b1 hab1).1 a' h
    · intro e h; simp only [applyAll, hb1]; exact (ih a b1 hab1).2 e h
  | dropAdj o n _ ih =>
    intro a b hab
    have hab1 : AgreeOff k T { a with fr := a.fr.adjustEnd o n } b := ⟨hab.other, hab.trev, hab.lines⟩
    constructor
    · intro a' h; simp only [applyAll, applyAction] at h; exact (ih _ b hab1).1 a' h
    · intro e h; simp only [applyAll, applyAction] at h; exact (ih _ b hab1).2 e h

/-! ## simulation for stand-alone directives -/

/-- the two states agree except for `k`'s transition list (function ranges free) -/
structure AgreeOffRanges (k : Key) (a b : State) : Prop where
  other : ∀ k', k' ≠ k → b.get k' = a.get k'
  lines : (b.get k).lines = (a.get k).lines

theorem applyAction_lines {st st' : State} {x : Action} (k : Key) (h : applyAction st x = .ok st')
    (hx : ∀ l b, x ≠ .setLine k l b) : (st'.get k).lines = (st.get k).lines := by
  cases x with
  | setLine k2 l b =>
    simp only [applyAction] at h; injection h with h; subst h
    have : k ≠ k2 := fun e => hx l b (by rw [e])
    rw [State.get_put_ne _ _ this]
  | startRange k2 l b =>
    simp only [applyAction] at h
    cases hs : (st.get k2).startRange l b with
    | error e => simp [hs] at h
    | ok ls =>
      simp only [hs] at h; injection h with h; subst h
      by_cases hk : k = k2
      · subst hk; simp [LineSet.startRange_lines hs]
      · rw [State.get_put_ne _ _ hk]
  | adjustEnd o n => simp only [applyAction] at h; injection h with h; subst h; rfl

theorem applyAll_ins_standalone {k : Key} {as bs : List Action}
    (hi : Ins (allowedStandalone k) as bs) :
    ∀ (a b a' b' : State), AgreeOffRanges k a b → applyAll a as = .ok a' → applyAll b bs = .ok b' →
      AgreeOffRanges k a' b' := by
  induction hi with
  | nil =>
    intro a b a' b' hab ha hb
    simp only [applyAll] at ha hb; injection ha with ha; injection hb with hb; subst ha; subst hb; exact hab
  | keep x _ ih =>
    intro a b a' b' hab ha hb
    simp only [applyAll] at ha hb
    cases hax : applyAction a x with
    | error e => simp [hax] at ha
    | ok a1 =>
      cases hbx : applyAction b x with
      | error e => simp [hbx] at hb
      | ok b1 =>
        simp only [hax] at ha; simp only [hbx] at hb
        refine ih a1 b1 a' b' ?_ ha hb
        -- one common action keeps the agreement
        cases x with
        | setLine k2 l v =>
          simp only [applyAction] at hax hbx
          injection hax with hax; injection hbx with hbx; subst hax; subst hbx
          by_cases hk : k2 = k
          · subst hk
            exact ⟨fun k' hk' => by rw [State.get_put_ne _ _ hk', State.get_put_ne _ _ hk']; exact hab.other k' hk',
                   by simp [LineSet.setLine, hab.lines]⟩
          · have hk' : k ≠ k2 := fun e => hk e.symm
            refine ⟨?_, by rw [State.get_put_ne _ _ hk', State.get_put_ne _ _ hk']; exact hab.lines⟩
            intro k' hk''
            by_cases h2 : k' = k2
            · subst h2; simp [hab.other k' hk'']
            · rw [State.get_put_ne _ _ h2, State.get_put_ne _ _ h2]; exact hab.other k' hk''
        | startRange k2 l v =>
          by_cases hk : k2 = k
          · subst hk
            refine ⟨?_, ?_⟩
            · intro k' hk'
              rw [applyAction_get_ne hax (by intro l b h; cases h) (by intro l b h; injection h with h1; exact hk' h1.symm),
                  applyAction_get_ne hbx (by intro l b h; cases h) (by intro l b h; injection h with h1; exact hk' h1.symm)]
              exact hab.other k' hk'
            · rw [applyAction_lines k2 hax (by intro l b h; cases h),
                  applyAction_lines k2 hbx (by intro l b h; cases h)]
              exact hab.lines
          · have hk' : k ≠ k2 := fun e => hk e.symm
            have heq : b.get k2 = a.get k2 := hab.other k2 hk
            simp only [applyAction] at hax hbx
            rw [heq] at hbx
            cases hs : (a.get k2).startRange l v with
            | error e => simp [hs] at hax
            | ok ls =>
              simp only [hs] at hax hbx
              injection hax with hax; injection hbx with hbx; subst hax; subst hbx
              refine ⟨?_, by rw [State.get_put_ne _ _ hk', State.get_put_ne _ _ hk']; exact hab.lines⟩
              intro k' hk''
              by_cases h2 : k' = k2
              · subst h2; simp
              · rw [State.get_put_ne _ _ h2, State.get_put_ne _ _ h2]; exact hab.other k' hk''
        | adjustEnd o n =>
          simp only [applyAction] at hax hbx
          injection hax with hax; injection hbx with hbx; subst hax; subst hbx
          exact ⟨hab.other, hab.lines⟩
  | ins x hx _ ih =>
    intro a b a' b' hab ha hb
    simp only [applyAll] at hb
    cases hbx : applyAction b x with
    | error e => simp [hbx] at hb
    | ok b1 =>
      simp only [hbx] at hb
      refine ih a b1 a' b' ?_ ha hb
      cases x with
      | setLine k2 l v => simp [allowedStandalone] at hx
      | startRange k2 l v =>
        simp only [allowedStandalone, beq_iff_eq] at hx
        subst hx
        refine ⟨?_, ?_⟩
        · intro k' hk'
          rw [applyAction_get_ne hbx (by intro l b h; cases h) (by intro l b h; injection h with h1; exact hk' h1.symm)]
          exact hab.other k' hk'
        · rw [applyAction_lines k2 hbx (by intro l b h; cases h)]; exact hab.lines
      | adjustEnd o n =>
        simp only [applyAction] at hbx; injection hbx with hbx; subst hbx
        exact ⟨hab.other, hab.lines⟩
  | dropAdj o n _ ih =>
    intro a b a' b' hab ha hb
    simp only [applyAll, applyAction] at ha
    exact ih { a with fr := a.fr.adjustEnd o n } b a' b' ⟨hab.other, hab.lines⟩ ha hb

/-! ## reading the final state off the action list -/

/-- the transition list of `k` after the actions = `start_range` folded over the calls made on `k` -/
theorem applyAll_trev (k : Key) : ∀ (as : List Action) (st st' : State), applyAll st as = .ok st' →
    LineSet.runTrev (st.get k).trev (rangeCalls k as) = .ok (st'.get k).trev := by
  intro as
  induction as with
  | nil => intro st st' h; simp only [applyAll] at h; injection h with h; subst h; rfl
  | cons x as ih =>
    intro st st' h
    simp only [applyAll] at h
    cases hx : applyAction st x with
    | error e => simp [hx] at h
    | ok st1 =>
      simp only [hx] at h
      have := ih st1 st' h
      cases x with
      | setLine k2 l b =>
        simp only [rangeCalls]
        simp only [applyAction] at hx; injection hx with hx; subst hx
        by_cases hk : k = k2
        · subst hk; simpa [LineSet.setLine] using this
        · rwa [State.get_put_ne _ _ hk] at this
      | startRange k2 l b =>
        simp only [rangeCalls]
        by_cases hk : k2 = k
        · subst hk
          simp only [beq_self_eq_true, ite_true, LineSet.runTrev]
          simp only [applyAction] at hx
          cases hs : (st.get k2).startRange l b with
          | error e => simp [hs] at hx
          | ok ls =>
            simp only [hs] at hx; injection hx with hx; subst hx
            rw [LineSet.startRange_trev hs]
            simpa using this
        · have hk' : (k2 == k) = false := by simpa using hk
          simp only [hk']
          rw [applyAction_get_ne hx (by intro l b h; cases h)
                (by intro l' b' h; injection h with h1; exact hk h1)] at this
          exact this
      | adjustEnd o n =>
        simp only [rangeCalls]
        simp only [applyAction] at hx; injection hx with hx; subst hx
        exact this

/-- no explicit write to `(k, l)` in the action list: the entry is what it was -/
theorem applyAll_lookup_none (k : Key) (l : Nat) : ∀ (as : List Action) (st st' : State),
    applyAll st as = .ok st' → lineWrites k l as = [] →
    (st'.get k).lines.lookup l = (st.get k).lines.lookup l := by
  intro as
  induction as with
  | nil => intro st st' h _; simp only [applyAll] at h; injection h with h; subst h; rfl
  | cons x as ih =>
    intro st st' h hw
    simp only [applyAll] at h
    cases hx : applyAction st x with
    | error e => simp [hx] at h
    | ok st1 =>
      simp only [hx] at h
      cases x with
      | setLine k2 l2 b =>
        simp only [lineWrites] at hw
        split at hw
        · cases hw
        · rename_i hne
          rw [ih st1 st' h hw]
          simp only [applyAction] at hx; injection hx with hx; subst hx
          by_cases hk : k = k2
          · subst hk
            have : l ≠ l2 := by
              intro e; subst e; simp at hne
            simp only [State.get_put_same, LineSet.setLine]; exact lookup_cons_ne this
          · rw [State.get_put_ne _ _ hk]
      | startRange k2 l2 b =>
        simp only [lineWrites] at hw
        rw [ih st1 st' h hw, applyAction_lines k hx (by intro l b h; cases h)]
      | adjustEnd o n =>
        simp only [lineWrites] at hw
        rw [ih st1 st' h hw, applyAction_lines k hx (by intro l b h; cases h)]

/-- every explicit write to `(k, l)` is `True` and there is one: the entry is `True` -/
theorem applyAll_lookup_true (k : Key) (l : Nat) : ∀ (as : List Action) (st st' : State),
    applyAll st as = .ok st' → Action.setLine k l false ∉ as →
    (Action.setLine k l true ∈ as ∨ (st.get k).lines.lookup l = some true) →
    (st'.get k).lines.lookup l = some true := by
  intro as
  induction as with
  | nil =>
    intro st st' h _ hor
    simp only [applyAll] at h; injection h with h; subst h
    rcases hor with h | h
    · cases h
    · exact h
  | cons x as ih =>
    intro st st' h hno hor
    simp only [applyAll] at h
    cases hx : applyAction st x with
    | error e => simp [hx] at h
    | ok st1 =>
      simp only [hx] at h
      have hno' : Action.setLine k l false ∉ as := fun hm => hno (by simp [hm])
      refine ih st1 st' h hno' ?_
      by_cases hxe : x = .setLine k l true
      · right
        subst hxe
        simp only [applyAction] at hx; injection hx with hx; subst hx
        simp [LineSet.setLine]
      · rcases hor with hm | hst
        · left
          rcases List.mem_cons.1 hm with e | hm
          · exact absurd e.symm hxe
          · exact hm
        · right
          cases x with
          | setLine k2 l2 b =>
            simp only [applyAction] at hx; injection hx with hx; subst hx
            by_cases hk : k = k2
            · subst hk
              by_cases hl : l = l2
              · subst hl
                cases b with
                | true => exact absurd rfl hxe
                | false => exact absurd (by simp) hno
              · simp only [State.get_put_same, LineSet.setLine]; rw [lookup_cons_ne hl]; exact hst
            · rw [State.get_put_ne _ _ hk]; exact hst
          | startRange k2 l2 b => rw [applyAction_lines k hx (by intro l b h; cases h)]; exact hst
          | adjustEnd o n => rw [applyAction_lines k hx (by intro l b h; cases h)]; exact hst

end PytypeModel.Director
