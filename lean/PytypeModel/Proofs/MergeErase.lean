import PytypeModel.Merge.MergePyi

/-! C20 helper lemmas: the applier changes nothing but annotations (`erase`), and keeps every
existing annotation. -/
namespace PytypeModel.Merge

theorem eraseParam_annotate (qf : Ann → Ann) (p : Param) (sa : Option Ann) :
    eraseParam (annotate qf p sa) = eraseParam p := by
  unfold annotate
  split <;> rfl

theorem map_erase_updParams (qf : Ann → Ann) (sKw : List Param) :
    ∀ (ps sPos sPo : List Param), (updParams qf sKw sPos sPo ps).map eraseParam = ps.map eraseParam := by
  intro ps
  induction ps with
  | nil => intro sPos sPo; simp [updParams]
  | cons p ps ih =>
    intro sPos sPo
    unfold updParams
    split
    · split <;> simp [ih, eraseParam_annotate]
    · split <;> simp [ih, eraseParam_annotate]
    · split <;> simp [ih, eraseParam_annotate]
    · simp [ih]

theorem applyFunc_erase (E : Env) (st : St) (n : String) (ps : List Param) (r : Option Ann) :
    (applyFunc E st n ps r).1.map eraseParam = ps.map eraseParam := by
  unfold applyFunc
  split
  · rfl
  · split
    · simp [map_erase_updParams]
    · rfl

/-! ### ghost flags only ever go up -/

theorem addTop_generic (E : Env) (st : St) (n : String) : (addTop E st n).genericAdded = st.genericAdded := by
  unfold addTop; split <;> rfl

theorem addTops_generic (E : Env) : ∀ (l : List (Option String)) (st : St),
    (addTops E st l).genericAdded = st.genericAdded := by
  intro l
  induction l with
  | nil => intro st; rfl
  | cons x xs ih =>
    intro st
    cases x with
    | none => simp [addTops, ih]
    | some s =>
      simp only [addTops]
      split
      · exact ih st
      · rw [ih, addTop_generic]

theorem recordTv_generic (st : St) (ts : List Target) (tv : Bool) :
    (recordTv st ts tv).genericAdded = st.genericAdded := by
  unfold recordTv
  split
  · split
    · split <;> rfl
    · rfl
  · rfl

theorem applyAssignCore_generic (E : Env) (st : St) (ts : List Target) (v : Tok) (tv : Bool) :
    (applyAssignCore E st ts v tv).2.genericAdded = st.genericAdded := by
  unfold applyAssignCore
  split
  · split
    · split <;> rfl
    · rfl
  · simp [addTops_generic]
  · rfl
  · simp [addTops_generic]

theorem applyAssign_generic (E : Env) (st : St) (ts : List Target) (v : Tok) (tv : Bool) :
    (applyAssign E st ts v tv).2.genericAdded = st.genericAdded := by
  unfold applyAssign
  rw [applyAssignCore_generic, recordTv_generic]

theorem applyAssignCore_erase (E : Env) (st : St) (ts : List Target) (v : Tok) (tv : Bool) :
    eraseStmt (applyAssignCore E st ts v tv).1 = [.assign ts v false] := by
  unfold applyAssignCore
  split
  · split
    · split <;> simp [eraseStmt]
    · simp [eraseStmt]
  · simp [eraseStmt]
  · simp [eraseStmt]
  · simp [eraseStmt]

theorem applyAssign_erase (E : Env) (st : St) (ts : List Target) (v : Tok) (tv : Bool) :
    eraseStmt (applyAssign E st ts v tv).1 = [.assign ts v false] := by
  unfold applyAssign
  exact applyAssignCore_erase ..

mutual
theorem erase_applyStmt (E : Env) : ∀ (s : Stmt) (st : St),
    (applyStmt E st s).2.genericAdded = false →
    st.genericAdded = false ∧ eraseStmt (applyStmt E st s).1 = eraseStmt s
  | .funcDef n d ps r b, st, h => by
    simp only [applyStmt] at h ⊢
    exact ⟨h, by simp [eraseStmt, applyFunc_erase]⟩
  | .classDef n d bs b, st, h => by
    simp only [applyStmt] at h ⊢
    have ih := erase_applyStmts E b { st with qual := st.qual ++ [n] }
    split at h
    · split at h
      · simp at h
      · have := ih h
        exact ⟨this.1, by simp [eraseStmt, this.2]⟩
    · have := ih h
      exact ⟨this.1, by simp [eraseStmt, this.2]⟩
  | .assign ts v tv, st, h => by
    simp only [applyStmt] at h ⊢
    rw [applyAssign_generic] at h
    exact ⟨h, by rw [applyAssign_erase]; simp [eraseStmt]⟩
  | .block hd b, st, h => by
    simp only [applyStmt] at h ⊢
    have := erase_applyStmts E b st h
    exact ⟨this.1, by simp [eraseStmt, this.2]⟩
  | .annAssign t a v, st, h => by simp only [applyStmt] at h ⊢; exact ⟨h, trivial⟩
  | .other t, st, h => by simp only [applyStmt] at h ⊢; exact ⟨h, trivial⟩
  | .importFrom m ns, st, h => by simp only [applyStmt] at h ⊢; exact ⟨h, trivial⟩
  | .importMod m, st, h => by simp only [applyStmt] at h ⊢; exact ⟨h, trivial⟩
theorem erase_applyStmts (E : Env) : ∀ (ss : List Stmt) (st : St),
    (applyStmts E st ss).2.genericAdded = false →
    st.genericAdded = false ∧ eraseStmts (applyStmts E st ss).1 = eraseStmts ss
  | [], st, h => by simp only [applyStmts] at h ⊢; exact ⟨h, trivial⟩
  | s :: ss, st, h => by
    simp only [applyStmts] at h ⊢
    have h2 := erase_applyStmts E ss (applyStmt E st s).2 h
    have h1 := erase_applyStmt E s st h2.1
    exact ⟨h1.1, by simp [eraseStmts, h1.2, h2.2]⟩
end

/-! ### existing annotations are kept -/

theorem annotate_kind (qf : Ann → Ann) (p : Param) (sa : Option Ann) : (annotate qf p sa).kind = p.kind := by
  unfold annotate; split <;> rfl

theorem annotate_name (qf : Ann → Ann) (p : Param) (sa : Option Ann) : (annotate qf p sa).name = p.name := by
  unfold annotate; split <;> rfl

theorem annotate_some (qf : Ann → Ann) (p : Param) (sa : Option Ann) (a : Ann) (h : p.ann = some a) :
    annotate qf p sa = p := by
  unfold annotate
  split
  · simp_all
  · rfl

theorem annots_cons_sublist (i j : Nat) (p p' : Param) (ps ps' : List Param)
    (hk : p'.kind = p.kind) (ha : ∀ a, p.ann = some a → p' = p)
    (ih : (annotsParams (nextI p i) (nextJ p j) ps).Sublist (annotsParams (nextI p i) (nextJ p j) ps')) :
    (annotsParams i j (p :: ps)).Sublist (annotsParams i j (p' :: ps')) := by
  simp only [annotsParams]
  have e1 : nextI p' i = nextI p i := by simp [nextI, hk]
  have e2 : nextJ p' j = nextJ p j := by simp [nextJ, hk]
  rw [e1, e2]
  apply List.Sublist.append _ ih
  cases hp : p.ann with
  | none => exact List.nil_sublist _
  | some a => rw [ha a hp, hp]; exact List.Sublist.refl _

theorem annotsParams_updParams (qf : Ann → Ann) (sKw : List Param) :
    ∀ (ps sPos sPo : List Param) (i j : Nat),
      (annotsParams i j ps).Sublist (annotsParams i j (updParams qf sKw sPos sPo ps)) := by
  intro ps
  induction ps with
  | nil => intro sPos sPo i j; simp [updParams, annotsParams]
  | cons p ps ih =>
    intro sPos sPo i j
    unfold updParams
    split
    · split
      · exact annots_cons_sublist i j p _ ps _ (annotate_kind ..)
          (fun a h => annotate_some qf p _ a h) (ih ..)
      · exact annots_cons_sublist i j p p ps _ rfl (fun _ _ => rfl) (ih ..)
    · split
      · exact annots_cons_sublist i j p _ ps _ (annotate_kind ..)
          (fun a h => annotate_some qf p _ a h) (ih ..)
      · exact annots_cons_sublist i j p p ps _ rfl (fun _ _ => rfl) (ih ..)
    · split
      · exact annots_cons_sublist i j p _ ps _ (annotate_kind ..)
          (fun a h => annotate_some qf p _ a h) (ih ..)
      · exact annots_cons_sublist i j p p ps _ rfl (fun _ _ => rfl) (ih ..)
    · exact annots_cons_sublist i j p p ps _ rfl (fun _ _ => rfl) (ih ..)

theorem applyFunc_annots (E : Env) (st : St) (n : String) (ps : List Param) (r : Option Ann) :
    (optSlot .ret r ++ annotsParams 0 0 ps).Sublist
      (optSlot .ret (applyFunc E st n ps r).2 ++ annotsParams 0 0 (applyFunc E st n ps r).1) := by
  unfold applyFunc
  split
  · exact List.Sublist.refl _
  · split
    · apply List.Sublist.append _ (annotsParams_updParams ..)
      cases r with
      | none => exact List.nil_sublist _
      | some a => exact List.Sublist.refl _
    · exact List.Sublist.refl _

theorem applyAssign_annots (E : Env) (st : St) (ts : List Target) (v : Tok) (tv : Bool) (q : List String) :
    (annotsS q (.assign ts v tv)).Sublist (annotsS q (applyAssign E st ts v tv).1) := by
  simp only [annotsS]
  exact List.nil_sublist _

mutual
theorem annots_applyStmt (E : Env) : ∀ (s : Stmt) (st : St) (q : List String),
    (annotsS q s).Sublist (annotsS q (applyStmt E st s).1)
  | .funcDef n d ps r b, st, q => by
    simp only [applyStmt, annotsS]
    exact List.Sublist.append (List.Sublist.map _ (applyFunc_annots ..)) (List.Sublist.refl _)
  | .classDef n d bs b, st, q => by
    have ih := annots_applyStmts E b { st with qual := st.qual ++ [n] } (q ++ [n])
    simp only [applyStmt]
    split
    · split <;> simpa [annotsS] using ih
    · simpa [annotsS] using ih
  | .assign ts v tv, st, q => by
    simp only [applyStmt]
    exact applyAssign_annots ..
  | .block hd b, st, q => by
    simp only [applyStmt, annotsS]
    exact annots_applyStmts E b st q
  | .annAssign t a v, st, q => by simp only [applyStmt]; exact List.Sublist.refl _
  | .other t, st, q => by simp only [applyStmt]; exact List.Sublist.refl _
  | .importFrom m ns, st, q => by simp only [applyStmt]; exact List.Sublist.refl _
  | .importMod m, st, q => by simp only [applyStmt]; exact List.Sublist.refl _
theorem annots_applyStmts (E : Env) : ∀ (ss : List Stmt) (st : St) (q : List String),
    (annotsL q ss).Sublist (annotsL q (applyStmts E st ss).1)
  | [], st, q => by simp only [applyStmts]; exact List.Sublist.refl _
  | s :: ss, st, q => by
    simp only [applyStmts, annotsL]
    exact List.Sublist.append (annots_applyStmt E s st q) (annots_applyStmts E ss _ q)
end

end PytypeModel.Merge
