/-
C11 proofs, part 7: a predicate on type positions that every hook of a visitor preserves is preserved
by a run of the visitor over a unit; instantiated with `kok` for the visitors of the pipeline.
-/
import PytypeModel.Proofs.OptimizeDecl

namespace PytypeModel.Pytd

set_option linter.unusedSectionVars false

section
variable (P : Pass) (g : Ty → Bool)
  (hty : ∀ t, g t = true → g (P.ty t) = true)
  (hret : ∀ t, g t = true → g (P.ret t) = true) (hconst : ∀ t, g t = true → g (P.const t) = true)
  (hparam : ∀ c p, (∀ t, t ∈ Param.tys p → g t = true) → ∀ t, t ∈ (P.param c p).tys → g t = true)
  (hsig : ∀ c s, (∀ t, t ∈ Sig.tys s → g t = true) → ∀ t, t ∈ (P.sig c s).tys → g t = true)
  (hfunc : ∀ c f, (∀ t, t ∈ Func.tys f → g t = true) → ∀ t, t ∈ (P.func c f).tys → g t = true)
include hty hret hconst hparam hsig hfunc

theorem runParam_all (c : Ctx) (p : Param) (hg : ∀ t, t ∈ p.tys → g t = true) :
    ∀ t, t ∈ (P.runParam c p).tys → g t = true := by
  apply hparam
  intro t ht
  simp only [Param.tys, List.mem_cons, Option.mem_toList] at ht hg
  rcases ht with rfl | ht
  · exact hty _ (hg _ (Or.inl rfl))
  · cases hm : p.mutated with
    | none => simp [hm] at ht
    | some m =>
      simp [hm] at ht
      subst ht
      exact hty _ (hg m (Or.inr (by simp [hm])))

theorem runOptParam_all (c : Ctx) (p : Option Param) (hg : ∀ t, t ∈ optParamTys p → g t = true) :
    ∀ t, t ∈ optParamTys (p.map (P.runParam c)) → g t = true := by
  cases p with
  | none => intro t ht; simp [optParamTys] at ht
  | some p => exact runParam_all P g hty hret hconst hparam hsig hfunc c p hg

theorem runDecl_all (d : TypeParamDecl) (hg : ∀ t, t ∈ d.tys → g t = true) :
    ∀ t, t ∈ (P.runDecl d).tys → g t = true := by
  intro t ht
  simp only [TypeParamDecl.tys, Pass.runDecl, List.mem_append, List.mem_map, Option.mem_toList] at ht hg
  rcases ht with ⟨x, hx, rfl⟩ | ht
  · exact hty _ (hg x (Or.inl hx))
  · cases hb : d.bound with
    | none => simp [hb] at ht
    | some b =>
      simp [hb] at ht
      subst ht
      exact hty _ (hg b (Or.inr (by simp [hb])))

theorem runSig_all (c : Ctx) (s : Sig) (hg : ∀ t, t ∈ s.tys → g t = true) :
    ∀ t, t ∈ (P.runSig c s).tys → g t = true := by
  apply hsig
  intro t ht
  simp only [Sig.tys, List.mem_append, List.mem_flatMap, List.mem_map, List.mem_singleton] at ht hg
  rcases ht with ((((⟨p', ⟨p, hp, rfl⟩, ht⟩ | ht) | ht) | ht) | ht) | ⟨d', ⟨d, hd, rfl⟩, ht⟩
  · exact runParam_all P g hty hret hconst hparam hsig hfunc c p
      (fun x hx => hg x (Or.inl (Or.inl (Or.inl (Or.inl (Or.inl ⟨p, hp, hx⟩)))))) t ht
  · exact runOptParam_all P g hty hret hconst hparam hsig hfunc c s.starargs
      (fun x hx => hg x (Or.inl (Or.inl (Or.inl (Or.inl (Or.inr hx)))))) t ht
  · exact runOptParam_all P g hty hret hconst hparam hsig hfunc c s.starstarargs
      (fun x hx => hg x (Or.inl (Or.inl (Or.inl (Or.inr hx))))) t ht
  · subst ht
    exact hret _ (hty _ (hg _ (Or.inl (Or.inl (Or.inr rfl)))))
  · obtain ⟨e, he, rfl⟩ := ht
    exact hty _ (hg e (Or.inl (Or.inr he)))
  · exact runDecl_all P g hty hret hconst hparam hsig hfunc d
      (fun x hx => hg x (Or.inr ⟨d, hd, hx⟩)) t ht

theorem runFunc_all (c : Ctx) (f : Func) (hg : ∀ t, t ∈ f.tys → g t = true) :
    ∀ t, t ∈ (P.runFunc c f).tys → g t = true := by
  apply hfunc
  intro t ht
  simp only [Func.tys, List.mem_flatMap, List.mem_map] at ht hg
  obtain ⟨s', ⟨s, hs, rfl⟩, ht⟩ := ht
  exact runSig_all P g hty hret hconst hparam hsig hfunc _ s (fun x hx => hg x ⟨s, hs, hx⟩) t ht

mutual
theorem runClass_all : ∀ (c : Class), (∀ t, t ∈ c.tys → g t = true) → ∀ t, t ∈ (P.runClass c).tys → g t = true
  | .mk n kw bs ms cs ns ds sl tm, hg, t, ht => by
    simp only [Pass.runClass, Class.tys, List.mem_append, List.mem_map, List.mem_flatMap] at ht hg
    rcases ht with ((((⟨e', ⟨e, he, rfl⟩, rfl⟩ | ⟨b, hb, rfl⟩) | ⟨f', ⟨f, hf, rfl⟩, ht⟩) | ⟨k', ⟨k, hk, rfl⟩, rfl⟩) | ht) |
      ⟨d', ⟨d, hd, rfl⟩, ht⟩
    · exact hty _ (hg _ (Or.inl (Or.inl (Or.inl (Or.inl (Or.inl ⟨e, he, rfl⟩))))))
    · exact hty _ (hg b (Or.inl (Or.inl (Or.inl (Or.inl (Or.inr hb))))))
    · exact runFunc_all P g hty hret hconst hparam hsig hfunc _ f
        (fun x hx => hg x (Or.inl (Or.inl (Or.inl (Or.inr ⟨f, hf, hx⟩))))) t ht
    · exact hconst _ (hty _ (hg _ (Or.inl (Or.inl (Or.inr ⟨k, hk, rfl⟩)))))
    · exact runClasses_all ns (fun x hx => hg x (Or.inl (Or.inr hx))) t ht
    · exact runDecl_all P g hty hret hconst hparam hsig hfunc d (fun x hx => hg x (Or.inr ⟨d, hd, hx⟩)) t ht
theorem runClasses_all : ∀ (cs : List Class), (∀ t, t ∈ classesTys cs → g t = true) →
    ∀ t, t ∈ classesTys (P.runClasses cs) → g t = true
  | [], _, t, ht => by simp [Pass.runClasses, classesTys] at ht
  | c :: cs, hg, t, ht => by
    simp only [Pass.runClasses, classesTys, List.mem_append] at ht hg
    rcases ht with ht | ht
    · exact runClass_all c (fun x hx => hg x (Or.inl hx)) t ht
    · exact runClasses_all cs (fun x hx => hg x (Or.inr hx)) t ht
end

theorem runUnit_all (u : TUnit) (hg : ∀ t, t ∈ u.tys → g t = true) : ∀ t, t ∈ (P.runUnit u).tys → g t = true := by
  intro t ht
  simp only [Pass.runUnit, TUnit.tys, List.mem_append, List.mem_map, List.mem_flatMap] at ht hg
  rcases ht with (((⟨k', ⟨k, hk, rfl⟩, rfl⟩ | ⟨d', ⟨d, hd, rfl⟩, ht⟩) | ht) | ⟨f', ⟨f, hf, rfl⟩, ht⟩) | ⟨a', ⟨a, ha, rfl⟩, rfl⟩
  · exact hconst _ (hty _ (hg _ (Or.inl (Or.inl (Or.inl (Or.inl ⟨k, hk, rfl⟩))))))
  · exact runDecl_all P g hty hret hconst hparam hsig hfunc d
      (fun x hx => hg x (Or.inl (Or.inl (Or.inl (Or.inr ⟨d, hd, hx⟩))))) t ht
  · exact runClasses_all P g hty hret hconst hparam hsig hfunc _ (fun x hx => hg x (Or.inl (Or.inl (Or.inr hx)))) t ht
  · exact runFunc_all P g hty hret hconst hparam hsig hfunc _ f (fun x hx => hg x (Or.inl (Or.inr ⟨f, hf, hx⟩))) t ht
  · exact hty _ (hg _ (Or.inr ⟨a, ha, rfl⟩))
end

end PytypeModel.Pytd
