/-
`Expl` is closed under taking subsets of the goal set (well-formed graphs with valid ids).  Consequences on
well-formed acyclic unconditioned graphs: the `CanHaveSolution` pre-pass is redundant (`solve ↔ Expl`) and
every subset of an accepted combination is accepted.
-/
import PytypeModel.Proofs.SolverExpl

namespace PytypeModel.Typegraph

/-! ### small facts -/

theorem sorted_ext : ∀ {a b : List Nat}, Sorted a → Sorted b → (∀ x, x ∈ a ↔ x ∈ b) → a = b
  | [], [], _, _, _ => rfl
  | [], y :: ys, _, _, h => absurd ((h y).2 List.mem_cons_self) List.not_mem_nil
  | x :: xs, [], _, _, h => absurd ((h x).1 List.mem_cons_self) List.not_mem_nil
  | x :: xs, y :: ys, ha, hb, h => by
    rw [Sorted, List.pairwise_cons] at ha hb
    have hxy : x = y := by
      have h1 := (h x).1 List.mem_cons_self
      have h2 := (h y).2 List.mem_cons_self
      rcases List.mem_cons.1 h1 with h1 | h1
      · exact h1
      · rcases List.mem_cons.1 h2 with h2 | h2
        · exact h2.symm
        · have := hb.1 x h1
          have := ha.1 y h2
          omega
    subst hxy
    congr 1
    apply sorted_ext ha.2 hb.2
    intro z
    constructor
    · intro hz
      rcases List.mem_cons.1 ((h z).1 (List.mem_cons_of_mem _ hz)) with rfl | h'
      · exact absurd (ha.1 z hz) (Nat.lt_irrefl _)
      · exact h'
    · intro hz
      rcases List.mem_cons.1 ((h z).2 (List.mem_cons_of_mem _ hz)) with rfl | h'
      · exact absurd (hb.1 z hz) (Nat.lt_irrefl _)
      · exact h'

theorem ClearPath.mono {g : Graph} {B B' : List NodeId} (hB : ∀ x, x ∈ B' → x ∈ B) {n m : NodeId}
    (h : ClearPath g B n m) : ClearPath g B' n m := by
  induction h with
  | here => exact ClearPath.here _
  | step h1 h2 _ ih => exact ClearPath.step (fun h' => h1 (hB _ h')) h2 ih

theorem ClearPath.trans {g : Graph} {B : List NodeId} {a b c : NodeId}
    (h1 : ClearPath g B a b) (h2 : ClearPath g B b c) : ClearPath g B a c := by
  induction h1 with
  | here => exact h2
  | step hn hk _ ih => exact ClearPath.step hn hk (ih h2)

theorem mem_blockedOf {g : Graph} {N : List BId} {x : NodeId} :
    x ∈ blockedOf g N ↔ ∃ b ∈ N, x ∈ g.varNodes (g.varOf b) := by
  unfold blockedOf
  have : ∀ (l : List BId) (acc : List NodeId),
      x ∈ l.foldl (fun acc b => sunion acc (g.varNodes (g.varOf b))) acc ↔
        x ∈ acc ∨ ∃ b ∈ l, x ∈ g.varNodes (g.varOf b) := by
    intro l
    induction l with
    | nil => intro acc; simp
    | cons b bs ih =>
      intro acc
      simp only [List.foldl_cons, ih, mem_sunion, List.mem_cons]
      constructor
      · rintro ((h | h) | ⟨c, hc, h⟩)
        · exact Or.inl h
        · exact Or.inr ⟨b, Or.inl rfl, h⟩
        · exact Or.inr ⟨c, Or.inr hc, h⟩
      · rintro (h | ⟨c, hc | hc, h⟩)
        · exact Or.inl (Or.inl h)
        · exact Or.inl (Or.inr (hc ▸ h))
        · exact Or.inr ⟨c, hc, h⟩
  rw [this]
  simp

theorem blockedOf_mono {g : Graph} {N N' : List BId} (h : ∀ x ∈ N', x ∈ N) :
    ∀ x, x ∈ blockedOf g N' → x ∈ blockedOf g N := by
  intro x hx
  obtain ⟨b, hb, hv⟩ := mem_blockedOf.1 hx
  exact mem_blockedOf.2 ⟨b, h b hb, hv⟩

theorem mem_finishNodes_iff {g : Graph} {N : List BId} {m : NodeId} :
    m ∈ finishNodes g N ↔ ∃ b ∈ N, ∃ o ∈ (g.binding b).origins, o.node = m := by
  constructor
  · exact mem_finishNodes
  · rintro ⟨b, hb, o, ho, rfl⟩
    unfold finishNodes
    rw [mem_ofList, List.mem_flatMap]
    exact ⟨b, hb, List.mem_map.2 ⟨o, ho, rfl⟩⟩

theorem findOrigin_isSome_iff {g : Graph} {b : BId} {n : NodeId} :
    (g.findOrigin b n).isSome ↔ ∃ o ∈ (g.binding b).origins, o.node = n := by
  unfold Graph.findOrigin
  rw [List.find?_isSome]
  simp

theorem goalsConflict_iff {g : Graph} : ∀ {l : List BId}, l.Nodup →
    (goalsConflict g l = true ↔ ∃ x ∈ l, ∃ y ∈ l, x ≠ y ∧ g.varOf x = g.varOf y)
  | [], _ => by simp [goalsConflict]
  | b :: bs, hnd => by
    rw [List.nodup_cons] at hnd
    unfold goalsConflict
    rw [Bool.or_eq_true, goalsConflict_iff hnd.2, List.any_eq_true]
    constructor
    · rintro (⟨c, hc, hv⟩ | ⟨x, hx, y, hy, hne, hv⟩)
      · refine ⟨c, List.mem_cons_of_mem _ hc, b, List.mem_cons_self, ?_, by simpa using hv⟩
        intro h; subst h; exact hnd.1 hc
      · exact ⟨x, List.mem_cons_of_mem _ hx, y, List.mem_cons_of_mem _ hy, hne, hv⟩
    · rintro ⟨x, hx, y, hy, hne, hv⟩
      rcases List.mem_cons.1 hx with hxb | hxs
      · rcases List.mem_cons.1 hy with hyb | hys
        · exact absurd (hxb.trans hyb.symm) hne
        · exact Or.inl ⟨y, hys, by rw [← hxb]; simpa using hv.symm⟩
      · rcases List.mem_cons.1 hy with hyb | hys
        · exact Or.inl ⟨x, hxs, by rw [← hyb]; simpa using hv⟩
        · exact Or.inr ⟨x, hxs, y, hys, hne, hv⟩

theorem Sorted.nodup {l : List Nat} (h : Sorted l) : l.Nodup :=
  List.Pairwise.imp (fun hab => Nat.ne_of_lt hab) h

theorem noConflict_subset {g : Graph} {R R' : List BId} (hR : R.Nodup) (hR' : R'.Nodup)
    (hsub : ∀ x ∈ R', x ∈ R) (h : NoConflict g R) : NoConflict g R' := by
  unfold NoConflict at h ⊢
  cases hc : goalsConflict g R' with
  | false => rfl
  | true =>
    obtain ⟨x, hx, y, hy, hne, hv⟩ := (goalsConflict_iff hR').1 hc
    have := (goalsConflict_iff hR).2 ⟨x, hsub x hx, y, hsub y hy, hne, hv⟩
    rw [h] at this
    cases this

/-! ### invariants of a `Removal` derivation -/

/-- `b` was expanded by a source set that lies inside the final sets -/
def ClosedAt (g : Graph) (n : NodeId) (R' N' : List BId) (b : BId) : Prop :=
  ∃ o ss, g.findOrigin b n = some o ∧ ss ∈ o.sourceSets ∧ ∀ x ∈ ss, x ∈ R' ∨ x ∈ N'

theorem removal_inv {g : Graph} {n : NodeId} {todo seen R N R' N' : List BId}
    (h : Removal g n todo seen R N R' N') :
    (∀ b ∈ seen, b ∈ R ∨ b ∈ N) →
    (∀ b ∈ R, b ∈ R') ∧ (∀ b ∈ N, b ∈ N') ∧ (∀ b ∈ todo, b ∈ R' ∨ b ∈ N') ∧
    (∀ b ∈ R', b ∈ R ∨ ClosedAt g n R' N' b) ∧
    (∀ b ∈ N', b ∈ N ∨ g.findOrigin b n = none) := by
  induction h with
  | done seen R N =>
    intro _
    exact ⟨fun b hb => hb, fun b hb => hb, by simp, fun b hb => Or.inl hb, fun b hb => Or.inl hb⟩
  | @skip b todo seen R N R' N' hb _ ih =>
    intro hseen
    obtain ⟨h1, h2, h3, h4, h6⟩ := ih hseen
    refine ⟨h1, h2, ?_, h4, h6⟩
    intro x hx
    rcases List.mem_cons.1 hx with rfl | hx
    · exact (hseen x hb).imp (h1 x) (h2 x)
    · exact h3 x hx
  | @keep b todo seen R N R' N' hb ho _ ih =>
    intro hseen
    have hseen' : ∀ x ∈ b :: seen, x ∈ R ∨ x ∈ sinsert b N := by
      intro x hx
      rcases List.mem_cons.1 hx with rfl | hx
      · exact Or.inr (mem_sinsert.2 (Or.inl rfl))
      · exact (hseen x hx).imp id (fun h => mem_sinsert.2 (Or.inr h))
    obtain ⟨h1, h2, h3, h4, h6⟩ := ih hseen'
    refine ⟨h1, fun x hx => h2 x (mem_sinsert.2 (Or.inr hx)), ?_, h4, ?_⟩
    · intro x hx
      rcases List.mem_cons.1 hx with rfl | hx
      · exact Or.inr (h2 x (mem_sinsert.2 (Or.inl rfl)))
      · exact h3 x hx
    · intro x hx
      rcases h6 x hx with h | h
      · rcases mem_sinsert.1 h with rfl | h
        · exact Or.inr ho
        · exact Or.inl h
      · exact Or.inr h
  | @expand b todo seen R N R' N' o ss hb ho hss _ ih =>
    intro hseen
    have hseen' : ∀ x ∈ b :: seen, x ∈ sinsert b R ∨ x ∈ N := by
      intro x hx
      rcases List.mem_cons.1 hx with rfl | hx
      · exact Or.inl (mem_sinsert.2 (Or.inl rfl))
      · exact (hseen x hx).imp (fun h => mem_sinsert.2 (Or.inr h)) id
    obtain ⟨h1, h2, h3, h4, h6⟩ := ih hseen'
    refine ⟨fun x hx => h1 x (mem_sinsert.2 (Or.inr hx)), h2, ?_, ?_, h6⟩
    · intro x hx
      rcases List.mem_cons.1 hx with rfl | hx
      · exact Or.inl (h1 x (mem_sinsert.2 (Or.inl rfl)))
      · exact h3 x (mem_sunion.2 (Or.inl hx))
    · intro x hx
      rcases h4 x hx with h | h
      · rcases mem_sinsert.1 h with rfl | h
        · exact Or.inr ⟨o, ss, ho, hss, fun y hy => h3 y (mem_sunion.2 (Or.inr hy))⟩
        · exact Or.inl h
      · exact Or.inr h

/-- when nothing on the todo list originates at the node, nothing is removed and the remaining goals are
the initial ones plus the todo list -/
theorem removal_noorigin {g : Graph} {n : NodeId} {todo seen R N R' N' : List BId}
    (h : Removal g n todo seen R N R' N') :
    (∀ b ∈ todo, g.findOrigin b n = none) → R' = R ∧ ∀ x ∈ N', x ∈ N ∨ x ∈ todo := by
  induction h with
  | done => intro _; exact ⟨rfl, fun x hx => Or.inl hx⟩
  | skip _ _ ih =>
    intro hno
    obtain ⟨h1, h2⟩ := ih (fun x hx => hno x (List.mem_cons_of_mem _ hx))
    exact ⟨h1, fun x hx => (h2 x hx).imp id (List.mem_cons_of_mem _)⟩
  | keep _ _ _ ih =>
    intro hno
    obtain ⟨h1, h2⟩ := ih (fun x hx => hno x (List.mem_cons_of_mem _ hx))
    refine ⟨h1, fun x hx => ?_⟩
    rcases h2 x hx with h | h
    · rcases mem_sinsert.1 h with rfl | h
      · exact Or.inr List.mem_cons_self
      · exact Or.inl h
    · exact Or.inr (List.mem_cons_of_mem _ h)
  | expand _ ho _ _ _ =>
    intro hno
    rw [hno _ List.mem_cons_self] at ho
    cases ho

theorem removal_sorted_R {g : Graph} {n : NodeId} {todo seen R N R' N' : List BId}
    (h : Removal g n todo seen R N R' N') : Sorted R → Sorted R' := by
  induction h with
  | done => exact id
  | skip _ _ ih => exact ih
  | keep _ _ _ ih => exact ih
  | expand _ _ _ _ ih => exact fun hs => ih (sorted_sinsert hs)

/-! ### following a given closure through the DFS -/

theorem exists_branch (g : Graph) (hids : g.IdsOK) (pos : NodeId) (Rs Ns : List BId)
    (hclosed : ∀ b, (b ∈ Rs ∨ b ∈ Ns) → ∀ o, g.findOrigin b pos = some o →
      b ∈ Rs ∧ ∃ ss ∈ o.sourceSets, ∀ x ∈ ss, x ∈ Rs ∨ x ∈ Ns)
    (hnone : ∀ b, (b ∈ Rs ∨ b ∈ Ns) → g.findOrigin b pos = none → b ∈ Ns) :
    ∀ (fuel : Nat) (todo seen R N : List BId), Sorted todo → (∀ x ∈ todo, x < g.bindings.length) →
      (∀ x ∈ todo, x ∈ Rs ∨ x ∈ Ns) →
      unseenCount g.bindings.length seen * (g.bindings.length + 1) + todo.length < fuel →
      (∀ x ∈ R, x ∈ Rs) → (∀ x ∈ N, x ∈ Ns) →
      ∃ R' N', (R', N') ∈ trav g pos fuel todo seen R N ∧ (∀ x ∈ R', x ∈ Rs) ∧ (∀ x ∈ N', x ∈ Ns) := by
  intro fuel
  induction fuel with
  | zero => intro todo seen R N _ _ _ hf; exact absurd hf (Nat.not_lt_zero _)
  | succ f ih =>
    intro todo seen R N hs hbd hin hf hR hN
    cases todo with
    | nil => exact ⟨R, N, by simp [trav], hR, hN⟩
    | cons b todo =>
      rw [Sorted, List.pairwise_cons] at hs
      have hbd' : ∀ x ∈ todo, x < g.bindings.length := fun x hx => hbd x (List.mem_cons_of_mem _ hx)
      have hin' : ∀ x ∈ todo, x ∈ Rs ∨ x ∈ Ns := fun x hx => hin x (List.mem_cons_of_mem _ hx)
      simp only [List.length_cons] at hf
      unfold trav
      by_cases hseen : b ∈ seen
      · have : seen.contains b = true := by simpa using hseen
        simp only [this, ↓reduceIte]
        exact ih todo seen R N hs.2 hbd' hin' (by omega) hR hN
      · have : seen.contains b = false := by simpa using hseen
        simp only [this, Bool.false_eq_true, ↓reduceIte]
        have hcount := unseenCount_cons (hbd b List.mem_cons_self) hseen
        have hmul : unseenCount g.bindings.length seen * (g.bindings.length + 1) =
            unseenCount g.bindings.length (b :: seen) * (g.bindings.length + 1) + (g.bindings.length + 1) := by
          rw [← hcount, Nat.add_mul]; simp
        cases ho : g.findOrigin b pos with
        | none =>
          simp only
          have hbN := hnone b (hin b List.mem_cons_self) ho
          refine ih todo (b :: seen) R (sinsert b N) hs.2 hbd' hin' (by omega) hR ?_
          intro x hx
          rcases mem_sinsert.1 hx with rfl | hx
          · exact hbN
          · exact hN x hx
        | some o =>
          simp only
          obtain ⟨hbR, ss, hss, hall⟩ := hclosed b (hin b List.mem_cons_self) o ho
          have hsorted : Sorted (sunion todo ss) := sorted_sunion hs.2
          have hbound : ∀ x ∈ sunion todo ss, x < g.bindings.length := by
            intro x hx
            rcases mem_sunion.1 hx with hx | hx
            · exact hbd' x hx
            · exact hids b o ss x (findOrigin_some_mem ho).1 hss hx
          have hlen := sorted_length_le hsorted hbound
          obtain ⟨R', N', hm, h1, h2⟩ := ih (sunion todo ss) (b :: seen) (sinsert b R) N hsorted hbound
            (fun x hx => (mem_sunion.1 hx).elim (hin' x) (hall x)) (by omega)
            (fun x hx => (mem_sinsert.1 hx).elim (fun h => h ▸ hbR) (hR x)) hN
          exact ⟨R', N', List.mem_flatMap.2 ⟨ss, hss, hm⟩, h1, h2⟩

theorem findOrigin_none_of_ge {g : Graph} {b : BId} (n : NodeId) (h : g.bindings.length ≤ b) :
    g.findOrigin b n = none := by
  apply findOrigin_none_of_not_mem
  intro o ho
  unfold Graph.binding at ho
  rw [List.getD_eq_getElem?_getD, List.getElem?_eq_none h] at ho
  have hd : (default : Binding).origins = [] := rfl
  rw [Option.getD_none, hd] at ho
  exact absurd ho List.not_mem_nil

/-- **goal removal is monotone**: a removal result for `G` restricts to one for any `G' ⊆ G` -/
theorem removal_subset {g : Graph} (hwf : g.WF) (hids : g.IdsOK) {n : NodeId} {G G' R N : List BId}
    (hs' : Sorted G') (hb' : ∀ x ∈ G', x < g.bindings.length) (hsub : ∀ x ∈ G', x ∈ G)
    (h : Removal g n (hereGoals g n G) [] [] (awayGoals g n G) R N) :
    ∃ R' N', Removal g n (hereGoals g n G') [] [] (awayGoals g n G') R' N' ∧
      (∀ x ∈ R', x ∈ R) ∧ (∀ x ∈ N', x ∈ N) := by
  obtain ⟨_, i2, i3, i4, i5⟩ := removal_inv h (by simp)
  have hclosed : ∀ b, (b ∈ R ∨ b ∈ N) → ∀ o, g.findOrigin b n = some o →
      b ∈ R ∧ ∃ ss ∈ o.sourceSets, ∀ x ∈ ss, x ∈ R ∨ x ∈ N := by
    intro b hb o ho
    have hbR : b ∈ R := by
      rcases hb with hb | hb
      · exact hb
      · exfalso
        rcases i5 b hb with h' | h'
        · unfold awayGoals at h'
          rw [List.mem_filter] at h'
          by_cases hlt : b < g.bindings.length
          · have := hwf.registered b n hlt (by rw [ho]; rfl)
            simp [this] at h'
          · rw [findOrigin_none_of_ge n (Nat.le_of_not_lt hlt)] at ho
            cases ho
        · rw [h'] at ho; cases ho
    refine ⟨hbR, ?_⟩
    rcases i4 b hbR with h' | ⟨o', ss, ho', hss, hall⟩
    · simp at h'
    · rw [ho] at ho'
      cases ho'
      exact ⟨ss, hss, hall⟩
  have hnone : ∀ b, (b ∈ R ∨ b ∈ N) → g.findOrigin b n = none → b ∈ N := by
    intro b hb ho
    rcases hb with hb | hb
    · rcases i4 b hb with h' | ⟨o', ss, ho', _, _⟩
      · simp at h'
      · rw [ho] at ho'; cases ho'
    · exact hb
  have hsf : Sorted (hereGoals g n G') := sorted_filter _ hs'
  have hbf : ∀ x ∈ hereGoals g n G', x < g.bindings.length := fun x hx => hb' x (List.mem_filter.1 hx).1
  have hlen := sorted_length_le hsf hbf
  obtain ⟨R', N', hm, h1, h2⟩ := exists_branch g hids n R N hclosed hnone g.travFuel
    (hereGoals g n G') [] [] (awayGoals g n G') hsf hbf
    (by
      intro x hx
      have hx' := List.mem_filter.1 hx
      exact i3 x (List.mem_filter.2 ⟨hsub x hx'.1, hx'.2⟩))
    (by
      rw [unseenCount_nil]
      exact travFuel_enough _ _ hlen)
    (by simp)
    (by
      intro x hx
      have hx' := List.mem_filter.1 hx
      exact i2 x (List.mem_filter.2 ⟨hsub x hx'.1, hx'.2⟩))
  exact ⟨R', N', trav_sound g n _ _ _ _ _ _ _ hm, h1, h2⟩

/-! ### `Expl` is subset-closed -/

theorem expl_subset {g : Graph} (hwf : g.WF) (hids : g.IdsOK) {n : NodeId} {G : List BId}
    (h : Expl g n G) : ∀ G', Sorted G' → (∀ x ∈ G', x < g.bindings.length) → (∀ x ∈ G', x ∈ G) →
      Expl g n G' := by
  induction h with
  | @fin n G R hrem hc =>
    intro G' hs' hb' hsub
    obtain ⟨R', N', hrem', hR', hN'⟩ := removal_subset hwf hids hs' hb' hsub hrem
    have : N' = [] := by
      cases N' with
      | nil => rfl
      | cons x xs => exact absurd (hN' x List.mem_cons_self) List.not_mem_nil
    subst this
    exact Expl.fin hrem' (noConflict_subset (removal_sorted_R hrem List.Pairwise.nil).nodup
      (removal_sorted_R hrem' List.Pairwise.nil).nodup hR' hc)
  | @move n G R N m hrem hc hne hfin hclear _ ih =>
    intro G' hs' hb' hsub
    obtain ⟨R', N', hrem', hR', hN'⟩ := removal_subset hwf hids hs' hb' hsub hrem
    have hc' : NoConflict g R' := noConflict_subset (removal_sorted_R hrem List.Pairwise.nil).nodup
      (removal_sorted_R hrem' List.Pairwise.nil).nodup hR' hc
    obtain ⟨hsN', hbN'⟩ := removal_props hids hrem' (sorted_filter _ hs')
      (fun x hx => hb' x (List.mem_filter.1 hx).1) (fun x hx => hb' x (List.mem_filter.1 hx).1)
    cases hN'e : N' with
    | nil => subst hN'e; exact Expl.fin hrem' hc'
    | cons x0 xs0 =>
      have hne' : N' ≠ [] := by rw [hN'e]; simp
      have hsubexpl := ih N' hsN' hbN' hN'
      have hclear' : ClearPath g (blockedOf g N') n m := hclear.mono (blockedOf_mono hN')
      by_cases hfin' : m ∈ finishNodes g N'
      · exact Expl.move hrem' hc' hne' hfin' hclear' hsubexpl
      · -- no goal of `N'` originates at `m`: the explanation of `N'` at `m` moves on, compose the paths
        have hno : ∀ b ∈ N', g.findOrigin b m = none := by
          intro b hb
          apply findOrigin_none_of_not_mem
          intro o ho hon
          exact hfin' (mem_finishNodes_iff.2 ⟨b, hb, o, ho, hon⟩)
        have hno_here : ∀ b ∈ hereGoals g m N', g.findOrigin b m = none :=
          fun b hb => hno b (List.mem_filter.1 hb).1
        cases hsubexpl with
        | @fin _ _ R2 hrem2 _ =>
          exfalso
          obtain ⟨hR2, _⟩ := removal_noorigin hrem2 hno_here
          obtain ⟨_, j2, j3, _, _⟩ := removal_inv hrem2 (by simp)
          have hx0 : x0 ∈ N' := by rw [hN'e]; exact List.mem_cons_self
          by_cases hh : (g.node m).bindings.contains x0 = true
          · rcases j3 x0 (List.mem_filter.2 ⟨hx0, hh⟩) with h' | h'
            · rw [hR2] at h'; simp at h'
            · simp at h'
          · have := j2 x0 (List.mem_filter.2 ⟨hx0, by simpa using hh⟩)
            simp at this
        | @move _ _ R2 N2 m2 hrem2 _ hne2 hfin2 hclear2 hsub2 =>
          obtain ⟨_, hN2sub⟩ := removal_noorigin hrem2 hno_here
          obtain ⟨_, j2, j3, _, _⟩ := removal_inv hrem2 (by simp)
          obtain ⟨hsN2, _⟩ := removal_props hids hrem2 (sorted_filter _ hsN')
            (fun x hx => hbN' x (List.mem_filter.1 hx).1) (fun x hx => hbN' x (List.mem_filter.1 hx).1)
          have hR2 := (removal_noorigin hrem2 hno_here).1
          have heq : N2 = N' := by
            apply sorted_ext hsN2 hsN'
            intro x
            constructor
            · intro hx
              rcases hN2sub x hx with h' | h'
              · exact (List.mem_filter.1 h').1
              · exact (List.mem_filter.1 h').1
            · intro hx
              by_cases hh : (g.node m).bindings.contains x = true
              · rcases j3 x (List.mem_filter.2 ⟨hx, hh⟩) with h' | h'
                · rw [hR2] at h'; simp at h'
                · exact h'
              · exact j2 x (List.mem_filter.2 ⟨hx, by simpa using hh⟩)
          subst heq
          exact Expl.move hrem' hc' hne' hfin2 (hclear'.trans hclear2) hsub2

/-! ### `Solve` -/

theorem solve_iff_expl_full {g : Graph} {rank : NodeId → Nat} (hwf : g.WF) (hac : g.AcyclicBy rank)
    (hnc : g.NoConditions) (hids : g.IdsOK) (n : NodeId) (attrs : List BId)
    (hb : ∀ x ∈ attrs, x < g.bindings.length) :
    (solve g [] n attrs).1 = true ↔ Expl g n (ofList attrs) := by
  rw [solve_iff_expl_prepass hwf hac hnc hids n attrs hb]
  constructor
  · exact fun h => h.2
  · intro h
    refine ⟨fun _ b hbm => ?_, h⟩
    apply expl_subset hwf hids h [b] (by simp [Sorted])
    · intro x hx
      simp only [List.mem_singleton] at hx
      exact hx ▸ hb b hbm
    · intro x hx
      simp only [List.mem_singleton] at hx
      exact hx ▸ mem_ofList.2 hbm

theorem solve_subset_acyclic {g : Graph} {rank : NodeId → Nat} (hwf : g.WF) (hac : g.AcyclicBy rank)
    (hnc : g.NoConditions) (hids : g.IdsOK) (n : NodeId) (attrs sub : List BId)
    (hb : ∀ x ∈ attrs, x < g.bindings.length) (hsub : ∀ x ∈ sub, x ∈ attrs)
    (h : (solve g [] n attrs).1 = true) : (solve g [] n sub).1 = true := by
  have hbs : ∀ x ∈ sub, x < g.bindings.length := fun x hx => hb x (hsub x hx)
  rw [solve_iff_expl_full hwf hac hnc hids n attrs hb] at h
  rw [solve_iff_expl_full hwf hac hnc hids n sub hbs]
  exact expl_subset hwf hids h (ofList sub) (sorted_ofList _) (ofList_bounded hbs)
    (fun x hx => mem_ofList.2 (hsub x (mem_ofList.1 hx)))

end PytypeModel.Typegraph
