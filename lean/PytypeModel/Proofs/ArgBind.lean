import PytypeModel.Sem.ArgBind

/-! Helper lemmas for C13: association-list lookups, the keyword loop of CPython as a closed form,
and the consequences of `Sig.WF` (distinct parameter names). -/
namespace PytypeModel.ArgBind

/-! ### association lists -/

theorem lookup_map_self (f : Name → ArgRef) (l : List Name) (p : Name) :
    (l.map fun q => (q, f q)).lookup p = if p ∈ l then some (f p) else none := by
  induction l with
  | nil => simp
  | cons k ks ih =>
    simp only [List.map_cons, List.lookup_cons, List.mem_cons]
    by_cases h : p = k
    · subst h; simp
    · have hb : (p == k) = false := by simpa using h
      simp only [hb, h, false_or]
      exact ih

theorem lookup_kwEntries (l : List Name) (p : Name) :
    (kwEntries l).lookup p = if p ∈ l then some (.kw p) else none :=
  lookup_map_self ArgRef.kw l p

theorem lookup_defaultsDict (s : Sig) (p : Name) :
    (defaultsDict s).lookup p = if p ∈ s.defaults then some .default else none :=
  lookup_map_self (fun _ => ArgRef.default) s.defaults p

theorem lookup_eq_none_iff_keys (d : Dict) (p : Name) :
    d.lookup p = none ↔ ∀ e ∈ d, e.1 ≠ p := by
  rw [List.lookup_eq_none_iff]
  constructor
  · intro h e he heq
    have := h e he
    simp [heq] at this
  · intro h e he
    have := h e he
    simpa [bne_iff_ne] using fun hh => this hh.symm

theorem lookup_ne_none_iff_keys (d : Dict) (p : Name) :
    d.lookup p ≠ none ↔ ∃ e ∈ d, e.1 = p := by
  rw [Ne, lookup_eq_none_iff_keys]
  constructor
  · intro h
    apply Classical.byContradiction
    intro hn
    exact h fun e he heq => hn ⟨e, he, heq⟩
  · rintro ⟨e, he, heq⟩ h
    exact h e he heq

theorem lookup_cons_ne (d : Dict) (k p : Name) (r : ArgRef) (h : p ≠ k) :
    List.lookup p ((k, r) :: d) = d.lookup p := by
  have hb : (p == k) = false := by simpa using h
  simp [List.lookup_cons, hb]

theorem lookup_cons_self (d : Dict) (k : Name) (r : ArgRef) :
    List.lookup k ((k, r) :: d) = some r := by
  simp

theorem zipPos_mem_keys {ps : List Name} {i n : Nat} {e : Name × ArgRef}
    (h : e ∈ zipPos ps i n) : e.1 ∈ ps := by
  induction ps generalizing i n with
  | nil => simp [zipPos] at h
  | cons p ps ih =>
    cases n with
    | zero => simp [zipPos] at h
    | succ n =>
      simp only [zipPos, List.mem_cons] at h
      rcases h with h | h
      · subst h; simp
      · exact List.mem_cons_of_mem _ (ih h)

theorem lookup_zipPos_none {ps : List Name} {i n : Nat} {p : Name} (h : p ∉ ps) :
    (zipPos ps i n).lookup p = none := by
  rw [lookup_eq_none_iff_keys]
  intro e he heq
  exact h (heq ▸ zipPos_mem_keys he)

/-! ### consequences of distinct names -/

structure Disj (s : Sig) : Prop where
  po_pk : ∀ a, a ∈ s.posonly → a ∉ s.poskw
  po_ko : ∀ a, a ∈ s.posonly → a ∉ s.kwonly
  pk_ko : ∀ a, a ∈ s.poskw → a ∉ s.kwonly
  va_po : ∀ v, s.varargs = some v → v ∉ s.posonly
  va_pk : ∀ v, s.varargs = some v → v ∉ s.poskw
  va_ko : ∀ v, s.varargs = some v → v ∉ s.kwonly
  kw_po : ∀ v, s.kwargs = some v → v ∉ s.posonly
  kw_pk : ∀ v, s.kwargs = some v → v ∉ s.poskw
  kw_ko : ∀ v, s.kwargs = some v → v ∉ s.kwonly
  kw_va : ∀ v, s.kwargs = some v → s.varargs ≠ some v
  nd_params : s.params.Nodup
  nd_kwonly : s.kwonly.Nodup

theorem Sig.WF.disj {s : Sig} (h : s.WF) : Disj s := by
  unfold Sig.WF Sig.allNames at h
  simp only [List.nodup_append, List.mem_append, Option.mem_toList] at h
  obtain ⟨⟨⟨⟨hpo, hpk, h1⟩, _, h2⟩, hko, h3⟩, _, h4⟩ := h
  refine ⟨?_, ?_, ?_, ?_, ?_, ?_, ?_, ?_, ?_, ?_, ?_, hko⟩
  · intro a ha hb; exact h1 a ha a hb rfl
  · intro a ha hb; exact h3 a (Or.inl (Or.inl ha)) a hb rfl
  · intro a ha hb; exact h3 a (Or.inl (Or.inr ha)) a hb rfl
  · intro v hv hb; exact h2 v (Or.inl hb) v hv rfl
  · intro v hv hb; exact h2 v (Or.inr hb) v hv rfl
  · intro v hv hb; exact h3 v (Or.inr hv) v hb rfl
  · intro v hv hb; exact h4 v (Or.inl (Or.inl (Or.inl hb))) v hv rfl
  · intro v hv hb; exact h4 v (Or.inl (Or.inl (Or.inr hb))) v hv rfl
  · intro v hv hb; exact h4 v (Or.inr hb) v hv rfl
  · intro v hv hb; exact h4 v (Or.inl (Or.inr hb)) v hv rfl
  · unfold Sig.params
    exact List.nodup_append.2 ⟨hpo, hpk, h1⟩

/-! ### the keyword loop in closed form -/

/-- the keyword loop succeeds iff no keyword re-binds a bound parameter and, without `**kwargs`,
every keyword names a keyword-bindable parameter -/
def KwCond (s : Sig) (kws : List Name) (b : Dict) : Prop :=
  (∀ k ∈ kws, k ∈ s.kwBindable → b.lookup k = none) ∧
  (s.kwargs = none → ∀ k ∈ kws, k ∈ s.kwBindable)

def boundKws (s : Sig) (kws : List Name) : List Name := kws.filter fun k => s.kwBindable.contains k
def restKws (s : Sig) (kws : List Name) : List Name := kws.filter fun k => !s.kwBindable.contains k

theorem cpyKws_ok (s : Sig) (ak kws : List Name) (b : Dict) (e : List Name)
    (hnd : kws.Nodup) (hc : KwCond s kws b) :
    cpyKws s ak kws (b, e) = .ok (kwEntries (boundKws s kws).reverse ++ b, e ++ restKws s kws) := by
  induction kws generalizing b e with
  | nil => simp [cpyKws, boundKws, restKws, kwEntries]
  | cons k ks ih =>
    obtain ⟨h1, h2⟩ := hc
    have hnd' := (List.nodup_cons.1 hnd)
    by_cases hk : k ∈ s.kwBindable
    · have hl : b.lookup k = none := h1 k (by simp) hk
      have hstep : cpyKw s ak (b, e) k = .ok ((k, .kw k) :: b, e) := by
        simp [cpyKw, hk, hl]
      have hc' : KwCond s ks ((k, .kw k) :: b) := by
        refine ⟨?_, fun hn k' hk' => h2 hn k' (List.mem_cons_of_mem _ hk')⟩
        intro k' hk' hb'
        have hne : k' ≠ k := fun h => hnd'.1 (h ▸ hk')
        rw [lookup_cons_ne _ _ _ _ hne]
        exact h1 k' (List.mem_cons_of_mem _ hk') hb'
      simp only [cpyKws, hstep]
      rw [ih _ _ hnd'.2 hc']
      simp [boundKws, restKws, kwEntries, hk]
    · have hkw : s.kwargs.isSome = true := by
        cases hkk : s.kwargs with
        | none => exact absurd (h2 hkk k (by simp)) hk
        | some _ => rfl
      have hstep : cpyKw s ak (b, e) k = .ok (b, e ++ [k]) := by
        simp [cpyKw, hk, hkw]
      have hc' : KwCond s ks b :=
        ⟨fun k' hk' => h1 k' (List.mem_cons_of_mem _ hk'),
         fun hn k' hk' => h2 hn k' (List.mem_cons_of_mem _ hk')⟩
      simp only [cpyKws, hstep]
      rw [ih _ _ hnd'.2 hc']
      simp [boundKws, restKws, hk]

theorem cpyKws_cond (s : Sig) (ak kws : List Name) (b : Dict) (e : List Name) (r : Dict × List Name)
    (hnd : kws.Nodup) (h : cpyKws s ak kws (b, e) = .ok r) : KwCond s kws b := by
  induction kws generalizing b e with
  | nil => exact ⟨by simp, by simp⟩
  | cons k ks ih =>
    have hnd' := (List.nodup_cons.1 hnd)
    simp only [cpyKws] at h
    by_cases hk : k ∈ s.kwBindable
    · cases hl : b.lookup k with
      | some v => simp [cpyKw, hk, hl] at h
      | none =>
        have hstep : cpyKw s ak (b, e) k = .ok ((k, .kw k) :: b, e) := by
          simp [cpyKw, hk, hl]
        rw [hstep] at h
        obtain ⟨i1, i2⟩ := ih _ _ hnd'.2 h
        refine ⟨?_, ?_⟩
        · intro k' hk' hb'
          rcases List.mem_cons.1 hk' with rfl | hk''
          · exact hl
          · have hne : k' ≠ k := fun hh => hnd'.1 (hh ▸ hk'')
            have := i1 k' hk'' hb'
            rwa [lookup_cons_ne _ _ _ _ hne] at this
        · intro hn k' hk'
          rcases List.mem_cons.1 hk' with rfl | hk''
          · exact hk
          · exact i2 hn k' hk''
    · cases hkk : s.kwargs with
      | none =>
        have hstep : ∃ e', cpyKw s ak (b, e) k = .error e' := by
          unfold cpyKw
          by_cases hp : (ak.any fun k' => s.posonly.contains k') = true
          · exact ⟨_, by simp only [List.contains_eq_mem, hk, decide_false, Bool.false_eq_true, ↓reduceIte, hkk, Option.isSome_none]; rw [if_pos (by simpa using hp)]⟩
          · exact ⟨_, by simp only [List.contains_eq_mem, hk, decide_false, Bool.false_eq_true, ↓reduceIte, hkk, Option.isSome_none]; rw [if_neg (by simpa using hp)]⟩
        obtain ⟨e', he'⟩ := hstep
        rw [he'] at h
        cases h
      | some v =>
        have hstep : cpyKw s ak (b, e) k = .ok (b, e ++ [k]) := by
          simp [cpyKw, hk, hkk]
        rw [hstep] at h
        obtain ⟨i1, _⟩ := ih _ _ hnd'.2 h
        refine ⟨?_, fun hn => by rw [hkk] at hn; cases hn⟩
        intro k' hk' hb'
        rcases List.mem_cons.1 hk' with rfl | hk''
        · exact absurd hb' hk
        · exact i1 k' hk'' hb'

theorem cpyKws_err_cls (s : Sig) (ak kws : List Name) (st : Dict × List Name) (err : CpyErr)
    (h : cpyKws s ak kws st = .error err) : err.cls = .keywordError := by
  induction kws generalizing st with
  | nil => simp [cpyKws] at h
  | cons k ks ih =>
    simp only [cpyKws] at h
    cases hstep : cpyKw s ak st k with
    | ok st' => rw [hstep] at h; exact ih _ h
    | error e' =>
      rw [hstep] at h
      have : e' = err := by simpa using h
      subst this
      unfold cpyKw at hstep
      split at hstep
      · split at hstep
        · cases hstep; rfl
        · cases hstep
      · split at hstep
        · cases hstep
        · split at hstep <;> cases hstep <;> rfl

/-! ### pytype's keyword checks are the same condition -/

theorem hasDuplicate_iff (s : Sig) (c : Call) (hd : Disj s) :
    hasDuplicate s c = true ↔
      ¬ (∀ k ∈ c.kws, k ∈ s.kwBindable → (positional s c).lookup k = none) := by
  unfold hasDuplicate
  rw [List.any_eq_true]
  constructor
  · rintro ⟨e, he, hp⟩ hall
    simp only [Bool.and_eq_true, Bool.not_eq_true', List.contains_eq_mem, decide_eq_false_iff_not,
      decide_eq_true_eq] at hp
    have hpar : e.1 ∈ s.params := zipPos_mem_keys he
    have hpk : e.1 ∈ s.poskw := by
      rcases List.mem_append.1 hpar with h | h
      · exact absurd h hp.1
      · exact h
    have := hall e.1 hp.2 (List.mem_append.2 (Or.inl hpk))
    rw [lookup_eq_none_iff_keys] at this
    exact this e he rfl
  · intro h
    have : ∃ k, k ∈ c.kws ∧ k ∈ s.kwBindable ∧ (positional s c).lookup k ≠ none := by
      apply Classical.byContradiction
      intro hn
      apply h
      intro k hk hb
      apply Classical.byContradiction
      intro hne
      exact hn ⟨k, hk, hb, hne⟩
    obtain ⟨k, hk, hb, hne⟩ := this
    obtain ⟨e, he, heq⟩ := (lookup_ne_none_iff_keys _ _).1 hne
    refine ⟨e, he, ?_⟩
    have hnpo : e.1 ∉ s.posonly := by
      intro hpo
      rw [heq] at hpo
      rcases List.mem_append.1 hb with h | h
      · exact hd.po_pk k hpo h
      · exact hd.po_ko k hpo h
    rw [heq] at hnpo
    simp [hnpo, heq, hk]

theorem kwChecks_iff (s : Sig) (c : Call) (hd : Disj s) :
    ((!(extraKws s c).isEmpty && s.kwargs.isNone) = true ∨
      (!(posonlyKws s c).isEmpty && s.kwargs.isNone) = true) ↔
      ¬ (s.kwargs = none → ∀ k ∈ c.kws, k ∈ s.kwBindable) := by
  have hmem : ∀ k, k ∈ s.kwBindable ↔ (k ∈ s.params ++ s.kwonly ∧ k ∉ s.posonly) := by
    intro k
    simp only [Sig.kwBindable, Sig.params, List.mem_append]
    constructor
    · rintro (h | h)
      · exact ⟨Or.inl (Or.inr h), fun hpo => hd.po_pk k hpo h⟩
      · exact ⟨Or.inr h, fun hpo => hd.po_ko k hpo h⟩
    · rintro ⟨(h | h) | h, hn⟩
      · exact absurd h hn
      · exact Or.inl h
      · exact Or.inr h
  cases hkw : s.kwargs with
  | some v => simp
  | none =>
    simp only [Option.isNone_none, Bool.and_true, Bool.not_eq_true', forall_const]
    constructor
    · rintro (h | h) hall
      · have hne : extraKws s c ≠ [] := by
          intro hh; simp [hh] at h
        obtain ⟨k, hk⟩ := List.exists_mem_of_ne_nil _ hne
        simp only [extraKws, List.mem_filter, Bool.not_eq_true', List.contains_eq_mem,
          decide_eq_false_iff_not] at hk
        exact hk.2 ((hmem k).1 (hall k hk.1)).1
      · have hne : posonlyKws s c ≠ [] := by
          intro hh; simp [hh] at h
        obtain ⟨k, hk⟩ := List.exists_mem_of_ne_nil _ hne
        simp only [posonlyKws, List.mem_filter, List.contains_eq_mem, decide_eq_true_eq] at hk
        exact ((hmem k).1 (hall k hk.1)).2 hk.2
    · intro h
      have : ∃ k, k ∈ c.kws ∧ k ∉ s.kwBindable := by
        apply Classical.byContradiction
        intro hn
        apply h
        intro k hk
        apply Classical.byContradiction
        intro hne
        exact hn ⟨k, hk, hne⟩
      obtain ⟨k, hk, hnb⟩ := this
      by_cases hpar : k ∈ s.params ++ s.kwonly
      · right
        have hpo : k ∈ s.posonly := by
          apply Classical.byContradiction
          intro hn
          exact hnb ((hmem k).2 ⟨hpar, hn⟩)
        have : k ∈ posonlyKws s c := by
          simp [posonlyKws, List.mem_filter, hk, hpo]
        cases hh : posonlyKws s c with
        | nil => rw [hh] at this; simp at this
        | cons _ _ => rfl
      · left
        have : k ∈ extraKws s c := by
          simp only [extraKws, List.mem_filter, Bool.not_eq_true', List.contains_eq_mem,
            decide_eq_false_iff_not]
          exact ⟨hk, hpar⟩
        cases hh : extraKws s c with
        | nil => rw [hh] at this; simp at this
        | cons _ _ => rfl

/-- the three keyword checks of `_map_args` fail together exactly when CPython's keyword loop
fails -/
theorem kwStage_iff (s : Sig) (c : Call) (hd : Disj s) :
    (hasDuplicate s c = false ∧ (!(extraKws s c).isEmpty && s.kwargs.isNone) = false ∧
      (!(posonlyKws s c).isEmpty && s.kwargs.isNone) = false) ↔ KwCond s c.kws (positional s c) := by
  unfold KwCond
  have h1 := hasDuplicate_iff s c hd
  have h2 := kwChecks_iff s c hd
  constructor
  · rintro ⟨a, b, d⟩
    constructor
    · apply Classical.byContradiction
      intro hn
      rw [h1.2 hn] at a
      exact Bool.noConfusion a
    · apply Classical.byContradiction
      intro hn
      rcases h2.2 hn with h | h
      · rw [h] at b; exact Bool.noConfusion b
      · rw [h] at d; exact Bool.noConfusion d
  · rintro ⟨a, b⟩
    refine ⟨?_, ?_, ?_⟩
    · cases hh : hasDuplicate s c with
      | false => rfl
      | true => exact absurd a (h1.1 hh)
    · cases hh : (!(extraKws s c).isEmpty && s.kwargs.isNone) with
      | false => rfl
      | true => exact absurd b (h2.1 (Or.inl hh))
    · cases hh : (!(posonlyKws s c).isEmpty && s.kwargs.isNone) with
      | false => rfl
      | true => exact absurd b (h2.1 (Or.inr hh))

/-! ### values of named parameters -/

/-- a named parameter is found among pytype's keyword entries exactly when CPython's loop bound it -/
theorem lookup_kw_same (s : Sig) (c : Call) (hd : Disj s) (p : Name)
    (hp : p ∈ s.params ++ s.kwonly) :
    (kwEntries (c.kws.filter fun k => !(posonlyKws s c).contains k)).lookup p =
      (kwEntries (boundKws s c.kws).reverse).lookup p := by
  rw [lookup_kwEntries, lookup_kwEntries]
  have : (p ∈ c.kws.filter fun k => !(posonlyKws s c).contains k) ↔
      p ∈ (boundKws s c.kws).reverse := by
    simp only [List.mem_filter, posonlyKws, boundKws, List.mem_reverse, Bool.not_eq_true',
      List.contains_eq_mem, decide_eq_false_iff_not, decide_eq_true_eq, Sig.kwBindable,
      List.mem_append, not_and]
    simp only [Sig.params, List.mem_append] at hp
    constructor
    · rintro ⟨hk, hn⟩
      refine ⟨hk, ?_⟩
      rcases hp with (h | h) | h
      · exact absurd h (hn hk)
      · exact Or.inl h
      · exact Or.inr h
    · rintro ⟨hk, hb⟩
      refine ⟨hk, fun _ hpo => ?_⟩
      rcases hb with h | h
      · exact hd.po_pk p hpo h
      · exact hd.po_ko p hpo h
  by_cases h : p ∈ c.kws.filter fun k => !(posonlyKws s c).contains k
  · rw [if_pos h, if_pos (this.1 h)]
  · rw [if_neg h, if_neg (fun hh => h (this.2 hh))]

/-- CPython's state after the keyword loop -/
def cpyBound (s : Sig) (c : Call) : Dict :=
  kwEntries (boundKws s c.kws).reverse ++ positional s c

theorem callargs0_lookup (s : Sig) (c : Call) (hd : Disj s) (p : Name)
    (hp : p ∈ s.params ++ s.kwonly) :
    (callargs0 s c).lookup p =
      ((cpyBound s c).lookup p).or (if p ∈ s.defaults then some .default else none) := by
  unfold callargs0 cpyBound
  rw [List.lookup_append, List.lookup_append, List.lookup_append, lookup_kw_same s c hd p hp,
    lookup_defaultsDict]

theorem callargs0_none_iff (s : Sig) (c : Call) (hd : Disj s) (p : Name)
    (hp : p ∈ s.params ++ s.kwonly) :
    ((callargs0 s c).lookup p).isNone = true ↔
      ((cpyBound s c).lookup p).isNone = true ∧ p ∉ s.defaults := by
  rw [callargs0_lookup s c hd p hp]
  cases (cpyBound s c).lookup p with
  | some v => simp
  | none => by_cases h : p ∈ s.defaults <;> simp [h]

theorem callargs0_val (s : Sig) (c : Call) (hd : Disj s) (p : Name)
    (hp : p ∈ s.params ++ s.kwonly)
    (hfilled : cpyUnfilled s (cpyBound s c) p = false) :
    (callargs0 s c).lookup p = some (cpyVal (cpyBound s c) p) := by
  rw [callargs0_lookup s c hd p hp]
  unfold cpyUnfilled at hfilled
  unfold cpyVal
  cases h : (cpyBound s c).lookup p with
  | some v => simp
  | none =>
    rw [h] at hfilled
    have : p ∈ s.defaults := by simpa using hfilled
    simp [this]

theorem hasMissing_iff (s : Sig) (c : Call) (hd : Disj s) :
    hasMissing s c = true ↔
      (s.params.any (cpyUnfilled s (cpyBound s c)) = true ∨
        s.kwonly.any (cpyUnfilled s (cpyBound s c)) = true) := by
  unfold hasMissing required
  rw [List.any_append, Bool.or_eq_true, List.any_eq_true, List.any_eq_true, List.any_eq_true,
    List.any_eq_true]
  constructor
  · rintro (⟨p, hp, hn⟩ | ⟨p, hp, hn⟩)
    · left
      rw [List.mem_filter] at hp
      have hp' : p ∈ s.params ++ s.kwonly := List.mem_append.2 (Or.inl hp.1)
      refine ⟨p, hp.1, ?_⟩
      have := (callargs0_none_iff s c hd p hp').1 hn
      simp only [cpyUnfilled, Bool.and_eq_true, Bool.not_eq_true', List.contains_eq_mem,
        decide_eq_false_iff_not]
      exact this
    · right
      have hp' : p ∈ s.params ++ s.kwonly := List.mem_append.2 (Or.inr hp)
      refine ⟨p, hp, ?_⟩
      have := (callargs0_none_iff s c hd p hp').1 hn
      simp only [cpyUnfilled, Bool.and_eq_true, Bool.not_eq_true', List.contains_eq_mem,
        decide_eq_false_iff_not]
      exact this
  · rintro (⟨p, hp, hn⟩ | ⟨p, hp, hn⟩)
    · left
      simp only [cpyUnfilled, Bool.and_eq_true, Bool.not_eq_true', List.contains_eq_mem,
        decide_eq_false_iff_not] at hn
      have hp' : p ∈ s.params ++ s.kwonly := List.mem_append.2 (Or.inl hp)
      refine ⟨p, ?_, (callargs0_none_iff s c hd p hp').2 hn⟩
      rw [List.mem_filter]
      exact ⟨hp, by simpa using hn.2⟩
    · right
      simp only [cpyUnfilled, Bool.and_eq_true, Bool.not_eq_true', List.contains_eq_mem,
        decide_eq_false_iff_not] at hn
      have hp' : p ∈ s.params ++ s.kwonly := List.mem_append.2 (Or.inr hp)
      exact ⟨p, hp, (callargs0_none_iff s c hd p hp').2 hn⟩

/-- the contents of the `**kwargs` dictionary agree -/
theorem kwargs_contents_same (s : Sig) (c : Call) (hd : Disj s) :
    (c.kws.filter fun k => !(omitNames s c).contains k) = restKws s c.kws := by
  unfold restKws
  apply List.filter_congr
  intro k hk
  have : k ∈ omitNames s c ↔ k ∈ s.kwBindable := by
    simp only [omitNames, posonlyKws, Sig.params, Sig.kwBindable, List.mem_append, List.mem_filter,
      Bool.not_eq_true', List.contains_eq_mem, decide_eq_false_iff_not, decide_eq_true_eq, not_and]
    constructor
    · rintro (⟨h | h, hn⟩ | h)
      · exact absurd h (hn hk)
      · exact Or.inl h
      · exact Or.inr h
    · rintro (h | h)
      · exact Or.inl ⟨Or.inr h, fun _ hpo => hd.po_pk k hpo h⟩
      · exact Or.inr h
  by_cases h : k ∈ s.kwBindable
  · simp [h, this.2 h]
  · have h' : k ∉ omitNames s c := fun hh => h (this.1 hh)
    simp [h, h']

end PytypeModel.ArgBind
