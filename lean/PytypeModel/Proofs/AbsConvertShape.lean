/-
C06 proofs, part 3: on emitted-shape types the re-export is the identity (`normOut t = strip t`), also after
`None` has been moved last in every union.
-/
import PytypeModel.Proofs.AbsConvertIdem

namespace PytypeModel.Pytd.AbsConvert
open PytypeModel.Pytd

/-! ### pytd-equal types have equal skeletons -/

mutual
theorem sameTy_skel : ∀ (a b : Ty), sameTy a b = true → skel a = skel b
  | .any, b, h => by cases b <;> simp_all [sameTy, skel]
  | .nothing, b, h => by cases b <;> simp_all [sameTy, skel]
  | .named _, b, h => by cases b <;> simp_all [sameTy, skel]
  | .cls _, b, h => by cases b <;> simp_all [sameTy, skel]
  | .late _, b, h => by cases b <;> simp_all [sameTy, skel]
  | .typeParam _ _, b, h => by cases b <;> simp_all [sameTy, skel]
  | .literal _, b, h => by cases b <;> simp_all [sameTy, skel]
  | .union _, b, h => by cases b <;> simp_all [sameTy, skel]
  | .generic b1 p1, b, h => by
    cases b with
    | generic b2 p2 =>
      simp only [sameTy, Bool.and_eq_true] at h
      simp only [skel, sameTy_skel b1 b2 h.1, sameList_skels p1 p2 h.2]
    | _ => simp [sameTy] at h
  | .tuple b1 p1, b, h => by
    cases b with
    | tuple b2 p2 =>
      simp only [sameTy, Bool.and_eq_true] at h
      simp only [skel, sameTy_skel b1 b2 h.1, sameList_skels p1 p2 h.2]
    | _ => simp [sameTy] at h
  | .callable b1 p1, b, h => by
    cases b with
    | callable b2 p2 =>
      simp only [sameTy, Bool.and_eq_true] at h
      simp only [skel, sameTy_skel b1 b2 h.1, sameList_skels p1 p2 h.2]
    | _ => simp [sameTy] at h
  | .annotated t1 a1, b, h => by
    cases b with
    | annotated t2 a2 =>
      simp only [sameTy, Bool.and_eq_true, beq_iff_eq] at h
      simp only [skel, sameTy_skel t1 t2 h.1, h.2]
    | _ => simp [sameTy] at h
theorem sameList_skels : ∀ (as bs : List Ty), sameList as bs = true → skels as = skels bs
  | [], bs, h => by cases bs <;> simp_all [sameList, skels]
  | a :: as, bs, h => by
    cases bs with
    | nil => simp [sameList] at h
    | cons b bs =>
      simp only [sameList, Bool.and_eq_true] at h
      simp only [skels, sameTy_skel a b h.1, sameList_skels as bs h.2]
end

/-! ### `dedupe` keeps a list whose skeletons are pairwise different -/

theorem nodupTys_cons (t : Ty) (ts : List Ty) :
    nodupTys (t :: ts) = true ↔ (∀ x ∈ ts, x ≠ t) ∧ nodupTys ts = true := by
  simp [nodupTys]

theorem mem_skels (x : Ty) (l : List Ty) (h : x ∈ l) : skel x ∈ skels l := by
  induction l with
  | nil => simp at h
  | cons y ys ih =>
    rcases List.mem_cons.1 h with e | h'
    · subst e; simp [skels]
    · simp [skels, ih h']

theorem dedupe_id (seen l : List Ty) (h1 : ∀ x ∈ l, x ≠ .nothing) (hs : nodupTys (skels l) = true)
    (hseen : ∀ s ∈ seen, ∀ x ∈ l, skel s ≠ skel x) : dedupe seen l = l := by
  induction l generalizing seen with
  | nil => simp [dedupe]
  | cons t ts ih =>
    have ht := h1 t (by simp)
    have hnot : seenHas seen t = false := by
      cases hb : seenHas seen t with
      | false => rfl
      | true =>
        exfalso
        obtain ⟨s, hs1, hs2⟩ := List.any_eq_true.1 hb
        exact hseen s hs1 t (by simp) (sameTy_skel s t hs2)
    simp only [skels] at hs
    have hs' := (nodupTys_cons _ _).1 hs
    simp only [dedupe, ht, if_false, hnot, Bool.false_eq_true]
    congr 1
    apply ih (t :: seen) (fun x hx => h1 x (by simp [hx])) hs'.2
    intro s hs1 x hx
    rcases List.mem_cons.1 hs1 with e | h'
    · subst e
      intro e2
      exact hs'.1 (skel x) (mem_skels x ts hx) e2.symm
    · exact hseen s h' x (by simp [hx])

/-- the core of the identity: members fixed by `normVal`, not unions/nothing/Any, pairwise different
skeletons, at least two of them — `JoinTypes` over their re-exports is the union of them -/
theorem joinTypes_members_id (l : List Ty)
    (hfix : ∀ m ∈ l, normVal m = m ∧ isUnionTy m = false ∧ m ≠ .nothing ∧ m ≠ .any)
    (hs : nodupTys (skels l) = true) (hlen : 2 ≤ l.length) :
    joinTypes (normMembers l) = .union l := by
  have hm : normMembers l = l := normMembers_id l (fun m hm => ⟨(hfix m hm).1, (hfix m hm).2.2.1⟩)
  have hf : flatten l = l := flatten_id l (fun m hm => (hfix m hm).2.1)
  have hd : dedupe [] l = l :=
    dedupe_id [] l (fun m hm => (hfix m hm).2.2.1) hs (by intro s hs1; simp at hs1)
  have hany : l.any (· = .any) = false := by
    cases hb : l.any (· = .any) with
    | false => rfl
    | true =>
      exfalso
      obtain ⟨z, hz, hz'⟩ := List.any_eq_true.1 hb
      exact (hfix z hz).2.2.2 (by simpa using hz')
  rw [hm, joinTypes, hf, hd]
  exact joinCore_union l hlen hany

/-! ### skeletons under `strip` and `nl` -/

mutual
theorem skel_strip : ∀ t : Ty, skel (strip t) = skel t
  | .any | .nothing | .named _ | .cls _ | .late _ | .typeParam _ _ | .literal _ => by simp [strip, skel]
  | .union ts => by simp [strip, skel]
  | .generic b ps => by simp only [strip, skel, skel_strip b, skels_strips ps]
  | .tuple b ps => by simp only [strip, skel, skel_strip b, skels_strips ps]
  | .callable b ps => by simp only [strip, skel, skel_strip b, skels_strips ps]
  | .annotated t as => by simp only [strip, skel, skel_strip t]
theorem skels_strips : ∀ ts : List Ty, skels (strips ts) = skels ts
  | [] => by simp [strips, skels]
  | t :: ts => by simp only [strips, skels, skel_strip t, skels_strips ts]
end

mutual
theorem skel_nl : ∀ t : Ty, skel (nl t) = skel t
  | .any | .nothing | .named _ | .cls _ | .late _ | .typeParam _ _ | .literal _ => by simp [nl, skel]
  | .union ts => by simp [nl, skel]
  | .generic b ps => by simp only [nl, skel, skels_nls ps]
  | .tuple b ps => by simp only [nl, skel, skels_nls ps]
  | .callable b ps => by simp only [nl, skel, skels_nls ps]
  | .annotated t as => by simp only [nl, skel, skel_nl t]
theorem skels_nls : ∀ ts : List Ty, skels (nls ts) = skels ts
  | [] => by simp [nls, skels]
  | t :: ts => by simp only [nls, skels, skel_nl t, skels_nls ts]
end

/-! ### `None`-last is a partition: it keeps skeleton-distinctness -/

theorem skels_append (a b : List Ty) : skels (a ++ b) = skels a ++ skels b := by
  induction a with
  | nil => simp [skels]
  | cons x xs ih => simp [skels, ih]

theorem nodupTys_iff (l : List Ty) : nodupTys l = true ↔ l.Nodup := by
  induction l with
  | nil => simp [nodupTys]
  | cons x xs ih =>
    rw [nodupTys_cons, List.nodup_cons, ih]
    constructor
    · intro ⟨h1, h2⟩; exact ⟨fun hm => h1 x hm rfl, h2⟩
    · intro ⟨h1, h2⟩; exact ⟨fun y hy e => h1 (e ▸ hy), h2⟩

theorem skels_eq_map (l : List Ty) : skels l = l.map skel := by
  induction l with
  | nil => rfl
  | cons x xs ih => simp [skels, ih]

theorem nodup_skels_noneLastR (l : List Ty) (h : nodupTys (skels l) = true) :
    nodupTys (skels (noneLastR l)) = true := by
  rw [nodupTys_iff, skels_eq_map] at *
  unfold noneLastR
  have hp : (l.filter (fun t => !isNoneRef t) ++ l.filter isNoneRef).Perm l :=
    List.perm_append_comm.trans (List.filter_append_perm isNoneRef l)
  exact (hp.map skel).nodup_iff.2 h

theorem mem_noneLastR (l : List Ty) (x : Ty) : x ∈ noneLastR l ↔ x ∈ l := by
  unfold noneLastR
  simp only [List.mem_append, List.mem_filter]
  constructor
  · rintro (⟨h, _⟩ | ⟨h, _⟩) <;> exact h
  · intro h
    by_cases hn : isNoneRef x = true
    · exact Or.inr ⟨h, hn⟩
    · exact Or.inl ⟨h, by simp [hn]⟩

theorem length_noneLastR (l : List Ty) : (noneLastR l).length = l.length := by
  unfold noneLastR
  have := (List.filter_append_perm isNoneRef l).length_eq
  simp only [List.length_append] at this ⊢
  omega

theorem mem_nls (l : List Ty) (x : Ty) (h : x ∈ nls l) : ∃ y ∈ l, x = nl y := by
  induction l with
  | nil => simp [nls] at h
  | cons a as ih =>
    simp only [nls, List.mem_cons] at h
    rcases h with e | h'
    · exact ⟨a, by simp, e⟩
    · obtain ⟨y, hy, e⟩ := ih h'
      exact ⟨y, by simp [hy], e⟩

theorem nls_length (l : List Ty) : (nls l).length = l.length := by
  induction l with
  | nil => simp [nls]
  | cons a as ih => simp [nls, ih]

theorem strips_length (l : List Ty) : (strips l).length = l.length := by
  induction l with
  | nil => simp [strips]
  | cons a as ih => simp [strips, ih]

end PytypeModel.Pytd.AbsConvert
