import PytypeModel.Proofs.PyiTypesI

/-! C05, unions, part A: expression-level facts about `_BuildUnion` on a formed member list. -/
namespace PytypeModel.Pytd

def pNon (e : PyExpr) : Bool := !isLitE e && e ≠ .none
def pLit (e : PyExpr) : Bool := isLitE e
def pNone (e : PyExpr) : Bool := e = .none

theorem isLitE_none : isLitE .none = false := rfl

theorem p_cases (e : PyExpr) :
    (pNon e = true ∧ pLit e = false ∧ pNone e = false) ∨
    (pNon e = false ∧ pLit e = true ∧ pNone e = false) ∨
    (pNon e = false ∧ pLit e = false ∧ pNone e = true) := by
  unfold pNon pLit pNone
  by_cases h1 : isLitE e = true
  · right; left
    have : e ≠ .none := by intro e'; subst e'; simp [isLitE_none] at h1
    simp [h1, this]
  · have h1' : isLitE e = false := by simpa using h1
    by_cases h2 : e = .none
    · right; right; simp [h1', h2, isLitE_none]
    · left; simp [h1', h2]

/-- the three-way split of the formed list, in the order `norm` uses -/
def split3 (l : List PyExpr) : List PyExpr := l.filter pNon ++ l.filter pLit ++ l.filter pNone

theorem mem_split3 {l : List PyExpr} {e : PyExpr} : e ∈ split3 l ↔ e ∈ l := by
  unfold split3
  simp only [List.mem_append, List.mem_filter]
  constructor
  · rintro ((⟨h, _⟩ | ⟨h, _⟩) | ⟨h, _⟩) <;> exact h
  · intro h
    rcases p_cases e with ⟨h1, _, _⟩ | ⟨_, h2, _⟩ | ⟨_, _, h3⟩
    · exact Or.inl (Or.inl ⟨h, h1⟩)
    · exact Or.inl (Or.inr ⟨h, h2⟩)
    · exact Or.inr ⟨h, h3⟩

theorem nodup_split3 {l : List PyExpr} (h : l.Nodup) : (split3 l).Nodup := by
  unfold split3
  rw [List.nodup_append, List.nodup_append]
  refine ⟨⟨h.sublist List.filter_sublist, h.sublist List.filter_sublist, ?_⟩,
    h.sublist List.filter_sublist, ?_⟩
  · intro a ha b hb e
    subst e
    have h1 := (List.mem_filter.1 ha).2
    have h2 := (List.mem_filter.1 hb).2
    rcases p_cases a with ⟨_, c, _⟩ | ⟨c, _, _⟩ | ⟨c, _, _⟩ <;> simp_all
  · intro a ha b hb e
    subst e
    have h2 := (List.mem_filter.1 hb).2
    rcases List.mem_append.1 ha with ha | ha
    · have h1 := (List.mem_filter.1 ha).2
      rcases p_cases a with ⟨_, _, c⟩ | ⟨c, _, _⟩ | ⟨c, _, _⟩ <;> simp_all
    · have h1 := (List.mem_filter.1 ha).2
      rcases p_cases a with ⟨_, c, _⟩ | ⟨_, _, c⟩ | ⟨_, c, _⟩ <;> simp_all

theorem filter_filter_excl {l : List PyExpr} {p q : PyExpr → Bool} (h : ∀ e, p e = true → q e = false) :
    (l.filter p).filter q = [] := by
  rw [List.filter_eq_nil_iff]
  intro a ha
  rw [h a (List.mem_filter.1 ha).2]
  simp

theorem filter_filter_self {l : List PyExpr} {p : PyExpr → Bool} : (l.filter p).filter p = l.filter p := by
  rw [List.filter_filter]
  congr 1
  funext a
  simp

theorem pNon_excl_lit (e : PyExpr) (h : pNon e = true) : pLit e = false := by
  rcases p_cases e with ⟨_, c, _⟩ | ⟨c, _, _⟩ | ⟨c, _, _⟩ <;> simp_all
theorem pNon_excl_none (e : PyExpr) (h : pNon e = true) : pNone e = false := by
  rcases p_cases e with ⟨_, _, c⟩ | ⟨c, _, _⟩ | ⟨c, _, _⟩ <;> simp_all
theorem pLit_excl_non (e : PyExpr) (h : pLit e = true) : pNon e = false := by
  rcases p_cases e with ⟨_, c, _⟩ | ⟨c, _, _⟩ | ⟨_, c, _⟩ <;> simp_all
theorem pLit_excl_none (e : PyExpr) (h : pLit e = true) : pNone e = false := by
  rcases p_cases e with ⟨_, c, _⟩ | ⟨_, _, c⟩ | ⟨_, c, _⟩ <;> simp_all
theorem pNone_excl_non (e : PyExpr) (h : pNone e = true) : pNon e = false := by
  rcases p_cases e with ⟨_, _, c⟩ | ⟨c, _, _⟩ | ⟨c, _, _⟩ <;> simp_all
theorem pNone_excl_lit (e : PyExpr) (h : pNone e = true) : pLit e = false := by
  rcases p_cases e with ⟨_, _, c⟩ | ⟨_, _, c⟩ | ⟨_, c, _⟩ <;> simp_all

theorem split3_filter_non (l : List PyExpr) : (split3 l).filter pNon = l.filter pNon := by
  unfold split3
  simp only [List.filter_append, filter_filter_self, filter_filter_excl pLit_excl_non,
    filter_filter_excl pNone_excl_non, List.append_nil]

theorem filterMap_litArgs_eq (l : List PyExpr) : l.filterMap litArgs = (l.filter pLit).filterMap litArgs := by
  induction l with
  | nil => rfl
  | cons e es ih =>
    by_cases h : pLit e = true
    · rw [List.filter_cons_of_pos h]
      simp only [List.filterMap_cons]
      rw [ih]
    · have h' : pLit e = false := by simpa using h
      rw [List.filter_cons_of_neg h]
      have : litArgs e = none := by
        unfold pLit isLitE at h'
        cases hl : litArgs e with
        | none => rfl
        | some a => rw [hl] at h'; simp at h'
      simp only [List.filterMap_cons, this]
      exact ih

theorem filterMap_litArgs_nil {l : List PyExpr} (h : ∀ e ∈ l, pLit e = false) : l.filterMap litArgs = [] := by
  rw [filterMap_litArgs_eq, List.filter_eq_nil_iff.2]
  · rfl
  · intro a ha; rw [h a ha]; simp

theorem split3_filterMap_lit (l : List PyExpr) : (split3 l).filterMap litArgs = l.filterMap litArgs := by
  unfold split3
  simp only [List.filterMap_append]
  rw [filterMap_litArgs_nil (l := l.filter pNon) (fun e he => pNon_excl_lit e (List.mem_filter.1 he).2),
    filterMap_litArgs_nil (l := l.filter pNone) (fun e he => pNone_excl_lit e (List.mem_filter.1 he).2),
    ← filterMap_litArgs_eq]
  simp

theorem split3_contains_none (l : List PyExpr) : (split3 l).contains .none = l.contains .none := by
  rw [Bool.eq_iff_iff]
  simp only [List.contains_iff_mem]
  exact mem_split3

theorem buildUnion_eq (l : List PyExpr) :
    buildUnion l = buildUnion3 (l.filter pNon) (l.filterMap litArgs) (l.contains .none) := rfl

theorem buildUnionAdds_eq (l : List PyExpr) :
    buildUnionAdds l = buildUnionAdds3 (l.filter pNon) (l.filterMap litArgs) (l.contains .none) := rfl

/-- `_BuildUnion` does not care where `None` and the literals stand -/
theorem buildUnion_split3 (l : List PyExpr) : buildUnion (split3 l) = buildUnion l := by
  rw [buildUnion_eq, buildUnion_eq, split3_filter_non, split3_filterMap_lit, split3_contains_none]

theorem buildUnionAdds_split3 (l : List PyExpr) : buildUnionAdds (split3 l) = buildUnionAdds l := by
  rw [buildUnionAdds_eq, buildUnionAdds_eq, split3_filter_non, split3_filterMap_lit, split3_contains_none]

theorem nodup_formSetK_id (ip : Bool) (es : List PyExpr) : (formSetK id ip es).Nodup := by
  unfold formSetK
  simp only []
  split
  · exact (nodup_dedupK_id es).sublist List.filter_sublist
  · exact nodup_dedupK_id es

/-- forming the set again after the three-way split changes nothing -/
theorem formSetK_split3 (ip : Bool) (es : List PyExpr) :
    formSetK id ip (split3 (formSetK id ip es)) = split3 (formSetK id ip es) :=
  formSetK_id_stable ip es _ (nodup_split3 (nodup_formSetK_id ip es)) (fun _ => mem_split3)

theorem litArgs_some {e : PyExpr} {a : List PyExpr} (h : litArgs e = some a) :
    e = .sub (.name "Literal") a := by
  unfold litArgs at h
  split at h
  · simp at h; subst h; rfl
  · simp at h

/-- a formed list whose split is a single member prints as that member -/
theorem buildUnion_single {l : List PyExpr} {x : PyExpr} (h : split3 l = [x]) : buildUnion l = x := by
  rw [← buildUnion_split3, h, buildUnion_eq]
  rcases p_cases x with ⟨h1, h2, h3⟩ | ⟨h1, h2, h3⟩ | ⟨h1, h2, h3⟩
  · have e1 : [x].filter pNon = [x] := by simp [h1]
    have e2 : [x].filterMap litArgs = [] := filterMap_litArgs_nil (by simp [h2])
    have e3 : [x].contains .none = false := by
      unfold pNone at h3
      have : x ≠ .none := by simpa using h3
      simpa using (fun e => this e.symm)
    rw [e1, e2, e3]
    simp [buildUnion3, unionOf]
  · have e1 : [x].filter pNon = [] := by simp [h1]
    have hx : ∃ a, litArgs x = some a := by
      unfold pLit isLitE at h2
      exact Option.isSome_iff_exists.1 h2
    obtain ⟨a, ha⟩ := hx
    have e2 : [x].filterMap litArgs = [a] := by simp [ha]
    have e3 : [x].contains .none = false := by
      unfold pNone at h3
      have : x ≠ .none := by simpa using h3
      simpa using (fun e => this e.symm)
    rw [e1, e2, e3, litArgs_some ha]
    simp [buildUnion3, unionOf]
  · have hx : x = .none := by unfold pNone at h3; simpa using h3
    subst hx
    simp [buildUnion3, pNon, isLitE_none, litArgs]

theorem buildUnionAdds_single {l : List PyExpr} {x : PyExpr} (h : split3 l = [x]) : buildUnionAdds l = [] := by
  rw [← buildUnionAdds_split3, h, buildUnionAdds_eq]
  rcases p_cases x with ⟨h1, h2, h3⟩ | ⟨h1, h2, h3⟩ | ⟨h1, h2, h3⟩
  · have e1 : [x].filter pNon = [x] := by simp [h1]
    have e2 : [x].filterMap litArgs = [] := filterMap_litArgs_nil (by simp [h2])
    have e3 : [x].contains .none = false := by
      unfold pNone at h3
      have : x ≠ .none := by simpa using h3
      simpa using (fun e => this e.symm)
    rw [e1, e2, e3]
    simp [buildUnionAdds3]
  · have e1 : [x].filter pNon = [] := by simp [h1]
    obtain ⟨a, ha⟩ : ∃ a, litArgs x = some a := by
      unfold pLit isLitE at h2
      exact Option.isSome_iff_exists.1 h2
    have e2 : [x].filterMap litArgs = [a] := by simp [ha]
    have e3 : [x].contains .none = false := by
      unfold pNone at h3
      have : x ≠ .none := by simpa using h3
      simpa using (fun e => this e.symm)
    rw [e1, e2, e3]
    simp [buildUnionAdds3]
  · have hx : x = .none := by unfold pNone at h3; simpa using h3
    subst hx
    simp [buildUnionAdds3, pNon, isLitE_none, litArgs]

end PytypeModel.Pytd
