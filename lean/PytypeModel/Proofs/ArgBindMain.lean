import PytypeModel.Proofs.ArgBind

/-! Normal forms of `mapArgs` and `cpyBind` under `KwCond`, and the comparison of their results. -/
namespace PytypeModel.ArgBind

/-- CPython's result once the keyword loop has succeeded -/
def specResult (s : Sig) (c : Call) : Dict :=
  s.params.map (fun p => (p, cpyVal (cpyBound s c) p))
  ++ (s.varargs.toList.map fun v =>
        (v, ArgRef.varargsTuple (List.range' s.params.length (c.npos - s.params.length))))
  ++ s.kwonly.map (fun p => (p, cpyVal (cpyBound s c) p))
  ++ (s.kwargs.toList.map fun kw => (kw, ArgRef.kwargsDict (restKws s c.kws)))

theorem cpyBind_of_cond (s : Sig) (c : Call) (hnd : c.WF)
    (hc : KwCond s c.kws (positional s c)) :
    cpyBind s c =
      if c.npos > s.params.length && s.varargs.isNone then .error .tooManyPositional
      else if s.params.any (cpyUnfilled s (cpyBound s c)) then .error .missingPositional
      else if s.kwonly.any (cpyUnfilled s (cpyBound s c)) then .error .missingKwonly
      else .ok (specResult s c) := by
  unfold cpyBind
  have := cpyKws_ok s c.kws c.kws (positional s c) [] hnd hc
  unfold positional at this
  simp only [this]
  rfl

theorem cpyBind_of_not_cond (s : Sig) (c : Call) (hnd : c.WF)
    (hc : ¬ KwCond s c.kws (positional s c)) :
    ∃ e, cpyBind s c = .error e ∧ e.cls = .keywordError := by
  cases h : cpyKws s c.kws c.kws (positional s c, []) with
  | ok r => exact absurd (cpyKws_cond s c.kws c.kws _ _ r hnd h) hc
  | error e =>
    refine ⟨e, ?_, cpyKws_err_cls s c.kws c.kws _ e h⟩
    unfold cpyBind
    unfold positional at h
    simp only [h]

theorem mapArgs_of_cond (s : Sig) (c : Call) (hd : Disj s)
    (hc : KwCond s c.kws (positional s c)) :
    mapArgs s c =
      if hasMissing s c then .error .missingParameter
      else match withVarargs s c (callargs0 s c) with
        | .error e => .error e
        | .ok d => .ok (withKwargs s c d) := by
  obtain ⟨h1, h2, h3⟩ := (kwStage_iff s c hd).2 hc
  unfold mapArgs
  rw [h1, h2, h3]
  rfl

theorem mapArgs_of_not_cond (s : Sig) (c : Call) (hd : Disj s)
    (hc : ¬ KwCond s c.kws (positional s c)) :
    ∃ e, mapArgs s c = .error e ∧ e.cls = .keywordError := by
  unfold mapArgs
  cases h1 : hasDuplicate s c with
  | true => exact ⟨_, rfl, rfl⟩
  | false =>
    cases h2 : (!(extraKws s c).isEmpty && s.kwargs.isNone) with
    | true => exact ⟨_, rfl, rfl⟩
    | false =>
      cases h3 : (!(posonlyKws s c).isEmpty && s.kwargs.isNone) with
      | true => exact ⟨_, rfl, rfl⟩
      | false => exact absurd ((kwStage_iff s c hd).1 ⟨h1, h2, h3⟩) hc

/-- both procedures, side by side, once the keyword stage has passed -/
theorem withVarargs_eq (s : Sig) (c : Call) (d : Dict) :
    withVarargs s c d =
      if c.npos > s.params.length && s.varargs.isNone then .error .wrongArgCount
      else .ok ((s.varargs.toList.map fun v => (v, ArgRef.varargsTuple (extraneous s c))) ++ d) := by
  unfold withVarargs
  cases s.varargs with
  | some v => simp
  | none =>
    by_cases h : c.npos > s.params.length <;> simp [h]

theorem withKwargs_eq (s : Sig) (c : Call) (hd : Disj s) (d : Dict) :
    withKwargs s c d =
      (s.kwargs.toList.map fun kw => (kw, ArgRef.kwargsDict (restKws s c.kws))) ++ d := by
  unfold withKwargs
  cases s.kwargs with
  | some v => simp only [Option.toList_some, List.map_cons, List.map_nil, List.cons_append, List.nil_append]; rw [kwargs_contents_same s c hd]
  | none => simp

/-- pytype's final dictionary when nothing is raised -/
def modelResult (s : Sig) (c : Call) : Dict :=
  (s.kwargs.toList.map fun kw => (kw, ArgRef.kwargsDict (restKws s c.kws)))
  ++ ((s.varargs.toList.map fun v => (v, ArgRef.varargsTuple (extraneous s c))) ++ callargs0 s c)

theorem mapArgs_normal (s : Sig) (c : Call) (hd : Disj s)
    (hc : KwCond s c.kws (positional s c)) :
    mapArgs s c =
      if hasMissing s c then .error .missingParameter
      else if c.npos > s.params.length && s.varargs.isNone then .error .wrongArgCount
      else .ok (modelResult s c) := by
  rw [mapArgs_of_cond s c hd hc, withVarargs_eq]
  by_cases h1 : hasMissing s c = true
  · simp [h1]
  · by_cases h2 : (c.npos > s.params.length && s.varargs.isNone) = true
    · simp [h1, h2]
    · simp only [h1, h2]
      simp only [Bool.false_eq_true, ↓reduceIte]
      rw [withKwargs_eq s c hd]
      rfl

/-! ### lookups in the two results -/

theorem lookup_optEntry_ne (o : Option Name) (f : Name → ArgRef) (p : Name) (h : o ≠ some p) :
    (o.toList.map fun v => (v, f v)).lookup p = none := by
  cases o with
  | none => simp
  | some v =>
    have : (p == v) = false := by
      have : p ≠ v := fun hh => h (by rw [hh])
      simpa using this
    simp [List.lookup_cons, this]

theorem lookup_optEntry_self (f : Name → ArgRef) (p : Name) :
    ((some p).toList.map fun v => (v, f v)).lookup p = some (f p) := by
  simp

theorem modelResult_lookup_named (s : Sig) (c : Call) (hd : Disj s) (p : Name)
    (hp : p ∈ s.params ++ s.kwonly) :
    (modelResult s c).lookup p = (callargs0 s c).lookup p := by
  have hkw : s.kwargs ≠ some p := by
    intro h
    rcases List.mem_append.1 hp with h' | h'
    · rcases List.mem_append.1 h' with h'' | h''
      · exact hd.kw_po p h h''
      · exact hd.kw_pk p h h''
    · exact hd.kw_ko p h h'
  have hva : s.varargs ≠ some p := by
    intro h
    rcases List.mem_append.1 hp with h' | h'
    · rcases List.mem_append.1 h' with h'' | h''
      · exact hd.va_po p h h''
      · exact hd.va_pk p h h''
    · exact hd.va_ko p h h'
  unfold modelResult
  rw [List.lookup_append, List.lookup_append,
    lookup_optEntry_ne s.kwargs (fun _ => ArgRef.kwargsDict (restKws s c.kws)) p hkw,
    lookup_optEntry_ne s.varargs (fun _ => ArgRef.varargsTuple (extraneous s c)) p hva]
  simp

theorem specResult_lookup_param (s : Sig) (c : Call) (p : Name) (hp : p ∈ s.params) :
    (specResult s c).lookup p = some (cpyVal (cpyBound s c) p) := by
  unfold specResult
  rw [List.lookup_append, List.lookup_append, List.lookup_append,
    lookup_map_self (fun p => cpyVal (cpyBound s c) p) s.params p, if_pos hp]
  simp

theorem specResult_lookup_kwonly (s : Sig) (c : Call) (hd : Disj s) (p : Name)
    (hp : p ∈ s.kwonly) :
    (specResult s c).lookup p = some (cpyVal (cpyBound s c) p) := by
  have hpar : p ∉ s.params := by
    intro h
    rcases List.mem_append.1 h with h' | h'
    · exact hd.po_ko p h' hp
    · exact hd.pk_ko p h' hp
  have hva : s.varargs ≠ some p := fun h => hd.va_ko p h hp
  unfold specResult
  rw [List.lookup_append, List.lookup_append, List.lookup_append,
    lookup_map_self (fun p => cpyVal (cpyBound s c) p) s.params p, if_neg hpar,
    lookup_optEntry_ne s.varargs
      (fun _ => ArgRef.varargsTuple (List.range' s.params.length (c.npos - s.params.length))) p hva,
    lookup_map_self (fun p => cpyVal (cpyBound s c) p) s.kwonly p, if_pos hp]
  simp

theorem specResult_lookup_varargs (s : Sig) (c : Call) (hd : Disj s) (v : Name)
    (hv : s.varargs = some v) :
    (specResult s c).lookup v = some (.varargsTuple (extraneous s c)) := by
  have hpar : v ∉ s.params := by
    intro h
    rcases List.mem_append.1 h with h' | h'
    · exact hd.va_po v hv h'
    · exact hd.va_pk v hv h'
  unfold specResult
  rw [List.lookup_append, List.lookup_append, List.lookup_append,
    lookup_map_self (fun p => cpyVal (cpyBound s c) p) s.params v, if_neg hpar, hv]
  simp [extraneous]

theorem specResult_lookup_kwargs (s : Sig) (c : Call) (hd : Disj s) (v : Name)
    (hv : s.kwargs = some v) :
    (specResult s c).lookup v = some (.kwargsDict (restKws s c.kws)) := by
  have hpar : v ∉ s.params := by
    intro h
    rcases List.mem_append.1 h with h' | h'
    · exact hd.kw_po v hv h'
    · exact hd.kw_pk v hv h'
  have hko : v ∉ s.kwonly := hd.kw_ko v hv
  have hva : s.varargs ≠ some v := hd.kw_va v hv
  unfold specResult
  rw [List.lookup_append, List.lookup_append, List.lookup_append,
    lookup_map_self (fun p => cpyVal (cpyBound s c) p) s.params v, if_neg hpar,
    lookup_optEntry_ne s.varargs
      (fun _ => ArgRef.varargsTuple (List.range' s.params.length (c.npos - s.params.length))) v hva,
    lookup_map_self (fun p => cpyVal (cpyBound s c) p) s.kwonly v, if_neg hko, hv]
  simp

theorem modelResult_lookup_kwargs (s : Sig) (c : Call) (v : Name) (hv : s.kwargs = some v) :
    (modelResult s c).lookup v = some (.kwargsDict (restKws s c.kws)) := by
  unfold modelResult
  rw [hv]
  simp

theorem modelResult_lookup_varargs (s : Sig) (c : Call) (hd : Disj s) (v : Name)
    (hv : s.varargs = some v) :
    (modelResult s c).lookup v = some (.varargsTuple (extraneous s c)) := by
  have hkw : s.kwargs ≠ some v := fun h => hd.kw_va v h hv
  unfold modelResult
  rw [List.lookup_append,
    lookup_optEntry_ne s.kwargs (fun _ => ArgRef.kwargsDict (restKws s c.kws)) v hkw, hv]
  simp

theorem allNames_cases (s : Sig) (p : Name) (hp : p ∈ s.allNames) :
    p ∈ s.params ∨ s.varargs = some p ∨ p ∈ s.kwonly ∨ s.kwargs = some p := by
  unfold Sig.allNames at hp
  simp only [List.mem_append, Option.mem_toList] at hp
  rcases hp with (((h | h) | h) | h) | h
  · exact Or.inl (List.mem_append.2 (Or.inl h))
  · exact Or.inl (List.mem_append.2 (Or.inr h))
  · exact Or.inr (Or.inl h)
  · exact Or.inr (Or.inr (Or.inl h))
  · exact Or.inr (Or.inr (Or.inr h))

/-- when nothing is missing, every name of the callee's frame has the same value in pytype's
dictionary and in CPython's frame -/
theorem results_lookup_same (s : Sig) (c : Call) (hd : Disj s)
    (hmiss : hasMissing s c = false) (p : Name) (hp : p ∈ s.allNames) :
    (modelResult s c).lookup p = (specResult s c).lookup p := by
  have hm := hasMissing_iff s c hd
  have hfilled : ∀ q, q ∈ s.params ++ s.kwonly → cpyUnfilled s (cpyBound s c) q = false := by
    intro q hq
    cases hu : cpyUnfilled s (cpyBound s c) q with
    | false => rfl
    | true =>
      have : hasMissing s c = true := by
        apply hm.2
        rcases List.mem_append.1 hq with h | h
        · exact Or.inl (List.any_eq_true.2 ⟨q, h, hu⟩)
        · exact Or.inr (List.any_eq_true.2 ⟨q, h, hu⟩)
      rw [hmiss] at this
      exact Bool.noConfusion this
  rcases allNames_cases s p hp with h | h | h | h
  · have hq : p ∈ s.params ++ s.kwonly := List.mem_append.2 (Or.inl h)
    rw [modelResult_lookup_named s c hd p hq, specResult_lookup_param s c p h,
      callargs0_val s c hd p hq (hfilled p hq)]
  · rw [modelResult_lookup_varargs s c hd p h, specResult_lookup_varargs s c hd p h]
  · have hq : p ∈ s.params ++ s.kwonly := List.mem_append.2 (Or.inr h)
    rw [modelResult_lookup_named s c hd p hq, specResult_lookup_kwonly s c hd p h,
      callargs0_val s c hd p hq (hfilled p hq)]
  · rw [modelResult_lookup_kwargs s c p h, specResult_lookup_kwargs s c hd p h]

theorem specResult_keys (s : Sig) (c : Call) : (specResult s c).map Prod.fst = s.allNames := by
  unfold specResult Sig.allNames Sig.params
  simp [List.map_append, Function.comp_def]

end PytypeModel.ArgBind
