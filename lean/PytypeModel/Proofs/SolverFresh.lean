/-
C08 on acyclic graphs: the memo of the long-lived program is sound at all times, hence every query
answers what a fresh replica answers.
-/
import PytypeModel.Proofs.SolverAcyclic
import PytypeModel.Proofs.SolverProgram

namespace PytypeModel.Typegraph

/-- a query on a sound memo answers like a query on the empty memo, and leaves a sound memo -/
theorem answerWith_spec {g : Graph} {rank : NodeId → Nat} (hwf : g.WF) (hac : g.AcyclicBy rank)
    (memo : Memo) (hm : MemoInv3 (spec g rank) memo []) (q : Query) :
    (answerWith g memo q).1 = (answerWith g [] q).1 ∧
    ∀ m', (answerWith g memo q).2 = some m' → MemoInv3 (spec g rank) m' [] := by
  have h0 := memoInv3_nil (spec g rank) []
  cases q with
  | has n bs =>
    obtain ⟨h1, h2⟩ := solve_spec hwf hac memo n bs hm
    obtain ⟨_, h4⟩ := solve_spec hwf hac [] n bs h0
    unfold answerWith
    exact ⟨by simp only [h2, h4], fun m' hm' => by simp only [Option.some.injEq] at hm'; exact hm' ▸ h1⟩
  | visible b n =>
    obtain ⟨h1, h2⟩ := solve_spec hwf hac memo n [b] hm
    obtain ⟨_, h4⟩ := solve_spec hwf hac [] n [b] h0
    unfold answerWith
    exact ⟨by simp only [h2, h4], fun m' hm' => by simp only [Option.some.injEq] at hm'; exact hm' ▸ h1⟩
  | filter v n strict =>
    unfold answerWith
    simp only
    split
    · exact ⟨rfl, fun m' hm' => by simp at hm'⟩
    · unfold varFilter
      obtain ⟨h1, h2⟩ := filterLoop_spec hwf hac n (!strict && (g.varBindings v).length == 1)
        (g.varBindings v) memo hm
      obtain ⟨_, h4⟩ := filterLoop_spec hwf hac n (!strict && (g.varBindings v).length == 1)
        (g.varBindings v) [] h0
      exact ⟨by simp only [h2, h4], fun m' hm' => by simp only [Option.some.injEq] at hm'; exact hm' ▸ h1⟩
  | canHave n bs => exact ⟨rfl, fun m' hm' => by simp [answerWith] at hm'⟩
  | prune v n => exact ⟨rfl, fun m' hm' => by simp [answerWith] at hm'⟩

/-- whenever the current graph is well-formed and acyclic, the live solver's memo is sound -/
def MemoGood (s : PState) : Prop :=
  ∀ m, s.memo = some m → ∀ rank, s.g.WF → s.g.AcyclicBy rank → MemoInv3 (spec s.g rank) m []

theorem memoGood_init (addrs : List Nat) : MemoGood (PState.init addrs) := by
  intro m hm; simp [PState.init] at hm

theorem memoGood_ask (s : PState) (q : Query) (h : MemoGood s) : MemoGood (s.ask q).2 := by
  intro m hm rank hwf hac
  rw [ask_g] at hwf hac
  rw [ask_g]
  have hin : MemoInv3 (spec s.g rank) (s.memo.getD []) [] := by
    cases hs : s.memo with
    | none => exact memoInv3_nil _ _
    | some m0 => exact h m0 hs rank hwf hac
  have hsp := (answerWith_spec hwf hac _ hin q).2
  unfold PState.ask at hm
  generalize answerWith s.g (s.memo.getD []) q = r at hm hsp
  obtain ⟨a, om⟩ := r
  cases om with
  | none =>
    simp only at hm
    cases hs : s.memo with
    | none => rw [hs] at hm; simp at hm
    | some m0 =>
      rw [hs] at hm
      simp only [Option.some.injEq] at hm
      subst hm
      exact h m0 hs rank hwf hac
  | some m1 =>
    simp only [Option.some.injEq] at hm
    subst hm
    exact hsp m1 rfl

theorem memoGood_step (s : PState) (op : Op) (h : MemoGood s) : MemoGood (s.step op) := by
  cases hq : op.isQuery with
  | true =>
    cases op with
    | query q => exact memoGood_ask s q h
    | _ => simp [Op.isQuery] at hq
  | false =>
    rcases (step_of_nonquery s op hq).1 with h1 | ⟨hg, hm⟩
    · intro m hm; rw [h1] at hm; simp at hm
    · intro m hm' rank hwf hac
      rw [hg] at hwf hac ⊢
      rw [hm] at hm'
      exact h m hm' rank hwf hac

theorem memoGood_run : ∀ (ops : List Op) (s : PState), MemoGood s → MemoGood (s.run ops)
  | [], _, h => h
  | op :: ops, s, h => memoGood_run ops (s.step op) (memoGood_step s op h)

/-- on a well-formed acyclic current graph the live answer is the cold answer -/
theorem ask_eq_cold (s : PState) (h : MemoGood s) {rank : NodeId → Nat} (hwf : s.g.WF)
    (hac : s.g.AcyclicBy rank) (q : Query) : (s.ask q).1 = coldAnswer s.g q := by
  rw [ask_fst]
  have hin : MemoInv3 (spec s.g rank) (s.memo.getD []) [] := by
    cases hs : s.memo with
    | none => exact memoInv3_nil _ _
    | some m0 => exact h m0 hs rank hwf hac
  exact (answerWith_spec hwf hac _ hin q).1

/-! ### certificates for concrete graphs -/

/-- decidable sufficient check for `Graph.WF` -/
def Graph.wfB (g : Graph) : Bool :=
  (List.range g.bindings.length).all fun b =>
    (g.binding b).origins.all fun o => (g.node o.node).bindings.contains b

theorem Graph.wf_of_wfB (g : Graph) (h : g.wfB = true) : g.WF := by
  refine ⟨fun b n hb hs => ?_⟩
  unfold Graph.wfB at h
  rw [List.all_eq_true] at h
  have h1 := h b (List.mem_range.2 hb)
  rw [List.all_eq_true] at h1
  cases ho : g.findOrigin b n with
  | none => simp [ho] at hs
  | some o =>
    obtain ⟨hmem, hn⟩ := findOrigin_some_mem ho
    have := h1 o hmem
    rw [hn] at this
    simpa using this

/-- all edges go from a smaller to a larger node id (what `ConnectNew` and forward `ConnectTo` produce) -/
def Graph.forwardB (g : Graph) : Bool :=
  (List.range g.nodes.length).all fun n => (g.incoming n).all fun m => decide (m < n)

theorem Graph.acyclicBy_of_forwardB (g : Graph) (h : g.forwardB = true) :
    g.AcyclicBy (fun n => min n g.nodes.length) := by
  refine ⟨fun n m hm => ?_, fun n => ?_⟩
  · by_cases hn : n < g.nodes.length
    · unfold Graph.forwardB at h
      rw [List.all_eq_true] at h
      have h1 := h n (List.mem_range.2 hn)
      rw [List.all_eq_true] at h1
      have hmn : m < n := by simpa using h1 m hm
      show min m g.nodes.length < min n g.nodes.length
      rw [Nat.min_eq_left (Nat.le_of_lt (Nat.lt_trans hmn hn)), Nat.min_eq_left (Nat.le_of_lt hn)]
      exact hmn
    · exfalso
      unfold Graph.incoming Graph.node at hm
      rw [List.getD_eq_getElem?_getD, List.getElem?_eq_none (Nat.le_of_not_lt hn)] at hm
      have hd : (default : Node).incoming = [] := rfl
      rw [Option.getD_none, hd] at hm
      exact absurd hm List.not_mem_nil
  · unfold Graph.solveFuel
    have : g.nodes.length ≤ g.nodes.length * 2 ^ g.bindings.length :=
      Nat.le_mul_of_pos_right _ (Nat.two_pow_pos _)
    show min n g.nodes.length < g.nodes.length * 2 ^ g.bindings.length + 1
    exact Nat.lt_succ_of_le (Nat.le_trans (Nat.min_le_right _ _) this)

end PytypeModel.Typegraph
