import PytypeModel.Proofs.PyiTypesE

/-! C05, types, part F: lists of types, generic types. -/
namespace PytypeModel.Pytd

/-! ### lists -/

def ListGood (g : GCtx) (ip : Bool) (ps : List Ty) : Prop := ∀ p ∈ ps, TyGood g ip p

theorem postTys_eq_map (tps : List String) (ts : List Ty) : postTys tps ts = ts.map (postTy tps) := by
  induction ts with
  | nil => rfl
  | cons t ts ih => simp [postTys, ih]

theorem listGood_exprs {g : GCtx} {ip : Bool} : ∀ {ps : List Ty}, ListGood g ip ps →
    tyExprs ip (normTys g.tps ip ps) = tyExprs ip ps
  | [], _ => rfl
  | p :: ps, h => by
    simp only [normTys, tyExprs]
    rw [(h p (by simp)).1, listGood_exprs (fun q hq => h q (by simp [hq]))]

theorem listGood_adds {g : GCtx} {ip : Bool} : ∀ {ps : List Ty}, ListGood g ip ps →
    ∀ X, X ∈ tysAdds ip (normTys g.tps ip ps) ↔ X ∈ tysAdds ip ps
  | [], _, _ => Iff.rfl
  | p :: ps, h, X => by
    simp only [normTys, tysAdds, List.mem_append]
    rw [(h p (by simp)).2.1 X, listGood_adds (fun q hq => h q (by simp [hq])) X]

theorem listGood_parse {g : GCtx} {ip : Bool} {d : Defs} : ∀ {ps : List Ty}, ListGood g ip ps →
    EnvOK g d (tysAdds ip ps) →
    ∃ pres, ParsesTo d (tyExprs ip ps) pres ∧ postTys g.tps pres = normTys g.tps ip ps
  | [], _, _ => ⟨[], trivial, rfl⟩
  | p :: ps, h, henv => by
    obtain ⟨pre, h1, h2, _⟩ := (h p (by simp)).2.2 d (henv.mono (by intro x hx; simp [tysAdds, hx]))
    obtain ⟨pres, h3, h4⟩ := listGood_parse (ps := ps) (fun q hq => h q (by simp [hq]))
      (henv.mono (by intro x hx; simp [tysAdds, hx]))
    refine ⟨pre :: pres, ⟨⟨h1, tyExpr_shape ip p⟩, h3⟩, ?_⟩
    simp [postTys, normTys, h2, h4]

/-! ### `newType` with parameters on a plain base -/

theorem newType_params {d : Defs} {x bn : String} {ps : List PArg} (hr : resolveType d x = .named bn)
    (ho : bn ≠ "typing.Optional") : newType d x (some ps) = parameterized d bn ps := by
  unfold newType
  rw [hr]
  simp [ho]

theorem parameterized_plain {d : Defs} {bn : String} {ts : List Ty} (hs : special d bn = .plain)
    (ha : bn ≠ "typing.Any") (hne : ts ≠ []) :
    parameterized d bn (ts.map PArg.ty) = .ok (.generic (.named bn) ts) := by
  unfold parameterized
  rw [hs]
  simp only [any_map_ty ts PArg.isLit (fun _ => rfl), Bool.false_eq_true, if_false, if_neg ha]
  have : (ts.map PArg.ty).isEmpty = false := by
    cases ts with
    | nil => exact absurd rfl hne
    | cons _ _ => rfl
  simp only [this, Bool.false_eq_true, if_false, cleanParams_types]
  show (do let ts ← pargTys (ts.map PArg.ty); Except.ok ((Ty.named bn).generic ts)) = _
  rw [pargTys_map]
  rfl

theorem postTy_generic_plain (tps : List String) (b : Ty) (ps : List Ty)
    (h1 : tyBaseName (postTy tps b) ≠ "typing.Optional") (h2 : tyBaseName (postTy tps b) ≠ "typing.Union") :
    postTy tps (.generic b ps) = .generic (postTy tps b) (postTys tps ps) := by
  simp [postTy, h1, h2]

theorem tyExpr_generic (ip : Bool) (b : Ty) (ps : List Ty) :
    tyExpr ip (.generic b ps) =
      if tyExpr ip b = .name "tuple" then .sub (tyExpr ip b) (tyExprs ip ps ++ [.ellipsis])
      else if tyBaseName b = "typing.Callable" then .sub (tyExpr ip b) (.ellipsis :: (tyExprs ip ps).tail)
      else .sub (tyExpr ip b) (tyExprs ip ps) := by
  simp [tyExpr]

theorem normTy_generic (tps : List String) (ip : Bool) (b : Ty) (ps : List Ty) :
    normTy tps ip (.generic b ps) =
      if tyBaseName b = "typing.Callable" ∧ ¬ (tyExpr false b = .name "tuple") then
        .generic (normTy tps ip b) (.any :: (normTys tps ip ps).tail)
      else .generic (normTy tps ip b) (normTys tps ip ps) := by
  simp [normTy]

theorem tyAdds_generic (ip : Bool) (b : Ty) (ps : List Ty) :
    tyAdds ip (.generic b ps) = tyAdds ip b ++
      (match ps with
       | [] => []
       | p :: rest =>
         if tyBaseName b = "typing.Callable" ∧ ¬ (tyExpr ip b = .name "tuple") then tysAdds ip rest
         else tyAdds ip p ++ tysAdds ip rest) := by
  cases ps <;> simp [tyAdds]

end PytypeModel.Pytd
