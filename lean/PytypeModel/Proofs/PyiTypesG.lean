import PytypeModel.Proofs.PyiTypesF

/-! C05, types, part G: the three shapes of a generic type, tuples, callables. -/
namespace PytypeModel.Pytd

theorem nameTy_facts {b : Ty} (hb : isNameTy b = true) (tps : List String) (ip : Bool) (g : GCtx) :
    tyExpr ip b = nameExpr (tyBaseName b) ∧ normTy tps ip b = normName tps (tyBaseName b) ∧
    tyAdds ip b = nameAdds (tyBaseName b) ∧ mTy g b = mName g (tyBaseName b) ∧
    fTy g ip b = fName g (tyBaseName b) := by
  cases b <;> simp [isNameTy] at hb <;> simp [tyExpr, normTy, tyAdds, mTy, fTy, tyBaseName]

theorem good_nameTy {g : GCtx} (hg : GOK g) (ip : Bool) {b : Ty} (hb : isNameTy b = true)
    (hf : fName g (tyBaseName b) = true) : TyGood g ip b := by
  obtain ⟨e1, e2, e3, _, _⟩ := nameTy_facts hb g.tps ip g
  obtain ⟨h1, h2, h3⟩ := good_name hg ip hf
  unfold TyGood
  rw [e2, e1, e3]
  exact ⟨h1, h2, h3⟩

theorem simpleNameExpr_eq_name {x y : String} (h : simpleNameExpr x = .name y) : x = y := by
  unfold simpleNameExpr at h
  split at h
  · simp at h
  · simpa using h

/-- a base that prints as `tuple` is the plain or `builtins` name `tuple` -/
theorem base_prints_tuple {g : GCtx} {n : String} (hf : fBase g n = true)
    (he : nameExpr n = .name "tuple") :
    normName g.tps n = .named "tuple" ∧ nameAdds n = [] ∧ fSimple g "tuple" = true ∧
    g.tps.contains "tuple" = false := by
  obtain ⟨hfn, hcases⟩ := fBase_cases hf
  unfold fName at hfn
  simp only [Bool.and_eq_true] at hfn
  rcases hcases with ⟨x, hc, htp, _⟩ | ⟨x, hc, hb⟩
  · rcases hc with hc | hc
    · have e : nameExpr n = simpleNameExpr x := by unfold nameExpr; rw [hc]
      have hx : x = "tuple" := simpleNameExpr_eq_name (e ▸ he)
      subst hx
      rw [hc] at hfn
      refine ⟨?_, ?_, hfn.2, htp⟩
      · unfold normName; rw [hc]; exact simpleNorm_neg htp (by decide)
      · unfold nameAdds; rw [hc]
    · have e : nameExpr n = simpleNameExpr x := by unfold nameExpr; rw [hc]
      have hx : x = "tuple" := simpleNameExpr_eq_name (e ▸ he)
      subst hx
      rw [hc] at hfn
      refine ⟨?_, ?_, hfn.2, htp⟩
      · unfold normName; rw [hc]; exact simpleNorm_neg htp (by decide)
      · unfold nameAdds; rw [hc]
  · have e : nameExpr n = simpleNameExpr x := by unfold nameExpr; rw [hc]
    have hx : x = "tuple" := simpleNameExpr_eq_name (e ▸ he)
    subst hx
    rw [hc] at hfn
    have h2 : (!typingBanned.contains "tuple") = true := hfn.2
    exact absurd h2 (by decide)

theorem special_tuple {g : GCtx} {d : Defs} {needs : List String} (henv : EnvOK g d needs)
    (hfs : fSimple g "tuple" = true) : special d "tuple" = .tuple := by
  rw [special_of_single henv (by decide) (fSimple_facts hfs).2.2]; rfl

theorem resolve_tuple {g : GCtx} {d : Defs} {needs : List String} (henv : EnvOK g d needs)
    (hfs : fSimple g "tuple" = true) : resolveType d "tuple" = .named "tuple" :=
  resolveType_other henv (fSimple_facts hfs).2.1 (fSimple_facts hfs).2.2 (by decide)

theorem postTy_tuple_name {g : GCtx} (htp : g.tps.contains "tuple" = false) :
    postTy g.tps (.named "tuple") = .named "tuple" := by
  rw [postTy_named, htp]
  decide

/-- `tuple[X, ...]` -/
theorem good_generic_tuple {g : GCtx} (hg : GOK g) (ip : Bool) (b p : Ty) (hb : isNameTy b = true)
    (hf : fBase g (tyBaseName b) = true) (he : tyExpr false b = .name "tuple") (ihp : TyGood g ip p) :
    TyGood g ip (.generic b [p]) := by
  obtain ⟨e1, e2, e3, _, _⟩ := nameTy_facts hb g.tps ip g
  have e1' : tyExpr false b = nameExpr (tyBaseName b) := (nameTy_facts hb g.tps false g).1
  rw [e1'] at he
  obtain ⟨hnorm, hadds, hfs, htp⟩ := base_prints_tuple hf he
  have hn : normTy g.tps ip (.generic b [p]) = .generic (.named "tuple") [normTy g.tps ip p] := by
    rw [normTy_generic, e1', he]
    simp [e2, hnorm, normTys]
  have hex : tyExpr ip (.generic b [p]) = .sub (.name "tuple") [tyExpr ip p, .ellipsis] := by
    rw [tyExpr_generic, e1, he]; simp [tyExprs]
  obtain ⟨ih1, ih2, ih3⟩ := ihp
  refine ⟨?_, ?_, ?_⟩
  · rw [hn, hex, tyExpr_generic]
    have : tyExpr ip (.named "tuple") = .name "tuple" := by rw [tyExpr_named]; decide
    rw [this]; simp [tyExprs, ih1]
  · intro X
    rw [hn, tyAdds_generic, tyAdds_generic, e1, he, e3, hadds]
    have : tyExpr ip (.named "tuple") = .name "tuple" := by rw [tyExpr_named]; decide
    have hna : nameAdds "tuple" = [] := by decide
    simp [this, tyAdds_named, tysAdds, ih2 X, hna]
  · intro d henv
    have henv' : EnvOK g d (tyAdds ip p) := henv.mono (by
      intro x hx
      rw [tyAdds_generic, e1, he]
      simp [hx])
    obtain ⟨pre, hp1, hp2, _⟩ := ih3 d henv'
    refine ⟨.generic (.named "tuple") [pre], ?_, ?_,
      headOK_single henv (x := "tuple") (by decide) (fSimple_facts hfs).2.2 (by decide) (by decide) rfl⟩
    · rw [hex]
      simp only [parseTy, dottedName, special_tuple henv hfs]
      rw [if_neg (by simp), parseArgs_cons_type d _ _ (tyExpr_shape ip p), hp1]
      simp only [parseArgs]
      show newType d "tuple" (some [.ty pre, .ellipsis]) = _
      rw [newType_params (resolve_tuple henv hfs) (by decide)]
      unfold parameterized
      rw [special_tuple henv hfs]
      simp only [List.any_cons, List.any_nil, PArg.isLit, Bool.or_false, Bool.false_eq_true, if_false,
        homTupleParam]
      have := cleanParams_types "tuple" [pre] false
      simp only [List.map_cons, List.map_nil] at this
      rw [this]
      rfl
    · rw [hn, postTy_generic_plain]
      · rw [postTy_tuple_name htp]; simp [postTys, hp2]
      · rw [postTy_tuple_name htp]; decide
      · rw [postTy_tuple_name htp]; decide


/-! ### `Callable[..., R]` -/

theorem classify_typing_Callable : classify "typing.Callable" = .typing "Callable" := by decide

theorem postTy_typing_keep {g : GCtx} (hg : GOK g) {n x : String} (hcn : comps n = ["typing", x])
    (hlk : typingToBuiltin.lookup x = none) (hAny : x ≠ "Any") : postTy g.tps (.named n) = .named n := by
  rw [postTy_named, tps_not_dotted hg hcn]
  simp only [Bool.false_eq_true, if_false]
  exact convNamed_typing hcn hlk hAny

theorem good_generic_callable {g : GCtx} (hg : GOK g) (ip : Bool) (b r : Ty) (hb : isNameTy b = true)
    (hn : tyBaseName b = "typing.Callable") (ihr : TyGood g ip r)
    (hsub : ∀ x ∈ tyAdds ip (.generic b [.any, r]), x ∈ g.adds) : TyGood g ip (.generic b [.any, r]) := by
  obtain ⟨e1, e2, e3, _, _⟩ := nameTy_facts hb g.tps ip g
  have e1' : tyExpr false b = nameExpr (tyBaseName b) := (nameTy_facts hb g.tps false g).1
  rw [hn] at e1 e2 e3 e1'
  have hne : nameExpr "typing.Callable" = .name "Callable" := by decide
  have hnn : normName g.tps "typing.Callable" = .named "typing.Callable" := by
    unfold normName; rw [classify_typing_Callable]
  have hna : nameAdds "typing.Callable" = ["Callable"] := by decide
  rw [hne] at e1 e1'
  rw [hnn] at e2
  rw [hna] at e3
  have hnt : ¬ (PyExpr.name "Callable" = PyExpr.name "tuple") := by decide
  have hnorm : normTy g.tps ip (.generic b [.any, r]) =
      .generic (.named "typing.Callable") [.any, normTy g.tps ip r] := by
    rw [normTy_generic, e1', hn, e2]
    simp [normTys, hnt]
  have hex : tyExpr ip (.generic b [.any, r]) = .sub (.name "Callable") [.ellipsis, tyExpr ip r] := by
    rw [tyExpr_generic, e1, hn]; simp [tyExprs, hnt]
  have hex' : ∀ r', tyExpr ip (.generic (.named "typing.Callable") [.any, r']) =
      .sub (.name "Callable") [.ellipsis, tyExpr ip r'] := by
    intro r'
    rw [tyExpr_generic, tyExpr_named, hne]; simp [tyExprs, hnt, tyBaseName]
  have hadds : ∀ (b' : Ty) (r' : Ty), tyExpr ip b' = .name "Callable" → tyBaseName b' = "typing.Callable" →
      tyAdds ip b' = ["Callable"] →
      tyAdds ip (.generic b' [.any, r']) = "Callable" :: tyAdds ip r' := by
    intro b' r' h1 h2 h3
    rw [tyAdds_generic, h1, h2, h3]
    simp [hnt, tysAdds]
  obtain ⟨ih1, ih2, ih3⟩ := ihr
  refine ⟨?_, ?_, ?_⟩
  · rw [hnorm, hex, hex', ih1]
  · intro X
    rw [hnorm, hadds b r e1 hn e3,
      hadds (.named "typing.Callable") _ (by rw [tyExpr_named, hne]) rfl (by rw [tyAdds_named, hna])]
    simp [ih2 X]
  · intro d henv
    have hC : "Callable" ∈ g.adds := hsub _ (by rw [hadds b r e1 hn e3]; simp)
    have hCn : "Callable" ∈ tyAdds ip (.generic b [.any, r]) := by rw [hadds b r e1 hn e3]; simp
    have hsp : special d "Callable" = .callable := by
      rw [special_of_single henv (by decide) (adds_not_alias hg hC)]; rfl
    have hres : resolveType d "Callable" = .named "typing.Callable" := by
      rw [resolveType_imp henv hCn (by decide)]; rfl
    obtain ⟨pre, hp1, hp2, _⟩ := ih3 d (henv.mono (by
      intro x hx; rw [hadds b r e1 hn e3]; simp [hx]))
    refine ⟨.generic (.named "typing.Callable") [.any, pre], ?_, ?_,
      headOK_typing_sub (n := "typing.Callable") (x := "Callable") (by decide) (by decide) (by decide) rfl
        (by intro m; simp)⟩
    · rw [hex]
      simp only [parseTy, dottedName, hsp]
      rw [if_neg (by simp)]
      simp only [parseArgs]
      rw [parseArgs_cons_type d _ _ (tyExpr_shape ip r), hp1]
      simp only [parseArgs]
      show newType d "Callable" (some [.ellipsis, .ty pre]) = _
      rw [newType_params hres (by decide)]
      unfold parameterized
      rw [special_typing_Callable]
      simp only [List.any_cons, List.any_nil, PArg.isLit, Bool.or_false, Bool.false_eq_true, if_false,
        PArg.isEllipsis, if_true]
      have := cleanParams_types "typing.Callable" [.any, pre] true
      simp only [List.map_cons, List.map_nil] at this
      rw [this]
      rfl
    · have hb' : postTy g.tps (.named "typing.Callable") = .named "typing.Callable" :=
        postTy_typing_keep hg (x := "Callable") (by decide) (by decide) (by decide)
      rw [hnorm, postTy_generic_plain]
      · rw [hb']; simp [postTys, postTy, hp2]
      · rw [hb']; decide
      · rw [hb']; decide

end PytypeModel.Pytd
