/-
`FindShortestPathToNode` / `FindNodeBackwards` decide exactly the existence of a clear backward path:
`path_exists ↔ ClearPath g blocked start finish` on every graph, with the stated fuel `bfsFuel = E + 2`
proved sufficient (each loop iteration either drops a queue entry or expands a not-yet-seen node, whose
in-degree many entries are appended).
-/
import PytypeModel.Proofs.SolverPaths

namespace PytypeModel.Typegraph

/-- backward path from `n` to `m` whose nodes other than `m` avoid the predicate -/
inductive CP (g : Graph) (avoid : NodeId → Prop) : NodeId → NodeId → Prop
  | here (m : NodeId) : CP g avoid m m
  | step {n k m : NodeId} : ¬ avoid n → k ∈ g.incoming n → CP g avoid k m → CP g avoid n m

theorem clearPath_iff_cp {g : Graph} {blocked : List NodeId} {n m : NodeId} :
    ClearPath g blocked n m ↔ CP g (fun x => x ∈ blocked) n m := by
  constructor
  · intro h
    induction h with
    | here => exact CP.here _
    | step h1 h2 _ ih => exact CP.step h1 h2 ih
  · intro h
    induction h with
    | here => exact ClearPath.here _
    | step h1 h2 _ ih => exact ClearPath.step h1 h2 ih

theorem CP.mono {g : Graph} {A A' : NodeId → Prop} (hA : ∀ n, A' n → A n) {a m : NodeId}
    (h : CP g A a m) : CP g A' a m := by
  induction h with
  | here => exact CP.here _
  | step h1 h2 _ ih => exact CP.step (fun h' => h1 (hA _ h')) h2 ih

/-- extend a clear path at its far end -/
theorem ClearPath.snoc {g : Graph} {blocked : List NodeId} {a y k : NodeId}
    (h : ClearPath g blocked a y) (hy : y ∉ blocked) (hk : k ∈ g.incoming y) : ClearPath g blocked a k := by
  induction h with
  | here => exact ClearPath.step hy hk (ClearPath.here _)
  | step h1 h2 _ ih => exact ClearPath.step h1 h2 (ih hy hk)

/-! ### soundness -/

theorem bfs_clear (g : Graph) (fin : NodeId) (blocked : List NodeId) (start : NodeId) :
    ∀ (fuel : Nat) (queue : List NodeId) (prev : Prev) (seen : List NodeId) (p : Prev),
      bfs g fin blocked fuel queue prev seen = some p →
      (∀ x ∈ queue, ClearPath g blocked start x) → ClearPath g blocked start fin := by
  intro fuel
  induction fuel with
  | zero => intro queue prev seen p h; simp [bfs] at h
  | succ fuel ih =>
    intro queue prev seen p h hq
    cases queue with
    | nil => simp [bfs] at h
    | cons node queue =>
      unfold bfs at h
      split at h
      · rename_i hfin
        subst hfin
        exact hq _ List.mem_cons_self
      · split at h
        · exact ih _ _ _ _ h (fun x hx => hq x (List.mem_cons_of_mem _ hx))
        · rename_i hskip
          have hnb : node ∉ blocked := by
            intro hb
            apply hskip
            simp [hb]
          refine ih _ _ _ _ h (fun x hx => ?_)
          rcases List.mem_append.1 hx with hx | hx
          · exact hq x (List.mem_cons_of_mem _ hx)
          · exact (hq node List.mem_cons_self).snoc hnb hx

/-! ### completeness -/

/-- rerouting: marking `y` as seen keeps a clear path from the old start or from a predecessor of `y` -/
theorem CP.reroute {g : Graph} {A : NodeId → Prop} {y x fin : NodeId} (h : CP g A x fin) :
    CP g (fun n => A n ∨ n = y) x fin ∨ ∃ k ∈ g.incoming y, CP g (fun n => A n ∨ n = y) k fin := by
  induction h with
  | here => exact Or.inl (CP.here _)
  | @step n k m hn hk _ ih =>
    rcases ih with ih | ih
    · by_cases hny : n = y
      · exact Or.inr ⟨k, hny ▸ hk, ih⟩
      · exact Or.inl (CP.step (fun h => h.elim hn hny) hk ih)
    · exact Or.inr ih

theorem CP.start_not_avoided {g : Graph} {A : NodeId → Prop} {x fin : NodeId} (h : CP g A x fin)
    (hne : x ≠ fin) : ¬ A x := by
  cases h with
  | here => exact absurd rfl hne
  | step hn _ _ => exact hn

/-- total weight of the ids of `l` that are not in `seen` -/
def unseenW (w : Nat → Nat) (seen : List Nat) : List Nat → Nat
  | [] => 0
  | n :: ns => (if n ∈ seen then 0 else w n) + unseenW w seen ns

theorem unseenW_cons_not_mem (w : Nat → Nat) (seen : List Nat) (y : Nat) :
    ∀ (l : List Nat), y ∉ l → unseenW w (y :: seen) l = unseenW w seen l := by
  intro l
  induction l with
  | nil => intro _; rfl
  | cons n ns ih =>
    intro hy
    have hne : n ≠ y := fun h => hy (h ▸ List.mem_cons_self)
    have hns : y ∉ ns := fun h => hy (List.mem_cons_of_mem _ h)
    simp only [unseenW, List.mem_cons, hne, false_or, ih hns]

theorem unseenW_cons_mem (w : Nat → Nat) (seen : List Nat) (y : Nat) (hy : y ∉ seen) :
    ∀ (l : List Nat), l.Nodup → y ∈ l → unseenW w (y :: seen) l + w y = unseenW w seen l := by
  intro l
  induction l with
  | nil => intro _ h; simp at h
  | cons n ns ih =>
    intro hnd hmem
    rw [List.nodup_cons] at hnd
    by_cases hny : n = y
    · subst hny
      simp only [unseenW, List.mem_cons, true_or, ↓reduceIte, hy, Nat.zero_add,
        unseenW_cons_not_mem w seen n ns hnd.1]
      omega
    · have : y ∈ ns := by
        rcases List.mem_cons.1 hmem with h | h
        · exact absurd h.symm hny
        · exact h
      have := ih hnd.2 this
      simp only [unseenW, List.mem_cons, hny, false_or]
      omega

/-- in-degrees of the nodes not yet expanded -/
def unseenDeg (g : Graph) (seen : List NodeId) (l : List NodeId) : Nat :=
  unseenW (fun n => (g.incoming n).length) seen l

theorem unseenDeg_cons_not_mem (g : Graph) (seen : List NodeId) (y : NodeId) (l : List NodeId) (h : y ∉ l) :
    unseenDeg g (y :: seen) l = unseenDeg g seen l := unseenW_cons_not_mem _ seen y l h

theorem unseenDeg_cons_mem (g : Graph) (seen : List NodeId) (y : NodeId) (hy : y ∉ seen) (l : List NodeId)
    (hnd : l.Nodup) (hm : y ∈ l) :
    unseenDeg g (y :: seen) l + (g.incoming y).length = unseenDeg g seen l :=
  unseenW_cons_mem _ seen y hy l hnd hm

theorem incoming_ge (g : Graph) (n : NodeId) (h : g.nodes.length ≤ n) : g.incoming n = [] := by
  unfold Graph.incoming Graph.node
  rw [List.getD_eq_getElem?_getD, List.getElem?_eq_none h]
  rfl

/-- expanding an unseen node: the measure drops by its in-degree -/
theorem unseenDeg_expand (g : Graph) (seen : List NodeId) (y : NodeId) (hy : y ∉ seen) :
    unseenDeg g (y :: seen) (List.range g.nodes.length) + (g.incoming y).length =
      unseenDeg g seen (List.range g.nodes.length) := by
  by_cases hlt : y < g.nodes.length
  · exact unseenDeg_cons_mem g seen y hy _ List.nodup_range (List.mem_range.2 hlt)
  · rw [unseenDeg_cons_not_mem g seen y _ (fun h => hlt (List.mem_range.1 h)),
      incoming_ge g y (Nat.le_of_not_lt hlt)]
    rfl

theorem bfs_complete (g : Graph) (fin : NodeId) (blocked : List NodeId) :
    ∀ (fuel : Nat) (queue : List NodeId) (prev : Prev) (seen : List NodeId),
      queue.length + unseenDeg g seen (List.range g.nodes.length) < fuel →
      (∃ x ∈ queue, CP g (fun n => n ∈ blocked ∨ n ∈ seen) x fin) →
      (bfs g fin blocked fuel queue prev seen).isSome := by
  intro fuel
  induction fuel with
  | zero => intro queue prev seen hf; exact absurd hf (Nat.not_lt_zero _)
  | succ fuel ih =>
    intro queue prev seen hf hw
    cases queue with
    | nil => obtain ⟨x, hx, _⟩ := hw; simp at hx
    | cons node queue =>
      unfold bfs
      split
      · rfl
      · rename_i hnf
        obtain ⟨x, hx, hcp⟩ := hw
        split
        · -- `node` is seen or blocked: it cannot be the witness
          rename_i hskip
          have hx' : x ∈ queue := by
            rcases List.mem_cons.1 hx with rfl | hx'
            · exfalso
              have hna := hcp.start_not_avoided hnf
              apply hna
              simp only [Bool.or_eq_true, List.contains_eq_mem, decide_eq_true_eq] at hskip
              exact hskip.symm
            · exact hx'
          refine ih _ _ _ ?_ ⟨x, hx', hcp⟩
          simp only [List.length_cons] at hf
          omega
        · rename_i hskip
          simp only [Bool.or_eq_true, List.contains_eq_mem, decide_eq_true_eq, not_or] at hskip
          have hmeasure := unseenDeg_expand g seen node hskip.1
          refine ih _ _ _ ?_ ?_
          · simp only [List.length_cons, List.length_append] at hf ⊢
            omega
          · -- reroute the witness around `node`
            have hA : ∀ n, ((n ∈ blocked ∨ n ∈ seen) ∨ n = node) ↔ (n ∈ blocked ∨ n ∈ node :: seen) := by
              intro n
              simp only [List.mem_cons]
              constructor
              · rintro ((h | h) | h)
                · exact Or.inl h
                · exact Or.inr (Or.inr h)
                · exact Or.inr (Or.inl h)
              · rintro (h | h | h)
                · exact Or.inl (Or.inl h)
                · exact Or.inr h
                · exact Or.inl (Or.inr h)
            have conv : ∀ a, CP g (fun n => (n ∈ blocked ∨ n ∈ seen) ∨ n = node) a fin →
                CP g (fun n => n ∈ blocked ∨ n ∈ node :: seen) a fin :=
              fun a h => h.mono (fun n hn => (hA n).2 hn)
            rcases hcp.reroute (y := node) with h | ⟨k, hk, h⟩
            · have hxq : x ∈ queue := by
                rcases List.mem_cons.1 hx with rfl | hx'
                · exact absurd (Or.inr rfl) (h.start_not_avoided hnf)
                · exact hx'
              exact ⟨x, List.mem_append_left _ hxq, conv x h⟩
            · exact ⟨k, List.mem_append_right _ hk, conv k h⟩

theorem rebuild_ne_nil (prev : Prev) : ∀ (fuel : Nat) (node : NodeId) (acc : List NodeId),
    rebuild prev (fuel + 1) node acc ≠ [] := by
  intro fuel
  induction fuel with
  | zero =>
    intro node acc
    unfold rebuild
    split
    · simp [rebuild]
    · simp
  | succ fuel ih =>
    intro node acc
    unfold rebuild
    split
    · exact ih _ _
    · simp

/-- **`FindNodeBackwards(start, finish, blocked).path_exists` holds exactly when a backward path from
`start` to `finish` exists none of whose nodes other than `finish` is blocked** (every graph). -/
theorem findNodeBackwards_iff (g : Graph) (start fin : NodeId) (blocked : List NodeId) :
    (findNodeBackwards g start fin blocked).1 = true ↔ ClearPath g blocked start fin := by
  constructor
  · intro h
    unfold findNodeBackwards at h
    simp only at h
    split at h
    · simp at h
    · rename_i hne
      unfold shortestPath at hne
      split at hne
      · simp at hne
      · rename_i prev hb
        exact bfs_clear g fin blocked start _ _ _ _ _ hb (by
          intro x hx
          simp only [List.mem_singleton] at hx
          subst hx
          exact ClearPath.here _)
  · intro h
    have hsome := bfs_complete g fin blocked g.bfsFuel [start] [(start, none)] [] (by
      have : unseenDeg g [] (List.range g.nodes.length) = g.numEdges := by
        unfold Graph.numEdges
        generalize List.range g.nodes.length = l
        induction l with
        | nil => rfl
        | cons n ns ih =>
          have : unseenDeg g [] (n :: ns) = (g.incoming n).length + unseenDeg g [] ns := by
            simp [unseenDeg, unseenW]
          simp [this, ih]
      simp only [List.length_singleton, this, Graph.bfsFuel]
      omega) ⟨start, List.mem_singleton.2 rfl, by
        have := clearPath_iff_cp.1 h
        have conv : ∀ a, CP g (fun x => x ∈ blocked) a fin → CP g (fun n => n ∈ blocked ∨ n ∈ ([] : List NodeId)) a fin :=
          fun a h => h.mono (fun n hn => hn.elim id (by simp))
        exact conv _ this⟩
    unfold findNodeBackwards
    simp only
    unfold shortestPath
    cases hb : bfs g fin blocked g.bfsFuel [start] [(start, none)] [] with
    | none => rw [hb] at hsome; simp at hsome
    | some prev =>
      simp only
      have := rebuild_ne_nil prev g.nodes.length fin []
      cases hr : rebuild prev (g.nodes.length + 1) fin [] with
      | nil => exact absurd hr this
      | cons a as => simp

end PytypeModel.Typegraph
