import PytypeModel.Proofs.MatcherGen

/-! Exactness for `dict`/`Mapping`, fixed-length tuples, and the assembly `exact_all` by structural recursion on
the annotation. -/
namespace PytypeModel.Sem

theorem dict_gen2 (H : Hierarchy) (ks vs : List Val) (g : G2) (ka va : Ann) :
    (∀ w, w ∈ views (.dict (absL ks) (absL vs)) → matchV H w (.gen2 g ka va) = true) ↔
      (∀ x, x ∈ ks → ∀ w, w ∈ views (abs x) → matchV H w ka = true) ∧
      (∀ x, x ∈ vs → ∀ w, w ∈ views (abs x) → matchV H w va = true) := by
  simp only [views, List.mem_flatMap, List.mem_map, forall_exists_index, and_imp]
  rw [← forall_absL (f := fun t => ∀ w, w ∈ views t → matchV H w ka = true),
    ← forall_absL (f := fun t => ∀ w, w ∈ views t → matchV H w va = true),
    ← forall_viewsVar (f := fun w => matchV H w ka = true) (by simp [matchV]),
    ← forall_viewsVar (f := fun w => matchV H w va = true) (by simp [matchV])]
  constructor
  · intro h
    obtain ⟨v0, hv0⟩ := exists_viewsVar (absL vs)
    obtain ⟨k0, hk0⟩ := exists_viewsVar (absL ks)
    constructor
    · intro k hk
      have := h _ k hk v0 hv0 rfl
      simp only [matchV, Bool.and_eq_true] at this
      exact this.1
    · intro v hv
      have := h _ k0 hk0 v hv rfl
      simp only [matchV, Bool.and_eq_true] at this
      exact this.2
  · rintro ⟨h1, h2⟩ w k hk v hv rfl
    simp [matchV, h1 k hk, h2 v hv]

theorem exact_gen2 (H : Hierarchy) (g : G2) (ka va : Ann) (ihk : Exact H ka) (ihv : Exact H va) :
    Exact H (.gen2 g ka va) := by
  intro v hG
  cases v with
  | dict ks vs =>
    have hGk : ∀ x, x ∈ ks → Guard x ka = true :=
      fun x hx => Guard.step (ValStep.dictKey hx) (AnnStep.gen2k g ka va) hG
    have hGv : ∀ x, x ∈ vs → Guard x va = true :=
      fun x hx => Guard.step (ValStep.dictVal hx) (AnnStep.gen2v g ka va) hG
    simp only [abs]
    rw [dict_gen2 H ks vs g ka va, all_member_iff H ka ihk ks hGk, all_member_iff H va ihv vs hGv]
    simp [member]
  | list xs | set xs | fset xs =>
    simp only [abs, views, member, List.mem_map, forall_exists_index, and_imp, forall_apply_eq_imp_iff₂]
    obtain ⟨p, hp⟩ := exists_viewsVar (absL xs)
    constructor
    · intro h; have := h p hp; simp [matchV] at this
    · intro h; simp at h
  | tuple xs =>
    simp only [abs, views, member, List.mem_map, forall_exists_index, and_imp, forall_apply_eq_imp_iff₂]
    obtain ⟨p, hp⟩ := exists_viewsProd (absL xs)
    constructor
    · intro h; have := h p hp; simp [matchV] at this
    · intro h; simp at h
  | _ => simp [abs, views, matchV, member]

theorem matchTup_cons_iff (H : Hierarchy) (ws : List VTy) (a : Ann) (as : List Ann) :
    matchTup H ws (a :: as) = true ↔ ∃ w r, ws = w :: r ∧ matchV H w a = true ∧ matchTup H r as = true := by
  cases ws with
  | nil => simp [matchTup]
  | cons w r =>
    simp only [matchTup, Bool.and_eq_true, List.cons.injEq]
    constructor
    · rintro ⟨h1, h2⟩; exact ⟨w, r, ⟨rfl, rfl⟩, h1, h2⟩
    · rintro ⟨w', r', ⟨rfl, rfl⟩, h1, h2⟩; exact ⟨h1, h2⟩

/-- fixed-length tuples: position-wise, given exactness for every option -/
theorem tup_exact (H : Hierarchy) : ∀ (as : List Ann) (xs : List Val), (∀ a, a ∈ as → Exact H a) →
    (∀ x, x ∈ xs → ∀ a, a ∈ as → Guard x a = true) →
    ((∀ ws, ws ∈ viewsProd (absL xs) → matchTup H ws as = true) ↔ memberTup H xs as = true)
  | [], [], _, _ => by simp [absL, viewsProd, matchTup, memberTup]
  | [], x :: xs, _, _ => by
    simp only [memberTup]
    constructor
    · intro h
      obtain ⟨ws, hws⟩ := exists_viewsProd (absL (x :: xs))
      have hl := length_of_mem_viewsProd hws
      have := h ws hws
      cases ws with
      | nil => simp [absL] at hl
      | cons w r => simp [matchTup] at this
    · intro h; simp at h
  | a :: as, [], _, _ => by simp [absL, viewsProd, matchTup, memberTup]
  | a :: as, x :: xs, ih, hG => by
    simp only [absL, memberTup, Bool.and_eq_true]
    simp only [matchTup_cons_iff]
    rw [forall_viewsProd_cons (f := fun w => matchV H w a = true) (g := fun r => matchTup H r as = true)]
    rw [ih a (List.mem_cons_self ..) x (hG x (List.mem_cons_self ..) a (List.mem_cons_self ..)),
      tup_exact H as xs (fun b hb => ih b (List.mem_cons_of_mem _ hb))
        (fun y hy b hb => hG y (List.mem_cons_of_mem _ hy) b (List.mem_cons_of_mem _ hb))]

theorem exact_tup (H : Hierarchy) (as : List Ann) (ih : ∀ a, a ∈ as → Exact H a) : Exact H (.tup as) := by
  intro v hG
  cases v with
  | tuple xs =>
    have hGx : ∀ x, x ∈ xs → ∀ a, a ∈ as → Guard x a = true :=
      fun x hx a ha => Guard.step (ValStep.tuple hx) (AnnStep.tup ha) hG
    simp only [abs, views, member, List.mem_map, forall_exists_index, and_imp, forall_apply_eq_imp_iff₂]
    rw [← tup_exact H as xs ih hGx]
    simp [matchV]
  | list xs | set xs | fset xs =>
    simp only [abs, views, member, List.mem_map, forall_exists_index, and_imp, forall_apply_eq_imp_iff₂]
    obtain ⟨p, hp⟩ := exists_viewsVar (absL xs)
    constructor
    · intro h; have := h p hp; simp [matchV] at this
    · intro h; simp at h
  | dict ks vs =>
    simp only [abs, views, member, List.mem_flatMap, List.mem_map, forall_exists_index, and_imp]
    obtain ⟨k, hk⟩ := exists_viewsVar (absL ks)
    obtain ⟨v, hv⟩ := exists_viewsVar (absL vs)
    constructor
    · intro h; have := h _ k hk v hv rfl; simp [matchV] at this
    · intro h; simp at h
  | _ => simp [abs, views, matchV, member]

mutual
/-- exactness of the all-views decision, for every annotation of the grammar (unbounded depth) -/
theorem exact_all (H : Hierarchy) : ∀ a : Ann, Exact H a
  | .base b => exact_base H b
  | .cls k => exact_cls H k
  | .typeC k => exact_typeC H k
  | .typeU ks bs => exact_typeU H ks bs
  | .opt a => exact_opt H a (exact_all H a)
  | .union as => exact_union H as (exact_allL H as)
  | .gen1 g a => exact_gen1 H g a (exact_all H a)
  | .gen2 g k v => exact_gen2 H g k v (exact_all H k) (exact_all H v)
  | .tup as => exact_tup H as (exact_allL H as)
theorem exact_allL (H : Hierarchy) : ∀ (as : List Ann) (a : Ann), a ∈ as → Exact H a
  | [], _, h => by simp at h
  | b :: bs, a, h =>
    (List.mem_cons.1 h).elim (fun e => e ▸ exact_all H b) (fun h' => exact_allL H bs a h')
end

end PytypeModel.Sem
