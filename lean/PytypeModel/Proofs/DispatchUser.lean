import PytypeModel.Proofs.Dispatch

/-! User-class side of C14: attribute lookup, unary/subscript/call equivalences and the exact
characterisation of the errors pytype misses on user-class operands. -/
namespace PytypeModel.Dispatch

theorem lookupCls_none_iff (H : Hier) (c : Nat) (n : String) :
    lookupCls H c n = none ↔ ∀ d ∈ mroOf H c, ownMember H d n = none :=
  findDefiner_none_iff H n (mroOf H c)

/-- `[attribute-error]` on `C().n` ↔ `n` is not an instance attribute and no class in the MRO
defines it -/
theorem modelAttr_err_iff (H : Hier) (c : Nat) (n : String) :
    (modelAttr H c n).isErr = true ↔
      (n ∉ instAttrs H c ∧ ∀ d ∈ mroOf H c, ownMember H d n = none) := by
  unfold modelAttr pyGetAttr
  by_cases hi : (instAttrs H c).contains n = true
  · simp only [hi, if_true, PyRes.isErr]
    constructor
    · intro h; cases h
    · intro h; exact absurd (by simpa using hi) h.1
  · have hi' : n ∉ instAttrs H c := by simpa using hi
    simp only [hi]
    rw [← lookupCls_none_iff]
    cases h : lookupCls H c n with
    | none => simp [PyRes.isErr, hi']
    | some p =>
      obtain ⟨d, m⟩ := p
      cases m <;> simp [PyRes.isErr]

theorem cpyAttr_attrError_iff (H : Hier) (c : Nat) (n : String) :
    cpyAttr H c n = [.attrError] ↔
      (n ∉ instAttrs H c ∧ ∀ d ∈ mroOf H c, ownMember H d n = none) := by
  rw [← modelAttr_err_iff]
  unfold cpyAttr modelAttr
  rw [cpyGetAttr_eq_pyGetAttr]
  cases pyGetAttr H c n with
  | none => simp [PyRes.isErr]
  | some m => cases m <;> simp [PyRes.isErr]

theorem user_neg_iff (T : BView) (H : Hier) (c : Nat) :
    (modelNeg T H (.u c)).isErr = true ↔ cpyNeg T H (.u c) = [.typeError] := by
  simp only [modelNeg, cpyNeg]
  cases lookupCls H c negName with
  | none => simp [PyRes.isErr]
  | some p => obtain ⟨d, m⟩ := p; cases m <;> simp [PyRes.isErr]

theorem user_sub_iff (T : BView) (H : Hier) (c : Nat) (y : Operand) :
    (modelSub T H (.u c) y).isErr = true ↔ cpySub T H (.u c) y = [.typeError] := by
  simp only [modelSub, cpySub]
  cases lookupCls H c getitemName with
  | none => simp [PyRes.isErr]
  | some p => obtain ⟨d, m⟩ := p; cases m <;> simp [PyRes.isErr]

theorem user_call_iff (T : BView) (H : Hier) (c : Nat) :
    (modelCall T H (.u c)).isErr = true ↔ cpyCall T H (.u c) = [.typeError] := by
  simp only [modelCall, cpyCall]
  cases lookupCls H c callName with
  | none => simp [PyRes.isErr]
  | some p => obtain ⟨d, m⟩ := p; cases m <;> simp [PyRes.isErr]

theorem user_mcall_iff (H : Hier) (c : Nat) (n : String) :
    (modelMCall H c n).isErr = true ↔ (cpyMCall H c n).any Outcome.bad = true := by
  simp only [modelMCall, cpyMCall, cpyGetAttr_eq_pyGetAttr]
  cases pyGetAttr H c n with
  | none => simp [PyRes.isErr, Outcome.bad]
  | some m => cases m <;> simp [PyRes.isErr, Outcome.bad]

/-! ### which TypeErrors on user-class operands pytype misses -/

/-- every operator dunder found through an MRO is a method returning a value (no `NotImplemented`,
no data attribute under a dunder name) -/
def DundersVal (H : Hier) : Prop :=
  ∀ c (op : Op) n, (n = op.name ∨ n = op.rname) → ∀ d m, lookupCls H c n = some (d, m) →
    ∃ t, m = .method (.val t)

theorem callMaybe_of_dundersVal {H : Hier} (hv : DundersVal H) (c : Nat) (op : Op) (n : String)
    (hn : n = op.name ∨ n = op.rname) :
    (lookupCls H c n = none ∧ callMaybe H c n = .notImpl ∧ optFails H c n = true) ∨
    (∃ t, (lookupCls H c n).isSome = true ∧ callMaybe H c n = .val t ∧ optFails H c n = false) := by
  unfold callMaybe optFails
  cases h : lookupCls H c n with
  | none => left; simp
  | some p =>
    obtain ⟨d, m⟩ := p
    obtain ⟨t, rfl⟩ := hv c op n hn d m h
    right
    exact ⟨t, by simp⟩

theorem modelBinop_uu_ok_iff (T : BView) (H : Hier) (op : Op) (c c' : Nat) :
    (modelBinop T H (.u c) op (.u c')).isErr = false ↔
      (optFails H c op.name = false ∨ optFails H c' op.rname = false) := by
  have h := modelBinop_err_iff T H op (.u c) (.u c') (by simp)
  have e1 := pyOption_u T H op false c (.u c')
  have e2 := pyOption_u T H op true c' (.u c)
  simp only [Bool.false_eq_true, if_false, if_true] at e1 e2
  constructor
  · intro hok
    have hne : ¬ ((∀ r, pyOption T H op false (.u c) (.u c') ≠ .returns r) ∧
        (∀ r, pyOption T H op true (.u c') (.u c) ≠ .returns r)) := by
      intro hh
      have := h.2 hh
      rw [hok] at this
      exact absurd this (by decide)
    by_cases h1 : optFails H c op.name = false
    · exact Or.inl h1
    · right
      by_cases h2 : optFails H c' op.rname = false
      · exact h2
      · exfalso
        apply hne
        constructor
        · intro r hr; exact h1 (e1.1 ⟨r, hr⟩)
        · intro r hr; exact h2 (e2.1 ⟨r, hr⟩)
  · intro hor
    cases hm : (modelBinop T H (.u c) op (.u c')).isErr with
    | false => rfl
    | true =>
      obtain ⟨a, b⟩ := h.1 hm
      rcases hor with h1 | h2
      · obtain ⟨r, hr⟩ := e1.2 h1
        exact absurd hr (a r)
      · obtain ⟨r, hr⟩ := e2.2 h2
        exact absurd hr (b r)

/-- When no method returns `NotImplemented`, the only TypeError on two user-class operands that the
model (pytype) does not report is the same-type case where the class has the reflected method but
not the forward one: CPython never calls `__rop__` for identical types. -/
theorem user_missed_characterised (T : BView) (H : Hier) (op : Op) (c c' : Nat)
    (hv : DundersVal H)
    (hc : cpyBinop T H (.u c) op (.u c') = [.typeError])
    (hm : (modelBinop T H (.u c) op (.u c')).isErr = false) :
    c = c' ∧ lookupCls H c op.name = none ∧ (lookupCls H c op.rname).isSome = true := by
  have hor := (modelBinop_uu_ok_iff T H op c c').1 hm
  simp only [cpyBinop, List.cons.injEq, and_true] at hc
  rcases callMaybe_of_dundersVal hv c op op.name (Or.inl rfl) with ⟨ln, cn, fn⟩ | ⟨t, ln, cn, fn⟩
  · -- forward method missing on c
    rcases callMaybe_of_dundersVal hv c' op op.rname (Or.inr rfl) with ⟨lr, cr, fr⟩ | ⟨t', lr, cr, fr⟩
    · rcases hor with h | h
      · rw [fn] at h; cases h
      · rw [fr] at h; cases h
    · by_cases hcc : c = c'
      · subst hcc
        exact ⟨rfl, ln, lr⟩
      · exfalso
        have hne : (c != c') = true := by simpa using hcc
        have hneq : (c == c') = false := by simpa using hcc
        have hs' : hasSlot H op c' = true := by simp [hasSlot, lr]
        revert hc
        unfold binaryOp1UU slotNb
        simp only [hne, hneq, hs', cn, cr, Bool.true_and, Bool.and_true]
        cases hasSlot H op c <;> cases isSubtype H c' c <;> cases methodIsOverloaded H c c' op.rname <;>
          simp [CRes.outcome]
  · -- forward method present on c: CPython returns a value in every branch
    exfalso
    have hs : hasSlot H op c = true := by simp [hasSlot, ln]
    revert hc
    unfold binaryOp1UU slotNb
    simp only [hs, cn]
    rcases callMaybe_of_dundersVal hv c' op op.rname (Or.inr rfl) with ⟨lr, cr, fr⟩ | ⟨t', lr, cr, fr⟩
    · simp only [cr]
      cases (c != c') <;> cases hasSlot H op c' <;> cases isSubtype H c' c <;>
        cases methodIsOverloaded H c c' op.rname <;> simp [CRes.outcome]
    · simp only [cr]
      cases (c != c') <;> cases hasSlot H op c' <;> cases isSubtype H c' c <;>
        cases methodIsOverloaded H c c' op.rname <;> simp [CRes.outcome]

/-! ### the decidable guard implies `DundersVal` -/

theorem lookup_mem {α β} [BEq α] [LawfulBEq α] {l : List (α × β)} {a : α} {b : β}
    (h : l.lookup a = some b) : (a, b) ∈ l := by
  induction l with
  | nil => simp at h
  | cons p ps ih =>
    obtain ⟨a', b'⟩ := p
    simp only [List.lookup] at h
    by_cases e : a == a'
    · simp only [e] at h
      have : a = a' := by simpa using e
      cases h
      subst this
      exact List.mem_cons_self
    · simp only [e] at h
      exact List.mem_cons_of_mem _ (ih h)

theorem ownMember_mem {H : Hier} {d : Nat} {n : String} {m : Member} (h : ownMember H d n = some m) :
    ∃ cd ∈ H, (n, m) ∈ cd.members := by
  unfold ownMember classOf at h
  by_cases hd : d < H.length
  · refine ⟨H[d], List.getElem_mem hd, ?_⟩
    rw [List.getD_eq_getElem?_getD, List.getElem?_eq_getElem hd] at h
    exact lookup_mem h
  · rw [List.getD_eq_getElem?_getD, List.getElem?_eq_none (by omega)] at h
    simp at h

theorem isDunder_name (op : Op) : isDunder op.name = true := by cases op <;> decide
theorem isDunder_rname (op : Op) : isDunder op.rname = true := by cases op <;> decide

theorem dundersVal_of_guard {H : Hier} (hwf : WF H = true) (hav : AllVal H = true) : DundersVal H := by
  intro c op n hn d m hl
  obtain ⟨_, hown⟩ := findDefiner_some hl
  obtain ⟨cd, hcd, hmem⟩ := ownMember_mem hown
  have hd : isDunder n = true := by
    rcases hn with rfl | rfl
    · exact isDunder_name op
    · exact isDunder_rname op
  have w := (List.all_eq_true.mp hwf) cd hcd
  unfold ClassDef.wf at w
  simp only [Bool.and_eq_true] at w
  have w1 := (List.all_eq_true.mp w.1) (n, m) hmem
  have a := (List.all_eq_true.mp ((List.all_eq_true.mp hav) cd hcd)) (n, m) hmem
  simp only [hd, Bool.not_true, Bool.false_or] at w1
  cases m with
  | data t => simp at w1
  | method r =>
    cases r with
    | val t => exact ⟨t, rfl⟩
    | notImpl => simp at a

end PytypeModel.Dispatch
