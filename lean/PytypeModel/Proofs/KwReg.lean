import PytypeModel.Sem.KwReg

namespace PytypeModel.KwReg

theorem split_nil (n : Nat) : split [] n = ⟨n, []⟩ := by simp [split]

/-- with an empty register the VM follows the specification on well-paired traces -/
theorem run_nil_eq_spec : ∀ (t : List Ev), wellPaired t = true → run [] t = spec t
  | [], _ => rfl
  | .call n :: r, h => by
    simp only [wellPaired] at h
    simp only [run, spec, split_nil]
    rw [run_nil_eq_spec r h]
  | [.kw ns], h => by simp [wellPaired] at h
  | .kw ns :: .kw ms :: r, h => by simp [wellPaired] at h
  | .kw ns :: .call n :: r, h => by
    simp only [wellPaired] at h
    simp only [run, spec]
    rw [run_nil_eq_spec r h]

end PytypeModel.KwReg
