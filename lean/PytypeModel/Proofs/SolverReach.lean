/-
C07, clause "an accepted combination has every goal individually reachable", for graphs without node
conditions (cycles allowed).  Route (see DESIGN.md §5 C07):
  * `bfs_sound`          : a found shortest path ends at a node that is backward reachable;
  * `findSolution_single`: for a singleton goal set on an unconditioned node, `FindSolution = true` means the
                           goal originates here or a path to one of its origins exists — whatever the memo says;
  * `recall_inv`         : the memo invariant "every *finished* singleton entry `true` is sound" survives
                           `RecallOrFindSolution`, provisional entries being exactly the states on the stack;
  * `CanHaveSolution` reduces a multi-goal query to singleton queries.
-/
import PytypeModel.Typegraph.Expl

namespace PytypeModel.Typegraph

/-! ### id-ordered sets -/

theorem mem_sinsert {x y : Nat} {l : List Nat} : x ∈ sinsert y l ↔ x = y ∨ x ∈ l := by
  induction l with
  | nil => simp [sinsert]
  | cons z zs ih =>
    unfold sinsert
    split
    · simp
    · split
      · rename_i h; subst h; simp
      · simp only [List.mem_cons, ih]
        constructor
        · rintro (h | h | h)
          · exact Or.inr (Or.inl h)
          · exact Or.inl h
          · exact Or.inr (Or.inr h)
        · rintro (h | h | h)
          · exact Or.inr (Or.inl h)
          · exact Or.inl h
          · exact Or.inr (Or.inr h)

theorem mem_sunion {x : Nat} {a b : List Nat} : x ∈ sunion a b ↔ x ∈ a ∨ x ∈ b := by
  unfold sunion
  induction b generalizing a with
  | nil => simp
  | cons y ys ih =>
    simp only [List.foldl_cons, ih, mem_sinsert, List.mem_cons]
    constructor
    · rintro ((h | h) | h)
      · exact Or.inr (Or.inl h)
      · exact Or.inl h
      · exact Or.inr (Or.inr h)
    · rintro (h | h | h)
      · exact Or.inl (Or.inr h)
      · exact Or.inl (Or.inl h)
      · exact Or.inr h

theorem mem_ofList {x : Nat} {l : List Nat} : x ∈ ofList l ↔ x ∈ l := by
  simp [ofList, mem_sunion]

theorem ofList_singleton (b : Nat) : ofList [b] = [b] := by
  simp [ofList, sunion, sinsert]

/-- nodes outside the graph carry no condition (`getD` default) -/
theorem Graph.condition_of_ge (g : Graph) (n : NodeId) (h : g.nodes.length ≤ n) : g.condition n = none := by
  unfold Graph.condition Graph.node
  rw [List.getD_eq_getElem?_getD, List.getElem?_eq_none h]
  rfl

/-- a decidable check for `NoConditions` -/
theorem Graph.noConditions_of_all (g : Graph) (h : g.nodes.all (fun nd => nd.condition.isNone) = true) :
    g.NoConditions := by
  intro n
  by_cases hn : n < g.nodes.length
  · unfold Graph.condition Graph.node
    rw [List.getD_eq_getElem?_getD, List.getElem?_eq_getElem hn]
    have := List.all_eq_true.1 h _ (List.getElem_mem hn)
    simpa using this
  · exact Graph.condition_of_ge g n (Nat.le_of_not_lt hn)

/-! ### backward reachability -/

theorem BackReach.trans {g : Graph} {a b c : NodeId} (h1 : BackReach g a b) (h2 : BackReach g b c) :
    BackReach g a c := by
  induction h2 with
  | refl => exact h1
  | step _ hk ih => exact BackReach.step ih hk

theorem bfs_sound (g : Graph) (fin : NodeId) (blocked : List NodeId) (start : NodeId) :
    ∀ (fuel : Nat) (queue : List NodeId) (prev : Prev) (seen : List NodeId) (p : Prev),
      bfs g fin blocked fuel queue prev seen = some p →
      (∀ x ∈ queue, BackReach g start x) → BackReach g start fin := by
  intro fuel
  induction fuel with
  | zero => intro queue prev seen p h; simp [bfs] at h
  | succ fuel ih =>
    intro queue prev seen p h hq
    cases queue with
    | nil => simp [bfs] at h
    | cons node queue =>
      unfold bfs at h
      split at h
      · rename_i hfin
        subst hfin
        exact hq _ (List.mem_cons_self)
      · split at h
        · exact ih _ _ _ _ h (fun x hx => hq x (List.mem_cons_of_mem _ hx))
        · refine ih _ _ _ _ h (fun x hx => ?_)
          rcases List.mem_append.1 hx with hx | hx
          · exact hq x (List.mem_cons_of_mem _ hx)
          · exact BackReach.step (hq node List.mem_cons_self) hx

theorem findNodeBackwards_sound (g : Graph) (start fin : NodeId) (blocked : List NodeId)
    (h : (findNodeBackwards g start fin blocked).1 = true) : BackReach g start fin := by
  unfold findNodeBackwards at h
  simp only at h
  split at h
  · simp at h
  · rename_i hne
    unfold shortestPath at hne
    split at hne
    · simp at hne
    · rename_i prev hb
      exact bfs_sound g fin blocked start _ _ _ _ _ hb (by
        intro x hx
        simp only [List.mem_singleton] at hx
        subst hx
        exact BackReach.refl _)

theorem mem_finishNodes {g : Graph} {new : List BId} {fin : NodeId} (h : fin ∈ finishNodes g new) :
    ∃ b ∈ new, ∃ o ∈ (g.binding b).origins, o.node = fin := by
  unfold finishNodes at h
  rw [mem_ofList, List.mem_flatMap] at h
  obtain ⟨b, hb, hm⟩ := h
  rw [List.mem_map] at hm
  obtain ⟨o, ho, rfl⟩ := hm
  exact ⟨b, hb, o, ho, rfl⟩

theorem newPositions_fold_nonempty (g : Graph) (pos : NodeId) (blocked : List NodeId) :
    ∀ (fins : List NodeId) (acc : List NodeId),
      fins.foldl (fun acc fin =>
        let (ex, cpath) := findNodeBackwards g pos fin blocked
        if ex then sinsert ((cpath.find? (fun n => n != pos)).getD fin) acc else acc) acc ≠ [] →
      acc ≠ [] ∨ ∃ fin ∈ fins, (findNodeBackwards g pos fin blocked).1 = true := by
  intro fins
  induction fins with
  | nil => intro acc h; exact Or.inl h
  | cons f fs ih =>
    intro acc h
    simp only [List.foldl_cons] at h
    rcases ih _ h with h1 | ⟨fin, hf, hfin⟩
    · by_cases hex : (findNodeBackwards g pos f blocked).1 = true
      · exact Or.inr ⟨f, List.mem_cons_self, hex⟩
      · left
        generalize findNodeBackwards g pos f blocked = r at h1 hex
        obtain ⟨ex, cpath⟩ := r
        simp only at hex h1
        simp only [hex] at h1
        exact h1
    · exact Or.inr ⟨fin, List.mem_cons_of_mem _ hf, hfin⟩

/-- a non-empty set of new positions means some origin node of a new goal is backward reachable -/
theorem newPositions_nonempty {g : Graph} {pos : NodeId} {new : List BId}
    (h : newPositions g pos new ≠ []) :
    ∃ b ∈ new, ∃ o ∈ (g.binding b).origins, BackReach g pos o.node := by
  unfold newPositions at h
  rcases newPositions_fold_nonempty g pos _ _ _ h with h | ⟨fin, hf, hfin⟩
  · exact absurd rfl h
  · obtain ⟨b, hb, o, ho, rfl⟩ := mem_finishNodes hf
    exact ⟨b, hb, o, ho, findNodeBackwards_sound g pos _ _ hfin⟩

/-! ### singleton goal sets -/

theorem tryPositions_nil_of_true {rec : List SState → Memo → SState → Bool × Memo} {stack multi new nps memo}
    (h : (tryPositions rec stack multi new nps memo).1 = true) : nps ≠ [] := by
  intro hn
  subst hn
  simp [tryPositions] at h

theorem removeFinishedGoals_single_none (g : Graph) (n : NodeId) (b : BId)
    (ho : g.findOrigin b n = none) : removeFinishedGoals g n [b] = [([], [b])] := by
  unfold removeFinishedGoals
  obtain ⟨k, hk⟩ : ∃ k, g.travFuel = k + 1 := ⟨_, rfl⟩
  rw [hk]
  by_cases hc : b ∈ (g.node n).bindings
  · have h1 : List.filter (fun b => (g.node n).bindings.contains b) [b] = [b] := by simp [hc]
    have h2 : List.filter (fun b => !(g.node n).bindings.contains b) [b] = [] := by simp [hc]
    show trav g n (k + 1) (List.filter (fun b => (g.node n).bindings.contains b) [b]) [] []
      (List.filter (fun b => !(g.node n).bindings.contains b) [b]) = _
    rw [h1, h2]
    simp [trav, ho, sinsert]
  · have h1 : List.filter (fun b => (g.node n).bindings.contains b) [b] = [] := by simp [hc]
    have h2 : List.filter (fun b => !(g.node n).bindings.contains b) [b] = [b] := by simp [hc]
    show trav g n (k + 1) (List.filter (fun b => (g.node n).bindings.contains b) [b]) [] []
      (List.filter (fun b => !(g.node n).bindings.contains b) [b]) = _
    rw [h1, h2]
    simp [trav]

theorem findOrigin_some_mem {g : Graph} {b : BId} {n : NodeId} {o : Origin} (h : g.findOrigin b n = some o) :
    o ∈ (g.binding b).origins ∧ o.node = n := by
  unfold Graph.findOrigin at h
  refine ⟨List.mem_of_find?_eq_some h, ?_⟩
  have := List.find?_some h
  simpa using this

/-- `FindSolution` on `(n, {b})` at a node without condition: `true` is only possible if `b` originates
at `n` or a backward path to one of its origins exists — independently of memo, stack and `rec`. -/
theorem findSolution_single (g : Graph) (rec : List SState → Memo → SState → Bool × Memo)
    (stack : List SState) (memo : Memo) (n : NodeId) (b : BId) (hc : g.condition n = none)
    (h : (findSolution g rec stack memo ⟨n, [b]⟩).1 = true) : GoalReachable g n b := by
  cases ho : g.findOrigin b n with
  | some o =>
    obtain ⟨hm, hn⟩ := findOrigin_some_mem ho
    exact ⟨o, hm, hn ▸ BackReach.refl _⟩
  | none =>
    unfold findSolution at h
    simp only [hc, removeFinishedGoals_single_none g n b ho] at h
    unfold tryResults at h
    simp only [goalsConflict, Bool.false_eq_true, ↓reduceIte, List.isEmpty_cons] at h
    generalize hnps : newPositions g n [b] = nps at h
    generalize htp : tryPositions rec stack (decide (nps.length > 1)) [b] nps memo = r at h
    obtain ⟨r1, m1⟩ := r
    simp only at h
    by_cases hr : r1 = true
    · have hne : nps ≠ [] := tryPositions_nil_of_true (by rw [htp]; exact hr)
      rw [← hnps] at hne
      obtain ⟨b', hb', o, ho', hreach⟩ := newPositions_nonempty hne
      simp only [List.mem_singleton] at hb'
      subst hb'
      exact ⟨o, ho', hreach⟩
    · simp only [hr] at h
      simp [tryResults] at h

/-! ### the memo invariant -/

/-- a singleton state is *sound* when its goal has a backward-reachable origin -/
def Sound (g : Graph) (st : SState) : Prop := ∀ b, st.goals = [b] → GoalReachable g st.pos b

/-- every memo entry `true` is either provisional (its state is on the stack) or sound -/
def MemoInv (g : Graph) (memo : Memo) (stack : List SState) : Prop :=
  ∀ st, memo.find st = some true → st ∈ stack ∨ Sound g st

theorem Memo.find_set (m : Memo) (s t : SState) (b : Bool) :
    (m.set s b).find t = if s = t then some b else m.find t := by
  simp [Memo.set, Memo.find]

theorem memoInv_nil (g : Graph) (stack : List SState) : MemoInv g [] stack := by
  intro st h; simp [Memo.find] at h

abbrev RecT := List SState → Memo → SState → Bool × Memo

/-- what the induction hypothesis says about `rec = recall g fuel` -/
def RecOK (g : Graph) (rec : RecT) : Prop :=
  ∀ stack memo st, MemoInv g memo stack →
    MemoInv g (rec stack memo st).2 stack ∧ ((rec stack memo st).1 = true → st ∈ stack ∨ Sound g st)

theorem tryPositions_inv (g : Graph) (rec : RecT) (hrec : RecOK g rec) (stack : List SState)
    (multi : Bool) (new : List BId) :
    ∀ (ps : List NodeId) (memo : Memo), MemoInv g memo stack →
      MemoInv g (tryPositions rec stack multi new ps memo).2 stack := by
  intro ps
  induction ps with
  | nil => intro memo h; simpa [tryPositions] using h
  | cons p ps ih =>
    intro memo h
    unfold tryPositions
    simp only
    split
    · exact ih _ h
    · have h1 := (hrec stack memo ⟨p, new⟩ h).1
      generalize rec stack memo ⟨p, new⟩ = r at h1
      obtain ⟨r1, m1⟩ := r
      simp only at h1 ⊢
      split
      · exact h1
      · exact ih _ h1

theorem tryResults_inv (g : Graph) (rec : RecT) (hrec : RecOK g rec) (stack : List SState) (pos : NodeId) :
    ∀ (rs : List RemoveResult) (memo : Memo), MemoInv g memo stack →
      MemoInv g (tryResults g rec stack pos rs memo).2 stack := by
  intro rs
  induction rs with
  | nil => intro memo h; simpa [tryResults] using h
  | cons r rs ih =>
    intro memo h
    obtain ⟨removed, new⟩ := r
    unfold tryResults
    split
    · exact ih _ h
    · split
      · exact h
      · simp only
        have h1 := tryPositions_inv g rec hrec stack
          (decide ((newPositions g pos new).length > 1)) new (newPositions g pos new) memo h
        generalize tryPositions rec stack (decide ((newPositions g pos new).length > 1)) new
          (newPositions g pos new) memo = r at h1
        obtain ⟨r1, m1⟩ := r
        simp only at h1 ⊢
        split
        · exact h1
        · exact ih _ h1

theorem findSolution_inv (g : Graph) (rec : RecT) (hrec : RecOK g rec) (stack : List SState)
    (memo : Memo) (st : SState) (h : MemoInv g memo stack) :
    MemoInv g (findSolution g rec stack memo st).2 stack := by
  unfold findSolution
  exact tryResults_inv g rec hrec stack _ _ _ h

theorem recall_ok (g : Graph) (hnc : g.NoConditions) : ∀ fuel, RecOK g (recall g fuel) := by
  intro fuel
  induction fuel with
  | zero =>
    intro stack memo st h
    exact ⟨by simpa [recall] using h, by simp [recall]⟩
  | succ fuel ih =>
    intro stack memo st h
    unfold recall
    split
    · rename_i b hb
      refine ⟨h, fun hb' => ?_⟩
      simp only at hb'
      subst hb'
      exact h st hb
    · rename_i hb
      have hinv1 : MemoInv g (memo.set st true) (st :: stack) := by
        intro s hs
        rw [Memo.find_set] at hs
        split at hs
        · rename_i heq; subst heq; exact Or.inl List.mem_cons_self
        · rcases h s hs with h' | h'
          · exact Or.inl (List.mem_cons_of_mem _ h')
          · exact Or.inr h'
      have hinv2 := findSolution_inv g (recall g fuel) ih (st :: stack) _ st hinv1
      have hsound : (findSolution g (recall g fuel) (st :: stack) (memo.set st true) st).1 = true →
          Sound g st := by
        intro hr b hb
        obtain ⟨pos, goals⟩ := st
        simp only at hb
        subst hb
        exact findSolution_single g _ _ _ pos b (hnc pos) hr
      generalize findSolution g (recall g fuel) (st :: stack) (memo.set st true) st = r at hinv2 hsound
      obtain ⟨r1, m1⟩ := r
      simp only at hinv2 hsound ⊢
      refine ⟨?_, fun hr => Or.inr (hsound hr)⟩
      intro s hs
      rw [Memo.find_set] at hs
      split at hs
      · rename_i heq
        subst heq
        simp only [Option.some.injEq] at hs
        exact Or.inr (hsound hs)
      · rename_i hne
        rcases hinv2 s hs with h' | h'
        · rcases List.mem_cons.1 h' with h'' | h''
          · exact absurd h''.symm hne
          · exact Or.inl h''
        · exact Or.inr h'

/-! ### `Solve` -/

theorem solveCore_single (g : Graph) (hnc : g.NoConditions) (memo : Memo) (n : NodeId) (b : BId)
    (hm : MemoInv g memo []) :
    MemoInv g (solveCore g memo n [b]).2 [] ∧ ((solveCore g memo n [b]).1 = true → GoalReachable g n b) := by
  unfold solveCore
  rw [ofList_singleton]
  obtain ⟨h1, h2⟩ := recall_ok g hnc g.solveFuel [] memo ⟨n, [b]⟩ hm
  refine ⟨h1, fun hr => ?_⟩
  rcases h2 hr with h | h
  · simp at h
  · exact h b rfl

theorem solveCore_inv (g : Graph) (hnc : g.NoConditions) (memo : Memo) (n : NodeId) (bs : List BId)
    (hm : MemoInv g memo []) : MemoInv g (solveCore g memo n bs).2 [] :=
  (recall_ok g hnc g.solveFuel [] memo _ hm).1

theorem canHaveSolution_sound (g : Graph) (hnc : g.NoConditions) (n : NodeId) :
    ∀ (bs : List BId) (memo : Memo), MemoInv g memo [] →
      MemoInv g (canHaveSolution g n bs memo).2 [] ∧
      ((canHaveSolution g n bs memo).1 = true → ∀ b ∈ bs, GoalReachable g n b) := by
  intro bs
  induction bs with
  | nil => intro memo hm; exact ⟨by simpa [canHaveSolution] using hm, by simp⟩
  | cons b bs ih =>
    intro memo hm
    obtain ⟨h1, h2⟩ := solveCore_single g hnc memo n b hm
    unfold canHaveSolution
    generalize solveCore g memo n [b] = r at h1 h2
    obtain ⟨r1, m1⟩ := r
    simp only at h1 h2 ⊢
    split
    · rename_i hr
      obtain ⟨h3, h4⟩ := ih m1 h1
      refine ⟨h3, fun hc b' hb' => ?_⟩
      rcases List.mem_cons.1 hb' with rfl | hb'
      · exact h2 hr
      · exact h4 hc b' hb'
    · exact ⟨h1, by simp⟩

/-- `Solve` on an unconditioned graph, on a solver whose memo satisfies the invariant (in particular a
fresh one): an accepted combination has every goal individually reachable; the invariant is kept. -/
theorem solve_sound (g : Graph) (hnc : g.NoConditions) (memo : Memo) (n : NodeId) (attrs : List BId)
    (hm : MemoInv g memo []) :
    MemoInv g (solve g memo n attrs).2 [] ∧
    ((solve g memo n attrs).1 = true → ∀ b ∈ attrs, GoalReachable g n b) := by
  unfold solve
  split
  · obtain ⟨h1, h2⟩ := canHaveSolution_sound g hnc n attrs memo hm
    generalize canHaveSolution g n attrs memo = r at h1 h2
    obtain ⟨ok, m1⟩ := r
    simp only at h1 h2 ⊢
    split
    · rename_i hok
      exact ⟨solveCore_inv g hnc m1 n attrs h1, fun _ => h2 hok⟩
    · exact ⟨h1, by simp⟩
  · rename_i hlen
    refine ⟨solveCore_inv g hnc memo n attrs hm, fun hr => ?_⟩
    match attrs, hlen, hr with
    | [], _, _ => simp
    | [b], _, hr =>
      intro b' hb'
      simp only [List.mem_singleton] at hb'
      subst hb'
      exact (solveCore_single g hnc memo n b' hm).2 hr
    | _ :: _ :: _, hlen, _ => simp at hlen

end PytypeModel.Typegraph
