import PytypeModel.Bool.Booleq

/-! # Lemmas about the `booleq.py` model: induction principle, list views, `__eq__` soundness,
semantics of `simplify_exprs`. -/
namespace PytypeModel.Booleq

/-- induction over the nested inductive `Term` -/
theorem Term.ind {P : Term → Prop} (tt : P .tt) (ff : P .ff) (eq : ∀ l r, P (.eq l r))
    (and : ∀ es, (∀ e ∈ es, P e) → P (.and es)) (or : ∀ es, (∀ e ∈ es, P e) → P (.or es))
    (t : Term) : P t :=
  Term.rec (motive_1 := P) (motive_2 := fun es => ∀ e ∈ es, P e) tt ff eq and or
    (by intro e h; cases h)
    (by
      intro h t ih1 ih2 e he
      cases he with
      | head => exact ih1
      | tail _ h' => exact ih2 e h') t

/-! ### list views of the mutual helpers -/

theorem evalAll_eq (v : String → String) (es : List Term) : evalAll v es = es.all (eval v) := by
  induction es with
  | nil => simp [evalAll]
  | cons e es ih => simp [evalAll, ih]

theorem evalAny_eq (v : String → String) (es : List Term) : evalAny v es = es.any (eval v) := by
  induction es with
  | nil => simp [evalAny]
  | cons e es ih => simp [evalAny, ih]

theorem anyB_eq (es : List Term) (f : Term) : anyB es f = es.any (fun e => e.beq f) := by
  induction es with
  | nil => simp [anyB]
  | cons e es ih => simp [anyB, ih]

theorem subB_eq (es fs : List Term) :
    subB es fs = es.all (fun e => fs.any (fun f => e.beq f)) := by
  induction es with
  | nil => simp [subB]
  | cons e es ih => simp [subB, ih]

theorem buildList_eq (es : List Term) : buildList es = es.map build := by
  induction es with
  | nil => simp [buildList]
  | cons e es ih => simp [buildList, ih]

theorem anyUnkeyed_eq (T : Table) (es : List Term) : anyUnkeyed T es = es.any (hasUnkeyed T) := by
  induction es with
  | nil => simp [anyUnkeyed]
  | cons e es ih => simp [anyUnkeyed, ih]

/-- child condition of the normal form, as a predicate -/
def ChildOK (k : Kind) (e : Term) : Prop :=
  e.normal = true ∧ e.isTT = false ∧ e.isFF = false ∧ k.children? e = none

theorem childrenOK_iff (k : Kind) (es : List Term) :
    childrenOK k es = true ↔ ∀ e ∈ es, ChildOK k e := by
  induction es with
  | nil => simp [childrenOK]
  | cons e es ih =>
    simp [childrenOK, ih, ChildOK, and_assoc]

/-- pairwise-distinct, as a predicate -/
theorem distinctB_iff (es : List Term) :
    distinctB es = true ↔ es.Pairwise (fun a b => a.beq b = false) := by
  induction es with
  | nil => simp [distinctB]
  | cons e es ih => simp [distinctB, ih]

/-! ### the semantic connective of a kind -/

/-- `&&` for `conj`, `||` for `disj` -/
def kop : Kind → Bool → Bool → Bool
  | .conj, a, b => a && b
  | .disj, a, b => a || b

/-- value of the whole list under the kind's connective -/
def kall (k : Kind) (v : String → String) (es : List Term) : Bool :=
  match k with
  | .conj => es.all (eval v)
  | .disj => es.any (eval v)

/-- the absorbing truth value (value of the stop term) -/
def kabs : Kind → Bool
  | .conj => false
  | .disj => true

theorem eval_mk (k : Kind) (v) (es : List Term) : eval v (k.mk es) = kall k v es := by
  cases k <;> simp [Kind.mk, eval, kall, evalAll_eq, evalAny_eq]

theorem eval_skip (k : Kind) (v) : eval v k.skip = kall k v [] := by
  cases k <;> simp [Kind.skip, eval, kall]

theorem eval_stop (k : Kind) (v) : eval v k.stop = kabs k := by
  cases k <;> simp [Kind.stop, eval, kabs]

theorem kop_abs (k : Kind) (a : Bool) : kop k a (kabs k) = kabs k := by
  cases k <;> cases a <;> rfl

theorem kop_unit (k : Kind) (a : Bool) : kop k a (kall k v []) = a := by
  cases k <;> cases a <;> rfl

theorem kall_nil_left (k : Kind) (a : Bool) : kop k (kall k v []) a = a := by
  cases k <;> cases a <;> rfl

theorem kall_cons (k : Kind) (v) (e : Term) (es : List Term) :
    kall k v (e :: es) = kop k (eval v e) (kall k v es) := by
  cases k <;> simp [kall, kop]

theorem kall_append (k : Kind) (v) (es fs : List Term) :
    kall k v (es ++ fs) = kop k (kall k v es) (kall k v fs) := by
  cases k <;> simp [kall, kop]

theorem kop_assoc (k : Kind) (a b c : Bool) : kop k (kop k a b) c = kop k a (kop k b c) := by
  cases k <;> cases a <;> cases b <;> cases c <;> rfl

theorem isStop_eval (k : Kind) (v) (e : Term) (h : k.isStop e = true) : eval v e = kabs k := by
  cases k <;> cases e <;> simp_all [Kind.isStop, Term.isFF, Term.isTT, eval, kabs]

theorem isSkip_eval (k : Kind) (v) (e : Term) (h : k.isSkip e = true) : eval v e = kall k v [] := by
  cases k <;> cases e <;> simp_all [Kind.isSkip, Term.isFF, Term.isTT, eval, kall]

theorem children_eval (k : Kind) (v) (e : Term) (fs : List Term) (h : k.children? e = some fs) :
    eval v e = kall k v fs := by
  cases k <;> cases e <;> simp_all [Kind.children?, eval, kall, evalAll_eq, evalAny_eq]

/-- an element already present (semantically) is absorbed -/
theorem kall_absorb (k : Kind) (v) (acc : List Term) (a : Term) (b : Bool) (ha : a ∈ acc)
    (hb : eval v a = b) : kop k (kall k v acc) b = kall k v acc := by
  subst hb
  cases k with
  | conj =>
    simp only [kop, kall]
    cases h : acc.all (eval v) with
    | false => rfl
    | true => simp [List.all_eq_true.1 h a ha]
  | disj =>
    simp only [kop, kall]
    cases h : eval v a with
    | false => simp
    | true => simp [List.any_eq_true.2 ⟨a, ha, h⟩]

/-! ### `__eq__` is sound for evaluation -/

theorem beq_sound (v : String → String) (a : Term) : ∀ b, a.beq b = true → eval v a = eval v b := by
  induction a using Term.ind with
  | tt => intro b h; cases b <;> simp_all [Term.beq]
  | ff => intro b h; cases b <;> simp_all [Term.beq]
  | eq l r => intro b h; cases b <;> simp_all [Term.beq, eval]
  | and es ih =>
    intro b h
    cases b with
    | and fs =>
      simp only [Term.beq, subB_eq, anyB_eq, Bool.and_eq_true, List.all_eq_true, List.any_eq_true] at h
      simp only [eval, evalAll_eq]
      rw [Bool.eq_iff_iff]
      simp only [List.all_eq_true]
      constructor
      · intro hall f hf
        obtain ⟨e, he, hef⟩ := h.2 f hf
        rw [← ih e he f hef]; exact hall e he
      · intro hall e he
        obtain ⟨f, hf, hef⟩ := h.1 e he
        rw [ih e he f hef]; exact hall f hf
    | _ => simp [Term.beq] at h
  | or es ih =>
    intro b h
    cases b with
    | or fs =>
      simp only [Term.beq, subB_eq, anyB_eq, Bool.and_eq_true, List.all_eq_true, List.any_eq_true] at h
      simp only [eval, evalAny_eq]
      rw [Bool.eq_iff_iff]
      simp only [List.any_eq_true]
      constructor
      · rintro ⟨e, he, hev⟩
        obtain ⟨f, hf, hef⟩ := h.1 e he
        exact ⟨f, hf, by rw [← ih e he f hef]; exact hev⟩
      · rintro ⟨f, hf, hev⟩
        obtain ⟨e, he, hef⟩ := h.2 f hf
        exact ⟨e, he, by rw [ih e he f hef]; exact hev⟩
    | _ => simp [Term.beq] at h

/-! ### semantics of `simplify_exprs` -/

theorem kall_insertT (k : Kind) (v) (acc : List Term) (e : Term) :
    kall k v (insertT acc e) = kop k (kall k v acc) (eval v e) := by
  unfold insertT
  split
  · rename_i h
    obtain ⟨a, ha, hae⟩ := List.any_eq_true.1 h
    exact (kall_absorb k v acc a _ ha (beq_sound v a e hae)).symm
  · rw [kall_append, kall_cons, kop_unit]

theorem kall_unionT (k : Kind) (v) (acc fs : List Term) :
    kall k v (unionT acc fs) = kop k (kall k v acc) (kall k v fs) := by
  unfold unionT
  induction fs generalizing acc with
  | nil => simp [kop_unit]
  | cons f fs ih =>
    rw [List.foldl_cons, ih, kall_insertT, kall_cons, kop_assoc]

theorem eval_finish (k : Kind) (v) (acc : List Term) : eval v (finish k acc) = kall k v acc := by
  match acc with
  | [] => simp [finish, eval_skip]
  | [e] => simp [finish, kall_cons, kop_unit]
  | _ :: _ :: _ => simp [finish, eval_mk]

theorem step_none (k : Kind) (acc : List Term) (e : Term) :
    step k acc e = none ↔ k.isStop e = true := by
  unfold step
  split
  · simp [*]
  · split
    · simp [*]
    · split <;> simp [*]

theorem step_some_eval (k : Kind) (v) (acc acc' : List Term) (e : Term)
    (h : step k acc e = some acc') : kall k v acc' = kop k (kall k v acc) (eval v e) := by
  unfold step at h
  split at h
  · cases h
  · split at h
    · rename_i hs
      cases h
      rw [isSkip_eval k v e hs, kop_unit]
    · split at h
      · rename_i fs hc
        cases h
        rw [kall_unionT, children_eval k v e fs hc]
      · cases h
        exact kall_insertT k v acc e

theorem eval_collect (k : Kind) (v) (acc es : List Term) :
    eval v (collect k acc es) = kop k (kall k v acc) (kall k v es) := by
  induction es generalizing acc with
  | nil => simp [collect, eval_finish, kop_unit]
  | cons e es ih =>
    simp only [collect]
    cases hs : step k acc e with
    | none =>
      have := isStop_eval k v e ((step_none k acc e).1 hs)
      simp only [eval_stop, kall_cons, this]
      cases k <;> simp [kop, kabs]
    | some acc' =>
      simp only []
      rw [ih, step_some_eval k v acc acc' e hs, kall_cons, kop_assoc]

theorem eval_simplifyExprs (k : Kind) (v) (es : List Term) :
    eval v (simplifyExprs k es) = kall k v es := by
  unfold simplifyExprs
  rw [eval_collect, kall_nil_left]

end PytypeModel.Booleq
