import PytypeModel.Proofs.BlocksPreds

/-! `order_nodes` as a whole: on a closed graph it returns, the result is sound, the final assert holds. -/
namespace PytypeModel.Blocks
open Relation

theorem mem_dedup (x : Nat) : ∀ (l : List Nat), x ∈ dedup l ↔ x ∈ l
  | [] => by simp [dedup]
  | a :: l => by
    have ih := mem_dedup x l
    unfold dedup
    by_cases h : l.contains a = true
    · simp only [h, if_true, ih, List.mem_cons]
      constructor
      · exact Or.inr
      · rintro (rfl | h1)
        · simpa using h
        · exact h1
    · have h' : l.contains a = false := by simpa using h
      simp only [h', Bool.false_eq_true, if_false, List.mem_cons, ih]

theorem nodup_dedup : ∀ (l : List Nat), (dedup l).Nodup
  | [] => by simp [dedup]
  | a :: l => by
    have ih := nodup_dedup l
    unfold dedup
    by_cases h : l.contains a = true
    · simp only [h, if_true]; exact ih
    · simp only [h]
      refine List.nodup_cons.2 ⟨?_, ih⟩
      rw [mem_dedup]
      simpa using h

theorem length_dedup_eq {a b : List Nat} (h : ∀ x, x ∈ a ↔ x ∈ b) : (dedup a).length = (dedup b).length :=
  ((List.perm_ext_iff_of_nodup (nodup_dedup a) (nodup_dedup b)).2
    (fun x => by rw [mem_dedup, mem_dedup]; exact h x)).length_eq

theorem reach_in_nodes {nodes : List Nat} {out : Nat → List Nat}
    (hclosed : ∀ n ∈ nodes, ∀ m ∈ out n, m ∈ nodes) {a b : Nat} (ha : a ∈ nodes)
    (h : ReflTransGen (Edge out) a b) : b ∈ nodes := by
  induction h with
  | refl => exact ha
  | tail _ hbc ih => exact hclosed _ ih _ hbc

/-- `order_nodes` over an arbitrary priority map: returns (fuel suffices) and the result is sound -/
theorem orderNodesWith_sound {P : Type} (po : PrioOps P) (pm : Nat → P) (root : Nat) (rest : List Nat)
    (out : Nat → List Nat) (hclosed : ∀ n ∈ root :: rest, ∀ m ∈ out n, m ∈ root :: rest) :
    ∃ order, orderNodesWith po pm (root :: rest) out = .ok order ∧
      order.Nodup ∧ (∀ x, x ∈ order ↔ ReflTransGen (Edge out) root x) ∧ order.head? = some root ∧
      PredBefore out order := by
  unfold orderNodesWith
  obtain ⟨res, hres⟩ := orderLoop_fuel po pm out (root :: rest) hclosed (1 + edgeCount (root :: rest) out)
    [(root, pm root)] [] [] (by intro k hk; simp [keys] at hk; subst hk; simp)
    (by rw [pot_nil]; simp)
  obtain ⟨seen', inv⟩ := orderLoop_inv po pm out root _ _ _ _ res (oinv_init out root (pm root)) hres
  exact ⟨res, hres, oinv_final inv⟩

/-- the real `order_nodes` (priorities from `compute_predecessors`, final assert included) -/
theorem orderNodes_sound (root : Nat) (rest : List Nat) (out : Nat → List Nat)
    (hclosed : ∀ n ∈ root :: rest, ∀ m ∈ out n, m ∈ root :: rest) :
    ∃ order, orderNodes (root :: rest) out = .ok order ∧
      order.Nodup ∧ (∀ x, x ∈ order ↔ ReflTransGen (Edge out) root x) ∧ order.head? = some root ∧
      PredBefore out order := by
  obtain ⟨pmap, hpm⟩ := computePredecessors_ok (nodes := root :: rest) (out := out) hclosed
  obtain ⟨_, _, hspec⟩ := computePredecessors_spec hclosed hpm
  obtain ⟨order, hord, hnd, hmem, hhead, hpred⟩ :=
    orderNodesWith_sound listPrio (fun n => (pmap.lookup n).getD []) root rest out hclosed
  refine ⟨order, ?_, hnd, hmem, hhead, hpred⟩
  unfold orderNodes
  simp only [hpm, hord]
  have hroot : root ∈ root :: rest := by simp
  have hlen : (dedup (order ++ (root :: rest).filter
      fun n => !((fun n => (pmap.lookup n).getD []) n).contains root)).length = (dedup (root :: rest)).length := by
    apply length_dedup_eq
    intro x
    simp only [List.mem_append, List.mem_filter, List.contains_eq_mem, Bool.not_eq_eq_eq_not, Bool.not_true,
      decide_eq_false_iff_not, hmem]
    constructor
    · rintro (h | ⟨h, _⟩)
      · exact reach_in_nodes hclosed hroot h
      · exact h
    · intro hx
      by_cases hr : ReflTransGen (Edge out) root x
      · exact Or.inl hr
      · right
        refine ⟨hx, ?_⟩
        intro hin
        exact hr ((hspec x hx root).1 hin).2
  have hlen' : (dedup (order ++ List.filter (fun n => !decide (root ∈ (List.lookup n pmap).getD []))
      (root :: rest))).length = (dedup (root :: rest)).length := by
    simpa using hlen
  simp [hlen']

end PytypeModel.Blocks
