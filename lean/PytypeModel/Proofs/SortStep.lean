import PytypeModel.Pytd.SortStep

namespace PytypeModel.Pytd

variable {α : Type} (lt : α → α → Bool)

/-- sorting a sorted list changes nothing (no assumption on `lt`) -/
theorem sortStable_of_sorted : ∀ (l : List α), sortedBy lt l → sortStable lt l = l := by
  intro l
  induction l with
  | nil => intro _; rfl
  | cons x xs ih =>
    intro h
    simp only [sortStable, ih h.2]
    cases xs with
    | nil => rfl
    | cons y ys =>
      simp only [insertStable]
      rw [h.1 y (by simp)]
      simp

theorem mem_insertStable (x : α) : ∀ (l : List α) (z : α), z ∈ insertStable lt x l ↔ z = x ∨ z ∈ l := by
  intro l
  induction l with
  | nil => intro z; simp [insertStable]
  | cons y ys ih =>
    intro z
    simp only [insertStable]
    split
    · simp only [List.mem_cons, ih]
      constructor
      · rintro (h | h | h)
        · exact Or.inr (Or.inl h)
        · exact Or.inl h
        · exact Or.inr (Or.inr h)
      · rintro (h | h | h)
        · exact Or.inr (Or.inl h)
        · exact Or.inl h
        · exact Or.inr (Or.inr h)
    · simp

/-- `lt` is a strict weak order (what `key a < key b` gives for totally ordered keys) -/
structure StrictWeak : Prop where
  asymm : ∀ a b, lt a b = true → lt b a = false
  negtrans : ∀ a b c, lt a b = false → lt b c = false → lt a c = false

theorem sorted_insertStable (hlt : StrictWeak lt) (x : α) : ∀ (l : List α), sortedBy lt l →
    sortedBy lt (insertStable lt x l) := by
  intro l
  induction l with
  | nil => intro _; exact ⟨by simp, trivial⟩
  | cons y ys ih =>
    intro h
    simp only [insertStable]
    by_cases hyx : lt y x = true
    · rw [if_pos hyx]
      refine ⟨?_, ih h.2⟩
      intro z hz
      rcases (mem_insertStable lt x ys z).1 hz with rfl | hz
      · exact hlt.asymm _ _ hyx
      · exact h.1 z hz
    · rw [if_neg hyx]
      have hyx' : lt y x = false := by simpa using hyx
      refine ⟨?_, h⟩
      intro z hz
      rcases List.mem_cons.1 hz with rfl | hz
      · exact hyx'
      · exact hlt.negtrans z y x (h.1 z hz) hyx'

theorem sorted_sortStable (hlt : StrictWeak lt) : ∀ (l : List α), sortedBy lt (sortStable lt l) := by
  intro l
  induction l with
  | nil => trivial
  | cons x xs ih => exact sorted_insertStable lt hlt x _ ih

theorem insertStable_perm (x : α) : ∀ (l : List α), (insertStable lt x l).Perm (x :: l) := by
  intro l
  induction l with
  | nil => exact List.Perm.refl _
  | cons y ys ih =>
    simp only [insertStable]
    split
    · exact List.Perm.trans (List.Perm.cons y ih) (List.Perm.swap x y ys)
    · exact List.Perm.refl _

theorem sortStable_perm : ∀ (l : List α), (sortStable lt l).Perm l := by
  intro l
  induction l with
  | nil => exact List.Perm.refl _
  | cons x xs ih =>
    exact List.Perm.trans (insertStable_perm lt x _) (List.Perm.cons x ih)

end PytypeModel.Pytd
