import PytypeModel.Proofs.PyiUnionD

/-! C05, unions, part E: parsing a printed union gives its normal form. -/
namespace PytypeModel.Pytd

theorem parse_list_of_members {g : GCtx} {ip : Bool} {d : Defs} : ∀ (l : List Ty),
    (∀ a ∈ l, ∃ pre, parseTy d (tyExpr ip a) = .ok pre ∧ postTy g.tps pre = a ∧ HeadOK d pre) →
    ∃ pres, ParsesTo d (l.map (tyExpr ip)) pres ∧ postTys g.tps pres = l ∧ ∀ p ∈ pres, HeadOK d p
  | [], _ => ⟨[], trivial, rfl, by simp⟩
  | a :: as, h => by
    obtain ⟨pre, h1, h2, h5⟩ := h a (by simp)
    obtain ⟨pres, h3, h4, h6⟩ := parse_list_of_members as (fun b hb => h b (by simp [hb]))
    exact ⟨pre :: pres, ⟨⟨h1, tyExpr_shape ip a⟩, h3⟩, by simp [postTys, h2, h4], by
      intro p hp
      rcases List.mem_cons.1 hp with rfl | hp
      · exact h5
      · exact h6 p hp⟩

theorem filter_map' {α β : Type} {f : α → β} {p : β → Bool} {l : List α} :
    (l.map f).filter p = (l.filter (fun a => p (f a))).map f := by
  rw [List.filter_map]; rfl

theorem lits_as_values : ∀ (l : List Ty), (∀ a ∈ l, ∃ v, a = .literal v ∧ litOK v = true) →
    ∃ vs : List Lit, l = vs.map Ty.literal ∧ ∀ v ∈ vs, litOK v = true
  | [], _ => ⟨[], rfl, by simp⟩
  | a :: as, h => by
    obtain ⟨v, rfl, hv⟩ := h a (by simp)
    obtain ⟨vs, rfl, hvs⟩ := lits_as_values as (fun b hb => h b (by simp [hb]))
    exact ⟨v :: vs, rfl, by
      intro w hw
      rcases List.mem_cons.1 hw with rfl | hw
      · exact hv
      · exact hvs w hw⟩

theorem tyExpr_literal (ip : Bool) (v : Lit) : tyExpr ip (.literal v) = .sub (.name "Literal") [litExpr v] := by
  simp [tyExpr]

theorem filterMap_litArgs_lits (ip : Bool) (vs : List Lit) :
    ((vs.map Ty.literal).map (tyExpr ip)).filterMap litArgs = vs.map (fun v => [litExpr v]) := by
  induction vs with
  | nil => rfl
  | cons v vs ih =>
    simp only [List.map_cons, tyExpr_literal, List.filterMap_cons, litArgs]
    rw [ih]

theorem flatten_singletons (vs : List Lit) : (vs.map (fun v => [litExpr v])).flatten = vs.map litExpr := by
  induction vs with
  | nil => rfl
  | cons v vs ih => simp [ih]

theorem pyDistinct_none_none (l : List Ty) : pyDistinct (noneTy :: noneTy :: l) = false := by
  simp [pyDistinct, noneTy, pyEqTy]

theorem length_ge_two_ne_single {l : List Ty} (h : 2 ≤ l.length) (x : Ty) : l ≠ [x] := by
  intro e; subst e; simp at h

/-- `x` for `[x]`, else `UnionType(...)` -/
def singleOrMk : List Ty → Ty
  | [y] => y
  | L => mkUnion L

theorem singleOrUnion_many {r : List Ty} (h : ∀ x, r ≠ [x]) : singleOrUnion r = .union r := by
  unfold singleOrUnion
  split
  · next x => exact absurd rfl (h x)
  · rfl

theorem singleOrMk_many {r : List Ty} (h : ∀ x, r ≠ [x]) : singleOrMk r = mkUnion r := by
  unfold singleOrMk
  split
  · next x => exact absurd rfl (h x)
  · rfl

/-- the post-processed parse result of `unionOf l`, for `l` parsing to `L` with `postTys L = L'` -/
theorem parse_unionOf {g : GCtx} (hg : GOK g) {d : Defs} {needs : List String} (henv : EnvOK g d needs)
    {l : List PyExpr} {L : List Ty} (hp : ParsesTo d l L) (hne : L ≠ []) (hH : ∀ p ∈ L, HeadOK d p)
    (hU : (∀ x, l ≠ [x]) → "Union" ∈ needs ∧ "Union" ∈ g.adds) :
    ∃ pre, parseTy d (unionOf l) = .ok pre ∧
      postTy g.tps pre = singleOrMk (postTys g.tps L) ∧ HeadOK d pre := by
  cases l with
  | nil => cases L <;> simp [ParsesTo] at hp; exact absurd rfl hne
  | cons e es =>
    cases L with
    | nil => simp [ParsesTo] at hp
    | cons p ps =>
      cases es with
      | nil =>
        cases ps with
        | nil => exact ⟨p, hp.1.1, by simp [postTys, singleOrMk], hH p (by simp)⟩
        | cons _ _ => simp [ParsesTo] at hp
      | cons e2 es2 =>
        cases ps with
        | nil => simp [ParsesTo] at hp
        | cons p2 ps2 =>
          obtain ⟨hU1, hU2⟩ := hU (by intro x; simp)
          refine ⟨.generic (.named "typing.Union") (p :: p2 :: ps2), ?_, ?_,
            headOK_typing_sub (n := "typing.Union") (x := "Union") (by decide) (by decide) (by decide) rfl
              (by intro m; simp)⟩
          · show parseTy d (.sub (.name "Union") (e :: e2 :: es2)) = _
            exact parse_union_sugar hg henv hU1 hU2 hp (by simp)
          · rw [postTy_union_sugar hg, singleOrMk_many (by intro x; simp [postTys])]

/-- what parsing `unionOf l` and post-processing yields, in terms of the member list -/
theorem union_of_parts {non lits : List Ty} (hnu : ∀ a ∈ non, isUnionTy a = false) (hl : allLits lits)
    (hd : pyDistinct (non ++ lits) = true) (hne : non ++ lits ≠ []) :
    singleOrMk (non ++ (if lits = [] then [] else [litJoin lits])) = singleOrUnion (non ++ lits) := by
  have hdl : pyDistinct lits = true := pyDistinct_append_right hd
  have hallu : ∀ a ∈ non ++ lits, isUnionTy a = false := by
    intro a ha
    rcases List.mem_append.1 ha with h | h
    · exact hnu a h
    · exact allLits_no_union hl a h
  by_cases hlits : lits = []
  · subst hlits
    simp only [if_true, List.append_nil] at hne ⊢
    cases non with
    | nil => exact absurd rfl hne
    | cons y ys =>
      cases ys with
      | nil => rfl
      | cons z zs =>
        rw [singleOrMk_many (by intro x; simp), singleOrUnion_many (by intro x; simp)]
        exact mkUnion_distinct (by simpa using hallu) (by simpa using hd)
  · rw [if_neg hlits]
    have hfl : flattenUnionMembers [litJoin lits] = lits := flatten_joinLits hl hlits
    cases non with
    | nil =>
      simp only [List.nil_append]
      cases lits with
      | nil => exact absurd rfl hlits
      | cons a as => cases as <;> rfl
    | cons y ys =>
      have hL : ∀ x, (y :: ys) ++ [litJoin lits] ≠ [x] := by
        intro x; cases ys <;> simp
      have hR : ∀ x, (y :: ys) ++ lits ≠ [x] := by
        intro x
        cases lits with
        | nil => exact absurd rfl hlits
        | cons a as => cases ys <;> simp
      rw [singleOrMk_many hL, singleOrUnion_many hR]
      unfold mkUnion
      rw [flatten_append, hfl, flatten_no_union hnu, dedupPy_of_distinct hd]

theorem flatten_single_or_union {r : List Ty} (hu : ∀ a ∈ r, isUnionTy a = false) (hne : r ≠ []) :
    flattenUnionMembers [singleOrUnion r] = r := by
  unfold singleOrUnion
  cases r with
  | nil => exact absurd rfl hne
  | cons a as =>
    cases as with
    | nil => exact flatten_no_union (l := [a]) hu
    | cons b bs => simp [flattenUnionMembers]

theorem tyName_litJoin {l : List Ty} (h : allLits l) : tyName (litJoin l) = "" := by
  cases l with
  | nil => rfl
  | cons a as =>
    cases as with
    | nil => obtain ⟨v, rfl⟩ := h a (by simp); rfl
    | cons b bs => rfl

theorem isEmpty_singletons (vs : List Lit) : (vs.map (fun v => [litExpr v])).isEmpty = vs.isEmpty := by
  cases vs <;> rfl

/-- the sugar printed for the parts `non`, `lits`, `None?` parses back to the union of the parts -/
theorem union_assemble {g : GCtx} (hg : GOK g) {ip : Bool} {d : Defs} {needs : List String}
    (henv : EnvOK g d needs) (non : List Ty) (vs : List Lit) (hvok : ∀ v ∈ vs, litOK v = true)
    (pnon : List Ty) (hpn1 : ParsesTo d (non.map (tyExpr ip)) pnon) (hpn2 : postTys g.tps pnon = non)
    (hpnH : ∀ p ∈ pnon, HeadOK d p)
    (hnonU : ∀ a ∈ non, isUnionTy a = false) (hasNone : Bool)
    (hd : pyDistinct (non ++ vs.map Ty.literal ++ (if hasNone then [noneTy] else [])) = true)
    (hne : non ++ vs.map Ty.literal ++ (if hasNone then [noneTy] else []) ≠ [])
    (hLit : vs ≠ [] → "Literal" ∈ needs ∧ "Literal" ∈ g.adds)
    (hB : ∀ x ∈ buildUnionAdds3 (non.map (tyExpr ip)) (vs.map (fun v => [litExpr v])) hasNone,
      x ∈ needs ∧ x ∈ g.adds) :
    ∃ pre, parseTy d (buildUnion3 (non.map (tyExpr ip)) (vs.map (fun v => [litExpr v])) hasNone) = .ok pre ∧
      postTy g.tps pre = singleOrUnion (non ++ vs.map Ty.literal ++ (if hasNone then [noneTy] else [])) ∧
      HeadOK d pre := by
  let lits := vs.map Ty.literal
  have hallLits : allLits lits := fun a ha => by
    obtain ⟨v, _, rfl⟩ := List.mem_map.1 ha; exact ⟨v, rfl⟩
  have hdnl : pyDistinct (non ++ lits) = true := pyDistinct_append_left hd
  have hdl : pyDistinct lits = true := pyDistinct_append_right hdnl
  have hlits_nil : lits = [] ↔ vs = [] := by cases vs <;> simp [lits]
  -- the printed member list and what it parses to
  let l : List PyExpr := non.map (tyExpr ip) ++
    (if vs = [] then [] else [PyExpr.sub (.name "Literal") (vs.map litExpr)])
  let L : List Ty := pnon ++ (if vs = [] then [] else [joinTypes lits])
  have hl : non.map (tyExpr ip) ++ (if (vs.map (fun v => [litExpr v])).isEmpty then []
      else [PyExpr.sub (.name "Literal") (vs.map (fun v => [litExpr v])).flatten]) = l := by
    rw [isEmpty_singletons, flatten_singletons]
    cases vs <;> rfl
  have hpL : ParsesTo d l L := by
    apply ParsesTo.append hpn1
    by_cases hv : vs = []
    · simp [hv, ParsesTo]
    · simp only [hv, if_false]
      obtain ⟨h1, h2⟩ := hLit hv
      exact ⟨⟨parse_literal_sugar hg henv h1 h2 vs hvok, rfl⟩, trivial⟩
  have hpostL : postTys g.tps L = non ++ (if lits = [] then [] else [litJoin lits]) := by
    simp only [L, postTys_eq_map, List.map_append]
    rw [← postTys_eq_map, hpn2]
    by_cases hv : vs = []
    · simp [hv, lits]
    · have hln : lits ≠ [] := fun e => hv (hlits_nil.1 e)
      simp only [hv, hln, if_false, List.map_cons, List.map_nil]
      rw [joinTypes_lits hallLits hdl hln, postTy_joinLits g.tps hallLits hdl]
  have hlen : l.length = L.length := hpL.length
  -- requests
  have hBU : (∀ x, l ≠ [x]) → l ≠ [] → "Union" ∈ needs ∧ "Union" ∈ g.adds := by
    intro h1 h2
    apply hB
    unfold buildUnionAdds3
    rw [hl]
    apply List.mem_append_right
    generalize l = l' at h1 h2
    cases l' with
    | nil => exact absurd rfl h2
    | cons a as =>
      cases as with
      | nil => exact absurd rfl (h1 a)
      | cons b bs => simp
  have hBO : hasNone = true → l ≠ [] → "Optional" ∈ needs ∧ "Optional" ∈ g.adds := by
    intro h1 h2
    apply hB
    unfold buildUnionAdds3
    rw [hl]
    apply List.mem_append_left
    have : ¬ l.isEmpty = true := by
      intro h; exact h2 (List.isEmpty_iff.1 h)
    simp [h1, this]
  have hprinted : buildUnion3 (non.map (tyExpr ip)) (vs.map (fun v => [litExpr v])) hasNone =
      (if hasNone then (if l.isEmpty then PyExpr.none else .sub (.name "Optional") [unionOf l]) else unionOf l) := by
    unfold buildUnion3
    rw [hl]
  rw [hprinted]
  by_cases hr : non ++ lits = []
  · -- only `None`
    have hnon : non = [] := (List.append_eq_nil_iff.1 hr).1
    have hlits : lits = [] := (List.append_eq_nil_iff.1 hr).2
    have hvs : vs = [] := hlits_nil.1 hlits
    subst hnon hvs
    cases hasNone with
    | false => simp at hne
    | true =>
      refine ⟨.named "NoneType", ?_, ?_, ?_⟩
      · simp [l, parseTy]
      · rw [postTy_named, hg.tpsNone]
        simp [noneTy, singleOrUnion]
        decide
      · exact headOK_single henv (x := "NoneType") (by decide) hg.noneAlias (by decide) (by decide) rfl
  · have hLne : L ≠ [] := by
      intro e
      apply hr
      have : (postTys g.tps L).length = 0 := by rw [e]; rfl
      rw [hpostL] at this
      have hnon : non = [] := by
        cases non with
        | nil => rfl
        | cons a as => simp at this
      subst hnon
      by_cases hl0 : lits = []
      · simp [hl0]
      · simp [hl0] at this
    have hlne : l ≠ [] := by
      intro e; rw [e] at hlen; exact hLne (List.eq_nil_of_length_eq_zero hlen.symm)
    have hallu : ∀ a ∈ non ++ lits, isUnionTy a = false := by
      intro a ha
      rcases List.mem_append.1 ha with h | h
      · exact hnonU a h
      · exact allLits_no_union hallLits a h
    have hLH : ∀ p ∈ L, HeadOK d p := by
      intro p hp
      rcases List.mem_append.1 hp with h | h
      · exact hpnH p h
      · split at h
        · simp at h
        · simp at h
          subst h
          apply headOK_empty
          have hv : vs ≠ [] := by assumption
          have hln : lits ≠ [] := fun e => hv (hlits_nil.1 e)
          rw [joinTypes_lits hallLits hdl hln]
          exact tyName_litJoin hallLits
    obtain ⟨preU, hpU1, hpU2, hpU3⟩ := parse_unionOf hg henv hpL hLne hLH (fun h => hBU h hlne)
    rw [hpostL, union_of_parts hnonU hallLits hdnl hr] at hpU2
    cases hasNone with
    | false =>
      refine ⟨preU, by simpa using hpU1, ?_, hpU3⟩
      rw [hpU2]
      simp only [Bool.false_eq_true, if_false, List.append_nil]
      rfl
    | true =>
      obtain ⟨hO1, hO2⟩ := hBO rfl hlne
      have hle : l.isEmpty = false := by
        cases hc : l with
        | nil => exact absurd hc hlne
        | cons _ _ => rfl
      refine ⟨.generic (.named "typing.Optional") [preU], ?_, ?_,
        headOK_typing_sub (n := "typing.Optional") (x := "Optional") (by decide) (by decide) (by decide) rfl
          (by intro m; simp)⟩
      · simp only [if_true, hle, Bool.false_eq_true, if_false]
        exact parse_optional_sugar hg henv hO1 hO2 hpU1 (unionOf_shape l (by
          intro e he
          rcases List.mem_append.1 he with h | h
          · obtain ⟨a, _, rfl⟩ := List.mem_map.1 h; exact tyExpr_shape ip a
          · split at h
            · simp at h
            · simp at h; subst h; rfl))
      · rw [postTy_optional_sugar hg, hpU2]
        simp only [if_true] at hd ⊢
        unfold mkUnion
        rw [flatten_append, flatten_single_or_union hallu hr,
          flatten_no_union (l := [noneTy]) (by intro a ha; simp at ha; subst ha; rfl),
          dedupPy_of_distinct hd]
        rw [singleOrUnion_many]
        intro x hx
        have h1 := congrArg List.length hx
        have h2 : 0 < (non ++ lits).length := List.length_pos_iff.2 hr
        simp only [List.length_append, List.length_cons, List.length_nil, lits, List.length_map] at h1 h2
        omega

theorem good_union_parse {g : GCtx} (hg : GOK g) {ip : Bool} {ts : List Ty} (ih : ListGood g ip ts)
    (hf : fTys g ip ts = true) (hu : ts.any isUnionTy = false)
    (hd : pyDistinct (unionRes ip (normTys g.tps ip ts)) = true)
    (hne : unionRes ip (normTys g.tps ip ts) ≠ [])
    (hsub : ∀ x ∈ tyAdds ip (.union ts), x ∈ g.adds) (d : Defs)
    (henv : EnvOK g d (tyAdds ip (.union ts))) :
    ∃ pre, parseTy d (tyExpr ip (.union ts)) = .ok pre ∧
      postTy g.tps pre = normTy g.tps ip (.union ts) ∧ HeadOK d pre := by
  have hms : normTys g.tps ip ts = ts.map (normTy g.tps ip) := normTys_eq_map _ _ _
  have hE : tyExprs ip (normTys g.tps ip ts) = tyExprs ip ts := listGood_exprs ih
  have hadds := tyAdds_union ip ts
  have hFe : formSetK id ip (tyExprs ip ts) = (formSetK (tyExpr ip) ip (normTys g.tps ip ts)).map (tyExpr ip) := by
    rw [formSetK_map, ← tyExprs_eq_map, hE]
  -- facts about the kept members
  have hut : ∀ t ∈ ts, isUnionTy t = false := by
    intro t ht
    rw [Bool.eq_false_iff]
    intro h
    have : ts.any isUnionTy = true := List.any_eq_true.2 ⟨t, ht, h⟩
    rw [this] at hu; exact absurd hu (by simp)
  have hF : ∀ a ∈ formSetK (tyExpr ip) ip (normTys g.tps ip ts), ∃ t ∈ ts, a = (normTy g.tps ip) t := by
    intro a ha
    have := mem_formSetK ha
    rw [hms] at this
    obtain ⟨t, ht, rfl⟩ := List.mem_map.1 this
    exact ⟨t, ht, rfl⟩
  have hparse : ∀ a ∈ formSetK (tyExpr ip) ip (normTys g.tps ip ts),
      ∃ pre, parseTy d ((tyExpr ip) a) = .ok pre ∧ postTy g.tps pre = a ∧ HeadOK d pre := by
    intro a ha
    obtain ⟨t, ht, rfl⟩ := hF a ha
    obtain ⟨pre, h1, h2, h3⟩ := (ih t ht).2.2 d (henv.mono (by
      intro x hx; rw [hadds]; exact List.mem_append_left _ (mem_tysAdds.2 ⟨t, ht, hx⟩)))
    exact ⟨pre, by show parseTy d (tyExpr ip (normTy g.tps ip t)) = _; rw [(ih t ht).1]; exact h1, h2, h3⟩
  -- the three parts
  generalize hFdef : formSetK (tyExpr ip) ip (normTys g.tps ip ts) = F at hFe hF hparse
  have hres : unionRes ip (normTys g.tps ip ts) =
      F.filter (fun t => pNon ((tyExpr ip) t)) ++ F.filter (fun t => pLit ((tyExpr ip) t)) ++ F.filter (fun t => pNone ((tyExpr ip) t)) := by
    unfold unionRes; simp only []; rw [hFdef]; rfl
  rw [hres] at hd hne
  generalize hnon : F.filter (fun t => pNon ((tyExpr ip) t)) = non at hd hne hres
  generalize hlit : F.filter (fun t => pLit ((tyExpr ip) t)) = lits at hd hne hres
  generalize hnn : F.filter (fun t => pNone ((tyExpr ip) t)) = nones at hd hne hres
  have hnonF : ∀ a ∈ non, a ∈ F := by intro a ha; rw [← hnon] at ha; exact (List.mem_filter.1 ha).1
  have hlitF : ∀ a ∈ lits, a ∈ F ∧ pLit ((tyExpr ip) a) = true := by
    intro a ha; rw [← hlit] at ha; exact List.mem_filter.1 ha
  have hnnF : ∀ a ∈ nones, a ∈ F ∧ pNone ((tyExpr ip) a) = true := by
    intro a ha; rw [← hnn] at ha; exact List.mem_filter.1 ha
  -- literals
  have hlitv : ∀ a ∈ lits, ∃ v, a = .literal v ∧ litOK v = true := by
    intro a ha
    obtain ⟨haF, hl⟩ := hlitF a ha
    obtain ⟨t, ht, rfl⟩ := hF a haF
    have hl' : isLitE (tyExpr ip t) = true := by
      have : (tyExpr ip) ((normTy g.tps ip) t) = tyExpr ip t := (ih t ht).1
      rw [← this]; exact hl
    obtain ⟨v, rfl⟩ := member_lit (fTys_mem hf ht) (hut t ht) hl'
    refine ⟨v, by simp [normTy], ?_⟩
    have := fTys_mem hf ht
    cases v <;> simp [fTy] at this <;> rfl
  obtain ⟨vs, hvs, hvok⟩ := lits_as_values lits hlitv
  -- `None`
  have hnone : ∀ a ∈ nones, a = noneTy := by
    intro a ha
    obtain ⟨haF, hn⟩ := hnnF a ha
    obtain ⟨pre, h1, h2, _⟩ := hparse a haF
    have he : (tyExpr ip) a = .none := by unfold pNone at hn; simpa using hn
    rw [he] at h1
    simp [parseTy] at h1
    subst h1
    rw [← h2, postTy_named, hg.tpsNone]
    decide
  have hnones : nones = [] ∨ nones = [noneTy] := by
    cases hc : nones with
    | nil => exact Or.inl rfl
    | cons a as =>
      right
      have ha := hnone a (by rw [hc]; simp)
      subst ha
      cases as with
      | nil => rfl
      | cons b bs =>
        exfalso
        have hb := hnone b (by rw [hc]; simp)
        subst hb
        rw [hc] at hd
        have := pyDistinct_append_right hd
        rw [pyDistinct_none_none] at this
        exact absurd this (by simp)
  -- the printed union
  have hprint : tyExpr ip (.union ts) =
      buildUnion3 (non.map (tyExpr ip)) (vs.map (fun v => [litExpr v])) (!nones.isEmpty) := by
    rw [tyExpr_union, buildUnion_eq, hFe]
    congr 1
    · rw [← hnon, filter_map']
    · rw [filterMap_litArgs_eq, filter_map', hlit, hvs]
      exact filterMap_litArgs_lits ip vs
    · rw [Bool.eq_iff_iff]
      simp only [List.contains_iff_mem, List.mem_map, Bool.not_eq_true', List.isEmpty_eq_false_iff]
      constructor
      · rintro ⟨a, ha, he⟩
        intro hc
        have : a ∈ nones := by rw [← hnn]; exact List.mem_filter.2 ⟨ha, by unfold pNone; simp [he]⟩
        rw [hc] at this; simp at this
      · intro hc
        obtain ⟨a, ha⟩ := List.exists_mem_of_ne_nil _ hc
        obtain ⟨haF, hn⟩ := hnnF a ha
        exact ⟨a, haF, by unfold pNone at hn; simpa using hn⟩
  -- typing members in scope
  have hLit : vs ≠ [] → "Literal" ∈ tyAdds ip (.union ts) := by
    intro hv
    obtain ⟨v, hvm⟩ := List.exists_mem_of_ne_nil _ hv
    have : Ty.literal v ∈ lits := by rw [hvs]; exact List.mem_map.2 ⟨v, hvm, rfl⟩
    obtain ⟨t, ht, he⟩ := hF _ (hlitF _ this).1
    rw [hadds]
    apply List.mem_append_left
    refine mem_tysAdds.2 ⟨t, ht, ?_⟩
    have h1 : "Literal" ∈ tyAdds ip ((normTy g.tps ip) t) := by rw [← he]; simp [tyAdds]
    exact ((ih t ht).2.1 _).1 h1
  have hbadds : buildUnionAdds (formSetK id ip (tyExprs ip ts)) =
      buildUnionAdds3 (non.map (tyExpr ip)) (vs.map (fun v => [litExpr v])) (!nones.isEmpty) := by
    have := hprint
    rw [tyExpr_union, buildUnion_eq] at this
    rw [buildUnionAdds_eq, hFe]
    congr 1
    · rw [← hnon, filter_map']
    · rw [filterMap_litArgs_eq, filter_map', hlit, hvs]
      exact filterMap_litArgs_lits ip vs
    · rw [Bool.eq_iff_iff]
      simp only [List.contains_iff_mem, List.mem_map, Bool.not_eq_true', List.isEmpty_eq_false_iff]
      constructor
      · rintro ⟨a, ha, he⟩
        intro hc
        have : a ∈ nones := by rw [← hnn]; exact List.mem_filter.2 ⟨ha, by unfold pNone; simp [he]⟩
        rw [hc] at this; simp at this
      · intro hc
        obtain ⟨a, ha⟩ := List.exists_mem_of_ne_nil _ hc
        obtain ⟨haF, hn⟩ := hnnF a ha
        exact ⟨a, haF, by unfold pNone at hn; simpa using hn⟩
  -- parse the non-literal members and the literal group
  obtain ⟨pnon, hpn1, hpn2, hpnH⟩ := parse_list_of_members (g := g) (ip := ip) (d := d) non
    (fun a ha => hparse a (hnonF a ha))
  have hallLits : allLits lits := fun a ha => by
    obtain ⟨v, hv, _⟩ := hlitv a ha; exact ⟨v, hv⟩
  have hdlits : pyDistinct lits = true := pyDistinct_append_right (pyDistinct_append_left hd)
  have hdnl : pyDistinct (non ++ lits) = true := pyDistinct_append_left hd
  have hnonU : ∀ a ∈ non, isUnionTy a = false := by
    intro a ha
    obtain ⟨t, ht, rfl⟩ := hF a (hnonF a ha)
    exact normTy_not_union _ _ (hut t ht)
  rw [hprint, normTy_union]
  unfold normUnion
  rw [hres, hvs]
  rw [hvs] at hd hne
  have hLitBoth : vs ≠ [] → "Literal" ∈ tyAdds ip (.union ts) ∧ "Literal" ∈ g.adds :=
    fun hv => ⟨hLit hv, hsub _ (hLit hv)⟩
  have hBboth : ∀ x ∈ buildUnionAdds3 (non.map (tyExpr ip)) (vs.map (fun v => [litExpr v])) (!nones.isEmpty),
      x ∈ tyAdds ip (.union ts) ∧ x ∈ g.adds := by
    intro x hx
    have : x ∈ tyAdds ip (.union ts) := by
      rw [hadds, hbadds]; exact List.mem_append_right _ hx
    exact ⟨this, hsub x this⟩
  rcases hnones with h | h
  · subst h
    exact union_assemble hg henv non vs hvok pnon hpn1 hpn2 hpnH hnonU false (by simpa using hd)
      (by simpa using hne) hLitBoth hBboth
  · subst h
    exact union_assemble hg henv non vs hvok pnon hpn1 hpn2 hpnH hnonU true (by simpa using hd)
      (by simpa using hne) hLitBoth hBboth

end PytypeModel.Pytd
