/-
C06 proofs, part 2: `normOut` is idempotent on the fragment (a re-exported type re-exports to itself).
-/
import PytypeModel.Proofs.AbsConvert

namespace PytypeModel.Pytd.AbsConvert
open PytypeModel.Pytd

/-! ### shape of `normVal` -/

theorem normVal_not_union (t : Ty) : isUnionTy (normVal t) = false := by
  cases t with
  | named n => exact normName_not_union n
  | cls n => exact normName_not_union n
  | late n => exact normName_not_union n
  | generic b ps => exact normGeneric_not_union _ _ _
  | _ => rfl

theorem arity_pos (n : String) (k : Nat) (h : arity n = some k) : k ≠ 0 := by
  unfold arity at h
  by_cases h1 : n = "builtins.list" ∨ n = "builtins.set" ∨ n = "builtins.frozenset" ∨ n = "builtins.tuple"
  · simp only [h1, if_true, Option.some.injEq] at h; omega
  · simp only [h1, if_false] at h
    by_cases h2 : n = "builtins.dict"
    · simp only [h2, if_true, Option.some.injEq] at h; omega
    · simp [h2] at h

theorem normName_ne_nothing (n : String) : normName n ≠ .nothing := by
  unfold normName
  by_cases h : n = "builtins.type" ∨ n = "builtins.property"
  · simp [h]
  · simp only [h, if_false]
    cases arity n with
    | none => simp
    | some k => simp only; split <;> simp

theorem normGeneric_ne_nothing (b : Ty) (raw ps : List Ty) : normGeneric b raw ps ≠ .nothing := by
  unfold normGeneric
  by_cases h : tyName b = "builtins.type"
  · simp only [h, if_true]; split <;> simp
  · simp only [h, if_false]; split <;> simp

theorem normVal_eq_nothing (t : Ty) (h : normVal t = .nothing) : t = .nothing := by
  cases t <;> simp_all [normVal, normName_ne_nothing, normGeneric_ne_nothing]

theorem normIn_of_not_union (t : Ty) (h : isUnionTy t = false) : normIn t = normVal t := by
  cases t <;> simp_all [normIn, normVal, isUnionTy]

/-! ### lists -/

theorem normIns_append (a b : List Ty) : normIns (a ++ b) = normIns a ++ normIns b := by
  induction a with
  | nil => simp [normIns]
  | cons x xs ih => simp [normIns, ih]

theorem normIns_length (a : List Ty) : (normIns a).length = a.length := by
  induction a with
  | nil => simp [normIns]
  | cons x xs ih => simp [normIns, ih]

theorem normIns_replicate_any (k : Nat) : normIns (List.replicate k Ty.any) = List.replicate k Ty.any := by
  induction k with
  | zero => simp [normIns]
  | succ k ih => simp [List.replicate_succ, normIns, normIn, ih]

theorem normIns_padTys (k : Nat) (ps : List Ty) : normIns (padTys k ps) = padTys k (normIns ps) := by
  simp [padTys, normIns_append, normIns_replicate_any, normIns_length]

theorem padTys_padTys (k : Nat) (ps : List Ty) : padTys k (padTys k ps) = padTys k ps := by
  simp only [padTys, List.length_append, List.length_replicate]
  have : k - (ps.length + (k - ps.length)) = 0 := by omega
  simp [this]

theorem flatten_id (l : List Ty) (h : ∀ x ∈ l, isUnionTy x = false) : flatten l = l := by
  induction l with
  | nil => simp [flatten]
  | cons x xs ih =>
    have hx := h x (by simp)
    have hxs := ih (fun y hy => h y (by simp [hy]))
    cases x <;> simp_all [flatten, isUnionTy]

theorem dedupe_idem (seen l : List Ty) : dedupe seen (dedupe seen l) = dedupe seen l := by
  induction l generalizing seen with
  | nil => simp [dedupe]
  | cons t ts ih =>
    by_cases h1 : t = .nothing
    · simp [dedupe, h1, ih]
    · by_cases h2 : seenHas seen t = true
      · simp [dedupe, h1, h2, ih]
      · simp [dedupe, h1, h2, ih]

theorem dedupe_mem (seen l : List Ty) (x : Ty) (h : x ∈ dedupe seen l) : x ∈ l ∧ x ≠ .nothing := by
  induction l generalizing seen with
  | nil => simp [dedupe] at h
  | cons t ts ih =>
    by_cases h1 : t = .nothing
    · simp only [dedupe, h1, if_true] at h
      have := ih seen h
      exact ⟨by simp [this.1], this.2⟩
    · by_cases h2 : seenHas seen t = true
      · simp only [dedupe, h1, h2, if_true, if_false] at h
        have := ih seen h
        exact ⟨by simp [this.1], this.2⟩
      · simp only [dedupe, h1, h2, if_false] at h
        rcases List.mem_cons.1 h with e | h'
        · subst e; exact ⟨by simp, h1⟩
        · have := ih _ h'
          exact ⟨by simp [this.1], this.2⟩

theorem dedupe_head_ne_nil (t : Ty) (ts : List Ty) (h : t ≠ .nothing) : dedupe [] (t :: ts) ≠ [] := by
  simp [dedupe, h, seenHas]

/-- members that are fixed by `normVal` and are not `nothing` are reproduced by `normMembers` -/
theorem normMembers_id (l : List Ty) (h : ∀ m ∈ l, normVal m = m ∧ m ≠ .nothing) : normMembers l = l := by
  induction l with
  | nil => simp [normMembers]
  | cons x xs ih =>
    have hx := h x (by simp)
    simp only [normMembers, hx.2, if_false, hx.1, ih (fun m hm => h m (by simp [hm]))]
    simp

/-! ### fixed points -/

/-- properties of a list of member types produced by `normMembers` / `topMembers` -/
def GoodMembers (ms : List Ty) : Prop :=
  ∀ m ∈ ms, normVal m = m ∧ isUnionTy m = false ∧ m ≠ .nothing

theorem joinCore_union (new : List Ty) (hlen : 2 ≤ new.length) (ha : new.any (· = .any) = false) :
    joinCore new = .union new := by
  match new, hlen, ha with
  | a :: b :: c, _, ha => simp [joinCore, ha]

theorem joinCore_anys (a b : Ty) (c : List Ty) (ha : (a :: b :: c).any (· = .any) = true) :
    joinCore (a :: b :: c) = (if (a :: b :: c).any isNoneTy then .union [.any, noneTy] else .any) := by
  simp [joinCore, ha]

theorem normIn_optAny : normIn (.union [.any, noneTy]) = .union [.any, noneTy] := by decide

theorem normIn_joinCore (new : List Ty) (hg : GoodMembers new) (hd : dedupe [] new = new) :
    normIn (joinCore new) = joinCore new := by
  match new, hg, hd with
  | [], _, _ => decide
  | [t], hg, _ =>
    have := hg t (by simp)
    show normIn t = t
    rw [normIn_of_not_union t this.2.1, this.1]
  | a :: b :: c, hg, hd =>
    cases ha : (a :: b :: c).any (· = .any) with
    | true =>
      rw [joinCore_anys a b c ha]
      cases hn : (a :: b :: c).any isNoneTy with
      | true => simp only [if_true]; exact normIn_optAny
      | false => simp [normIn]
    | false =>
      rw [joinCore_union _ (by simp) ha]
      have hm : normMembers (a :: b :: c) = a :: b :: c :=
        normMembers_id _ (fun m hm => ⟨(hg m hm).1, (hg m hm).2.2⟩)
      have hf : flatten (a :: b :: c) = a :: b :: c := flatten_id _ (fun m hm => (hg m hm).2.1)
      simp only [normIn, hm, joinTypes, hf, hd]
      exact joinCore_union _ (by simp) ha

theorem goodMembers_dedupe (ms : List Ty) (h : GoodMembers ms) : GoodMembers (dedupe [] ms) :=
  fun m hm => h m (dedupe_mem [] ms m hm).1

theorem normIn_joinTypes (ms : List Ty) (hg : GoodMembers ms) : normIn (joinTypes ms) = joinTypes ms := by
  unfold joinTypes
  rw [flatten_id ms (fun m hm => (hg m hm).2.1)]
  exact normIn_joinCore _ (goodMembers_dedupe ms hg) (dedupe_idem [] ms)

theorem normGeneric_type_idem (b : Ty) (ps qs : List Ty) (h : tyName b = "builtins.type") :
    normVal (normGeneric b ps qs) = normGeneric b ps qs := by
  unfold normGeneric
  simp only [h, if_true]
  split
  · simp [normVal, normGeneric, tyName]
  · simp [normVal, normGeneric, tyName]
  · simp [normVal, normGeneric, tyName]
  · simp [normVal]

theorem normVal_generic_named (n : String) (args : List Ty) :
    normVal (.generic (.named n) args) = normGeneric (.named n) args (normIns args) := by simp [normVal]

theorem normGeneric_named_cont (n : String) (raw ps : List Ty) (k : Nat) (h : n ≠ "builtins.type")
    (ha : arity n = some k) :
    normGeneric (.named n) raw ps =
      (match padTys k ps with
       | [] => .named n
       | args => .generic (.named n) args) := by
  unfold normGeneric
  have : tyName (Ty.named n) = n := rfl
  simp only [this, h, if_false, ha]
  rfl

theorem normGeneric_cont_idem (b : Ty) (ps : List Ty) (k : Nat) (h : tyName b ≠ "builtins.type")
    (ha : arity (tyName b) = some k) (hlen : ps.length = k)
    (ih : normIns (normIns ps) = normIns ps) :
    normVal (normGeneric b ps (normIns ps)) = normGeneric b ps (normIns ps) := by
  unfold normGeneric
  simp only [h, if_false, ha]
  have hk : k ≠ 0 := arity_pos _ _ ha
  have hpad : padTys k (normIns ps) = normIns ps := by
    simp [padTys, normIns_length, hlen]
  rw [hpad]
  cases hps : normIns ps with
  | nil =>
    have := congrArg List.length hps
    simp [normIns_length, hlen] at this
    exact absurd this hk
  | cons x xs =>
    rw [normVal_generic_named, normGeneric_named_cont _ _ _ k h ha, ← hps, ih, hpad, hps]

theorem normName_fix (n : String) : normVal (normName n) = normName n := by
  unfold normName
  by_cases h : n = "builtins.type" ∨ n = "builtins.property"
  · simp [h, normVal]
  · simp only [h, if_false]
    cases ha : arity n with
    | none => simp [normVal, normName, h, ha]
    | some k =>
      simp only
      have hk : k ≠ 0 := arity_pos _ _ ha
      cases hr : List.replicate k Ty.any with
      | nil =>
        have := congrArg List.length hr
        simp at this; exact absurd this hk
      | cons x xs =>
        have : padTys k (List.replicate k Ty.any) = List.replicate k Ty.any := by simp [padTys]
        rw [normVal_generic_named, normGeneric_named_cont _ _ _ k (arity_ne_type n k ha) ha, ← hr,
          normIns_replicate_any, this, hr]

mutual
theorem normVal_idem : ∀ t : Ty, inFragment t = true → normVal (normVal t) = normVal t
  | .any, _ => by simp [normVal]
  | .nothing, _ => by simp [normVal]
  | .union _, _ => by simp [normVal]
  | .named n, _ => normName_fix n
  | .cls n, _ => normName_fix n
  | .late n, _ => normName_fix n
  | .generic b ps, h => by
    simp only [inFragment, Bool.and_eq_true] at h
    simp only [normVal]
    by_cases hb : tyName b = "builtins.type"
    · exact normGeneric_type_idem b ps _ hb
    · have h2 := h.2
      simp only [hb, if_false, Bool.and_eq_true] at h2
      cases ha : arity (tyName b) with
      | none => simp [ha] at h2
      | some k =>
        simp only [ha, beq_iff_eq] at h2
        exact normGeneric_cont_idem b ps k hb ha h2.1 (normIns_idem ps h2.2)
  | .tuple b ps, h => by
    simp only [inFragment, Bool.and_eq_true] at h
    simp only [normVal, normIns_idem ps h.2]
  | .typeParam _ _, h => by simp [inFragment] at h
  | .callable _ _, h => by simp [inFragment] at h
  | .literal _, h => by simp [inFragment] at h
  | .annotated _ _, h => by simp [inFragment] at h
theorem normIn_idem : ∀ t : Ty, inFragment t = true → normIn (normIn t) = normIn t
  | .union ts, h => by
    simp only [inFragment] at h
    simp only [normIn]
    exact normIn_joinTypes _ (normMembers_good ts h)
  | .any, _ => by simp [normIn]
  | .nothing, _ => by simp [normIn]
  | .named n, h => by
    have := normVal_idem (.named n) h
    simp only [normVal] at this
    simp only [normIn]
    rw [normIn_of_not_union _ (normName_not_union n)]; exact this
  | .cls n, h => by
    have := normVal_idem (.cls n) h
    simp only [normVal] at this
    simp only [normIn]
    rw [normIn_of_not_union _ (normName_not_union n)]; exact this
  | .late n, h => by
    have := normVal_idem (.late n) h
    simp only [normVal] at this
    simp only [normIn]
    rw [normIn_of_not_union _ (normName_not_union n)]; exact this
  | .generic b ps, h => by
    have := normVal_idem (.generic b ps) h
    simp only [normVal] at this
    simp only [normIn]
    rw [normIn_of_not_union _ (normGeneric_not_union _ _ _)]; exact this
  | .tuple b ps, h => by
    have := normVal_idem (.tuple b ps) h
    simp only [normVal] at this
    simp only [normIn]
    exact this
  | .typeParam _ _, h => by simp [inFragment] at h
  | .callable _ _, h => by simp [inFragment] at h
  | .literal _, h => by simp [inFragment] at h
  | .annotated _ _, h => by simp [inFragment] at h
theorem normIns_idem : ∀ ts : List Ty, inFragmentL ts = true → normIns (normIns ts) = normIns ts
  | [], _ => by simp [normIns]
  | t :: ts, h => by
    simp only [inFragmentL, Bool.and_eq_true] at h
    simp only [normIns, normIn_idem t h.1, normIns_idem ts h.2]
theorem normMembers_good : ∀ ts : List Ty, inFragmentM ts = true → GoodMembers (normMembers ts)
  | [], _ => by intro m hm; simp [normMembers] at hm
  | t :: ts, h => by
    simp only [inFragmentM, Bool.and_eq_true] at h
    intro m hm
    simp only [normMembers, List.mem_append] at hm
    rcases hm with hm | hm
    · by_cases ht : t = .nothing
      · simp [ht] at hm
      · simp only [ht, if_false, List.mem_singleton] at hm
        subst hm
        exact ⟨normVal_idem t h.1.2, normVal_not_union t, fun e => ht (normVal_eq_nothing t e)⟩
    · exact normMembers_good ts h.2 m hm
end

/-! ### module level -/

theorem topMembers_of_fixed (m : Ty) (h1 : normVal m = m) (h2 : isUnionTy m = false) (h3 : m ≠ .nothing) :
    topMembers m = [m] := by
  cases m <;> simp_all [topMembers, isUnionTy]

theorem normOut_of_fixed (m : Ty) (h1 : normVal m = m) (h2 : isUnionTy m = false) (h3 : m ≠ .nothing) :
    normOut m = m := by
  unfold normOut
  rw [topMembers_of_fixed m h1 h2 h3]
  unfold exportTys
  by_cases ha : m = .any
  · simp [ha]
  · simp [ha, h3]

theorem normOut_exportTys (ms : List Ty) (hg : GoodMembers ms) : normOut (exportTys ms) = exportTys ms := by
  unfold exportTys
  by_cases ha : ms.any (· = .any) = true
  · simp only [ha, if_true]; decide
  · simp only [ha, if_false]
    match ms, hg, ha with
    | [], _, _ => decide
    | [m], hg, _ =>
      have := hg m (by simp)
      simp only [this.2.2, if_false]
      exact normOut_of_fixed m this.1 this.2.1 this.2.2
    | x :: y :: r, hg, ha =>
      simp only
      unfold joinTypes
      rw [flatten_id _ (fun m hm => (hg m hm).2.1)]
      have hgd := goodMembers_dedupe _ hg
      have hdd := dedupe_idem [] (x :: y :: r)
      have hnn : dedupe [] (x :: y :: r) ≠ [] := dedupe_head_ne_nil x _ (hg x (by simp)).2.2
      have hnoany : (dedupe [] (x :: y :: r)).any (· = .any) = false := by
        cases hb : (dedupe [] (x :: y :: r)).any (· = .any) with
        | false => rfl
        | true =>
          exfalso
          obtain ⟨z, hz, hz'⟩ := List.any_eq_true.1 hb
          have := (dedupe_mem [] _ z hz).1
          exact ha (List.any_eq_true.2 ⟨z, this, hz'⟩)
      generalize dedupe [] (x :: y :: r) = new at hgd hdd hnn hnoany
      match new, hgd, hdd, hnn, hnoany with
      | [], _, _, hnn, _ => exact absurd rfl hnn
      | [t], hgd, _, _, _ =>
        have := hgd t (by simp)
        exact normOut_of_fixed t this.1 this.2.1 this.2.2
      | a :: b :: c, hgd, hdd, _, hnoany =>
        rw [joinCore_union _ (by simp) hnoany]
        have hm : normMembers (a :: b :: c) = a :: b :: c :=
          normMembers_id _ (fun m hm => ⟨(hgd m hm).1, (hgd m hm).2.2⟩)
        have hf : flatten (a :: b :: c) = a :: b :: c := flatten_id _ (fun m hm => (hgd m hm).2.1)
        simp only [normOut, topMembers, hm, exportTys, hnoany, Bool.false_eq_true, if_false, joinTypes, hf,
          hdd]
        exact joinCore_union _ (by simp) hnoany

theorem goodMembers_top (t : Ty) (h : inFragment t = true) : GoodMembers (topMembers t) := by
  cases t with
  | union ts => simp only [inFragment] at h; exact normMembers_good ts h
  | nothing => intro m hm; simp [topMembers] at hm
  | any => intro m hm; simp [topMembers, normVal] at hm; subst hm; simp [normVal, isUnionTy]
  | named n =>
    intro m hm; simp only [topMembers, List.mem_singleton] at hm; subst hm
    exact ⟨normVal_idem _ h, normVal_not_union _, fun e => by simpa using normVal_eq_nothing _ e⟩
  | cls n =>
    intro m hm; simp only [topMembers, List.mem_singleton] at hm; subst hm
    exact ⟨normVal_idem _ h, normVal_not_union _, fun e => by simpa using normVal_eq_nothing _ e⟩
  | late n =>
    intro m hm; simp only [topMembers, List.mem_singleton] at hm; subst hm
    exact ⟨normVal_idem _ h, normVal_not_union _, fun e => by simpa using normVal_eq_nothing _ e⟩
  | generic b ps =>
    intro m hm; simp only [topMembers, List.mem_singleton] at hm; subst hm
    exact ⟨normVal_idem _ h, normVal_not_union _, fun e => by simpa using normVal_eq_nothing _ e⟩
  | tuple b ps =>
    intro m hm; simp only [topMembers, List.mem_singleton] at hm; subst hm
    exact ⟨normVal_idem _ h, normVal_not_union _, fun e => by simpa using normVal_eq_nothing _ e⟩
  | typeParam _ _ => simp [inFragment] at h
  | callable _ _ => simp [inFragment] at h
  | literal _ => simp [inFragment] at h
  | annotated _ _ => simp [inFragment] at h

theorem normOut_idem (t : Ty) (h : inFragment t = true) : normOut (normOut t) = normOut t := by
  show normOut (exportTys (topMembers t)) = exportTys (topMembers t)
  exact normOut_exportTys _ (goodMembers_top t h)

end PytypeModel.Pytd.AbsConvert
