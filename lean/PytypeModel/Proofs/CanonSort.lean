import PytypeModel.Pytd.Canon

/-! Sorting lemmas shared by the canonical-ordering and the error-log proofs (C04): a stable sort by a
total preorder is invariant under permutations of its input as soon as ties are identical. -/
namespace PytypeModel.Pytd.Canon

open PytypeModel.Core

variable {K α : Type} (o : KOrd K) (key : α → K)

theorem leKey_trans : ∀ a b c : α, o.le (key a) (key b) = true → o.le (key b) (key c) = true →
    o.le (key a) (key c) = true := fun a b c => o.trans (key a) (key b) (key c)

theorem leKey_total : ∀ a b : α, (o.le (key a) (key b) || o.le (key b) (key a)) = true :=
  fun a b => o.total (key a) (key b)

/-- "ties are identical" on one list -/
def InjOn (l : List α) : Prop := ∀ a, a ∈ l → ∀ b, b ∈ l → key a = key b → a = b

theorem InjOn.of_perm {l l' : List α} (h : InjOn key l) (hp : l.Perm l') : InjOn key l' :=
  fun a ha b hb e => h a (hp.mem_iff.2 ha) b (hp.mem_iff.2 hb) e

theorem InjOn.of_subset {l l' : List α} (h : InjOn key l) (hs : ∀ a, a ∈ l' → a ∈ l) : InjOn key l' :=
  fun a ha b hb e => h a (hs a ha) b (hs b hb) e

theorem sortOn_perm (l : List α) : (sortOn o key l).Perm l := isort_perm _ _

theorem mem_sortOn {l : List α} {a : α} : a ∈ sortOn o key l ↔ a ∈ l := (sortOn_perm o key l).mem_iff

theorem sortOn_sorted (l : List α) :
    (sortOn o key l).Pairwise (fun a b => o.le (key a) (key b) = true) :=
  isort_pairwise (leKey_trans o key) (leKey_total o key) l

/-- the central fact: permuting the input of `sorted` does not change its output when ties are identical -/
theorem sortOn_eq_of_perm {l₁ l₂ : List α} (hp : l₁.Perm l₂) (hinj : InjOn key l₁) :
    sortOn o key l₁ = sortOn o key l₂ :=
  isort_eq_of_perm (leKey_trans o key) (leKey_total o key) hp
    (fun a ha b hb h1 h2 => hinj a ha b hb (o.antisymm _ _ h1 h2))

theorem sortOn_of_sorted {l : List α} (h : l.Pairwise (fun a b => o.le (key a) (key b) = true)) :
    sortOn o key l = l := isort_of_pairwise h

theorem sortOn_idem (l : List α) : sortOn o key (sortOn o key l) = sortOn o key l :=
  sortOn_of_sorted o key (sortOn_sorted o key l)

/-- what happens on ties: `sorted` is stable — two elements whose keys compare `<=` in input order keep
their relative order (in particular tied elements are never swapped). -/
theorem sortOn_stable {l : List α} {a b : α} (hab : o.le (key a) (key b) = true)
    (h : [a, b].Sublist l) : [a, b].Sublist (sortOn o key l) :=
  pair_sublist_isort hab h

theorem noTies_injOn {l : List α} (h : noTies o key l = true) : InjOn key l := by
  induction l with
  | nil => intro a ha; cases ha
  | cons x l ih =>
    simp only [noTies, Bool.and_eq_true, List.all_eq_true, Bool.not_eq_true', Bool.and_eq_false_iff] at h
    have hrefl : ∀ k : K, o.le k k = true := fun k => by simpa using o.total k k
    have hx : ∀ b, b ∈ l → key x ≠ key b := by
      intro b hb e
      have := h.1 b hb
      rw [e] at this
      rcases this with h' | h' <;> simp [hrefl] at h'
    intro a ha b hb e
    rcases List.mem_cons.1 ha with rfl | ha' <;> rcases List.mem_cons.1 hb with rfl | hb'
    · rfl
    · exact absurd e (hx b hb')
    · exact absurd e.symm (hx a ha')
    · exact ih h.2 a ha' b hb' e

end PytypeModel.Pytd.Canon
