import PytypeModel.Proofs.PyiUnitA

/-! C05, unit level, part B: constants, type parameters and aliases, one statement at a time. -/
namespace PytypeModel.Pytd

theorem EnvOK.setTypeParams {g : GCtx} {d : Defs} {needs : List String} (h : EnvOK g d needs)
    (tp : List TypeParamDecl) : EnvOK g { d with typeParams := tp } needs :=
  ⟨h.imp, h.other, h.alias⟩

/-! ### constants -/

theorem specialDecl_facts {n : String} (h : specialDeclNames.contains n = false) :
    n ≠ "__match_args__" ∧ n ≠ "__slots__" ∧ n ≠ "__all__" := by
  have k := fun (y : String) (hy : y ∈ specialDeclNames) => ne_of_not_contains h hy
  exact ⟨k _ (by decide), k _ (by decide), k _ (by decide)⟩

/-- the parsed constant (before post-processing) -/
def preConst (c : Const) (pre : Ty) : Const :=
  { name := c.name, ty := pre, value := c.value.map (fun _ => Lit.bool true) }

theorem const_stmt {g : GCtx} (hg : GOK g) {c : Const} (hf : fConst g c = true)
    (hsub : ∀ x ∈ constAdds c, x ∈ g.adds) {d : Defs} (henv : EnvOK g d g.adds) (path : List String) :
    ∃ pre, convStmt d path (constStmt c) = .ok (d, [.const (preConst c pre)]) ∧
      postTy g.tps pre = normTy g.tps false c.ty := by
  unfold fConst at hf
  simp only [Bool.and_eq_true, Bool.not_eq_true'] at hf
  obtain ⟨⟨_, hft⟩, hsp⟩ := hf
  obtain ⟨hma, _, _⟩ := specialDecl_facts hsp
  obtain ⟨pre, hp1, hp2, hp3⟩ := (tyGood hg false c.ty hft hsub).2.2 d (henv.mono hsub)
  refine ⟨pre, ?_, hp2⟩
  unfold constStmt
  simp only [convStmt, hp1]
  have hfin : ¬ (tyName pre ≠ "" ∧
      (matchesName d (tyName pre) ["typing"] "Final" || matchesName d (tyName pre) ["typing"] "TypeAlias") = true) := by
    rintro ⟨h1, h2⟩
    rcases hp3.1 with h | ⟨ha, hb⟩
    · exact h1 h
    · rw [ha, hb] at h2; simp at h2
  simp only [bind, Except.bind, hma, if_false, hfin]
  cases hv : c.value with
  | none => simp [preConst, hv]
  | some v => simp [preConst, hv]

/-! ### type parameters -/

def preDecl (dc : TypeParamDecl) (cs : List Ty) (b : Option Ty) : TypeParamDecl :=
  { name := dc.name, constraints := cs, bound := b }

theorem matches_TypeVar (d : Defs) : matchesName d "typing.TypeVar" ["typing"] "TypeVar" = true := by
  unfold matchesName matchesC
  have : comps "typing.TypeVar" = ["typing", "TypeVar"] := by decide
  simp only [this]
  simp

theorem typeParam_stmt {g : GCtx} (hg : GOK g) {dc : TypeParamDecl} (hf : fDecl g dc = true)
    (hsub : ∀ x ∈ typeParamAdds dc, x ∈ g.adds) {d : Defs} (henv : EnvOK g d g.adds) :
    ∃ cs b, convStmt d [] (typeParamStmt dc) =
        .ok ({ d with typeParams := d.typeParams ++ [preDecl dc cs b] }, []) ∧
      postDecl g.tps (preDecl dc cs b) = normDecl g.tps dc := by
  unfold fDecl at hf
  simp only [Bool.and_eq_true] at hf
  obtain ⟨⟨_, hfc⟩, hfb⟩ := hf
  have hTV : "TypeVar" ∈ g.adds := hsub _ (by simp [typeParamAdds])
  have hsubc : ∀ x ∈ tysAdds false dc.constraints, x ∈ g.adds := by
    intro x hx; apply hsub; unfold typeParamAdds; rw [← tysAdds_eq]; simp [hx]
  obtain ⟨cs, hc1, hc2⟩ := listGood_parse (tysGood hg false dc.constraints hfc hsubc) (henv.mono hsubc)
  have hnt : newType d "TypeVar" none = .ok (.named "typing.TypeVar") := by
    apply newType_bare
    · rw [resolveType_imp henv hTV (by decide)]; rfl
    · decide
  have hcs : parseTys d (dc.constraints.map (tyExpr false)) = .ok cs := by
    rw [← tyExprs_eq_map]; exact parseTys_types hc1
  have hcpost : (cs.map (postTy g.tps)) = dc.constraints.map (normTy g.tps false) := by
    rw [← postTys_eq_map, hc2, normTys_eq_map]
  cases hbd : dc.bound with
  | none =>
    refine ⟨cs, none, ?_, ?_⟩
    · unfold typeParamStmt
      simp only [convStmt, dottedName, hnt, bind, Except.bind, tyBaseName, matches_TypeVar, hcs, hbd]
      simp [preDecl]
    · unfold postDecl normDecl preDecl
      simp [hcpost, hbd]
  | some bt =>
    rw [hbd] at hfb
    have hsb : ∀ x ∈ tyAdds false bt, x ∈ g.adds := by
      intro x hx; apply hsub; unfold typeParamAdds; rw [hbd]; simp [hx]
    obtain ⟨pre, hp1, hp2, _⟩ := (tyGood hg false bt hfb hsb).2.2 d (henv.mono hsb)
    refine ⟨cs, some pre, ?_, ?_⟩
    · unfold typeParamStmt
      simp only [convStmt, dottedName, hnt, bind, Except.bind, tyBaseName, matches_TypeVar, hcs, hbd,
        Option.map_some, hp1]
      simp [preDecl]
    · unfold postDecl normDecl preDecl
      simp [hcpost, hbd, hp2]

/-! ### aliases -/

theorem assign_type_expr {e : PyExpr} (h1 : isTypeExpr e = true) (h2 : e ≠ .none) :
    (∀ l, e ≠ .list l) ∧ e ≠ .emptyTuple ∧ e ≠ .ellipsis ∧ (∀ n, e ≠ .int n) ∧ (∀ s, e ≠ .str s) ∧
    (∀ b, e ≠ .bool b) := by
  cases e <;> simp [isTypeExpr] at h1 <;> simp

theorem alias_stmt {g : GCtx} (hg : GOK g) {a : Alias} (hf : fAlias g a = true)
    (hsub : ∀ x ∈ tyAdds false a.ty, x ∈ g.adds) {d : Defs} (henv : EnvOK g d g.adds) :
    ∃ pre, convStmt d [] (aliasStmt a) =
        .ok ({ d with typeMap := (a.name, pre) :: d.typeMap, aliases := (a.name, pre) :: d.aliases },
          [.alias { name := a.name, ty := pre }]) ∧
      postTy g.tps pre = normTy g.tps false a.ty ∧ AliasOK pre := by
  unfold fAlias at hf
  simp only [Bool.and_eq_true, Bool.not_eq_true', decide_eq_true_eq] at hf
  obtain ⟨⟨⟨_, hft⟩, hnone⟩, hsp⟩ := hf
  obtain ⟨_, hsl, hall⟩ := specialDecl_facts hsp
  obtain ⟨pre, hp1, hp2, hp3⟩ := (tyGood hg false a.ty hft hsub).2.2 d (henv.mono hsub)
  refine ⟨pre, ?_, hp2, hp3.2⟩
  unfold aliasStmt
  have hshape := tyExpr_shape false a.ty
  generalize tyExpr false a.ty = e at hp1 hnone hshape
  cases e <;> simp [isTypeExpr] at hshape <;>
    simp [convStmt, hsl, hall, hp1, bind, Except.bind] <;> exact absurd rfl hnone

end PytypeModel.Pytd
