import PytypeModel.Merge.MergePyi
import PytypeModel.Proofs.MergeStub

/-! C20 helper lemmas: where every inserted annotation comes from. -/
namespace PytypeModel.Merge

/-- `a` was looked up in the collected stub annotations under the name `qn` -/
def NamedSrc (E : Env) (qn : String) (slot : Slot) (a : Ann) : Prop :=
  (slot = .var ∧ ∃ x v, (qn, x) ∈ E.A.attrs ∧ a = quote E.globals v x) ∨
  (∃ ps sps sr x v, (fkeyOf qn ps, (sps, sr)) ∈ E.A.funcs ∧ stubSlot sps sr slot = some x ∧
    a = quote E.globals v x)

/-! ### parameters -/

theorem getElem?_of_drop {α : Type} : ∀ (l : List α) (i : Nat) (x : α) (r : List α),
    l.drop i = x :: r → l[i]? = some x ∧ l.drop (i + 1) = r := by
  intro l
  induction l with
  | nil => intro i x r h; simp at h
  | cons y ys ih =>
    intro i x r h
    cases i with
    | zero => simp at h; simp [h.1, h.2]
    | succ i => simp at h; simpa using ih i x r h

theorem ins_head (qf : Ann → Ann) (p : Param) (sa : Option Ann) (sl : Slot) :
    ∀ e ∈ newAnn sl p.ann (annotate qf p sa).ann, ∃ x, sa = some x ∧ e = (sl, qf x) := by
  intro e he
  unfold annotate at he
  cases hp : p.ann with
  | some b => simp [hp, newAnn] at he
  | none =>
    cases sa with
    | none => simp [hp, newAnn] at he
    | some x => simp [hp, newAnn] at he; exact ⟨x, rfl, he⟩

theorem ins_same (a : Option Ann) (sl : Slot) : newAnn sl a a = [] := by
  cases a <;> rfl

theorem inserted_updParams (qf : Ann → Ann) (sps : List Param) (sr : Option Ann) :
    ∀ (ps sPos sPo : List Param) (i j : Nat),
      sPos = (paramsOf .pos sps).drop i → sPo = (paramsOf .posonly sps).drop j →
      ∀ e ∈ insertedParams i j ps (updParams qf (paramsOf .kwonly sps) sPos sPo ps),
        ∃ x, stubSlot sps sr e.1 = some x ∧ e.2 = qf x := by
  intro ps
  induction ps with
  | nil => intro sPos sPo i j _ _ e he; simp [updParams, insertedParams] at he
  | cons p ps ih =>
    intro sPos sPo i j h1 h2 e he
    unfold updParams at he
    split at he
    · -- positional
      rename_i hk
      split at he
      · rename_i sp sPos'
        simp only [insertedParams, List.mem_append] at he
        have hd := getElem?_of_drop _ _ _ _ h1.symm
        rcases he with he | he
        · obtain ⟨x, hx, rfl⟩ := ins_head qf p sp.ann _ e he
          refine ⟨x, ?_, rfl⟩
          simp [slotOf, hk, stubSlot, hd.1, hx]
        · have : nextI p i = i + 1 := by simp [nextI, hk]
          rw [this] at he
          have hj : nextJ p j = j := by simp [nextJ, hk]
          rw [hj] at he
          exact ih sPos' sPo (i + 1) j hd.2.symm h2 e he
      · simp only [insertedParams] at he
        rw [ins_same, List.nil_append] at he
        have hj : nextJ p j = j := by simp [nextJ, hk]
        rw [hj] at he
        refine ih [] sPo (nextI p i) j ?_ h2 e he
        have : (paramsOf .pos sps).drop i = [] := h1.symm
        simp only [nextI, hk, if_true]
        rw [List.drop_eq_nil_iff] at this
        exact (List.drop_eq_nil_iff.mpr (by omega)).symm
    · -- positional-only
      rename_i hk
      split at he
      · rename_i sp sPo'
        simp only [insertedParams, List.mem_append] at he
        have hd := getElem?_of_drop _ _ _ _ h2.symm
        rcases he with he | he
        · obtain ⟨x, hx, rfl⟩ := ins_head qf p sp.ann _ e he
          refine ⟨x, ?_, rfl⟩
          simp [slotOf, hk, stubSlot, hd.1, hx]
        · have : nextJ p j = j + 1 := by simp [nextJ, hk]
          rw [this] at he
          have hi : nextI p i = i := by simp [nextI, hk]
          rw [hi] at he
          exact ih sPos sPo' i (j + 1) h1 hd.2.symm e he
      · simp only [insertedParams] at he
        rw [ins_same, List.nil_append] at he
        have hi : nextI p i = i := by simp [nextI, hk]
        rw [hi] at he
        refine ih sPos [] i (nextJ p j) h1 ?_ e he
        have : (paramsOf .posonly sps).drop j = [] := h2.symm
        simp only [nextJ, hk, if_true]
        rw [List.drop_eq_nil_iff] at this
        exact (List.drop_eq_nil_iff.mpr (by omega)).symm
    · -- keyword-only
      rename_i hk
      have hi : nextI p i = i := by simp [nextI, hk]
      have hj : nextJ p j = j := by simp [nextJ, hk]
      simp only [insertedParams, List.mem_append, hi, hj] at he
      rcases he with he | he
      · split at he
        · rename_i sp hf
          obtain ⟨x, hx, rfl⟩ := ins_head qf p sp.ann _ e he
          refine ⟨x, ?_, rfl⟩
          simp [slotOf, hk, stubSlot, hf, hx]
        · simp [ins_same] at he
      · exact ih sPos sPo i j h1 h2 e he
    · -- star parameters are never annotated
      rename_i hk1 hk2 hk3
      have hi : nextI p i = i := by simp [nextI]; intro h; exact absurd h hk1
      have hj : nextJ p j = j := by simp [nextJ]; intro h; exact absurd h hk2
      simp only [insertedParams] at he
      rw [ins_same, List.nil_append, hi, hj] at he
      exact ih sPos sPo i j h1 h2 e he

theorem insertedParams_self : ∀ (ps : List Param) (i j : Nat), insertedParams i j ps ps = [] := by
  intro ps
  induction ps with
  | nil => intro i j; rfl
  | cons p ps ih => intro i j; simp [insertedParams, ins_same, ih]

/-- everything `leave_FunctionDef` inserts was found under the key of the visitor's qualifier -/
theorem inserted_applyFunc (E : Env) (st : St) (n : String) (ps : List Param) (r : Option Ann) :
    ∀ e ∈ (newAnn .ret r (applyFunc E st n ps r).2 ++ insertedParams 0 0 ps (applyFunc E st n ps r).1),
      NamedSrc E (joinQ (st.qual ++ [n])) e.1 e.2 := by
  intro e he
  unfold applyFunc at he
  split at he
  · simp [insertedParams_self, ins_same] at he
  · rename_i sps sr hl
    have hmem := lookupLast_mem _ _ _ hl
    split at he
    · simp only [List.mem_append] at he
      rcases he with he | he
      · cases r with
        | some b => simp [newAnn] at he
        | none =>
          cases sr with
          | none => simp [newAnn] at he
          | some x =>
            simp [newAnn] at he
            subst he
            exact Or.inr ⟨ps, sps, some x, x, st.visited, hmem, rfl, rfl⟩
      · obtain ⟨x, hx, hq⟩ := inserted_updParams (quote E.globals st.visited) sps sr ps _ _ 0 0
          (by simp) (by simp) e he
        exact Or.inr ⟨ps, sps, sr, x, st.visited, hmem, hx, hq⟩
    · simp [insertedParams_self, ins_same] at he

/-! ### the ghost flag `leaked` only goes up; without a leak the qualifier is the true path -/

theorem recordTv_fields (st : St) (ts : List Target) (tv : Bool) :
    (recordTv st ts tv).leaked = st.leaked ∧ (recordTv st ts tv).qual = st.qual ∧
    (recordTv st ts tv).top = st.top ∧ (recordTv st ts tv).scopeTop = st.scopeTop ∧
    (recordTv st ts tv).visited = st.visited ∧ (recordTv st ts tv).already = st.already := by
  unfold recordTv
  split
  · split
    · split <;> simp
    · simp
  · simp

theorem addTop_fields (E : Env) (st : St) (n : String) :
    (addTop E st n).leaked = st.leaked ∧ (addTop E st n).qual = st.qual := by
  unfold addTop; split <;> simp

theorem addTops_fields (E : Env) : ∀ (l : List (Option String)) (st : St),
    (addTops E st l).leaked = st.leaked ∧ (addTops E st l).qual = st.qual := by
  intro l
  induction l with
  | nil => intro st; simp [addTops]
  | cons x xs ih =>
    intro st
    cases x with
    | none => simpa [addTops] using ih st
    | some s =>
      simp only [addTops]
      split
      · exact ih st
      · have := ih (addTop E st s)
        have h2 := addTop_fields E st s
        exact ⟨this.1.trans h2.1, this.2.trans h2.2⟩

theorem core_leaked (E : Env) (st : St) (ts : List Target) (v : Tok) (tv : Bool)
    (h : (applyAssignCore E st ts v tv).2.leaked = false) :
    st.leaked = false ∧ (applyAssignCore E st ts v tv).2.qual = st.qual := by
  unfold applyAssignCore at h ⊢
  split
  · split
    · split
      · rename_i h1 h2; simp only [h1] at h; rw [if_pos h2] at h; simp at h
      · rename_i h1 h2; simp only [h1] at h; rw [if_neg h2] at h; exact ⟨h, rfl⟩
    · rename_i h1; simp only [h1] at h; exact ⟨h, rfl⟩
  · simp only at h; rw [(addTops_fields ..).1] at h; exact ⟨h, (addTops_fields ..).2⟩
  · simp only at h; exact ⟨h, rfl⟩
  · simp only at h; rw [(addTops_fields ..).1] at h; exact ⟨h, (addTops_fields ..).2⟩

theorem assign_leaked (E : Env) (st : St) (ts : List Target) (v : Tok) (tv : Bool)
    (h : (applyAssign E st ts v tv).2.leaked = false) :
    st.leaked = false ∧ (applyAssign E st ts v tv).2.qual = st.qual := by
  unfold applyAssign at h ⊢
  have := core_leaked E _ ts v tv h
  have f := recordTv_fields st ts tv
  exact ⟨f.1 ▸ this.1, this.2.trans f.2.1⟩

theorem classDef_res (E : Env) (st : St) (n : String) (d : List Tok) (bs : List Ann) (b : List Stmt) :
    ∃ bs', (applyStmt E st (.classDef n d bs b)).1 =
        .classDef n d bs' (applyStmts E { st with qual := st.qual ++ [n] } b).1 ∧
      (applyStmt E st (.classDef n d bs b)).2.leaked =
        (applyStmts E { st with qual := st.qual ++ [n] } b).2.leaked ∧
      (applyStmt E st (.classDef n d bs b)).2.qual =
        (applyStmts E { st with qual := st.qual ++ [n] } b).2.qual.dropLast ∧
      (applyStmt E st (.classDef n d bs b)).2.top =
        (applyStmts E { st with qual := st.qual ++ [n] } b).2.top ∧
      (applyStmt E st (.classDef n d bs b)).2.scopeTop =
        (applyStmts E { st with qual := st.qual ++ [n] } b).2.scopeTop := by
  simp only [applyStmt]
  split
  · split
    · exact ⟨_, rfl, rfl, rfl, rfl, rfl⟩
    · exact ⟨_, rfl, rfl, rfl, rfl, rfl⟩
  · exact ⟨_, rfl, rfl, rfl, rfl, rfl⟩

mutual
theorem leaked_mono (E : Env) : ∀ (s : Stmt) (st : St),
    (applyStmt E st s).2.leaked = false → st.leaked = false
  | .funcDef n d ps r b, st, h => by simpa [applyStmt] using h
  | .classDef n d bs b, st, h => by
    obtain ⟨_, _, hl, _⟩ := classDef_res E st n d bs b
    rw [hl] at h
    simpa using leaked_monoL E b _ h
  | .assign ts v tv, st, h => by
    simp only [applyStmt] at h
    exact (assign_leaked E st ts v tv h).1
  | .block hd b, st, h => by
    simp only [applyStmt] at h
    exact leaked_monoL E b st h
  | .annAssign t a v, st, h => by simpa [applyStmt] using h
  | .other t, st, h => by simpa [applyStmt] using h
  | .importFrom m ns, st, h => by simpa [applyStmt] using h
  | .importMod m, st, h => by simpa [applyStmt] using h
theorem leaked_monoL (E : Env) : ∀ (ss : List Stmt) (st : St),
    (applyStmts E st ss).2.leaked = false → st.leaked = false
  | [], st, h => by simpa [applyStmts] using h
  | s :: ss, st, h => by
    simp only [applyStmts] at h
    exact leaked_mono E s st (leaked_monoL E ss _ h)
end

mutual
theorem qual_kept (E : Env) : ∀ (s : Stmt) (st : St),
    (applyStmt E st s).2.leaked = false → (applyStmt E st s).2.qual = st.qual
  | .funcDef n d ps r b, st, h => by simp [applyStmt]
  | .classDef n d bs b, st, h => by
    obtain ⟨_, _, hl, hq, _⟩ := classDef_res E st n d bs b
    rw [hl] at h
    rw [hq, qual_keptL E b _ h]
    simp
  | .assign ts v tv, st, h => by
    simp only [applyStmt] at h ⊢
    exact (assign_leaked E st ts v tv h).2
  | .block hd b, st, h => by
    simp only [applyStmt] at h ⊢
    exact qual_keptL E b st h
  | .annAssign t a v, st, h => by simp [applyStmt]
  | .other t, st, h => by simp [applyStmt]
  | .importFrom m ns, st, h => by simp [applyStmt]
  | .importMod m, st, h => by simp [applyStmt]
theorem qual_keptL (E : Env) : ∀ (ss : List Stmt) (st : St),
    (applyStmts E st ss).2.leaked = false → (applyStmts E st ss).2.qual = st.qual
  | [], st, h => by simp [applyStmts]
  | s :: ss, st, h => by
    simp only [applyStmts] at h ⊢
    have h1 := leaked_monoL E ss _ h
    rw [qual_keptL E ss _ h, qual_kept E s st h1]
end

/-! ### every inserted annotation was looked up under the definition's own qualified name -/

mutual
theorem insertedS_self : ∀ (s : Stmt) (q : List String), insertedS q s s = []
  | .funcDef n d ps r b, q => by
    simp [insertedS, ins_same, insertedParams_self, insertedL_self b, tag]
  | .classDef n d bs b, q => by simp [insertedS, insertedL_self b]
  | .block hd b, q => by simp [insertedS, insertedL_self b]
  | .assign ts v tv, q => by simp [insertedS]
  | .annAssign t a v, q => by simp [insertedS]
  | .other t, q => by simp [insertedS]
  | .importFrom m ns, q => by simp [insertedS]
  | .importMod m, q => by simp [insertedS]
theorem insertedL_self : ∀ (ss : List Stmt) (q : List String), insertedL q ss ss = []
  | [], q => by simp [insertedL]
  | s :: ss, q => by simp [insertedL, insertedS_self s, insertedL_self ss]
end

/-- what the theorems need about one inserted entry `e` -/
def EntryOK (E : Env) (qual q : List String) (noLeak : Prop) (e : String × Slot × Ann) : Prop :=
  ∃ qn', NamedSrc E qn' e.2.1 e.2.2 ∧ (qual = q → noLeak → qn' = e.1)

theorem inserted_assign (E : Env) (st : St) (ts : List Target) (v : Tok) (tv : Bool) (q : List String) :
    ∀ e ∈ insertedS q (.assign ts v tv) (applyAssign E st ts v tv).1,
      EntryOK E st.qual q ((applyAssign E st ts v tv).2.leaked = false) e := by
  intro e he
  unfold applyAssign applyAssignCore at he
  have f := recordTv_fields st ts tv
  split at he
  · rename_i s
    split at he
    · rename_i a ha
      split at he
      · simp [insertedS] at he
      · simp only [insertedS, List.mem_singleton] at he
        subst he
        refine ⟨joinQ ((recordTv st [Target.name s] tv).qual ++ [s]),
          Or.inl ⟨rfl, a, (recordTv st [Target.name s] tv).visited, lookupLast_mem _ _ _ ha, rfl⟩, ?_⟩
        intro hq _
        simp [f.2.1, hq, tname, Target.fullName]
    · simp [insertedS] at he
  · simp [insertedS] at he
  · simp [insertedS] at he
  · simp [insertedS] at he

mutual
theorem inserted_apply (E : Env) : ∀ (s : Stmt) (st : St) (q : List String),
    ∀ e ∈ insertedS q s (applyStmt E st s).1,
      EntryOK E st.qual q ((applyStmt E st s).2.leaked = false) e
  | .funcDef n d ps r b, st, q, e, he => by
    simp only [applyStmt, insertedS, insertedL_self, List.append_nil, tag, List.mem_map] at he
    obtain ⟨x, hx, rfl⟩ := he
    refine ⟨_, inserted_applyFunc E st n ps r x hx, ?_⟩
    intro hq _
    simp [hq]
  | .classDef n d bs b, st, q, e, he => by
    obtain ⟨bs', hr, hl, _⟩ := classDef_res E st n d bs b
    rw [hr] at he
    simp only [insertedS] at he
    obtain ⟨qn', h1, h2⟩ := inserted_applyL E b { st with qual := st.qual ++ [n] } (q ++ [n]) e he
    refine ⟨qn', h1, ?_⟩
    intro hq hlk
    rw [hl] at hlk
    exact h2 (by simp [hq]) hlk
  | .assign ts v tv, st, q, e, he => by
    simp only [applyStmt] at he ⊢
    exact inserted_assign E st ts v tv q e he
  | .block hd b, st, q, e, he => by
    simp only [applyStmt, insertedS] at he ⊢
    exact inserted_applyL E b st q e he
  | .annAssign t a v, st, q, e, he => by simp [applyStmt, insertedS] at he
  | .other t, st, q, e, he => by simp [applyStmt, insertedS] at he
  | .importFrom m ns, st, q, e, he => by simp [applyStmt, insertedS] at he
  | .importMod m, st, q, e, he => by simp [applyStmt, insertedS] at he
theorem inserted_applyL (E : Env) : ∀ (ss : List Stmt) (st : St) (q : List String),
    ∀ e ∈ insertedL q ss (applyStmts E st ss).1,
      EntryOK E st.qual q ((applyStmts E st ss).2.leaked = false) e
  | [], st, q, e, he => by simp [applyStmts, insertedL] at he
  | s :: ss, st, q, e, he => by
    simp only [applyStmts, insertedL, List.mem_append] at he ⊢
    rcases he with he | he
    · obtain ⟨qn', h1, h2⟩ := inserted_apply E s st q e he
      exact ⟨qn', h1, fun hq hl => h2 hq (leaked_monoL E ss _ hl)⟩
    · obtain ⟨qn', h1, h2⟩ := inserted_applyL E ss (applyStmt E st s).2 q e he
      refine ⟨qn', h1, fun hq hl => h2 ?_ hl⟩
      rw [qual_kept E s st (leaked_monoL E ss _ hl), hq]
end

/-! ### the declarations recorded for the module top -/

def TopInv (E : Env) (st : St) : Prop :=
  ∀ p ∈ st.top, ∃ qn', (qn', p.2) ∈ E.A.attrs ∧ (st.scopeTop = false → qn' = joinQ ([] ++ [p.1]))

theorem TopInv_congr (E : Env) {st st' : St} (h1 : st'.top = st.top) (h2 : st'.scopeTop = st.scopeTop)
    (h : TopInv E st) : TopInv E st' := by
  intro p hp
  rw [h1] at hp
  obtain ⟨qn', a, b⟩ := h p hp
  exact ⟨qn', a, fun hs => b (h2 ▸ hs)⟩

theorem mem_dictSet {β : Type} : ∀ (l : List (String × β)) (k : String) (v : β) (p : String × β),
    p ∈ dictSet l k v → p ∈ l ∨ p = (k, v) := by
  intro l
  induction l with
  | nil => intro k v p h; simp [dictSet] at h; exact Or.inr h
  | cons x xs ih =>
    intro k v p h
    obtain ⟨k', v'⟩ := x
    simp only [dictSet] at h
    split at h
    · simp only [List.mem_cons] at h
      rcases h with h | h
      · exact Or.inr h
      · exact Or.inl (List.mem_cons_of_mem _ h)
    · simp only [List.mem_cons] at h
      rcases h with h | h
      · exact Or.inl (h ▸ List.mem_cons_self)
      · rcases ih k v p h with h | h
        · exact Or.inl (List.mem_cons_of_mem _ h)
        · exact Or.inr h

theorem addTop_inv (E : Env) (st : St) (n : String) (h : TopInv E st) : TopInv E (addTop E st n) := by
  unfold addTop
  split
  · rename_i a ha
    intro p hp
    simp only at hp
    rcases mem_dictSet _ _ _ _ hp with hp | hp
    · obtain ⟨qn', x, y⟩ := h p hp
      refine ⟨qn', x, fun hs => y ?_⟩
      simp only [Bool.or_eq_false_iff] at hs
      exact hs.1
    · subst hp
      refine ⟨_, lookupLast_mem _ _ _ ha, fun hs => ?_⟩
      simp only [Bool.or_eq_false_iff, Bool.not_eq_false', List.isEmpty_iff] at hs
      rw [hs.2]
  · exact h

theorem addTops_inv (E : Env) : ∀ (l : List (Option String)) (st : St),
    TopInv E st → TopInv E (addTops E st l) := by
  intro l
  induction l with
  | nil => intro st h; exact h
  | cons x xs ih =>
    intro st h
    cases x with
    | none => exact ih st h
    | some s =>
      simp only [addTops]
      split
      · exact ih st h
      · exact ih _ (addTop_inv E st s h)

theorem assign_inv (E : Env) (st : St) (ts : List Target) (v : Tok) (tv : Bool) (h : TopInv E st) :
    TopInv E (applyAssign E st ts v tv).2 := by
  have f := recordTv_fields st ts tv
  have h' : TopInv E (recordTv st ts tv) := TopInv_congr E f.2.2.1 f.2.2.2.1 h
  unfold applyAssign applyAssignCore
  split
  · split
    · split
      · exact TopInv_congr E rfl rfl h'
      · exact TopInv_congr E rfl rfl h'
    · exact h'
  · exact addTops_inv E _ _ h'
  · exact h'
  · exact addTops_inv E _ _ h'

mutual
theorem top_inv (E : Env) : ∀ (s : Stmt) (st : St), TopInv E st → TopInv E (applyStmt E st s).2
  | .funcDef n d ps r b, st, h => by
    simp only [applyStmt]
    exact TopInv_congr E rfl rfl h
  | .classDef n d bs b, st, h => by
    obtain ⟨_, _, _, _, ht, hs⟩ := classDef_res E st n d bs b
    exact TopInv_congr E ht hs (top_invL E b _ (TopInv_congr E rfl rfl h))
  | .assign ts v tv, st, h => by
    simp only [applyStmt]
    exact assign_inv E st ts v tv h
  | .block hd b, st, h => by
    simp only [applyStmt]
    exact top_invL E b st h
  | .annAssign t a v, st, h => by simpa [applyStmt] using h
  | .other t, st, h => by simpa [applyStmt] using h
  | .importFrom m ns, st, h => by simpa [applyStmt] using h
  | .importMod m, st, h => by simpa [applyStmt] using h
theorem top_invL (E : Env) : ∀ (ss : List Stmt) (st : St), TopInv E st → TopInv E (applyStmts E st ss).2
  | [], st, h => by simpa [applyStmts] using h
  | s :: ss, st, h => by
    simp only [applyStmts]
    exact top_invL E ss _ (top_inv E s st h)
end

end PytypeModel.Merge
