import PytypeModel.Proofs.Mro

/-! Hierarchy-level lemmas for C10: the MRO tables of pytype (`compute_mro`) and of CPython
(`mro_implementation`) coincide on well-formed hierarchies with duplicate-free base lists;
stub classes (`_ComputeMRO`/`GetBasesInMRO`) get the same MROs. -/
namespace PytypeModel.Mro

abbrev bad : Res Nat := .error .badBase

/-- what is true of every stored MRO: duplicate-free, starts with the class itself, mentions
only that class and earlier ones -/
def TblInv (tbl : Table) : Prop :=
  ∀ j m, tbl.getD j bad = .ok m → m.Nodup ∧ m.head? = some j ∧ ∀ x ∈ m, x ≤ j

theorem tblInv_nil : TblInv [] := by
  intro j m h
  simp [bad] at h

theorem getD_append_lt {β : Type} (l l' : List β) (d : β) (i : Nat) (h : i < l.length) :
    (l ++ l').getD i d = l.getD i d := by
  simp [List.getD_eq_getElem?_getD, List.getElem?_append_left h]

theorem getD_append_len {β : Type} (l l' : List β) (d : β) :
    (l ++ l').getD l.length d = l'.getD 0 d := by
  simp [List.getD_eq_getElem?_getD, List.getElem?_append_right (Nat.le_refl l.length)]

theorem getD_of_ge {β : Type} (l : List β) (d : β) (i : Nat) (h : l.length ≤ i) :
    l.getD i d = d := by
  simp [List.getD_eq_getElem?_getD, List.getElem?_eq_none h]

theorem getD_ok_lt (tbl : Table) (j : Nat) (m : List Nat) (h : tbl.getD j bad = .ok m) :
    j < tbl.length := by
  rcases Nat.lt_or_ge j tbl.length with hlt | hge
  · exact hlt
  · rw [getD_of_ge _ _ _ hge] at h
    simp [bad] at h

theorem lookupBases_mem (tbl : Table) (bs : List Nat) (ms : List (List Nat))
    (h : lookupBases tbl bs = some ms) :
    ∀ m ∈ ms, ∃ b ∈ bs, tbl.getD b bad = .ok m := by
  induction bs generalizing ms with
  | nil =>
    simp [lookupBases] at h
    subst h
    intro m hm; cases hm
  | cons b bs ih =>
    rw [lookupBases] at h
    split at h
    · rename_i m ms' hm hms
      injection h with h
      subst h
      intro m' hm'
      rcases List.mem_cons.1 hm' with e | e
      · subst e; exact ⟨b, List.mem_cons_self, hm⟩
      · obtain ⟨b', hb', hr⟩ := ih ms' hms m' e
        exact ⟨b', List.mem_cons_of_mem _ hb', hr⟩
    · cases h

theorem lookupBases_single (tbl : Table) (b : Nat) (m : List Nat)
    (h : lookupBases tbl [b] = some [m]) : tbl.getD b bad = .ok m := by
  obtain ⟨b', hb', hr⟩ := lookupBases_mem tbl [b] [m] h m List.mem_cons_self
  simp at hb'
  subst hb'
  exact hr

/-- facts about the sequences handed to the merge for a new class `n` -/
theorem merge_input_facts (tbl : Table) (hinv : TblInv tbl) (n : Nat) (bs : List Nat)
    (hlt : ∀ b ∈ bs, b < n) (hnd : bs.Nodup) (ms : List (List Nat))
    (hl : lookupBases tbl bs = some ms) :
    NodupAll (ms ++ [bs]) ∧ ∀ s ∈ ms ++ [bs], ∀ x ∈ s, x < n := by
  have hf := lookupBases_mem tbl bs ms hl
  constructor
  · intro s hs
    rcases List.mem_append.1 hs with h | h
    · obtain ⟨b, _, hb⟩ := hf s h
      exact (hinv b s hb).1
    · simp at h; subst h; exact hnd
  · intro s hs x hx
    rcases List.mem_append.1 hs with h | h
    · obtain ⟨b, hbm, hb⟩ := hf s h
      have := (hinv b s hb).2.2 x hx
      have := hlt b hbm
      omega
    · simp at h; subst h; exact hlt x hx

/-- `compute_mro` and `mro_implementation` give the same answer for one new class -/
theorem class_eq (tbl : Table) (hinv : TblInv tbl) (n : Nat) (bs : List Nat)
    (hlt : ∀ b ∈ bs, b < n) (hnd : bs.Nodup) :
    pyClassMro tbl n bs = cClassMro tbl n bs := by
  unfold pyClassMro cClassMro
  cases hl : lookupBases tbl bs with
  | none => rfl
  | some ms =>
    obtain ⟨hndall, hltall⟩ := merge_input_facts tbl hinv n bs hlt hnd ms hl
    have hfresh : ∀ s ∈ ms ++ [bs], n ∉ s := fun s hs hn => Nat.lt_irrefl n (hltall s hs n hn)
    have hpy : mroMerge (fun _ => false) ([[n]] ++ ms ++ [bs]) = consRes n (pmerge (ms ++ [bs])) := by
      have hnd' : NodupAll ([n] :: (ms ++ [bs])) := by
        intro s hs
        rcases List.mem_cons.1 hs with e | e
        · subst e; simp
        · exact hndall s e
      have : [[n]] ++ ms ++ [bs] = [n] :: (ms ++ [bs]) := by simp
      rw [this, mroMerge_eq_pmerge _ _ hnd' (fun _ _ _ _ => rfl)]
      exact pmerge_cons_fresh n _ hfresh
    simp only
    rw [hpy]
    split
    · -- fast path: one base
      rename_i m b
      have hb := lookupBases_single tbl b m hl
      obtain ⟨hmnd, hhead, _⟩ := hinv b m hb
      cases m with
      | nil => simp at hhead
      | cons x m' =>
        simp at hhead
        subst hhead
        show consRes n (pmerge [x :: m', [x]]) = _
        rw [pmerge_single x m' hmnd]
        rfl
    · rw [if_neg (by simpa using hnd)]

theorem cClassMro_ok (tbl : Table) (hinv : TblInv tbl) (n : Nat) (bs : List Nat)
    (hlt : ∀ b ∈ bs, b < n) (m' : List Nat) (h : cClassMro tbl n bs = .ok m') :
    ∃ r, m' = n :: r ∧ r.Nodup ∧ ∀ x ∈ r, x < n := by
  unfold cClassMro at h
  cases hl : lookupBases tbl bs with
  | none => rw [hl] at h; cases h
  | some ms =>
    rw [hl] at h
    simp only at h
    have hf := lookupBases_mem tbl bs ms hl
    split at h
    · rename_i m b
      injection h with h
      have hb := lookupBases_single tbl b m hl
      obtain ⟨hmnd, _, hle⟩ := hinv b m hb
      refine ⟨m, h.symm, hmnd, ?_⟩
      intro x hx
      have := hle x hx
      have := hlt b List.mem_cons_self
      omega
    · split at h
      · cases h
      · cases hr : pmerge (ms ++ [bs]) with
        | error e => rw [hr] at h; cases h
        | ok r =>
          rw [hr] at h
          simp only [consRes] at h
          injection h with h
          refine ⟨r, h.symm, cMergeFuel_nodup _ _ r hr, ?_⟩
          intro x hx
          obtain ⟨s, hs, hxs⟩ := cMergeFuel_mem _ _ r hr x hx
          rcases List.mem_append.1 hs with hm | hm
          · obtain ⟨b, hbm, hb⟩ := hf s hm
            have := (hinv b s hb).2.2 x hxs
            have := hlt b hbm
            omega
          · simp at hm; subst hm; exact hlt x hxs

theorem tblInv_step (tbl : Table) (hinv : TblInv tbl) (bs : List Nat)
    (hlt : ∀ b ∈ bs, b < tbl.length) : TblInv (tbl ++ [cClassMro tbl tbl.length bs]) := by
  intro j m hj
  rcases Nat.lt_trichotomy j tbl.length with hlt' | heq | hgt
  · rw [getD_append_lt _ _ _ _ hlt'] at hj
    exact hinv j m hj
  · subst heq
    rw [getD_append_len] at hj
    simp at hj
    obtain ⟨r, rfl, hnd, hx⟩ := cClassMro_ok tbl hinv _ bs hlt m hj
    refine ⟨List.nodup_cons.2 ⟨fun h => Nat.lt_irrefl _ (hx _ h), hnd⟩, rfl, ?_⟩
    intro x hx'
    rcases List.mem_cons.1 hx' with e | e
    · omega
    · exact Nat.le_of_lt (hx x e)
  · have := getD_ok_lt _ j m hj
    simp at this
    omega

theorem wfFrom_cons (n : Nat) (bs : List Nat) (rest : Hier) (h : wfFrom n (bs :: rest) = true) :
    (∀ b ∈ bs, b < n) ∧ wfFrom (n + 1) rest = true := by
  simp only [wfFrom, Bool.and_eq_true, List.all_eq_true, decide_eq_true_eq] at h
  exact h

/-- the two tables coincide (and keep the invariant) -/
theorem buildTable_eq (H : Hier) (tbl : Table) (hinv : TblInv tbl)
    (hwf : wfFrom tbl.length H = true) (hnd : nodupBases H = true) :
    buildTable pyClassMro tbl H = buildTable cClassMro tbl H ∧
    TblInv (buildTable cClassMro tbl H) := by
  induction H generalizing tbl with
  | nil => exact ⟨rfl, hinv⟩
  | cons bs rest ih =>
    obtain ⟨hlt, hwf'⟩ := wfFrom_cons _ bs rest hwf
    simp only [nodupBases, List.all_cons, Bool.and_eq_true, decide_eq_true_eq] at hnd
    rw [buildTable, buildTable, class_eq tbl hinv _ bs hlt hnd.1]
    have hinv' := tblInv_step tbl hinv bs hlt
    have hlen : (tbl ++ [cClassMro tbl tbl.length bs]).length = tbl.length + 1 := by simp
    exact ih _ hinv' (by rw [hlen]; exact hwf') (by simpa [nodupBases] using hnd.2)

theorem tables_eq (H : Hier) (hwf : wfHier H = true) (hnd : nodupBases H = true) :
    pyMroTable H = cMroTable H :=
  (buildTable_eq H [] tblInv_nil hwf hnd).1

theorem cMroTable_inv (H : Hier) (hwf : wfHier H = true) (hnd : nodupBases H = true) :
    TblInv (cMroTable H) :=
  (buildTable_eq H [] tblInv_nil hwf hnd).2

/-! ### attribute lookup -/

theorem pyLookupIn_eq (defs : Nat → Nat → Bool) (a : Nat) (mro : List Nat) :
    pyLookupIn defs a mro = cLookupIn defs a mro := by
  induction mro with
  | nil => rfl
  | cons c rest ih =>
    unfold pyLookupIn cLookupIn
    rw [List.find?_cons]
    cases h : defs c a
    · simp only [Bool.false_eq_true, if_false]; exact ih
    · simp

/-! ### lookups through super() -/

theorem pyLookupSkip_of_disjoint (defs : Nat → Nat → Bool) (a : Nat) (skip l : List Nat)
    (h : ∀ x ∈ l, x ∉ skip) : pyLookupSkip defs a skip l = pyLookupIn defs a l := by
  induction l with
  | nil => rfl
  | cons c rest ih =>
    rw [pyLookupSkip, pyLookupIn, if_neg (h c List.mem_cons_self),
      ih (fun x hx => h x (List.mem_cons_of_mem _ hx))]

theorem pyLookupSkip_cons_not_mem (defs : Nat → Nat → Bool) (a c : Nat) (S l : List Nat)
    (h : c ∉ l) : pyLookupSkip defs a (c :: S) l = pyLookupSkip defs a S l := by
  induction l with
  | nil => rfl
  | cons x rest ih =>
    have hx : x ≠ c := fun e => h (by simp [e])
    have hr : c ∉ rest := fun hm => h (List.mem_cons_of_mem _ hm)
    rw [pyLookupSkip, pyLookupSkip, ih hr]
    simp only [List.mem_cons, hx, false_or]

/-- on a duplicate-free MRO, skipping the *set* of classes up to `cur` is continuing *after*
the position of `cur` -/
theorem super_walk_eq (defs : Nat → Nat → Bool) (a cur : Nat) (m : List Nat) (hm : m.Nodup) :
    pyLookupSkip defs a (pySkipSet cur m) m = cLookupIn defs a (dropThrough cur m) := by
  induction m with
  | nil => rfl
  | cons c rest ih =>
    have hc : c ∉ rest := (List.nodup_cons.1 hm).1
    rw [pySkipSet, dropThrough]
    by_cases hcc : c = cur
    · rw [if_pos hcc, if_pos hcc, pyLookupSkip, if_pos List.mem_cons_self,
        pyLookupSkip_of_disjoint defs a [c] rest (fun x hx hmem => by
          simp at hmem; subst hmem; exact hc hx)]
      exact pyLookupIn_eq defs a rest
    · rw [if_neg hcc, if_neg hcc, pyLookupSkip, if_pos List.mem_cons_self,
        pyLookupSkip_cons_not_mem defs a c _ rest hc]
      exact ih (List.nodup_cons.1 hm).2

/-! ### the table entry of a class is the step function applied to the final table -/

theorem buildTable_prefix (step : Table → Nat → List Nat → Res Nat) (H : Hier) (tbl : Table) :
    ∃ ext, buildTable step tbl H = tbl ++ ext ∧ ext.length = H.length := by
  induction H generalizing tbl with
  | nil => exact ⟨[], by simp [buildTable], rfl⟩
  | cons bs rest ih =>
    obtain ⟨ext, he, hl⟩ := ih (tbl ++ [step tbl tbl.length bs])
    refine ⟨step tbl tbl.length bs :: ext, ?_, by simp [hl]⟩
    rw [buildTable, he]
    simp

theorem lookupBases_append (tbl ext : Table) (bs : List Nat) (h : ∀ b ∈ bs, b < tbl.length) :
    lookupBases (tbl ++ ext) bs = lookupBases tbl bs := by
  induction bs with
  | nil => rfl
  | cons b bs ih =>
    rw [lookupBases, lookupBases, ih (fun x hx => h x (List.mem_cons_of_mem _ hx)),
      getD_append_lt _ _ _ _ (h b List.mem_cons_self)]

theorem pyMroTable_entry (H : Hier) (tbl : Table) (hwf : wfFrom tbl.length H = true) (k : Nat)
    (hk : k < H.length) :
    (buildTable pyClassMro tbl H).getD (tbl.length + k) bad =
      pyClassMro (buildTable pyClassMro tbl H) (tbl.length + k) (H.getD k []) := by
  induction H generalizing tbl k with
  | nil => simp at hk
  | cons bs rest ih =>
    obtain ⟨hlt, hwf'⟩ := wfFrom_cons _ bs rest hwf
    have hlen : (tbl ++ [pyClassMro tbl tbl.length bs]).length = tbl.length + 1 := by simp
    cases k with
    | zero =>
      rw [buildTable]
      obtain ⟨ext, he, _⟩ := buildTable_prefix pyClassMro rest (tbl ++ [pyClassMro tbl tbl.length bs])
      rw [he]
      simp only [Nat.add_zero, List.getD_cons_zero]
      rw [List.append_assoc, getD_append_len]
      simp only [List.singleton_append, List.getD_cons_zero]
      unfold pyClassMro
      rw [lookupBases_append tbl _ bs hlt]
    | succ k =>
      rw [buildTable]
      have := ih (tbl ++ [pyClassMro tbl tbl.length bs]) (by rw [hlen]; exact hwf') k
        (by simp at hk; omega)
      rw [hlen] at this
      have hidx : tbl.length + (k + 1) = tbl.length + 1 + k := by omega
      rw [hidx]
      simpa using this

theorem wfFrom_getD (n : Nat) (H : Hier) (hwf : wfFrom n H = true) (k : Nat) :
    ∀ b ∈ H.getD k [], b < n + k := by
  induction H generalizing n k with
  | nil => intro b hb; simp at hb
  | cons bs rest ih =>
    obtain ⟨hlt, hwf'⟩ := wfFrom_cons _ bs rest hwf
    cases k with
    | zero => simpa using hlt
    | succ k =>
      intro b hb
      have := ih (n + 1) hwf' k b (by simpa using hb)
      omega

/-! ### stub classes -/

theorem mapE_lookup (tbl : Table) (f : Nat → Res Nat) (bs : List Nat)
    (h : ∀ b ∈ bs, (f b).toOption = (tbl.getD b bad).toOption) :
    (mapE f bs).toOption = lookupBases tbl bs := by
  induction bs with
  | nil => rfl
  | cons b bs ih =>
    have hb := h b List.mem_cons_self
    have ht := ih (fun x hx => h x (List.mem_cons_of_mem _ hx))
    rw [mapE, lookupBases]
    cases hfb : f b with
    | error e =>
      rw [hfb] at hb
      cases hg : tbl.getD b bad with
      | error e' => rfl
      | ok m => rw [hg] at hb; simp [Except.toOption] at hb
    | ok y =>
      rw [hfb] at hb
      cases hg : tbl.getD b bad with
      | error e' => rw [hg] at hb; simp [Except.toOption] at hb
      | ok m =>
        rw [hg] at hb
        simp only [Except.toOption, Option.some.injEq] at hb
        subst hb
        cases hm : mapE f bs with
        | error e =>
          rw [hm] at ht
          simp only [Except.toOption] at ht
          rw [← ht]
          rfl
        | ok ys =>
          rw [hm] at ht
          simp only [Except.toOption] at ht
          rw [← ht]
          rfl

/-- `_ComputeMRO` on stub classes computes the MRO `compute_mro` stores for the same class -/
theorem stubMro_eq (H : Hier) (hwf : wfHier H = true) (t : Nat) :
    ∀ (f : Nat) (inprog : List Nat), t < f → t < H.length → (∀ x ∈ inprog, t < x) →
      (stubMro H f inprog t).toOption = (computeMro H t).toOption := by
  induction t using Nat.strongRecOn with
  | _ t ih =>
    intro f inprog hf hlen hin
    cases f with
    | zero => omega
    | succ f =>
      have hnot : t ∉ inprog := fun h => Nat.lt_irrefl t (hin t h)
      have hbs : ∀ b ∈ H.getD t [], b < t := by
        have := wfFrom_getD 0 H hwf t
        simpa using this
      have hentry := pyMroTable_entry H [] hwf t hlen
      simp only [List.length_nil, Nat.zero_add] at hentry
      have hmap := mapE_lookup (pyMroTable H) (fun b => stubMro H f (t :: inprog) b) (H.getD t [])
        (by
          intro b hb
          have hbt := hbs b hb
          refine ih b hbt f (t :: inprog) (by omega) (by omega) ?_
          intro x hx
          rcases List.mem_cons.1 hx with e | e
          · omega
          · have := hin x e; omega)
      have hpy : computeMro H t = (match lookupBases (pyMroTable H) (H.getD t []) with
            | none => Except.error MroError.badBase
            | some ms => mroMerge (fun _ => false) ([[t]] ++ ms ++ [H.getD t []])) := hentry
      rw [hpy, ← hmap, stubMro, if_neg hnot]
      simp only
      cases mapE (fun b => stubMro H f (t :: inprog) b) (H.getD t []) with
      | error e => rfl
      | ok ms => rfl

theorem nodupBases_getD (H : Hier) (hnd : nodupBases H = true) (k : Nat) : (H.getD k []).Nodup := by
  rcases Nat.lt_or_ge k H.length with h | h
  · have hm : H.getD k [] ∈ H := by
      rw [List.getD_eq_getElem?_getD, List.getElem?_eq_getElem h]
      exact List.getElem_mem h
    simp only [nodupBases, List.all_eq_true, decide_eq_true_eq] at hnd
    exact hnd _ hm
  · rw [getD_of_ge _ _ _ h]
    exact List.nodup_nil

/-- the merge `compute_mro` performs, expressed through `pmerge` -/
theorem pyClassMro_some (tbl : Table) (hinv : TblInv tbl) (n : Nat) (bs : List Nat)
    (hlt : ∀ b ∈ bs, b < n) (hnd : bs.Nodup) (ms : List (List Nat))
    (hl : lookupBases tbl bs = some ms) :
    pyClassMro tbl n bs = consRes n (pmerge (ms ++ [bs])) ∧
    mroMerge (fun _ => false) (ms ++ [bs]) = pmerge (ms ++ [bs]) := by
  obtain ⟨hndall, hltall⟩ := merge_input_facts tbl hinv n bs hlt hnd ms hl
  have hfresh : ∀ s ∈ ms ++ [bs], n ∉ s := fun s hs hn => Nat.lt_irrefl n (hltall s hs n hn)
  constructor
  · unfold pyClassMro
    rw [hl]
    simp only
    have hnd' : NodupAll ([n] :: (ms ++ [bs])) := by
      intro s hs
      rcases List.mem_cons.1 hs with e | e
      · subst e; simp
      · exact hndall s e
    have : [[n]] ++ ms ++ [bs] = [n] :: (ms ++ [bs]) := by simp
    rw [this, mroMerge_eq_pmerge _ _ hnd' (fun _ _ _ _ => rfl)]
    exact pmerge_cons_fresh n _ hfresh
  · exact mroMerge_eq_pmerge _ _ hndall (fun _ _ _ _ => rfl)

/-- `GetBasesInMRO(cls)` is CPython's `cls.__mro__[1:]` (and fails exactly when class creation
fails), for classes of a well-formed hierarchy with duplicate-free base lists -/
theorem getBasesInMro_eq (H : Hier) (hwf : wfHier H = true) (hnd : nodupBases H = true)
    (c : Nat) (hc : c < H.length) :
    (getBasesInMro H (H.getD c [])).toOption.map (fun r => c :: r) =
      (cpythonMro H c).toOption := by
  have hbs : ∀ b ∈ H.getD c [], b < c := by
    have := wfFrom_getD 0 H hwf c
    simpa using this
  have hmap := mapE_lookup (pyMroTable H) (fun b => stubMro H (H.length + 1) [] b) (H.getD c [])
    (by
      intro b hb
      have := hbs b hb
      exact stubMro_eq H hwf b _ [] (by omega) (by omega) (fun x hx => by cases hx))
  have hentry := pyMroTable_entry H [] hwf c hc
  simp only [List.length_nil, Nat.zero_add] at hentry
  have hcp : cpythonMro H c = pyClassMro (pyMroTable H) c (H.getD c []) := by
    unfold cpythonMro
    rw [← tables_eq H hwf hnd]
    exact hentry
  have hinv : TblInv (pyMroTable H) := by
    rw [tables_eq H hwf hnd]; exact cMroTable_inv H hwf hnd
  rw [hcp]
  unfold getBasesInMro
  cases hl : lookupBases (pyMroTable H) (H.getD c []) with
  | none =>
    rw [hl] at hmap
    cases hm : mapE (fun b => stubMro H (H.length + 1) [] b) (H.getD c []) with
    | ok ms => rw [hm] at hmap; simp [Except.toOption] at hmap
    | error e =>
      simp only [pyClassMro, hl]
      rfl
  | some ms =>
    rw [hl] at hmap
    obtain ⟨h1, h2⟩ := pyClassMro_some (pyMroTable H) hinv c (H.getD c []) hbs
      (nodupBases_getD H hnd c) ms hl
    cases hm : mapE (fun b => stubMro H (H.length + 1) [] b) (H.getD c []) with
    | error e => rw [hm] at hmap; simp [Except.toOption] at hmap
    | ok ms' =>
      rw [hm] at hmap
      simp only [Except.toOption, Option.some.injEq] at hmap
      subst hmap
      simp only
      rw [h1, h2]
      cases pmerge (ms' ++ [H.getD c []]) with
      | ok r => rfl
      | error e => rfl

end PytypeModel.Mro
