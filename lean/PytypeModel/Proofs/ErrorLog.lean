import PytypeModel.Errors.ErrorLog
import PytypeModel.Proofs.CanonSort

/-! Proofs about the error report (C04): sortedness, uniqueness, completeness, permutation invariance. -/
namespace PytypeModel.Errors
open PytypeModel.Pytd.Canon (str_tri)
open PytypeModel.Core

/-! ### the sort key `(file, line)` -/

def SameKey (a b : Err) : Prop := a.file = b.file ∧ a.line = b.line

instance (a b : Err) : Decidable (SameKey a b) := by unfold SameKey; exact inferInstance

theorem keyLe_total (a b : Err) : (keyLe a b || keyLe b a) = true := by
  unfold keyLe
  rcases str_tri a.file b.file with h | h | h
  · simp [h]
  · simp [h, String.lt_irrefl]; omega
  · simp [h, String.lt_asymm h]

theorem keyLe_trans (a b c : Err) : keyLe a b = true → keyLe b c = true → keyLe a c = true := by
  unfold keyLe
  intro h1 h2
  rcases str_tri a.file b.file with hab | hab | hab
  · rcases str_tri b.file c.file with hbc | hbc | hbc
    · simp [String.lt_trans hab hbc]
    · rw [← hbc]; simp [hab]
    · simp [hbc, String.lt_asymm hbc] at h2
  · rw [hab] at h1 ⊢
    rcases str_tri b.file c.file with hbc | hbc | hbc
    · simp [hbc]
    · rw [hbc] at h1 h2 ⊢
      simp only [String.lt_irrefl, if_false, decide_eq_true_eq] at h1 h2 ⊢
      omega
    · simp [hbc, String.lt_asymm hbc] at h2
  · simp [hab, String.lt_asymm hab] at h1

theorem keyLe_antisymm (a b : Err) : keyLe a b = true → keyLe b a = true → SameKey a b := by
  unfold keyLe SameKey
  intro h1 h2
  rcases str_tri a.file b.file with hab | hab | hab
  · simp [hab, String.lt_asymm hab] at h2
  · rw [hab] at h1 h2
    simp only [String.lt_irrefl, if_false, decide_eq_true_eq] at h1 h2
    exact ⟨hab, by omega⟩
  · simp [hab, String.lt_asymm hab] at h1

theorem keyLe_of_sameKey {a b : Err} (h : SameKey a b) : keyLe a b = true := by
  unfold keyLe; rw [h.1, h.2]; simp [String.lt_irrefl]

theorem keyLe_congr_left {a a' b : Err} (h : SameKey a a') (hab : keyLe a b = true) : keyLe a' b = true :=
  keyLe_trans a' a b (keyLe_of_sameKey ⟨h.1.symm, h.2.symm⟩) hab

theorem sortedErrors_perm (log : List Err) : (sortedErrors log).Perm log := isort_perm _ _

theorem sortedErrors_sorted (log : List Err) : (sortedErrors log).Pairwise (fun a b => keyLe a b = true) :=
  isort_pairwise keyLe_trans keyLe_total log

/-! ### tracebacks -/

theorem compareTb_none_symm {l r : Option String} (h : compareTb l r = none) : compareTb r l = none := by
  unfold compareTb at h ⊢
  by_cases e : l = r
  · simp [e] at h
  · have e' : ¬ r = l := fun x => e x.symm
    simp only [e, e', if_false] at h ⊢
    by_cases h1 : (stripMarker r).isSuffixOf (stripMarker l) = true
    · simp [h1] at h
    · by_cases h2 : (stripMarker l).isSuffixOf (stripMarker r) = true
      · simp [h1, h2] at h
      · simp [h1, h2]

theorem compareTb_self (l : Option String) : compareTb l l = some 0 := by simp [compareTb]

/-! ### the inner loop -/

theorem scan_sublist (e : Err) : ∀ g, (scan e g).1.Sublist g
  | [] => by simp [scan]
  | p :: rest => by
    unfold scan
    split
    · exact (scan_sublist e rest).cons_cons p
    · split
      · exact (scan_sublist e rest).cons p
      · exact List.Sublist.refl _

theorem scan_kept (e : Err) : ∀ g, (scan e g).2 = false → ∀ a, a ∈ (scan e g).1 → compareTb e.tb a.tb = none
  | [] => by simp [scan]
  | p :: rest => by
    unfold scan
    split
    · rename_i hc
      intro hb a ha
      rcases List.mem_cons.1 ha with rfl | ha
      · exact hc
      · exact scan_kept e rest hb a ha
    · split
      · exact scan_kept e rest
      · intro hb; simp at hb

theorem scan_broke_ne_nil (e : Err) : ∀ g, (scan e g).2 = true → (scan e g).1 ≠ []
  | [] => by simp [scan]
  | p :: rest => by
    unfold scan
    split
    · intro _; simp
    · split
      · exact scan_broke_ne_nil e rest
      · intro _; simp

theorem addToGroup_eq (e : Err) (g : List Err) : addToGroup e g =
    if (scan e g).2 = true then (scan e g).1
    else if (scan e g).1.length < MAX_TRACEBACKS then (scan e g).1 ++ [e] else (scan e g).1 := rfl

theorem addToGroup_ne_nil (e : Err) (g : List Err) : addToGroup e g ≠ [] := by
  rw [addToGroup_eq]
  by_cases hb : (scan e g).2 = true
  · rw [if_pos hb]; exact scan_broke_ne_nil e g hb
  · rw [if_neg hb]
    by_cases hl : (scan e g).1.length < MAX_TRACEBACKS
    · rw [if_pos hl]; simp
    · rw [if_neg hl]
      intro h
      rw [h] at hl
      simp [MAX_TRACEBACKS] at hl

theorem mem_addToGroup {e : Err} {g : List Err} {a : Err} (h : a ∈ addToGroup e g) : a = e ∨ a ∈ g := by
  rw [addToGroup_eq] at h
  have hs := scan_sublist e g
  by_cases hb : (scan e g).2 = true
  · rw [if_pos hb] at h; exact .inr (hs.subset h)
  · rw [if_neg hb] at h
    by_cases hl : (scan e g).1.length < MAX_TRACEBACKS
    · rw [if_pos hl] at h
      rcases List.mem_append.1 h with h | h
      · exact .inr (hs.subset h)
      · exact .inl (by simpa using h)
    · rw [if_neg hl] at h; exact .inr (hs.subset h)

def Incomparable (a b : Err) : Prop := compareTb a.tb b.tb = none ∧ compareTb b.tb a.tb = none

theorem addToGroup_incomparable {e : Err} {g : List Err} (h : g.Pairwise Incomparable) :
    (addToGroup e g).Pairwise Incomparable := by
  rw [addToGroup_eq]
  have hs := scan_sublist e g
  by_cases hb : (scan e g).2 = true
  · rw [if_pos hb]; exact h.sublist hs
  · rw [if_neg hb]
    by_cases hl : (scan e g).1.length < MAX_TRACEBACKS
    · rw [if_pos hl, List.pairwise_append]
      refine ⟨h.sublist hs, by simp, ?_⟩
      intro a ha b hb'
      have : b = e := by simpa using hb'
      subst this
      have hk := scan_kept b g (by simpa using hb) a ha
      exact ⟨compareTb_none_symm hk, hk⟩
    · rw [if_neg hl]; exact h.sublist hs

theorem addToGroup_length {e : Err} {g : List Err} (h : g.length ≤ MAX_TRACEBACKS) :
    (addToGroup e g).length ≤ MAX_TRACEBACKS := by
  rw [addToGroup_eq]
  have hs := (scan_sublist e g).length_le
  by_cases hb : (scan e g).2 = true
  · rw [if_pos hb]; omega
  · rw [if_neg hb]
    by_cases hl : (scan e g).1.length < MAX_TRACEBACKS
    · rw [if_pos hl, List.length_append, List.length_singleton]; omega
    · rw [if_neg hl]; omega

/-! ### the dict -/

theorem insertErr_cases (d : Groups) (e : Err) :
    ((∀ x, x ∈ d → x.1 ≠ rep e) ∧ insertErr d e = d ++ [(rep e, [e])]) ∨
    (∃ d1 g d2, d = d1 ++ (rep e, g) :: d2 ∧ insertErr d e = d1 ++ (rep e, addToGroup e g) :: d2 ∧
      ∀ x, x ∈ d1 → x.1 ≠ rep e) := by
  induction d with
  | nil => left; simp [insertErr]
  | cons x d ih =>
    obtain ⟨r, g⟩ := x
    by_cases hr : r = rep e
    · right
      refine ⟨[], g, d, by simp [hr], by simp [insertErr, hr], by simp⟩
    · rcases ih with ⟨h1, h2⟩ | ⟨d1, g', d2, h1, h2, h3⟩
      · left
        refine ⟨?_, by simp [insertErr, hr, h2]⟩
        intro x hx
        rcases List.mem_cons.1 hx with rfl | hx
        · exact hr
        · exact h1 x hx
      · right
        refine ⟨(r, g) :: d1, g', d2, by simp [h1], by simp [insertErr, hr, h2], ?_⟩
        intro x hx
        rcases List.mem_cons.1 hx with rfl | hx
        · exact hr
        · exact h3 x hx

/-- Invariant of the dict while the sorted log is consumed. -/
structure Inv (d : Groups) : Prop where
  keys : d.Pairwise (fun x y => x.1 ≠ y.1)
  reps : ∀ x, x ∈ d → ∀ a, a ∈ x.2 → rep a = x.1
  incomp : ∀ x, x ∈ d → x.2.Pairwise Incomparable
  size : ∀ x, x ∈ d → x.2.length ≤ MAX_TRACEBACKS
  nonempty : ∀ x, x ∈ d → x.2 ≠ []

theorem Inv.nil : Inv [] := ⟨.nil, by simp, by simp, by simp, by simp⟩

theorem Inv.insert {d : Groups} (h : Inv d) (e : Err) : Inv (insertErr d e) := by
  rcases insertErr_cases d e with ⟨h1, h2⟩ | ⟨d1, g, d2, h1, h2, h3⟩
  · rw [h2]
    refine ⟨?_, ?_, ?_, ?_, ?_⟩
    · rw [List.pairwise_append]
      refine ⟨h.keys, by simp, ?_⟩
      intro x hx y hy
      have : y = (rep e, [e]) := by simpa using hy
      subst this; exact h1 x hx
    all_goals
      intro x hx
      rcases List.mem_append.1 hx with hx | hx
      · first | exact h.reps x hx | exact h.incomp x hx | exact h.size x hx | exact h.nonempty x hx
      · have : x = (rep e, [e]) := by simpa using hx
        subst this
        first | (intro a ha; simp at ha; rw [ha]) | simp [MAX_TRACEBACKS] | simp
  · subst h1
    rw [h2]
    have hg : (rep e, g) ∈ d1 ++ (rep e, g) :: d2 := by simp
    have mem_old : ∀ x, x ∈ d1 ++ (rep e, addToGroup e g) :: d2 →
        x = (rep e, addToGroup e g) ∨ x ∈ d1 ++ (rep e, g) :: d2 := by
      intro x hx
      rcases List.mem_append.1 hx with hx | hx
      · exact .inr (List.mem_append.2 (.inl hx))
      · rcases List.mem_cons.1 hx with hx | hx
        · exact .inl hx
        · exact .inr (List.mem_append.2 (.inr (List.mem_cons.2 (.inr hx))))
    refine ⟨?_, ?_, ?_, ?_, ?_⟩
    · have hk := h.keys
      rw [List.pairwise_append, List.pairwise_cons] at hk ⊢
      exact ⟨hk.1, ⟨hk.2.1.1, hk.2.1.2⟩, fun x hx y hy => by
        rcases List.mem_cons.1 hy with rfl | hy
        · exact hk.2.2 x hx (rep e, g) (by simp)
        · exact hk.2.2 x hx y (List.mem_cons.2 (.inr hy))⟩
    · intro x hx a ha
      rcases mem_old x hx with rfl | hx
      · rcases mem_addToGroup ha with rfl | ha
        · rfl
        · exact h.reps _ hg a ha
      · exact h.reps x hx a ha
    · intro x hx
      rcases mem_old x hx with rfl | hx
      · exact addToGroup_incomparable (h.incomp _ hg)
      · exact h.incomp x hx
    · intro x hx
      rcases mem_old x hx with rfl | hx
      · exact addToGroup_length (h.size _ hg)
      · exact h.size x hx
    · intro x hx
      rcases mem_old x hx with rfl | hx
      · exact addToGroup_ne_nil e g
      · exact h.nonempty x hx

theorem Inv.foldl {d : Groups} (h : Inv d) (l : List Err) : Inv (l.foldl insertErr d) := by
  induction l generalizing d with
  | nil => exact h
  | cons e l ih => exact ih (h.insert e)

theorem inv_groupsOf (s : List Err) : Inv (groupsOf s) := Inv.nil.foldl s

/-! ### uniqueness of the report -/

theorem flatten_unique {d : Groups} (h : Inv d) :
    (flatten d).Pairwise (fun a b => rep a = rep b → Incomparable a b) := by
  unfold flatten
  rw [List.pairwise_flatMap]
  refine ⟨fun x hx => List.Pairwise.imp (S := fun a b => rep a = rep b → Incomparable a b)
    (fun hi _ => hi) (h.incomp x hx), ?_⟩
  refine h.keys.imp_of_mem ?_
  intro x y hx hy hne a ha b hb hrep
  exact absurd ((h.reps x hx a ha).symm.trans (hrep.trans (h.reps y hy b hb))) hne

/-! ### members come from the log; every logged representation is reported -/

theorem mem_insertErr {d : Groups} {e : Err} {x : Rep × List Err} (hx : x ∈ insertErr d e) :
    ∀ a, a ∈ x.2 → a = e ∨ ∃ y, y ∈ d ∧ a ∈ y.2 := by
  intro a ha
  rcases insertErr_cases d e with ⟨_, h2⟩ | ⟨d1, g, d2, h1, h2, _⟩
  · rw [h2] at hx
    rcases List.mem_append.1 hx with hx | hx
    · exact .inr ⟨x, hx, ha⟩
    · have : x = (rep e, [e]) := by simpa using hx
      subst this; left; simpa using ha
  · rw [h2] at hx
    subst h1
    rcases List.mem_append.1 hx with hx | hx
    · exact .inr ⟨x, by simp [hx], ha⟩
    · rcases List.mem_cons.1 hx with rfl | hx
      · rcases mem_addToGroup ha with h | h
        · exact .inl h
        · exact .inr ⟨(rep e, g), by simp, h⟩
      · exact .inr ⟨x, by simp [hx], ha⟩

theorem mem_foldl_insertErr (l : List Err) : ∀ (d : Groups) (x : Rep × List Err),
    x ∈ l.foldl insertErr d → ∀ a, a ∈ x.2 → a ∈ l ∨ ∃ y, y ∈ d ∧ a ∈ y.2 := by
  induction l with
  | nil => intro d x hx a ha; exact .inr ⟨x, hx, ha⟩
  | cons e l ih =>
    intro d x hx a ha
    rcases ih (insertErr d e) x hx a ha with h | ⟨y, hy, hay⟩
    · exact .inl (List.mem_cons.2 (.inr h))
    · rcases mem_insertErr hy a hay with h | h
      · exact .inl (List.mem_cons.2 (.inl h))
      · exact .inr h

theorem mem_flatten {d : Groups} {a : Err} : a ∈ flatten d ↔ ∃ x, x ∈ d ∧ a ∈ x.2 := by
  simp [flatten, List.mem_flatMap]

theorem uniqueSorted_subset (log : List Err) : ∀ a, a ∈ uniqueSortedErrors log → a ∈ log := by
  intro a ha
  obtain ⟨x, hx, hax⟩ := mem_flatten.1 ha
  rcases mem_foldl_insertErr _ [] x hx a hax with h | ⟨y, hy, _⟩
  · exact (sortedErrors_perm log).mem_iff.1 h
  · cases hy

theorem key_insertErr (d : Groups) (e : Err) :
    (∃ x, x ∈ insertErr d e ∧ x.1 = rep e) ∧ ∀ y, y ∈ d → ∃ x, x ∈ insertErr d e ∧ x.1 = y.1 := by
  rcases insertErr_cases d e with ⟨_, h2⟩ | ⟨d1, g, d2, h1, h2, _⟩
  · rw [h2]
    exact ⟨⟨(rep e, [e]), by simp, rfl⟩, fun y hy => ⟨y, by simp [hy], rfl⟩⟩
  · rw [h2]; subst h1
    refine ⟨⟨(rep e, addToGroup e g), by simp, rfl⟩, ?_⟩
    intro y hy
    rcases List.mem_append.1 hy with hy | hy
    · exact ⟨y, by simp [hy], rfl⟩
    · rcases List.mem_cons.1 hy with rfl | hy
      · exact ⟨(rep e, addToGroup e g), by simp, rfl⟩
      · exact ⟨y, by simp [hy], rfl⟩

theorem key_foldl (l : List Err) : ∀ (d : Groups),
    (∀ e, e ∈ l → ∃ x, x ∈ l.foldl insertErr d ∧ x.1 = rep e) ∧
    (∀ y, y ∈ d → ∃ x, x ∈ l.foldl insertErr d ∧ x.1 = y.1) := by
  induction l with
  | nil => intro d; exact ⟨by simp, fun y hy => ⟨y, hy, rfl⟩⟩
  | cons e l ih =>
    intro d
    obtain ⟨ih1, ih2⟩ := ih (insertErr d e)
    obtain ⟨k1, k2⟩ := key_insertErr d e
    refine ⟨?_, ?_⟩
    · intro e' he'
      rcases List.mem_cons.1 he' with rfl | he'
      · obtain ⟨x, hx, hxe⟩ := k1
        obtain ⟨z, hz, hze⟩ := ih2 x hx
        exact ⟨z, hz, hze.trans hxe⟩
      · exact ih1 e' he'
    · intro y hy
      obtain ⟨x, hx, hxe⟩ := k2 y hy
      obtain ⟨z, hz, hze⟩ := ih2 x hx
      exact ⟨z, hz, hze.trans hxe⟩

theorem uniqueSorted_complete (log : List Err) :
    ∀ e, e ∈ log → ∃ a, a ∈ uniqueSortedErrors log ∧ rep a = rep e := by
  intro e he
  have he' := (sortedErrors_perm log).mem_iff.2 he
  obtain ⟨x, hx, hxe⟩ := (key_foldl (sortedErrors log) []).1 e he'
  have inv := inv_groupsOf (sortedErrors log)
  obtain ⟨a, ha⟩ := List.exists_mem_of_ne_nil _ (inv.nonempty x hx)
  exact ⟨a, mem_flatten.2 ⟨x, hx, ha⟩, (inv.reps x hx a ha).trans hxe⟩

/-! ### sortedness of the report -/

/-- order invariant while consuming a sorted list `rest` (all elements in `all`, on which equal
representations have equal keys) -/
structure SInv (all rest : List Err) (d : Groups) : Prop where
  inv : Inv d
  mem : ∀ x, x ∈ d → ∀ a, a ∈ x.2 → a ∈ all
  cross : d.Pairwise (fun x y => ∀ a, a ∈ x.2 → ∀ b, b ∈ y.2 → keyLe a b = true)
  ahead : ∀ x, x ∈ d → ∀ a, a ∈ x.2 → ∀ e, e ∈ rest → keyLe a e = true

theorem SInv.step {all rest : List Err} {d : Groups} {e : Err}
    (hH : ∀ a, a ∈ all → ∀ b, b ∈ all → rep a = rep b → SameKey a b)
    (hall : ∀ a, a ∈ e :: rest → a ∈ all)
    (hsorted : (e :: rest).Pairwise (fun a b => keyLe a b = true))
    (h : SInv all (e :: rest) d) : SInv all rest (insertErr d e) := by
  have he : e ∈ all := hall e (by simp)
  have hsr := List.pairwise_cons.1 hsorted
  rcases insertErr_cases d e with ⟨h1, h2⟩ | ⟨d1, g, d2, h1, h2, h3⟩
  · refine ⟨h.inv.insert e, ?_, ?_, ?_⟩ <;> rw [h2]
    · intro x hx a ha
      rcases List.mem_append.1 hx with hx | hx
      · exact h.mem x hx a ha
      · have : x = (rep e, [e]) := by simpa using hx
        subst this
        have : a = e := by simpa using ha
        subst this; exact he
    · rw [List.pairwise_append]
      refine ⟨h.cross, by simp, ?_⟩
      intro x hx y hy a ha b hb
      have : y = (rep e, [e]) := by simpa using hy
      subst this
      have : b = e := by simpa using hb
      subst this
      exact h.ahead x hx a ha b (by simp)
    · intro x hx a ha e' he'
      rcases List.mem_append.1 hx with hx | hx
      · exact h.ahead x hx a ha e' (List.mem_cons.2 (.inr he'))
      · have : x = (rep e, [e]) := by simpa using hx
        subst this
        have : a = e := by simpa using ha
        subst this; exact hsr.1 e' he'
  · have hinv' := h.inv.insert e
    subst h1
    have hg : (rep e, g) ∈ d1 ++ (rep e, g) :: d2 := by simp
    obtain ⟨w, hw⟩ := List.exists_mem_of_ne_nil _ (h.inv.nonempty _ hg)
    have hwe : SameKey w e := hH w (h.mem _ hg w hw) e he (h.inv.reps _ hg w hw)
    have hew : SameKey e w := ⟨hwe.1.symm, hwe.2.symm⟩
    -- every member of the updated group is `e` or an old member
    have newmem : ∀ a, a ∈ addToGroup e g → a = e ∨ a ∈ g := fun a ha => mem_addToGroup ha
    refine ⟨hinv', ?_, ?_, ?_⟩ <;> rw [h2]
    · intro x hx a ha
      rcases List.mem_append.1 hx with hx | hx
      · exact h.mem x (by simp [hx]) a ha
      · rcases List.mem_cons.1 hx with rfl | hx
        · rcases newmem a ha with rfl | ha
          · exact he
          · exact h.mem _ hg a ha
        · exact h.mem x (by simp [hx]) a ha
    · have hc := h.cross
      rw [List.pairwise_append, List.pairwise_cons] at hc ⊢
      refine ⟨hc.1, ⟨?_, hc.2.1.2⟩, ?_⟩
      · intro y hy a ha b hb
        rcases newmem a ha with rfl | ha
        · exact keyLe_congr_left hwe (hc.2.1.1 y hy w hw b hb)
        · exact hc.2.1.1 y hy a ha b hb
      · intro x hx y hy a ha b hb
        rcases List.mem_cons.1 hy with rfl | hy
        · rcases newmem b hb with rfl | hb
          · exact h.ahead x (by simp [hx]) a ha b (by simp)
          · exact hc.2.2 x hx (rep e, g) (by simp) a ha b hb
        · exact hc.2.2 x hx y (List.mem_cons.2 (.inr hy)) a ha b hb
    · intro x hx a ha e' he'
      rcases List.mem_append.1 hx with hx | hx
      · exact h.ahead x (by simp [hx]) a ha e' (List.mem_cons.2 (.inr he'))
      · rcases List.mem_cons.1 hx with rfl | hx
        · rcases newmem a ha with rfl | ha
          · exact hsr.1 e' he'
          · exact h.ahead _ hg a ha e' (List.mem_cons.2 (.inr he'))
        · exact h.ahead x (by simp [hx]) a ha e' (List.mem_cons.2 (.inr he'))

theorem SInv.foldl {all : List Err}
    (hH : ∀ a, a ∈ all → ∀ b, b ∈ all → rep a = rep b → SameKey a b) :
    ∀ (rest : List Err) (d : Groups), (∀ a, a ∈ rest → a ∈ all) →
      rest.Pairwise (fun a b => keyLe a b = true) → SInv all rest d → SInv all [] (rest.foldl insertErr d)
  | [], _, _, _, h => h
  | e :: rest, d, hall, hs, h =>
    SInv.foldl hH rest (insertErr d e) (fun a ha => hall a (List.mem_cons.2 (.inr ha)))
      (List.pairwise_cons.1 hs).2 (h.step hH hall hs)

theorem SInv.flatten_sorted {all : List Err} {d : Groups}
    (hH : ∀ a, a ∈ all → ∀ b, b ∈ all → rep a = rep b → SameKey a b) (h : SInv all [] d) :
    (flatten d).Pairwise (fun a b => keyLe a b = true) := by
  unfold flatten
  rw [List.pairwise_flatMap]
  refine ⟨?_, h.cross⟩
  intro x hx
  have : ∀ a, a ∈ x.2 → ∀ b, b ∈ x.2 → keyLe a b = true := fun a ha b hb =>
    keyLe_of_sameKey (hH a (h.mem x hx a ha) b (h.mem x hx b hb)
      ((h.inv.reps x hx a ha).trans (h.inv.reps x hx b hb).symm))
  exact List.pairwise_of_forall_mem_list this

theorem repKeyOK_iff {log : List Err} (h : repKeyOK log = true) :
    ∀ a, a ∈ log → ∀ b, b ∈ log → rep a = rep b → SameKey a b := by
  intro a ha b hb hr
  simp only [repKeyOK, List.all_eq_true] at h
  have := h a ha b hb
  simp only [hr, decide_true, Bool.not_true, Bool.false_or, Bool.and_eq_true, beq_iff_eq] at this
  exact this

theorem uniqueSorted_sorted (log : List Err) (h : repKeyOK log = true) :
    (uniqueSortedErrors log).Pairwise (fun a b => keyLe a b = true) := by
  have hH := repKeyOK_iff h
  have hp := sortedErrors_perm log
  refine SInv.flatten_sorted hH (SInv.foldl hH (sortedErrors log) [] (fun a ha => hp.mem_iff.1 ha)
    (sortedErrors_sorted log) ⟨Inv.nil, by simp, .nil, by simp⟩)

/-! ### permutation invariance of `_sorted_errors` -/

/-- ties identical ⇒ any insertion order gives the same sorted list -/
theorem sortedErrors_perm_inj {log log' : List Err} (hp : log.Perm log')
    (hinj : ∀ a, a ∈ log → ∀ b, b ∈ log → SameKey a b → a = b) : sortedErrors log = sortedErrors log' :=
  isort_eq_of_perm keyLe_trans keyLe_total hp
    (fun a ha b hb h1 h2 => hinj a ha b hb (keyLe_antisymm a b h1 h2))

/-- boolean "same (file, line) as `k`" -/
def atKey (k : Err) (x : Err) : Bool := x.file == k.file && x.line == k.line

theorem atKey_iff {k x : Err} : atKey k x = true ↔ SameKey x k := by simp [atKey, SameKey]

/-- stability: the sub-list of errors at one position is not reordered by the sort -/
theorem sortedErrors_filter (log : List Err) (k : Err) :
    (sortedErrors log).filter (atKey k) = log.filter (atKey k) := by
  have hsub : (log.filter (atKey k)).Sublist (sortedErrors log) := by
    refine sublist_isort ?_ List.filter_sublist
    refine List.pairwise_of_forall_mem_list ?_
    intro a ha b hb
    have h1 := atKey_iff.1 (List.mem_filter.1 ha).2
    have h2 := atKey_iff.1 (List.mem_filter.1 hb).2
    exact keyLe_of_sameKey ⟨h1.1.trans h2.1.symm, h2.2.symm ▸ h1.2⟩
  have hsub' : (log.filter (atKey k)).Sublist ((sortedErrors log).filter (atKey k)) := by
    have := hsub.filter (atKey k)
    simpa [List.filter_filter] using this
  have hlen : (log.filter (atKey k)).length = ((sortedErrors log).filter (atKey k)).length :=
    ((sortedErrors_perm log).filter (atKey k)).length_eq.symm
  exact (hsub'.eq_of_length hlen).symm

/-- two sorted permutations of each other that agree on every same-key sub-list are equal -/
theorem sorted_eq_of_filters : ∀ (l₁ l₂ : List Err), l₁.Perm l₂ →
    l₁.Pairwise (fun a b => keyLe a b = true) → l₂.Pairwise (fun a b => keyLe a b = true) →
    (∀ k, l₁.filter (atKey k) = l₂.filter (atKey k)) → l₁ = l₂
  | [], l₂, hp, _, _, _ => hp.nil_eq
  | x :: l₁, [], hp, _, _, _ => absurd hp.symm.nil_eq (by simp)
  | x :: l₁, y :: l₂, hp, h1, h2, hf => by
    have h1' := List.pairwise_cons.1 h1
    have h2' := List.pairwise_cons.1 h2
    have hxy : keyLe x y = true := by
      rcases List.mem_cons.1 (hp.mem_iff.2 (List.mem_cons_self (a := y) (l := l₂))) with e | hm
      · rw [← e]; simpa using keyLe_total y y
      · exact h1'.1 y hm
    have hyx : keyLe y x = true := by
      rcases List.mem_cons.1 (hp.mem_iff.1 (List.mem_cons_self (a := x) (l := l₁))) with e | hm
      · rw [← e]; simpa using keyLe_total x x
      · exact h2'.1 x hm
    have hs : SameKey y x := keyLe_antisymm y x hyx hxy
    have hk := hf x
    have hxx : atKey x x = true := atKey_iff.2 ⟨rfl, rfl⟩
    have hyk : atKey x y = true := atKey_iff.2 hs
    rw [List.filter_cons_of_pos hxx, List.filter_cons_of_pos hyk] at hk
    have hxy' : x = y := (List.cons.inj hk).1
    subst hxy'
    congr 1
    refine sorted_eq_of_filters l₁ l₂ (List.Perm.cons_inv hp) h1'.2 h2'.2 ?_
    intro k
    have := hf k
    by_cases hkx : atKey k x = true
    · rw [List.filter_cons_of_pos hkx, List.filter_cons_of_pos hkx] at this
      exact (List.cons.inj this).2
    · rw [List.filter_cons_of_neg hkx, List.filter_cons_of_neg hkx] at this
      exact this

/-- the insertion order matters only through the relative order of errors at the same (file, line) -/
theorem sortedErrors_eq_of_filters {log log' : List Err} (hp : log.Perm log')
    (hf : ∀ k, log.filter (atKey k) = log'.filter (atKey k)) : sortedErrors log = sortedErrors log' := by
  refine sorted_eq_of_filters _ _ ((sortedErrors_perm log).trans (hp.trans (sortedErrors_perm log').symm))
    (sortedErrors_sorted log) (sortedErrors_sorted log') ?_
  intro k
  rw [sortedErrors_filter, sortedErrors_filter, hf k]

end PytypeModel.Errors
