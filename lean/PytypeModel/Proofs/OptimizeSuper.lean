/-
C11 proofs, part 3: the visitors that use the class hierarchy
(SimplifyUnionsWithSuperclasses, FindCommonSuperClasses).
-/
import PytypeModel.Proofs.OptimizeTy

namespace PytypeModel.Pytd

/-- the semantic subclass relation is a preorder containing the edges the optimiser was given -/
structure HierSound (S : Sem) (H : Hier) : Prop where
  edge : ∀ a b, b ∈ H.lookup a → S.sub a b
  refl : ∀ a, S.sub a a
  trans : ∀ a b c, S.sub a b → S.sub b c → S.sub a c

/-- no inheritance cycles -/
def Antisymm (S : Sem) : Prop := ∀ a b, S.sub a b → S.sub b a → a = b

theorem reach_sound {S : Sem} {H : Hier} (hs : HierSound S H) : ∀ n a b, H.reach n a b = true → S.sub a b
  | 0, a, b, h => by
    simp [Hier.reach] at h
    subst h
    exact hs.refl a
  | n + 1, a, b, h => by
    simp [Hier.reach] at h
    cases h with
    | inl h1 => subst h1; exact hs.refl a
    | inr h2 =>
      obtain ⟨s, hs1, hs2⟩ := h2
      exact hs.trans a s b (hs.edge a s hs1) (reach_sound hs n s b hs2)

theorem isSub_sound {S : Sem} {H : Hier} (hs : HierSound S H) (a b : String) (h : H.isSub a b = true) : S.sub a b :=
  reach_sound hs _ a b h

/-! ### a maximal candidate exists -/

theorem exists_maximal {α : Type} (R : String → String → Prop)
    (htrans : ∀ a b c, R a b → R b c → R a c) (hanti : ∀ a b, R a b → R b a → a = b)
    (key : α → String) (P : α → Prop) :
    ∀ (l : List α), (∃ x, x ∈ l ∧ P x) →
      ∃ m, m ∈ l ∧ P m ∧ ∀ x, x ∈ l → P x → R (key m) (key x) → key x = key m := by
  intro l
  induction l with
  | nil => rintro ⟨x, hx, _⟩; cases hx
  | cons a l ih =>
    intro hex
    by_cases hl : ∃ x, x ∈ l ∧ P x
    · obtain ⟨m, hm, hpm, hmax⟩ := ih hl
      by_cases ha : P a ∧ R (key m) (key a) ∧ key a ≠ key m
      · refine ⟨a, List.mem_cons_self, ha.1, ?_⟩
        intro x hx hpx hr
        cases hx with
        | head => rfl
        | tail _ hx =>
          have h1 : key x = key m := hmax x hx hpx (htrans _ _ _ ha.2.1 hr)
          rw [h1] at hr
          exact absurd (hanti _ _ hr ha.2.1) ha.2.2
      · refine ⟨m, List.mem_cons_of_mem _ hm, hpm, ?_⟩
        intro x hx hpx hr
        cases hx with
        | head =>
          apply Classical.byContradiction
          intro hne
          exact ha ⟨hpx, hr, hne⟩
        | tail _ hx => exact hmax x hx hpx hr
    · obtain ⟨x, hx, hpx⟩ := hex
      cases hx with
      | head =>
        refine ⟨a, List.mem_cons_self, hpx, ?_⟩
        intro y hy hpy _
        cases hy with
        | head => rfl
        | tail _ hy => exact absurd ⟨y, hy, hpy⟩ hl
      | tail _ hx => exact absurd ⟨x, hx, hpx⟩ hl

/-! ### `set(type_list)` has no two equal members -/

def PyNodup (l : List Ty) : Prop := l.Pairwise (fun a b => a.pyEq b = false)

theorem dedupAux_nodup : ∀ (ts seen : List Ty),
    PyNodup (dedupAux seen ts) ∧ ∀ t, t ∈ dedupAux seen ts → pyMem seen t = false := by
  intro ts
  induction ts with
  | nil => intro seen; simp [dedupAux, PyNodup]
  | cons a ts ih =>
    intro seen
    simp only [dedupAux]
    split
    · exact ih seen
    · rename_i hm
      obtain ⟨h1, h2⟩ := ih (a :: seen)
      constructor
      · refine List.Pairwise.cons ?_ h1
        intro b hb
        have := h2 b hb
        simp [pyMem] at this
        exact this.1
      · intro t ht
        cases ht with
        | head => simpa using hm
        | tail _ ht =>
          have := h2 t ht
          simp [pyMem] at this ⊢
          exact this.2

theorem dedupPy_nodup (ts : List Ty) : PyNodup (dedupPy ts) := (dedupAux_nodup ts []).1

theorem baseType_pyEq_self : ∀ t : Ty, t.isBaseType = true → t.pyEq t = true := by
  intro t h
  cases t <;> simp_all [Ty.isBaseType, Ty.pyEq]

/-- a duplicate-free list all of whose members are one of `named n`, `cls n`, and not both, has at most one element -/
theorem length_le_one_of_same_name (l : List Ty) (n : String) (hnd : PyNodup l)
    (hall : ∀ t, t ∈ l → t = .named n ∨ t = .cls n)
    (hmix : ¬ (Ty.named n ∈ l ∧ Ty.cls n ∈ l)) : l.length ≤ 1 := by
  match l, hnd, hall, hmix with
  | [], _, _, _ => simp
  | [_], _, _, _ => simp
  | a :: b :: r, hnd, hall, hmix =>
    exfalso
    have ha := hall a List.mem_cons_self
    have hb := hall b (List.mem_cons_of_mem _ List.mem_cons_self)
    have hne : a.pyEq b = false := by
      have := List.rel_of_pairwise_cons hnd (List.mem_cons_self (a := b) (l := r))
      exact this
    rcases ha with ha | ha <;> rcases hb with hb | hb <;> subst ha <;> subst hb
    · simp [Ty.pyEq] at hne
    · exact hmix ⟨List.mem_cons_self, List.mem_cons_of_mem _ List.mem_cons_self⟩
    · exact hmix ⟨List.mem_cons_of_mem _ List.mem_cons_self, List.mem_cons_self⟩
    · simp [Ty.pyEq] at hne

/-! ### SimplifyUnionsWithSuperclasses -/

theorem noMixed_spec {ts : List Ty} (h : noMixed ts = true) (n : String) : ¬ (Ty.named n ∈ ts ∧ Ty.cls n ∈ ts) := by
  rintro ⟨h1, h2⟩
  simp [noMixed] at h
  have := h _ h1
  simp at this
  exact this _ h2 rfl

theorem strName_den {S : Sem} {t : Ty} {n : String} (h : t.strName = some n) (v : Val) :
    den S t v ↔ S.sub v.clsOf n := by
  cases t <;> simp_all [Ty.strName]

theorem baseType_strName {t : Ty} (h : t.isBaseType = true) : t.strName = some t.nameStr := by
  cases t <;> simp_all [Ty.isBaseType, Ty.strName, Ty.nameStr]

theorem baseType_cases {t : Ty} (h : t.isBaseType = true) : t = .named t.nameStr ∨ t = .cls t.nameStr := by
  cases t <;> simp_all [Ty.isBaseType, Ty.nameStr]

theorem suwsHook_le {S : Sem} {H : Hier} (hs : HierSound S H) (hanti : Antisymm S) (t : Ty)
    (hg : suwsGuard t = true) : TyLe S t (suwsHook H t) := by
  intro v hv
  cases t <;> simp only [suwsHook] <;> try exact hv
  rename_i ts
  simp only [suwsGuard] at hg
  rw [den_union] at hv
  rw [joinTypes_den]
  obtain ⟨t, ht, hd⟩ := (denAny_iff S ts v).1 hv
  by_cases hk : suwsKeep H ts t = true
  · exact (denAny_iff S _ v).2 ⟨t, List.mem_filter.2 ⟨ht, hk⟩, hd⟩
  · -- `t` is dropped: it has a class name `n` that at least two members count as a subclass
    simp only [suwsKeep] at hk
    cases hn : t.strName with
    | none => simp [hn] at hk
    | some n =>
      simp [hn] at hk
      -- one counted member
      have hex : ∃ x, x ∈ ts ∧ (x.isBaseType = true ∧ S.sub n x.nameStr) := by
        unfold subCount at hk
        match hL : (dedupPy ts).filter (fun t => t.isBaseType && H.isSub n t.nameStr) with
        | [] => rw [hL] at hk; simp at hk
        | x :: _ =>
          have hx : x ∈ (dedupPy ts).filter (fun t => t.isBaseType && H.isSub n t.nameStr) := by
            rw [hL]; exact List.mem_cons_self
          have := List.mem_filter.1 hx
          simp at this
          exact ⟨x, dedupPy_sub ts x this.1, this.2.1, isSub_sound hs _ _ this.2.2⟩
      obtain ⟨m, hm, ⟨hmb, hmsub⟩, hmax⟩ :=
        exists_maximal S.sub hs.trans hanti Ty.nameStr (fun x => x.isBaseType = true ∧ S.sub n x.nameStr) ts hex
      -- the maximal one is kept
      have hkeep : suwsKeep H ts m = true := by
        simp only [suwsKeep, baseType_strName hmb]
        simp only [decide_eq_true_eq]
        unfold subCount
        apply length_le_one_of_same_name _ m.nameStr
        · exact List.Pairwise.sublist List.filter_sublist (dedupPy_nodup ts)
        · intro x hx
          have := List.mem_filter.1 hx
          simp at this
          have hxs : S.sub m.nameStr x.nameStr := isSub_sound hs _ _ this.2.2
          have hname : x.nameStr = m.nameStr :=
            hmax x (dedupPy_sub ts x this.1) ⟨this.2.1, hs.trans _ _ _ hmsub hxs⟩ hxs
          have := baseType_cases this.2.1
          rw [hname] at this
          exact this
        · intro hboth
          apply noMixed_spec hg m.nameStr
          exact ⟨dedupPy_sub ts _ (List.mem_filter.1 hboth.1).1, dedupPy_sub ts _ (List.mem_filter.1 hboth.2).1⟩
      refine (denAny_iff S _ v).2 ⟨m, List.mem_filter.2 ⟨hm, hkeep⟩, ?_⟩
      rw [strName_den (baseType_strName hmb)]
      exact hs.trans _ _ _ ((strName_den hn v).1 hd) hmsub

theorem suws_le {S : Sem} {H : Hier} (hs : HierSound S H) (hanti : Antisymm S) (t : Ty)
    (hg : suwsOK H t = true) : TyLe S t (suws H t) :=
  bu_le (g := suwsGuard) (fun t h => suwsHook_le hs hanti t h) t hg

/-! ### FindCommonSuperClasses -/

theorem strNames_mem : ∀ (ts : List Ty) (ns : List String), strNames ts = some ns →
    ∀ t, t ∈ ts → ∃ n, n ∈ ns ∧ t.strName = some n
  | [], _, _, _, ht => by cases ht
  | a :: as, ns, h, t, ht => by
    simp only [strNames] at h
    cases ha : a.strName with
    | none => simp [ha] at h
    | some n =>
      cases hr : strNames as with
      | none => simp [ha, hr] at h
      | some ms =>
        simp [ha, hr] at h
        subst h
        cases ht with
        | head => exact ⟨n, List.mem_cons_self, ha⟩
        | tail _ ht =>
          obtain ⟨k, hk, hk2⟩ := strNames_mem as ms hr t ht
          exact ⟨k, List.mem_cons_of_mem _ hk, hk2⟩

theorem fcsHook_le {S : Sem} {H : Hier} (hs : HierSound S H) (t : Ty) : TyLe S t (fcsHook H t) := by
  intro v hv
  cases t <;> simp only [fcsHook] <;> try exact hv
  rename_i ts
  split
  · exact hv
  · exact hv
  · rename_i n ns hnames
    split
    · exact hv
    · rename_i hne
      rw [den_union] at hv
      obtain ⟨t, ht, hd⟩ := (denAny_iff S ts v).1 hv
      obtain ⟨k, hk, hk2⟩ := strNames_mem ts _ hnames t ht
      -- any leaf is a common superclass
      match hL : ((n :: H.names).eraseDups.filter (fun c => (n :: ns).all (fun m => H.isSub m c))).filter
          (fun c => !(((n :: H.names).eraseDups.filter (fun c => (n :: ns).all (fun m => H.isSub m c))).any
            (fun s => (H.lookup s).contains c))) with
      | [] => rw [hL] at hne; simp at hne
      | c :: rest =>
        have hc : c ∈ ((n :: H.names).eraseDups.filter (fun c => (n :: ns).all (fun m => H.isSub m c))).filter
          (fun c => !(((n :: H.names).eraseDups.filter (fun c => (n :: ns).all (fun m => H.isSub m c))).any
            (fun s => (H.lookup s).contains c))) := by rw [hL]; exact List.mem_cons_self
        have hc2 := (List.mem_filter.1 (List.mem_filter.1 hc).1).2
        simp only [List.all_eq_true] at hc2
        have hsub : S.sub k c := isSub_sound hs _ _ (hc2 k hk)
        apply joinTypes_le S _ (.named c) (by simp)
        simp
        exact hs.trans _ _ _ ((strName_den hk2 v).1 hd) hsub

theorem fcs_le {S : Sem} {H : Hier} (hs : HierSound S H) (t : Ty) : TyLe S t (fcs H t) :=
  bu_le' (fcsHook_le hs) t

end PytypeModel.Pytd
