import PytypeModel.Pytd.UndoAliases

/-! Lemmas about the model of `UndoModuleAliasesVisitor` (C12). -/
namespace PytypeModel.Pytd

theorem lookupLast_some_mem {al : List (Dotted × Dotted)} {k m : Dotted} (h : lookupLast al k = some m) :
    (k, m) ∈ al := by
  unfold lookupLast at h
  obtain ⟨p, hp, rfl⟩ := Option.map_eq_some_iff.1 h
  have hm := List.mem_of_find?_eq_some hp
  have hk : p.1 = k := by simpa using List.find?_some hp
  rw [List.mem_reverse] at hm
  rw [← hk]
  exact hm

/-- what the loop computes: either no prefix of length `1..k` is an alias and the name is unchanged, or the
longest such prefix (length `j`) is replaced by its module -/
theorem undoAt_spec (al : List (Dotted × Dotted)) (name : Dotted) (k : Nat) :
    (undoAt al name k = name ∧ ∀ j, 1 ≤ j → j ≤ k → lookupLast al (name.take j) = none) ∨
    ∃ j m, 1 ≤ j ∧ j ≤ k ∧ lookupLast al (name.take j) = some m ∧
      (∀ j', j < j' → j' ≤ k → lookupLast al (name.take j') = none) ∧ undoAt al name k = m ++ name.drop j := by
  induction k with
  | zero => left; exact ⟨rfl, fun j h1 h2 => by omega⟩
  | succ k ih =>
    unfold undoAt
    cases hl : lookupLast al (name.take (k + 1)) with
    | some m =>
      right
      exact ⟨k + 1, m, by omega, Nat.le_refl _, hl, fun j' h1 h2 => by omega, rfl⟩
    | none =>
      simp only []
      rcases ih with ⟨h1, h2⟩ | ⟨j, m, hj1, hj2, hl', hmax, heq⟩
      · left
        refine ⟨h1, fun j hj hk => ?_⟩
        by_cases hjk : j = k + 1
        · subst hjk; exact hl
        · exact h2 j hj (by omega)
      · right
        refine ⟨j, m, hj1, by omega, hl', fun j' h1 h2 => ?_, heq⟩
        by_cases hjk : j' = k + 1
        · subst hjk; exact hl
        · exact hmax j' h1 (by omega)

/-- a unit without module aliases: nothing is rewritten (in particular no alias of another unit is used) -/
theorem undoAlias_nil (name : Dotted) : undoAlias [] name = name := by
  unfold undoAlias
  split
  · rfl
  · rcases undoAt_spec [] name (name.length - 1) with ⟨h, _⟩ | ⟨j, m, _, _, hl, _, _⟩
    · exact h
    · simp [lookupLast] at hl

theorem isPrefixOf_take_append {m rest : Dotted} {j : Nat} (hj : j ≤ m.length) :
    ((m ++ rest).take j).isPrefixOf m = true := by
  rw [List.take_append_of_le_length hj]
  exact List.isPrefixOf_iff_prefix.2 (List.take_prefix j m)

theorem isPrefixOf_append_take {m rest : Dotted} {j : Nat} (hj : m.length ≤ j) :
    m.isPrefixOf ((m ++ rest).take j) = true := by
  rw [List.isPrefixOf_iff_prefix]
  rw [List.take_append]
  have : List.take j m = m := List.take_of_length_le hj
  rw [this]
  exact List.prefix_append _ _

/-- under `noChain` the rewritten name has no aliased prefix any more -/
theorem undoAt_fixed_of_noChain {al : List (Dotted × Dotted)} (hc : noChain al = true) {a m : Dotted}
    (ham : (a, m) ∈ al) (rest : Dotted) (k : Nat) : undoAt al (m ++ rest) k = m ++ rest := by
  rcases undoAt_spec al (m ++ rest) k with ⟨h, _⟩ | ⟨j, m', _, _, hl, _, _⟩
  · exact h
  · exfalso
    have hb := lookupLast_some_mem hl
    have h1 := (List.all_eq_true.1 hc) (a, m) ham
    have h2 := (List.all_eq_true.1 h1) (_, m') hb
    simp only [Bool.and_eq_true, Bool.not_eq_eq_eq_not, Bool.not_true] at h2
    by_cases hj : j ≤ m.length
    · have := isPrefixOf_take_append (rest := rest) hj
      rw [h2.1] at this
      cases this
    · have := isPrefixOf_append_take (rest := rest) (j := j) (by omega : m.length ≤ j)
      rw [h2.2] at this
      cases this

theorem undoAlias_idem_of_noChain {al : List (Dotted × Dotted)} (hc : noChain al = true) (name : Dotted) :
    undoAlias al (undoAlias al name) = undoAlias al name := by
  by_cases hn : name.length ≤ 1
  · have : undoAlias al name = name := by simp [undoAlias, hn]
    rw [this, this]
  · have hu : undoAlias al name = undoAt al name (name.length - 1) := by simp [undoAlias, hn]
    rcases undoAt_spec al name (name.length - 1) with ⟨h, _⟩ | ⟨j, m, _, _, hl, _, heq⟩
    · rw [hu, h, hu, h]
    · rw [hu, heq]
      have hm := lookupLast_some_mem hl
      unfold undoAlias
      split
      · rfl
      · exact undoAt_fixed_of_noChain hc hm _ _

end PytypeModel.Pytd
