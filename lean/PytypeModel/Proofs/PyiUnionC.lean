import PytypeModel.Proofs.PyiUnionB

/-! C05, unions, part C: a canonical environment, injectivity of printing on normalised members, and the
print / adds halves of `TyGood` for a union. -/
namespace PytypeModel.Pytd

/-! ### a canonical good environment -/

def env0 (g : GCtx) : Defs :=
  { typeMap := g.adds.map (fun x => (x, Ty.named ("typing." ++ x))), typeParams := [], aliases := [] }

theorem lookup_map_self (l : List String) (f : String → Ty) (x : String) :
    (l.map (fun y => (y, f y))).lookup x = if l.contains x then some (f x) else none := by
  induction l with
  | nil => rfl
  | cons y ys ih =>
    simp only [List.map_cons, List.lookup, List.contains_cons]
    by_cases h : x = y
    · subst h; simp
    · have : (x == y) = false := by simpa using h
      simp only [this, ih, Bool.false_or]

theorem envOK0 (g : GCtx) (needs : List String) (h : ∀ x ∈ needs, x ∈ g.adds) : EnvOK g (env0 g) needs := by
  refine ⟨?_, ?_, ?_⟩
  · intro x hx
    unfold env0
    simp only [lookup_map_self]
    rw [if_pos (List.contains_iff_mem.2 (h x hx))]
  · intro k hk _
    left
    unfold env0
    simp only [lookup_map_self, hk]
    rfl
  · intro k _
    rfl

/-- two fragment members whose printed forms coincide have the same normal form -/
theorem norm_eq_of_expr_eq {g : GCtx} {ip : Bool} {t1 t2 : Ty} (h1 : TyGood g ip t1) (h2 : TyGood g ip t2)
    (s1 : ∀ x ∈ tyAdds ip t1, x ∈ g.adds) (s2 : ∀ x ∈ tyAdds ip t2, x ∈ g.adds)
    (he : tyExpr ip t1 = tyExpr ip t2) : normTy g.tps ip t1 = normTy g.tps ip t2 := by
  obtain ⟨p1, hp1, hq1, _⟩ := h1.2.2 (env0 g) (envOK0 g _ s1)
  obtain ⟨p2, hp2, hq2, _⟩ := h2.2.2 (env0 g) (envOK0 g _ s2)
  rw [he, hp2] at hp1
  have : p2 = p1 := by simpa using hp1
  rw [← hq1, ← hq2, this]

/-! ### the formed member list on both sides -/

/-- `res.map key` is the three-way split of the printed formed list -/
theorem unionRes_map (ip : Bool) (ms : List Ty) :
    (unionRes ip ms).map (tyExpr ip) = split3 (formSetK id ip (ms.map (tyExpr ip))) := by
  unfold unionRes split3
  simp only [List.map_append, ← formSetK_map]
  rw [List.filter_map, List.filter_map, List.filter_map]
  rfl

theorem mem_unionRes {ip : Bool} {ms : List Ty} {a : Ty} :
    a ∈ unionRes ip ms ↔ a ∈ formSetK (tyExpr ip) ip ms := by
  unfold unionRes
  simp only [List.mem_append, List.mem_filter]
  constructor
  · rintro ((⟨h, _⟩ | ⟨h, _⟩) | ⟨h, _⟩) <;> exact h
  · intro h
    rcases p_cases (tyExpr ip a) with ⟨h1, _, _⟩ | ⟨_, h2, _⟩ | ⟨_, _, h3⟩
    · exact Or.inl (Or.inl ⟨h, h1⟩)
    · exact Or.inl (Or.inr ⟨h, h2⟩)
    · exact Or.inr ⟨h, h3⟩

theorem tyExpr_union (ip : Bool) (ts : List Ty) :
    tyExpr ip (.union ts) = buildUnion (formSetK id ip (tyExprs ip ts)) := by
  simp [tyExpr, formSetTypeList]

theorem tyAdds_union (ip : Bool) (ts : List Ty) :
    tyAdds ip (.union ts) = tysAdds ip ts ++ buildUnionAdds (formSetK id ip (tyExprs ip ts)) := by
  simp [tyAdds, formSetTypeList]

theorem normTy_union (tps : List String) (ip : Bool) (ts : List Ty) :
    normTy tps ip (.union ts) = normUnion ip (normTys tps ip ts) := by
  simp [normTy]

theorem normUnion_single {ip : Bool} {ms : List Ty} {x : Ty} (h : unionRes ip ms = [x]) :
    normUnion ip ms = x := by
  unfold normUnion; rw [h]; rfl

theorem normUnion_many {ip : Bool} {ms : List Ty} (h : ∀ x, unionRes ip ms ≠ [x]) :
    normUnion ip ms = .union (unionRes ip ms) := by
  unfold normUnion singleOrUnion
  split
  · next x hx => exact absurd hx (h x)
  · rfl

/-- print half: the normal form of a union prints like the union -/
theorem union_expr {g : GCtx} {ip : Bool} {ts : List Ty} (ih : ListGood g ip ts) :
    tyExpr ip (normTy g.tps ip (.union ts)) = tyExpr ip (.union ts) := by
  have hE : tyExprs ip (normTys g.tps ip ts) = tyExprs ip ts := listGood_exprs ih
  rw [normTy_union, tyExpr_union]
  have hmap : (unionRes ip (normTys g.tps ip ts)).map (tyExpr ip) =
      split3 (formSetK id ip (tyExprs ip ts)) := by
    rw [unionRes_map, ← tyExprs_eq_map ip (normTys g.tps ip ts), hE]
  by_cases hs : ∃ x, unionRes ip (normTys g.tps ip ts) = [x]
  · obtain ⟨x, hx⟩ := hs
    rw [normUnion_single hx]
    rw [hx] at hmap
    simp only [List.map_cons, List.map_nil] at hmap
    exact (buildUnion_single hmap.symm).symm
  · have hs' : ∀ x, unionRes ip (normTys g.tps ip ts) ≠ [x] := fun x hx => hs ⟨x, hx⟩
    rw [normUnion_many hs', tyExpr_union, tyExprs_eq_map, hmap, formSetK_split3, buildUnion_split3]

/-! ### adds half -/

theorem mem_tysAdds {ip : Bool} {ts : List Ty} {X : String} :
    X ∈ tysAdds ip ts ↔ ∃ t ∈ ts, X ∈ tyAdds ip t := by
  rw [tysAdds_eq]
  simp [List.mem_flatten]
  constructor
  · rintro ⟨l, ⟨t, ht, rfl⟩, hx⟩; exact ⟨t, ht, hx⟩
  · rintro ⟨t, ht, hx⟩; exact ⟨_, ⟨t, ht, rfl⟩, hx⟩

theorem fTys_mem {g : GCtx} {ip : Bool} : ∀ {ts : List Ty}, fTys g ip ts = true → ∀ {t : Ty}, t ∈ ts →
    fTy g ip t = true
  | [], _, _, ht => by simp at ht
  | a :: as, hf, t, ht => by
    simp only [fTys, Bool.and_eq_true] at hf
    rcases List.mem_cons.1 ht with rfl | ht
    · exact hf.1
    · exact fTys_mem hf.2 ht

/-- every member that requests a `typing` name survives into the member list of the normal form -/
theorem member_kept {g : GCtx} {ip : Bool} {ts : List Ty} (ih : ListGood g ip ts)
    (hf : fTys g ip ts = true) (hu : ts.any isUnionTy = false)
    (hsub : ∀ x ∈ tysAdds ip ts, x ∈ g.adds) {t : Ty} (ht : t ∈ ts) {X : String}
    (hX : X ∈ tyAdds ip t) : normTy g.tps ip t ∈ unionRes ip (normTys g.tps ip ts) := by
  rw [mem_unionRes]
  have hft : ∀ t ∈ ts, fTy g ip t = true := fun t ht => fTys_mem hf ht
  have hut : ∀ t ∈ ts, isUnionTy t = false := by
    intro t ht
    rw [Bool.eq_false_iff]
    intro h
    have : ts.any isUnionTy = true := List.any_eq_true.2 ⟨t, ht, h⟩
    rw [this] at hu; exact absurd hu (by simp)
  have hst : ∀ t ∈ ts, ∀ x ∈ tyAdds ip t, x ∈ g.adds := fun t ht x hx => hsub x (mem_tysAdds.2 ⟨t, ht, hx⟩)
  let E := tyExpr ip
  let ms := normTys g.tps ip ts
  have hms : ms = ts.map (normTy g.tps ip) := normTys_eq_map _ _ _
  have hmem : normTy g.tps ip t ∈ ms := by rw [hms]; exact List.mem_map.2 ⟨t, ht, rfl⟩
  -- the representative of its printed form in the de-duplicated list is the member itself
  have hkey := key_mem_dedupK (key := E) hmem
  obtain ⟨a', ha', hk⟩ := List.mem_map.1 hkey
  have ha'ms : a' ∈ ms := mem_dedupK ha'
  rw [hms] at ha'ms
  obtain ⟨t', ht', rfl⟩ := List.mem_map.1 ha'ms
  have heq : normTy g.tps ip t' = normTy g.tps ip t := by
    apply norm_eq_of_expr_eq (ih t' ht') (ih t ht) (hst t' ht') (hst t ht)
    have e1 := (ih t' ht').1
    have e2 := (ih t ht).1
    rw [← e1, ← e2]
    exact hk
  rw [heq] at ha'
  unfold formSetK
  simp only []
  cases ip with
  | false => simpa using ha'
  | true =>
    simp only [if_true, List.mem_filter]
    refine ⟨ha', ?_⟩
    simp only [Bool.not_eq_true', Bool.eq_false_iff, ne_eq, List.contains_iff_mem]
    intro hd
    rcases compatDrop_mem _ _ _ hd with h0 | ⟨cn, hcn, hname, _⟩
    · simp at h0
    · have hc : cn.1 ∈ compatItems.map Prod.fst := List.mem_map.2 ⟨cn, hcn, rfl⟩
      have e2 := (ih t ht).1
      rw [e2] at hname
      have := member_compat_adds (hft t ht) (hut t ht) hc hname
      rw [this] at hX
      simp at hX

theorem union_adds {g : GCtx} {ip : Bool} {ts : List Ty} (ih : ListGood g ip ts)
    (hf : fTys g ip ts = true) (hu : ts.any isUnionTy = false)
    (hsub : ∀ x ∈ tysAdds ip ts, x ∈ g.adds) (X : String) :
    X ∈ tyAdds ip (normTy g.tps ip (.union ts)) ↔ X ∈ tyAdds ip (.union ts) := by
  have hE : tyExprs ip (normTys g.tps ip ts) = tyExprs ip ts := listGood_exprs ih
  have hms : normTys g.tps ip ts = ts.map (normTy g.tps ip) := normTys_eq_map _ _ _
  rw [normTy_union, tyAdds_union]
  have hmap : (unionRes ip (normTys g.tps ip ts)).map (tyExpr ip) =
      split3 (formSetK id ip (tyExprs ip ts)) := by
    rw [unionRes_map, ← tyExprs_eq_map ip (normTys g.tps ip ts), hE]
  -- members of the result come from members of the union
  have hres_sub : ∀ a ∈ unionRes ip (normTys g.tps ip ts), ∃ t ∈ ts, a = normTy g.tps ip t := by
    intro a ha
    have := mem_formSetK (mem_unionRes.1 ha)
    rw [hms] at this
    obtain ⟨t, ht, rfl⟩ := List.mem_map.1 this
    exact ⟨t, ht, rfl⟩
  have hmembers : (∃ a ∈ unionRes ip (normTys g.tps ip ts), X ∈ tyAdds ip a) ↔ X ∈ tysAdds ip ts := by
    rw [mem_tysAdds]
    constructor
    · rintro ⟨a, ha, hx⟩
      obtain ⟨t, ht, rfl⟩ := hres_sub a ha
      exact ⟨t, ht, ((ih t ht).2.1 X).1 hx⟩
    · rintro ⟨t, ht, hx⟩
      exact ⟨_, member_kept ih hf hu hsub ht hx, ((ih t ht).2.1 X).2 hx⟩
  by_cases hs : ∃ x, unionRes ip (normTys g.tps ip ts) = [x]
  · obtain ⟨x, hx⟩ := hs
    rw [normUnion_single hx]
    rw [hx] at hmap hmembers
    simp only [List.map_cons, List.map_nil] at hmap
    rw [buildUnionAdds_single hmap.symm, List.append_nil, ← hmembers]
    simp
  · have hs' : ∀ x, unionRes ip (normTys g.tps ip ts) ≠ [x] := fun x hx => hs ⟨x, hx⟩
    rw [normUnion_many hs', tyAdds_union, tyExprs_eq_map, hmap, formSetK_split3, buildUnionAdds_split3,
      List.mem_append, List.mem_append, mem_tysAdds, hmembers]

end PytypeModel.Pytd
