import PytypeModel.Proofs.PyiTypesG

/-! C05, types, part H: plain generic types, heterogeneous tuples, callables. -/
namespace PytypeModel.Pytd

theorem reserved_facts {x : String} (h : reservedTypeNames.contains x = false) :
    x ≠ "Literal" ∧ x ≠ "Annotated" ∧ x ≠ "Tuple" ∧ x ≠ "Concatenate" ∧ x ≠ "Callable" ∧ x ≠ "nothing" := by
  have n := fun (y : String) (hy : y ∈ reservedTypeNames) => ne_of_not_contains h hy
  exact ⟨n _ (by decide), n _ (by decide), n _ (by decide), n _ (by decide), n _ (by decide), n _ (by decide)⟩

theorem bannedBase_facts {x : String} (h : typingBannedBase.contains x = false) :
    typingBanned.contains x = false ∧ x ≠ "Literal" ∧ x ≠ "Annotated" ∧ x ≠ "Concatenate" ∧ x ≠ "Callable" := by
  have hmem : ¬ x ∈ typingBanned ++ ["Literal", "Annotated", "Concatenate", "Callable", "Protocol", "Unpack"] := by
    intro hm
    have : typingBannedBase.contains x = true := List.contains_iff_mem.2 hm
    rw [this] at h
    exact absurd h (by simp)
  rw [List.mem_append, not_or] at hmem
  refine ⟨?_, ?_⟩
  · rw [Bool.eq_false_iff]
    intro hc
    exact hmem.1 (List.contains_iff_mem.1 hc)
  · have h2 := hmem.2
    simp only [List.mem_cons, List.not_mem_nil, or_false, not_or] at h2
    exact ⟨h2.1, h2.2.1, h2.2.2.1, h2.2.2.2.1⟩

theorem single_ne_two {x : String} (hx : comps x = [x]) {lit : String} {a b : String}
    (hl : comps lit = [a, b]) : x ≠ lit := by
  intro e
  subst e
  rw [hx] at hl
  simp at hl

/-- what the plain-generic proof needs to know about the printed base and its resolution -/
structure PlainBase (g : GCtx) (ip : Bool) (n : String) (x bn : String) : Prop where
  expr : nameExpr n = .name x
  norm : normName g.tps n = .named bn
  specialX : ∀ d needs, EnvOK g d needs → special d x = .plain
  specialBn : ∀ d needs, EnvOK g d needs → special d bn = .plain
  resolve : ∀ d, EnvOK g d (nameAdds n) → resolveType d x = .named bn
  notOptional : bn ≠ "typing.Optional"
  notUnion : bn ≠ "typing.Union"
  notAny : bn ≠ "typing.Any"
  notCallable : bn ≠ "typing.Callable"
  post : postTy g.tps (.named bn) = .named bn
  prints : nameExpr bn = .name x
  adds : nameAdds bn = nameAdds n
  head : ∀ d needs, EnvOK g d needs → ∀ pre, tyName pre = bn → (∀ m, pre ≠ .named m) → HeadOK d pre

theorem plainBase_of_fBase {g : GCtx} (hg : GOK g) (ip : Bool) {n : String} (hf : fBase g n = true)
    (hnt : nameExpr n ≠ .name "tuple") (hnc : n ≠ "typing.Callable")
    (hsub : ∀ y ∈ nameAdds n, y ∈ g.adds) : ∃ x bn, PlainBase g ip n x bn := by
  obtain ⟨hfn, hcases⟩ := fBase_cases hf
  unfold fName at hfn
  simp only [Bool.and_eq_true] at hfn
  obtain ⟨hm, hfn⟩ := hfn
  rcases hcases with ⟨x, hc, htp, hNT⟩ | ⟨x, hc, hb⟩
  · -- simple / builtin
    have hid : identOK x = true := by
      rcases hc with hc | hc
      · exact mName_simple hc hm
      · exact mName_builtin hc hm
    have hfs : fSimple g x = true := by
      rcases hc with hc | hc <;> (rw [hc] at hfn; exact hfn)
    have hx := identOK_comps hid
    have hNone := identOK_ne_None hid
    obtain ⟨hres, hadds, halias⟩ := fSimple_facts hfs
    obtain ⟨r1, r2, r3, r4, r5, r6⟩ := reserved_facts hres
    have hexpr : nameExpr n = .name x := by
      have : nameExpr n = simpleNameExpr x := by
        rcases hc with hc | hc <;> (unfold nameExpr; rw [hc])
      rw [this]; unfold simpleNameExpr; simp [hNT, hNone]
    have hxt : x ≠ "tuple" := by
      intro e; subst e; exact hnt hexpr
    have hnorm : normName g.tps n = .named x := by
      have : normName g.tps n = simpleNorm g.tps x := by
        rcases hc with hc | hc <;> (unfold normName; rw [hc])
      rw [this, simpleNorm_neg htp hNone]
    have hna : nameAdds n = [] := by
      rcases hc with hc | hc <;> (unfold nameAdds; rw [hc])
    have hFin : x ≠ "Final" := ne_of_not_contains hres (by decide)
    have hTA : x ≠ "TypeAlias" := ne_of_not_contains hres (by decide)
    refine ⟨x, x, ⟨hexpr, hnorm, ?_, ?_, ?_, ?_, ?_, ?_, ?_, ?_, ?_, ?_,
      fun d needs henv pre hp _ => headOK_single henv hx halias hFin hTA hp⟩⟩
    · intro d needs henv; exact special_single henv hx halias r1 r2 hxt r3 r4 r5
    · intro d needs henv; exact special_single henv hx halias r1 r2 hxt r3 r4 r5
    · intro d henv; exact resolveType_other henv hadds halias r6
    · exact single_ne_two hx (a := "typing") (b := "Optional") (by decide)
    · exact single_ne_two hx (a := "typing") (b := "Union") (by decide)
    · exact single_ne_two hx (a := "typing") (b := "Any") (by decide)
    · exact single_ne_two hx (a := "typing") (b := "Callable") (by decide)
    · rw [postTy_named, htp]; simp only [Bool.false_eq_true, if_false]; exact convNamed_single hx hNone
    · rw [nameExpr_single hx]; unfold simpleNameExpr; simp [hNT, hNone]
    · rw [nameAdds_single hx, hna]
  · -- typing
    have hid := mName_typing hc hm
    obtain ⟨hn, hcn, hx⟩ := classify_typing hc
    obtain ⟨hban, b1, b2, b3, b4⟩ := bannedBase_facts hb
    obtain ⟨hlk, hAny, hOpt, hUn, hInt, hNT, hnothing, hFin, hTA, hTup, htup⟩ := typingBanned_facts hban
    have hNone := identOK_ne_None hid
    have hexpr : nameExpr n = .name x := by
      unfold nameExpr; rw [hc]; unfold simpleNameExpr; simp [hNT, hNone]
    have hna : nameAdds n = [x] := by unfold nameAdds; rw [hc]
    have hxadds : x ∈ g.adds := hsub x (by rw [hna]; simp)
    have halias := adds_not_alias hg hxadds
    refine ⟨x, n, ⟨hexpr, by unfold normName; rw [hc], ?_, ?_, ?_, ?_, ?_, ?_, ?_, ?_, hexpr, rfl,
      fun d needs henv pre hp hnn => headOK_typing_sub hcn hFin hTA hp hnn⟩⟩
    · intro d needs henv; exact special_single henv hx halias b1 b2 htup hTup b3 b4
    · intro d needs henv; exact special_typing hcn b1 b2 hTup b3 b4
    · intro d henv
      rw [resolveType_imp henv (by rw [hna]; simp) hnothing, hn]
    · intro e; rw [e] at hcn; exact hOpt (by
        have : comps "typing.Optional" = ["typing", "Optional"] := by decide
        rw [this] at hcn; simp at hcn; exact hcn.symm)
    · intro e; rw [e] at hcn; exact hUn (by
        have : comps "typing.Union" = ["typing", "Union"] := by decide
        rw [this] at hcn; simp at hcn; exact hcn.symm)
    · intro e; rw [e] at hcn; exact hAny (by
        have : comps "typing.Any" = ["typing", "Any"] := by decide
        rw [this] at hcn; simp at hcn; exact hcn.symm)
    · exact hnc
    · exact postTy_typing_keep hg hcn hlk hAny

theorem ParsesTo_ne_emptyTuple {d : Defs} {es : List PyExpr} {pres : List Ty} (h : ParsesTo d es pres) :
    es ≠ [.emptyTuple] := by
  intro e
  subst e
  cases pres with
  | nil => simp [ParsesTo] at h
  | cons p ps =>
    have := h.1.2
    simp [isTypeExpr] at this

theorem parseTy_sub_plain (d : Defs) (x : String) (es : List PyExpr) (h : special d x = .plain) :
    parseTy d (.sub (.name x) es) =
      (if es = [.emptyTuple] then newType d x (some [])
       else do let ps ← parseArgs d es; newType d x (some ps)) := by
  unfold parseTy
  simp only [dottedName]
  rw [h]

/-- `Base[p₁, …]` for an ordinary base -/
theorem good_generic_plain {g : GCtx} (hg : GOK g) (ip : Bool) (b : Ty) (ps : List Ty)
    (hb : isNameTy b = true) (hf : fBase g (tyBaseName b) = true)
    (hnt : tyExpr false b ≠ .name "tuple") (hnc : tyBaseName b ≠ "typing.Callable") (hne : ps ≠ [])
    (ihps : ListGood g ip ps) (hsub : ∀ x ∈ tyAdds ip (.generic b ps), x ∈ g.adds) :
    TyGood g ip (.generic b ps) := by
  obtain ⟨e1, e2, e3, _, _⟩ := nameTy_facts hb g.tps ip g
  have e1' : tyExpr false b = nameExpr (tyBaseName b) := (nameTy_facts hb g.tps false g).1
  have haddsG : tyAdds ip (.generic b ps) = tyAdds ip b ++ tysAdds ip ps := by
    rw [tyAdds_generic]
    cases ps with
    | nil => exact absurd rfl hne
    | cons p rest => simp [hnc, tysAdds]
  obtain ⟨x, bn, pb⟩ := plainBase_of_fBase hg ip hf (e1' ▸ hnt) hnc (by
    intro y hy; exact hsub y (by rw [haddsG, e3]; simp [hy]))
  have hxt : PyExpr.name x ≠ .name "tuple" := by
    rw [← pb.expr, ← e1']; exact hnt
  have hnorm : normTy g.tps ip (.generic b ps) = .generic (.named bn) (normTys g.tps ip ps) := by
    rw [normTy_generic, e2, pb.norm]
    simp [hnc]
  have hex : tyExpr ip (.generic b ps) = .sub (.name x) (tyExprs ip ps) := by
    rw [tyExpr_generic, e1, pb.expr]; simp [hxt, hnc]
  have hex' : ∀ qs, tyExpr ip (.generic (.named bn) qs) = .sub (.name x) (tyExprs ip qs) := by
    intro qs
    rw [tyExpr_generic, tyExpr_named, pb.prints]
    simp [hxt, tyBaseName, pb.notCallable]
  have hadds' : ∀ qs, qs ≠ [] → tyAdds ip (.generic (.named bn) qs) = nameAdds bn ++ tysAdds ip qs := by
    intro qs hq
    rw [tyAdds_generic, tyAdds_named]
    cases qs with
    | nil => exact absurd rfl hq
    | cons p rest => simp [tyBaseName, pb.notCallable, tysAdds]
  have hnne : normTys g.tps ip ps ≠ [] := by
    cases ps with
    | nil => exact absurd rfl hne
    | cons p rest => simp [normTys]
  refine ⟨?_, ?_, ?_⟩
  · rw [hnorm, hex, hex', listGood_exprs ihps]
  · intro X
    rw [hnorm, hadds' _ hnne, haddsG, e3, pb.adds]
    simp [listGood_adds ihps X]
  · intro d henv
    obtain ⟨pres, hp1, hp2⟩ := listGood_parse ihps (henv.mono (by
      intro y hy; rw [haddsG]; simp [hy]))
    have henvb : EnvOK g d (nameAdds (tyBaseName b)) := henv.mono (by
      intro y hy; rw [haddsG, e3]; simp [hy])
    have hpne : pres ≠ [] := by
      intro e; subst e
      have := hp1.length
      cases ps with
      | nil => exact absurd rfl hne
      | cons p rest => simp [tyExprs] at this
    refine ⟨.generic (.named bn) pres, ?_, ?_, pb.head d _ henv _ rfl (by intro m; simp)⟩
    · rw [hex]
      rw [parseTy_sub_plain d x _ (pb.specialX d (tyAdds ip (.generic b ps)) henv),
        if_neg (ParsesTo_ne_emptyTuple hp1), parseArgs_types hp1]
      show newType d x (some (pres.map PArg.ty)) = _
      rw [newType_params (pb.resolve d henvb) pb.notOptional,
        parameterized_plain (pb.specialBn d (tyAdds ip (.generic b ps)) henv) pb.notAny hpne]
    · rw [hnorm, postTy_generic_plain]
      · rw [pb.post, hp2]
      · rw [pb.post]; exact pb.notOptional
      · rw [pb.post]; exact pb.notUnion

end PytypeModel.Pytd
