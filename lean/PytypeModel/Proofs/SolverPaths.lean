/-
Facts about the path finder and about goal removal that hold on every graph:
  * every node of the shortest path, every node returned by `FindHighestReachableWeight`, hence every new
    position chosen by `FindSolution`, is backward reachable from the current position;
  * a new position differs from the current one as soon as no remaining goal originates here;
  * `remove_finished_goals`: what is removed originates here, what remains does not (or was never registered
    here), every input goal is accounted for.
-/
import PytypeModel.Proofs.SolverReach

namespace PytypeModel.Typegraph

/-! ### shortest path -/

theorem weightOf_some_mem {path : List NodeId} {n : NodeId} {w : Nat} (h : weightOf path n = some w) :
    n ∈ path := by
  induction path generalizing w with
  | nil => simp [weightOf] at h
  | cons x xs ih =>
    unfold weightOf at h
    split at h
    · rename_i hx; subst hx; exact List.mem_cons_self
    · cases hw : weightOf xs n with
      | none => simp [hw] at h
      | some w' => exact List.mem_cons_of_mem _ (ih hw)

/-- every predecessor pointer recorded by the BFS points to a node reachable from `start` -/
def PrevOK (g : Graph) (start : NodeId) (prev : Prev) : Prop :=
  ∀ k v, prev.find k = some (some v) → BackReach g start v

theorem Prev.find_append (p : Prev) (n : NodeId) (v : Option NodeId) (k : NodeId) :
    Prev.find (p ++ [(n, v)]) k = match p.find k with
      | some x => some x
      | none => if n = k then some v else none := by
  induction p with
  | nil => simp [Prev.find]
  | cons e es ih =>
    obtain ⟨k', v'⟩ := e
    simp only [List.cons_append, Prev.find]
    split
    · rfl
    · exact ih

theorem prevOK_emplaceAll {g : Graph} {start node : NodeId} (hnode : BackReach g start node) :
    ∀ (inc : List NodeId) (prev : Prev), PrevOK g start prev → PrevOK g start (prev.emplaceAll inc node) := by
  intro inc
  unfold Prev.emplaceAll
  induction inc with
  | nil => intro prev h; exact h
  | cons n ns ih =>
    intro prev h
    simp only [List.foldl_cons]
    apply ih
    split
    · exact h
    · rename_i hnone
      intro k v hk
      rw [Prev.find_append] at hk
      cases hf : Prev.find prev k with
      | some x =>
        rw [hf] at hk
        simp only [Option.some.injEq] at hk
        exact h k v (hk ▸ hf)
      | none =>
        rw [hf] at hk
        simp only at hk
        split at hk
        · simp only [Option.some.injEq] at hk
          subst hk
          exact hnode
        · simp at hk

theorem bfs_sound' (g : Graph) (fin : NodeId) (blocked : List NodeId) (start : NodeId) :
    ∀ (fuel : Nat) (queue : List NodeId) (prev : Prev) (seen : List NodeId) (p : Prev),
      bfs g fin blocked fuel queue prev seen = some p →
      (∀ x ∈ queue, BackReach g start x) → PrevOK g start prev → PrevOK g start p := by
  intro fuel
  induction fuel with
  | zero => intro queue prev seen p h; simp [bfs] at h
  | succ fuel ih =>
    intro queue prev seen p h hq hp
    cases queue with
    | nil => simp [bfs] at h
    | cons node queue =>
      unfold bfs at h
      split at h
      · simp only [Option.some.injEq] at h
        subst h
        exact hp
      · split at h
        · exact ih _ _ _ _ h (fun x hx => hq x (List.mem_cons_of_mem _ hx)) hp
        · refine ih _ _ _ _ h (fun x hx => ?_) (prevOK_emplaceAll (hq node List.mem_cons_self) _ _ hp)
          rcases List.mem_append.1 hx with hx | hx
          · exact hq x (List.mem_cons_of_mem _ hx)
          · exact BackReach.step (hq node List.mem_cons_self) hx

theorem rebuild_reach {g : Graph} {start : NodeId} {prev : Prev} (hp : PrevOK g start prev) :
    ∀ (fuel : Nat) (node : NodeId) (acc : List NodeId), BackReach g start node →
      (∀ x ∈ acc, BackReach g start x) → ∀ x ∈ rebuild prev fuel node acc, BackReach g start x := by
  intro fuel
  induction fuel with
  | zero => intro node acc _ hacc x hx; exact hacc x (by simpa [rebuild] using hx)
  | succ fuel ih =>
    intro node acc hnode hacc x hx
    unfold rebuild at hx
    split at hx
    · rename_i p hf
      exact ih p (node :: acc) (hp node p hf) (fun y hy => by
        rcases List.mem_cons.1 hy with rfl | hy
        · exact hnode
        · exact hacc y hy) x hx
    · rcases List.mem_cons.1 hx with rfl | hx
      · exact hnode
      · exact hacc x hx

/-- every node of `FindShortestPathToNode(start, finish, blocked)` is backward reachable from `start` -/
theorem shortestPath_reach (g : Graph) (start fin : NodeId) (blocked : List NodeId) :
    ∀ x ∈ shortestPath g start fin blocked, BackReach g start x := by
  intro x hx
  unfold shortestPath at hx
  split at hx
  · simp at hx
  · rename_i prev hb
    have hq : ∀ y ∈ [start], BackReach g start y := by
      intro y hy
      simp only [List.mem_singleton] at hy
      subst hy
      exact BackReach.refl _
    have hp0 : PrevOK g start [(start, none)] := by
      intro k v hk
      simp only [Prev.find] at hk
      split at hk <;> simp at hk
    have hfin := bfs_sound g fin blocked start _ _ _ _ _ hb hq
    have hp := bfs_sound' g fin blocked start _ _ _ _ _ hb hq hp0
    exact rebuild_reach hp _ _ _ hfin (by simp) x hx

/-! ### articulation walk -/

theorem fhrw_mem (g : Graph) (start : NodeId) (path : List NodeId) :
    ∀ (fuel : Nat) (stack seen : List NodeId) (best : Option (Nat × NodeId)) (n : NodeId),
      (∀ w m, best = some (w, m) → m ∈ path) →
      (fhrw g start path fuel stack seen best).1 = some n → n ∈ path := by
  intro fuel
  induction fuel with
  | zero =>
    intro stack seen best n hb h
    simp only [fhrw, Option.map_eq_some_iff] at h
    obtain ⟨⟨w, m⟩, hbm, rfl⟩ := h
    exact hb w m hbm
  | succ fuel ih =>
    intro stack seen best n hb h
    cases stack with
    | nil =>
      simp only [fhrw, Option.map_eq_some_iff] at h
      obtain ⟨⟨w, m⟩, hbm, rfl⟩ := h
      exact hb w m hbm
    | cons node stack =>
      unfold fhrw at h
      split at h
      · exact ih _ _ _ _ hb h
      · simp only at h
        have hb' : ∀ w m, (match weightOf path node, best with
            | some w, none => some (w, node)
            | some w, some (bw, bn) => if w > bw then some (w, node) else some (bw, bn)
            | none, b => b) = some (w, m) → m ∈ path := by
          intro w m hm
          split at hm
          · rename_i w' hw
            simp only [Option.some.injEq, Prod.mk.injEq] at hm
            exact hm.2 ▸ weightOf_some_mem hw
          · rename_i w' bw bn hw
            split at hm
            · simp only [Option.some.injEq, Prod.mk.injEq] at hm
              exact hm.2 ▸ weightOf_some_mem hw
            · exact hb w m hm
          · exact hb w m hm
        split at h
        · exact ih _ _ _ _ hb' h
        · exact ih _ _ _ _ hb' h

theorem walk_mem (g : Graph) (fin : NodeId) (path : List NodeId) :
    ∀ (fuel : Nat) (node : NodeId) (seen acc : List NodeId) (x : NodeId),
      x ∈ walk g fin path fuel node seen acc → x ∈ acc ∨ x = node ∨ x ∈ path := by
  intro fuel
  induction fuel with
  | zero => intro node seen acc x hx; exact Or.inl (by simpa [walk] using hx)
  | succ fuel ih =>
    intro node seen acc x hx
    unfold walk at hx
    simp only at hx
    have hacc' : ∀ y, y ∈ (if (g.condition node).isSome = true then acc ++ [node] else acc) →
        y ∈ acc ∨ y = node := by
      intro y hy
      split at hy
      · rcases List.mem_append.1 hy with hy | hy
        · exact Or.inl hy
        · exact Or.inr (by simpa using hy)
      · exact Or.inl hy
    split at hx
    · rcases hacc' x hx with h | h
      · exact Or.inl h
      · exact Or.inr (Or.inl h)
    · split at hx
      · rename_i nxt seen' hf
        have hnxt : nxt ∈ path := by
          unfold findHighestReachableWeight at hf
          exact fhrw_mem g node path _ _ _ none nxt (by simp) (by rw [hf])
        rcases ih _ _ _ x hx with h | h | h
        · rcases hacc' x h with h | h
          · exact Or.inl h
          · exact Or.inr (Or.inl h)
        · exact Or.inr (Or.inr (h ▸ hnxt))
        · exact Or.inr (Or.inr h)
      · rcases hacc' x hx with h | h
        · exact Or.inl h
        · exact Or.inr (Or.inl h)

/-- the condition nodes reported by `FindNodeBackwards` are backward reachable from `start` -/
theorem findNodeBackwards_cpath_reach (g : Graph) (start fin : NodeId) (blocked : List NodeId) :
    ∀ x ∈ (findNodeBackwards g start fin blocked).2, BackReach g start x := by
  intro x hx
  unfold findNodeBackwards at hx
  simp only at hx
  split at hx
  · simp at hx
  · simp only at hx
    rcases walk_mem g fin _ _ _ _ _ x hx with h | h | h
    · simp at h
    · exact h ▸ BackReach.refl _
    · exact shortestPath_reach g start fin blocked x h

/-! ### new positions -/

theorem newPositions_fold_mem (g : Graph) (pos : NodeId) (blocked : List NodeId) (p : NodeId) :
    ∀ (fins : List NodeId) (acc : List NodeId),
      p ∈ fins.foldl (fun acc fin =>
        let (ex, cpath) := findNodeBackwards g pos fin blocked
        if ex then sinsert ((cpath.find? (fun n => n != pos)).getD fin) acc else acc) acc →
      p ∈ acc ∨ ∃ fin ∈ fins, (findNodeBackwards g pos fin blocked).1 = true ∧
        p = (((findNodeBackwards g pos fin blocked).2.find? (fun n => n != pos)).getD fin) := by
  intro fins
  induction fins with
  | nil => intro acc h; exact Or.inl h
  | cons f fs ih =>
    intro acc h
    simp only [List.foldl_cons] at h
    rcases ih _ h with h1 | ⟨fin, hf, hfin⟩
    · generalize hr : findNodeBackwards g pos f blocked = r at h1
      obtain ⟨ex, cpath⟩ := r
      simp only at h1
      split at h1
      · rename_i hex
        rcases mem_sinsert.1 h1 with h2 | h2
        · exact Or.inr ⟨f, List.mem_cons_self, by rw [hr]; exact hex, by rw [hr]; exact h2⟩
        · exact Or.inl h2
      · exact Or.inl h1
    · exact Or.inr ⟨fin, List.mem_cons_of_mem _ hf, hfin⟩

/-- a new position is backward reachable from the current one; it is either a condition node different
from the current position, or an origin node of a remaining goal. -/
theorem newPositions_mem {g : Graph} {pos : NodeId} {new : List BId} {p : NodeId}
    (h : p ∈ newPositions g pos new) :
    BackReach g pos p ∧ (p ≠ pos ∨ p ∈ finishNodes g new) := by
  unfold newPositions at h
  rcases newPositions_fold_mem g pos _ p _ _ h with h | ⟨fin, hf, hex, hp⟩
  · simp at h
  · cases hfind : (findNodeBackwards g pos fin (blockedOf g new)).2.find? (fun n => n != pos) with
    | none =>
      rw [hfind] at hp
      simp only [Option.getD_none] at hp
      subst hp
      exact ⟨findNodeBackwards_sound g pos _ _ hex, Or.inr hf⟩
    | some c =>
      rw [hfind] at hp
      simp only [Option.getD_some] at hp
      subst hp
      have hmem := List.mem_of_find?_eq_some hfind
      have hne := List.find?_some hfind
      exact ⟨findNodeBackwards_cpath_reach g pos fin _ _ hmem, Or.inl (by simpa using hne)⟩

theorem findOrigin_none_of_not_mem {g : Graph} {b : BId} {n : NodeId}
    (h : ∀ o ∈ (g.binding b).origins, o.node ≠ n) : g.findOrigin b n = none := by
  unfold Graph.findOrigin
  rw [List.find?_eq_none]
  intro o ho
  simpa using h o ho

/-- when no remaining goal originates at the current position, every new position is a different node -/
theorem newPositions_ne {g : Graph} {pos : NodeId} {new : List BId} {p : NodeId}
    (hnew : ∀ b ∈ new, g.findOrigin b pos = none) (h : p ∈ newPositions g pos new) :
    BackReach g pos p ∧ p ≠ pos := by
  obtain ⟨hr, hd⟩ := newPositions_mem h
  refine ⟨hr, ?_⟩
  rcases hd with hd | hd
  · exact hd
  · obtain ⟨b, hb, o, ho, hon⟩ := mem_finishNodes hd
    intro heq
    have hnone := hnew b hb
    unfold Graph.findOrigin at hnone
    rw [List.find?_eq_none] at hnone
    have := hnone o ho
    simp [hon, heq] at this

theorem BackReach.rank_le {g : Graph} {rank : NodeId → Nat}
    (hr : ∀ n m, m ∈ g.incoming n → rank m < rank n) {a b : NodeId} (h : BackReach g a b) :
    a = b ∨ rank b < rank a := by
  induction h with
  | refl => exact Or.inl rfl
  | @step m k _ hk ih =>
    have := hr m k hk
    rcases ih with rfl | ih
    · exact Or.inr this
    · exact Or.inr (Nat.lt_trans this ih)

/-! ### remove_finished_goals -/

/-- invariants of one DFS branch of `remove_finished_goals` -/
theorem trav_inv (g : Graph) (pos : NodeId) :
    ∀ (fuel : Nat) (gtr seen R0 N0 : List BId) (R N : List BId),
      (R, N) ∈ trav g pos fuel gtr seen R0 N0 →
      (∀ b ∈ seen, b ∈ R0 ∨ b ∈ N0) →
      (∀ b ∈ R, b ∈ R0 ∨ (g.findOrigin b pos).isSome) ∧
      (∀ b ∈ N, b ∈ N0 ∨ g.findOrigin b pos = none) ∧
      (∀ b ∈ R0, b ∈ R) ∧ (∀ b ∈ N0, b ∈ N) ∧
      (∀ b ∈ gtr, b ∈ R ∨ b ∈ N) := by
  intro fuel
  induction fuel with
  | zero =>
    intro gtr seen R0 N0 R N h hseen
    cases gtr with
    | nil =>
      simp only [trav, List.mem_singleton, Prod.mk.injEq] at h
      obtain ⟨rfl, rfl⟩ := h
      exact ⟨fun b hb => Or.inl hb, fun b hb => Or.inl hb, fun b hb => hb, fun b hb => hb, by simp⟩
    | cons x xs => simp [trav] at h
  | succ fuel ih =>
    intro gtr seen R0 N0 R N h hseen
    cases gtr with
    | nil =>
      simp only [trav, List.mem_singleton, Prod.mk.injEq] at h
      obtain ⟨rfl, rfl⟩ := h
      exact ⟨fun b hb => Or.inl hb, fun b hb => Or.inl hb, fun b hb => hb, fun b hb => hb, by simp⟩
    | cons goal gtr =>
      unfold trav at h
      split at h
      · rename_i hs
        obtain ⟨h1, h2, h3, h4, h5⟩ := ih _ _ _ _ _ _ h hseen
        refine ⟨h1, h2, h3, h4, ?_⟩
        intro b hb
        rcases List.mem_cons.1 hb with rfl | hb
        · have : b ∈ seen := by simpa using hs
          rcases hseen b this with h' | h'
          · exact Or.inl (h3 b h')
          · exact Or.inr (h4 b h')
        · exact h5 b hb
      · split at h
        · rename_i ho
          have hseen' : ∀ b ∈ goal :: seen, b ∈ R0 ∨ b ∈ sinsert goal N0 := by
            intro b hb
            rcases List.mem_cons.1 hb with rfl | hb
            · exact Or.inr (mem_sinsert.2 (Or.inl rfl))
            · rcases hseen b hb with h' | h'
              · exact Or.inl h'
              · exact Or.inr (mem_sinsert.2 (Or.inr h'))
          obtain ⟨h1, h2, h3, h4, h5⟩ := ih _ _ _ _ _ _ h hseen'
          refine ⟨h1, ?_, h3, fun b hb => h4 b (mem_sinsert.2 (Or.inr hb)), ?_⟩
          · intro b hb
            rcases h2 b hb with h' | h'
            · rcases mem_sinsert.1 h' with rfl | h''
              · exact Or.inr ho
              · exact Or.inl h''
            · exact Or.inr h'
          · intro b hb
            rcases List.mem_cons.1 hb with rfl | hb
            · exact Or.inr (h4 b (mem_sinsert.2 (Or.inl rfl)))
            · exact h5 b hb
        · rename_i o ho
          rw [List.mem_flatMap] at h
          obtain ⟨ss, _, h⟩ := h
          have hseen' : ∀ b ∈ goal :: seen, b ∈ sinsert goal R0 ∨ b ∈ N0 := by
            intro b hb
            rcases List.mem_cons.1 hb with rfl | hb
            · exact Or.inl (mem_sinsert.2 (Or.inl rfl))
            · rcases hseen b hb with h' | h'
              · exact Or.inl (mem_sinsert.2 (Or.inr h'))
              · exact Or.inr h'
          obtain ⟨h1, h2, h3, h4, h5⟩ := ih _ _ _ _ _ _ h hseen'
          refine ⟨?_, h2, fun b hb => h3 b (mem_sinsert.2 (Or.inr hb)), h4, ?_⟩
          · intro b hb
            rcases h1 b hb with h' | h'
            · rcases mem_sinsert.1 h' with rfl | h''
              · exact Or.inr (by rw [ho]; rfl)
              · exact Or.inl h''
            · exact Or.inr h'
          · intro b hb
            rcases List.mem_cons.1 hb with rfl | hb
            · exact Or.inl (h3 b (mem_sinsert.2 (Or.inl rfl)))
            · exact h5 b (mem_sunion.2 (Or.inl hb))

/-- `remove_finished_goals` on a well-formed graph: removed goals originate at `pos`, remaining goals do
not, and every input goal is one or the other. -/
theorem removeFinishedGoals_inv {g : Graph} (hwf : g.WF) (pos : NodeId) (goals : List BId)
    {R N : List BId} (h : (R, N) ∈ removeFinishedGoals g pos goals) :
    (∀ b ∈ R, (g.findOrigin b pos).isSome) ∧ (∀ b ∈ N, g.findOrigin b pos = none) ∧
    (∀ b ∈ goals, b ∈ R ∨ b ∈ N) := by
  unfold removeFinishedGoals at h
  obtain ⟨h1, h2, _, h4, h5⟩ := trav_inv g pos _ _ _ _ _ _ _ h (by simp)
  refine ⟨fun b hb => (h1 b hb).resolve_left (by simp), ?_, ?_⟩
  · intro b hb
    rcases h2 b hb with h' | h'
    · simp only [List.mem_filter, Bool.not_eq_eq_eq_not, Bool.not_true, List.contains_eq_mem,
        decide_eq_false_iff_not] at h'
      by_cases hlt : b < g.bindings.length
      · cases ho : g.findOrigin b pos with
        | none => rfl
        | some o => exact absurd (hwf.registered b pos hlt (by rw [ho]; rfl)) h'.2
      · apply findOrigin_none_of_not_mem
        intro o ho
        unfold Graph.binding at ho
        rw [List.getD_eq_getElem?_getD, List.getElem?_eq_none (Nat.le_of_not_lt hlt)] at ho
        have hd : (default : Binding).origins = [] := rfl
        rw [Option.getD_none, hd] at ho
        exact absurd ho List.not_mem_nil
    · exact h'
  · intro b hb
    by_cases hc : (g.node pos).bindings.contains b = true
    · exact h5 b (List.mem_filter.2 ⟨hb, hc⟩)
    · exact Or.inr (h4 b (List.mem_filter.2 ⟨hb, by simpa using hc⟩))

end PytypeModel.Typegraph
