import PytypeModel.Proofs.PyiUnitC

/-! C05, unit level, part D: `build_type_decl_unit`, `post_process_ast`, sorting of type parameters. -/
namespace PytypeModel.Pytd

/-! ### items -/

theorem itemConsts_aliases (pas : List (String × Ty)) (rest : List Item) :
    itemConsts (pas.map aliasItem ++ rest) = itemConsts rest := by
  induction pas with
  | nil => rfl
  | cons p ps ih => simp [aliasItem, itemConsts, ih]

theorem itemConsts_consts (pcs : List Const) (h : ∀ c ∈ pcs, c.name ≠ "__slots__") :
    itemConsts (pcs.map Item.const) = pcs := by
  induction pcs with
  | nil => rfl
  | cons c cs ih =>
    have hc := h c (by simp)
    simp [itemConsts, hc, ih (fun c' hc' => h c' (by simp [hc']))]

theorem itemSlots_ac (pas : List (String × Ty)) (pcs : List Const) :
    itemSlots (pas.map aliasItem ++ pcs.map Item.const) = [] := by
  induction pas with
  | nil =>
    induction pcs with
    | nil => rfl
    | cons c cs ih => simpa [itemSlots] using ih
  | cons p ps ih => simpa [aliasItem, itemSlots] using ih

theorem itemClasses_ac (pas : List (String × Ty)) (pcs : List Const) :
    itemClasses (pas.map aliasItem ++ pcs.map Item.const) = [] := by
  induction pas with
  | nil =>
    induction pcs with
    | nil => rfl
    | cons c cs ih => simpa [itemClasses] using ih
  | cons p ps ih => simpa [aliasItem, itemClasses] using ih

theorem itemFuncs_ac (pas : List (String × Ty)) (pcs : List Const) :
    itemFuncs (pas.map aliasItem ++ pcs.map Item.const) = [] := by
  induction pas with
  | nil =>
    induction pcs with
    | nil => rfl
    | cons c cs ih => simpa [itemFuncs] using ih
  | cons p ps ih => simpa [aliasItem, itemFuncs] using ih

theorem mergeSigs_nil : mergeSigs [] = .ok [] := by
  unfold mergeSigs
  rw [groupSigs]
  rfl

theorem removeDupsBy_nodup {α : Type} (nm : α → String) : ∀ (l : List α), (l.map nm).Nodup →
    removeDupsBy nm l = l
  | [], _ => by rw [removeDupsBy]
  | x :: xs, h => by
    rw [List.map_cons, List.nodup_cons] at h
    rw [removeDupsBy]
    have h1 : xs.filter (fun y => nm y = nm x) = [] := by
      rw [List.filter_eq_nil_iff]
      intro a ha
      have : nm a ≠ nm x := fun e => h.1 (e ▸ List.mem_map.2 ⟨a, ha, rfl⟩)
      simpa using this
    have h2 : xs.filter (fun y => nm y ≠ nm x) = xs := by
      rw [List.filter_eq_self]
      intro a ha
      have : nm a ≠ nm x := fun e => h.1 (e ▸ List.mem_map.2 ⟨a, ha, rfl⟩)
      simpa using this
    rw [h1, h2, removeDupsBy_nodup nm xs h.2]
    rfl

theorem resolveAliases_keep (pcs : List Const) (hty : ∀ c ∈ pcs, c.name ≠ "typing") :
    ∀ (al : List Alias), (∀ a ∈ al, AliasOK a.ty) → resolveAliases [] pcs al = .ok al
  | [], _ => rfl
  | a :: as, h => by
    have ih := resolveAliases_keep pcs hty as (fun a' ha' => h a' (by simp [ha']))
    have ha := h a (by simp)
    simp only [resolveAliases, ih, bind, Except.bind]
    cases hty' : a.ty with
    | named n =>
      obtain ⟨h1, h2⟩ := ha n hty'
      simp only [h1, Bool.false_eq_true, if_false]
      rcases h2 with h2 | ⟨x, h2⟩
      · rw [h2]
      · rw [h2]
        have : pcs.any (fun c => decide (c.name = "typing")) = false := by
          rw [Bool.eq_false_iff]
          intro hc
          obtain ⟨c, hc1, hc2⟩ := List.any_eq_true.1 hc
          exact hty c hc1 (by simpa using hc2)
        simp [this]
    | _ => rfl

/-! ### `tps` only matters as a set -/

mutual
theorem postTy_congr {t1 t2 : List String} (h : ∀ x, t1.contains x = t2.contains x) :
    ∀ t : Ty, postTy t1 t = postTy t2 t
  | .named n => by simp only [postTy, h n]
  | .generic b ps => by simp only [postTy, postTy_congr h b, postTys_congr h ps]
  | .tuple b ps => by simp only [postTy, postTy_congr h b, postTys_congr h ps]
  | .callable b ps => by simp only [postTy, postTy_congr h b, postTys_congr h ps]
  | .union ts => by simp only [postTy, postTys_congr h ts]
  | .annotated t as => by simp only [postTy, postTy_congr h t]
  | .any => by simp [postTy]
  | .nothing => by simp [postTy]
  | .cls _ => by simp [postTy]
  | .late _ => by simp [postTy]
  | .typeParam _ _ => by simp [postTy]
  | .literal _ => by simp [postTy]
theorem postTys_congr {t1 t2 : List String} (h : ∀ x, t1.contains x = t2.contains x) :
    ∀ ts : List Ty, postTys t1 ts = postTys t2 ts
  | [] => rfl
  | t :: ts => by simp only [postTys, postTy_congr h t, postTys_congr h ts]
end

/-! ### sorting type parameters by name -/

theorem mem_insertDecl {d e : TypeParamDecl} {l : List TypeParamDecl} :
    e ∈ insertDecl d l ↔ e = d ∨ e ∈ l := by
  induction l with
  | nil => simp [insertDecl]
  | cons x xs ih =>
    simp only [insertDecl]
    split
    · simp
    · simp only [List.mem_cons, ih]
      constructor
      · rintro (h | h | h)
        · exact Or.inr (Or.inl h)
        · exact Or.inl h
        · exact Or.inr (Or.inr h)
      · rintro (h | h | h)
        · exact Or.inr (Or.inl h)
        · exact Or.inl h
        · exact Or.inr (Or.inr h)

theorem mem_sortDecls {e : TypeParamDecl} {l : List TypeParamDecl} : e ∈ sortDecls l ↔ e ∈ l := by
  unfold sortDecls
  induction l with
  | nil => simp
  | cons x xs ih => simp only [List.foldr_cons, mem_insertDecl, ih, List.mem_cons]

theorem insertDecl_map (f : TypeParamDecl → TypeParamDecl) (hf : ∀ d, (f d).name = d.name)
    (d : TypeParamDecl) (l : List TypeParamDecl) : insertDecl (f d) (l.map f) = (insertDecl d l).map f := by
  induction l with
  | nil => rfl
  | cons x xs ih =>
    simp only [List.map_cons, insertDecl, hf]
    split
    · rfl
    · simp [ih]

theorem sortDecls_map (f : TypeParamDecl → TypeParamDecl) (hf : ∀ d, (f d).name = d.name)
    (l : List TypeParamDecl) : sortDecls (l.map f) = (sortDecls l).map f := by
  unfold sortDecls
  induction l with
  | nil => rfl
  | cons x xs ih => simp only [List.map_cons, List.foldr_cons, ih, insertDecl_map f hf]

theorem contains_sortDecls_names (l : List TypeParamDecl) (x : String) :
    ((sortDecls l).map (·.name)).contains x = (l.map (·.name)).contains x := by
  rw [Bool.eq_iff_iff]
  simp only [List.contains_iff_mem, List.mem_map, mem_sortDecls]


theorem perm_insertDecl (d : TypeParamDecl) (l : List TypeParamDecl) : (insertDecl d l).Perm (d :: l) := by
  induction l with
  | nil => exact List.Perm.refl _
  | cons x xs ih =>
    simp only [insertDecl]
    split
    · exact List.Perm.refl _
    · exact (List.Perm.cons x ih).trans (List.Perm.swap d x xs)

theorem perm_sortDecls (l : List TypeParamDecl) : (sortDecls l).Perm l := by
  unfold sortDecls
  induction l with
  | nil => exact List.Perm.refl _
  | cons x xs ih =>
    simp only [List.foldr_cons]
    exact (perm_insertDecl x _).trans (List.Perm.cons x ih)

theorem map2_eq {α β : Type} {γ : Type} (f : α → String) (f2 : α → Ty) (h : β → String) (h2 : β → Ty)
    (mk : String → Ty → γ) : ∀ (l : List α) (m : List β), l.map f = m.map h → l.map f2 = m.map h2 →
    l.map (fun a => mk (f a) (f2 a)) = m.map (fun b => mk (h b) (h2 b))
  | [], [], _, _ => rfl
  | [], _ :: _, e, _ => by simp at e
  | _ :: _, [], e, _ => by simp at e
  | a :: as, b :: bs, e1, e2 => by
    simp only [List.map_cons, List.cons.injEq] at e1 e2 ⊢
    exact ⟨by rw [e1.1, e2.1], map2_eq f f2 h h2 mk as bs e1.2 e2.2⟩

end PytypeModel.Pytd
