import PytypeModel.Proofs.Reach

namespace PytypeModel.Reach
open Relation

/-- rows of `addNode`, element-wise. -/
theorem addNode_row (r : Reach) (h : r.rows.length = r.n) (i : Nat) (hi : i < r.n + 1) :
    (r.addNode.rows).getD i [] =
      if i = r.n then (growRow ((r.n + 1 + 63) / 64) []).set (r.n / 64) (nodeBit r.n)
      else growRow ((r.n + 1 + 63) / 64) (r.rows.getD i []) := by
  unfold Reach.addNode
  simp only [List.getD_eq_getElem?_getD]
  have hlen : ((r.rows ++ [[]]).map (growRow ((r.n + 1 + 63) / 64))).length = r.n + 1 := by
    simp [h]
  by_cases hin : i = r.n
  · subst hin
    have h1 : r.n < ((r.rows ++ [[]]).map (growRow ((r.n + 1 + 63) / 64))).length := by omega
    rw [List.getElem?_set_self h1]
    have : (r.rows ++ [[]])[r.n]? = some [] := by
      rw [List.getElem?_append_right (by omega)]; simp [h]
    rw [List.getElem?_map, this]; simp
  · have hne : r.n ≠ i := fun e => hin e.symm
    rw [List.getElem?_set_ne hne]
    have hi' : i < r.rows.length := by omega
    rw [List.getElem?_map, List.getElem?_append_left hi', List.getElem?_eq_getElem hi']
    simp [hin]

theorem inv_newNode {E : Nat → Nat → Prop} {p : Prog} (inv : Inv E p) :
    Inv E (p.step .newNode) := by
  have hn : (p.step .newNode).reach.n = p.reach.n + 1 := rfl
  have hrows : (p.step .newNode).reach.rows = p.reach.addNode.rows := rfl
  have hsz : (p.reach.n + 63) / 64 ≤ (p.reach.n + 1 + 63) / 64 := by omega
  have hword : p.reach.n / 64 < (p.reach.n + 1 + 63) / 64 := by omega
  have hdomB : ∀ x y, (fun x y => E y x) x y → x < p.reach.n ∧ y < p.reach.n :=
    fun x y h => (inv.dom y x h).symm
  -- bit of any row of the new matrix
  have key : ∀ i j, i < p.reach.n + 1 →
      getBit ((p.step .newNode).reach.rows.getD i []) j =
        if i = p.reach.n then decide (j = p.reach.n) else getBit (p.reach.rows.getD i []) j := by
    intro i j hi
    rw [hrows, addNode_row p.reach inv.rows_len i hi]
    by_cases hin : i = p.reach.n
    · simp only [hin, if_true]
      rw [getBit_set_nodeBit _ _ _ (by rw [length_growRow _ _ (by simp)]; exact hword)]
      by_cases hj : j / 64 = p.reach.n / 64
      · simp [hj]
      · have : j ≠ p.reach.n := fun e => hj (by rw [e])
        simp [hj, this, getBit_growRow, getBit_nil]
    · simp [hin, getBit_growRow]
  constructor
  · show p.reach.addNode.rows.length = _
    simp [Reach.addNode, inv.rows_len]; rfl
  · show (p.out ++ [[]]).length = _
    simp [inv.out_len]; rfl
  · intro i hi
    rw [hn] at hi ⊢
    rw [hrows, addNode_row p.reach inv.rows_len i hi]
    by_cases hin : i = p.reach.n
    · simp only [hin, if_true, List.length_set]
      exact length_growRow _ _ (by simp)
    · simp only [hin, if_false]
      apply length_growRow
      rw [inv.row_len i (by omega)]; exact hsz
  · intro i j hi hj
    rw [hn] at hi hj
    rw [key i j hi]
    by_cases hin : i = p.reach.n
    · subst hin
      simp only [if_true, decide_eq_true_eq]
      constructor
      · intro h; rw [h]
      · intro h; exact (rtg_from_fresh hdomB h (Nat.le_refl _)).symm
    · simp only [hin, if_false]
      have hi' : i < p.reach.n := by omega
      by_cases hjn : j = p.reach.n
      · subst hjn
        rw [inv.zero i _ hi' (Nat.le_refl _)]
        constructor
        · intro h; cases h
        · intro h; exact absurd (rtg_to_fresh hdomB h (Nat.le_refl _)) hin
      · exact inv.bit i j hi' (by omega)
  · intro i j hi hj
    rw [hn] at hi hj
    rw [key i j hi]
    by_cases hin : i = p.reach.n
    · have : j ≠ p.reach.n := by omega
      simp [hin, this]
    · simp only [hin, if_false]
      exact inv.zero i j (by omega) (by omega)
  · intro a b ha hb
    rw [hn] at ha
    have hout : (p.step .newNode).out = p.out ++ [[]] := rfl
    rw [hout] at hb
    by_cases han : a = p.reach.n
    · subst han
      rw [List.getD_eq_getElem?_getD, List.getElem?_append_right (by rw [inv.out_len]; exact Nat.le_refl _)] at hb
      simp [inv.out_len] at hb
    · have ha' : a < p.out.length := by rw [inv.out_len]; omega
      rw [List.getD_eq_getElem?_getD, List.getElem?_append_left ha'] at hb
      exact inv.out a b (by omega) (by rwa [List.getD_eq_getElem?_getD])
  · intro a b hab
    have := inv.dom a b hab
    rw [hn]; omega

end PytypeModel.Reach

namespace PytypeModel.Reach
open Relation

theorem getBit_upd (src : Nat) (d row : List Nat) (h : row.length = d.length) (j : Nat) :
    getBit (upd src d row) j = (getBit row j || (getBit row src && getBit d j)) := by
  unfold upd
  by_cases hb : getBit row src = true
  · simp [hb, getBit_orRow _ _ h]
  · simp [hb]

theorem length_upd (src : Nat) (d row : List Nat) (h : row.length = d.length) :
    (upd src d row).length = row.length := by
  unfold upd; split
  · exact length_orRow _ _ h
  · rfl

/-- a real `ConnectTo`: new forward edge `a → b`, fed backwards to the analyzer. -/
theorem inv_addEdge {E : Nat → Nat → Prop} {p : Prog} (inv : Inv E p) (a b : Nat)
    (ha : a < p.reach.n) (hb : b < p.reach.n) :
    Inv (fun x y => E x y ∨ (x = a ∧ y = b))
      { reach := p.reach.addConn b a, out := p.out.set a (p.out.getD a [] ++ [b]) } := by
  rw [addConn_eq_simul _ _ _ inv.rows_len]
  have hrow : ∀ i, i < p.reach.n →
      (p.reach.addConnSimul b a).rows.getD i [] =
        upd b (p.reach.rows.getD a []) (p.reach.rows.getD i []) := by
    intro i hi
    have hi' : i < p.reach.rows.length := by rw [inv.rows_len]; exact hi
    simp only [Reach.addConnSimul, List.getD_eq_getElem?_getD, List.getElem?_map,
      List.getElem?_eq_getElem hi', Option.map_some, Option.getD_some]
    rfl
  have hlenEq : ∀ i, i < p.reach.n →
      (p.reach.rows.getD i []).length = (p.reach.rows.getD a []).length := by
    intro i hi; rw [inv.row_len i hi, inv.row_len a ha]
  constructor
  · show (p.reach.addConnSimul b a).rows.length = p.reach.n
    simp [Reach.addConnSimul, inv.rows_len]
  · show (p.out.set a _).length = p.reach.n
    simp [inv.out_len]
  · intro i hi
    change i < p.reach.n at hi
    show ((p.reach.addConnSimul b a).rows.getD i []).length = (p.reach.n + 63) / 64
    rw [hrow i hi, length_upd _ _ _ (hlenEq i hi), inv.row_len i hi]
  · intro i j hi hj
    change i < p.reach.n at hi
    change j < p.reach.n at hj
    show getBit ((p.reach.addConnSimul b a).rows.getD i []) j = true ↔ _
    rw [hrow i hi, getBit_upd _ _ _ (hlenEq i hi)]
    have hcong : ReflTransGen (fun x y => E y x ∨ (y = a ∧ x = b)) i j ↔
        ReflTransGen (fun x y => E y x ∨ (x = b ∧ y = a)) i j :=
      rtg_congr (fun x y => by constructor <;> (rintro (h | ⟨h1, h2⟩); exact Or.inl h; exact Or.inr ⟨h2, h1⟩)) i j
    rw [hcong, rtg_add_edge (fun x y => E y x) b a i j]
    rw [← inv.bit i j hi hj, ← inv.bit i b hi hb, ← inv.bit a j ha hj]
    simp [Bool.or_eq_true, Bool.and_eq_true]
  · intro i j hi hj
    change i < p.reach.n at hi
    change p.reach.n ≤ j at hj
    show getBit ((p.reach.addConnSimul b a).rows.getD i []) j = false
    rw [hrow i hi, getBit_upd _ _ _ (hlenEq i hi), inv.zero i j hi hj, inv.zero a j ha hj]
    simp
  · intro x y hx hy
    change x < p.reach.n at hx
    change y ∈ (p.out.set a (p.out.getD a [] ++ [b])).getD x [] at hy
    by_cases hxa : x = a
    · subst hxa
      have hx' : x < p.out.length := by rw [inv.out_len]; exact hx
      rw [List.getD_eq_getElem?_getD, List.getElem?_set_self hx'] at hy
      simp only [Option.getD_some, List.mem_append, List.mem_singleton] at hy
      rcases hy with hy | hy
      · exact Or.inl (inv.out x y hx hy)
      · exact Or.inr ⟨rfl, hy⟩
    · have hne : a ≠ x := fun e => hxa e.symm
      rw [List.getD_eq_getElem?_getD, List.getElem?_set_ne hne] at hy
      exact Or.inl (inv.out x y hx (by rwa [List.getD_eq_getElem?_getD]))
  · rintro x y (h | ⟨rfl, rfl⟩)
    · exact inv.dom x y h
    · exact ⟨ha, hb⟩

/-- self-edges and duplicates: `ConnectTo` returns early and the relation's closure does not
change either. -/
theorem inv_connect {E : Nat → Nat → Prop} {p : Prog} (inv : Inv E p) (a b : Nat)
    (ha : a < p.reach.n) (hb : b < p.reach.n) :
    ∃ E', (∀ x y, E' x y ↔ (E x y ∨ (x = a ∧ y = b))) ∧ Inv E' (p.step (.connect a b)) := by
  refine ⟨fun x y => E x y ∨ (x = a ∧ y = b), fun _ _ => Iff.rfl, ?_⟩
  unfold Prog.step
  by_cases hab : a = b
  · subst hab
    simp only [if_true]
    -- a self-loop adds nothing to the reflexive-transitive closure
    refine { inv with bit := ?_, out := ?_, dom := ?_ }
    · intro i j hi hj
      rw [inv.bit i j hi hj]
      have hcong : ReflTransGen (fun x y => E y x ∨ (y = a ∧ x = a)) i j ↔
          ReflTransGen (fun x y => E y x ∨ (x = a ∧ y = a)) i j :=
        rtg_congr (fun x y => by constructor <;> (rintro (h | ⟨h1, h2⟩); exact Or.inl h; exact Or.inr ⟨h2, h1⟩)) i j
      rw [hcong, rtg_add_edge]
      constructor
      · exact Or.inl
      · rintro (h | ⟨h1, h2⟩)
        · exact h
        · exact h1.trans h2
    · intro x y hx hy; exact Or.inl (inv.out x y hx hy)
    · rintro x y (h | ⟨rfl, rfl⟩)
      · exact inv.dom x y h
      · exact ⟨ha, ha⟩
  · simp only [hab, if_false]
    by_cases hdup : (p.out.getD a []).contains b = true
    · simp only [hdup, if_true]
      have hE : E a b := inv.out a b ha (by simpa using hdup)
      exact inv.congr (fun x y => ⟨Or.inl, fun h => h.elim id (fun ⟨h1, h2⟩ => h1 ▸ h2 ▸ hE)⟩)
    · simp only [hdup]
      exact inv_addEdge inv a b ha hb

/-- forward edges requested so far (self-edges and duplicates included: they do not change
reachability, which is part of what is proved). -/
def Edge (ops : List Op) (a b : Nat) : Prop := Op.connect a b ∈ ops

theorem step_n (p : Prog) (a b : Nat) : (p.step (.connect a b)).reach.n = p.reach.n := by
  show (if a = b then p else if (p.out.getD a []).contains b then p
    else { reach := p.reach.addConn b a, out := p.out.set a (p.out.getD a [] ++ [b]) : Prog }).reach.n = _
  split
  · rfl
  · split <;> rfl

theorem inv_foldl (ops : List Op) : ∀ (p : Prog) (E : Nat → Nat → Prop), Inv E p →
    wfOps p.reach.n ops = true →
    Inv (fun a b => E a b ∨ Edge ops a b) (ops.foldl Prog.step p) := by
  induction ops with
  | nil =>
    intro p E inv _
    exact inv.congr (fun a b => ⟨Or.inl, fun h => h.elim id (fun h => by simp [Edge] at h)⟩)
  | cons op ops ih =>
    intro p E inv hwf
    cases op with
    | newNode =>
      simp only [wfOps] at hwf
      have := ih (p.step .newNode) E (inv_newNode inv) hwf
      simp only [List.foldl_cons]
      refine this.congr (fun a b => ?_)
      simp [Edge]
    | connect a b =>
      simp only [wfOps, Bool.and_eq_true, decide_eq_true_eq] at hwf
      obtain ⟨⟨ha, hb⟩, hrest⟩ := hwf
      obtain ⟨E', hE', inv'⟩ := inv_connect inv a b ha hb
      have hn : (p.step (.connect a b)).reach.n = p.reach.n := step_n p a b
      have := ih (p.step (.connect a b)) E' inv' (by rw [hn]; exact hrest)
      simp only [List.foldl_cons]
      refine this.congr (fun x y => ?_)
      rw [hE']
      simp only [Edge, List.mem_cons, Op.connect.injEq]
      constructor
      · rintro ((h | ⟨h1, h2⟩) | h)
        · exact Or.inl h
        · exact Or.inr (Or.inl ⟨h1, h2⟩)
        · exact Or.inr (Or.inr h)
      · rintro (h | (⟨h1, h2⟩ | h))
        · exact Or.inl (Or.inl h)
        · exact Or.inl (Or.inr ⟨h1, h2⟩)
        · exact Or.inr h

theorem inv_run (ops : List Op) (h : wfOps 0 ops = true) : Inv (Edge ops) (Prog.run ops) := by
  have := inv_foldl ops Prog.empty _ inv_empty h
  exact this.congr (fun a b => ⟨fun h => h.elim False.elim id, Or.inr⟩)

end PytypeModel.Reach
