/-
`Graph.IdsOK` (every id occurring in a source set is a binding id) is an invariant of every
well-formed history: source sets are only ever built from the ids an operation is given (checked by
`Op.ok`), from the id of an existing binding, or from source sets that are already in the graph, and
`bindings.length` never decreases.
-/
import PytypeModel.Proofs.SolverWF
import PytypeModel.Proofs.SolverRemoval

namespace PytypeModel.Typegraph

/-! ### list facts -/

theorem mem_ssInsert {addr : BId → Nat} {s t : List BId} :
    ∀ {l : List (List BId)}, t ∈ ssInsert addr s l → t = s ∨ t ∈ l
  | [], h => by
    simp only [ssInsert, List.mem_singleton] at h
    exact Or.inl h
  | u :: us, h => by
    unfold ssInsert at h
    split at h
    · rcases List.mem_cons.1 h with h | h
      · exact Or.inl h
      · exact Or.inr h
    · split at h
      · exact Or.inr h
      · rcases List.mem_cons.1 h with h | h
        · exact Or.inr (h ▸ List.mem_cons_self)
        · rcases mem_ssInsert h with h | h
          · exact Or.inl h
          · exact Or.inr (List.mem_cons_of_mem _ h)

theorem default_binding_origins : (default : Binding).origins = [] := rfl

theorem Graph.binding_origins_ge (g : Graph) (b : BId) (h : g.bindings.length ≤ b) :
    (g.binding b).origins = [] := by
  unfold Graph.binding
  rw [List.getD_eq_getElem?_getD, List.getElem?_eq_none h]
  rfl

/-! ### graph edits -/

theorem ids_of_bindings_eq {g g' : Graph} (h : g.IdsOK) (he : g'.bindings = g.bindings) : g'.IdsOK := by
  intro b o ss x ho hss hx
  unfold Graph.binding at ho
  rw [he] at ho ⊢
  exact h b o ss x ho hss hx

theorem ids_addNode {g : Graph} (h : g.IdsOK) (c : Option BId) : (g.addNode c).IdsOK :=
  ids_of_bindings_eq h rfl

theorem ids_addEdge {g : Graph} (h : g.IdsOK) (a b : NodeId) : (g.addEdge a b).IdsOK :=
  ids_of_bindings_eq h rfl

theorem ids_setCondition {g : Graph} (h : g.IdsOK) (n : NodeId) (c : Option BId) : (g.setCondition n c).IdsOK :=
  ids_of_bindings_eq h rfl

theorem ids_newBinding {g : Graph} (h : g.IdsOK) (v : VId) (d a : Nat) : (g.newBinding v d a).1.IdsOK := by
  intro (b : Nat) o ss (x : Nat) ho hss hx
  unfold Graph.newBinding at ho ⊢
  simp only [List.length_append, List.length_singleton]
  by_cases hlt : b < g.bindings.length
  · have hbind : ({ g with bindings := g.bindings ++ [{ var := v, data := d, addr := a, origins := [] }] } : Graph).binding b
        = g.binding b := by
      unfold Graph.binding
      exact getD_append_left' _ _ _ _ hlt
    rw [hbind] at ho
    exact Nat.lt_succ_of_lt (h b o ss x ho hss hx)
  · by_cases hb_eq : b = g.bindings.length
    · subst hb_eq
      have hbind : (({ g with bindings := g.bindings ++ [{ var := v, data := d, addr := a, origins := [] }] } : Graph).binding
          g.bindings.length).origins = [] := by
        unfold Graph.binding
        simp [List.getD_eq_getElem?_getD]
      rw [hbind] at ho
      exact absurd ho List.not_mem_nil
    · have hge : g.bindings.length + 1 ≤ b := by omega
      have hbind := Graph.binding_origins_ge
          ({ g with bindings := g.bindings ++ [{ var := v, data := d, addr := a, origins := [] }] } : Graph) b (by
            simpa using hge)
      rw [hbind] at ho
      exact absurd ho List.not_mem_nil

theorem ids_addOriginSS {g : Graph} (h : g.IdsOK) (b : BId) (n : NodeId) (ss : List BId)
    (hss : ∀ x ∈ ss, x < g.bindings.length) : (g.addOriginSS b n ss).IdsOK := by
  intro b' o ss' x ho hss' hx
  rw [(addOriginSS_lengths g b n ss).1]
  unfold Graph.addOriginSS at ho
  simp only at ho
  split at ho
  · -- the origin exists: one more source set
    unfold Graph.binding at ho
    simp only at ho
    rw [getD_set'] at ho
    split at ho
    · rename_i hc
      obtain ⟨rfl, _⟩ := hc
      simp only [List.mem_map] at ho
      obtain ⟨o', ho', rfl⟩ := ho
      split at hss'
      · simp only at hss'
        rcases mem_ssInsert hss' with rfl | hss'
        · exact hss x (mem_ofList.1 hx)
        · exact h b o' ss' x ho' hss' hx
      · exact h b o' ss' x ho' hss' hx
    · exact h b' o ss' x ho hss' hx
  · -- a new origin with the single source set
    unfold Graph.binding at ho
    simp only at ho
    rw [getD_set'] at ho
    split at ho
    · rename_i hc
      obtain ⟨rfl, _⟩ := hc
      simp only at ho
      rcases List.mem_append.1 ho with ho | ho
      · exact h b o ss' x ho hss' hx
      · simp only [List.mem_singleton] at ho
        subst ho
        simp only [List.mem_singleton] at hss'
        subst hss'
        exact hss x (mem_ofList.1 hx)
    · exact h b' o ss' x ho hss' hx

/-! ### program operations -/

/-- the source-set ids are binding ids and ids that were below `B` stay in range -/
structure KeepsI (B : Nat) (s : PState) : Prop where
  ids : s.g.IdsOK
  bindings : B ≤ s.g.bindings.length

theorem KeepsI.mono {B B' : Nat} {s : PState} (h : KeepsI B s) (hB : B' ≤ B) : KeepsI B' s :=
  ⟨h.ids, Nat.le_trans hB h.bindings⟩

theorem KeepsI.self {B : Nat} {s : PState} (h : KeepsI B s) : KeepsI s.g.bindings.length s :=
  ⟨h.ids, Nat.le_refl _⟩

theorem keepsI_foldl {α : Type} {B : Nat} (f : PState → α → PState) (P : α → Prop)
    (hf : ∀ s x, P x → KeepsI B s → KeepsI B (f s x)) :
    ∀ (xs : List α) (s : PState), (∀ x ∈ xs, P x) → KeepsI B s → KeepsI B (xs.foldl f s)
  | [], _, _, h => h
  | x :: xs, s, hp, h =>
    keepsI_foldl f P hf xs (f s x) (fun y hy => hp y (List.mem_cons_of_mem _ hy))
      (hf s x (hp x List.mem_cons_self) h)

theorem keepsI_newNode {B : Nat} {s : PState} (h : KeepsI B s) (c) : KeepsI B (s.newNode c) :=
  ⟨ids_addNode h.ids c, h.bindings⟩

theorem keepsI_connectTo {B : Nat} {s : PState} (h : KeepsI B s) (a b) : KeepsI B (s.connectTo a b) := by
  unfold PState.connectTo
  split
  · exact ⟨ids_addEdge h.ids a b, h.bindings⟩
  · exact h

theorem keepsI_setCond {B : Nat} {s : PState} (h : KeepsI B s) (n c) : KeepsI B (s.setCond n c) :=
  ⟨ids_setCondition h.ids n c, h.bindings⟩

theorem keepsI_findOrAddBinding {B : Nat} {s : PState} (h : KeepsI B s) (v d) :
    KeepsI B (s.findOrAddBinding v d).1 := by
  unfold PState.findOrAddBinding
  split
  · exact h
  · have hr := ids_newBinding h.ids v d (s.addrs.getD s.g.bindings.length s.g.bindings.length)
    simp only [Graph.newBinding] at hr ⊢
    refine ⟨hr, ?_⟩
    simp only [List.length_append, List.length_singleton]
    exact Nat.le_succ_of_le h.bindings

theorem keepsI_addOrigin {B : Nat} {s : PState} (h : KeepsI B s) (b n ss)
    (hss : ∀ x ∈ ss, x < s.g.bindings.length) : KeepsI B (s.addOrigin b n ss) :=
  ⟨ids_addOriginSS h.ids b n ss hss, by
    show B ≤ (s.g.addOriginSS b n ss).bindings.length
    rw [(addOriginSS_lengths s.g b n ss).1]; exact h.bindings⟩

theorem keepsI_copyOrigins {B : Nat} {s : PState} (h : KeepsI B s) (tgt other : BId) (w : Option NodeId)
    (add : List BId) (ho : other < s.g.bindings.length) (hadd : ∀ x ∈ add, x < s.g.bindings.length) :
    KeepsI B (s.copyOrigins tgt other w add) := by
  have h0 : KeepsI s.g.bindings.length s := h.self
  unfold PState.copyOrigins
  split
  · rename_i n
    refine keepsI_addOrigin h _ _ _ ?_
    intro x hx
    rcases mem_sinsert.1 hx with rfl | hx
    · exact ho
    · exact hadd x (mem_ofList.1 hx)
  · refine KeepsI.mono ?_ h.bindings
    apply keepsI_foldl _ (fun o : Origin => ∀ ss ∈ o.sourceSets, ∀ x ∈ ss, x < s.g.bindings.length) _ _ _ _ h0
    · intro s1 o hon hk
      apply keepsI_foldl _ (fun ss : List BId => ∀ x ∈ ss, x < s.g.bindings.length) _ _ _ hon hk
      intro s2 ss hss hk2
      refine keepsI_addOrigin hk2 _ _ _ ?_
      intro x hx
      rcases mem_sunion.1 hx with hx | hx
      · exact Nat.lt_of_lt_of_le (hadd x (mem_ofList.1 hx)) hk2.bindings
      · exact Nat.lt_of_lt_of_le (hss x hx) hk2.bindings
    · intro o hoo ss hss x hx
      exact h.ids other o ss x hoo hss hx

theorem keepsI_pasteBinding {B : Nat} {s : PState} (h : KeepsI B s) (v : VId) (b : BId) (w : Option NodeId)
    (add : List BId) (hb : b < s.g.bindings.length) (hadd : ∀ x ∈ add, x < s.g.bindings.length) :
    KeepsI B (s.pasteBinding v b w add) := by
  have h0 : KeepsI s.g.bindings.length s := h.self
  unfold PState.pasteBinding
  have h1 := keepsI_findOrAddBinding h0 v (s.g.binding b).data
  generalize s.findOrAddBinding v (s.g.binding b).data = r at h1
  obtain ⟨s1, nb⟩ := r
  simp only at h1 ⊢
  have hb1 : b < s1.g.bindings.length := Nat.lt_of_lt_of_le hb h1.bindings
  have hadd1 : ∀ x ∈ add, x < s1.g.bindings.length := fun x hx => Nat.lt_of_lt_of_le (hadd x hx) h1.bindings
  have fin : ∀ w', KeepsI B (s1.copyOrigins nb b w' add) := fun w' =>
    (keepsI_copyOrigins h1 nb b w' add hb1 hadd1).mono h.bindings
  split
  · exact fin none
  · rename_i n
    split
    · exact fin (some n)
    · exact fin none

theorem all_okB {s : PState} {l : List BId} (h : l.all s.okB = true) : ∀ x ∈ l, x < s.g.bindings.length := by
  intro x hx
  have := List.all_eq_true.1 h x hx
  simpa [PState.okB] using this

theorem mem_varBindings_lt {g : Graph} {v : VId} {b : BId} (hb : b ∈ g.varBindings v) : b < g.bindings.length := by
  unfold Graph.varBindings at hb
  rw [List.mem_filter, List.mem_range] at hb
  exact hb.1

/-- a well-formed operation keeps the source-set ids in range -/
theorem idsOK_step (s : PState) (op : Op) (h : s.g.IdsOK) (hok : op.ok s = true) : (s.step op).g.IdsOK := by
  have h0 : KeepsI s.g.bindings.length s := ⟨h, Nat.le_refl _⟩
  cases op with
  | newNode c => exact (keepsI_newNode h0 c).ids
  | connectNew a c => exact (keepsI_connectTo (keepsI_newNode h0 c) a _).ids
  | connectTo a b => exact (keepsI_connectTo h0 a b).ids
  | newVar => exact h
  | newVarWith ds ss w =>
    simp only [Op.ok, Bool.and_eq_true] at hok
    have hss := all_okB hok.1
    show (s.newVarWith ds ss w).g.IdsOK
    unfold PState.newVarWith
    simp only [PState.newVar]
    have hk0 : KeepsI s.g.bindings.length ({ s with nVars := s.nVars + 1 } : PState) := ⟨h, Nat.le_refl _⟩
    refine (keepsI_foldl (B := s.g.bindings.length) _ (fun _ : Nat => True) ?_ ds _
      (fun _ _ => trivial) hk0).ids
    intro s1 d _ hk
    have h1 := keepsI_findOrAddBinding hk s.nVars d
    generalize s1.findOrAddBinding s.nVars d = r at h1
    obtain ⟨s2, b⟩ := r
    exact keepsI_addOrigin h1 _ _ _ (fun x hx => Nat.lt_of_lt_of_le (hss x hx) h1.bindings)
  | addBinding v d o =>
    show (s.addBinding v d o).g.IdsOK
    unfold PState.addBinding
    have h1 := keepsI_findOrAddBinding h0 v d
    generalize s.findOrAddBinding v d = r at h1
    obtain ⟨s1, b⟩ := r
    simp only at h1 ⊢
    split
    · exact h1.ids
    · rename_i ss w
      simp only [Op.ok, Bool.and_eq_true] at hok
      have hss := all_okB hok.2.1
      exact (keepsI_addOrigin h1 _ _ _ (fun x hx => Nat.lt_of_lt_of_le (hss x hx) h1.bindings)).ids
  | addOrigin b w ss =>
    simp only [Op.ok, Bool.and_eq_true] at hok
    exact (keepsI_addOrigin h0 b w ss (all_okB hok.2)).ids
  | pasteBinding v b w a =>
    simp only [Op.ok, Bool.and_eq_true, PState.okB, decide_eq_true_eq] at hok
    exact (keepsI_pasteBinding h0 v b w a hok.1.1.2 (all_okB hok.2)).ids
  | pasteVariable v v2 w a =>
    simp only [Op.ok, Bool.and_eq_true] at hok
    have hadd := all_okB hok.2
    show (s.pasteVariable v v2 w a).g.IdsOK
    unfold PState.pasteVariable
    refine (keepsI_foldl (B := s.g.bindings.length) _
      (fun b : BId => b < s.g.bindings.length) ?_ _ _ ?_ h0).ids
    · intro s1 b hb hk
      exact keepsI_pasteBinding hk v b w a (Nat.lt_of_lt_of_le hb hk.bindings)
        (fun x hx => Nat.lt_of_lt_of_le (hadd x hx) hk.bindings)
    · intro b hb
      exact mem_varBindings_lt hb
  | pasteNewData v b d =>
    simp only [Op.ok, Bool.and_eq_true, PState.okB, decide_eq_true_eq] at hok
    show (s.pasteNewData v b d).g.IdsOK
    unfold PState.pasteNewData
    have h1 := keepsI_findOrAddBinding h0 v d
    generalize s.findOrAddBinding v d = r at h1
    obtain ⟨s1, nb⟩ := r
    exact (keepsI_copyOrigins h1 nb b none [] (Nat.lt_of_lt_of_le hok.2 h1.bindings)
      (fun x hx => absurd hx List.not_mem_nil)).ids
  | assignBinding b w =>
    simp only [Op.ok, Bool.and_eq_true, PState.okB, decide_eq_true_eq] at hok
    show (s.assignBinding b w).g.IdsOK
    unfold PState.assignBinding
    simp only [PState.newVar]
    have h0' : KeepsI s.g.bindings.length { s with nVars := s.nVars + 1 } := ⟨h, Nat.le_refl _⟩
    have h1 := keepsI_findOrAddBinding h0' s.nVars (s.g.binding b).data
    generalize ({ s with nVars := s.nVars + 1 } : PState).findOrAddBinding s.nVars (s.g.binding b).data = r at h1
    obtain ⟨s1, nb⟩ := r
    exact (keepsI_copyOrigins h1 nb b w [] (Nat.lt_of_lt_of_le hok.1 h1.bindings)
      (fun x hx => absurd hx List.not_mem_nil)).ids
  | assignVar v w =>
    show (s.assignVar v w).g.IdsOK
    unfold PState.assignVar
    simp only [PState.newVar]
    have hk0 : KeepsI s.g.bindings.length ({ s with nVars := s.nVars + 1 } : PState) := ⟨h, Nat.le_refl _⟩
    refine (keepsI_foldl (B := s.g.bindings.length) _
      (fun b : BId => b < s.g.bindings.length) ?_ _ _ ?_ hk0).ids
    · intro s1 b hb hk
      have h1 := keepsI_findOrAddBinding hk s.nVars (s1.g.binding b).data
      generalize s1.findOrAddBinding s.nVars (s1.g.binding b).data = r at h1
      obtain ⟨s2, nb⟩ := r
      exact keepsI_copyOrigins h1 nb b w [] (Nat.lt_of_lt_of_le hb h1.bindings)
        (fun x hx => absurd hx List.not_mem_nil)
    · intro b hb
      exact mem_varBindings_lt hb
  | setCond n c => exact (keepsI_setCond h0 n c).ids
  | query q => exact (ask_g s q).symm ▸ h

theorem idsOK_empty : Graph.empty.IdsOK := by
  intro b o ss x ho
  rw [Graph.binding_origins_ge Graph.empty b (Nat.zero_le _)] at ho
  exact absurd ho List.not_mem_nil

theorem idsOK_run : ∀ (ops : List Op) (s : PState), s.g.IdsOK → wfHistory s ops = true → (s.run ops).g.IdsOK
  | [], _, h, _ => h
  | op :: ops, s, h, hwf => by
    simp only [wfHistory, Bool.and_eq_true] at hwf
    exact idsOK_run ops (s.step op) (idsOK_step s op h hwf.1) hwf.2

/-- **every graph built by a well-formed history has only binding ids in its source sets** -/
theorem idsOK_built (addrs : List Nat) (ops : List Op) (h : wfHistory (PState.init addrs) ops = true) :
    ((PState.init addrs).run ops).g.IdsOK :=
  idsOK_run ops _ idsOK_empty h

end PytypeModel.Typegraph
